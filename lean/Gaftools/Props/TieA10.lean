import Gaftools.Model.Conv
import Gaftools.Model.ConvText
import Gaftools.Gen.ConvLoopU
import Gaftools.Gen.Coords
import Gaftools.Props.TieA
import Gaftools.Props.TieA4
import Gaftools.Props.Glue
/-!
# Tie A for the path loop of `conversion.to_unstable` (C01, C02)

`Gen/ConvLoopU.lean` is regenerated from `gaftools/conversion.py` on every run: the body of `for nd in gaf_contigs:` translated
statement by statement into `Gen.convTokStep` (orientation token, interval-vs-bare parsing with every `[k]`, two-name unpacking and
`int()` that can raise, the default orientation from the strand, the call of `search_intervals`, the slice `[start : end + 1]`, the
inner loop `Gen.convScanStep` with its three overlap cases and the `new_start` / `new_total` accumulation, the two emission loops),
and the assignments before the loop into `Gen.convInit`.

The theorems say that the hand-written model — `ConvText.parseStableItems` (tokens → items) followed by `Conv.itemStep` /
`Conv.scanWindow` / `Conv.toUnstable`, the functions about which C01/C02 are proved and which the driver runs — computes exactly
what the translated loop prescribes:

* `convScanStep_gen`, `scanWindow_gen`: the inner loop IS `scanWindow`;
* `convTokStep_orient`, `convTokStep_item`: one iteration on an orientation token / on a contig token IS the parser's step
  followed by `itemStep`;
* `convLoop_fold`: the whole loop from any state; `toUnstable_gen`: the whole function (loop from `Gen.convInit`, then the already
  tied `Gen.unstableCoords`; `split_contig` still unbound after the loop = `UnboundLocalError` = the model's `items.isEmpty`);
* `toUnstable_gen_ivs`, `toUnstable_gen_bare`: the hypothesis holds for the two shapes of stable path gaftools writes.

Hypothesis (`TokOk`), stated on the token list, needed because the model's `SItem` cannot say two things the code can do:
an interval token must have an orientation token somewhere before it (the model's parser gives up otherwise, the code takes the
strand's orientation), and a bare contig token must not be preceded by an orientation token that differs from the orientation in
force (the code obeys the token, the model ignores it).  Both are outside what `to_stable` ever writes; see the final report for the
three witnesses.  `int()` of a string is the model's `toInt` (ASCII digits only; Python also accepts a sign, blanks, `_`).
-/
namespace Gaftools.TieA
open Gaftools.Gaf Gaftools.Conv Gaftools.ConvText

/-- what `search_intervals` started at a non-negative index can return -/
theorem searchIv_range (iv : List Seg) (qs qe : Int) (fuel : Nat) (s e : Int) (hs : 0 ≤ s) (r : Int × Int)
    (h : Conv.searchIv iv qs qe fuel s e = some r) : r = (-1, -1) ∨ (0 ≤ r.1 ∧ r.1 ≤ r.2) := by
  induction fuel generalizing s e with
  | zero => simp [Conv.searchIv] at h
  | succ fuel ih =>
    unfold Conv.searchIv at h
    by_cases hse : s ≤ e
    · have hm : ¬ (s + (e - s) / 2 < 0) := by omega
      simp only [hse, if_true, hm, if_false] at h
      cases hget : iv[(s + (e - s) / 2).toNat]? with
      | none => simp [hget] at h
      | some sg =>
        simp only [hget] at h
        by_cases h1 : qe ≤ sg.so
        · simp only [h1, if_true] at h; exact ih s _ hs h
        · by_cases h3 : qs ≥ sg.en
          · simp only [h1, if_false, h3, if_true] at h; exact ih _ e (by omega) h
          · simp only [h1, if_false, h3] at h
            cases h
            exact Or.inr ⟨hs, hse⟩
    · simp only [hse, if_false] at h
      cases h
      exact Or.inl rfl

theorem pySlice_window (iv : List Seg) (r : Int × Int) (h : r = (-1, -1) ∨ (0 ≤ r.1 ∧ r.1 ≤ r.2)) :
    Gen.pySlice iv r.1 (r.2 + 1) = window iv r := by
  unfold Gen.pySlice window
  rcases h with rfl | ⟨h0, h1⟩
  · simp
    omega
  · have h2 : ¬ (r.1 < 0) := by omega
    have h3 : ¬ (r.2 + 1 < 0) := by omega
    simp only [h2, h3, if_false]
    by_cases hl : r.1 ≤ (iv.length : Int)
    · rw [Int.min_eq_left hl]
      by_cases hl2 : r.2 + 1 ≤ (iv.length : Int)
      · rw [Int.min_eq_left hl2]
      · rw [Int.min_eq_right (by omega)]
        rw [List.take_of_length_le, List.take_of_length_le] <;> simp <;> omega
    · rw [Int.min_eq_right (by omega), Int.min_eq_right (by omega)]
      rw [List.drop_eq_nil_of_le (by omega), List.drop_eq_nil_of_le (by omega)]
      simp

theorem emit_fold (o : Bool) (l : List String) (init : List (Bool × String)) :
    l.foldlM (fun (acc : List (Bool × String)) (i : String) => some (acc ++ [(o, i)])) init = some (init ++ l.map (fun i => (o, i))) := by
  induction l generalizing init with
  | nil => simp
  | cons a l ih => simp [List.foldlM_cons, ih]

theorem emit_foldr (o : Bool) (l : List String) (init : List (Bool × String)) :
    l.foldrM (fun (i : String) (acc : List (Bool × String)) => some (acc ++ [(o, i)])) init = some (init ++ (l.map (fun i => (o, i))).reverse) := by
  have := emit_fold o l.reverse init
  simpa [List.foldlM_reverse] using this

theorem convScanStep_gen (isSplit : Bool) (qs qe : Int) (ids : List String) (ns nt : Int) (sg : Seg) :
    Gen.convScanStep qs isSplit qe (ns, ids, nt) sg =
      (let c := overlapCase sg qs qe
       let ns' := if c = 1 ∧ ns = -1 then (if isSplit then qs else qs - sg.so) else ns
       if c ≠ 0 then (ns', ids ++ [sg.id], nt + (sg.en - sg.so)) else (ns', ids, nt)) := by
  have he : sg.so + (sg.en - sg.so) = sg.en := by omega
  unfold Gen.convScanStep overlapCase
  simp only [he]
  by_cases h1 : sg.so ≤ qs ∧ qs < sg.en
  · by_cases h4 : ns = -1 <;> cases isSplit <;> simp [h1, h4]
  · by_cases h2 : sg.so < qe ∧ qe ≤ sg.en
    · simp [h1, h2]
    · by_cases h3 : qs < sg.so ∧ sg.so < sg.en ∧ sg.en < qe
      · simp [h1, h2, h3]
      · simp [h1, h2, h3]

/-- the inner loop as a whole -/
theorem scanFold_gen (w : List Seg) (qs qe : Int) (isSplit : Bool) (ids : List String) (ns nt : Int) :
    w.foldl (Gen.convScanStep qs isSplit qe) (ns, ids, nt) =
      ((w.foldl (fun (acc : List String × Int × Int) sg =>
          let c := overlapCase sg qs qe
          let ns' := if c = 1 ∧ acc.2.1 = -1 then (if isSplit then qs else qs - sg.so) else acc.2.1
          if c ≠ 0 then (acc.1 ++ [sg.id], ns', acc.2.2 + (sg.en - sg.so)) else (acc.1, ns', acc.2.2)) (ids, ns, nt)).2.1,
       (w.foldl (fun (acc : List String × Int × Int) sg =>
          let c := overlapCase sg qs qe
          let ns' := if c = 1 ∧ acc.2.1 = -1 then (if isSplit then qs else qs - sg.so) else acc.2.1
          if c ≠ 0 then (acc.1 ++ [sg.id], ns', acc.2.2 + (sg.en - sg.so)) else (acc.1, ns', acc.2.2)) (ids, ns, nt)).1,
       (w.foldl (fun (acc : List String × Int × Int) sg =>
          let c := overlapCase sg qs qe
          let ns' := if c = 1 ∧ acc.2.1 = -1 then (if isSplit then qs else qs - sg.so) else acc.2.1
          if c ≠ 0 then (acc.1 ++ [sg.id], ns', acc.2.2 + (sg.en - sg.so)) else (acc.1, ns', acc.2.2)) (ids, ns, nt)).2.2) := by
  induction w generalizing ids ns nt with
  | nil => rfl
  | cons sg w ih =>
    simp only [List.foldl_cons]
    rw [convScanStep_gen]
    by_cases hc : overlapCase sg qs qe ≠ 0
    · simp only [hc, if_true, ne_eq, not_false_eq_true]
      exact ih _ _ _
    · simp only [hc, if_false, ne_eq]
      exact ih _ _ _

theorem scanWindow_gen (w : List Seg) (qs qe : Int) (isSplit : Bool) (ns nt : Int) :
    w.foldl (Gen.convScanStep qs isSplit qe) (ns, [], nt) =
      ((scanWindow w qs qe isSplit ns nt).2.1, (scanWindow w qs qe isSplit ns nt).1, (scanWindow w qs qe isSplit ns nt).2.2) :=
  scanFold_gen w qs qe isSplit [] ns nt

/-- what the model's parser (`parseStableItems.go`) makes of one contig token when the last orientation token was `o` -/
def tokItem (t : Str) (o : Option Bool) : Option SItem :=
  if t.contains ':' && t.contains '-' then
    match splitOnChar ':' (rstrip t) with
    | c :: rng :: _ =>
      match splitOnChar '-' (rstrip rng) with
      | [a, b] =>
        match toInt a, toInt b, o with
        | some s, some e, some ob => some (SItem.iv ob (String.ofList c) s e)
        | _, _, _ => none
      | _ => none
    | _ => none
  else some (SItem.bare (String.ofList t))

theorem go_cons (t : Str) (ts : List Str) (o : Option Bool) :
    parseStableItems.go (t :: ts) o =
      if isOrientTok t then parseStableItems.go ts (some (t == ['>']))
      else (tokItem t o).bind (fun it => (parseStableItems.go ts o).map (fun r => it :: r)) := by
  rw [parseStableItems.go]
  unfold tokItem
  split
  · rfl
  · split
    · split
      · split
        · split <;> simp_all
        · simp_all
      · simp_all
    · rfl

/-- the Python variables that correspond to a model state `m`, when the last orientation token since the previous item was `o`
    (`orient` holds that token if there was one, else what the previous item left) and `split_contig` is bound or not -/
def absG (m : USt) (o : Option Bool) (bound : Bool) : Gen.ULoop :=
  { unstable_coord := m.path, orient := (match o with | some x => some x | none => m.orient), new_start := m.newStart, new_total := m.newTotal,
    split_contig := if bound then some m.split else none }

theorem convTokStep_orient (reference : String → List Seg) (sp : Bool) (ps pe : Int) (m : USt) (o : Option Bool) (b : Bool) (t : Str)
    (ht : isOrientTok t = true) :
    Gen.convTokStep reference sp ps pe (absG m o b) t = some (absG m (some (t == ['>'])) b) := by
  have h : t = ['>'] ∨ t = ['<'] := by simpa [isOrientTok] using ht
  unfold Gen.convTokStep
  simp only [h, if_true, absG]

theorem convTokStep_item (reference : String → List Seg) (sp : Bool) (ps pe : Int) (m : USt) (o : Option Bool) (b : Bool) (t : Str)
    (ht : isOrientTok t = false)
    (hok : if (t.contains ':' && t.contains '-') = true then o.isSome = true else (o = none ∨ o = some (m.orient.getD sp))) :
    Gen.convTokStep reference sp ps pe (absG m o b) t =
      ((tokItem t o).bind (itemStep reference sp ps pe m)).map (fun m' => absG m' o true) := by
  have h : ¬ (t = ['>'] ∨ t = ['<']) := by simpa [isOrientTok] using ht
  unfold Gen.convTokStep tokItem
  simp only [h, if_false, absG]
  by_cases hiv : (t.contains ':' && t.contains '-') = true
  · have hiv' : (t.contains ':' = true ∧ t.contains '-' = true) := by simpa using hiv
    simp only [hiv', if_true] at hok ⊢
    obtain ⟨ob, rfl⟩ := Option.isSome_iff_exists.mp hok
    rcases hsp : splitOnChar ':' (rstrip t) with _ | ⟨c, _ | ⟨rng, l2⟩⟩
    · simp
    · simp
    · simp only [List.getElem?_cons_zero, List.getElem?_cons_succ]
      rcases hsd : splitOnChar '-' (rstrip rng) with _ | ⟨a, _ | ⟨b', _ | ⟨c3, l3⟩⟩⟩
      · simp
      · simp
      · cases hta : toInt a with
        | none => simp [hta]
        | some qs =>
          cases htb : toInt b' with
          | none => simp [hta, htb]
          | some qe =>
            simp only [hta, htb]
            rw [searchIv_gen_eq_model _ _ _ _ _ _ (Int.le_refl 0)]
            cases hsr : Conv.searchIv (reference (String.ofList c)) qs qe ((reference (String.ofList c)).length + 2) 0 (reference (String.ofList c)).length with
            | none => simp [itemStep, hsr]
            | some r =>
              obtain ⟨r1, r2⟩ := r
              have hw := pySlice_window (reference (String.ofList c)) (r1, r2) (searchIv_range _ _ _ _ _ _ (Int.le_refl 0) _ hsr)
              simp only [] at hw
              simp only [hw, scanWindow_gen]
              obtain ⟨mp, mo, mns, mnt, msp⟩ := m
              cases ob <;> simp [emit_fold, emit_foldr, itemStep, hsr]
      · simp
  · have hiv' : ¬ (t.contains ':' = true ∧ t.contains '-' = true) := by simpa using hiv
    simp only [hiv, hiv', if_false, Bool.false_eq_true] at hok ⊢
    simp only [Option.bind_some, itemStep]
    rw [searchIv_gen_eq_model _ _ _ _ _ _ (Int.le_refl 0)]
    cases hsr : Conv.searchIv (reference (String.ofList t)) ps pe ((reference (String.ofList t)).length + 2) 0 (reference (String.ofList t)).length with
    | none => simp
    | some r =>
      obtain ⟨r1, r2⟩ := r
      have hw := pySlice_window (reference (String.ofList t)) (r1, r2) (searchIv_range _ _ _ _ _ _ (Int.le_refl 0) _ hsr)
      simp only [] at hw
      simp only [hw, scanWindow_gen]
      obtain ⟨mp, mo, mns, mnt, msp⟩ := m
      simp only [] at hok ⊢
      rcases hok with rfl | rfl
      · cases mo with
        | none => cases sp <;> simp [emit_fold, emit_foldr]
        | some x => cases x <;> simp [emit_fold, emit_foldr]
      · cases mo with
        | none => cases sp <;> simp [emit_fold, emit_foldr]
        | some x => cases x <;> simp [emit_fold, emit_foldr]


/-- the token lists on which model and code agree (`o` = last orientation token seen, `cur` = the model's `orient`): an interval token
    has an orientation token before it; a bare contig token has none since the previous item, or one that repeats the
    orientation in force (`cur`, or the strand's for the first item) -/
def TokOk (sp : Bool) : List Str → Option Bool → Option Bool → Prop
  | [], _, _ => True
  | t :: ts, o, cur =>
    if isOrientTok t then TokOk sp ts (some (t == ['>'])) cur
    else if (t.contains ':' && t.contains '-') = true then o.isSome = true ∧ TokOk sp ts o o
    else (o = none ∨ o = some (cur.getD sp)) ∧ TokOk sp ts o (some (cur.getD sp))

theorem itemStep_orient (reference : String → List Seg) (sp : Bool) (ps pe : Int) (m m' : USt) (it : SItem)
    (h : itemStep reference sp ps pe m it = some m') :
    m'.orient = some ((match it with | .iv o _ _ _ => some o | .bare _ => m.orient).getD sp) := by
  unfold itemStep at h
  cases it with
  | iv o c s e =>
    simp only [] at h
    split at h
    · cases h
    · cases h; rfl
  | bare c =>
    simp only [] at h
    split at h
    · cases h
    · cases h; rfl

theorem tokItem_iv (t : Str) (ob : Bool) (it : SItem) (hiv : (t.contains ':' && t.contains '-') = true)
    (h : tokItem t (some ob) = some it) : ∃ c s e, it = SItem.iv ob c s e := by
  unfold tokItem at h
  simp only [hiv, if_true] at h
  split at h
  · split at h
    · split at h
      · cases h; simp_all
      · cases h
    · cases h
  · cases h

/-- what is read after the loop: everything except `orient` -/
def obsG (g : Gen.ULoop) : List (Bool × String) × Int × Int × Option Bool := (g.unstable_coord, g.new_start, g.new_total, g.split_contig)
def obsM (m : USt) (bound : Bool) : List (Bool × String) × Int × Int × Option Bool :=
  (m.path, m.newStart, m.newTotal, if bound then some m.split else none)

theorem convLoop_fold (reference : String → List Seg) (sp : Bool) (ps pe : Int) (toks : List Str) (o : Option Bool) (m : USt) (b : Bool)
    (h : TokOk sp toks o m.orient) :
    (toks.foldlM (Gen.convTokStep reference sp ps pe) (absG m o b)).map obsG =
      (parseStableItems.go toks o).bind (fun items =>
        (items.foldlM (itemStep reference sp ps pe) m).map (fun m' => obsM m' (b || !items.isEmpty))) := by
  induction toks generalizing o m b with
  | nil =>
    simp [parseStableItems.go, obsG, obsM, absG]
  | cons t ts ih =>
    rw [go_cons, List.foldlM_cons]
    unfold TokOk at h
    by_cases hor : isOrientTok t = true
    · simp only [hor, if_true] at h ⊢
      rw [convTokStep_orient _ _ _ _ _ _ _ _ hor]
      exact ih _ _ _ h
    · have hor' : isOrientTok t = false := by simpa using hor
      simp only [hor, if_false, Bool.false_eq_true] at h ⊢
      have hstep := convTokStep_item reference sp ps pe m o b t hor'
        (by by_cases hiv : (t.contains ':' && t.contains '-') = true
            · simp only [hiv, if_true] at h ⊢; exact h.1
            · simp only [hiv, if_false, Bool.false_eq_true] at h ⊢; exact h.1)
      rw [hstep]
      cases hti : tokItem t o with
      | none => simp
      | some it =>
        cases hst : itemStep reference sp ps pe m it with
        | none =>
          simp only [Option.bind_some, hst, Option.map_none]
          cases parseStableItems.go ts o with
          | none => rfl
          | some r => simp [List.foldlM_cons, hst]
        | some m' =>
          have hm' := itemStep_orient _ _ _ _ _ _ _ hst
          have hok' : TokOk sp ts o m'.orient := by
            by_cases hiv : (t.contains ':' && t.contains '-') = true
            · simp only [hiv, if_true] at h
              obtain ⟨ob, rfl⟩ := Option.isSome_iff_exists.mp h.1
              obtain ⟨c, s, e, rfl⟩ := tokItem_iv t ob it hiv hti
              rw [hm']
              exact h.2
            · simp only [hiv, if_false, Bool.false_eq_true] at h
              have : it = SItem.bare (String.ofList t) := by
                unfold tokItem at hti
                simp only [hiv, if_false, Bool.false_eq_true] at hti
                cases hti; rfl
              subst this
              rw [hm']
              exact h.2
          simp only [Option.bind_some, hst, Option.map_some, Option.bind_eq_bind]
          rw [ih o m' true hok']
          cases parseStableItems.go ts o with
          | none => rfl
          | some r => simp [List.foldlM_cons, hst]


theorem toUnstable_gen (reference : String → List Seg) (sp : Bool) (p : Str) (plen ps pe : Int)
    (h : TokOk sp (pathTokens p) none none) :
    (parseStableItems p).bind (fun items => toUnstable reference sp items plen ps pe) =
      (match (pathTokens p).foldlM (Gen.convTokStep reference sp ps pe) Gen.convInit with
       | none => none
       | some g =>
         match g.split_contig with
         | none => none
         | some split =>
           let c := Gen.unstableCoords (!sp) split plen ps pe g.new_total g.new_start
           some (g.unstable_coord, ⟨true, c.1, c.2.1, c.2.2, !sp⟩)) := by
  have hf := convLoop_fold reference sp ps pe (pathTokens p) none ⟨[], none, -1, 0, false⟩ false h
  have hinit : absG ⟨[], none, -1, 0, false⟩ none false = Gen.convInit := rfl
  rw [hinit] at hf
  unfold parseStableItems
  cases hp : parseStableItems.go (pathTokens p) none with
  | none =>
    rw [hp] at hf
    cases hg : (pathTokens p).foldlM (Gen.convTokStep reference sp ps pe) Gen.convInit with
    | none => rfl
    | some g => rw [hg] at hf; simp at hf
  | some items =>
    rw [hp] at hf
    simp only [Option.bind_some] at hf ⊢
    rw [unstableCoords_gen]
    cases hm : items.foldlM (itemStep reference sp ps pe) ⟨[], none, -1, 0, false⟩ with
    | none =>
      rw [hm] at hf
      cases hg : (pathTokens p).foldlM (Gen.convTokStep reference sp ps pe) Gen.convInit with
      | none => rfl
      | some g => rw [hg] at hf; simp at hf
    | some st =>
      rw [hm] at hf
      cases hg : (pathTokens p).foldlM (Gen.convTokStep reference sp ps pe) Gen.convInit with
      | none => rw [hg] at hf; simp at hf
      | some g =>
        rw [hg] at hf
        simp only [Option.map_some, Option.some.injEq, obsG, obsM, Prod.mk.injEq, Bool.false_or] at hf
        obtain ⟨h1, h2, h3, h4⟩ := hf
        simp only [h1, h2, h3, h4]
        cases items.isEmpty <;> simp



/-! ## the hypothesis holds for the stable paths gaftools itself writes -/

open Gaftools.Proofs.Glue Gaftools.Proofs.Gaf in
theorem tokOk_ivToks (sp : Bool) (l : List OIv)
    (h : ∀ x ∈ l, ∀ c ∈ x.1.contig.toList, c ≠ '>' ∧ c ≠ '<' ∧ c ≠ ':' ∧ c ≠ '-') (o cur : Option Bool) :
    TokOk sp (l.flatMap (fun x => [orTok x.2, ivBody x.1.contig.toList x.1.s.toNat x.1.e.toNat])) o cur := by
  induction l generalizing o cur with
  | nil => simp [TokOk]
  | cons x xs ih =>
    have hc := h x List.mem_cons_self
    have h1 : isOrientTok (ivBody x.1.contig.toList x.1.s.toNat x.1.e.toNat) = false := by
      apply isOrientTok_name
      intro c hm
      simp only [ivBody, List.mem_append, List.mem_singleton] at hm
      rcases hm with (((hm | rfl) | hm) | rfl) | hm
      · exact ⟨(hc c hm).1, (hc c hm).2.1⟩
      · decide
      · have := digit_ne (dec_isDigit hm); exact ⟨this.2.2.1, this.2.2.2.1⟩
      · decide
      · have := digit_ne (dec_isDigit hm); exact ⟨this.2.2.1, this.2.2.2.1⟩
    have h2 : (ivBody x.1.contig.toList x.1.s.toNat x.1.e.toNat).contains ':' = true := by
      rw [List.contains_iff_mem]; simp [ivBody]
    have h2' : (ivBody x.1.contig.toList x.1.s.toNat x.1.e.toNat).contains '-' = true := by
      rw [List.contains_iff_mem]; simp [ivBody]
    rw [List.flatMap_cons, List.cons_append, List.cons_append, List.nil_append]
    unfold TokOk
    rw [if_pos (isOrientTok_orTok x.2)]
    unfold TokOk
    simp only [h1, h2, h2', Bool.false_eq_true, if_false, Bool.and_self, if_true, Option.isSome_some, true_and]
    exact ih (fun y hy => h y (List.mem_cons_of_mem _ hy)) _ _

open Gaftools.Proofs.Glue Gaftools.Proofs.Gaf in
/-- an interval list as `to_stable` prints it -/
theorem tokOk_render_ivs (sp : Bool) (l : List OIv) (h : ∀ x ∈ l, Gaftools.Glue.plainName x.1.contig ∧ 0 ≤ x.1.s ∧ 0 ≤ x.1.e) :
    TokOk sp (pathTokens (renderSPath (.ivs l))) none none := by
  have hr : renderSPath (.ivs l) =
      l.flatMap (fun x => orTok x.2 ++ ivBody x.1.contig.toList x.1.s.toNat x.1.e.toNat) := by
    unfold renderSPath
    apply flatMap_congr'
    intro x hx
    have hx := h x hx
    simp [renderOIv, ivBody, orTok, decI_of_nonneg _ hx.2.1, decI_of_nonneg _ hx.2.2]
  rw [hr, pathTokens_flatMap (fun x : OIv => x.2) (fun x => ivBody x.1.contig.toList x.1.s.toNat x.1.e.toNat) l]
  · exact tokOk_ivToks sp l (fun x hx => (h x hx).1.2.1) none none
  · intro x hx
    have hx := (h x hx).1.2.1
    constructor
    · simp [ivBody]
    · intro c hm
      simp only [ivBody, List.mem_append, List.mem_singleton] at hm
      rcases hm with (((hm | rfl) | hm) | rfl) | hm
      · exact ⟨(hx c hm).1, (hx c hm).2.1⟩
      · decide
      · have := digit_ne (dec_isDigit hm); exact ⟨this.2.2.1, this.2.2.2.1⟩
      · decide
      · have := digit_ne (dec_isDigit hm); exact ⟨this.2.2.1, this.2.2.2.1⟩

open Gaftools.Proofs.Glue in
/-- a bare contig name -/
theorem tokOk_render_bare (sp : Bool) (c : String) (h : Gaftools.Glue.plainName c) :
    TokOk sp (pathTokens (renderSPath (.bare c))) none none := by
  have hno : NoOr c.toList := fun d hd => ⟨(h.2.1 d hd).1, (h.2.1 d hd).2.1⟩
  have hcol : ':' ∉ c.toList := fun hm => (h.2.1 _ hm).2.2.1 rfl
  unfold renderSPath
  rw [pathTokens_name _ h.1 hno]
  unfold TokOk
  simp [isOrientTok_name _ hno, hcol, TokOk]

/-- `toUnstable` on the items of a printed interval list is the translated loop run over the tokens of its text -/
theorem toUnstable_gen_ivs (reference : String → List Seg) (sp : Bool) (l : List OIv) (plen ps pe : Int)
    (h : ∀ x ∈ l, Gaftools.Glue.plainName x.1.contig ∧ 0 ≤ x.1.s ∧ 0 ≤ x.1.e) :
    toUnstable reference sp (l.map (fun x => SItem.iv x.2 x.1.contig x.1.s x.1.e)) plen ps pe =
      (match (pathTokens (renderSPath (.ivs l))).foldlM (Gen.convTokStep reference sp ps pe) Gen.convInit with
       | none => none
       | some g =>
         match g.split_contig with
         | none => none
         | some split =>
           let c := Gen.unstableCoords (!sp) split plen ps pe g.new_total g.new_start
           some (g.unstable_coord, ⟨true, c.1, c.2.1, c.2.2, !sp⟩)) := by
  rw [← toUnstable_gen reference sp _ plen ps pe (tokOk_render_ivs sp l h), Gaftools.Glue.parse_render_ivs l h]
  rfl

/-- the same for a bare contig name -/
theorem toUnstable_gen_bare (reference : String → List Seg) (sp : Bool) (c : String) (plen ps pe : Int)
    (h : Gaftools.Glue.plainName c) :
    toUnstable reference sp [SItem.bare c] plen ps pe =
      (match (pathTokens (renderSPath (.bare c))).foldlM (Gen.convTokStep reference sp ps pe) Gen.convInit with
       | none => none
       | some g =>
         match g.split_contig with
         | none => none
         | some split =>
           let c := Gen.unstableCoords (!sp) split plen ps pe g.new_total g.new_start
           some (g.unstable_coord, ⟨true, c.1, c.2.1, c.2.2, !sp⟩)) := by
  rw [← toUnstable_gen reference sp _ plen ps pe (tokOk_render_bare sp c h), Gaftools.Glue.parse_render_bare c h]
  rfl

end Gaftools.TieA
