import Gaftools.Spec.Align
import Gaftools.Props.C16
import Gaftools.Proofs.CigarLemmas
/-!
# C12 — realign emits a valid global alignment of read slice to path slice  (PARTIAL: conditional on the aligner)

WFA2-lib / pywfa is foreign code.  Its contract is the explicit hypothesis `AlignerContract`; it is *monitored* on every
correspondence case by the proved checker `cigarValid` and by `cost` evaluated on the CIGAR the real tool wrote.
-/
namespace Gaftools.C12
open Gaftools.Gaf Gaftools.Cigar Gaftools.Spec.Align Gaftools.Proofs.Cigar

def wfOps (ops : List Op) : Prop := ∀ o ∈ ops, o.1 > 0 ∧ (o.2 = '=' ∨ o.2 = 'X' ∨ o.2 = 'I' ∨ o.2 = 'D')

/-- the executable checker decides the inductive definition of a global alignment -/
theorem cigarValid_iff (ref q : List Char) (ops : List Op) : cigarValid ref q ops = true ↔ Aligns ref q ops := by
  exact ⟨aligns_of_cigarValid ops ref q, cigarValid_of_aligns⟩

/-- a valid alignment consumes both strings exactly -/
theorem aligns_lengths (ref q : List Char) (ops : List Op) (h : Aligns ref q ops) :
    ref.length = ((ops.filter (fun o => o.2 == '=' || o.2 == 'X' || o.2 == 'D')).map (·.1)).sum ∧
    q.length = ((ops.filter (fun o => o.2 == '=' || o.2 == 'X' || o.2 == 'I')).map (·.1)).sum := by
  induction h with
  | nil => simp
  | eq s h hs ih => obtain ⟨ih1, ih2⟩ := ih; simp [ih1, ih2]
  | mis a b h hl ha hd ih => obtain ⟨ih1, ih2⟩ := ih; simp [ih1, ih2, hl]
  | ins b h hb ih =>
    obtain ⟨ih1, ih2⟩ := ih
    refine ⟨?_, ?_⟩
    · simpa using ih1
    · simp [ih2]
  | del a h ha ih =>
    obtain ⟨ih1, ih2⟩ := ih
    refine ⟨?_, ?_⟩
    · simp [ih1]
    · simpa using ih2

theorem aligns_wfOps (ref q : List Char) (ops : List Op) (h : Aligns ref q ops) : wfOps ops := by
  induction h with
  | nil => intro o ho; simp at ho
  | eq s h hs ih =>
    intro o ho
    rcases List.mem_cons.1 ho with rfl | ho
    · exact ⟨List.length_pos_iff.2 hs, Or.inl rfl⟩
    · exact ih o ho
  | mis a b h hl ha hd ih =>
    intro o ho
    rcases List.mem_cons.1 ho with rfl | ho
    · exact ⟨List.length_pos_iff.2 ha, Or.inr (Or.inl rfl)⟩
    · exact ih o ho
  | ins b h hb ih =>
    intro o ho
    rcases List.mem_cons.1 ho with rfl | ho
    · exact ⟨List.length_pos_iff.2 hb, Or.inr (Or.inr (Or.inl rfl))⟩
    · exact ih o ho
  | del a h ha ih =>
    intro o ho
    rcases List.mem_cons.1 ho with rfl | ho
    · exact ⟨List.length_pos_iff.2 ha, Or.inr (Or.inr (Or.inr rfl))⟩
    · exact ih o ho

/-- the printed CIGAR reads back as the very operations the tallies were taken from -/
theorem parse_render (ops : List Op) (h : wfOps ops) : parseCigar (render ops) = some ops := by
  refine parseGo_render ops (fun o ho => ?_) _ (Nat.le_refl _)
  rcases (h o ho).2 with h | h | h | h <;> rw [h] <;> exact ⟨by decide, by decide⟩

/-- match count and block length of the emitted record agree with its CIGAR; `M` is never emitted -/
theorem tally_agrees (r : Rec) (ops : List Op) (h : wfOps ops) :
    let ro := emitRealigned r ops
    parseCigar ro.cigar = some ops ∧ ro.nmatch = nMatch ops ∧ ro.blen = blockLen ops ∧
    dictGet ro.tags cgKey = some ro.cigar ∧ ro.cigar.all (· != 'M') = true := by
  refine ⟨parse_render ops h, rfl, rfl, dictGet_dictSet _ _ _, render_ne_M ops (fun o ho => (h o ho).2)⟩

/-- all other columns and optional fields are unchanged (tags other than cg:Z: keep their values and order) -/
theorem untouched (r : Rec) (ops : List Op) :
    let ro := emitRealigned r ops
    ro.qname = r.qname ∧ ro.qlen = r.qlen ∧ ro.qs = r.qs ∧ ro.qe = r.qe ∧ ro.strand = r.strand ∧ ro.path = r.path ∧
    ro.plen = r.plen ∧ ro.ps = r.ps ∧ ro.pe = r.pe ∧ ro.mapq = r.mapq ∧
    ro.tags.filter (fun kv => kv.1 != cgKey) = r.tags.filter (fun kv => kv.1 != cgKey) := by
  exact ⟨rfl, rfl, rfl, rfl, rfl, rfl, rfl, rfl, rfl, rfl, filter_dictSet _ _ _⟩

/-- alignments of more than 60 000 read bases pass through unchanged -/
theorem passthrough (al : List Char → List Char → List Op) (r : Rec) (ref q : List Char) (h : passThrough r = true) :
    realignOne al r ref q = printRealigned r := by
  simp [realignOne, h]

/-- what is assumed of the foreign aligner -/
structure AlignerContract (al : List Char → List Char → List Op) : Prop where
  valid : ∀ ref q, cigarValid ref q (al ref q) = true
  optimal : ∀ ref q ops, cigarValid ref q ops = true → cost (al ref q) ≤ cost ops

/-- FULL statement, conditional on the contract: the emitted record carries a valid end-to-end alignment of the read
    slice against the path slice, consistent tallies, a cost no worse than any valid input CIGAR, everything else untouched -/
theorem realign_record (al : List Char → List Char → List Op) (hA : AlignerContract al) (r : Rec) (ref q : List Char) :
    let ro := emitRealigned r (al ref q)
    Aligns ref q (al ref q) ∧ parseCigar ro.cigar = some (al ref q) ∧ ro.nmatch = nMatch (al ref q) ∧
    ro.blen = blockLen (al ref q) ∧ (∀ io, Aligns ref q io → cost (al ref q) ≤ cost io) ∧
    ro.tags.filter (fun kv => kv.1 != cgKey) = r.tags.filter (fun kv => kv.1 != cgKey) := by
  have hv := (cigarValid_iff ref q (al ref q)).1 (hA.valid ref q)
  have ht := tally_agrees r (al ref q) (aligns_wfOps ref q _ hv)
  exact ⟨hv, ht.1, ht.2.1, ht.2.2.1,
    fun io hio => hA.optimal ref q io ((cigarValid_iff ref q io).2 hio), (untouched r (al ref q)).2.2.2.2.2.2.2.2.2.2⟩

/-! non-vacuity -/
example : cigarValid "ACGTT".toList "AGGTAT".toList [(1, '='), (1, 'X'), (2, '='), (1, 'I'), (1, '=')] = true := by decide
example : cost [(1, '='), (1, 'X'), (2, '='), (1, 'I'), (1, '=')] = 12 := by decide
example : parseCigar "1=1X2=1I1=".toList = some [(1, '='), (1, 'X'), (2, '='), (1, 'I'), (1, '=')] := by decide
/-- the identity aligner on equal strings meets the validity half of the contract for that input -/
example : cigarValid "ACGT".toList "ACGT".toList [(4, '=')] = true := by decide

end Gaftools.C12
