import Gaftools.Props.Glue
import Gaftools.Props.C03
/-!
# Glue (continued) — the hypotheses of C03–C05 hold for every loaded valid rGFA
-/
namespace Gaftools.Glue
open Gaftools.Gfa Gaftools.View Gaftools.Spec.Conv Gaftools.Spec.Glue

/-- for a complete rGFA token file whose segments form a valid rGFA, the loaded graph satisfies `C03.GoodGraph`
    (unique node ids; every per-contig table sorted and disjoint) — so `index_exact`, `selectNodes_exact` and
    `selectRegions_exact` apply to what `index.run` / `view.run` build from the file -/
theorem goodGraph_of_valid (t : GfaFile) (ht : TaggedRGFA t) (hv : ValidRGFA (rsegsOf t)) (lm : Bool) :
    Gaftools.C03.GoodGraph (readGraph t lm) := by
  constructor
  · rw [infos_readGraph t ht lm, List.map_map]
    exact hv.ids
  · intro c
    rw [reference_eq t ht lm c]
    exact Gaftools.C03.refOf_sortedDisjoint (rsegsOf t) hv c

/-- the id of the rGFA reading of an S record is the record's id -/
theorem rsegOf_id {s : SegLine} {r : RSeg} (h : rsegOf s = some r) : r.id = s.id := by
  unfold rsegOf at h
  cases h1 : tagVal s.tags "SN" with
  | none => simp [h1] at h
  | some sn =>
    cases h2 : tagInt s.tags "SO" with
    | none => simp [h1, h2] at h
    | some so =>
      cases h3 : tagInt s.tags "SR" with
      | none => simp [h1, h2, h3] at h
      | some sr =>
        simp [h1, h2, h3] at h
        rw [← h]

theorem filterMap_rsegOf_ids : ∀ (l : List SegLine), (∀ s ∈ l, (rsegOf s).isSome) →
    (l.filterMap rsegOf).map (·.id) = l.map (·.id) := by
  intro l
  induction l with
  | nil => intro _; rfl
  | cons s ss ih =>
    intro h
    have hs := h s (by simp)
    obtain ⟨r, hr⟩ := Option.isSome_iff_exists.mp hs
    rw [List.filterMap_cons_some hr, List.map_cons, List.map_cons, rsegOf_id hr,
      ih (fun x hx => h x (by simp [hx]))]

/-- the abstract segments of a complete rGFA token file have the file's ids, in order -/
theorem rsegsOf_ids (t : GfaFile) (ht : TaggedRGFA t) : (rsegsOf t).map (·.id) = t.segs.map (·.id) := by
  unfold rsegsOf
  exact filterMap_rsegOf_ids t.segs ht.tagged

end Gaftools.Glue
