import Gaftools.Proofs.GfaLemmas
import Gaftools.Proofs.WriteLemmas
/-!
# C07 — order_gfa and GFA I/O preserve the graph
-/
namespace Gaftools.C07
open Gaftools.Gfa Gaftools.Proofs.Gfa Gaftools.Proofs.Write

def linkKey (l : LinkLine) : String × Bool × String × Bool := (l.a, l.da, l.b, l.db)

/-- the quantifier's GFA: unique segment ids; no link is declared twice in the same direction (parallel links between the
    same node sides share one `edge_tags` slot — outside the quantifier); a link and its mirror image are not both declared
    unless they are the same self-link record -/
structure WFGfa (t : GfaFile) : Prop where
  ids : (t.segs.map (·.id)).Nodup
  keys : (t.links.map linkKey).Nodup
  nomirror : ∀ l ∈ t.links, ∀ m ∈ t.links, (m.a, m.da, m.b, m.db) = (l.b, !l.db, l.a, !l.da) → m = l

def declared (t : GfaFile) : List LinkLine := t.links.filter (fun l => t.segs.any (·.id == l.a) && t.segs.any (·.id == l.b))

/-- S lines: one per node of the requested order, same id, the stored sequence (or `*`), the tags in order -/
theorem write_segs (g : Graph) (order : List String) :
    (writeGfa g order).segs = (order.filterMap g.find).map segLineOf := by
  unfold writeGfa
  rfl

theorem declared_eq_decl (t : GfaFile) : declared t = decl t := rfl

/-- the key lemma: for each declared link exactly one adjacency entry finds its `edge_tags` key, so writing all nodes
    emits every declared link exactly once, in its declared direction, with its overlap and tags — nothing lost, duplicated
    or invented -/
theorem write_links (t : GfaFile) (hw : WFGfa t) (lm : Bool) :
    (writeGfa (readGraph t lm) (t.segs.map (·.id))).links.Perm (declared t) := by
  have h := write_links_gen t hw.keys hw.nomirror lm (t.segs.map (·.id)) hw.ids
  have hf : (decl t).filter (fun l => (t.segs.map (·.id)).contains l.a && (t.segs.map (·.id)).contains l.b) = decl t := by
    rw [List.filter_eq_self]
    intro l hl
    rw [mem_decl] at hl
    rw [Bool.and_eq_true, List.contains_iff_mem, List.contains_iff_mem]
    exact hl.2
  rw [hf] at h
  exact h

/-- restricted to a subset of the nodes: exactly the declared links with both endpoints in the subset -/
theorem write_links_subset (t : GfaFile) (hw : WFGfa t) (lm : Bool) (sub : List String) (hs : sub.Nodup)
    (hin : ∀ v ∈ sub, v ∈ t.segs.map (·.id)) :
    (writeGfa (readGraph t lm) sub).links.Perm ((declared t).filter (fun l => sub.contains l.a && sub.contains l.b)) := by
  have _ := hin  -- not needed: ids outside the graph are skipped by `writeGfa` and no declared link touches them
  exact write_links_gen t hw.keys hw.nomirror lm sub hs

/-- loading the written file gives an equal graph: same nodes in the same order with the same sequences and tags, the same
    adjacency sets, the same edge tags -/
theorem read_write_read (t : GfaFile) (hw : WFGfa t) :
    let g := readGraph t
    let g' := readGraph (writeGfa g (t.segs.map (·.id)))
    g'.nodes.map (fun n => (n.id, n.seq, n.tags)) = g.nodes.map (fun n => (n.id, (segLineOf n).seq, n.tags)) ∧
    (∀ id side e, e ∈ g'.adj id side ↔ e ∈ g.adj id side) ∧
    (∀ k v, (k, v) ∈ g'.edgeTags ↔ (k, v) ∈ g.edgeTags) := by
  intro g g'
  have hidsg : ids g = t.segs.map (·.id) := ids_readGraph t false hw.ids
  have hsegs : (writeGfa g (t.segs.map (·.id))).segs = g.nodes.map segLineOf := by
    rw [write_segs, ← hidsg, filterMap_find_ids g (hidsg.symm ▸ hw.ids)]
  exact read_back t _ hw.ids (nodup_ekey_of_nodup_key _ hw.keys) hsegs (write_links t hw false)

/-! non-vacuity: links in all orientation combinations, a self-link, a link declared from the far end, a dangling link -/
def exFile : GfaFile :=
  { segs := [⟨"a", "AAC", [⟨"SN", "Z", "chr1"⟩]⟩, ⟨"b", "GT", []⟩, ⟨"c", "TTTG", []⟩],
    links := [⟨"a", true, "b", true, 0, ["x:i:1"]⟩, ⟨"c", false, "b", false, 3, []⟩, ⟨"b", true, "b", false, 0, []⟩,
              ⟨"a", false, "c", true, 0, []⟩, ⟨"a", true, "zz", true, 0, []⟩] }
example : (exFile.segs.map (·.id)).Nodup ∧ (exFile.links.map linkKey).Nodup := by decide
example : (writeGfa (readGraph exFile) ["a", "b", "c"]).links.Perm (declared exFile) := by decide

end Gaftools.C07
