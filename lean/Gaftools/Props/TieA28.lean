import Gaftools.Model.Order
import Gaftools.Model.GfaText
import Gaftools.Gen.OrderRun
import Gaftools.Gen.OrderFinish
import Gaftools.Props.TieA16
import Gaftools.Props.C07c
/-!
# Tie A for `order_gfa.run_order_gfa`, everything AROUND the loop over the requested chromosomes (C07)

`Gen/OrderFinish.lean` is regenerated from `gaftools/cli/order_gfa.py` on every run, statement by statement, in continuation-passing
style (`Result α = Except Stop α`: `Stop.exit n` is `sys.exit(n)`, `Stop.raised e` an uncaught exception; files are a function
path ↦ lines, `Fs`, threaded through every statement that touches them):

* `DEFAULT_CHROMOSOME` — the module constant, element by element;
* `before` — the statements before the loop: `chromosome_order.split(sep=",")` under `is not None`; `os.path.isdir` / `os.makedirs`
  with its three handlers ending in `sys.exit()`; `GFA(gfa_filename, low_memory=…)` under `if with_sequence`; `all_components`;
  `name_comps` (Gen.OrderRun's translation of it); the test `chromosome_order != [""]`, the loop `loop1` over the given names with
  `sys.exit(1)` at the first one that is not in `set(components.keys())`, the `assert` on the two sets under `try … except
  AssertionError: sys.exit(1)`, `chromosome_order = DEFAULT_CHROMOSOME`; `bo = 0`, `out_gfa = []`, `out_csv = []`;
* `after` — the statements after the loop: `if not by_chrom`, the two `-complete` paths, `open(final_gfa + ".tmp", "w")`, the loops
  over `out_gfa` (`loop2`/`loop3`: the lines with `startswith("S")`; `loop4`/`loop5`: `startswith("L")`; `loop6`: `os.remove`),
  `os.replace(final_gfa + ".tmp", final_gfa)`, then the same for `out_csv` (`loop7`/`loop8`: every line; `loop9`: `os.remove`;
  `os.replace`);
* `csvHeaderLine` / `csvHeader` — the constant line written right after a CSV is opened (inside the loop);
* `run` — `before`, Gen.OrderRun's `runLoop` started with the values `before` ends with, `after` on the file system the loop's
  events leave (`Env.effect`).

Theorems (the model functions are those of `Model/Order.lean` that Props/C07c is about):

* `defaultChromosomes_gen`, `csvHeader_gen`, `csvHeaderLine_gen` — the constants are the model's `defaultChromosomes` / `csvHeader`;
* `foldlM_loop1`, `before_some` — for any `--chromosome_order` string the statements before the loop end in `sys.exit(1)` exactly
  when the model's `resolveOrder` refuses the request, and otherwise reach the loop with the order `resolveOrder` returns (no
  hypothesis but that the output directory is there or can be made); `before_model` — the same on a token file, with the model's
  `componentNames` / `nameComps` / `readGraph`; `before_none`, `before_mkdir` — the two other ways the prefix ends;
* `after_eq` — the statements after the loop on any file system; `after_gen` — … = the model's `completeGfa` / `completeCsv`, line
  for line, when the per-chromosome files hold the lines of the model's files; `after_by_chrom`;
* `run_gen`, `run_complete`, `run_by_chrom` — the whole function against `Order.orderCommand`;
* `finding_requested_twice` — an input on which the source raises and the model does not (confirmed on the real code);
* `chromosome_named_complete_works` — the former finding `finding_chromosome_named_complete` (a chromosome called `complete` made
  the run remove its own result) is repaired in the source (`….tmp` + `os.replace`): the case now works, and `run_complete` asks
  nothing of the chromosome names any more.
-/
set_option linter.unusedSimpArgs false
namespace Gaftools.TieA.OrderFinish
open Gaftools.Gfa Gaftools.Algo Gaftools.View Gaftools.Order
open Gaftools.Gen.OrderFinish
open Gaftools.Gen (OrderRun.Event OrderRun.RunSt)

/-! ## the constants -/

theorem defaultChromosomes_gen : DEFAULT_CHROMOSOME = Order.defaultChromosomes := by decide

theorem csvHeader_gen : Gen.OrderFinish.csvHeader = Order.csvHeader := rfl

theorem csvHeaderLine_gen :
    csvHeaderLine = Gen.OrderRun.csvSep.intercalate Gen.OrderFinish.csvHeader ++ Gen.OrderRun.csvEnd := by decide

/-! ## the request -/

theorem contains_pySet (l : List String) (c : String) : (pySet l).contains c = l.contains c := by
  unfold pySet
  rw [Bool.eq_iff_iff]
  simp only [List.contains_iff_mem, List.mem_eraseDups]

theorem all_pySet (l : List String) (p : String → Bool) : (pySet l).all p = l.all p := by
  unfold pySet
  rw [Bool.eq_iff_iff]
  simp only [List.all_eq_true, List.mem_eraseDups]

theorem setEq_pySet (a b : List String) :
    setEq (pySet a) (pySet b) = (a.all (fun c => b.contains c) && b.all (fun c => a.contains c)) := by
  unfold setEq
  rw [all_pySet, all_pySet]
  simp only [contains_pySet]

/-- the loop that checks the given names: it exits with status 1 at the first name that is not a component name -/
theorem foldlM_loop1 (comps : List (String × List V)) (req : List String) :
    req.foldlM (loop1 comps) () =
      if req.all (fun c => (comps.map (·.1)).contains c) then .ok () else .error (.exit 1) := by
  induction req with
  | nil => rfl
  | cons c cs ih =>
    rw [List.foldlM_cons]
    unfold loop1
    rw [contains_pySet]
    unfold dictKeys
    by_cases h : (comps.map (·.1)).contains c = true
    · simp only [h, Bool.not_true, Bool.false_eq_true, if_false, List.all_cons, Bool.true_and]
      exact ih
    · have h' : (comps.map (·.1)).contains c = false := by simpa using h
      simp only [h', Bool.not_false, if_true, List.all_cons, Bool.false_and, Bool.false_eq_true, if_false]
      rfl

/-- `low_memory` is the negation of `--with-sequence` -/
theorem graph_gen (env : Env) (ws : Bool) : (if ws = true then env.gfa false else env.gfa true) = env.gfa (!ws) := by
  cases ws <;> rfl

/-- the statements before the loop, for a `--chromosome_order` string -/
theorem before_some (env : Env) (option : String) (ws : Bool) (hdir : env.isdir = true ∨ env.makedirs = none) :
    before env (some option) ws =
      match Gen.OrderRun.nameComps env.sn (allComponents (Graph.nbFun (env.gfa (!ws))) (Graph.ids (env.gfa (!ws)))) with
      | .error e => .error (.raised e)
      | .ok comps =>
        match resolveOrder (comps.map (·.1)) option with
        | none => .error (.exit 1)
        | some order => .ok (env.gfa (!ws), comps, order, 0, [], []) := by
  have hstep : env.isdir = true ∨ (env.isdir = false ∧ env.makedirs = none) := by
    rcases hdir with h | h
    · exact .inl h
    · cases hi : env.isdir
      · exact .inr ⟨rfl, h⟩
      · exact .inl rfl
  unfold before
  rcases hstep with h | ⟨h, h'⟩
  case' inl => simp only [h, Bool.not_true, Bool.false_eq_true, if_false, graph_gen]
  case' inr => simp only [h, h', Bool.not_false, if_true, graph_gen]
  all_goals
    cases hn : Gen.OrderRun.nameComps env.sn (allComponents (Graph.nbFun (env.gfa (!ws))) (Graph.ids (env.gfa (!ws)))) with
    | error e => rfl
    | ok comps =>
      simp only []
      unfold resolveOrder pySplit
      simp only [foldlM_loop1, setEq_pySet, defaultChromosomes_gen, dictKeys]
      by_cases h1 : (option.splitOn "," != [""]) = true
      · simp only [h1, if_true]
        by_cases h2 : ((option.splitOn ",").all fun c => (comps.map (·.1)).contains c) = true
        · simp only [h2, if_true]
        · simp only [h2, if_false, Bool.false_eq_true]
      · simp only [h1, if_false, Bool.false_eq_true]
        by_cases h2 : (((comps.map (·.1)).all fun c => defaultChromosomes.contains c) &&
            defaultChromosomes.all fun c => (comps.map (·.1)).contains c) = true
        · simp only [h2, if_true]
        · simp only [h2, if_false, Bool.false_eq_true]

/-- `chromosome_order=None` (the default of the Python function; the command line always passes a string): the request is
    compared with `[""]`, found different, and iterated — `TypeError`, after the graph has been read and its components named -/
theorem before_none (env : Env) (ws : Bool) (hdir : env.isdir = true ∨ env.makedirs = none) :
    before env none ws =
      match Gen.OrderRun.nameComps env.sn (allComponents (Graph.nbFun (env.gfa (!ws))) (Graph.ids (env.gfa (!ws)))) with
      | .error e => .error (.raised e)
      | .ok _ => .error (.raised "TypeError") := by
  have hstep : env.isdir = true ∨ (env.isdir = false ∧ env.makedirs = none) := by
    rcases hdir with h | h
    · exact .inl h
    · cases hi : env.isdir
      · exact .inr ⟨rfl, h⟩
      · exact .inl rfl
  unfold before
  rcases hstep with h | ⟨h, h'⟩
  case' inl => simp only [h, Bool.not_true, Bool.false_eq_true, if_false, graph_gen]
  case' inr => simp only [h, h', Bool.not_false, if_true, graph_gen]
  all_goals
    cases hn : Gen.OrderRun.nameComps env.sn (allComponents (Graph.nbFun (env.gfa (!ws))) (Graph.ids (env.gfa (!ws)))) with
    | error e => rfl
    | ok comps => rfl

/-- the output directory is missing and cannot be made: the three handlers end the run with `sys.exit()` — status 0 — for every
    `OSError`; any other exception escapes. Nothing has been read yet. -/
theorem before_mkdir (env : Env) (co : Option String) (ws : Bool) (e : String) (h1 : env.isdir = false) (h2 : env.makedirs = some e) :
    before env co ws =
      if (pyIsSubclass e "PermissionError" || pyIsSubclass e "FileNotFoundError" || pyIsSubclass e "OSError") = true
      then .error (.exit 0) else .error (.raised e) := by
  unfold before
  cases co <;> simp only [h1, h2, Bool.not_false, if_true]
  all_goals
    cases pyIsSubclass e "PermissionError" <;> cases pyIsSubclass e "FileNotFoundError" <;> cases pyIsSubclass e "OSError" <;> rfl

example : pyIsSubclass "PermissionError" "OSError" = true ∧ pyIsSubclass "FileExistsError" "PermissionError" = false ∧
    pyIsSubclass "NotADirectoryError" "OSError" = true ∧ pyIsSubclass "ValueError" "OSError" = false := by decide

/-! ## the file system -/

theorem fsSet_same (fs : Fs) (p : String) (v : Option (List Str)) : fsSet fs p v p = v := by
  simp [fsSet]

theorem fsSet_other (fs : Fs) (p q : String) (v : Option (List Str)) (h : q ≠ p) : fsSet fs p v q = fs q := by
  simp [fsSet, h]

theorem fsSet_fsSet (fs : Fs) (p : String) (a b : Option (List Str)) : fsSet (fsSet fs p a) p b = fsSet fs p b := by
  funext q
  by_cases h : q = p <;> simp [fsSet, h]

theorem fsSet_self (fs : Fs) (p : String) (v : Option (List Str)) (h : fs p = v) : fsSet fs p v = fs := by
  funext q
  by_cases hq : q = p
  · subst hq; simp [fsSet, h]
  · simp [fsSet, hq]

theorem except_eta {ε α : Type} (r : Except ε α) : (match r with | .error e => .error e | .ok a => .ok a) = r := by
  cases r <;> rfl

/-- copying the lines that satisfy `pred` to the file open on `P` -/
theorem foldlM_copy (P : String) (pred : Str → Bool) (step : Fs → Str → Result Fs)
    (hstep : ∀ fs l, step fs l = if pred l = true then .ok (fsWrite fs P l) else .ok fs)
    (lines : List Str) (fs : Fs) (cur : List Str) (h : fs P = some cur) :
    lines.foldlM step fs = .ok (fsSet fs P (some (cur ++ lines.filter pred))) := by
  induction lines generalizing fs cur with
  | nil => simp [fsSet_self fs P _ h]; rfl
  | cons l ls ih =>
    rw [List.foldlM_cons, hstep]
    by_cases hp : pred l = true
    · simp only [hp, if_true, List.filter_cons]
      have h' : fsWrite fs P l P = some (cur ++ [l]) := by simp [fsWrite, fsSet_same, h]
      have := ih (fsWrite fs P l) (cur ++ [l]) h'
      simp only [bind, Except.bind]
      rw [this]
      simp [fsWrite, fsSet_fsSet]
    · simp only [hp, if_false, List.filter_cons, Bool.false_eq_true]
      exact ih fs cur h

theorem flatMap_congr' {α β : Type} {l : List α} {f g : α → List β} (h : ∀ a ∈ l, f a = g a) : l.flatMap f = l.flatMap g := by
  induction l with
  | nil => rfl
  | cons a l ih =>
    rw [List.flatMap_cons, List.flatMap_cons, h a List.mem_cons_self, ih (fun b hb => h b (List.mem_cons_of_mem _ hb))]

/-- the lines of a file as `for l in infile` yields them (`[]` for a missing file) -/
def content (fs : Fs) (f : String) : List Str := (fs f).getD []

/-- a loop over files that copies the lines satisfying `pred` of each to the file open on `P` -/
theorem foldlM_files (P : String) (pred : Str → Bool) (inner : Fs → Str → Result Fs) (outer : Fs → String → Result Fs)
    (hinner : ∀ fs l, inner fs l = if pred l = true then .ok (fsWrite fs P l) else .ok fs)
    (houter : ∀ fs f, outer fs f = match fsRead fs f with
      | none => .error (.raised "FileNotFoundError")
      | some lines => lines.foldlM inner fs)
    (files : List String) (fs : Fs) (cur : List Str) (h : fs P = some cur)
    (hne : ∀ f ∈ files, f ≠ P) (hex : ∀ f ∈ files, (fs f).isSome) :
    files.foldlM outer fs = .ok (fsSet fs P (some (cur ++ files.flatMap (fun f => (content fs f).filter pred)))) := by
  induction files generalizing fs cur with
  | nil => simp [fsSet_self fs P _ h]; rfl
  | cons f fs' ih =>
    rw [List.foldlM_cons, houter]
    obtain ⟨lines, hl⟩ := Option.isSome_iff_exists.mp (hex f List.mem_cons_self)
    simp only [fsRead, hl]
    rw [foldlM_copy P pred inner hinner lines fs cur h]
    simp only [bind, Except.bind]
    have h' : fsSet fs P (some (cur ++ lines.filter pred)) P = some (cur ++ lines.filter pred) := fsSet_same _ _ _
    rw [ih _ _ h' (fun g hg => hne g (List.mem_cons_of_mem _ hg))
      (fun g hg => by
        rw [fsSet_other _ _ _ _ (hne g (List.mem_cons_of_mem _ hg))]
        exact hex g (List.mem_cons_of_mem _ hg))]
    rw [fsSet_fsSet]
    have hc : ∀ g ∈ fs', (content (fsSet fs P (some (cur ++ lines.filter pred))) g).filter pred = (content fs g).filter pred := by
      intro g hg
      unfold content
      rw [fsSet_other _ _ _ _ (hne g (List.mem_cons_of_mem _ hg))]
    rw [flatMap_congr' hc]
    simp [List.flatMap_cons, content, hl, List.append_assoc]

/-- the files of a list gone -/
def fsRemoveAll (fs : Fs) (files : List String) : Fs := fun q => if files.contains q then none else fs q

/-- `for f in files: os.remove(f)`: every file is there and none is listed twice -/
theorem foldlM_remove (step : Fs → String → Result Fs)
    (hstep : ∀ fs f, step fs f = match fsRemove fs f with
      | none => .error (.raised "FileNotFoundError")
      | some fs => .ok fs)
    (files : List String) (hnd : files.Nodup) (fs : Fs) (hex : ∀ f ∈ files, (fs f).isSome) :
    files.foldlM step fs = .ok (fsRemoveAll fs files) := by
  induction files generalizing fs with
  | nil => rfl
  | cons f fs' ih =>
    rw [List.nodup_cons] at hnd
    rw [List.foldlM_cons, hstep]
    have hf := hex f List.mem_cons_self
    simp only [fsRemove, hf, if_true, bind, Except.bind]
    rw [ih hnd.2 _ (fun g hg => by
      have : g ≠ f := fun e => hnd.1 (e ▸ hg)
      rw [fsSet_other _ _ _ _ this]
      exact hex g (List.mem_cons_of_mem _ hg))]
    congr 1
    funext q
    unfold fsRemoveAll
    by_cases hq : q = f
    · subst hq; simp [fsSet_same]
    · simp [fsSet_other _ _ _ _ hq, hq]

/-- … and the second removal of a file listed twice raises -/
theorem foldlM_remove_twice (step : Fs → String → Result Fs)
    (hstep : ∀ fs f, step fs f = match fsRemove fs f with
      | none => .error (.raised "FileNotFoundError")
      | some fs => .ok fs)
    (f : String) (fs : Fs) (hf : (fs f).isSome) :
    [f, f].foldlM step fs = .error (.raised "FileNotFoundError") := by
  simp [List.foldlM_cons, hstep, fsRemove, hf, bind, Except.bind, fsSet_same]

/-! ## the statements after the loop -/

/-- the two `-complete` paths -/
def finalGfa (env : Env) : String := env.outdir ++ env.sep ++ env.stemDot ++ "-complete" ++ ".gfa"
def finalCsv (env : Env) : String := env.outdir ++ env.sep ++ env.stemDot ++ "-complete" ++ ".csv"

def isS (l : Str) : Bool := pyStartsWith l "S"
def isL (l : Str) : Bool := pyStartsWith l "L"

/-- the temporary name a `-complete` file is assembled under -/
def tmp (p : String) : String := p ++ ".tmp"

theorem loop3_eq (p : String) (fs : Fs) (l : Str) :
    loop3 p fs l = if isS l = true then .ok (fsWrite fs (tmp p) l) else .ok fs := rfl

theorem loop5_eq (p : String) (fs : Fs) (l : Str) :
    loop5 p fs l = if isL l = true then .ok (fsWrite fs (tmp p) l) else .ok fs := rfl

theorem loop8_eq (p : String) (fs : Fs) (l : Str) :
    loop8 p fs l = if (fun _ => true) l = true then .ok (fsWrite fs (tmp p) l) else .ok fs := rfl

theorem loop2_eq (P : String) (fs : Fs) (f : String) :
    loop2 P fs f = match fsRead fs f with
      | none => .error (.raised "FileNotFoundError")
      | some lines => lines.foldlM (loop3 P) fs := by
  unfold loop2
  cases fsRead fs f with
  | none => rfl
  | some lines => simp only []; generalize lines.foldlM (loop3 P) fs = r; cases r <;> rfl

theorem loop4_eq (P : String) (fs : Fs) (f : String) :
    loop4 P fs f = match fsRead fs f with
      | none => .error (.raised "FileNotFoundError")
      | some lines => lines.foldlM (loop5 P) fs := by
  unfold loop4
  cases fsRead fs f with
  | none => rfl
  | some lines => simp only []; generalize lines.foldlM (loop5 P) fs = r; cases r <;> rfl

theorem loop7_eq (P : String) (fs : Fs) (f : String) :
    loop7 P fs f = match fsRead fs f with
      | none => .error (.raised "FileNotFoundError")
      | some lines => lines.foldlM (loop8 P) fs := by
  unfold loop7
  cases fsRead fs f with
  | none => rfl
  | some lines => simp only []; generalize lines.foldlM (loop8 P) fs = r; cases r <;> rfl

theorem loop6_eq (fs : Fs) (f : String) :
    loop6 fs f = match fsRemove fs f with
      | none => .error (.raised "FileNotFoundError")
      | some fs => .ok fs := by
  unfold loop6
  cases fsRemove fs f <;> rfl

theorem loop9_eq (fs : Fs) (f : String) :
    loop9 fs f = match fsRemove fs f with
      | none => .error (.raised "FileNotFoundError")
      | some fs => .ok fs := by
  unfold loop9
  cases fsRemove fs f <;> rfl

/-- with `--by-chrom` nothing happens after the loop -/
theorem after_by_chrom (env : Env) (out_gfa out_csv : List String) (fs : Fs) : after env true out_gfa out_csv fs = .ok fs := rfl

theorem fsReplace_eq (fs : Fs) (a b : String) (v : List Str) (h : fs a = some v) :
    fsReplace fs a b = some (fsSet (fsSet fs a none) b (some v)) := by
  simp only [fsReplace, h]

/-- what one `with open(final + ".tmp", "w")` block followed by `os.replace(final + ".tmp", final)` leaves: the listed files are
    gone, `final` holds `lines`, the temporary file is gone again -/
def assemble (fs : Fs) (final : String) (listed : List String) (lines : List Str) : Fs :=
  fsSet (fsSet (fsRemoveAll (fsSet fs (tmp final) (some lines)) listed) (tmp final) none) final (some lines)

/-- the first block: the `-complete` GFA holds the S lines of the listed files, in list order, then their L lines -/
def gfaStep (env : Env) (out_gfa : List String) (fs : Fs) : Fs :=
  assemble fs (finalGfa env) out_gfa
    (out_gfa.flatMap (fun f => (content fs f).filter isS) ++ out_gfa.flatMap (fun f => (content fs f).filter isL))

/-- the second block: the `-complete` CSV holds the lines of the listed files, in list order -/
def csvStep (env : Env) (out_csv : List String) (fs : Fs) : Fs :=
  assemble fs (finalCsv env) out_csv (out_csv.flatMap (content fs))

theorem filter_true' {α : Type} (l : List α) : l.filter (fun _ => true) = l := by
  induction l with
  | nil => rfl
  | cons a l ih => simp

theorem not_contains_of_ne (l : List String) (p : String) (h : ∀ f ∈ l, f ≠ p) : l.contains p = false := by
  have : p ∉ l := fun hm => h p hm rfl
  simpa using this

/-- the statements after the loop, without `--by-chrom`, on any file system.
    Hypotheses — each is a place where the Python raises or loses data:
    * `hg1` / `hc1` — no listed file is the TEMPORARY file the `-complete` file is assembled under (`…-complete.gfa.tmp`: it would
      be truncated by `open(…, "w")` and read back while being written). A listed file may well be the `-complete` file itself
      (a chromosome called `complete`): it is read, removed, and the name is taken by `os.replace`;
    * `hg2` / `hc2` — every listed file is there (else `open(f, "r")` raises FileNotFoundError);
    * `hg3` / `hc3` — no file is listed twice (else the second `os.remove(f)` raises FileNotFoundError:
      `finding_requested_twice`). -/
theorem after_eq (env : Env) (out_gfa out_csv : List String) (fs : Fs)
    (hg1 : ∀ f ∈ out_gfa, f ≠ tmp (finalGfa env)) (hg2 : ∀ f ∈ out_gfa, (fs f).isSome) (hg3 : out_gfa.Nodup)
    (hc1 : ∀ f ∈ out_csv, f ≠ tmp (finalCsv env)) (hc2 : ∀ f ∈ out_csv, (gfaStep env out_gfa fs f).isSome) (hc3 : out_csv.Nodup) :
    after env false out_gfa out_csv fs = .ok (csvStep env out_csv (gfaStep env out_gfa fs)) := by
  -- the S lines
  have e0 : ∀ (v : Option (List Str)) (p : Str → Bool), ∀ f ∈ out_gfa,
      (content (fsSet fs (tmp (finalGfa env)) v) f).filter p = (content fs f).filter p := by
    intro v p f hf
    unfold content
    rw [fsSet_other _ _ _ _ (hg1 f hf)]
  have x0 : ∀ (v : Option (List Str)), ∀ f ∈ out_gfa, (fsSet fs (tmp (finalGfa env)) v f).isSome := by
    intro v f hf
    rw [fsSet_other _ _ _ _ (hg1 f hf)]
    exact hg2 f hf
  have s1 := foldlM_files (tmp (finalGfa env)) isS (loop3 (finalGfa env)) (loop2 (finalGfa env)) (loop3_eq _) (loop2_eq _)
    out_gfa (fsCreate fs (tmp (finalGfa env))) [] (fsSet_same _ _ _) hg1 (x0 _)
  unfold fsCreate at s1
  rw [flatMap_congr' (e0 _ isS), fsSet_fsSet, List.nil_append] at s1
  -- the L lines
  have s2 := foldlM_files (tmp (finalGfa env)) isL (loop5 (finalGfa env)) (loop4 (finalGfa env)) (loop5_eq _) (loop4_eq _)
    out_gfa (fsSet fs (tmp (finalGfa env)) (some (out_gfa.flatMap (fun f => (content fs f).filter isS)))) _ (fsSet_same _ _ _) hg1 (x0 _)
  rw [flatMap_congr' (e0 _ isL), fsSet_fsSet] at s2
  -- the removal, then the renaming
  have s3 := foldlM_remove loop6 loop6_eq out_gfa hg3
    (fsSet fs (tmp (finalGfa env)) (some (out_gfa.flatMap (fun f => (content fs f).filter isS) ++
      out_gfa.flatMap (fun f => (content fs f).filter isL)))) (x0 _)
  have s3b := fsReplace_eq (fsRemoveAll (fsSet fs (tmp (finalGfa env)) (some (out_gfa.flatMap (fun f => (content fs f).filter isS) ++
      out_gfa.flatMap (fun f => (content fs f).filter isL)))) out_gfa) (tmp (finalGfa env)) (finalGfa env) _ (by
        unfold fsRemoveAll
        rw [not_contains_of_ne _ _ hg1]
        exact fsSet_same _ _ _)
  -- the CSV
  have e1 : ∀ (v : Option (List Str)), ∀ f ∈ out_csv,
      (content (fsSet (gfaStep env out_gfa fs) (tmp (finalCsv env)) v) f).filter (fun _ => true) = content (gfaStep env out_gfa fs) f := by
    intro v f hf
    unfold content
    rw [fsSet_other _ _ _ _ (hc1 f hf), filter_true']
  have x1 : ∀ (v : Option (List Str)), ∀ f ∈ out_csv, (fsSet (gfaStep env out_gfa fs) (tmp (finalCsv env)) v f).isSome := by
    intro v f hf
    rw [fsSet_other _ _ _ _ (hc1 f hf)]
    exact hc2 f hf
  have s4 := foldlM_files (tmp (finalCsv env)) (fun _ => true) (loop8 (finalCsv env)) (loop7 (finalCsv env)) (loop8_eq _) (loop7_eq _)
    out_csv (fsCreate (gfaStep env out_gfa fs) (tmp (finalCsv env))) [] (fsSet_same _ _ _) hc1 (x1 _)
  unfold fsCreate at s4
  rw [flatMap_congr' (e1 _), fsSet_fsSet, List.nil_append] at s4
  have s5 := foldlM_remove loop9 loop9_eq out_csv hc3
    (fsSet (gfaStep env out_gfa fs) (tmp (finalCsv env)) (some (out_csv.flatMap (content (gfaStep env out_gfa fs))))) (x1 _)
  have s5b := fsReplace_eq (fsRemoveAll (fsSet (gfaStep env out_gfa fs) (tmp (finalCsv env))
      (some (out_csv.flatMap (content (gfaStep env out_gfa fs))))) out_csv) (tmp (finalCsv env)) (finalCsv env) _ (by
        unfold fsRemoveAll
        rw [not_contains_of_ne _ _ hc1]
        exact fsSet_same _ _ _)
  have hPg : env.outdir ++ env.sep ++ env.stemDot ++ "-complete" ++ ".gfa" = finalGfa env := rfl
  have hPc : env.outdir ++ env.sep ++ env.stemDot ++ "-complete" ++ ".csv" = finalCsv env := rfl
  have htmp : ∀ p : String, p ++ ".tmp" = tmp p := fun _ => rfl
  unfold after
  simp only [Bool.not_false, Bool.not_true, if_true, if_false, Bool.false_eq_true, hPg, hPc, htmp, fsCreate, s1, s2, s3, s3b]
  have hfold : fsSet (fsSet (fsRemoveAll (fsSet fs (tmp (finalGfa env)) (some (out_gfa.flatMap (fun f => (content fs f).filter isS) ++
      out_gfa.flatMap (fun f => (content fs f).filter isL)))) out_gfa) (tmp (finalGfa env)) none) (finalGfa env)
      (some (out_gfa.flatMap (fun f => (content fs f).filter isS) ++ out_gfa.flatMap (fun f => (content fs f).filter isL))) =
      gfaStep env out_gfa fs := rfl
  simp only [hfold, s4, s5, s5b]
  rfl

/-! ## … against the model's `completeGfa` / `completeCsv` -/

/-- the lines of a GFA file as `write_gfa` writes them (`GfaText.renderLines`, each with its `"\n"`) — what `for l in infile`
    yields when the file is read back -/
def gfaLines (F : GfaFile) : List Str := (GfaText.renderLines F).map (· ++ ['\n'])

/-- one line of a CSV: the fields joined by `Gen.OrderRun.csvSep`, then `csvEnd` (how the chromosome loop writes them) -/
def csvLine (row : List String) : Str := (Gen.OrderRun.csvSep.intercalate row ++ Gen.OrderRun.csvEnd).toList
def csvLines (C : List (List String)) : List Str := C.map csvLine

theorem isS_seg (s : SegLine) : isS (GfaText.segText s ++ ['\n']) = true ∧ isL (GfaText.segText s ++ ['\n']) = false := by
  have hS : "S".toList = ['S'] := by decide
  have hL : "L".toList = ['L'] := by decide
  unfold isS isL pyStartsWith GfaText.segText
  rw [hS, hL]
  simp [GfaText.joinTab, List.isPrefixOf]

theorem isL_link (l : LinkLine) : isS (GfaText.linkText l ++ ['\n']) = false ∧ isL (GfaText.linkText l ++ ['\n']) = true := by
  have hS : "S".toList = ['S'] := by decide
  have hL : "L".toList = ['L'] := by decide
  unfold isS isL pyStartsWith GfaText.linkText
  rw [hS, hL]
  simp [GfaText.joinTab, List.isPrefixOf]

theorem filter_map_true {α β : Type} (f : α → β) (p : β → Bool) (l : List α) (h : ∀ a, p (f a) = true) : (l.map f).filter p = l.map f := by
  rw [List.filter_eq_self]
  intro b hb
  obtain ⟨a, _, rfl⟩ := List.mem_map.mp hb
  exact h a

theorem filter_map_false {α β : Type} (f : α → β) (p : β → Bool) (l : List α) (h : ∀ a, p (f a) = false) : (l.map f).filter p = [] := by
  rw [List.filter_eq_nil_iff]
  intro b hb
  obtain ⟨a, _, rfl⟩ := List.mem_map.mp hb
  simp [h a]

/-- the lines `l.startswith("S")` keeps of a written file are its S lines, those `l.startswith("L")` keeps its L lines -/
theorem filter_gfaLines (F : GfaFile) :
    (gfaLines F).filter isS = F.segs.map (fun s => GfaText.segText s ++ ['\n']) ∧
    (gfaLines F).filter isL = F.links.map (fun l => GfaText.linkText l ++ ['\n']) := by
  unfold gfaLines GfaText.renderLines
  simp only [List.map_append, List.map_map, List.filter_append, Function.comp_def]
  constructor
  · rw [filter_map_true _ isS _ (fun s => (isS_seg s).1), filter_map_false _ isS _ (fun l => (isL_link l).1), List.append_nil]
  · rw [filter_map_false _ isL _ (fun s => (isS_seg s).2), filter_map_true _ isL _ (fun l => (isL_link l).2), List.nil_append]

theorem flatMap_map' {α β γ : Type} (f : α → β) (g : β → List γ) (l : List α) : (l.map f).flatMap g = l.flatMap (fun a => g (f a)) := by
  induction l with
  | nil => rfl
  | cons a l ih => simp [List.flatMap_cons, ih]

theorem map_flatMap' {α β γ : Type} (f : β → γ) (g : α → List β) (l : List α) : (l.flatMap g).map f = l.flatMap (fun a => (g a).map f) := by
  induction l with
  | nil => rfl
  | cons a l ih => simp [List.flatMap_cons, ih]

/-- the model's `-complete` GFA, as lines: the S lines of every file, then the L lines of every file -/
theorem gfaLines_complete (files : List GfaFile) :
    gfaLines (completeGfa files) =
      files.flatMap (fun F => (gfaLines F).filter isS) ++ files.flatMap (fun F => (gfaLines F).filter isL) := by
  rw [flatMap_congr' (fun F _ => (filter_gfaLines F).1), flatMap_congr' (fun F _ => (filter_gfaLines F).2)]
  unfold gfaLines GfaText.renderLines completeGfa
  simp only [List.map_append, List.map_map, map_flatMap']
  rfl

/-- the model's `-complete` CSV, as lines: the lines of every CSV (each with its header) -/
theorem csvLines_complete (cs : List (List (List String))) : csvLines (completeCsv cs) = cs.flatMap csvLines := by
  unfold csvLines completeCsv
  induction cs with
  | nil => rfl
  | cons c cs ih => simp [List.flatMap_cons, ih]

/-- the file system after the `-complete` step, in the model's terms: the per-chromosome files are gone, the two `-complete`
    files hold the lines of `G` and of `C`, the two temporary files are gone -/
def completeFs (env : Env) (out_gfa out_csv : List String) (fs : Fs) (G : GfaFile) (C : List (List String)) : Fs :=
  assemble (assemble fs (finalGfa env) out_gfa (gfaLines G)) (finalCsv env) out_csv (csvLines C)

theorem completeFs_apply (env : Env) (out_gfa out_csv : List String) (fs : Fs) (G : GfaFile) (C : List (List String)) (q : String) :
    completeFs env out_gfa out_csv fs G C q =
      if q == finalCsv env then some (csvLines C) else if q == tmp (finalCsv env) then none
      else if out_csv.contains q then none
      else if q == finalGfa env then some (gfaLines G) else if q == tmp (finalGfa env) then none
      else if out_gfa.contains q then none else fs q := by
  unfold completeFs assemble fsRemoveAll fsSet
  by_cases h1 : (q == tmp (finalCsv env)) = true <;> by_cases h2 : (q == tmp (finalGfa env)) = true <;> simp [h1, h2]

theorem flatMap_content {α : Type} (fs : Fs) (paths : List String) (xs : List α) (lines : α → List Str) (g : List Str → List Str)
    (h : paths.map fs = xs.map (fun x => some (lines x))) :
    paths.flatMap (fun f => g (content fs f)) = xs.flatMap (fun x => g (lines x)) := by
  have : paths.flatMap (fun f => g (content fs f)) = (paths.map fs).flatMap (fun o => g (o.getD [])) := by
    rw [flatMap_map']; rfl
  rw [this, h, flatMap_map']
  rfl

theorem isSome_of_map {α : Type} (fs : Fs) (paths : List String) (xs : List α) (lines : α → List Str)
    (h : paths.map fs = xs.map (fun x => some (lines x))) : ∀ f ∈ paths, (fs f).isSome := by
  intro f hf
  have : fs f ∈ xs.map (fun x => some (lines x)) := h ▸ List.mem_map.mpr ⟨f, hf, rfl⟩
  obtain ⟨x, _, hx⟩ := List.mem_map.mp this
  rw [← hx]
  rfl

/-- MAIN for the statements after the loop. When the listed per-chromosome files hold the lines of the GFA files `files` and of
    the CSVs `cs` (`hG`, `hC`: what the loop wrote is read back), the `-complete` GFA is the model's `completeGfa files` and the
    `-complete` CSV the model's `completeCsv cs`, line for line, and the per-chromosome files are removed.
    Path hypotheses (see `after_eq`; where one fails the Python raises or loses its output): no listed file is one of the two
    temporary files, none is listed twice, and no listed CSV is touched by the GFA block (it is not a listed GFA file, not the
    `-complete` GFA, not its temporary file). That a listed file IS a `-complete` file is allowed. -/
theorem after_gen (env : Env) (out_gfa out_csv : List String) (fs : Fs) (files : List GfaFile) (cs : List (List (List String)))
    (hG : out_gfa.map fs = files.map (fun F => some (gfaLines F)))
    (hC : out_csv.map fs = cs.map (fun C => some (csvLines C)))
    (hg1 : ∀ f ∈ out_gfa, f ≠ tmp (finalGfa env)) (hg3 : out_gfa.Nodup)
    (hc1 : ∀ f ∈ out_csv, f ≠ tmp (finalCsv env)) (hc3 : out_csv.Nodup)
    (hcg : ∀ f ∈ out_csv, f ≠ finalGfa env ∧ f ≠ tmp (finalGfa env) ∧ f ∉ out_gfa) :
    after env false out_gfa out_csv fs = .ok (completeFs env out_gfa out_csv fs (completeGfa files) (completeCsv cs)) := by
  have hkeep : ∀ f ∈ out_csv, gfaStep env out_gfa fs f = fs f := by
    intro f hf
    obtain ⟨h1, h2, h3⟩ := hcg f hf
    have : out_gfa.contains f = false := by simpa using h3
    unfold gfaStep assemble
    rw [fsSet_other _ _ _ _ h1, fsSet_other _ _ _ _ h2]
    unfold fsRemoveAll
    simp only [this, Bool.false_eq_true, if_false]
    exact fsSet_other _ _ _ _ h2
  rw [after_eq env out_gfa out_csv fs hg1 (isSome_of_map fs out_gfa files gfaLines hG) hg3 hc1
    (fun f hf => by rw [hkeep f hf]; exact isSome_of_map fs out_csv cs csvLines hC f hf) hc3]
  congr 1
  unfold csvStep completeFs
  have e1 : out_csv.flatMap (content (gfaStep env out_gfa fs)) = out_csv.flatMap (content fs) :=
    flatMap_congr' (fun f hf => by unfold content; rw [hkeep f hf])
  rw [e1, csvLines_complete, gfaLines_complete]
  have e2 := flatMap_content fs out_csv cs csvLines id hC
  have e3 := flatMap_content fs out_gfa files gfaLines (fun l => l.filter isS) hG
  have e4 := flatMap_content fs out_gfa files gfaLines (fun l => l.filter isL) hG
  simp only [id] at e2
  unfold gfaStep
  rw [e2, e3, e4]

/-! ## the whole function on a token file: `Order.orderCommand` -/

/-- the environment of a run on the token file `t`: `GFA(gfa_filename, low_memory=b)` is the model's `readGraph t b`, the SN tags are
    the model's `snOf t`, `decompose_and_order` is the model's `decompose` (as in `TieA.OrderRun.envOf`); the state of the output
    directory, the pieces of the file names and the file-system effect of the loop's events are arbitrary -/
def envOf (t : GfaFile) (lm : Bool) (isdir : Bool) (makedirs : Option String) (outdir sep stemDot stemCut : String)
    (effect : List Gen.OrderRun.Event → Fs → Fs) : Env :=
  { isdir := isdir, makedirs := makedirs, gfa := fun b => readGraph t b, sn := snOf t,
    dao := (Gaftools.TieA.OrderRun.envOf t lm outdir sep stemDot stemCut).dao,
    outdir := outdir, sep := sep, stemDot := stemDot, stemCut := stemCut, effect := effect }

/-- MAIN for the statements before the loop: on a token file all of whose components get a name (`AllNamed`, see TieA16 — where it
    fails `name_comps` itself differs from the model), with the output directory there or creatable, the run reaches the loop iff
    the model's `resolveOrder` accepts the request, with the order it returns, the graph as read, the components as named, and
    `bo = 0`, `out_gfa = out_csv = []`; otherwise it ends with `sys.exit(1)` -/
theorem before_model (t : GfaFile) (lm : Bool) (option : String) (isdir : Bool) (makedirs : Option String)
    (outdir sep stemDot stemCut : String) (effect : List Gen.OrderRun.Event → Fs → Fs)
    (hdir : isdir = true ∨ makedirs = none)
    (hnamed : Gaftools.TieA.OrderRun.AllNamed (snOf t) (allComponents (Graph.nbFun (readGraph t lm)) (Graph.ids (readGraph t lm)))) :
    before (envOf t lm isdir makedirs outdir sep stemDot stemCut effect) (some option) (!lm) =
      match resolveOrder (componentNames t lm) option with
      | none => .error (.exit 1)
      | some order => .ok (readGraph t lm,
          Order.nameComps (snOf t) (allComponents (Graph.nbFun (readGraph t lm)) (Graph.ids (readGraph t lm))), order, 0, [], []) := by
  rw [before_some _ _ _ hdir]
  simp only [envOf, Bool.not_not, Gaftools.TieA.OrderRun.nameComps_gen _ _ hnamed]
  rfl

/-- an accepted request names components only -/
theorem resolveOrder_mem (names : List String) (option : String) (order : List String)
    (h : resolveOrder names option = some order) : ∀ c ∈ order, c ∈ names := by
  unfold resolveOrder at h
  simp only at h
  split at h
  · split at h
    · rename_i h2
      injection h with h
      subst h
      intro c hc
      have := (List.all_eq_true.mp h2) c hc
      simpa using this
    · cases h
  · split at h
    · rename_i h2
      injection h with h
      subst h
      intro c hc
      rw [Bool.and_eq_true] at h2
      have := (List.all_eq_true.mp h2.2) c hc
      simpa using this
    · cases h

/-- the events of the chromosome loop of the model's run -/
def loopLog (t : GfaFile) (lm : Bool) (outdir sep stemDot stemCut : String) (order : List String) : List Gen.OrderRun.Event :=
  match orderRun t order lm with
  | .ok r => (Gaftools.TieA.OrderRun.stateOf (Gaftools.TieA.OrderRun.envOf t lm outdir sep stemDot stemCut)
      (Gen.OrderRun.initSt (readGraph t lm)) r).log
  | .error _ => []

/-- the two file names of a chromosome (`TieA.OrderRun.gfaName` / `csvName`) -/
def gfaPath (env : Env) (c : String) : String := env.outdir ++ env.sep ++ env.stemDot ++ "-" ++ c ++ ".gfa"
def csvPath (env : Env) (c : String) : String := env.outdir ++ env.sep ++ env.stemCut ++ "-" ++ c ++ ".csv"

/-- MAIN for the whole function. `run_order_gfa`, translated (`before`, then Gen.OrderRun's loop, then `after`), on a token file
    with distinct tab-free segment names all of whose components get a name:
    * ends with `sys.exit(1)`, before anything is read back or written, iff the model's `resolveOrder` refuses the request;
    * raises iff the model's `orderRun` reports a crash;
    * otherwise goes on to the statements after the loop with `out_gfa` / `out_csv` naming exactly the chromosomes the model
      writes, in that order, on the file system the loop's events (`loopLog`) leave. -/
theorem run_gen (t : GfaFile) (hids : (t.segs.map (·.id)).Nodup) (htab : ∀ s ∈ t.segs, '\t' ∉ s.id.toList)
    (lm : Bool) (option : String) (by_chrom : Bool) (isdir : Bool) (makedirs : Option String)
    (outdir sep stemDot stemCut : String) (effect : List Gen.OrderRun.Event → Fs → Fs) (fs : Fs)
    (hdir : isdir = true ∨ makedirs = none)
    (hnamed : Gaftools.TieA.OrderRun.AllNamed (snOf t) (allComponents (Graph.nbFun (readGraph t lm)) (Graph.ids (readGraph t lm)))) :
    run (envOf t lm isdir makedirs outdir sep stemDot stemCut effect) by_chrom (some option) (!lm) fs =
      match resolveOrder (componentNames t lm) option with
      | none => .error (.exit 1)
      | some order =>
        match orderRun t order lm with
        | .error e => .error (.raised e)
        | .ok r =>
          after (envOf t lm isdir makedirs outdir sep stemDot stemCut effect) by_chrom
            (r.1.map (fun w => gfaPath (envOf t lm isdir makedirs outdir sep stemDot stemCut effect) w.name))
            (r.1.map (fun w => csvPath (envOf t lm isdir makedirs outdir sep stemDot stemCut effect) w.name))
            (effect (loopLog t lm outdir sep stemDot stemCut order) fs) := by
  unfold run
  rw [before_model t lm option isdir makedirs outdir sep stemDot stemCut effect hdir hnamed]
  cases hres : resolveOrder (componentNames t lm) option with
  | none => rfl
  | some order =>
    simp only []
    have hloop := Gaftools.TieA.OrderRun.orderRun_gen t hids htab order lm
      (resolveOrder_mem _ _ _ hres) outdir sep stemDot stemCut
    have henv : (Gen.OrderRun.Env.mk (Order.nameComps (snOf t) (allComponents (Graph.nbFun (readGraph t lm)) (Graph.ids (readGraph t lm))))
        (envOf t lm isdir makedirs outdir sep stemDot stemCut effect).dao
        (envOf t lm isdir makedirs outdir sep stemDot stemCut effect).outdir
        (envOf t lm isdir makedirs outdir sep stemDot stemCut effect).sep
        (envOf t lm isdir makedirs outdir sep stemDot stemCut effect).stemDot
        (envOf t lm isdir makedirs outdir sep stemDot stemCut effect).stemCut) =
        Gaftools.TieA.OrderRun.envOf t lm outdir sep stemDot stemCut := rfl
    have hst : (Gen.OrderRun.RunSt.mk (readGraph t lm) 0 [] [] []) = Gen.OrderRun.initSt (readGraph t lm) := rfl
    rw [henv, hst, hloop]
    unfold loopLog
    cases hrun : orderRun t order lm with
    | error e => rfl
    | ok r =>
      obtain ⟨h1, h2⟩ := Gaftools.TieA.OrderRun.out_steps (Gaftools.TieA.OrderRun.envOf t lm outdir sep stemDot stemCut) r.1
        (Gen.OrderRun.initSt (readGraph t lm))
      simp only [Except.map]
      have e1 : (Gaftools.TieA.OrderRun.stateOf (Gaftools.TieA.OrderRun.envOf t lm outdir sep stemDot stemCut)
          (Gen.OrderRun.initSt (readGraph t lm)) r).out_gfa =
          r.1.map (fun w => gfaPath (envOf t lm isdir makedirs outdir sep stemDot stemCut effect) w.name) := by
        exact h1.trans rfl
      have e2 : (Gaftools.TieA.OrderRun.stateOf (Gaftools.TieA.OrderRun.envOf t lm outdir sep stemDot stemCut)
          (Gen.OrderRun.initSt (readGraph t lm)) r).out_csv =
          r.1.map (fun w => csvPath (envOf t lm isdir makedirs outdir sep stemDot stemCut effect) w.name) := by
        exact h2.trans rfl
      rw [e1, e2]
      rfl

/-! ## the paths -/

theorem str_cancel_left {a b c : String} (h : a ++ b = a ++ c) : b = c := by
  have := congrArg String.toList h
  simp only [String.toList_append] at this
  exact String.toList_inj.mp (List.append_cancel_left this)

theorem str_cancel_right {a b c : String} (h : b ++ a = c ++ a) : b = c := by
  have := congrArg String.toList h
  simp only [String.toList_append] at this
  exact String.toList_inj.mp (List.append_cancel_right this)

/-- a `.gfa` path is never a `.csv` path -/
theorem gfa_ne_csv (a b : String) : a ++ ".gfa" ≠ b ++ ".csv" := by
  intro h
  have := congrArg String.toList h
  simp only [String.toList_append] at this
  have h2 := (List.append_inj' this (by decide)).2
  exact absurd h2 (by decide)

theorem gfaPath_inj (env : Env) (c c' : String) (h : gfaPath env c = gfaPath env c') : c = c' :=
  str_cancel_left (str_cancel_right h)

theorem csvPath_inj (env : Env) (c c' : String) (h : csvPath env c = csvPath env c') : c = c' :=
  str_cancel_left (str_cancel_right h)

/-- a `.gfa` / `.csv` path is never a `.tmp` path -/
theorem gfa_ne_tmp (a b : String) : a ++ ".gfa" ≠ b ++ ".tmp" := by
  intro h
  have := congrArg String.toList h
  simp only [String.toList_append] at this
  have h2 := (List.append_inj' this (by decide)).2
  exact absurd h2 (by decide)

theorem csv_ne_tmp (a b : String) : a ++ ".csv" ≠ b ++ ".tmp" := by
  intro h
  have := congrArg String.toList h
  simp only [String.toList_append] at this
  have h2 := (List.append_inj' this (by decide)).2
  exact absurd h2 (by decide)

theorem ne_tmp (p : String) : p ≠ tmp p := by
  intro h
  have := congrArg (fun s => s.toList.length) h
  simp only [tmp, String.toList_append, List.length_append] at this
  have h4 : (".tmp" : String).toList.length = 4 := by decide
  omega

theorem gfaPath_ne_tmp (env : Env) (c q : String) : gfaPath env c ≠ tmp q := gfa_ne_tmp _ _
theorem csvPath_ne_tmp (env : Env) (c q : String) : csvPath env c ≠ tmp q := csv_ne_tmp _ _
theorem csvPath_ne_gfaPath (env : Env) (c c' : String) : csvPath env c ≠ gfaPath env c' := fun h => gfa_ne_csv _ _ h.symm
theorem csvPath_ne_finalGfa (env : Env) (c : String) : csvPath env c ≠ finalGfa env := fun h => gfa_ne_csv _ _ h.symm

/-- the per-chromosome GFA file of a chromosome called `complete` has the path of the `-complete` GFA -/
theorem gfaPath_complete (env : Env) : gfaPath env "complete" = finalGfa env := by
  unfold gfaPath finalGfa
  have h3 : ("-complete" : String) = "-" ++ "complete" := by decide
  rw [h3, ← String.append_assoc]

/-! ## the whole function, the `-complete` files included -/

theorem nodup_map_inj {α β : Type} (f : α → β) (hf : ∀ a b, f a = f b → a = b) (l : List α) (h : l.Nodup) : (l.map f).Nodup := by
  induction l with
  | nil => exact List.nodup_nil
  | cons a l ih =>
    rw [List.nodup_cons] at h
    rw [List.map_cons, List.nodup_cons]
    refine ⟨?_, ih h.2⟩
    intro hm
    obtain ⟨b, hb, hab⟩ := List.mem_map.mp hm
    exact h.1 (hf _ _ hab ▸ hb)

/-- the events of the chromosome loop in the model's run of the whole command -/
def commandLog (t : GfaFile) (lm : Bool) (outdir sep stemDot stemCut : String) (option : String) : List Gen.OrderRun.Event :=
  match resolveOrder (componentNames t lm) option with
  | some order => loopLog t lm outdir sep stemDot stemCut order
  | none => []

/-- MAIN, end to end, against the model's `Order.orderCommand` (the function C07c's theorems are about). When the model's command
    succeeds with the outputs `outs` (per written chromosome: name, GFA file, CSV), `run_order_gfa` without `--by-chrom` ends
    normally and leaves: no per-chromosome file, a `-complete` GFA holding line for line the model's `completeGfa` of the GFA files,
    a `-complete` CSV holding the model's `completeCsv` of the CSVs.

    Hypotheses beyond those of `run_gen`:
    * `hread`  — the file system the loop's events leave holds, under the two names of every written chromosome, the lines of the
                 model's GFA file and CSV (what `write_gfa` / `f_colors.write` wrote is what `open(f, "r")` reads back);
    * `hnd`    — no chromosome is written twice (a name requested twice: the Python raises FileNotFoundError at the second
                 `os.remove`, `finding_requested_twice`).
    Nothing is asked of the NAMES any more: since the `-complete` files are assembled under `….tmp` and renamed at the end, a
    chromosome called `complete` (whose files have the very paths of the `-complete` files) is handled like any other — a
    per-chromosome file ends in `.gfa` / `.csv`, never in `.tmp`. -/
theorem run_complete (t : GfaFile) (hids : (t.segs.map (·.id)).Nodup) (htab : ∀ s ∈ t.segs, '\t' ∉ s.id.toList)
    (lm : Bool) (option : String) (isdir : Bool) (makedirs : Option String)
    (outdir sep stemDot stemCut : String) (effect : List Gen.OrderRun.Event → Fs → Fs) (fs : Fs)
    (hdir : isdir = true ∨ makedirs = none)
    (hnamed : Gaftools.TieA.OrderRun.AllNamed (snOf t) (allComponents (Graph.nbFun (readGraph t lm)) (Graph.ids (readGraph t lm))))
    (outs : List (String × GfaFile × List (List String)))
    (hcmd : orderCommand t option lm = some (.ok outs))
    (hnd : (outs.map (·.1)).Nodup)
    (hread : ∀ o ∈ outs,
      effect (commandLog t lm outdir sep stemDot stemCut option) fs
          (gfaPath (envOf t lm isdir makedirs outdir sep stemDot stemCut effect) o.1) = some (gfaLines o.2.1) ∧
      effect (commandLog t lm outdir sep stemDot stemCut option) fs
          (csvPath (envOf t lm isdir makedirs outdir sep stemDot stemCut effect) o.1) = some (csvLines o.2.2)) :
    run (envOf t lm isdir makedirs outdir sep stemDot stemCut effect) false (some option) (!lm) fs =
      .ok (completeFs (envOf t lm isdir makedirs outdir sep stemDot stemCut effect)
        (outs.map (fun o => gfaPath (envOf t lm isdir makedirs outdir sep stemDot stemCut effect) o.1))
        (outs.map (fun o => csvPath (envOf t lm isdir makedirs outdir sep stemDot stemCut effect) o.1))
        (effect (commandLog t lm outdir sep stemDot stemCut option) fs)
        (completeGfa (outs.map (·.2.1))) (completeCsv (outs.map (·.2.2)))) := by
  generalize hE : envOf t lm isdir makedirs outdir sep stemDot stemCut effect = E at *
  have hrun := run_gen t hids htab lm option false isdir makedirs outdir sep stemDot stemCut effect fs hdir hnamed
  rw [hE] at hrun
  rw [hrun]
  unfold orderCommand at hcmd
  unfold commandLog at hread ⊢
  cases hres : resolveOrder (componentNames t lm) option with
  | none => rw [hres] at hcmd; cases hcmd
  | some order =>
    rw [hres] at hcmd
    simp only [hres] at hread ⊢
    simp only [Option.map_some, Option.some.injEq] at hcmd
    unfold orderOutputs at hcmd
    cases hor : orderRun t order lm with
    | error e => rw [hor] at hcmd; cases hcmd
    | ok r =>
      rw [hor] at hcmd
      simp only [Except.ok.injEq] at hcmd
      simp only []
      have hg : r.1.map (fun w => gfaPath E w.name) = outs.map (fun o => gfaPath E o.1) := by
        rw [← hcmd, List.map_map]; rfl
      have hc : r.1.map (fun w => csvPath E w.name) = outs.map (fun o => csvPath E o.1) := by
        rw [← hcmd, List.map_map]; rfl
      rw [hg, hc]
      generalize effect (loopLog t lm outdir sep stemDot stemCut order) fs = fsL at hread ⊢
      apply after_gen E _ _ fsL (outs.map (·.2.1)) (outs.map (·.2.2))
      · rw [List.map_map, List.map_map]
        exact List.map_congr_left (fun o ho => (hread o ho).1)
      · rw [List.map_map, List.map_map]
        exact List.map_congr_left (fun o ho => (hread o ho).2)
      · intro f hf
        obtain ⟨o, _, rfl⟩ := List.mem_map.mp hf
        exact gfaPath_ne_tmp E o.1 _
      · have := nodup_map_inj (gfaPath E) (gfaPath_inj E) _ hnd
        rwa [List.map_map] at this
      · intro f hf
        obtain ⟨o, _, rfl⟩ := List.mem_map.mp hf
        exact csvPath_ne_tmp E o.1 _
      · have := nodup_map_inj (csvPath E) (csvPath_inj E) _ hnd
        rwa [List.map_map] at this
      · intro f hf
        obtain ⟨o, _, rfl⟩ := List.mem_map.mp hf
        refine ⟨csvPath_ne_finalGfa E o.1, csvPath_ne_tmp E o.1 _, ?_⟩
        intro hm
        obtain ⟨o', _, ho'⟩ := List.mem_map.mp hm
        exact csvPath_ne_gfaPath E o.1 o'.1 ho'.symm

/-- … and with `--by-chrom` the run ends after the loop: the per-chromosome files stay as the loop left them -/
theorem run_by_chrom (t : GfaFile) (hids : (t.segs.map (·.id)).Nodup) (htab : ∀ s ∈ t.segs, '\t' ∉ s.id.toList)
    (lm : Bool) (option : String) (isdir : Bool) (makedirs : Option String)
    (outdir sep stemDot stemCut : String) (effect : List Gen.OrderRun.Event → Fs → Fs) (fs : Fs)
    (hdir : isdir = true ∨ makedirs = none)
    (hnamed : Gaftools.TieA.OrderRun.AllNamed (snOf t) (allComponents (Graph.nbFun (readGraph t lm)) (Graph.ids (readGraph t lm)))) :
    run (envOf t lm isdir makedirs outdir sep stemDot stemCut effect) true (some option) (!lm) fs =
      match orderCommand t option lm with
      | none => .error (.exit 1)
      | some (.error e) => .error (.raised e)
      | some (.ok _) => .ok (effect (commandLog t lm outdir sep stemDot stemCut option) fs) := by
  rw [run_gen t hids htab lm option true isdir makedirs outdir sep stemDot stemCut effect fs hdir hnamed]
  unfold orderCommand commandLog
  cases hres : resolveOrder (componentNames t lm) option with
  | none => rfl
  | some order =>
    simp only [Option.map_some]
    unfold orderOutputs
    cases hor : orderRun t order lm with
    | error e => rfl
    | ok r => rfl

/-! ## findings: where the source and the model part -/

/-- FINDING (`--chromosome_order chr1,chr1`, or any name given twice; confirmed on the real code: `FileNotFoundError` at
    `os.remove(f)`, exit status 1, no `-complete` file is written, `…-complete.gfa.tmp` and the per-chromosome CSV are left behind). The request passes the validation,
    the loop writes the chromosome twice under the same two file names, so `out_gfa` lists one path twice: the `-complete` GFA is
    assembled, the first `os.remove` succeeds, the second raises. The model (`orderCommand`, `completeGfa`) knows no such crash:
    it returns the chromosome twice (see `C07.complete_sorted`, which needs `order.Nodup` for its own reasons). -/
theorem finding_requested_twice (env : Env) (p : String) (out_csv : List String) (fs : Fs)
    (hp : p ≠ tmp (finalGfa env)) (hex : (fs p).isSome) :
    after env false [p, p] out_csv fs = .error (.raised "FileNotFoundError") := by
  have hg1 : ∀ f ∈ [p, p], f ≠ tmp (finalGfa env) := by
    intro f hf
    simp only [List.mem_cons, List.not_mem_nil, or_false, or_self] at hf
    exact hf ▸ hp
  have x0 : ∀ (v : Option (List Str)), ∀ f ∈ [p, p], (fsSet fs (tmp (finalGfa env)) v f).isSome := by
    intro v f hf
    rw [fsSet_other _ _ _ _ (hg1 f hf)]
    simp only [List.mem_cons, List.not_mem_nil, or_false, or_self] at hf
    exact hf ▸ hex
  obtain ⟨A, s1⟩ : ∃ A, [p, p].foldlM (loop2 (finalGfa env)) (fsCreate fs (tmp (finalGfa env))) =
      .ok (fsSet fs (tmp (finalGfa env)) (some A)) :=
    ⟨_, by
      have := foldlM_files (tmp (finalGfa env)) isS (loop3 (finalGfa env)) (loop2 (finalGfa env)) (loop3_eq _) (loop2_eq _)
        [p, p] (fsCreate fs (tmp (finalGfa env))) [] (fsSet_same _ _ _) hg1 (x0 _)
      unfold fsCreate at this ⊢
      rw [fsSet_fsSet] at this
      exact this⟩
  obtain ⟨B, s2⟩ : ∃ B, [p, p].foldlM (loop4 (finalGfa env)) (fsSet fs (tmp (finalGfa env)) (some A)) =
      .ok (fsSet fs (tmp (finalGfa env)) (some B)) :=
    ⟨_, by
      have := foldlM_files (tmp (finalGfa env)) isL (loop5 (finalGfa env)) (loop4 (finalGfa env)) (loop5_eq _) (loop4_eq _)
        [p, p] (fsSet fs (tmp (finalGfa env)) (some A)) A (fsSet_same _ _ _) hg1 (x0 _)
      rw [fsSet_fsSet] at this
      exact this⟩
  have s3 := foldlM_remove_twice loop6 loop6_eq p (fsSet fs (tmp (finalGfa env)) (some B)) (x0 _ p List.mem_cons_self)
  unfold fsCreate at s1
  have hPg : env.outdir ++ env.sep ++ env.stemDot ++ "-complete" ++ ".gfa" = finalGfa env := rfl
  have htmp : ∀ p : String, p ++ ".tmp" = tmp p := fun _ => rfl
  unfold after
  simp only [Bool.not_false, Bool.not_true, if_true, if_false, Bool.false_eq_true, hPg, htmp, fsCreate, s1, s2, s3]

-- the model accepts such a request and returns two outputs
#guard (match orderCommand Gaftools.C07.completeCx "chr1,chr1" false with
  | some (.ok outs) => outs.map (·.1)
  | _ => []) == ["chr1", "chr1"]

/-! ## a chromosome called `complete`: repaired -/

theorem gfaLines_single (F : GfaFile) : gfaLines (completeGfa [F]) = gfaLines F := by
  simp [gfaLines, GfaText.renderLines, completeGfa]

theorem csvLines_single (C : List (List String)) : csvLines (completeCsv [C]) = csvLines C := by
  simp [csvLines, completeCsv]

/-- REPAIRED (formerly `finding_chromosome_named_complete`: the run removed its own result). The per-chromosome files of a
    chromosome called `complete` have the paths of the `-complete` files (`gfaPath_complete`). Since the `-complete` files are
    assembled under `….tmp` and put in place by `os.replace` after the per-chromosome files are removed, the case works: for
    that chromosome alone, with its GFA file `F` and CSV `C` under those paths, the run ends normally, the `-complete` GFA holds
    the lines of `F` (= the model's `completeGfa [F]`), the `-complete` CSV those of `C`, and no temporary file is left.
    (For any set of chromosomes this is `run_complete`, which no longer asks anything of the names. Confirmed on the real code with
    `--chromosome_order chr1,complete`.) -/
theorem chromosome_named_complete_works (env : Env) (fs : Fs) (F : GfaFile) (C : List (List String))
    (hF : fs (finalGfa env) = some (gfaLines F)) (hC : fs (finalCsv env) = some (csvLines C)) :
    ∃ fs', after env false [finalGfa env] [finalCsv env] fs = .ok fs' ∧
      fs' (finalGfa env) = some (gfaLines (completeGfa [F])) ∧ fs' (finalCsv env) = some (csvLines (completeCsv [C])) ∧
      gfaLines (completeGfa [F]) = gfaLines F ∧ csvLines (completeCsv [C]) = csvLines C ∧
      fs' (tmp (finalGfa env)) = none ∧ fs' (tmp (finalCsv env)) = none := by
  have hgc : finalGfa env ≠ finalCsv env := gfa_ne_csv _ _
  have hgt : finalGfa env ≠ tmp (finalCsv env) := gfa_ne_tmp _ _
  have hct : finalCsv env ≠ tmp (finalGfa env) := csv_ne_tmp _ _
  have hg0 : finalGfa env ≠ tmp (finalGfa env) := ne_tmp _
  have hc0 : finalCsv env ≠ tmp (finalCsv env) := ne_tmp _
  have htt : tmp (finalGfa env) ≠ tmp (finalCsv env) := fun h => hgc (str_cancel_right h)
  refine ⟨_, after_gen env [finalGfa env] [finalCsv env] fs [F] [C] (by simp [hF]) (by simp [hC])
    (by simpa using hg0) (by simp) (by simpa using hc0) (by simp) (by simpa using ⟨hgc.symm, hct, hgc.symm⟩), ?_, ?_,
    gfaLines_single F, csvLines_single C, ?_, ?_⟩
  · rw [completeFs_apply]
    simp [hgc, hgt, hg0]
  · rw [completeFs_apply]
    simp
  · rw [completeFs_apply]
    simp [htt, hct.symm, hg0.symm, Ne.symm hgc, hgt]
  · rw [completeFs_apply]
    simp [hc0.symm]

end Gaftools.TieA.OrderFinish

