import Gaftools.Props.TieA14
import Gaftools.Props.TieA16
import Gaftools.Props.TieA23
import Gaftools.Props.TieA28
import Gaftools.Props.TieA21
/-!
# Non-vacuity audit of TieA14 / TieA16 / TieA23 / TieA28 / TieA21

For every main theorem of the five files: an `example` that applies it to a concrete, non-trivial input with all hypotheses
discharged, and a check that the generated function is not degenerate there.

Conventions. Hypotheses are discharged by `decide` / small manual proofs (`decide +kernel` twice, for `biccsFrom`: kernel
evaluation, no axiom). Three kinds of facts cannot be evaluated by `decide` or the kernel and are checked by `#guard` (compiled
evaluation) instead, each marked where it occurs: `Rat` arithmetic (TieA14's states), functions defined by well-founded recursion
(`all_components`, `find_component`, `dfs` — hence `componentNames`, `decompose`, `orderRun`, `orderCommand`), and `String.splitOn` /
`String.toInt?`. Where such a fact is a HYPOTHESIS of a theorem, the `example` takes it as a hypothesis of exactly that shape and a
`#guard` next to it evaluates it to `true`; in addition the theorem is applied entirely in the kernel to an input on which no
well-founded recursion is entered (`tfFlat`).
-/
namespace Gaftools.NonVacuousC

/-! ## TieA14 : `stat.run_stat` -/
section A14
open Gaftools.Gaf Gaftools.Stat Gaftools.TieA

def mkRec (q : String) (qlen qs qe nm bl mq : Nat) (prim : Bool) (cg : String) : Rec :=
  { qname := q.toList, qlen := qlen, qs := qs, qe := qe, strand := ['+'], path := ">s1>s2<s3".toList, plen := 300, ps := 10, pe := 10 + bl,
    nmatch := nm, blen := bl, mapq := mq, isPrimary := prim, cigar := cg.toList,
    tags := [("tp:A:".toList, (if prim then "P" else "S").toList), ("cg:Z:".toList, cg.toList)] }

/-- five alignments of two reads: a first one, a better second one of the same read (dict update), another read whose CIGAR is one
    match run (a "perfect" one), a secondary one, one of mapping quality 0 -/
def r1 : Rec := mkRec "read1" 100 0 80 70 90 60 true "30=1X49=60D2I"
def r2 : Rec := mkRec "read1" 100 0 95 93 95 30 true "93=2X"
def r3 : Rec := mkRec "read2" 200 10 210 200 200 60 true "200="
def r4 : Rec := mkRec "read1" 100 0 50 40 50 20 false "40=10X"
def r5 : Rec := mkRec "read3" 100 0 50 40 50 0 true "40=10X"
def recs : List Rec := [r1, r2, r3, r4, r5]

/-- the state after the first three records: two reads in the dictionary, both CIGAR counters moved -/
def s3 : St := run true [r1, r3]

-- the body of the loop over the CIGAR tokens, at the pair ("60", "D") of r1's CIGAR
example : Gen.statFor_cnt (groupDigits r1.cigar) s3 6 =
    { s3 with cig := bump s3.cig ((groupDigits r1.cigar).getD 6 [], (groupDigits r1.cigar).getD 7 []) } :=
  statFor_cnt_gen _ _ _
-- (`#guard`: the states hold `Rat`s, whose arithmetic `decide` does not reduce)
#guard (Gen.statFor_cnt (groupDigits r1.cigar) s3 6).cig.delL == s3.cig.delL + 1 &&
    Gen.statFor_cnt (groupDigits r1.cigar) s3 6 != Gen.statFor_cnt (groupDigits r1.cigar) s3 2 &&
    Gen.statFor_cnt (groupDigits r1.cigar) s3 6 != s3

-- the whole loop over the tokens of "30=1X49=60D2I" (five pairs)
example : (Gen.pyRange 0 (((groupDigits r1.cigar).length : Int) - 1) 2).foldl (Gen.statFor_cnt (groupDigits r1.cigar)) s3 =
    { s3 with cig := (cigarPairs (groupDigits r1.cigar)).foldl bump s3.cig } := cigLoop_gen _ _
example : Gen.pyRange 0 (((groupDigits r1.cigar).length : Int) - 1) 2 = [0, 2, 4, 6, 8] := by decide
#guard ((Gen.pyRange 0 (((groupDigits r1.cigar).length : Int) - 1) 2).foldl (Gen.statFor_cnt (groupDigits r1.cigar)) s3).cig ==
    { s3.cig with del := s3.cig.del + 1, delL := s3.cig.delL + 1, ins := s3.cig.ins + 1, x := s3.cig.x + 1, m := s3.cig.m + 2 }

-- one record on a state with two reads: `StatKeysOk` holds (decided on the concrete dictionary); r2 updates read1 in place
theorem s3_keys : StatKeysOk s3 := by unfold StatKeysOk; decide
example : Gen.statStep true s3 r2 = step true s3 r2 := statStep_gen true s3 r2 s3_keys
example : Gen.statStep false s3 r4 = step false s3 r4 := statStep_gen false s3 r4 s3_keys
#guard (Gen.statStep true s3 r2).reads != s3.reads && (Gen.statStep true s3 r2).reads.length == 2 &&
    (Gen.statStep true s3 r2).cig != s3.cig && Gen.statStep true s3 r2 != Gen.statStep true s3 r4 &&
    Gen.statStep true s3 r2 != Gen.statStep false s3 r2 && (Gen.statStep true s3 r2).reads.map (·.bestRatio) == [19/20, 1]

example : Gen.statInit = ({} : St) := statInit_gen
example : recs.foldl (Gen.statStep true) s3 = recs.foldl (step true) s3 := statFoldl_gen true recs s3 s3_keys
example : Gen.statRun true recs = run true recs := statRun_gen true recs
example : Gen.statRun false recs = run false recs := statRun_gen false recs
#guard (Gen.statRun true recs).total == 5 && (Gen.statRun true recs).primary == 3 && (Gen.statRun true recs).secondary == 2 &&
    (Gen.statRun true recs).reads.length == 2 && (Gen.statRun true recs).bases == 363 && (Gen.statRun true recs).cig.perfect == 1 &&
    Gen.statRun true recs != Gen.statInit && Gen.statRun true recs != Gen.statRun false recs &&
    Gen.statRun true recs != Gen.statRun true [r1, r3]

-- the report of that run: 11 lines with the CIGAR block, 9 without; the figures are not those of the empty run
example : (Gen.statReport true (Gen.statRun true recs)).map (·.2) =
    (let s := run true recs
     [.nat s.total, .nat s.primary, .nat s.secondary, .nat s.reads.length, .nat s.bases,
      .round (avgMapq s) 1, .round (avgBestId s) 3, .round (avgBestRatio s) 3] ++
     (if true then [Gen.RVal.fmt "Cigar string statistics:\n\tTotal deletion regions: %d (%d >50bps)\n\tTotal insertion regions: %d (%d >50bps)\n\tTotal substitution regions: %d (%d >50bps)\n\tTotal match regions: %d (%d >50bps)"
          [s.cig.del, s.cig.delL, s.cig.ins, s.cig.insL, s.cig.x, s.cig.xL, s.cig.m, s.cig.mL], .nat s.cig.perfect] else []) ++
     [.text]) := report_run_gen true recs
#guard (Gen.statReport true (Gen.statRun true recs)).length == 11 && (Gen.statReport false (Gen.statRun false recs)).length == 9 &&
    ((Gen.statReport true (Gen.statRun true recs)).map (·.2)).take 8 ==
      [.nat 5, .nat 3, .nat 2, .nat 2, .nat 363, .round 30 1, .round ((93 / 95 + 1) / 2) 3, .round ((19 / 20 + 1) / 2) 3] &&
    (Gen.statReport true (Gen.statRun true recs)).map (·.2) != (Gen.statReport true (Gen.statRun true [r1, r3])).map (·.2)
example : (Gen.statReport true (Gen.statRun true recs))[6]? =
    some ("Average highest sequence identity:", .round (avgBestId (Gen.statRun true recs)) 3) := by rw [statReport_gen]; rfl
end A14

/-! ## the test graph of the `order_gfa` files (TieA16, TieA23, TieA28, TieA21)

16 segments, 12 links, five components:
* chr1 : p – a – {x | y} – b – c – q   (articulation points a, b, c; three bubbles {p}, {x, y}, {q}; a bridge b – c)
* chr2 : d – e – f                     (one articulation point)
* chr3 : h – i                         (no articulation point: reported and skipped, `degreeOne`)
* chrM : g                             (a single node)
* chr4 : j – k – l, `k` without SO     (the Python raises: `crash`)
-/
section Graphs
open Gaftools.Gfa Gaftools.Algo Gaftools.View Gaftools.Order

def seg (id sq sn : String) (so : Nat) (sr : Nat) : SegLine :=
  ⟨id, sq, [⟨"SN", "Z", sn⟩, ⟨"SO", "i", toString so⟩, ⟨"SR", "i", toString sr⟩]⟩
def lnk (a b : String) : LinkLine := ⟨a, true, b, true, 0, []⟩

def tf : GfaFile :=
  { segs := [seg "p" "A" "h1" 0 1, seg "a" "AC" "chr1" 0 0, seg "x" "G" "h1" 5 1, seg "y" "T" "h2" 7 1, seg "b" "GG" "chr1" 2 0,
             seg "c" "TTA" "chr1" 4 0, seg "q" "C" "h2" 9 1,
             seg "d" "A" "chr2" 0 0, seg "e" "CC" "chr2" 1 0, seg "f" "G" "chr2" 3 0,
             seg "h" "A" "chr3" 0 0, seg "i" "C" "chr3" 1 0,
             seg "g" "ACGT" "chrM" 0 0,
             seg "j" "A" "chr4" 0 0, ⟨"k", "C", [⟨"SN", "Z", "chr4"⟩]⟩, seg "l" "A" "chr4" 2 0],
    links := [lnk "p" "a", lnk "a" "x", lnk "a" "y", lnk "x" "b", lnk "y" "b", lnk "b" "c", lnk "c" "q", lnk "d" "e", lnk "e" "f",
              lnk "h" "i", lnk "j" "k", lnk "k" "l"] }
def g0 : Graph := readGraph tf false

def comp1 : List V := ["q", "c", "x", "b", "y", "a", "p"]
def comp2 : List V := ["f", "e", "d"]
def comp3 : List V := ["i", "h"]
def compM : List V := ["g"]
def comp4 : List V := ["l", "k", "j"]
def comps5 : List (List V) := [comp1, comp2, comp3, compM, comp4]
def named5 : List (String × List V) := [("chr1", comp1), ("chr2", comp2), ("chr3", comp3), ("chrM", compM), ("chr4", comp4)]

deriving instance DecidableEq for Local, Outcome, Written

/-- what `decompose` says of the five components (checked by `#guard` below: `decompose` runs `dfs`, defined by well-founded
    recursion, which neither `decide` nor the kernel unfolds) -/
def l1 : Local := ⟨["a", "b", "c"], ["p", "q", "x", "y"],
  [("p", 0, 1), ("a", 1, 0), ("x", 2, 1), ("y", 2, 2), ("b", 3, 0), ("c", 4, 0), ("q", 5, 1)], 6, 3⟩
def l2 : Local := ⟨["e"], ["f", "d"], [("f", 0, 1), ("e", 1, 0), ("d", 2, 1)], 3, 2⟩
def lM : Local := ⟨["g"], [], [("g", 0, 0)], 1, 0⟩
def decL (c : String) : Outcome :=
  if c = "chr1" then .ok l1 else if c = "chr2" then .ok l2 else if c = "chrM" then .ok lM
  else if c = "chr4" then .crash "SO missing" else .skipped .degreeOne

-- `#guard`s (evaluation, not kernel): the literals above ARE what the model computes on `tf`
#guard allComponents (Graph.nbFun g0) (Graph.ids g0) == comps5
#guard Order.nameComps (snOf tf) (allComponents (Graph.nbFun g0) (Graph.ids g0)) == named5
#guard componentNames tf false == ["chr1", "chr2", "chr3", "chrM", "chr4"]
#guard ["chr1", "chr2", "chr3", "chrM", "chr4"].all
  (fun c => decide (decompose (Graph.nbFun g0) (compOfName tf false c) (soOf tf) (snOf tf) = decL c))
end Graphs

/-! ## TieA16 : `count_sn`, `name_comps`, the chromosome loop of `run_order_gfa` -/
section A16
open Gaftools.Gfa Gaftools.Algo Gaftools.View Gaftools.Order
open Gaftools.Gen.OrderRun Gaftools.TieA.OrderRun

-- `count_sn` on the 7-node component of chr1 (three different SN values)
example : countSn (snOf tf) comp1 =
    ((comp1.filterMap (snOf tf)).eraseDups).map (fun t => (t, ((comp1.filterMap (snOf tf)).filter (· == t)).length)) :=
  countSn_gen _ _
example : countSn (snOf tf) comp1 = [("h2", 2), ("chr1", 3), ("h1", 2)] ∧ countSn (snOf tf) comp2 = [("chr2", 3)] := by decide

-- one round of `for comp in components`, with chr2 already filed and "chr2" left over in `current_tag`
example : nameBody (snOf tf) ([("chr2", comp2)], "chr2") comp1 =
    (if ((majoritySN (snOf tf) comp1).getD "chr2" == "") = true then .error "ValueError"
     else .ok (dictPut [("chr2", comp2)] ((majoritySN (snOf tf) comp1).getD "chr2") comp1, (majoritySN (snOf tf) comp1).getD "chr2")) :=
  nameBody_gen _ _ _ _
example : nameBody (snOf tf) ([("chr2", comp2)], "chr2") comp1 = .ok ([("chr2", comp2), ("chr1", comp1)], "chr1") := by decide

-- `name_comps` on the five components: `AllNamed` holds (every component has a non-empty majority SN)
theorem allNamed5 : AllNamed (snOf tf) comps5 := by
  intro c hc
  simp only [comps5, List.mem_cons, List.not_mem_nil, or_false] at hc
  rcases hc with rfl | rfl | rfl | rfl | rfl
  · exact ⟨"chr1", by decide, by decide⟩
  · exact ⟨"chr2", by decide, by decide⟩
  · exact ⟨"chr3", by decide, by decide⟩
  · exact ⟨"chrM", by decide, by decide⟩
  · exact ⟨"chr4", by decide, by decide⟩
-- … also through `allNamed_of_tags` (every component has a tagged node, no SN is empty)
example : AllNamed (snOf tf) comps5 := allNamed_of_tags _ _ (by decide) (by decide)
example : Gen.OrderRun.nameComps (snOf tf) comps5 = .ok (Order.nameComps (snOf tf) comps5) := nameComps_gen _ _ allNamed5
example : Gen.OrderRun.nameComps (snOf tf) comps5 = .ok named5 := by decide

-- `components[chromosome]` (both sides are MODEL functions, see the findings)
example : compOfName tf false "chr1" =
    (dictGet (Order.nameComps (snOf tf) (allComponents (Graph.nbFun (readGraph tf false)) (Graph.ids (readGraph tf false)))) "chr1").getD [] :=
  compOfName_gen tf false "chr1"
#guard compOfName tf false "chr1" == comp1 && compOfName tf false "chr2" == comp2 && compOfName tf false "nope" == []

/-- `node_order` of chr1 when the loop reaches it with `bo = 3` -/
def tags1 : List (V × Int × Int) := l1.order.map (fun (v, k, no) => (v, (3 : Int) + (k : Int), (no : Int)))

-- the body of the loop over the nodes of a chromosome: node "b", after "a" has been passed
example : ∃ row, csvRow g0 ⟨"chr1", tags1, l1.aps, l1.inside⟩ "b" = some row ∧
    nodeBody tags1 l1.aps l1.inside "out/g-chr1.csv" (markGraph g0 ["a"] tags1, [Event.openW "out/g-chr1.csv"]) "b" =
      .ok (markGraph g0 (["a"] ++ ["b"]) tags1, [Event.openW "out/g-chr1.csv"] ++ [Event.write "out/g-chr1.csv" row]) :=
  nodeBody_gen g0 ["a"] "chr1" tags1 l1.aps l1.inside "out/g-chr1.csv" _ "b" (by decide) (by decide) (by decide)
example : nodeBody tags1 l1.aps l1.inside "out/g-chr1.csv" (markGraph g0 ["a"] tags1, [Event.openW "out/g-chr1.csv"]) "b" =
    .ok (markGraph g0 ["a", "b"] tags1,
      [Event.openW "out/g-chr1.csv", Event.write "out/g-chr1.csv" ["b", "orange", "chr1", "2", "6", "0"]]) ∧
    markGraph g0 ["a", "b"] tags1 ≠ markGraph g0 ["a"] tags1 ∧
    ((markGraph g0 ["a", "b"] tags1).find "b").map (·.tags.map (·.name)) = some ["SN", "SO", "SR", "BO", "NO"] := by decide

-- the whole inner loop over `sorted(component_nodes)` of chr1 (7 nodes)
example : (sortStrings comp1).foldlM (nodeBody tags1 l1.aps l1.inside "f.csv") (markGraph g0 [] tags1, []) =
    .ok (markGraph g0 ([] ++ sortStrings comp1) tags1,
      [] ++ ((sortStrings comp1).filterMap (csvRow g0 ⟨"chr1", tags1, l1.aps, l1.inside⟩)).map (Event.write "f.csv")) :=
  foldlM_nodeBody g0 "chr1" tags1 l1.aps l1.inside "f.csv" (sortStrings comp1) (by decide) (by decide) (by decide) [] [] (by decide)
example : ((sortStrings comp1).filterMap (csvRow g0 ⟨"chr1", tags1, l1.aps, l1.inside⟩)).map (fun r => r.take 2 ++ r.drop 4) =
    [["a", "orange", "4", "0"], ["b", "orange", "6", "0"], ["c", "orange", "7", "0"], ["p", "blue", "3", "1"],
     ["q", "blue", "8", "1"], ["x", "blue", "5", "1"], ["y", "blue", "5", "2"]] := by decide

/-- the environment of the loop with the named components of `tf`; `decompose_and_order` = `decL`, shifted (`daoOf`) -/
def envL : Env :=
  { components := named5, dao := fun _ _ c bo => daoOf (decL c) bo, outdir := "out", sep := "/", stemDot := "g", stemCut := "g.g" }

theorem hdaoL : ∀ g comp c bo, dictGet envL.components c = some comp → envL.dao g comp c bo = daoOf (decL c) bo :=
  fun _ _ _ _ _ => rfl

/-- a state in the middle of a run: chrM has been written (bo = 1) -/
def stMid : RunSt :=
  { graph := g0, bo := 1, out_gfa := ["out/g-chrM.gfa"], out_csv := ["out/g.g-chrM.csv"], log := [Event.close "out/g.g-chrM.csv"] }

-- one chromosome that is ordered (chr1, 7 nodes), one that is skipped (chr3), one on which the Python raises (chr4)
example : chromBody envL stMid "chr1" =
    .ok { writtenStep envL stMid ⟨"chr1", l1.order.map (fun (v, k, no) => (v, stMid.bo + (k : Int), (no : Int))), l1.aps, l1.inside⟩ with
          bo := stMid.bo + (l1.len : Int) } :=
  chromBody_ok decL envL stMid "chr1" comp1 l1 hdaoL (by decide) (by decide) (by decide) (by decide) (by decide)
example : chromBody envL stMid "chr3" = .ok stMid :=
  chromBody_skipped decL envL stMid "chr3" comp3 .degreeOne hdaoL (by decide) (by decide)
example : chromBody envL stMid "chr4" = .error "SO missing" :=
  chromBody_crash decL envL stMid "chr4" comp4 "SO missing" hdaoL (by decide) (by decide)
example : (chromBody envL stMid "chr1").map (fun s => (s.bo, s.out_gfa, s.out_csv, s.log.length, s.graph == g0)) =
    .ok (7, ["out/g-chrM.gfa", "out/g-chr1.gfa"], ["out/g.g-chrM.csv", "out/g.g-chr1.csv"], 12, false) := by decide

/-- the request: an ordered chain, a skipped one, another chain, a single node -/
def order4 : List String := ["chr1", "chr3", "chr2", "chrM"]

theorem hkeyL : ∀ c ∈ order4 ++ ["chr4"], (dictGet envL.components c).isSome := by decide
theorem hndL : ∀ c ∈ order4 ++ ["chr4"], ∀ comp, dictGet envL.components c = some comp → comp.Nodup := by
  intro c hc comp h
  simp only [order4, List.cons_append, List.nil_append, List.mem_cons, List.not_mem_nil, or_false] at hc
  rcases hc with rfl | rfl | rfl | rfl | rfl <;> (injection h with h; subst h; decide)
theorem hcovL : ∀ c ∈ order4 ++ ["chr4"], ∀ l comp, decL c = .ok l → dictGet envL.components c = some comp →
    ∀ v ∈ comp, (g0.find v).isSome ∧ v ∈ l.order.map (·.1) := by
  intro c hc l comp hd h
  simp only [order4, List.cons_append, List.nil_append, List.mem_cons, List.not_mem_nil, or_false] at hc
  rcases hc with rfl | rfl | rfl | rfl | rfl
  · injection h with h; injection hd with hd; subst h; subst hd; decide
  · cases hd
  · injection h with h; injection hd with hd; subst h; subst hd; decide
  · injection h with h; injection hd with hd; subst h; subst hd; decide
  · cases hd
theorem hneL : ∀ c ∈ order4 ++ ["chr4"], ∀ l, decL c = .ok l → l.aps ≠ [] := by
  intro c hc l hd
  simp only [order4, List.cons_append, List.nil_append, List.mem_cons, List.not_mem_nil, or_false] at hc
  rcases hc with rfl | rfl | rfl | rfl | rfl
  · injection hd with hd; subst hd; decide
  · cases hd
  · injection hd with hd; subst hd; decide
  · injection hd with hd; subst hd; decide
  · cases hd

theorem sub4 {P : String → Prop} (h : ∀ c ∈ order4 ++ ["chr4"], P c) : ∀ c ∈ order4, P c :=
  fun c hc => h c (List.mem_append_left _ hc)

-- MAIN (`runLoop_gen`, `runLoop_files`): the whole loop on the request chr1, chr3, chr2, chrM — and with chr4 appended, a crash
example : runLoop envL (initSt g0) order4 = (runOrder decL order4).map (stateOf envL (initSt g0)) :=
  runLoop_gen decL envL g0 order4 hdaoL (sub4 hkeyL) (sub4 hndL) (sub4 hcovL) (sub4 hneL)
example : runLoop envL (initSt g0) (order4 ++ ["chr4"]) = (runOrder decL (order4 ++ ["chr4"])).map (stateOf envL (initSt g0)) :=
  runLoop_gen decL envL g0 _ hdaoL hkeyL hndL hcovL hneL
example : (runLoop envL (initSt g0) order4).map (fun st => (st.bo, st.out_gfa, st.out_csv)) =
    (runOrder decL order4).map (fun r => (r.2, r.1.map (fun w => gfaName envL w.name), r.1.map (fun w => csvName envL w.name))) :=
  runLoop_files decL envL g0 order4 hdaoL (sub4 hkeyL) (sub4 hndL) (sub4 hcovL) (sub4 hneL)
example : (runLoop envL (initSt g0) order4).map (fun st => (st.bo, st.out_gfa, st.out_csv, st.log.length)) =
      .ok (10, ["out/g-chr1.gfa", "out/g-chr2.gfa", "out/g-chrM.gfa"], ["out/g.g-chr1.csv", "out/g.g-chr2.csv", "out/g.g-chrM.csv"], 23) ∧
    runLoop envL (initSt g0) (order4 ++ ["chr4"]) = .error "SO missing" ∧
    (runLoop envL (initSt g0) order4).map (·.graph) ≠ .ok g0 ∧
    (runLoop envL (initSt g0) order4).map (·.bo) ≠ (runLoop envL (initSt g0) ["chr2", "chrM"]).map (·.bo) := by decide
example : csvSep = "," ∧ csvEnd = "\n" := csvFormat_gen

-- MAIN for a real run (`orderRun_gen`, `orderRun_tags_all`) on `tf`: `hids`, `htab` are decided; `hreq` (and the value of
-- `orderRun`) need `allComponents` / `dfs`, defined by well-founded recursion — they are left as hypotheses here and checked by `#guard`
theorem hidsTf : (tf.segs.map (·.id)).Nodup := by decide
theorem htabTf : ∀ s ∈ tf.segs, '\t' ∉ s.id.toList := by decide
example (hreq : ∀ c ∈ order4, c ∈ componentNames tf false) :
    runLoop (envOf tf false "out" "/" "g" "g.g") (initSt (readGraph tf false)) order4 =
      (orderRun tf order4 false).map (stateOf (envOf tf false "out" "/" "g" "g.g") (initSt (readGraph tf false))) :=
  orderRun_gen tf hidsTf htabTf order4 false hreq "out" "/" "g" "g.g"
#guard order4.all (fun c => (componentNames tf false).contains c)
#guard runLoop (envOf tf false "out" "/" "g" "g.g") (initSt (readGraph tf false)) order4 ==
  (orderRun tf order4 false).map (stateOf (envOf tf false "out" "/" "g" "g.g") (initSt (readGraph tf false)))
#guard (runLoop (envOf tf false "out" "/" "g" "g.g") (initSt (readGraph tf false)) order4).map
    (fun st => (st.bo, st.out_gfa, st.log.length)) == .ok (10, ["out/g-chr1.gfa", "out/g-chr2.gfa", "out/g-chrM.gfa"], 23)
#guard runLoop (envOf tf false "out" "/" "g" "g.g") (initSt (readGraph tf false)) order4 == runLoop envL (initSt g0) order4
def ws3 : List Written :=
  [⟨"chr1", [("p", 0, 1), ("a", 1, 0), ("x", 2, 1), ("y", 2, 2), ("b", 3, 0), ("c", 4, 0), ("q", 5, 1)], ["a", "b", "c"], ["p", "q", "x", "y"]⟩,
   ⟨"chr2", [("f", 6, 1), ("e", 7, 0), ("d", 8, 1)], ["e"], ["f", "d"]⟩, ⟨"chrM", [("g", 9, 0)], ["g"], []⟩]
example (hreq : ∀ c ∈ order4, c ∈ componentNames tf false) (h : orderRun tf order4 false = .ok (ws3, 10)) :
    ∀ w ∈ ws3, compTags ((dictGet (envOf tf false "out" "/" "g" "g.g").components w.name).getD []) w.tags = w.tags :=
  orderRun_tags_all tf hidsTf htabTf order4 false hreq ws3 10 h "out" "/" "g" "g.g"
#guard orderRun tf order4 false == .ok (ws3, 10)

/-- … and fully in the kernel on a file without links (every component a single node: no well-founded recursion is entered) -/
def tfFlat : GfaFile := { segs := [seg "g" "ACGT" "chrM" 0 0, seg "u" "AC" "chrU" 0 0, seg "w" "T" "chrW" 0 0], links := [] }
example : runLoop (envOf tfFlat false "out" "/" "g" "g.g") (initSt (readGraph tfFlat false)) ["chrW", "chrM"] =
      (orderRun tfFlat ["chrW", "chrM"] false).map (stateOf (envOf tfFlat false "out" "/" "g" "g.g") (initSt (readGraph tfFlat false))) :=
  orderRun_gen tfFlat (by decide) (by decide) ["chrW", "chrM"] false (by decide) "out" "/" "g" "g.g"
example : ∀ w ∈ [(⟨"chrW", [("w", 0, 0)], ["w"], []⟩ : Written), ⟨"chrM", [("g", 1, 0)], ["g"], []⟩],
    compTags ((dictGet (envOf tfFlat false "out" "/" "g" "g.g").components w.name).getD []) w.tags = w.tags :=
  orderRun_tags_all tfFlat (by decide) (by decide) ["chrW", "chrM"] false (by decide) _ 2 (by decide) "out" "/" "g" "g.g"
example : (runLoop (envOf tfFlat false "out" "/" "g" "g.g") (initSt (readGraph tfFlat false)) ["chrW", "chrM"]).map
    (fun st => (st.bo, st.out_gfa, st.log.length)) = .ok (2, ["out/g-chrW.gfa", "out/g-chrM.gfa"], 10) := by decide
end A16

/-! ## TieA23 : `decompose_and_order` -/
section A23
open Gaftools.Gfa Gaftools.Algo Gaftools.View Gaftools.Order
open Gaftools.Gen.Decompose Gaftools.TieA.Decompose
open Gaftools.Proofs.OrderRun (restrict)
open Gaftools.Proofs.Finish2 (step part)

deriving instance DecidableEq for Scaffold
set_option synthInstance.maxSize 2000

/-- the environment of `decompose_and_order` on the file `tf`: the GFA object is stood for by the component it was cut down to;
    `biccs` reports what the model's `biccsFrom` finds (articulation points sorted); the tags are those of the S lines of `tf` -/
def envT : Env (List V) :=
  { graphFromComp := fun _ comp => comp,
    biccs := fun comp => ((Gaftools.C06.rep (restrict (Graph.nbFun g0) comp) comp).1, sortStrings (Gaftools.C06.rep (restrict (Graph.nbFun g0) comp) comp).2),
    tag := fun _ v name => (tf.segs.find? (·.id == v)).bind (fun s => (s.tags.find? (·.name == name)).map (fun t => (t.ty, t.val))),
    pyInt := String.toInt? }

def nb1 : V → List V := restrict (Graph.nbFun g0) comp1
def blocks1 : List (List V) := [["a", "p"], ["c", "q"], ["b", "c"], ["a", "x", "b", "y"]]
def aps1 : List V := ["a", "b", "c"]
theorem hrep1 : Gaftools.C06.rep nb1 comp1 = (blocks1, aps1) := by decide +kernel

/-- the scaffold graph of chr1: bubble0 {p} – a – bubble2 {x, y} – b – c – bubble1 {q} -/
def s1 : Scaffold :=
  { elts := [.scaffold "a", .scaffold "b", .scaffold "c", .bubble 0, .bubble 1, .bubble 2],
    edges := [(.bubble 0, .scaffold "a"), (.bubble 1, .scaffold "c"), (.scaffold "b", .scaffold "c"),
              (.bubble 2, .scaffold "a"), (.bubble 2, .scaffold "b")],
    bubbles := [["p"], ["q"], ["x", "y"]] }
/-- … before the last block is seen -/
def sPre : Scaffold :=
  { elts := [.scaffold "a", .scaffold "b", .scaffold "c", .bubble 0, .bubble 1],
    edges := [(.bubble 0, .scaffold "a"), (.bubble 1, .scaffold "c"), (.scaffold "b", .scaffold "c")],
    bubbles := [["p"], ["q"]] }
theorem hbuild1 : buildScaffold blocks1 (sortStrings aps1) = .ok s1 := by decide
theorem fresh1 : FreshNames aps1 := freshNames_of_tab _ (by decide)
theorem invPre : Inv aps1 sPre := ⟨by decide, by decide⟩
theorem good1 : Good aps1 s1 := ⟨⟨by decide, by decide⟩, by decide, by decide⟩

-- `for n in artic_points`
example : aps1.foldl (daoLoop1 envT) (gfaNew, []) = (mkGraph aps1 [], typesOf (aps1.map Elt.scaffold)) :=
  loop1_eq envT aps1 (by decide)
example : (aps1.foldl (daoLoop1 envT) (gfaNew, [])).1.nodes.map (·.id) = ["a", "b", "c"] ∧
    (aps1.foldl (daoLoop1 envT) (gfaNew, [])).2 = [("a", "s"), ("b", "s"), ("c", "s")] := by decide

-- `for end_node in bc_end_nodes` of the bubble {x, y}
example : ["a", "b"].foldl (daoLoop3 envT "\tbubble2") (graphOf { sPre with elts := sPre.elts ++ [Elt.bubble 2] }) =
    mkGraph ({ sPre with elts := sPre.elts ++ [Elt.bubble 2] }.elts.map Elt.name)
      (sEdges { sPre with elts := sPre.elts ++ [Elt.bubble 2] } ++ ["a", "b"].map (fun e => ("\tbubble2", e))) :=
  loop3_eq envT _ _ _ _
example : ["a", "b"].foldl (daoLoop3 envT "\tbubble2") (graphOf { sPre with elts := sPre.elts ++ [Elt.bubble 2] }) = graphOf s1 ∧
    graphOf s1 ≠ graphOf { sPre with elts := sPre.elts ++ [Elt.bubble 2] } := by decide

-- one round of `for bc in all_biccs`: the bubble block (a, x, b, y); a bridge block; a block that makes the function return None
example : daoLoop2 envT aps1 (stateOf sPre) ["a", "x", "b", "y"] =
    (match step aps1 sPre ["a", "x", "b", "y"] with | .ok s' => .ok (stateOf s') | .error _ => .error (.ret none)) :=
  step_eq envT aps1 fresh1 sPre invPre _
example : daoLoop2 envT aps1 (stateOf sPre) ["a", "x", "b", "y"] = .ok (stateOf s1) ∧ stateOf s1 ≠ stateOf sPre ∧
    (stateOf s1).1 = ["p", "q", "x", "y"] := by decide
example : daoLoop2 envT aps1 (stateOf sPre) ["a", "b", "c"] =
    (match step aps1 sPre ["a", "b", "c"] with | .ok s' => .ok (stateOf s') | .error _ => .error (.ret none)) :=
  step_eq envT aps1 fresh1 sPre invPre _
example : daoLoop2 envT aps1 (stateOf sPre) ["a", "b", "c"] = .error (.ret none) := by decide

-- the whole loop over the four blocks of chr1
example : blocks1.foldlM (daoLoop2 envT aps1) (stateOf ⟨aps1.map Elt.scaffold, [], []⟩) =
    (match blocks1.foldlM (step aps1) ⟨aps1.map Elt.scaffold, [], []⟩ with
     | .ok s => .ok (stateOf s) | .error _ => .error (.ret none)) :=
  loop2_go envT aps1 fresh1 blocks1 _ (inv_init _)
example : blocks1.foldlM (daoLoop2 envT aps1) (stateOf ⟨aps1.map Elt.scaffold, [], []⟩) = .ok (stateOf s1) := by decide

-- `x.neighbors()`, the degree lists, the traversal
example : (mkNode (sEdges s1) (Elt.name (.scaffold "b"))).neighbors = sortStrings ((s1.nbrs (.scaffold "b")).map Elt.name) :=
  neighbors_eq good1 _ (by decide)
example : (mkNode (sEdges s1) "b").neighbors = ["\tbubble2", "c"] := by decide
example : ((graphOf s1).nodes.filter (fun x => x.neighbors.length == 1)).map (fun x => x.id) =
    (s1.elts.filter (fun e => (s1.nbrs e).length == 1)).map Elt.name := degList_eq good1 1
example : ((graphOf s1).nodes.filter (fun x => x.neighbors.length == 2)).map (fun x => x.id) =
    (s1.elts.filter (fun e => (s1.nbrs e).length == 2)).map Elt.name := degList_eq good1 2
example : ((graphOf s1).nodes.filter (fun x => x.neighbors.length == 1)).map (fun x => x.id) = ["\tbubble0", "\tbubble1"] ∧
    ((graphOf s1).nodes.filter (fun x => x.neighbors.length == 2)).map (fun x => x.id) = ["a", "b", "c", "\tbubble2"] := by decide
example : gfaDfs (graphOf s1) (Elt.name (.bubble 0)) = (scaffoldDfs s1 (.bubble 0)).map Elt.name := dfs_eq good1 _
-- (`#guard`: `dfs` is defined by well-founded recursion)
#guard gfaDfs (graphOf s1) "\tbubble0" == ["\tbubble0", "a", "\tbubble2", "b", "c", "\tbubble1"]

-- the monotonicity test
example : (pyRange ((([0, 2, 4] : List Int).length : Int) - 1)).foldlM (daoLoop4 envT [0, 2, 4]) () =
    if (List.zip [0, 2, 4] ([0, 2, 4] : List Int).tail).all (fun p => decide (p.1 < p.2)) then .ok () else .error (.ret none) :=
  loop4_eq envT _
example : (pyRange 2).foldlM (daoLoop4 envT [0, 2, 4]) () = .ok () ∧
    (pyRange 2).foldlM (daoLoop4 envT [0, 4, 2]) () = .error (.ret none) := by decide

/-- the traversal of chr1 -/
def T1 : List Elt := [.bubble 0, .scaffold "a", .bubble 2, .scaffold "b", .scaffold "c", .bubble 1]

-- the numbering loop and the `return`, for the chain of chr1 starting at BO 3
example : daoPart3 envT 3 (T1.map Elt.name) (typesOf s1.elts) s1.bubbles (idsOf s1.bubbles.length) aps1 ["p", "q", "x", "y"] =
    .error (.ret (some ⟨aps1, ["p", "q", "x", "y"], dictOfList (entries s1.bubbles 3 T1 0), 3 + (T1.length : Int), (s1.bubbles.length : Int)⟩)) :=
  part3_eq envT good1 3 aps1 _ T1 (by decide)
example : daoPart3 envT 3 (T1.map Elt.name) (typesOf s1.elts) s1.bubbles (idsOf s1.bubbles.length) aps1 ["p", "q", "x", "y"] =
    .error (.ret (some ⟨aps1, ["p", "q", "x", "y"],
      [("p", 3, 1), ("a", 4, 0), ("x", 5, 1), ("y", 5, 2), ("b", 6, 0), ("c", 7, 0), ("q", 8, 1)], 9, 3⟩)) := by decide

/-! the hypotheses about the tags -/
theorem hsoT (comp : List V) : ∀ v, soOf tf v = (envT.tag comp v "SO").bind (fun t => envT.pyInt t.2) := by
  intro v
  show (tf.segs.find? (·.id == v)).bind (fun s => tagInt s.tags "SO") =
    ((tf.segs.find? (·.id == v)).bind (fun s => (s.tags.find? (·.name == "SO")).map (fun t => (t.ty, t.val)))).bind
      (fun t => t.2.toInt?)
  cases tf.segs.find? (·.id == v) with
  | none => rfl
  | some sg =>
    show ((sg.tags.find? (·.name == "SO")).map (·.val)).bind (fun v => v.toInt?) =
      ((sg.tags.find? (·.name == "SO")).map (fun t => (t.ty, t.val))).bind (fun t => t.2.toInt?)
    cases sg.tags.find? (·.name == "SO") <;> rfl
theorem hsnT : ∀ v ∈ comp1 ++ comp4 ++ compM ++ comp3, envT.tag [] v "SN" = (snOf tf v).map (fun x => ("Z", x)) := by decide

-- from the degree lists to the `return` (the articulation points handed over unsorted: c, a, b)
example : forgetX (daoPart2 envT (graphOf s1) (typesOf s1.elts) comp1 3 s1.bubbles (idsOf s1.bubbles.length) aps1 s1.bubbles.flatten.eraseDups) =
    exitOf (finishScaffold s1 ["c", "a", "b"] (soOf tf) (snOf tf)) 3 :=
  part2_eq envT comp1 good1 3 ["c", "a", "b"] (by decide) (soOf tf) (snOf tf) "Z" (fun v hv => hsnT v (by revert v; decide))
    (by decide) (fun v _ => hsoT comp1 v)
#guard daoPart2 envT (graphOf s1) (typesOf s1.elts) comp1 3 s1.bubbles (idsOf s1.bubbles.length) aps1 s1.bubbles.flatten.eraseDups ==
  .error (.ret (some ⟨aps1, ["p", "q", "x", "y"],
    [("p", 3, 1), ("a", 4, 0), ("x", 5, 1), ("y", 5, 2), ("b", 6, 0), ("c", 7, 0), ("q", 8, 1)], 9, 3⟩))

-- MAIN (`decomposeAndOrder_gen`) on the 7-node component chr1, starting at BO 3
example : forgetS (decomposeAndOrder envT [] comp1 "chr1" 3) =
    forgetS ((daoOf (decompose nb1 comp1 (soOf tf) (snOf tf)) 3).map (Option.map canon)) :=
  decomposeAndOrder_gen envT [] nb1 comp1 "chr1" 3 rfl (by rw [hrep1]; decide) (by rw [hrep1]; exact fresh1)
    (by
      intro s hs
      rw [hrep1, hbuild1] at hs
      injection hs with hs
      subst hs
      unfold NoAnti
      decide)
    (soOf tf) (snOf tf) "Z" (by rw [hrep1]; exact fun v hv => hsnT v (by revert v; decide)) (by rw [hrep1]; decide)
    (fun v _ => hsoT _ v)
#guard decomposeAndOrder envT [] comp1 "chr1" 3 == .ok (some ⟨["a", "b", "c"], ["p", "q", "x", "y"],
    [("p", 3, 1), ("a", 4, 0), ("x", 5, 1), ("y", 5, 2), ("b", 6, 0), ("c", 7, 0), ("q", 8, 1)], 9, 3⟩)
#guard decomposeAndOrder envT [] comp1 "chr1" 3 != decomposeAndOrder envT [] comp1 "chr1" 0 &&
  decomposeAndOrder envT [] comp1 "chr1" 3 != decomposeAndOrder envT [] comp2 "chr2" 3
#guard forgetS (decomposeAndOrder envT [] comp1 "chr1" 3) ==
  forgetS ((daoOf (decompose nb1 comp1 (soOf tf) (snOf tf)) 3).map (Option.map canon))

-- … on chr4 (j – k – l, `k` has no SO: the translation raises KeyError where the model says `crash`) and on the single node of chrM
def nb4 : V → List V := restrict (Graph.nbFun g0) comp4
theorem hrep4 : Gaftools.C06.rep nb4 comp4 = ([["k", "l"], ["j", "k"]], ["k"]) := by decide +kernel
def s4 : Scaffold := ⟨[.scaffold "k", .bubble 0, .bubble 1], [(.bubble 0, .scaffold "k"), (.bubble 1, .scaffold "k")], [["l"], ["j"]]⟩
theorem hbuild4 : buildScaffold [["k", "l"], ["j", "k"]] (sortStrings ["k"]) = .ok s4 := by decide
example : forgetS (decomposeAndOrder envT [] comp4 "chr4" 0) =
    forgetS ((daoOf (decompose nb4 comp4 (soOf tf) (snOf tf)) 0).map (Option.map canon)) :=
  decomposeAndOrder_gen envT [] nb4 comp4 "chr4" 0 rfl (by rw [hrep4]; decide) (by rw [hrep4]; exact freshNames_of_tab _ (by decide))
    (by
      intro s hs
      rw [hrep4, hbuild4] at hs
      injection hs with hs
      subst hs
      unfold NoAnti
      decide)
    (soOf tf) (snOf tf) "Z" (by rw [hrep4]; exact fun v hv => hsnT v (by revert v; decide)) (by rw [hrep4]; decide)
    (fun v _ => hsoT _ v)
#guard decomposeAndOrder envT [] comp4 "chr4" 0 == .error "KeyError"
example : forgetS (decomposeAndOrder envT [] compM "chrM" 5) =
    forgetS ((daoOf (decompose (restrict (Graph.nbFun g0) compM) compM (soOf tf) (snOf tf)) 5).map (Option.map canon)) :=
  decomposeAndOrder_gen envT [] _ compM "chrM" 5 rfl (by decide) (freshNames_of_tab _ (by decide))
    (by intro s hs; cases hs; unfold NoAnti; decide) (soOf tf) (snOf tf) "Z" (by decide) (by decide) (fun v _ => hsoT _ v)
example : decomposeAndOrder envT [] compM "chrM" 5 = .ok (some ⟨["g"], [], [("g", 5, 0)], 6, 0⟩) := by decide

-- MAIN for a graph (`decomposeAndOrder_graph`): `hu` from the theorems about `readGraph`, the others decided — but `hc`
-- (`connectedB` runs `find_component`, well-founded recursion), which is a hypothesis here and checked by `#guard`
theorem closed1 : ∀ a ∈ comp1, ∀ b ∈ Graph.nbFun g0 a, b ∈ comp1 := by decide
example (hc : Gaftools.Spec.Graph.connectedB nb1 comp1 = true) :
    forgetS (decomposeAndOrder envT [] comp1 "chr1" 3) =
      forgetS ((daoOf (decompose nb1 comp1 (soOf tf) (snOf tf)) 3).map (Option.map canon)) :=
  decomposeAndOrder_graph envT [] nb1 comp1 "chr1" 3
    (Gaftools.Proofs.OrderRun.restrict_undirected _ _ comp1 (Gaftools.C15.readGraph_undirected tf hidsTf false) closed1)
    (by decide) hc (by decide) (by decide) rfl (soOf tf) (snOf tf) "Z" (fun v hv => hsnT v (by revert v; decide))
    (by rw [hrep1]; decide) (fun v _ => hsoT _ v)
#guard Gaftools.Spec.Graph.connectedB nb1 comp1

-- the link to TieA16's `dao` slot
example : (daoOf (.ok l1) 3).map (Option.map toOrderRun) = Gaftools.TieA.OrderRun.daoOf (.ok l1) 3 := daoOf_orderRun _ _
example : (match Gaftools.TieA.OrderRun.daoOf (.ok l1) 3 with | .ok (some d) => (d.next_bo, d.node_order.length) | _ => (0, 0)) = (9, 7) := by
  decide

-- `finding_missing_SN` on its own witness, the path x – a – b – y with the bare line `S a CC` (the two memberships in the
-- traversal need `dfs`: hypotheses here, checked by `#guard`)
def tfF : GfaFile :=
  { segs := [seg "x" "A" "chr1" 0 0, ⟨"a", "CC", []⟩, seg "b" "G" "chr1" 3 0, seg "y" "T" "chr1" 4 0],
    links := [lnk "x" "a", lnk "a" "b", lnk "b" "y"] }
def envF : Env Unit :=
  { graphFromComp := fun _ _ => (), biccs := fun _ => ([], []), pyInt := String.toInt?,
    tag := fun _ v name => (tfF.segs.find? (·.id == v)).bind (fun s => (s.tags.find? (·.name == name)).map (fun t => (t.ty, t.val))) }
def sF : Scaffold := ⟨[.scaffold "a", .scaffold "b", .bubble 0, .bubble 1],
  [(.bubble 0, .scaffold "a"), (.scaffold "a", .scaffold "b"), (.bubble 1, .scaffold "b")], [["x"], ["y"]]⟩
theorem goodF : Good ["a", "b"] sF := ⟨⟨by decide, by decide⟩, by decide, by decide⟩
example
    (hv : "a" ∈ (scaffoldDfs sF ((sF.elts.filter (fun e => (sF.nbrs e).length == 1)).headD (Elt.bubble 0))).filterMap Gaftools.Proofs.Finish.idOf)
    (hw : "b" ∈ (scaffoldDfs sF ((sF.elts.filter (fun e => (sF.nbrs e).length == 1)).headD (Elt.bubble 0))).filterMap Gaftools.Proofs.Finish.idOf) :
    daoPart2 envF (graphOf sF) (typesOf sF.elts) () 0 sF.bubbles (idsOf sF.bubbles.length) ["a", "b"] ["x", "y"] = .error (.raise "KeyError") ∧
      finishScaffold sF ["a", "b"] (soOf tfF) (snOf tfF) = .skipped .mixedSN :=
  finding_missing_SN envF () goodF 0 ["a", "b"] (soOf tfF) (snOf tfF) ["x", "y"] (by decide) (by decide) "a" "b" hv hw
    (by decide) (by decide) (by decide)
#guard (scaffoldDfs sF ((sF.elts.filter (fun e => (sF.nbrs e).length == 1)).headD (Elt.bubble 0))).filterMap Gaftools.Proofs.Finish.idOf == ["a", "b"]
#guard daoPart2 envF (graphOf sF) (typesOf sF.elts) () 0 sF.bubbles (idsOf sF.bubbles.length) ["a", "b"] ["x", "y"] == .error (.raise "KeyError")
#guard finishScaffold sF ["a", "b"] (soOf tfF) (snOf tfF) == .skipped .mixedSN
end A23

/-! ## TieA28 : `run_order_gfa` around the chromosome loop -/
section A28
open Gaftools.Gfa Gaftools.Algo Gaftools.View Gaftools.Order
open Gaftools.Gen.OrderFinish Gaftools.TieA.OrderFinish
open Gaftools.Gen (OrderRun.Event)

set_option synthInstance.maxSize 2000

-- the constants
example : DEFAULT_CHROMOSOME = Order.defaultChromosomes := defaultChromosomes_gen
example : Gen.OrderFinish.csvHeader = Order.csvHeader := csvHeader_gen
example : csvHeaderLine = Gen.OrderRun.csvSep.intercalate Gen.OrderFinish.csvHeader ++ Gen.OrderRun.csvEnd := csvHeaderLine_gen
example : DEFAULT_CHROMOSOME.length = 25 ∧ DEFAULT_CHROMOSOME.getLast? = some "chrM" ∧ Gen.OrderFinish.csvHeader.length = 6 := by decide

-- the loop that validates the given names
example : ["chr1", "chr3", "chr2", "chrM"].foldlM (loop1 named5) () =
    if ["chr1", "chr3", "chr2", "chrM"].all (fun c => (named5.map (·.1)).contains c) then .ok () else .error (.exit 1) :=
  foldlM_loop1 named5 _
example : ["chr1", "chr3", "chr2", "chrM"].foldlM (loop1 named5) () = .ok () ∧
    ["chr1", "chr9", "chrM"].foldlM (loop1 named5) () = .error (.exit 1) := by decide

/-- what the events of the chromosome loop do to the files: `open(…, "w")`, a CSV line per `write`, `write_gfa(order_bo=True)` as the
    model's `writeGfa` of the node set sorted by the BO / NO tags the graph carries -/
def boNoOf (g : Graph) (set : List V) : List (V × Int × Int) :=
  set.filterMap (fun v => (g.find v).bind (fun n => (tagInt n.tags "BO").bind (fun bo => (tagInt n.tags "NO").map (fun no => (v, bo, no)))))
def effectM (log : List OrderRun.Event) (fs : Fs) : Fs :=
  log.foldl (fun fs ev => match ev with
    | .openW p => fsCreate fs p
    | .write p fields => fsWrite fs p (csvLine fields)
    | .writeGfa p g set _ _ => fsSet fs p (some (gfaLines (Gfa.writeGfa g (sortBoNo (boNoOf g set)))))
    | .close _ => fs) fs

/-- the environment of a run on `tf` (TieA28's `envOf`): output directory `out`, input file `g.g.gfa` -/
def envB (isdir : Bool) (mk : Option String) : Gen.OrderFinish.Env := envOf tf false isdir mk "out" "/" "g" "g.g" effectM
def opt4 : String := "chr1,chr3,chr2,chrM"

-- the statements before the loop: an explicit request (directory to be made), a refused one, the default request, `None`
example := before_some (envB false none) opt4 true (Or.inr rfl)
example := before_some (envB true (some "FileExistsError")) "chr1,chr9" true (Or.inl rfl)
example := before_some (envB true none) "" true (Or.inl rfl)
example := before_none (envB true none) true (Or.inl rfl)
-- (`#guard`: `String.splitOn` and `all_components` are not evaluated by `decide`)
#guard before (envB false none) (some opt4) true == .ok (g0, named5, order4, 0, [], [])
#guard before (envB true none) (some "chr1,chr9") true == .error (.exit 1)
#guard before (envB true none) (some "") true == .error (.exit 1)
#guard before (envB true none) none true == .error (.raised "TypeError")
#guard before (envB false none) (some opt4) false != before (envB false none) (some opt4) true

-- the default request on a file that has exactly the 25 default chromosomes (single nodes)
def tf25 : GfaFile := { segs := defaultChromosomes.map (fun c => seg ("n" ++ c) "ACGT" c 0 0), links := [] }
example := before_some (envOf tf25 false true none "out" "/" "g" "g.g" effectM) "" true (Or.inl rfl)
#guard (before (envOf tf25 false true none "out" "/" "g" "g.g" effectM) (some "") true).map (fun r => (r.2.2.1, r.2.1.length)) ==
  .ok (defaultChromosomes, 25)

-- the output directory cannot be made
example : before (envB false (some "PermissionError")) (some opt4) true =
    if (pyIsSubclass "PermissionError" "PermissionError" || pyIsSubclass "PermissionError" "FileNotFoundError" ||
        pyIsSubclass "PermissionError" "OSError") = true then .error (.exit 0) else .error (.raised "PermissionError") :=
  before_mkdir _ _ _ _ rfl rfl
example : before (envB false (some "PermissionError")) (some opt4) true = .error (.exit 0) ∧
    before (envB false (some "NotADirectoryError")) none false = .error (.exit 0) ∧
    before (envB false (some "ValueError")) (some opt4) true = .error (.raised "ValueError") := by
  refine ⟨?_, ?_, ?_⟩ <;> (rw [before_mkdir _ _ _ _ rfl rfl]; decide)

-- MAIN for the statements before the loop, on `tf`: `AllNamed` was shown for the literal components (`allNamed5`); that they are
-- what `all_components` finds is the `#guard` of the section `Graphs` (well-founded recursion), a hypothesis here
example (hall : allComponents (Graph.nbFun (readGraph tf false)) (Graph.ids (readGraph tf false)) = comps5) :=
  before_model tf false opt4 false none "out" "/" "g" "g.g" effectM (Or.inr rfl) (hall ▸ allNamed5)
-- … and entirely in the kernel on the file without links
example := before_model tfFlat false "chrW,chrM" true none "out" "/" "g" "g.g" effectM (Or.inl rfl)
  (Gaftools.TieA.OrderRun.allNamed_of_tags _ _ (by decide) (by decide))

/-! the statements after the loop -/
def F1 : GfaFile := { segs := [seg "a" "AC" "chr1" 0 0, seg "b" "GG" "chr1" 2 0], links := [lnk "a" "b", ⟨"b", false, "a", true, 3, ["xx:i:1"]⟩] }
def F2 : GfaFile := { segs := [seg "g" "ACGT" "chrM" 0 0], links := [] }
def C1 : List (List String) := [Order.csvHeader, ["a", "orange", "chr1", "0", "0", "0"], ["b", "orange", "chr1", "2", "1", "0"]]
def C2 : List (List String) := [Order.csvHeader, ["g", "orange", "chrM", "0", "2", "0"]]
/-- a file system holding the two per-chromosome GFA files, the two CSVs, and a bystander -/
def fsT : Fs :=
  fsSet (fsSet (fsSet (fsSet (fsSet (fun _ => none) "out/keep.txt" (some ["k\n".toList]))
    "out/g-chr1.gfa" (some (gfaLines F1))) "out/g-chrM.gfa" (some (gfaLines F2)))
    "out/g.g-chr1.csv" (some (csvLines C1))) "out/g.g-chrM.csv" (some (csvLines C2))
def outG : List String := ["out/g-chr1.gfa", "out/g-chrM.gfa"]
def outC : List String := ["out/g.g-chr1.csv", "out/g.g-chrM.csv"]

example : after (envB true none) false outG outC fsT = .ok (csvStep (envB true none) outC (gfaStep (envB true none) outG fsT)) :=
  after_eq (envB true none) outG outC fsT (by decide) (by decide) (by decide) (by decide) (by decide) (by decide)
example : after (envB true none) false outG outC fsT =
    .ok (completeFs (envB true none) outG outC fsT (completeGfa [F1, F2]) (completeCsv [C1, C2])) :=
  after_gen (envB true none) outG outC fsT [F1, F2] [C1, C2] (by decide) (by decide) (by decide) (by decide) (by decide) (by decide)
    (by decide)
example : after (envB true none) true outG outC fsT = .ok fsT := after_by_chrom _ _ _ _
example : (match after (envB true none) false outG outC fsT with
    | .ok fs' => [fs' "out/g-complete.gfa", fs' "out/g-complete.csv", fs' "out/g-chr1.gfa", fs' "out/g.g-chrM.csv",
                  fs' "out/g-complete.gfa.tmp", fs' "out/keep.txt"]
    | .error _ => []) =
    [some (["S\ta\tAC\tSN:Z:chr1\tSO:i:0\tSR:i:0\n", "S\tb\tGG\tSN:Z:chr1\tSO:i:2\tSR:i:0\n", "S\tg\tACGT\tSN:Z:chrM\tSO:i:0\tSR:i:0\n",
             "L\ta\t+\tb\t+\t0M\n", "L\tb\t-\ta\t+\t3M\txx:i:1\n"].map String.toList),
     some (["Name,Color,SN,SO,BO,NO\n", "a,orange,chr1,0,0,0\n", "b,orange,chr1,2,1,0\n", "Name,Color,SN,SO,BO,NO\n",
            "g,orange,chrM,0,2,0\n"].map String.toList),
     none, none, none, some ["k\n".toList]] := by decide

-- findings of TieA28 on concrete files: a path listed twice; a chromosome called `complete`
example : after (envB true none) false ["out/g-chr1.gfa", "out/g-chr1.gfa"] outC fsT = .error (.raised "FileNotFoundError") :=
  finding_requested_twice (envB true none) "out/g-chr1.gfa" outC fsT (by decide) (by decide)
def fsK : Fs := fsSet (fsSet (fun _ => none) "out/g-complete.gfa" (some (gfaLines F1))) "out/g-complete.csv" (some (csvLines C1))
example : ∃ fs', after (envB true none) false [finalGfa (envB true none)] [finalCsv (envB true none)] fsK = .ok fs' ∧
    fs' (finalGfa (envB true none)) = some (gfaLines (completeGfa [F1])) ∧ fs' (finalCsv (envB true none)) = some (csvLines (completeCsv [C1])) ∧
    gfaLines (completeGfa [F1]) = gfaLines F1 ∧ csvLines (completeCsv [C1]) = csvLines C1 ∧
    fs' (tmp (finalGfa (envB true none))) = none ∧ fs' (tmp (finalCsv (envB true none))) = none :=
  chromosome_named_complete_works (envB true none) fsK F1 C1 (by decide) (by decide)

/-! the whole function on `tf`: `hids`, `htab`, `hdir` are proved; `hnamed` follows from `allNamed5` once `all_components` is
    evaluated; `hcmd`, `hnd`, `hread` speak about the value of `orderCommand` (which runs `String.splitOn`, `all_components`, `dfs`):
    hypotheses here, each checked by a `#guard` below -/
def fs0 : Fs := fsSet (fun _ => none) "out/keep.txt" (some ["k\n".toList])
def outs3 : List (String × GfaFile × List (List String)) :=
  match orderCommand tf opt4 false with
  | some (.ok o) => o
  | _ => []

example (hall : allComponents (Graph.nbFun (readGraph tf false)) (Graph.ids (readGraph tf false)) = comps5) (by_chrom : Bool) :=
  run_gen tf hidsTf htabTf false opt4 by_chrom false none "out" "/" "g" "g.g" effectM fs0 (Or.inr rfl) (hall ▸ allNamed5)
example (hall : allComponents (Graph.nbFun (readGraph tf false)) (Graph.ids (readGraph tf false)) = comps5) :=
  run_by_chrom tf hidsTf htabTf false opt4 false none "out" "/" "g" "g.g" effectM fs0 (Or.inr rfl) (hall ▸ allNamed5)
example (hall : allComponents (Graph.nbFun (readGraph tf false)) (Graph.ids (readGraph tf false)) = comps5)
    (hcmd : orderCommand tf opt4 false = some (.ok outs3)) (hnd : (outs3.map (·.1)).Nodup)
    (hread : ∀ o ∈ outs3,
      effectM (commandLog tf false "out" "/" "g" "g.g" opt4) fs0 (gfaPath (envB false none) o.1) = some (gfaLines o.2.1) ∧
      effectM (commandLog tf false "out" "/" "g" "g.g" opt4) fs0 (csvPath (envB false none) o.1) = some (csvLines o.2.2)) :
    run (envB false none) false (some opt4) (!false) fs0 =
      .ok (completeFs (envB false none) (outs3.map (fun o => gfaPath (envB false none) o.1)) (outs3.map (fun o => csvPath (envB false none) o.1))
        (effectM (commandLog tf false "out" "/" "g" "g.g" opt4) fs0) (completeGfa (outs3.map (·.2.1))) (completeCsv (outs3.map (·.2.2)))) :=
  run_complete tf hidsTf htabTf false opt4 false none "out" "/" "g" "g.g" effectM fs0 (Or.inr rfl) (hall ▸ allNamed5) outs3 hcmd hnd hread

#guard orderCommand tf opt4 false == some (.ok outs3)
#guard outs3.map (·.1) == ["chr1", "chr2", "chrM"] && (outs3.map (fun o => (o.2.1.segs.length, o.2.1.links.length, o.2.2.length))) ==
  [(7, 7, 8), (3, 2, 4), (1, 0, 2)]
#guard outs3.all (fun o =>
  effectM (commandLog tf false "out" "/" "g" "g.g" opt4) fs0 (gfaPath (envB false none) o.1) == some (gfaLines o.2.1) &&
  effectM (commandLog tf false "out" "/" "g" "g.g" opt4) fs0 (csvPath (envB false none) o.1) == some (csvLines o.2.2))
-- both sides of `run_complete` on the paths that matter, and the content of the `-complete` GFA: 11 S lines in chain order, 9 L lines
def watch : List String :=
  ["out/g-complete.gfa", "out/g-complete.csv", "out/g-chr1.gfa", "out/g-chr2.gfa", "out/g-chrM.gfa", "out/g.g-chr1.csv", "out/g-chr3.gfa",
   "out/g-complete.gfa.tmp", "out/keep.txt"]
#guard (run (envB false none) false (some opt4) true fs0).map (fun fs' => watch.map fs') ==
  .ok (watch.map (completeFs (envB false none) (outs3.map (fun o => gfaPath (envB false none) o.1))
    (outs3.map (fun o => csvPath (envB false none) o.1)) (effectM (commandLog tf false "out" "/" "g" "g.g" opt4) fs0)
    (completeGfa (outs3.map (·.2.1))) (completeCsv (outs3.map (·.2.2)))))
#guard (run (envB false none) false (some opt4) true fs0).map (fun fs' => (watch.map fs').map (fun o => o.map List.length)) ==
  .ok [some 20, some 14, none, none, none, none, none, none, some 1]
#guard (run (envB false none) false (some opt4) true fs0).map (fun fs' => ((fs' "out/g-complete.gfa").getD []).map (fun l => String.ofList (l.take 3))) ==
  .ok ["S\tp", "S\ta", "S\tx", "S\ty", "S\tb", "S\tc", "S\tq", "S\tf", "S\te", "S\td", "S\tg",
       "L\tp", "L\ta", "L\ta", "L\tx", "L\ty", "L\tb", "L\tc", "L\te", "L\td"]
-- with `--by-chrom` the three pairs of files stay; a refused request exits with status 1; a crash is raised
#guard (run (envB false none) true (some opt4) true fs0).map (fun fs' => (watch.map fs').map (fun o => o.map List.length)) ==
  .ok [none, none, some 14, some 5, some 1, some 8, none, none, some 1]
#guard (run (envB false none) false (some "chr1,chrZ") true fs0).map (fun fs' => watch.map fs') == .error (.exit 1)
#guard (run (envB false none) false (some "chr1,chr4") true fs0).map (fun fs' => watch.map fs') == .error (.raised "SO missing")
end A28

/-! ## TieA21 : `write_gfa`, `to_gfa_line`, `sort_bo_no` -/
section A21
open Gaftools.Gfa Gaftools.GfaText Gaftools.Order Gaftools.TieA21
open Gaftools.Gen.WriteGfa (Str PyV pyJoin)
set_option maxRecDepth 100000

/-- four segments (one without a sequence), four links in all four orientation patterns, one with a tag -/
def tfW : GfaFile :=
  { segs := [seg "a" "AC" "chr1" 0 0, seg "b" "GG" "chr1" 2 0, seg "c" "TTA" "h1" 4 1, seg "d" "" "chr1" 7 0],
    links := [⟨"a", true, "b", true, 0, []⟩, ⟨"b", false, "c", true, 5, ["xx:i:1"]⟩, ⟨"c", false, "a", false, 2, []⟩,
              ⟨"c", true, "d", false, 0, ["yy:Z:k", "zz:i:2"]⟩] }
/-- the BO / NO numbering of a chain a – {b, c} – d -/
def tagsW : List (String × Int × Int) := [("a", 0, 0), ("b", 1, 1), ("c", 1, 2), ("d", 2, 0)]
def wW : Written := ⟨"chr1", tagsW, ["a", "d"], ["b", "c"]⟩
/-- the graph with the BO / NO tags set, as `order_gfa` hands it to `write_gfa` -/
def gW : Graph := tagNodes (readGraph tfW false) tagsW
def tagvW : String → String → Option Int := tagvOf tagsW
def nodeB : Node := (gW.find "b").getD default
def nodeD : Node := (gW.find "d").getD default

example : pyJoin ['\t'] ([['S'], ['a'], ['A', 'C'], "SN:Z:chr1".toList].map PyV.str) = some (joinTab [['S'], ['a'], ['A', 'C'], "SN:Z:chr1".toList]) :=
  pyJoin_strs _
example : pyJoin ['\t'] ([['S'], ['a'], ['A', 'C'], "SN:Z:chr1".toList].map PyV.str) = some "S\ta\tAC\tSN:Z:chr1".toList ∧
    pyJoin ['\t'] [PyV.str ['L'], PyV.int 0] = none := by decide

-- `to_gfa_line`: a node with five tags; a node without sequence; `with_seq=False`
example : Gen.WriteGfa.toGfaLine nodeB true = some (segText (if true then segLineOf nodeB else ⟨nodeB.id, "*", nodeB.tags⟩)) :=
  toGfaLine_gen nodeB true
example : Gen.WriteGfa.toGfaLine nodeB false = some (segText (if false then segLineOf nodeB else ⟨nodeB.id, "*", nodeB.tags⟩)) :=
  toGfaLine_gen nodeB false
example : Gen.WriteGfa.toGfaLine nodeB true = some "S\tb\tGG\tSN:Z:chr1\tSO:i:2\tSR:i:0\tBO:i:1\tNO:i:1".toList ∧
    Gen.WriteGfa.toGfaLine nodeB false = some "S\tb\t*\tSN:Z:chr1\tSO:i:2\tSR:i:0\tBO:i:1\tNO:i:1".toList ∧
    Gen.WriteGfa.toGfaLine nodeD true = some "S\td\t*\tSN:Z:chr1\tSO:i:7\tSR:i:0\tBO:i:2\tNO:i:0".toList := by decide

-- the loop that writes the S lines (one id is not in the graph), after a file that already holds a line
-- (the comparisons of whole file texts below are `#guard`s only to keep the build short: `decide` proves them too, in ~40 s)
example : ["c", "a", "nope", "b"].foldlM (Gen.WriteGfa.writeGfaFor1 gW tagvW) "#h\n".toList =
    some ("#h\n".toList ++ ((Gfa.writeGfa gW ["c", "a", "nope", "b"]).segs.map segText).flatMap (fun l => l ++ ['\n'])) :=
  sLoop_gen gW tagvW _ _
#guard (["c", "a", "nope", "b"].foldlM (Gen.WriteGfa.writeGfaFor1 gW tagvW) "#h\n".toList).map String.ofList ==
    some "#h\nS\tc\tTTA\tSN:Z:h1\tSO:i:4\tSR:i:1\tBO:i:1\tNO:i:2\nS\ta\tAC\tSN:Z:chr1\tSO:i:0\tSR:i:0\tBO:i:0\tNO:i:0\nS\tb\tGG\tSN:Z:chr1\tSO:i:2\tSR:i:0\tBO:i:1\tNO:i:1\n"

-- the links stored at the start of `b` / `c` and at the end of `a` / `c`, one adjacency entry each
example : Gen.WriteGfa.writeGfaFor3 gW tagvW ["a", "b", "c"] "b" [['x']] ("c", false, 5) =
    some ([['x']] ++ ((linkOf gW (fun id => ["a", "b", "c"].contains id) "b" false ("c", false, 5)).map linkText).toList) :=
  startStep_gen gW tagvW _ _ _ _
example : Gen.WriteGfa.writeGfaFor4 gW tagvW ["a", "b", "c", "d"] "c" [] ("d", true, 0) =
    some ([] ++ ((linkOf gW (fun id => ["a", "b", "c", "d"].contains id) "c" true ("d", true, 0)).map linkText).toList) :=
  endStep_gen gW tagvW _ _ _ _
example : Gen.WriteGfa.writeGfaFor3 gW tagvW ["a", "b", "c"] "b" [['x']] ("c", false, 5) = some [['x'], "L\tb\t-\tc\t+\t5M\txx:i:1".toList] ∧
    Gen.WriteGfa.writeGfaFor3 gW tagvW ["a", "b", "c"] "c" [] ("a", true, 2) = some ["L\tc\t-\ta\t-\t2M".toList] ∧
    Gen.WriteGfa.writeGfaFor3 gW tagvW ["a", "b", "c"] "b" [] ("a", true, 0) = some [] ∧   -- declared from `a`: not written here
    Gen.WriteGfa.writeGfaFor3 gW tagvW ["a", "b"] "b" [] ("c", false, 5) = some [] ∧       -- `c` is not in the node set
    Gen.WriteGfa.writeGfaFor4 gW tagvW ["a", "b", "c", "d"] "c" [] ("d", true, 0) = some ["L\tc\t+\td\t-\t0M\tyy:Z:k\tzz:i:2".toList] ∧
    Gen.WriteGfa.writeGfaFor4 gW tagvW ["a", "b", "c", "d"] "a" [] ("b", false, 0) = some ["L\ta\t+\tb\t+\t0M".toList] := by decide

-- the body of the second loop for node `c` (two links), and the whole second loop
example : Gen.WriteGfa.writeGfaFor2 gW tagvW ["a", "b", "c", "d"] ['#'] "c" = some (['#'] ++ lChunk gW ["a", "b", "c", "d"] "c") :=
  lStep_gen gW tagvW _ _ _
example : (Gen.WriteGfa.writeGfaFor2 gW tagvW ["a", "b", "c", "d"] ['#'] "c").map String.ofList =
    some "#L\tc\t-\ta\t-\t2M\nL\tc\t+\td\t-\t0M\tyy:Z:k\tzz:i:2\n" := by decide
example : ["d", "c", "nope", "a"].foldlM (Gen.WriteGfa.writeGfaFor2 gW tagvW ["a", "c", "d"]) [] =
    some ([] ++ (((["d", "c", "nope", "a"].filterMap gW.find).flatMap (linkLinesOf gW (fun id => ["a", "c", "d"].contains id))).map linkText).flatMap
      (fun l => l ++ ['\n'])) := lLoop_gen gW tagvW _ _ _
example : (["d", "c", "nope", "a"].foldlM (Gen.WriteGfa.writeGfaFor2 gW tagvW ["a", "c", "d"]) []).map String.ofList =
    some "L\tc\t-\ta\t-\t2M\nL\tc\t+\td\t-\t0M\tyy:Z:k\tzz:i:2\n" := by decide

-- MAIN: `write_gfa` with a node set (one id unknown), appending to a file; without a node set; as a `String`
example : Gen.WriteGfa.writeGfa gW tagvW (some ["c", "nope", "a", "b"]) (some "#h\n".toList) true false =
    some (opened (some "#h\n".toList) true ++ renderChars (Gfa.writeGfa gW ["c", "nope", "a", "b"])) := writeGfa_gen gW tagvW _ _ _
example : Gen.WriteGfa.writeGfa gW tagvW none (some "#h\n".toList) false false =
    some (opened (some "#h\n".toList) false ++ renderChars (Gfa.writeGfa gW (gW.nodes.map (·.id)))) := writeGfa_gen_all gW tagvW _ _
example : (Gen.WriteGfa.writeGfa gW tagvW (some ["c", "nope", "a", "b"]) none false false).map String.ofList =
    some (renderGfaText (Gfa.writeGfa gW ["c", "nope", "a", "b"])) := writeGfa_gen_text gW tagvW _
#guard (Gen.WriteGfa.writeGfa gW tagvW (some ["c", "nope", "a", "b"]) (some "#h\n".toList) true false).map String.ofList ==
    some "#h\nS\tc\tTTA\tSN:Z:h1\tSO:i:4\tSR:i:1\tBO:i:1\tNO:i:2\nS\ta\tAC\tSN:Z:chr1\tSO:i:0\tSR:i:0\tBO:i:0\tNO:i:0\nS\tb\tGG\tSN:Z:chr1\tSO:i:2\tSR:i:0\tBO:i:1\tNO:i:1\nL\tc\t-\ta\t-\t2M\nL\ta\t+\tb\t+\t0M\nL\tb\t-\tc\t+\t5M\txx:i:1\n"
#guard ((Gen.WriteGfa.writeGfa gW tagvW none (some "#h\n".toList) false false).map (fun s => (s.filter (· == '\n')).length)) == some 8 &&
    Gen.WriteGfa.writeGfa gW tagvW none none false false != Gen.WriteGfa.writeGfa gW tagvW (some ["a", "b"]) none false false

-- `sort_bo_no` on the four nodes handed over in set order d, b, a, c
example : ∃ R, Gen.WriteGfa.sortBoNo gW tagvW ["d", "b", "a", "c"] = some R ∧ R.Perm ["d", "b", "a", "c"] ∧
    R.Pairwise (lexLE (boOf tagsW) (noOf tagsW)) :=
  sortBoNo_spec gW tagvW (boOf tagsW) (noOf tagsW) _ (by decide) (by decide)
example : Gen.WriteGfa.sortBoNo gW (tagvOf tagsW) ["d", "b", "a", "c"] = some (Order.sortBoNo tagsW) :=
  sortBoNo_gen gW tagsW (by decide) (by decide) _ (by decide)
example : Gen.WriteGfa.sortBoNo gW tagvW ["d", "b", "a", "c"] = some ["a", "b", "c", "d"] ∧
    Gen.WriteGfa.sortBoNo gW tagvW ["d", "b", "zz"] = none := by decide

-- `order_bo=True`; the per-chromosome file of `order_gfa`
example : Gen.WriteGfa.writeGfa gW tagvW (some ["d", "b", "a", "c"]) none false true =
    some (opened none false ++ renderChars (Gfa.writeGfa gW ["a", "b", "c", "d"])) :=
  writeGfa_gen_bo gW tagvW _ _ _ _ (by decide) (by decide)
example : Gen.WriteGfa.writeGfa (tagNodes (readGraph tfW false) wW.tags) (tagvOf wW.tags) (some ["d", "b", "a", "c"]) none false true =
    some (opened none false ++ renderChars (orderFile (readGraph tfW false) wW)) :=
  orderFile_gen (readGraph tfW false) wW (by decide) (by decide) _ (by decide) none false
#guard (Gen.WriteGfa.writeGfa gW tagvW (some ["d", "b", "a", "c"]) none false true).map String.ofList ==
    some "S\ta\tAC\tSN:Z:chr1\tSO:i:0\tSR:i:0\tBO:i:0\tNO:i:0\nS\tb\tGG\tSN:Z:chr1\tSO:i:2\tSR:i:0\tBO:i:1\tNO:i:1\nS\tc\tTTA\tSN:Z:h1\tSO:i:4\tSR:i:1\tBO:i:1\tNO:i:2\nS\td\t*\tSN:Z:chr1\tSO:i:7\tSR:i:0\tBO:i:2\tNO:i:0\nL\ta\t+\tb\t+\t0M\nL\tb\t-\tc\t+\t5M\txx:i:1\nL\tc\t-\ta\t-\t2M\nL\tc\t+\td\t-\t0M\tyy:Z:k\tzz:i:2\n" &&
    Gen.WriteGfa.writeGfa gW tagvW (some ["d", "b", "a", "c"]) none false true !=
      Gen.WriteGfa.writeGfa gW tagvW (some ["d", "b", "a", "c"]) none false false

-- NOTE (reported): the translated `sort_bo_no` never looks at its graph argument — BO / NO come from the separate oracle `tagv`;
-- `orderFile_gen` supplies `tagvOf w.tags` next to `tagNodes g w.tags`, and nothing ties the oracle to the tags the graph carries:
example (g g' : Graph) (tagv : String → String → Option Int) (l : List String) :
    Gen.WriteGfa.sortBoNo g tagv l = Gen.WriteGfa.sortBoNo g' tagv l := rfl
-- with an oracle that contradicts the graph's tags the file is written in the oracle's order, carrying the graph's tags
#guard ((Gen.WriteGfa.writeGfa gW (tagvOf [("a", 2, 0), ("b", 1, 2), ("c", 1, 1), ("d", 0, 0)]) (some ["d", "b", "a", "c"]) none false true).map
    (fun s => ((String.ofList s).splitOn "\n").take 4 |>.map (fun l => (l.splitOn "\t").getD 1 "" ++ ":" ++ (l.splitOn "\t").getD 6 ""))) ==
  some ["d:BO:i:2", "c:BO:i:1", "b:BO:i:1", "a:BO:i:0"]
end A21

end Gaftools.NonVacuousC
