import Gaftools.Props.C06e
import Gaftools.Props.C15Bicc2
import Gaftools.Proofs.ChainLemmas5
/-!
# C06 (final stretch) — `ChainCorrect`

With `BiccExact` proved (C15) the remaining steps are: the block–cut graph of a connected component is connected (RUNG A),
hence the hypotheses of `decompose_ok_chain` hold for every connected undirected component with tab-free ids (RUNG B), and
the numbering it describes satisfies the executable chain specification `chainSpecB`, which is phrased over the
definition-level decomposition (`Spec.Graph.blocks`, `cutVertices`) rather than over what `biccs` reported (RUNG C).
-/
namespace Gaftools.C06
open Gaftools.Gfa Gaftools.Algo Gaftools.Order Gaftools.Spec.Order Gaftools.Spec.Graph
open Gaftools.Proofs.Chain

/-- what `biccs` reports for the component, as `decompose` calls it -/
abbrev rep (nb : V → List V) (comp : List V) : List (List V) × List V :=
  biccsFrom nb ((sortStrings comp).headD "") (biccFuel nb comp)

/-- what `biccs` reports for a connected component, the articulation points sorted as `decompose` passes them on, is a
    block–cut structure -/
theorem rep_blockCut (nb : V → List V) (comp : List V) (hu : Undirected nb comp) (hd : comp.Nodup)
    (hc : connectedB nb comp = true) (hne : comp ≠ []) :
    BlockCut nb comp (rep nb comp).1 (sortStrings (rep nb comp).2) := by
  have h := blockCut_biccs nb comp hu hd hc _ (root_mem comp hne)
  exact h.congr_ap ((sortStrings_perm _).nodup_iff.mpr h.apNodup) (fun a => (sortStrings_perm _).mem_iff)

/-- an empty component is never accepted -/
theorem decompose_nil (nb : V → List V) (so : V → Option Int) (sn : V → Option String) (l : Local)
    (hnb : nb "" = []) : decompose nb [] so sn ≠ .ok l := by
  intro h
  obtain ⟨s, hb, hf⟩ := decompose_ok_stages nb [] so sn l (by simp) h
  have hrep : biccsFrom nb ((sortStrings []).headD "") (biccFuel nb []) = ([], []) := by
    simp [sortStrings, biccsFrom, biccFuel, bgo, bstep, hnb]
  rw [hrep] at hb
  have hs : s = ⟨[], [], []⟩ := by
    have : buildScaffold [] (sortStrings []) = .ok ⟨[], [], []⟩ := rfl
    rw [this] at hb
    injection hb with hb
    exact hb.symm
  have hcen := (finish_ok_census s _ so sn l hf).1
  rw [hs] at hcen
  simp at hcen

/-- RUNG A — the scaffold graph built from the reported blocks and articulation points of a connected component is connected -/
theorem scaffold_connected (nb : V → List V) (comp : List V) (hu : Undirected nb comp) (hd : comp.Nodup)
    (hc : connectedB nb comp = true) (hne : comp ≠ [])
    (s : Scaffold) (hb : buildScaffold (rep nb comp).1 (sortStrings (rep nb comp).2) = .ok s) : SConnected s :=
  sconnected_of_blockCut nb comp _ _ hu (rep_blockCut nb comp hu hd hc hne)
    (fun a ha b hb' => Gaftools.Proofs.Bicc.connected_reach nb comp hu hc a b ha hb') s hb

/-- RUNG B — `decompose_ok_chain` without hypotheses about `biccs` -/
theorem decompose_ok_chain_full (nb : V → List V) (comp : List V) (so : V → Option Int) (sn : V → Option String) (l : Local)
    (hu : Undirected nb comp) (hd : comp.Nodup) (hc : connectedB nb comp = true) (htab : ∀ v ∈ comp, '\t' ∉ v.toList)
    (hlen : comp.length ≠ 1) (h : decompose nb comp so sn = .ok l) :
    ∃ s tr cs,
      buildScaffold (rep nb comp).1 (sortStrings (rep nb comp).2) = .ok s ∧
      PathScaffold s tr ∧
      l = ⟨(rep nb comp).2, s.bubbles.flatten, numberChain s tr, tr.length, s.bubbles.length⟩ ∧
      (scaffoldIds tr).mapM so = some cs ∧ strictlyIncreasing cs ∧
      (((scaffoldIds tr).map sn).eraseDups).length = 1 := by
  have hne : comp ≠ [] := by
    rintro rfl
    exact decompose_nil nb so sn l (hu.outside "" (by simp)) h
  have hbc := blockCut_biccs nb comp hu hd hc _ (root_mem comp hne)
  exact decompose_ok_chain nb comp so sn l hlen h hbc.apNodup hbc.blNodup
    (fun a ha => htab a (hbc.apSub a ha)) (fun s hb => scaffold_connected nb comp hu hd hc hne s hb)

/-- RUNG C — the full statement -/
theorem chainCorrect : ChainCorrect := by
  intro nb comp so sn l hu hd hc htab h h2
  by_cases hlen : comp.length = 1
  · -- a single node: one articulation point is reported, so the hypothesis `2 ≤ l.aps.length` fails
    exfalso
    match comp, hlen with
    | [v], _ =>
      have : l = ⟨[v], [], [(v, 0, 0)], 1, 0⟩ := by
        simp only [decompose] at h
        injection h with h
        exact h.symm
      rw [this] at h2
      simp at h2
  · obtain ⟨s, tr, cs, hb, hp, hl, hso, hinc, _⟩ := decompose_ok_chain_full nb comp so sn l hu hd hc htab hlen h
    have hne : comp ≠ [] := by
      rintro rfl
      exact decompose_nil nb so sn l (hu.outside "" (by simp)) h
    have hbc := rep_blockCut nb comp hu hd hc hne
    have hB : Built nb comp (rep nb comp).1 (sortStrings (rep nb comp).2) s tr := ⟨hbc, hb, hp⟩
    have hreach : ∀ a ∈ comp, ∀ b ∈ comp, Reach nb a b :=
      fun a ha b hb' => Gaftools.Proofs.Bicc.connected_reach nb comp hu hc a b ha hb'
    have hex := C15.biccExact nb comp hu hd hc _ (root_mem comp hne)
    have hsame : sameSets (rep nb comp).1 (blocks nb comp) = true := by
      unfold biccExactB at hex
      simp only [Bool.and_eq_true] at hex
      exact hex.1
    have hcv : ∀ a, a ∈ cutVertices nb comp ↔ a ∈ sortStrings (rep nb comp).2 := by
      intro a
      rw [(sortStrings_perm _).mem_iff, C15.biccs_aps_exact nb comp hu hd _ (root_mem comp hne) hc a]
      unfold cutVertices
      rw [List.mem_filter]
    have g := bridge_of_sameSets hbc hsame (by unfold cutVertices; exact hd.filter _) hcv
    have hall := hbc.all_in hreach hd hlen
    have := chainSpec_of_built hB g hall so cs hso hinc
    rw [hl]
    exact this

end Gaftools.C06
