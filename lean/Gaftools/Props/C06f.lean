import Gaftools.Props.C06e
import Gaftools.Props.C15Bicc2
/-!
# C06 (final stretch) — `ChainCorrect`

With `BiccExact` proved (C15) the remaining steps are: the block–cut graph of a connected component is connected (RUNG A),
hence the hypotheses of `decompose_ok_chain` hold for every connected undirected component with tab-free ids (RUNG B), and
the numbering it describes satisfies the executable chain specification `chainSpecB`, which is phrased over the
definition-level decomposition (`Spec.Graph.blocks`, `cutVertices`) rather than over what `biccs` reported (RUNG C).
-/
namespace Gaftools.C06
open Gaftools.Gfa Gaftools.Algo Gaftools.Order Gaftools.Spec.Order Gaftools.Spec.Graph

/-- what `biccs` reports for the component, as `decompose` calls it -/
abbrev rep (nb : V → List V) (comp : List V) : List (List V) × List V :=
  biccsFrom nb ((sortStrings comp).headD "") (biccFuel nb comp)

/-- RUNG A — the scaffold graph built from the reported blocks and articulation points of a connected component is connected -/
theorem scaffold_connected (nb : V → List V) (comp : List V) (hu : Undirected nb comp) (hd : comp.Nodup)
    (hc : connectedB nb comp = true) (hne : comp ≠ [])
    (s : Scaffold) (hb : buildScaffold (rep nb comp).1 (sortStrings (rep nb comp).2) = .ok s) : SConnected s := by
  sorry

/-- RUNG B — `decompose_ok_chain` without hypotheses about `biccs` -/
theorem decompose_ok_chain_full (nb : V → List V) (comp : List V) (so : V → Option Int) (sn : V → Option String) (l : Local)
    (hu : Undirected nb comp) (hd : comp.Nodup) (hc : connectedB nb comp = true) (htab : ∀ v ∈ comp, '\t' ∉ v.toList)
    (hlen : comp.length ≠ 1) (h : decompose nb comp so sn = .ok l) :
    ∃ s tr cs,
      buildScaffold (rep nb comp).1 (sortStrings (rep nb comp).2) = .ok s ∧
      PathScaffold s tr ∧
      l = ⟨(rep nb comp).2, s.bubbles.flatten, numberChain s tr, tr.length, s.bubbles.length⟩ ∧
      (scaffoldIds tr).mapM so = some cs ∧ strictlyIncreasing cs ∧
      (((scaffoldIds tr).map sn).eraseDups).length = 1 := by
  sorry

/-- RUNG C — the full statement -/
theorem chainCorrect : ChainCorrect := by
  sorry

end Gaftools.C06
