import Gaftools.Props.C06c
import Gaftools.Proofs.CensusLemmas
/-!
# C06 (continued) — the degree census recognises paths

`decompose_and_order` never checks that its traversal visits every chain element: it counts the elements of degree one and
two and then trusts the depth-first search.  `census_path` justifies that: in a connected scaffold graph the census holds only
for a path.  With `finish_ok_inv` this gives `finish_ok_general`: whatever is accepted on a connected, well-formed scaffold
graph is a chain numbered end to end in the direction of increasing reference offsets.
`buildScaffold_wf` shows the well-formedness (all but connectedness) of what `buildScaffold` builds.
What remains open for `ChainCorrect` after this file: `BiccExact` (C15) and connectedness of the block–cut graph.
-/
namespace Gaftools.C06
open Gaftools.Gfa Gaftools.Algo Gaftools.Order Gaftools.Spec.Order

/-- reachability between chain elements in the scaffold graph -/
inductive SReach (s : Scaffold) : Elt → Elt → Prop
  | refl (a) : SReach s a a
  | step {a b c} : SReach s a b → c ∈ s.nbrs b → SReach s a c

structure WFScaffold (s : Scaffold) : Prop where
  names : (s.elts.map Elt.name).Nodup
  closed : ∀ p ∈ s.edges, p.1 ∈ s.elts ∧ p.2 ∈ s.elts
  noLoop : ∀ p ∈ s.edges, p.1 ≠ p.2

def SConnected (s : Scaffold) : Prop := ∀ a ∈ s.elts, ∀ b ∈ s.elts, SReach s a b

/-- exactly two elements of degree one, all others of degree two (the two tests of `decompose_and_order`) -/
def census (s : Scaffold) : Prop :=
  (s.elts.filter (fun e => (s.nbrs e).length == 1)).length = 2 ∧
  (s.elts.filter (fun e => (s.nbrs e).length == 2)).length = s.elts.length - 2

/-! ### helper lemmas (proofs only) -/

theorem mem_nbrs (s : Scaffold) (a b : Elt) :
    b ∈ s.nbrs a ↔ ∃ p ∈ s.edges, (p.1 = a ∧ p.2 = b) ∨ (p.1 ≠ a ∧ p.2 = a ∧ p.1 = b) := by
  unfold Scaffold.nbrs
  rw [List.mem_eraseDups, List.mem_filterMap]
  constructor
  · rintro ⟨p, hp, h⟩
    refine ⟨p, hp, ?_⟩
    by_cases h1 : p.1 = a
    · rw [if_pos (by simpa using h1)] at h
      left; exact ⟨h1, by simpa using h⟩
    · rw [if_neg (by simpa using h1)] at h
      by_cases h2 : p.2 = a
      · rw [if_pos (by simpa using h2)] at h
        right; exact ⟨h1, h2, by simpa using h⟩
      · rw [if_neg (by simpa using h2)] at h
        cases h
  · rintro ⟨p, hp, ⟨h1, h2⟩ | ⟨h1, h2, h3⟩⟩
    · refine ⟨p, hp, ?_⟩
      rw [if_pos (by simpa using h1), h2]
    · refine ⟨p, hp, ?_⟩
      rw [if_neg (by simpa using h1), if_pos (by simpa using h2), h3]

/-- membership in `nbrs` when no edge is a self-loop -/
theorem mem_nbrs' (s : Scaffold) (hl : ∀ p ∈ s.edges, p.1 ≠ p.2) (a b : Elt) :
    b ∈ s.nbrs a ↔ ∃ p ∈ s.edges, (p.1 = a ∧ p.2 = b) ∨ (p.2 = a ∧ p.1 = b) := by
  rw [mem_nbrs]
  constructor
  · rintro ⟨p, hp, h | ⟨_, h2, h3⟩⟩
    · exact ⟨p, hp, Or.inl h⟩
    · exact ⟨p, hp, Or.inr ⟨h2, h3⟩⟩
  · rintro ⟨p, hp, h | ⟨h2, h3⟩⟩
    · exact ⟨p, hp, Or.inl h⟩
    · refine ⟨p, hp, Or.inr ⟨?_, h2, h3⟩⟩
      intro e
      exact hl p hp (e.trans h2.symm)

theorem nbrs_symm (s : Scaffold) (hl : ∀ p ∈ s.edges, p.1 ≠ p.2) (a b : Elt) (h : b ∈ s.nbrs a) : a ∈ s.nbrs b := by
  rw [mem_nbrs' s hl] at h ⊢
  obtain ⟨p, hp, h | h⟩ := h
  · exact ⟨p, hp, Or.inr ⟨h.2, h.1⟩⟩
  · exact ⟨p, hp, Or.inl ⟨h.2, h.1⟩⟩

theorem nbrs_irrefl (s : Scaffold) (hl : ∀ p ∈ s.edges, p.1 ≠ p.2) (a : Elt) : a ∉ s.nbrs a := by
  rw [mem_nbrs' s hl]
  rintro ⟨p, hp, h | h⟩
  · exact hl p hp (h.1.trans h.2.symm)
  · exact hl p hp (h.2.trans h.1.symm)

theorem nodup_of_names {l : List Elt} (h : (l.map Elt.name).Nodup) : l.Nodup := by
  unfold List.Nodup at *
  rw [List.pairwise_map] at h
  exact h.imp (fun h e => h (by rw [e]))

theorem census_path (s : Scaffold) (hw : WFScaffold s) (hc : SConnected s) (hcen : census s) :
    ∃ es, PathScaffold s es := by
  obtain ⟨h1, h2⟩ := hcen
  have hV : s.elts.Nodup := nodup_of_names hw.names
  have hsym := nbrs_symm s hw.noLoop
  have hirr := nbrs_irrefl s hw.noLoop
  have hnd : ∀ a, (s.nbrs a).Nodup := Gaftools.Proofs.Finish.nbrs_nodup s
  have hcl : ∀ a b, b ∈ s.nbrs a → a ∈ s.elts ∧ b ∈ s.elts := by
    intro a b hb
    rw [mem_nbrs' s hw.noLoop] at hb
    obtain ⟨p, hp, ⟨e1, e2⟩ | ⟨e1, e2⟩⟩ := hb
    · rw [← e1, ← e2]; exact hw.closed p hp
    · rw [← e1, ← e2]; exact (hw.closed p hp).symm
  -- every element has degree one or two
  have hle : (s.elts.filter (fun e => (s.nbrs e).length == 1)).length ≤ s.elts.length := List.length_filter_le _ _
  have hdeg : ∀ a ∈ s.elts, (s.nbrs a).length = 1 ∨ (s.nbrs a).length = 2 := by
    intro a ha
    have := Gaftools.Proofs.Census.all_of_count (fun e => (s.nbrs e).length == 1) (fun e => (s.nbrs e).length == 2)
      (by intro a h1 h2; simp only [beq_iff_eq] at h1 h2; omega) s.elts (by omega) a ha
    simpa using this
  -- a start element of degree one
  obtain ⟨x, hx⟩ : ∃ x, x ∈ s.elts.filter (fun e => (s.nbrs e).length == 1) := by
    cases hf : s.elts.filter (fun e => (s.nbrs e).length == 1) with
    | nil => rw [hf] at h1; simp at h1
    | cons x t => exact ⟨x, by simp⟩
  rw [List.mem_filter] at hx
  have hxV : x ∈ s.elts := hx.1
  have hx1 : (s.nbrs x).length = 1 := by simpa using hx.2
  have hinit : Gaftools.Proofs.Census.Inv s.nbrs x [x] :=
    ⟨by simp, rfl, by intro i a b _ h; simp at h, by intro i a c _ h; simp at h⟩
  obtain ⟨v, u, rest, hinv, hsub, hfin⟩ :=
    Gaftools.Proofs.Census.walk_exists hsym hirr hnd s.elts (fun a b h => (hcl a b h).2) hx1 hdeg
      s.elts.length [x] hinit (by intro a ha; rw [List.mem_singleton.mp ha]; exact hxV) (by omega)
  have hconn : ∀ S : Elt → Prop, S x → (∀ a b, S a → b ∈ s.nbrs a → S b) → ∀ b ∈ s.elts, S b := by
    intro S hSx hS b hb
    have hr := hc x hxV b hb
    clear hb
    induction hr with
    | refl => exact hSx
    | step _ hcb ih => exact hS _ _ ih hcb
  obtain ⟨hperm, hadj⟩ :=
    Gaftools.Proofs.Census.path_of_walk hsym s.elts hV (fun a b h => (hcl a b h).1) hconn hinv hsub hfin
  refine ⟨v :: u :: rest, ?_, hperm, by simp, hadj⟩
  exact ((hperm.map Elt.name).nodup_iff).mp hw.names

/-- an accepted chromosome passes the census -/
theorem finish_ok_census (s : Scaffold) (aps : List V) (so : V → Option Int) (sn : V → Option String) (l : Local)
    (h : finishScaffold s aps so sn = .ok l) : census s := by
  unfold finishScaffold at h
  simp only at h
  split at h
  · cases h
  · rename_i h1
    split at h
    · cases h
    · rename_i h2
      exact ⟨by simpa using h1, by simpa using h2⟩

theorem finish_ok_general (s : Scaffold) (aps : List V) (so : V → Option Int) (sn : V → Option String)
    (hw : WFScaffold s) (hc : SConnected s) (l : Local) (h : finishScaffold s aps so sn = .ok l) :
    ∃ tr cs, PathScaffold s tr ∧
      l = ⟨aps, s.bubbles.flatten, numberChain s tr, tr.length, s.bubbles.length⟩ ∧
      (scaffoldIds tr).mapM so = some cs ∧ strictlyIncreasing cs ∧
      (((scaffoldIds tr).map sn).eraseDups).length = 1 := by
  obtain ⟨es, hp⟩ := census_path s hw hc (finish_ok_census s aps so sn l h)
  obtain ⟨tr, cs, htr, hl, hso, hinc, hsn⟩ := finish_ok_inv s es aps so sn hp l h
  rcases htr with rfl | rfl
  · exact ⟨tr, cs, hp, hl, hso, hinc, hsn⟩
  · refine ⟨es.reverse, cs, hp.reverse, ?_, hso, hinc, ?_⟩
    · rw [hl, List.length_reverse]
    · have := Gaftools.Proofs.Finish.eraseDups_length_one_reverse _ hsn
      rw [← List.map_reverse] at this
      unfold scaffoldIds at this ⊢
      rw [List.filterMap_reverse]
      exact this

theorem natToString_inj {i j : Nat} (h : toString i = toString j) : i = j := by
  rw [Nat.toString_eq_repr, Nat.toString_eq_repr] at h
  have h' : (Nat.repr i).toList = (Nat.repr j).toList := by rw [h]
  rw [Nat.toList_repr, Nat.toList_repr] at h'
  have := congrArg (fun l => Nat.ofDigitChars 10 l 0) h'
  simpa using this

theorem bubble_name_toList (i : Nat) : (Elt.name (.bubble i)).toList = "\tbubble".toList ++ (toString i).toList := by
  show ("\tbubble" ++ toString i).toList = _
  rw [String.toList_append]

theorem bubble_name_inj {i j : Nat} (h : Elt.name (.bubble i) = Elt.name (.bubble j)) : i = j := by
  have h' := congrArg String.toList h
  rw [bubble_name_toList, bubble_name_toList] at h'
  exact natToString_inj (String.toList_injective (List.append_cancel_left h'))

theorem tab_mem_bubble_name (i : Nat) : '\t' ∈ (Elt.name (.bubble i)).toList := by
  rw [bubble_name_toList]
  exact List.mem_append_left _ (by decide)

/-- the two parts of a block as they occur among the chain's bubbles / bridges -/
theorem mem_parts_filter {bl : List (List V)} {aps : List V} {q : List V → Bool} {p : List V × List V}
    (h : p ∈ (bl.map (Gaftools.Proofs.Finish2.part aps)).filter (fun p => q p.1)) :
    ∃ b ∈ bl, p.2 = b.filter (fun v => aps.contains v) := by
  rw [List.mem_filter, List.mem_map] at h
  obtain ⟨⟨b, hb, rfl⟩, _⟩ := h
  exact ⟨b, hb, rfl⟩

/-- what `buildScaffold` builds is well-formed (node ids come from tab-separated lines: they hold no tab, so no id equals a
    bubble's name "\tbubble<i>") -/
theorem buildScaffold_wf (bl : List (List V)) (aps : List V) (s : Scaffold) (h : buildScaffold bl aps = .ok s)
    (haps : aps.Nodup) (hbl : ∀ b ∈ bl, b.Nodup) (htab : ∀ a ∈ aps, '\t' ∉ a.toList) : WFScaffold s := by
  obtain ⟨_, _, helts, hedges⟩ := buildScaffold_ok bl aps s h
  -- the articulation points of a bubble, and the two ends of a bridge, are articulation points
  have hbub : ∀ i a, i < (chainOfBlocks bl aps).bubbles.length →
      a ∈ ((chainOfBlocks bl aps).bubbles.getD i ([], [])).2 → a ∈ aps := by
    intro i a hi ha
    rw [List.getD_eq_getElem?_getD, List.getElem?_eq_getElem hi, Option.getD_some] at ha
    have hm : (chainOfBlocks bl aps).bubbles[i] ∈ (chainOfBlocks bl aps).bubbles := List.getElem_mem _
    generalize (chainOfBlocks bl aps).bubbles[i] = g at ha hm
    rw [Gaftools.Proofs.Finish2.chain_eq] at hm
    obtain ⟨b, _, e⟩ := mem_parts_filter (q := fun l => !l.isEmpty) hm
    rw [e, List.mem_filter] at ha
    simpa using ha.2
  have hbr : ∀ a b, (a, b) ∈ (chainOfBlocks bl aps).bridges → a ∈ aps ∧ b ∈ aps ∧ a ≠ b := by
    intro a b hab
    rw [Gaftools.Proofs.Finish2.chain_eq] at hab
    simp only at hab
    rw [List.mem_filterMap] at hab
    obtain ⟨p, hp, hm⟩ := hab
    obtain ⟨blk, hblk, e⟩ := mem_parts_filter (q := fun l => l.isEmpty) hp
    split at hm
    · rename_i x y hxy
      injection hm with hm
      injection hm with e1 e2
      subst e1; subst e2
      have hnd : (blk.filter (fun v => aps.contains v)).Nodup := (hbl blk hblk).sublist List.filter_sublist
      rw [← e, hxy] at hnd
      have hx : x ∈ blk.filter (fun v => aps.contains v) := by rw [← e, hxy]; simp
      have hy : y ∈ blk.filter (fun v => aps.contains v) := by rw [← e, hxy]; simp
      rw [List.mem_filter] at hx hy
      exact ⟨by simpa using hx.2, by simpa using hy.2, by simpa using hnd⟩
    · cases hm
  have hsc : ∀ a, a ∈ aps → Elt.scaffold a ∈ s.elts := by
    intro a ha
    rw [helts]
    exact List.mem_append_left _ (List.mem_map.mpr ⟨a, ha, rfl⟩)
  refine ⟨?_, ?_, ?_⟩
  · rw [helts, List.map_append, List.nodup_append]
    refine ⟨?_, ?_, ?_⟩
    · rw [List.map_map]
      have : (Elt.name ∘ Elt.scaffold) = id := by funext a; rfl
      rw [this, List.map_id]; exact haps
    · rw [List.map_map]
      unfold List.Nodup
      rw [List.pairwise_map]
      exact List.nodup_range.imp (fun hne e => hne (bubble_name_inj e))
    · intro n1 h1 n2 h2 e
      rw [List.map_map, List.mem_map] at h1 h2
      obtain ⟨a, ha, rfl⟩ := h1
      obtain ⟨i, _, rfl⟩ := h2
      apply htab a ha
      have : a = Elt.name (.bubble i) := e
      rw [this]
      exact tab_mem_bubble_name i
  · intro p hp
    rcases (hedges p).mp hp with ⟨i, a, rfl, hi, ha⟩ | ⟨a, b, rfl, hab⟩
    · refine ⟨?_, hsc a (hbub i a hi ha)⟩
      rw [helts]
      exact List.mem_append_right _ (List.mem_map.mpr ⟨i, List.mem_range.mpr hi, rfl⟩)
    · obtain ⟨h1, h2, _⟩ := hbr a b hab
      exact ⟨hsc a h1, hsc b h2⟩
  · intro p hp
    rcases (hedges p).mp hp with ⟨i, a, rfl, _, _⟩ | ⟨a, b, rfl, hab⟩
    · intro e; cases e
    · obtain ⟨_, _, h3⟩ := hbr a b hab
      intro e
      injection e with e
      exact h3 e

/-! non-vacuity: the example of `C06b` -/
example : WFScaffold exS := by
  refine ⟨by decide, by decide, by decide⟩

end Gaftools.C06
