import Gaftools.Gen.Decompose
import Gaftools.Props.TieA2
import Gaftools.Props.C06f
import Gaftools.Proofs.SkipLemmas
import Gaftools.Proofs.OrderRunLemmas
import Gaftools.Props.TieA16
/-!
# Tie A (continued) — `order_gfa.decompose_and_order` as a whole

`Gen/Decompose.lean` is regenerated on every run from the current source of `decompose_and_order`: every statement in source
order, the loops as folds of `daoLoop<k>` (numbered in source order), what follows a loop of the function's own level as
`daoPart<k>`; `return` and exceptions as `Except Exit` (`Exit.ret v` / `Exit.raise cls`).  The individual tests were tied
before (`Gen/Decisions.lean`, `TieA2.finishScaffold_gen`); this file ties the control flow and the data flow between them to the
model functions the properties C06 / C07 / C18 are about: `Order.buildScaffold`, `scaffoldDfs`, `finishScaffold`, `numberChain`,
`decompose`.

The Python's `GFA` object for the scaffold graph is the model's `Graph` built with the model's `addNode` / `addEdge` and read
through `Node.neighbors` / `dfs` (each tied to gfa.py elsewhere: TieA20, TieA8, TieA12); the model of `decompose_and_order`
uses its own little graph type `Scaffold` instead.  So the first half of this file shows that the two graphs are the same graph
(`step_eq`, `loop2_go`, `neighbors_eq`, `degList_eq`, `dfs_eq`), the second half follows the function statement by statement
(`part2_eq`, `loop4_eq`, `loop5_go`, `part3_eq`), and `decomposeAndOrder_gen` / `decomposeAndOrder_graph` put it together.

* `loop1_eq`, `loop3_eq`, `step_eq`, `loop2_go` — the scaffold graph: the loop over the articulation points, the loop over the
  ends of a bubble, one round and the whole of `for bc in all_biccs` against the model's `step` / `buildScaffold`
  (`blockEnds` = the `return None, …` of the block without inner nodes);
* `neighbors_eq`, `degList_eq`, `dfs_eq` — `x.neighbors()`, the two degree lists, `scaffold_graph.dfs(degree_one[0])`;
* `part2_eq` — from the degree lists to the `return`: census, traversal, SN test, SO list, orientation, monotonicity, numbering,
  against `finishScaffold`;
* `decomposeAndOrder_gen`, `decomposeAndOrder_graph` — the whole function against `decompose`;
* `finding_missing_SN` — where model and source differ;
* `daoOf_orderRun` — the result is the `dao` slot of `TieA16`'s chromosome loop.

Sets are duplicate-free lists in the order their producer gives them; the statements are up to the order the model fixes
(`canon`: the articulation points sorted — `decompose` sorts them before it builds the scaffold graph —, `inside_nodes` /
`node_order` read as set / dict) and up to the class of an exception (`forgetS`: the model has one `crash`).
-/
namespace Gaftools.TieA.Decompose
open Gaftools.Gfa Gaftools.Algo Gaftools.View Gaftools.Order
open Gaftools.Gen.Decompose
open Gaftools.Proofs.Finish Gaftools.Proofs.Finish2

set_option linter.unusedSimpArgs false
set_option linter.unusedVariables false

/-! ## generic -/

theorem mapE_ok {α β : Type} (f : α → Except Exit β) (g : α → β) :
    ∀ (l : List α), (∀ x ∈ l, f x = .ok (g x)) → mapE f l = .ok (l.map g)
  | [], _ => rfl
  | x :: r, h => by
    unfold mapE
    rw [h x (by simp), mapE_ok f g r (fun y hy => h y (List.mem_cons_of_mem _ hy))]
    rfl

theorem filterE_ok {α : Type} (p : α → Except Exit Bool) (q : α → Bool) :
    ∀ (l : List α), (∀ x ∈ l, p x = .ok (q x)) → filterE p l = .ok (l.filter q)
  | [], _ => rfl
  | x :: r, h => by
    unfold filterE
    rw [h x (by simp), filterE_ok p q r (fun y hy => h y (List.mem_cons_of_mem _ hy))]
    cases hq : q x <;> simp [hq]

/-- a comprehension whose element function fails exactly where `so` is undefined: it ends in the list `mapM` gives, or raises -/
theorem mapE_mapM {α β : Type} (f : α → Except Exit β) (so : α → Option β)
    (hf : ∀ x, (∃ c, so x = some c ∧ f x = .ok c) ∨ (so x = none ∧ ∃ e, f x = .error (.raise e))) :
    ∀ (l : List α), (∃ cs, l.mapM so = some cs ∧ mapE f l = .ok cs) ∨ (l.mapM so = none ∧ ∃ e, mapE f l = .error (.raise e))
  | [] => Or.inl ⟨[], rfl, rfl⟩
  | x :: r => by
    rw [List.mapM_cons]
    unfold mapE
    rcases hf x with ⟨c, h1, h2⟩ | ⟨h1, e, h2⟩
    · rw [h1, h2]
      rcases mapE_mapM f so hf r with ⟨cs, h3, h4⟩ | ⟨h3, e, h4⟩
      · left; exact ⟨c :: cs, by simp [h3], by simp [h4]⟩
      · right; exact ⟨by simp [h3], e, by simp [h4]⟩
    · rw [h1, h2]
      right; exact ⟨rfl, e, rfl⟩

theorem mapM_length {α β} (f : α → Option β) : ∀ (l : List α) (cs : List β), l.mapM f = some cs → cs.length = l.length
  | [], cs, h => by simp at h; subst h; rfl
  | x :: r, cs, h => by
    rw [List.mapM_cons] at h
    cases hx : f x with
    | none => rw [hx] at h; simp at h
    | some c =>
      rw [hx] at h
      cases hr : r.mapM f with
      | none => rw [hr] at h; simp at h
      | some cs' =>
        rw [hr] at h
        simp at h
        subst h
        simp [mapM_length f r cs' hr]

theorem eraseDups_idem {α} [BEq α] [LawfulBEq α] (l : List α) : l.eraseDups.eraseDups = l.eraseDups :=
  Gaftools.Proofs.Chain.eraseDups_of_nodup _ (Gaftools.Proofs.Finish.nodup_eraseDups l)

theorem removeAll_eraseDups {α} [BEq α] [LawfulBEq α] (a b : List α) : b.removeAll a.eraseDups = b.removeAll a := by
  unfold List.removeAll
  apply List.filter_congr
  intro x _
  have : a.eraseDups.elem x = a.elem x := by
    rw [Bool.eq_iff_iff]; simp [List.mem_eraseDups]
  rw [this]

theorem eraseDups_append_left {α} [BEq α] [LawfulBEq α] (a b : List α) : (a.eraseDups ++ b).eraseDups = (a ++ b).eraseDups := by
  rw [List.eraseDups_append, List.eraseDups_append, eraseDups_idem, removeAll_eraseDups]

/-! ## a dict in insertion order -/

theorem dictSet_fresh {κ ν : Type} [BEq κ] (d : List (κ × ν)) (k : κ) (v : ν) (h : d.any (fun e => e.1 == k) = false) :
    dictSet d k v = d ++ [(k, v)] := by
  unfold dictSet
  rw [h]; rfl

/-- looking a key up in a table made from a list with distinct keys -/
theorem dictGet_map {α ν : Type} (l : List α) (key : α → String) (val : α → ν) (hn : (l.map key).Nodup) (a : α) (ha : a ∈ l) :
    dictGet (l.map (fun e => (key e, val e))) (key a) = some (val a) := by
  unfold dictGet
  induction l with
  | nil => cases ha
  | cons x r ih =>
    rw [List.map_cons, List.nodup_cons] at hn
    rw [List.map_cons, List.find?_cons]
    by_cases hx : key x = key a
    · have : x = a := by
        rcases List.mem_cons.mp ha with e | e
        · exact e.symm
        · exfalso; apply hn.1; rw [hx]; exact List.mem_map.mpr ⟨a, e, rfl⟩
      subst this
      simp
    · have hne : ((key x, val x).1 == key a) = false := by simpa using hx
      rw [hne]
      have ha' : a ∈ r := by
        rcases List.mem_cons.mp ha with e | e
        · exact absurd (congrArg key e.symm) hx
        · exact e
      exact ih hn.2 ha'

theorem any_keys_false {α ν : Type} (l : List α) (key : α → String) (val : α → ν) (k : String) (h : k ∉ l.map key) :
    (l.map (fun e => (key e, val e))).any (fun e => e.1 == k) = false := by
  rw [List.any_eq_false]
  intro p hp
  obtain ⟨e, he, rfl⟩ := List.mem_map.mp hp
  intro hk
  apply h
  have : key e = k := by simpa using hk
  rw [← this]; exact List.mem_map.mpr ⟨e, he, rfl⟩

/-! ## the scaffold graph as a `Graph`: closed form of what `add_node` / `add_edge` build

`E` = the `add_edge(a, "+", b, "+", 0)` calls in order, `ids` = the `add_node` calls in order. -/

def adjOut (E : List (String × String)) (x : String) : List Adj :=
  E.foldl (fun l p => if x == p.1 then setInsert ((p.2, false, 0) : Adj) l else l) []
def adjIn (E : List (String × String)) (x : String) : List Adj :=
  E.foldl (fun l p => if x == p.2 then setInsert ((p.1, true, 0) : Adj) l else l) []
def mkNode (E : List (String × String)) (x : String) : Node := ⟨x, "", adjIn E x, adjOut E x, []⟩
def mkTags (E : List (String × String)) : List (EdgeKey × List String) :=
  E.foldl (fun d p => edgeTagSet d (p.1, true, p.2, false) []) []
def mkGraph (ids : List String) (E : List (String × String)) : Graph := ⟨ids.map (mkNode E), mkTags E⟩

theorem adjOut_snoc (E : List (String × String)) (a b x : String) :
    adjOut (E ++ [(a, b)]) x = if x == a then setInsert ((b, false, 0) : Adj) (adjOut E x) else adjOut E x := by
  unfold adjOut
  rw [List.foldl_append]; rfl

theorem adjIn_snoc (E : List (String × String)) (a b x : String) :
    adjIn (E ++ [(a, b)]) x = if x == b then setInsert ((a, true, 0) : Adj) (adjIn E x) else adjIn E x := by
  unfold adjIn
  rw [List.foldl_append]; rfl

theorem mkTags_snoc (E : List (String × String)) (a b : String) :
    mkTags (E ++ [(a, b)]) = edgeTagSet (mkTags E) (a, true, b, false) [] := by
  unfold mkTags
  rw [List.foldl_append]; rfl

theorem gfaNew_eq : gfaNew = mkGraph [] [] := rfl

/-- `add_edge(a, "+", b, "+", 0)` -/
theorem addEdge_mk (ids : List String) (E : List (String × String)) (a b : String) :
    gfaAddEdge (mkGraph ids E) a true b true 0 = mkGraph ids (E ++ [(a, b)]) := by
  unfold gfaAddEdge Gaftools.Gfa.addEdge mkGraph
  simp only [eDir, Bool.not_true]
  rw [mkTags_snoc]
  congr 1
  unfold addAdj
  rw [List.map_map, List.map_map]
  apply List.map_congr_left
  intro x _
  simp only [Function.comp, mkNode, adjOut_snoc, adjIn_snoc]
  by_cases h1 : x = a
  · subst h1
    by_cases h2 : x = b
    · subst h2; simp
    · simp [h2]
  · by_cases h2 : x = b
    · subst h2; simp [h1]
    · simp [h1, h2]

theorem foldl_skip {α β : Type} (f : β → α → β) (l : List α) (h : ∀ acc, ∀ p ∈ l, f acc p = acc) (acc : β) : l.foldl f acc = acc := by
  induction l generalizing acc with
  | nil => rfl
  | cons p r ih =>
    rw [List.foldl_cons, h acc p (by simp)]
    exact ih (fun a q hq => h a q (List.mem_cons_of_mem _ hq)) acc

theorem adjOut_none (E : List (String × String)) (x : String) (h : ∀ p ∈ E, p.1 ≠ x) : adjOut E x = [] := by
  unfold adjOut
  apply foldl_skip
  intro acc p hp
  have h1 : (x == p.1) = false := by
    have := h p hp
    simpa using fun e => this e.symm
  simp [h1]

theorem adjIn_none (E : List (String × String)) (x : String) (h : ∀ p ∈ E, p.2 ≠ x) : adjIn E x = [] := by
  unfold adjIn
  apply foldl_skip
  intro acc p hp
  have h1 : (x == p.2) = false := by
    have := h p hp
    simpa using fun e => this e.symm
  simp [h1]

/-- `add_node(x)` for an id that is new and that no edge mentions -/
theorem addNode_mk (ids : List String) (E : List (String × String)) (x : String) (hx : x ∉ ids)
    (hE : ∀ p ∈ E, p.1 ≠ x ∧ p.2 ≠ x) : gfaAddNode (mkGraph ids E) x = mkGraph (ids ++ [x]) E := by
  unfold gfaAddNode Gaftools.Gfa.addNode mkGraph Graph.has
  have hh : (ids.map (mkNode E)).any (fun n => n.id == x) = false := by
    rw [List.any_eq_false]
    intro n hn
    obtain ⟨y, hy, rfl⟩ := List.mem_map.mp hn
    show ¬ ((y == x) = true)
    intro e
    exact hx ((by simpa using e : y = x) ▸ hy)
  simp only [hh, Bool.false_eq_true, if_false, List.map_append, List.map_cons, List.map_nil, List.foldl_nil]
  congr 2
  unfold mkNode
  rw [adjOut_none E x (fun p hp => (hE p hp).1), adjIn_none E x (fun p hp => (hE p hp).2)]

/-! ## the scaffold graph of the model (`Scaffold`) as the state of the translated loops -/

def kind : Elt → String
  | .scaffold _ => "s"
  | .bubble _ => "b"

/-- the edges of the model's scaffold graph by name: the `add_edge` calls -/
def sEdges (s : Scaffold) : List (String × String) := s.edges.map (fun p => (p.1.name, p.2.name))
/-- `bubble_ids` once `n` bubbles have been named -/
def idsOf (n : Nat) : List (String × Nat) := (List.range n).map (fun i => (Elt.name (.bubble i), i))
/-- `scaffold_node_types` -/
def typesOf (elts : List Elt) : List (String × String) := elts.map (fun e => (e.name, kind e))
/-- `scaffold_graph` -/
def graphOf (s : Scaffold) : Graph := mkGraph (s.elts.map Elt.name) (sEdges s)

/-- the variables `for bc in all_biccs` carries, for the model's state `s` -/
def stateOf (s : Scaffold) : List String × Graph × List (List String) × List (String × Nat) × List (String × String) :=
  (s.bubbles.flatten.eraseDups, graphOf s, s.bubbles, idsOf s.bubbles.length, typesOf s.elts)

/-- `for n in artic_points` -/
theorem loop1_go {G : Type} (env : Env G) : ∀ (aps done : List V), (done ++ aps).Nodup →
    aps.foldl (daoLoop1 env) (mkGraph done [], typesOf (done.map Elt.scaffold)) =
      (mkGraph (done ++ aps) [], typesOf ((done ++ aps).map Elt.scaffold))
  | [], done, _ => by simp
  | a :: r, done, h => by
    rw [List.foldl_cons]
    have hnd : (done ++ [a] ++ r).Nodup := by simpa using h
    have ha : a ∉ done := by
      intro hm
      rw [List.nodup_append] at h
      exact h.2.2 a hm a (by simp) rfl
    have e1 : daoLoop1 env (mkGraph done [], typesOf (done.map Elt.scaffold)) a =
        (mkGraph (done ++ [a]) [], typesOf ((done ++ [a]).map Elt.scaffold)) := by
      show (gfaAddNode (mkGraph done []) a, dictSet (typesOf (done.map Elt.scaffold)) a "s") = _
      rw [addNode_mk done [] a ha (by simp)]
      unfold typesOf
      rw [dictSet_fresh _ _ _ (any_keys_false _ _ _ _ (by
        rw [List.map_map]
        have : (Elt.name ∘ Elt.scaffold) = id := by funext x; rfl
        rw [this, List.map_id]; exact ha))]
      simp [kind, Elt.name]
    rw [e1, loop1_go env r (done ++ [a]) hnd]
    simp

theorem loop1_eq {G : Type} (env : Env G) (aps : List V) (haps : aps.Nodup) :
    aps.foldl (daoLoop1 env) (gfaNew, []) = (mkGraph aps [], typesOf (aps.map Elt.scaffold)) := by
  have := loop1_go env aps [] (by simpa using haps)
  simpa [gfaNew_eq, typesOf] using this

/-- `for end_node in bc_end_nodes` -/
theorem loop3_eq {G : Type} (env : Env G) (nm : String) (ids : List String) : ∀ (ends : List V) (E : List (String × String)),
    ends.foldl (daoLoop3 env nm) (mkGraph ids E) = mkGraph ids (E ++ ends.map (fun e => (nm, e)))
  | [], E => by simp
  | e :: r, E => by
    rw [List.foldl_cons]
    have e1 : daoLoop3 env nm (mkGraph ids E) e = mkGraph ids (E ++ [(nm, e)]) := by
      show gfaAddEdge (mkGraph ids E) nm true e true 0 = _
      exact addEdge_mk ids E nm e
    rw [e1, loop3_eq env nm ids r]
    simp

/-- what the loop over the blocks keeps true of the model's state -/
structure Inv (aps : List V) (s : Scaffold) : Prop where
  elts : s.elts = aps.map Elt.scaffold ++ (List.range s.bubbles.length).map Elt.bubble
  closed : ∀ p ∈ s.edges, p.1 ∈ s.elts ∧ p.2 ∈ s.elts

theorem mem_part_ends {aps bc : List V} {a : V} (h : a ∈ (part aps bc).2) : a ∈ aps := by
  unfold part at h
  simp only [List.mem_filter] at h
  simpa using h.2

theorem inv_init (aps : List V) : Inv aps ⟨aps.map Elt.scaffold, [], []⟩ :=
  ⟨by simp, by simp⟩

theorem step_inv (aps : List V) (s s' : Scaffold) (bc : List V) (hI : Inv aps s) (h : step aps s bc = .ok s') : Inv aps s' := by
  have hsc : ∀ a ∈ aps, Elt.scaffold a ∈ s.elts := by
    intro a ha
    rw [hI.elts]
    exact List.mem_append_left _ (List.mem_map.mpr ⟨a, ha, rfl⟩)
  cases hemp : (part aps bc).1.isEmpty with
  | true =>
    unfold step at h
    rw [if_pos hemp] at h
    split at h
    · rename_i a b hab
      injection h with h
      subst h
      refine ⟨hI.elts, ?_⟩
      intro p hp
      rcases List.mem_append.mp hp with hp | hp
      · exact hI.closed p hp
      · simp only [List.mem_singleton] at hp
        subst hp
        exact ⟨hsc a (mem_part_ends (by rw [hab]; simp)), hsc b (mem_part_ends (by rw [hab]; simp))⟩
    · cases h
  | false =>
    rw [step_bubble aps s bc hemp] at h
    injection h with h
    subst h
    refine ⟨?_, ?_⟩
    · simp only [List.length_append, List.length_singleton, List.range_succ, List.map_append, List.map_cons, List.map_nil]
      rw [hI.elts, List.append_assoc]
    · intro p hp
      simp only
      rcases List.mem_append.mp hp with hp | hp
      · exact ⟨List.mem_append_left _ (hI.closed p hp).1, List.mem_append_left _ (hI.closed p hp).2⟩
      · obtain ⟨e, he, rfl⟩ := List.mem_map.mp hp
        exact ⟨List.mem_append_right _ (by simp), List.mem_append_left _ (hsc e (mem_part_ends he))⟩

/-- no articulation point is called like a bubble (the ids of a GFA file hold no tab) -/
def FreshNames (aps : List V) : Prop := ∀ a ∈ aps, ∀ i, a ≠ Elt.name (.bubble i)

theorem freshNames_of_tab (aps : List V) (htab : ∀ a ∈ aps, '\t' ∉ a.toList) : FreshNames aps := by
  intro a ha i e
  apply htab a ha
  rw [e]
  exact Gaftools.C06.tab_mem_bubble_name i

theorem bubble_fresh (aps : List V) (s : Scaffold) (hf : FreshNames aps) (hI : Inv aps s) :
    Elt.name (.bubble s.bubbles.length) ∉ s.elts.map Elt.name := by
  rw [hI.elts, List.map_append, List.mem_append]
  rintro (h | h)
  · rw [List.map_map, List.mem_map] at h
    obtain ⟨a, ha, e⟩ := h
    exact hf a ha _ e
  · rw [List.map_map, List.mem_map] at h
    obtain ⟨j, hj, e⟩ := h
    have := Gaftools.C06.bubble_name_inj e
    rw [List.mem_range] at hj
    omega

theorem idsOf_succ (n : Nat) : idsOf (n + 1) = idsOf n ++ [(Elt.name (.bubble n), n)] := by
  unfold idsOf
  rw [List.range_succ, List.map_append]; rfl

theorem idsOf_fresh (n : Nat) : (idsOf n).any (fun e => e.1 == Elt.name (.bubble n)) = false := by
  unfold idsOf
  apply any_keys_false (List.range n) (fun i => Elt.name (.bubble i)) (fun i => i)
  intro h
  obtain ⟨j, hj, e⟩ := List.mem_map.mp h
  have := Gaftools.C06.bubble_name_inj e
  rw [List.mem_range] at hj
  omega

theorem length_eq_zero_isEmpty {α} (l : List α) : (l.length == (0 : Nat)) = l.isEmpty := by
  cases l <;> rfl

/-- one round of `for bc in all_biccs`: the translated body does to the translated state what the model's `step` does to the
    model's state; the model's `blockEnds` is the `return None, …` of the block without inner nodes -/
theorem step_eq {G : Type} (env : Env G) (aps : List V) (hf : FreshNames aps) (s : Scaffold) (hI : Inv aps s) (bc : List V) :
    daoLoop2 env aps (stateOf s) bc =
      (match step aps s bc with
       | .ok s' => .ok (stateOf s')
       | .error _ => .error (.ret none)) := by
  have hd : setDiff bc aps = (part aps bc).1 := rfl
  have hi : setInter bc aps = (part aps bc).2 := rfl
  unfold daoLoop2
  simp only [stateOf, hd, hi, length_eq_zero_isEmpty]
  cases hemp : (part aps bc).1.isEmpty with
  | true =>
    have hnil : (part aps bc).1 = [] := by simpa using hemp
    simp only [if_true]
    by_cases hlen : (part aps bc).2.length = 2
    · obtain ⟨a, b, hab⟩ := length_eq_two _ hlen
      rw [step_bridge aps s bc a b hemp hab]
      simp only [hab, unpack2, hnil, setUpdate, List.append_nil, eraseDups_idem]
      have : gfaAddEdge (graphOf s) a true b true 0 = graphOf { s with edges := s.edges ++ [(Elt.scaffold a, Elt.scaffold b)] } := by
        unfold graphOf
        rw [addEdge_mk]
        simp [sEdges, Elt.name]
      simp [this]
    · rw [step_bad aps s bc hemp hlen]
      have : ((part aps bc).2.length != 2) = true := by simpa using hlen
      simp [this]
  | false =>
    rw [step_bubble aps s bc hemp]
    simp only [Bool.false_eq_true, if_false]
    have hname : ("\tbubble" ++ toString s.bubbles.length) = Elt.name (.bubble s.bubbles.length) := rfl
    have hfr := bubble_fresh aps s hf hI
    have hE : ∀ p ∈ sEdges s, p.1 ≠ Elt.name (.bubble s.bubbles.length) ∧ p.2 ≠ Elt.name (.bubble s.bubbles.length) := by
      intro p hp
      obtain ⟨q, hq, rfl⟩ := List.mem_map.mp hp
      constructor
      · intro e; exact hfr (e ▸ List.mem_map.mpr ⟨q.1, (hI.closed q hq).1, rfl⟩)
      · intro e; exact hfr (e ▸ List.mem_map.mpr ⟨q.2, (hI.closed q hq).2, rfl⟩)
    simp only [hname, graphOf]
    have ht : dictSet (typesOf s.elts) (Elt.name (.bubble s.bubbles.length)) "b" =
        typesOf s.elts ++ [(Elt.name (.bubble s.bubbles.length), "b")] :=
      dictSet_fresh _ _ _ (by unfold typesOf; exact any_keys_false _ _ _ _ hfr)
    rw [dictSet_fresh _ _ _ (idsOf_fresh _), addNode_mk _ _ _ hfr hE, loop3_eq, ht]
    simp only [List.length_append, List.length_singleton, idsOf_succ, typesOf, List.map_append, List.map_cons, List.map_nil, kind,
      List.flatten_append, List.flatten_cons, List.flatten_nil, List.append_nil, setUpdate, eraseDups_append_left, sEdges,
      List.map_map]
    rfl

/-- `for bc in all_biccs` from a state that stands for the model's `s0` -/
theorem loop2_go {G : Type} (env : Env G) (aps : List V) (hf : FreshNames aps) : ∀ (bl : List (List V)) (s0 : Scaffold), Inv aps s0 →
    bl.foldlM (daoLoop2 env aps) (stateOf s0) =
      (match bl.foldlM (step aps) s0 with
       | .ok s => .ok (stateOf s)
       | .error _ => .error (.ret none))
  | [], s0, _ => rfl
  | bc :: r, s0, hI => by
    rw [List.foldlM_cons, List.foldlM_cons, step_eq env aps hf s0 hI bc]
    cases hs : step aps s0 bc with
    | error e => rfl
    | ok s1 =>
      simp only [bind, Except.bind]
      exact loop2_go env aps hf r s1 (step_inv aps s0 s1 bc hI hs)

/-- the invariant holds for what `buildScaffold` returns -/
theorem foldlM_step_inv (aps : List V) : ∀ (bl : List (List V)) (s0 s : Scaffold), Inv aps s0 → bl.foldlM (step aps) s0 = .ok s → Inv aps s
  | [], s0, s, hI, h => by
    rw [List.foldlM_nil] at h
    injection h with h
    exact h ▸ hI
  | bc :: r, s0, s, hI, h => by
    rw [List.foldlM_cons] at h
    cases hs : step aps s0 bc with
    | error e => rw [hs] at h; cases h
    | ok s1 =>
      rw [hs] at h
      exact foldlM_step_inv aps r s1 s (step_inv aps s0 s1 bc hI hs) h

/-! ## `Node.neighbors()` in the translated graph = the model's `nbrs` -/

theorem inj_of_nodup_map {α β : Type} (f : α → β) : ∀ (l : List α), (l.map f).Nodup → ∀ x ∈ l, ∀ y ∈ l, f x = f y → x = y
  | [], _, x, hx, _, _, _ => by cases hx
  | a :: r, h, x, hx, y, hy, e => by
    rw [List.map_cons, List.nodup_cons] at h
    rcases List.mem_cons.mp hx with rfl | hx' <;> rcases List.mem_cons.mp hy with rfl | hy'
    · rfl
    · exact absurd (List.mem_map.mpr ⟨y, hy', e.symm⟩) h.1
    · exact absurd (List.mem_map.mpr ⟨x, hx', e⟩) h.1
    · exact inj_of_nodup_map f r h.2 x hx' y hy' e

theorem nodup_map_of_inj {α β : Type} (f : α → β) (l : List α) (hn : l.Nodup) (hf : ∀ x ∈ l, ∀ y ∈ l, f x = f y → x = y) :
    (l.map f).Nodup := by
  unfold List.Nodup
  rw [List.pairwise_map]
  exact List.Pairwise.imp_of_mem (fun hx hy hne e => hne (hf _ hx _ hy e)) hn

theorem mem_setInsert {α} [BEq α] [LawfulBEq α] (x y : α) (l : List α) : y ∈ setInsert x l ↔ y = x ∨ y ∈ l := by
  unfold setInsert
  split
  · rename_i h
    have : x ∈ l := by simpa using h
    constructor
    · intro h'; exact Or.inr h'
    · rintro (rfl | h') <;> assumption
  · simp [or_comm]

theorem nodup_setInsert {α} [BEq α] [LawfulBEq α] (x : α) (l : List α) (h : l.Nodup) : (setInsert x l).Nodup := by
  unfold setInsert
  split
  · exact h
  · rename_i hc
    have : x ∉ l := by simpa using hc
    rw [List.nodup_append]
    refine ⟨h, by simp, ?_⟩
    intro a ha b hb e
    simp only [List.mem_singleton] at hb
    subst hb; subst e
    exact this ha

/-- the fold that collects an adjacency set -/
theorem adjFold (c : String × String → Bool) (v : String × String → Adj) (E : List (String × String)) (acc : List Adj) (hacc : acc.Nodup) :
    (E.foldl (fun l p => if c p then setInsert (v p) l else l) acc).Nodup ∧
    ∀ y, y ∈ E.foldl (fun l p => if c p then setInsert (v p) l else l) acc ↔ y ∈ acc ∨ ∃ p ∈ E, c p = true ∧ y = v p := by
  induction E generalizing acc with
  | nil => simp [hacc]
  | cons q r ih =>
    rw [List.foldl_cons]
    by_cases hc : c q = true
    · simp only [hc, if_true]
      obtain ⟨h1, h2⟩ := ih (setInsert (v q) acc) (nodup_setInsert _ _ hacc)
      refine ⟨h1, ?_⟩
      intro y
      rw [h2 y, mem_setInsert]
      constructor
      · rintro ((rfl | h) | ⟨p, hp, hcp, rfl⟩)
        · exact Or.inr ⟨q, by simp, hc, rfl⟩
        · exact Or.inl h
        · exact Or.inr ⟨p, List.mem_cons_of_mem _ hp, hcp, rfl⟩
      · rintro (h | ⟨p, hp, hcp, rfl⟩)
        · exact Or.inl (Or.inr h)
        · rcases List.mem_cons.mp hp with rfl | hp
          · exact Or.inl (Or.inl rfl)
          · exact Or.inr ⟨p, hp, hcp, rfl⟩
    · have hc' : c q = false := by simpa using hc
      simp only [hc', Bool.false_eq_true, if_false]
      obtain ⟨h1, h2⟩ := ih acc hacc
      refine ⟨h1, ?_⟩
      intro y
      rw [h2 y]
      constructor
      · rintro (h | ⟨p, hp, hcp, rfl⟩)
        · exact Or.inl h
        · exact Or.inr ⟨p, List.mem_cons_of_mem _ hp, hcp, rfl⟩
      · rintro (h | ⟨p, hp, hcp, rfl⟩)
        · exact Or.inl h
        · rcases List.mem_cons.mp hp with rfl | hp
          · rw [hc'] at hcp; cases hcp
          · exact Or.inr ⟨p, hp, hcp, rfl⟩

theorem mem_outIds (E : List (String × String)) (x y : String) : y ∈ (adjOut E x).map (·.1) ↔ (x, y) ∈ E := by
  unfold adjOut
  have := (adjFold (fun p => x == p.1) (fun p => ((p.2, false, 0) : Adj)) E [] (by simp)).2
  rw [List.mem_map]
  constructor
  · rintro ⟨a, ha, rfl⟩
    obtain h | ⟨p, hp, hc, rfl⟩ := (this a).mp ha
    · cases h
    · have : x = p.1 := by simpa using hc
      rw [this]; exact hp
  · intro h
    exact ⟨(y, false, 0), (this _).mpr (Or.inr ⟨(x, y), h, by simp, rfl⟩), rfl⟩

theorem mem_inIds (E : List (String × String)) (x y : String) : y ∈ (adjIn E x).map (·.1) ↔ (y, x) ∈ E := by
  unfold adjIn
  have := (adjFold (fun p => x == p.2) (fun p => ((p.1, true, 0) : Adj)) E [] (by simp)).2
  rw [List.mem_map]
  constructor
  · rintro ⟨a, ha, rfl⟩
    obtain h | ⟨p, hp, hc, rfl⟩ := (this a).mp ha
    · cases h
    · have : x = p.2 := by simpa using hc
      rw [this]; exact hp
  · intro h
    exact ⟨(y, true, 0), (this _).mpr (Or.inr ⟨(y, x), h, by simp, rfl⟩), rfl⟩

theorem nodup_outIds (E : List (String × String)) (x : String) : ((adjOut E x).map (·.1)).Nodup := by
  have h := adjFold (fun p => x == p.1) (fun p => ((p.2, false, 0) : Adj)) E [] (by simp)
  apply nodup_map_of_inj _ _ h.1
  intro a ha b hb e
  obtain h1 | ⟨p, _, _, rfl⟩ := (h.2 a).mp ha
  · cases h1
  obtain h2 | ⟨q, _, _, rfl⟩ := (h.2 b).mp hb
  · cases h2
  simp only at e
  simp [e]

theorem nodup_inIds (E : List (String × String)) (x : String) : ((adjIn E x).map (·.1)).Nodup := by
  have h := adjFold (fun p => x == p.2) (fun p => ((p.1, true, 0) : Adj)) E [] (by simp)
  apply nodup_map_of_inj _ _ h.1
  intro a ha b hb e
  obtain h1 | ⟨p, _, _, rfl⟩ := (h.2 a).mp ha
  · cases h1
  obtain h2 | ⟨q, _, _, rfl⟩ := (h.2 b).mp hb
  · cases h2
  simp only at e
  simp [e]

/-- what the second half of the function needs of the scaffold graph -/
structure Good (aps : List V) (s : Scaffold) : Prop where
  inv : Inv aps s
  names : (s.elts.map Elt.name).Nodup
  anti : ∀ p ∈ s.edges, (p.2, p.1) ∉ s.edges

theorem Good.inj {aps : List V} {s : Scaffold} (hg : Good aps s) {a b : Elt} (ha : a ∈ s.elts) (hb : b ∈ s.elts)
    (e : a.name = b.name) : a = b := inj_of_nodup_map Elt.name s.elts hg.names a ha b hb e

theorem mem_sEdges {aps : List V} {s : Scaffold} (hg : Good aps s) {a b : Elt} (ha : a ∈ s.elts) (hb : b ∈ s.elts) :
    (a.name, b.name) ∈ sEdges s ↔ (a, b) ∈ s.edges := by
  unfold sEdges
  rw [List.mem_map]
  constructor
  · rintro ⟨p, hp, e⟩
    injection e with e1 e2
    have h1 := hg.inj (hg.inv.closed p hp).1 ha e1
    have h2 := hg.inj (hg.inv.closed p hp).2 hb e2
    have : p = (a, b) := by rw [← h1, ← h2]
    rw [← this]; exact hp
  · intro h; exact ⟨(a, b), h, rfl⟩

/-- `x.neighbors()` of a node of the translated graph: the names of the model's neighbours, sorted -/
theorem neighbors_eq {aps : List V} {s : Scaffold} (hg : Good aps s) (e : Elt) (he : e ∈ s.elts) :
    (mkNode (sEdges s) e.name).neighbors = sortStrings ((s.nbrs e).map Elt.name) := by
  show sortStrings ((adjIn (sEdges s) e.name).map (·.1) ++ (adjOut (sEdges s) e.name).map (·.1)) = _
  apply Gaftools.Proofs.Bicc2.sort_perm_eq
  have hnb : ∀ b ∈ s.nbrs e, b ∈ s.elts := by
    intro b hb
    obtain ⟨p, hp, ⟨_, h2⟩ | ⟨_, _, h3⟩⟩ := (Gaftools.C06.mem_nbrs s e b).mp hb
    · exact h2 ▸ (hg.inv.closed p hp).2
    · exact h3 ▸ (hg.inv.closed p hp).1
  have hsub : ∀ p ∈ sEdges s, ∃ q ∈ s.edges, p = (q.1.name, q.2.name) := by
    intro p hp
    obtain ⟨q, hq, rfl⟩ := List.mem_map.mp hp
    exact ⟨q, hq, rfl⟩
  rw [List.perm_ext_iff_of_nodup]
  · intro y
    rw [List.mem_append, mem_inIds, mem_outIds, List.mem_map]
    constructor
    · rintro (h | h)
      · obtain ⟨q, hq, e1⟩ := hsub _ h
        injection e1 with e1 e2
        have h2 : q.2 = e := hg.inj (hg.inv.closed q hq).2 he e2.symm
        have h1 : q.1 ≠ e := by
          intro h1
          apply hg.anti q hq
          have : (q.2, q.1) = q := by
            rw [h1, h2]; exact Prod.ext h1.symm h2.symm
          rw [this]; exact hq
        exact ⟨q.1, (Gaftools.C06.mem_nbrs s e q.1).mpr ⟨q, hq, Or.inr ⟨h1, h2, rfl⟩⟩, e1.symm⟩
      · obtain ⟨q, hq, e1⟩ := hsub _ h
        injection e1 with e1 e2
        have h1 : q.1 = e := hg.inj (hg.inv.closed q hq).1 he e1.symm
        exact ⟨q.2, (Gaftools.C06.mem_nbrs s e q.2).mpr ⟨q, hq, Or.inl ⟨h1, rfl⟩⟩, e2.symm⟩
    · rintro ⟨b, hb, rfl⟩
      obtain ⟨p, hp, ⟨h1, h2⟩ | ⟨_, h2, h3⟩⟩ := (Gaftools.C06.mem_nbrs s e b).mp hb
      · right
        exact List.mem_map.mpr ⟨p, hp, by rw [h1, h2]⟩
      · left
        exact List.mem_map.mpr ⟨p, hp, by rw [h2, h3]⟩
  · rw [List.nodup_append]
    refine ⟨nodup_inIds _ _, nodup_outIds _ _, ?_⟩
    intro a ha b hb hab
    subst hab
    rw [mem_inIds] at ha
    rw [mem_outIds] at hb
    obtain ⟨q, hq, e1⟩ := hsub _ ha
    obtain ⟨q', hq', e1'⟩ := hsub _ hb
    injection e1 with e1 e2
    injection e1' with e1' e2'
    have h2 : q.2 = e := hg.inj (hg.inv.closed q hq).2 he e2.symm
    have h1' : q'.1 = e := hg.inj (hg.inv.closed q' hq').1 he e1'.symm
    have h3 : q.1 = q'.2 := hg.inj (hg.inv.closed q hq).1 (hg.inv.closed q' hq').2 (e1.symm.trans e2')
    apply hg.anti q hq
    have : (q.2, q.1) = q' := by
      rw [h2, h3, ← h1']
    rw [this]; exact hq'
  · apply nodup_map_of_inj
    · unfold Scaffold.nbrs
      exact Gaftools.Proofs.Finish.nodup_eraseDups _
    · intro a ha b hb e1
      exact hg.inj (hnb a ha) (hnb b hb) e1

theorem length_sortStrings (l : List String) : (sortStrings l).length = l.length :=
  (Gaftools.Proofs.Bicc2.sortStrings_perm l).length_eq

theorem degree_eq {aps : List V} {s : Scaffold} (hg : Good aps s) (e : Elt) (he : e ∈ s.elts) :
    (mkNode (sEdges s) e.name).neighbors.length = (s.nbrs e).length := by
  rw [neighbors_eq hg e he, length_sortStrings, List.length_map]

/-! ## the degree lists and the traversal -/

theorem graph_nodes (s : Scaffold) : (graphOf s).nodes = s.elts.map (fun e => mkNode (sEdges s) e.name) := by
  unfold graphOf mkGraph
  simp only [List.map_map]; rfl

theorem graph_ids (s : Scaffold) : Graph.ids (graphOf s) = s.elts.map Elt.name := by
  unfold Graph.ids
  rw [graph_nodes, List.map_map]; rfl

theorem graph_len (s : Scaffold) : gfaLen (graphOf s) = s.elts.length := by
  unfold gfaLen
  rw [graph_nodes, List.length_map]

/-- `[x.id for x in scaffold_graph.nodes.values() if len(x.neighbors()) == k]` -/
theorem degList_eq {aps : List V} {s : Scaffold} (hg : Good aps s) (k : Nat) :
    ((graphOf s).nodes.filter (fun x => x.neighbors.length == k)).map (fun x => x.id) =
      (s.elts.filter (fun e => (s.nbrs e).length == k)).map Elt.name := by
  rw [graph_nodes, List.filter_map, List.map_map]
  have : s.elts.filter ((fun x : Node => x.neighbors.length == k) ∘ fun e => mkNode (sEdges s) e.name) =
      s.elts.filter (fun e => (s.nbrs e).length == k) := by
    apply List.filter_congr
    intro e he
    simp only [Function.comp, degree_eq hg e he]
  rw [this]; rfl

theorem graph_nb {aps : List V} {s : Scaffold} (hg : Good aps s) : Graph.nbFun (graphOf s) = nbOf s := by
  funext x
  unfold Graph.nbFun Graph.neighbors Graph.find nbOf
  rw [graph_nodes, List.find?_map]
  have : ((fun n : Node => n.id == x) ∘ fun e => mkNode (sEdges s) e.name) = fun e : Elt => e.name == x := by
    funext e; rfl
  rw [this]
  cases hf : s.elts.find? (fun e => e.name == x) with
  | none => rfl
  | some e =>
    simp only [Option.map_some]
    exact neighbors_eq hg e (List.mem_of_find?_eq_some hf)

theorem dfsLoop_sub (nb : V → List V) (Vs : List V) : ∀ (st out : List V), (∀ x ∈ out, x ∈ Vs) → ∀ x ∈ dfsLoop nb Vs st out, x ∈ Vs := by
  intro st out
  induction st, out using dfsLoop.induct nb Vs with
  | case1 out => intro h; unfold dfsLoop; exact h
  | case2 s st out hs ih =>
    intro h
    rw [dfsLoop, dif_pos hs]; exact ih h
  | case3 s st out hs ih =>
    intro h
    rw [dfsLoop, dif_neg hs]
    apply ih
    intro x hx
    rcases List.mem_cons.mp hx with rfl | hx
    · exact Decidable.byContradiction (fun hv => hs (Or.inr hv))
    · exact h x hx

theorem dfs_sub (nb : V → List V) (Vs : List V) (start : V) : ∀ x ∈ dfs nb Vs start, x ∈ Vs := by
  intro x hx
  unfold dfs at hx
  split at hx
  · cases hx
  · rename_i hc
    split at hx
    · exact hx
    · split at hx
      · simp only [List.mem_singleton] at hx
        subst hx
        simpa using hc
      · rw [List.mem_reverse] at hx
        exact dfsLoop_sub nb Vs _ _ (by simp) x hx

theorem ofName_map (s : Scaffold) : ∀ (l : List String), (∀ x ∈ l, x ∈ s.elts.map Elt.name) →
    (l.filterMap (fun n => s.elts.find? (fun e => e.name == n))).map Elt.name = l
  | [], _ => rfl
  | x :: r, h => by
    have hx := h x (by simp)
    obtain ⟨e, he, hex⟩ := List.mem_map.mp hx
    cases hf : s.elts.find? (fun e => e.name == x) with
    | none =>
      rw [List.find?_eq_none] at hf
      exact absurd (by simpa using hex) (hf e he)
    | some e' =>
      rw [List.filterMap_cons, hf, List.map_cons, ofName_map s r (fun y hy => h y (List.mem_cons_of_mem _ hy))]
      have := List.find?_some hf
      simp only [beq_iff_eq] at this
      rw [this]

/-- `scaffold_graph.dfs(start)`: the names of the model's traversal -/
theorem dfs_eq {aps : List V} {s : Scaffold} (hg : Good aps s) (e0 : Elt) :
    gfaDfs (graphOf s) e0.name = (scaffoldDfs s e0).map Elt.name := by
  unfold gfaDfs
  rw [graph_nb hg, graph_ids, scaffoldDfs_eq, ofName_map s _ (dfs_sub _ _ _)]

theorem scaffoldDfs_sub (s : Scaffold) (e0 : Elt) : ∀ e ∈ scaffoldDfs s e0, e ∈ s.elts := by
  intro e he
  rw [scaffoldDfs_eq, List.mem_filterMap] at he
  obtain ⟨n, _, hn⟩ := he
  exact List.mem_of_find?_eq_some hn

/-! ## the test of the reference offsets: `for i in range(len(coordinates) - 1)` -/

theorem loop4_succ {G : Type} (env : Env G) (a : Int) (l : List Int) (u : Unit) (i : Nat) :
    daoLoop4 env (a :: l) u (i + 1) = daoLoop4 env l u i := by
  unfold daoLoop4
  simp only [List.getElem?_cons_succ]

theorem loop4_range {G : Type} (env : Env G) : ∀ (cs : List Int),
    (List.range (cs.length - 1)).foldlM (daoLoop4 env cs) () =
      if (List.zip cs cs.tail).all (fun p => decide (p.1 < p.2)) then .ok () else .error (.ret none)
  | [] => rfl
  | [a] => rfl
  | a :: b :: r => by
    have hlen : (a :: b :: r).length - 1 = (b :: r).length - 1 + 1 := by simp
    rw [hlen, List.range_succ_eq_map, List.foldlM_cons]
    have h0 : daoLoop4 env (a :: b :: r) () 0 = if (!decide (a < b)) then .error (.ret none) else .ok () := by
      unfold daoLoop4
      simp
    rw [h0]
    simp only [List.tail_cons, List.zip_cons_cons, List.all_cons]
    by_cases hab : a < b
    · simp only [hab, decide_true, Bool.not_true, Bool.false_eq_true, if_false, Bool.true_and, bind, Except.bind]
      rw [List.foldlM_map]
      have : (fun x y => daoLoop4 env (a :: b :: r) x (Nat.succ y)) = daoLoop4 env (b :: r) := by
        funext x y; exact loop4_succ env a (b :: r) x y
      rw [this, loop4_range env (b :: r)]
      rfl
    · simp [hab, bind, Except.bind]

theorem loop4_eq {G : Type} (env : Env G) (cs : List Int) :
    (pyRange (((cs.length : Nat) : Int) - (1 : Int))).foldlM (daoLoop4 env cs) () =
      if (List.zip cs cs.tail).all (fun p => decide (p.1 < p.2)) then .ok () else .error (.ret none) := by
  have : pyRange (((cs.length : Nat) : Int) - (1 : Int)) = List.range (cs.length - 1) := by
    unfold pyRange
    congr 1
    omega
  rw [this, loop4_range]

/-! ## the numbering: `for node in traversal` -/

/-- `d[k] = v` for every pair of a list, in order, starting from the empty dict: the dict the pairs describe -/
def dictOfList {ν : Type} (l : List (String × ν)) : List (String × ν) := l.foldl (fun d x => dictSet d x.1 x.2) []

/-- the assignments to `node_order` for the chain elements `tr`, the first of them at chain position `k` -/
def entries (bubbles : List (List V)) (bo0 : Int) (tr : List Elt) (k : Nat) : List (String × Int × Int) :=
  (tr.zipIdx k).flatMap (fun p => match p.1 with
    | .scaffold id => [(id, (bo0 + (p.2 : Int), (0 : Int)))]
    | .bubble i => (sortStrings (bubbles.getD i [])).zipIdx.map (fun q => (q.1, (bo0 + (p.2 : Int), ((q.2 : Nat) : Int) + 1))))

theorem flatMap_congr_mem {α β} {f g : α → List β} : ∀ {l : List α}, (∀ a ∈ l, f a = g a) → l.flatMap f = l.flatMap g
  | [], _ => rfl
  | a :: l, h => by
    rw [List.flatMap_cons, List.flatMap_cons, h a (by simp), flatMap_congr_mem (fun x hx => h x (List.mem_cons_of_mem _ hx))]

theorem entries_model (s : Scaffold) (bo : Int) (tr : List Elt) :
    (numberChain s tr).map (fun x => (x.1, bo + (x.2.1 : Int), (x.2.2 : Int))) = entries s.bubbles bo tr 0 := by
  unfold numberChain entries
  rw [List.map_flatMap]
  apply flatMap_congr_mem
  intro p _
  obtain ⟨e, k⟩ := p
  cases e with
  | scaffold id => simp
  | bubble i => simp [List.map_map, Function.comp]

theorem loop6_eq {G : Type} (env : Env G) (bo : Int) (l : List String) (acc : List (String × Int × Int)) :
    (pyEnumerate l).foldl (daoLoop6 env bo) acc =
      (l.zipIdx.map (fun q => (q.1, (bo, ((q.2 : Nat) : Int) + 1)))).foldl (fun d x => dictSet d x.1 x.2) acc := by
  unfold pyEnumerate
  rw [List.foldl_map, List.foldl_map]
  rfl

theorem mem_bubble_lt {aps : List V} {s : Scaffold} (hI : Inv aps s) {i : Nat} (h : Elt.bubble i ∈ s.elts) : i < s.bubbles.length := by
  rw [hI.elts, List.mem_append] at h
  rcases h with h | h
  · obtain ⟨a, _, e⟩ := List.mem_map.mp h; cases e
  · obtain ⟨j, hj, e⟩ := List.mem_map.mp h
    injection e with e
    rw [List.mem_range] at hj
    omega

theorem mem_scaffold_aps {aps : List V} {s : Scaffold} (hI : Inv aps s) {a : V} (h : Elt.scaffold a ∈ s.elts) : a ∈ aps := by
  rw [hI.elts, List.mem_append] at h
  rcases h with h | h
  · obtain ⟨b, hb, e⟩ := List.mem_map.mp h
    injection e with e
    exact e ▸ hb
  · obtain ⟨j, _, e⟩ := List.mem_map.mp h; cases e

theorem types_get {aps : List V} {s : Scaffold} (hg : Good aps s) (e : Elt) (he : e ∈ s.elts) :
    dictGet (typesOf s.elts) e.name = some (kind e) := by
  unfold typesOf
  exact dictGet_map s.elts Elt.name kind hg.names e he

theorem ids_get (n i : Nat) (hi : i < n) : dictGet (idsOf n) (Elt.name (.bubble i)) = some i := by
  unfold idsOf
  apply dictGet_map (List.range n) (fun i => Elt.name (.bubble i)) (fun i => i)
  · apply nodup_map_of_inj _ _ List.nodup_range
    intro a _ b _ e
    exact Gaftools.C06.bubble_name_inj e
  · exact List.mem_range.mpr hi

/-- one round of `for node in traversal` -/
theorem loop5_step {G : Type} (env : Env G) {aps : List V} {s : Scaffold} (hg : Good aps s) (e : Elt) (he : e ∈ s.elts)
    (acc : List (String × Int × Int)) (bo : Int) :
    daoLoop5 env (typesOf s.elts) s.bubbles (idsOf s.bubbles.length) (acc, bo) e.name =
      .ok ((match e with
            | .scaffold id => [(id, (bo, (0 : Int)))]
            | .bubble i => (sortStrings (s.bubbles.getD i [])).zipIdx.map (fun (q : String × Nat) => (q.1, (bo, ((q.2 : Nat) : Int) + 1)))).foldl
              (fun (d : List (String × Int × Int)) (x : String × Int × Int) => dictSet d x.1 x.2) acc, bo + 1) := by
  unfold daoLoop5
  simp only [types_get hg e he]
  cases e with
  | scaffold id =>
    have : (kind (.scaffold id) == "s") = true := by show ("s" == "s") = true; decide
    simp only [this, if_true]
    rfl
  | bubble i =>
    have h1 : (kind (.bubble i) == "s") = false := by show ("b" == "s") = false; decide
    have h2 : (kind (.bubble i) == "b") = true := by show ("b" == "b") = true; decide
    have hi := mem_bubble_lt hg.inv he
    have h3 : s.bubbles[i]? = some (s.bubbles.getD i []) := by
      rw [List.getD_eq_getElem?_getD, List.getElem?_eq_getElem hi]; rfl
    simp only [h1, h2, if_true, Bool.false_eq_true, if_false, ids_get _ _ hi, h3, loop6_eq]

theorem loop5_go {G : Type} (env : Env G) {aps : List V} {s : Scaffold} (hg : Good aps s) (bo0 : Int) :
    ∀ (tr : List Elt) (k : Nat) (acc : List (String × Int × Int)), (∀ e ∈ tr, e ∈ s.elts) →
      (tr.map Elt.name).foldlM (daoLoop5 env (typesOf s.elts) s.bubbles (idsOf s.bubbles.length)) (acc, bo0 + (k : Int)) =
        .ok ((entries s.bubbles bo0 tr k).foldl (fun d x => dictSet d x.1 x.2) acc, bo0 + (k : Int) + (tr.length : Int))
  | [], k, acc, _ => by simp [entries]; rfl
  | e :: r, k, acc, h => by
    rw [List.map_cons, List.foldlM_cons, loop5_step env hg e (h e (by simp))]
    simp only [bind, Except.bind]
    have hk : bo0 + (k : Int) + 1 = bo0 + ((k + 1 : Nat) : Int) := by omega
    rw [hk, loop5_go env hg bo0 r (k + 1) _ (fun x hx => h x (List.mem_cons_of_mem _ hx))]
    unfold entries
    rw [List.zipIdx_cons, List.flatMap_cons, List.foldl_append]
    simp only [List.length_cons]
    congr 2
    omega

/-- the function from `node_order = dict()` on -/
theorem part3_eq {G : Type} (env : Env G) {aps : List V} {s : Scaffold} (hg : Good aps s) (bo : Int) (aps' inside : List V)
    (tr : List Elt) (htr : ∀ e ∈ tr, e ∈ s.elts) :
    daoPart3 env bo (tr.map Elt.name) (typesOf s.elts) s.bubbles (idsOf s.bubbles.length) aps' inside =
      .error (.ret (some ⟨aps', inside, dictOfList (entries s.bubbles bo tr 0), bo + (tr.length : Int), (s.bubbles.length : Int)⟩)) := by
  unfold daoPart3
  have := loop5_go env hg bo tr 0 [] htr
  simp only [Int.natCast_zero, Int.add_zero] at this
  simp only [this]
  rfl

/-! ## from the degree lists to the result -/

/-- what `decompose_and_order(graph, component, name, bo)` returns, from the model's offset-free outcome (as in `TieA16`): the chain
    positions are shifted by `bo`, the next free BO is `bo` + the length of the chain; a skipped chromosome is the all-`None`
    tuple, a crash is an exception -/
def daoOf (o : Outcome) (bo : Int) : Except String (Option Dao) :=
  match o with
  | .ok l => .ok (some ⟨l.aps, l.inside, l.order.map (fun x => (x.1, bo + (x.2.1 : Int), (x.2.2 : Int))), bo + (l.len : Int), (l.nBubbles : Int)⟩)
  | .skipped _ => .ok none
  | .crash w => .error w

/-- the order the translation fixes where the model fixes another one or none: the set of articulation points is handed out
    sorted (the model hands out what `biccs` reported and sorts it only for its own use), the set of inner nodes without
    repetition, `node_order` as the dict its assignments describe (all three are the identity on what a graph gives, see
    `canon_id`) -/
def canon (d : Dao) : Dao :=
  { d with scaffold_nodes := sortStrings d.scaffold_nodes, inside_nodes := d.inside_nodes.eraseDups, node_order := dictOfList d.node_order }

/-- the model's outcome as the way the translated body is left -/
def exitOf (o : Outcome) (bo : Int) : Except Exit Unit :=
  match daoOf o bo with
  | .ok v => .error (.ret (v.map canon))
  | .error _ => .error (.raise "")

/-- the class of the exception is not compared (the model has one `crash` for KeyError and ValueError) -/
def forgetX : Except Exit Unit → Except Exit Unit
  | .error (.raise _) => .error (.raise "")
  | x => x

/-- `[x for x in traversal if scaffold_node_types[x] == "s"]` -/
theorem scafOnly_eq {aps : List V} {s : Scaffold} (hg : Good aps s) (p : String → Except Exit Bool)
    (hp : ∀ x t, dictGet (typesOf s.elts) x = some t → p x = .ok (t == "s")) :
    ∀ (T : List Elt), (∀ e ∈ T, e ∈ s.elts) → filterE p (T.map Elt.name) = .ok (T.filterMap idOf)
  | [], _ => rfl
  | e :: r, h => by
    rw [List.map_cons]
    unfold filterE
    rw [hp e.name (kind e) (types_get hg e (h e (by simp))), scafOnly_eq hg p hp r (fun x hx => h x (List.mem_cons_of_mem _ hx))]
    cases e with
    | scaffold id =>
      have : (kind (.scaffold id) == "s") = true := by show ("s" == "s") = true; decide
      have hi : idOf (.scaffold id) = some id := rfl
      simp [this, List.filterMap_cons, hi, Elt.name]
    | bubble i =>
      have : (kind (.bubble i) == "s") = false := by show ("b" == "s") = false; decide
      have hi : idOf (.bubble i) = none := rfl
      simp [this, List.filterMap_cons, hi]

theorem idOf_sub {aps : List V} {s : Scaffold} (hI : Inv aps s) (T : List Elt) (hT : ∀ e ∈ T, e ∈ s.elts) :
    ∀ v ∈ T.filterMap idOf, v ∈ aps := by
  intro v hv
  obtain ⟨e, he, hev⟩ := List.mem_filterMap.mp hv
  cases e with
  | scaffold id =>
    simp only [idOf, Option.some.injEq] at hev
    subst hev
    exact mem_scaffold_aps hI (hT _ he)
  | bubble i => cases hev

/-- `new_graph[n].tags["SN"] for n in …` -/
theorem snMap_ok {G : Type} (env : Env G) (g : G) (aps : List V) (sn : V → Option String) (snTy : String)
    (hsn : ∀ v ∈ aps, env.tag g v "SN" = (sn v).map (fun x => (snTy, x))) (hSN : ∀ v ∈ aps, (sn v).isSome)
    (f : V → Except Exit (String × String)) (hf : ∀ v t, env.tag g v "SN" = some t → f v = .ok t)
    (l : List V) (hl : ∀ v ∈ l, v ∈ aps) :
    mapE f l = .ok (l.map (fun v => (snTy, (sn v).getD ""))) := by
  apply mapE_ok
  intro v hv
  apply hf
  rw [hsn v (hl v hv)]
  have := hSN v (hl v hv)
  cases h : sn v with
  | none => rw [h] at this; cases this
  | some x => rfl

/-- `len(set(…))`: as many values as the model counts -/
theorem snLen_eq (aps : List V) (sn : V → Option String) (snTy : String) (hSN : ∀ v ∈ aps, (sn v).isSome)
    (l : List V) (hl : ∀ v ∈ l, v ∈ aps) :
    (setOf (l.map (fun v => (snTy, (sn v).getD "")))).length = ((l.map sn).eraseDups).length := by
  unfold setOf
  have e1 : l.map (fun v => (snTy, (sn v).getD "")) = (l.map (fun v => (sn v).getD "")).map (fun x => (snTy, x)) := by
    rw [List.map_map]; rfl
  have e2 : l.map sn = (l.map (fun v => (sn v).getD "")).map some := by
    rw [List.map_map]
    apply List.map_congr_left
    intro v hv
    have := hSN v (hl v hv)
    cases h : sn v with
    | none => rw [h] at this; cases this
    | some x => simp [h]
  rw [e1, e2, Gaftools.Proofs.OrderRun.eraseDups_map_inj (fun x : String => (snTy, x)) (fun a b h => by injection h) _ _ (Nat.le_refl _),
    Gaftools.Proofs.OrderRun.eraseDups_map_inj (some : String → Option String) (fun a b h => by injection h) _ _ (Nat.le_refl _),
    List.length_map, List.length_map]

/-- the class of an exception -/
def excOf {α : Type} : Except Exit α → String
  | .error (.raise c) => c
  | _ => ""

/-- `list(int(new_graph[n].tags["SO"][1]) for n in …)` -/
theorem soMap_eq {G : Type} (env : Env G) (g : G) (aps : List V) (so : V → Option Int)
    (hso : ∀ v ∈ aps, so v = (env.tag g v "SO").bind (fun t => env.pyInt t.2))
    (f : V → Except Exit Int)
    (hf1 : ∀ v, env.tag g v "SO" = none → ∃ c, f v = .error (.raise c))
    (hf2 : ∀ v t, env.tag g v "SO" = some t → env.pyInt t.2 = none → ∃ c, f v = .error (.raise c))
    (hf3 : ∀ v t c, env.tag g v "SO" = some t → env.pyInt t.2 = some c → f v = .ok c) :
    ∀ (l : List V), (∀ v ∈ l, v ∈ aps) →
      mapE f l = (match l.mapM so with
        | some cs => .ok cs
        | none => .error (.raise (excOf (mapE f l))))
  | [], _ => rfl
  | v :: r, hl => by
    have ih := soMap_eq env g aps so hso f hf1 hf2 hf3 r (fun x hx => hl x (List.mem_cons_of_mem _ hx))
    have hv := hso v (hl v (by simp))
    rw [List.mapM_cons]
    cases ht : env.tag g v "SO" with
    | none =>
      obtain ⟨c, hc⟩ := hf1 v ht
      have : so v = none := by rw [hv, ht]; rfl
      unfold mapE
      rw [hc, this]; rfl
    | some t =>
      cases hp : env.pyInt t.2 with
      | none =>
        obtain ⟨c, hc⟩ := hf2 v t ht hp
        have : so v = none := by rw [hv, ht]; exact hp
        unfold mapE
        rw [hc, this]; rfl
      | some c =>
        have hc := hf3 v t c ht hp
        have hsv : so v = some c := by rw [hv, ht]; exact hp
        have hcons : mapE f (v :: r) = (match mapE f r with
            | .error e => .error e
            | .ok ys => .ok (c :: ys)) := by
          rw [mapE, hc]
          cases mapE f r <;> rfl
        rw [hsv]
        cases hr : r.mapM so with
        | some cs =>
          rw [hr] at ih
          rw [hcons, ih]; rfl
        | none =>
          rw [hr] at ih
          have e3 : mapE f (v :: r) = .error (.raise (excOf (mapE f r))) := by
            rw [hcons, ih]; rfl
          rw [e3]; rfl

theorem part2_eq {G : Type} (env : Env G) (g : G) {aps : List V} {s : Scaffold} (hg : Good aps s) (bo : Int) (apsRaw : List V)
    (haps : aps = sortStrings apsRaw) (so : V → Option Int) (sn : V → Option String) (snTy : String)
    (hsn : ∀ v ∈ aps, env.tag g v "SN" = (sn v).map (fun x => (snTy, x)))
    (hSN : ∀ v ∈ aps, (sn v).isSome)
    (hso : ∀ v ∈ aps, so v = (env.tag g v "SO").bind (fun t => env.pyInt t.2)) :
    forgetX (daoPart2 env (graphOf s) (typesOf s.elts) g bo s.bubbles (idsOf s.bubbles.length) aps s.bubbles.flatten.eraseDups) =
      exitOf (finishScaffold s apsRaw so sn) bo := by
  subst haps
  unfold daoPart2
  simp only [degList_eq hg, graph_len, List.length_map]
  by_cases h1 : (s.elts.filter (fun e => (s.nbrs e).length == 1)).length = 2
  case neg =>
    have hm : finishScaffold s apsRaw so sn = .skipped .degreeOne := by
      unfold finishScaffold
      simp [h1]
    rw [hm]
    simp [h1, forgetX, exitOf, daoOf]
  have hlen : 2 ≤ s.elts.length := by
    have := List.length_filter_le (fun e => (s.nbrs e).length == 1) s.elts
    omega
  by_cases h2 : (s.elts.filter (fun e => (s.nbrs e).length == 2)).length = s.elts.length - 2
  case neg =>
    have hm : finishScaffold s apsRaw so sn = .skipped .degreeTwo := by
      unfold finishScaffold
      simp [h1, h2]
    rw [hm]
    have : ¬ (((s.elts.filter (fun e => (s.nbrs e).length == 2)).length : Int) = (s.elts.length : Int) - 2) := by omega
    simp [h1, this, forgetX, exitOf, daoOf]
  have h2' : (((s.elts.filter (fun e => (s.nbrs e).length == 2)).length : Int) = (s.elts.length : Int) - 2) := by omega
  obtain ⟨a, b, hab⟩ := length_eq_two _ h1
  rw [finish_eq_afterTrav s apsRaw so sn (scaffoldDfs s a) h1 h2 (by rw [hab]; rfl)]
  have hl2 : ([a, b].length == 2) = true := rfl
  simp only [h1, h2', hab, hl2, beq_self_eq_true, if_true, List.map_cons, List.getElem?_cons_zero, dfs_eq hg a]
  generalize hT : scaffoldDfs s a = T
  have hTsub : ∀ e ∈ T, e ∈ s.elts := hT ▸ scaffoldDfs_sub s a
  have hscaf := idOf_sub hg.inv T hTsub
  rw [scafOnly_eq hg _ (fun x t h => by simp only [h]) T hTsub]
  simp only []
  rw [snMap_ok env g _ sn snTy hsn hSN _ (fun v t h => by simp only [h]) (T.filterMap idOf) hscaf]
  simp only [snLen_eq _ sn snTy hSN (T.filterMap idOf) hscaf]
  unfold afterTrav
  by_cases hmix : (((T.filterMap idOf).map sn).eraseDups).length = 1
  case neg =>
    simp [hmix, forgetX, exitOf, daoOf]
  have hne : T.filterMap idOf ≠ [] := by
    intro h; rw [h] at hmix; simp at hmix
  simp only [hmix, bne_self_eq_false, Bool.false_eq_true, if_false]
  rw [soMap_eq env g _ so hso _ (fun v h => by simp only [h]; exact ⟨_, rfl⟩) (fun v t h h' => by simp only [h, h']; exact ⟨_, rfl⟩)
    (fun v t c h h' => by simp only [h, h']) (T.filterMap idOf) hscaf]
  cases hcs : (T.filterMap idOf).mapM so with
  | none => simp [forgetX, exitOf, daoOf]
  | some cs =>
    simp only []
    have hcl := mapM_length so _ cs hcs
    have hcne : cs ≠ [] := by
      intro h; rw [h] at hcl; exact hne (List.eq_nil_of_length_eq_zero hcl.symm)
    obtain ⟨c0, hc0⟩ : ∃ c0, cs[0]? = some c0 := by
      cases cs with
      | nil => exact absurd rfl hcne
      | cons x r => exact ⟨x, rfl⟩
    obtain ⟨c1, hc1⟩ : ∃ c1, cs.getLast? = some c1 := by
      cases h : cs.getLast? with
      | none => rw [List.getLast?_eq_none_iff] at h; exact absurd h hcne
      | some x => exact ⟨x, rfl⟩
    have hrev : revOf cs = decide (c0 > c1) := by
      unfold revOf
      rw [List.head?_eq_getElem?, hc0, hc1]
    simp only [hc0, hc1, hrev, loop4_eq]
    unfold afterCoords
    cases hr : decide (c0 > c1) with
    | true =>
      simp only [if_true]
      cases hall : (List.zip cs.reverse cs.reverse.tail).all (fun p => decide (p.1 < p.2)) with
      | true =>
        simp only [if_true, Bool.not_true, Bool.false_eq_true, if_false]
        rw [← List.map_reverse, part3_eq env hg bo (sortStrings apsRaw) _ T.reverse (fun e he => hTsub e (List.mem_reverse.mp he))]
        simp only [forgetX, exitOf, daoOf, canon, Option.map_some, entries_model, List.length_reverse]
      | false =>
        simp only [Bool.false_eq_true, if_false, Bool.not_false, if_true, forgetX, exitOf, daoOf, Option.map_none]
    | false =>
      simp only [Bool.false_eq_true, if_false]
      cases hall : (List.zip cs cs.tail).all (fun p => decide (p.1 < p.2)) with
      | true =>
        simp only [if_true, Bool.not_true, Bool.false_eq_true, if_false]
        rw [part3_eq env hg bo (sortStrings apsRaw) _ T hTsub]
        simp only [forgetX, exitOf, daoOf, canon, Option.map_some, entries_model]
      | false =>
        simp only [Bool.false_eq_true, if_false, Bool.not_false, if_true, forgetX, exitOf, daoOf, Option.map_none]

/-! ## the whole function -/

theorem names_nodup {aps : List V} {s : Scaffold} (hI : Inv aps s) (haps : aps.Nodup) (hf : FreshNames aps) :
    (s.elts.map Elt.name).Nodup := by
  rw [hI.elts, List.map_append, List.nodup_append]
  refine ⟨?_, ?_, ?_⟩
  · rw [List.map_map]
    have : (Elt.name ∘ Elt.scaffold) = id := by funext a; rfl
    rw [this, List.map_id]; exact haps
  · rw [List.map_map]
    apply nodup_map_of_inj _ _ List.nodup_range
    intro a _ b _ e
    exact Gaftools.C06.bubble_name_inj e
  · intro n1 h1 n2 h2 e
    rw [List.map_map, List.mem_map] at h1 h2
    obtain ⟨a, ha, rfl⟩ := h1
    obtain ⟨i, _, rfl⟩ := h2
    exact hf a ha i e

/-- no two edges of the scaffold graph join the same two elements in opposite directions (and none is a loop): what makes the
    number of entries of the two adjacency sets of a GFA node the number of its neighbours -/
def NoAnti (s : Scaffold) : Prop := ∀ p ∈ s.edges, (p.2, p.1) ∉ s.edges

theorem decompose_ne (nb : V → List V) (comp : List V) (so : V → Option Int) (sn : V → Option String) (hlen : comp.length ≠ 1) :
    decompose nb comp so sn =
      (match buildScaffold (Gaftools.C06.rep nb comp).1 (sortStrings (Gaftools.C06.rep nb comp).2) with
       | .error e => .skipped e
       | .ok s => finishScaffold s (Gaftools.C06.rep nb comp).2 so sn) := by
  match comp, hlen with
  | [], _ => rfl
  | _ :: _ :: _, _ => rfl

/-- the translated body against the model's stages, for a component that is not a single node -/
theorem body_eq {G : Type} (env : Env G) (g : G) (comp : List V) (name : String) (bo : Int)
    (blocks : List (List V)) (apsRaw : List V)
    (hb : env.biccs (env.graphFromComp g comp) = (blocks, sortStrings apsRaw))
    (hlen : comp.length ≠ 1) (haps : apsRaw.Nodup) (hfresh : FreshNames apsRaw)
    (hanti : ∀ s, buildScaffold blocks (sortStrings apsRaw) = .ok s → NoAnti s)
    (so : V → Option Int) (sn : V → Option String) (snTy : String)
    (hsn : ∀ v ∈ apsRaw, env.tag (env.graphFromComp g comp) v "SN" = (sn v).map (fun x => (snTy, x)))
    (hSN : ∀ v ∈ apsRaw, (sn v).isSome)
    (hso : ∀ v ∈ apsRaw, so v = (env.tag (env.graphFromComp g comp) v "SO").bind (fun t => env.pyInt t.2)) :
    forgetX (daoBody env g comp name bo) =
      exitOf (match buildScaffold blocks (sortStrings apsRaw) with
              | .error e => .skipped e
              | .ok s => finishScaffold s apsRaw so sn) bo := by
  have hperm := Gaftools.Proofs.Bicc2.sortStrings_perm apsRaw
  have hmem : ∀ v, v ∈ sortStrings apsRaw ↔ v ∈ apsRaw := fun v => hperm.mem_iff
  have haps' : (sortStrings apsRaw).Nodup := hperm.nodup_iff.mpr haps
  have hfresh' : FreshNames (sortStrings apsRaw) := fun a ha => hfresh a ((hmem a).mp ha)
  unfold daoBody
  have hl : (comp.length == (1 : Nat)) = false := by simpa using hlen
  simp only [hl, Bool.false_eq_true, if_false, hb, loop1_eq env _ haps']
  unfold daoPart1
  simp only []
  have h0 : (([] : List String), mkGraph (sortStrings apsRaw) [], ([] : List (List String)), ([] : List (String × Nat)),
      typesOf ((sortStrings apsRaw).map Elt.scaffold)) = stateOf ⟨(sortStrings apsRaw).map Elt.scaffold, [], []⟩ := by
    unfold stateOf graphOf sEdges idsOf
    simp only [List.map_map, List.length_nil, List.range_zero, List.map_nil, List.flatten_nil, List.eraseDups_nil]
    have : (Elt.name ∘ Elt.scaffold) = id := by funext a; rfl
    rw [this, List.map_id]
  rw [h0, loop2_go env _ hfresh' blocks _ (inv_init _), ← buildScaffold_eq]
  cases hbs : buildScaffold blocks (sortStrings apsRaw) with
  | error e => simp [forgetX, exitOf, daoOf]
  | ok s =>
    simp only [stateOf]
    have hI : Inv (sortStrings apsRaw) s := foldlM_step_inv _ blocks _ s (inv_init _) (by rw [← buildScaffold_eq]; exact hbs)
    have hg : Good (sortStrings apsRaw) s := ⟨hI, names_nodup hI haps' hfresh', hanti s hbs⟩
    exact part2_eq env _ hg bo apsRaw rfl so sn snTy (fun v hv => hsn v ((hmem v).mp hv)) (fun v hv => hSN v ((hmem v).mp hv))
      (fun v hv => hso v ((hmem v).mp hv))

/-- the class of the exception is not compared -/
def forgetS {α : Type} : Except String α → Except String α
  | .error _ => .error ""
  | x => x

theorem wrap_eq {G : Type} (env : Env G) (g : G) (comp : List V) (name : String) (bo : Int) (o : Outcome)
    (h : forgetX (daoBody env g comp name bo) = exitOf o bo) :
    forgetS (decomposeAndOrder env g comp name bo) = forgetS ((daoOf o bo).map (Option.map canon)) := by
  unfold decomposeAndOrder
  unfold exitOf at h
  cases hd : daoOf o bo with
  | error w =>
    rw [hd] at h
    cases hx : daoBody env g comp name bo with
    | ok u => rw [hx] at h; cases h
    | error x =>
      rw [hx] at h
      cases x with
      | ret v => cases h
      | raise c => rfl
  | ok v =>
    rw [hd] at h
    cases hx : daoBody env g comp name bo with
    | ok u => rw [hx] at h; cases h
    | error x =>
      rw [hx] at h
      cases x with
      | ret v' =>
        simp only [forgetX] at h
        injection h with h
        injection h with h
        subst h
        rfl
      | raise c => cases h

/-- MAIN. `decompose_and_order` as translated from the source — the single-node case, the scaffold graph built from the blocks
    and articulation points, the two degree lists and the census, the traversal from `degree_one[0]`, the SN test, the
    orientation and monotonicity tests, the numbering loop — returns what the model's `decompose` prescribes (shifted by `bo`
    as `runOrder` does, in the order `canon` fixes), returns the all-`None` tuple exactly when `decompose` says `skipped`, and
    raises exactly when `decompose` says `crash`.

    `env.biccs` is instantiated by what `decompose` calls (`biccsFrom` from the least node, tied to `GFA.biccs` in `TieA9`) with
    the articulation points enumerated in sorted order — the order in which the model feeds them to `buildScaffold`.
    Hypotheses: the articulation points are a set (`haps`: a Python set has no repetition) of ids that are not bubble names
    (`hfresh`: they come from tab-separated lines); no two blocks without inner nodes join the same two articulation points in
    opposite list order (`hanti`: for Python sets there is no such order; see `noAnti_of_graph` for graphs); `sn` / `so` are
    the SN value and the SO number of the tags dict (`hsn`, `hso`), and every articulation point has an SN tag (`hSN`:
    otherwise the Python raises KeyError where the model skips — `finding_missing_SN`). -/
theorem decomposeAndOrder_gen {G : Type} (env : Env G) (g : G) (nb : V → List V) (comp : List V) (name : String) (bo : Int)
    (hb : env.biccs (env.graphFromComp g comp) = ((Gaftools.C06.rep nb comp).1, sortStrings (Gaftools.C06.rep nb comp).2))
    (haps : (Gaftools.C06.rep nb comp).2.Nodup) (hfresh : FreshNames (Gaftools.C06.rep nb comp).2)
    (hanti : ∀ s, buildScaffold (Gaftools.C06.rep nb comp).1 (sortStrings (Gaftools.C06.rep nb comp).2) = .ok s → NoAnti s)
    (so : V → Option Int) (sn : V → Option String) (snTy : String)
    (hsn : ∀ v ∈ (Gaftools.C06.rep nb comp).2, env.tag (env.graphFromComp g comp) v "SN" = (sn v).map (fun x => (snTy, x)))
    (hSN : ∀ v ∈ (Gaftools.C06.rep nb comp).2, (sn v).isSome)
    (hso : ∀ v ∈ (Gaftools.C06.rep nb comp).2, so v = (env.tag (env.graphFromComp g comp) v "SO").bind (fun t => env.pyInt t.2)) :
    forgetS (decomposeAndOrder env g comp name bo) = forgetS ((daoOf (decompose nb comp so sn) bo).map (Option.map canon)) := by
  apply wrap_eq
  by_cases hlen : comp.length = 1
  · match comp, hlen with
    | [v], _ =>
      unfold daoBody
      simp [forgetX, exitOf, daoOf, decompose, canon, dictOfList, dictSet, sortStrings, insertSorted]
  · rw [decompose_ne nb comp so sn hlen]
    exact body_eq env g comp name bo _ _ hb hlen haps hfresh hanti so sn snTy hsn hSN hso

/-! ## the hypotheses about `biccs`, discharged for a graph -/

/-- where an edge of the scaffold graph comes from -/
def EdgeFrom (bl : List (List V)) (aps : List V) (p : Elt × Elt) : Prop :=
  (∃ i a, p = (Elt.bubble i, Elt.scaffold a)) ∨
  (∃ C ∈ bl, ∃ a b, p = (Elt.scaffold a, Elt.scaffold b) ∧ (part aps C).2 = [a, b])

theorem edges_from (bl : List (List V)) (aps : List V) : ∀ (rest : List (List V)) (s0 s : Scaffold), (∀ bc ∈ rest, bc ∈ bl) →
    (∀ p ∈ s0.edges, EdgeFrom bl aps p) → rest.foldlM (step aps) s0 = .ok s → ∀ p ∈ s.edges, EdgeFrom bl aps p
  | [], s0, s, _, h0, h => by
    rw [List.foldlM_nil] at h
    injection h with h
    exact h ▸ h0
  | bc :: r, s0, s, hr, h0, h => by
    rw [List.foldlM_cons] at h
    cases hs : step aps s0 bc with
    | error e => rw [hs] at h; cases h
    | ok s1 =>
      rw [hs] at h
      refine edges_from bl aps r s1 s (fun x hx => hr x (List.mem_cons_of_mem _ hx)) ?_ h
      cases hemp : (part aps bc).1.isEmpty with
      | true =>
        unfold step at hs
        rw [if_pos hemp] at hs
        split at hs
        · rename_i a b hab
          injection hs with hs
          subst hs
          intro p hp
          rcases List.mem_append.mp hp with hp | hp
          · exact h0 p hp
          · simp only [List.mem_singleton] at hp
            exact Or.inr ⟨bc, hr bc (by simp), a, b, hp, hab⟩
        · cases hs
      | false =>
        rw [step_bubble aps s0 bc hemp] at hs
        injection hs with hs
        subst hs
        intro p hp
        rcases List.mem_append.mp hp with hp | hp
        · exact h0 p hp
        · obtain ⟨e, _, rfl⟩ := List.mem_map.mp hp
          exact Or.inl ⟨_, _, rfl⟩

/-- blocks that are duplicate-free and pairwise share at most one node give a scaffold graph without opposite edges -/
theorem noAnti_of_shareOne (bl : List (List V)) (aps : List V) (hnd : ∀ C ∈ bl, C.Nodup)
    (hshare : ∀ i j (hi : i < bl.length) (hj : j < bl.length), i ≠ j → ∀ x y, x ∈ bl[i] → x ∈ bl[j] → y ∈ bl[i] → y ∈ bl[j] → x = y)
    (s : Scaffold) (hs : buildScaffold bl aps = .ok s) : NoAnti s := by
  have hfrom := edges_from bl aps bl ⟨aps.map Elt.scaffold, [], []⟩ s (fun _ h => h) (by simp) (by rw [← buildScaffold_eq]; exact hs)
  intro p hp hq
  rcases hfrom p hp with ⟨i, a, rfl⟩ | ⟨C, hC, a, b, rfl, hab⟩
  · rcases hfrom _ hq with ⟨j, c, e⟩ | ⟨C', _, c, d, e, _⟩
    · cases e
    · cases e
  · rcases hfrom _ hq with ⟨j, c, e⟩ | ⟨C', hC', c, d, e, hcd⟩
    · cases e
    · simp only [Prod.mk.injEq, Elt.scaffold.injEq] at e
      obtain ⟨e1, e2⟩ := e
      rw [← e1, ← e2] at hcd
      have hsub : ∀ {D : List V} {x y : V}, (part aps D).2 = [x, y] → x ∈ D ∧ y ∈ D := by
        intro D x y h
        have hx : x ∈ (part aps D).2 := by rw [h]; simp
        have hy : y ∈ (part aps D).2 := by rw [h]; simp
        unfold part at hx hy
        simp only [List.mem_filter] at hx hy
        exact ⟨hx.1, hy.1⟩
      have hne : a ≠ b := by
        have : ((part aps C).2).Nodup := by
          unfold part
          exact (hnd C hC).sublist List.filter_sublist
        rw [hab] at this
        simpa using this
      obtain ⟨i, hi, rfl⟩ := List.getElem_of_mem hC
      obtain ⟨j, hj, rfl⟩ := List.getElem_of_mem hC'
      by_cases hij : i = j
      · subst hij
        rw [hab] at hcd
        simp only [List.cons.injEq, and_true] at hcd
        exact hne hcd.1
      · exact hne (hshare i j hi hj hij a b (hsub hab).1 (hsub hcd).2 (hsub hab).2 (hsub hcd).1)

theorem single_eq {G : Type} (env : Env G) (g : G) (nb : V → List V) (v : V) (name : String) (bo : Int)
    (so : V → Option Int) (sn : V → Option String) :
    forgetX (daoBody env g [v] name bo) = exitOf (decompose nb [v] so sn) bo := by
  unfold daoBody
  simp [forgetX, exitOf, daoOf, decompose, canon, dictOfList, dictSet, sortStrings, insertSorted]

/-- MAIN for a graph: for a connected component of an undirected graph with duplicate-free, tab-free node ids — what
    `run_order_gfa` hands to `decompose_and_order` (`TieA16.comp_facts`) — the hypotheses of `decomposeAndOrder_gen` about what
    `biccs` reports hold: the articulation points are distinct nodes of the component (`blockCut_biccs`), and two reported blocks
    share at most one node (`biccs_comps_share_one`, C15), so no two of them join the same two articulation points. -/
theorem decomposeAndOrder_graph {G : Type} (env : Env G) (g : G) (nb : V → List V) (comp : List V) (name : String) (bo : Int)
    (hu : Gaftools.Spec.Graph.Undirected nb comp) (hd : comp.Nodup) (hc : Gaftools.Spec.Graph.connectedB nb comp = true)
    (hne : comp ≠ []) (htab : ∀ v ∈ comp, '\t' ∉ v.toList)
    (hb : env.biccs (env.graphFromComp g comp) = ((Gaftools.C06.rep nb comp).1, sortStrings (Gaftools.C06.rep nb comp).2))
    (so : V → Option Int) (sn : V → Option String) (snTy : String)
    (hsn : ∀ v ∈ comp, env.tag (env.graphFromComp g comp) v "SN" = (sn v).map (fun x => (snTy, x)))
    (hSN : ∀ v ∈ (Gaftools.C06.rep nb comp).2, (sn v).isSome)
    (hso : ∀ v ∈ comp, so v = (env.tag (env.graphFromComp g comp) v "SO").bind (fun t => env.pyInt t.2)) :
    forgetS (decomposeAndOrder env g comp name bo) = forgetS ((daoOf (decompose nb comp so sn) bo).map (Option.map canon)) := by
  have hbc := Gaftools.Proofs.Chain.blockCut_biccs nb comp hu hd hc _ (Gaftools.Proofs.Chain.root_mem comp hne)
  have hshare := Gaftools.C15.biccs_comps_share_one nb comp hu hd _ (Gaftools.Proofs.Chain.root_mem comp hne) hc
  apply decomposeAndOrder_gen env g nb comp name bo hb hbc.apNodup
    (freshNames_of_tab _ (fun a ha => htab a (hbc.apSub a ha)))
    (fun s hs => noAnti_of_shareOne _ _ hbc.blNodup hshare s hs) so sn snTy
    (fun v hv => hsn v (hbc.apSub v hv)) hSN (fun v hv => hso v (hbc.apSub v hv))

/-! ## the link to `TieA16`: the `dao` slot of the chromosome loop -/

/-- the five values as the translation of `run_order_gfa`'s loop (`Gen/OrderRun.lean`) holds them -/
def toOrderRun (d : Dao) : Gaftools.Gen.OrderRun.Dao := ⟨d.scaffold_nodes, d.inside_nodes, d.node_order, d.next_bo, d.bubble_count⟩

/-- `daoOf` is the `daoOf` of `TieA16`, with which `TieA16.envOf` fills the `decompose_and_order` slot of the translated
    chromosome loop: by `decomposeAndOrder_gen` that slot holds, up to `canon` and the class of an exception, what the translated
    `decompose_and_order` computes -/
theorem daoOf_orderRun (o : Outcome) (bo : Int) :
    (daoOf o bo).map (Option.map toOrderRun) = Gaftools.TieA.OrderRun.daoOf o bo := by
  cases o <;> rfl

/-! ## `canon` changes nothing but the order of the articulation points where keys / inner nodes do not repeat -/

theorem dictOfList_go {ν : Type} : ∀ (l acc : List (String × ν)), ((acc ++ l).map (·.1)).Nodup →
    l.foldl (fun d x => dictSet d x.1 x.2) acc = acc ++ l
  | [], acc, _ => by simp
  | x :: r, acc, h => by
    rw [List.foldl_cons]
    have hx : acc.any (fun e => e.1 == x.1) = false := by
      rw [List.any_eq_false]
      intro e he hk
      have hk' : e.1 = x.1 := by simpa using hk
      rw [List.map_append, List.nodup_append] at h
      exact h.2.2 e.1 (List.mem_map.mpr ⟨e, he, rfl⟩) x.1 (by simp) hk'
    rw [dictSet_fresh acc x.1 x.2 hx, dictOfList_go r (acc ++ [(x.1, x.2)]) (by simpa using h)]
    simp

/-- assignments to distinct keys: the dict is the list of the assignments (so `canon` leaves `node_order` as it is whenever no
    node is numbered twice — `GoodOrder.nodup` for a graph) -/
theorem dictOfList_of_nodup {ν : Type} (l : List (String × ν)) (h : (l.map (·.1)).Nodup) : dictOfList l = l := by
  unfold dictOfList
  simpa using dictOfList_go l [] (by simpa using h)

theorem canon_of_nodup (d : Dao) (h1 : d.inside_nodes.Nodup) (h2 : (d.node_order.map (·.1)).Nodup) :
    canon d = { d with scaffold_nodes := sortStrings d.scaffold_nodes } := by
  unfold canon
  rw [Gaftools.Proofs.Chain.eraseDups_of_nodup _ h1, dictOfList_of_nodup _ h2]

/-! ## FINDING: an articulation point without an SN tag -/

theorem mapE_keyError {α β : Type} (f : α → Except Exit β) (hf : ∀ x, (∃ y, f x = .ok y) ∨ f x = .error (.raise "KeyError")) :
    ∀ (l : List α) (x : α), x ∈ l → f x = .error (.raise "KeyError") → mapE f l = .error (.raise "KeyError")
  | [], x, hx, _ => by cases hx
  | a :: r, x, hx, he => by
    rw [mapE]
    rcases hf a with ⟨y, hy⟩ | ha
    · rw [hy]
      have hxr : x ∈ r := by
        rcases List.mem_cons.mp hx with rfl | h
        · rw [hy] at he; cases he
        · exact h
      simp only [mapE_keyError f hf r x hxr he]
    · rw [ha]

/-- FINDING (model ≠ source). Past the census, when the traversal holds a scaffold node `v` whose tags dict has no `SN` and
    another one `w` that has one: `new_graph[v].tags["SN"]` raises `KeyError` — `decompose_and_order` aborts, and with it the
    whole `order_gfa` run — whereas the model reads a missing tag as one more value and reports the chromosome as skipped
    (`mixedSN`), after which `runOrder` goes on with the next chromosome.  Witness: the path x – a – b – y with the bare line
    `S a CC` (real code: `KeyError: 'SN'`; `decompose` on it: `skipped mixedSN`). -/
theorem finding_missing_SN {G : Type} (env : Env G) (g : G) {aps : List V} {s : Scaffold} (hg : Good aps s) (bo : Int) (apsRaw : List V)
    (so : V → Option Int) (sn : V → Option String) (inside : List V)
    (h1 : (s.elts.filter (fun e => (s.nbrs e).length == 1)).length = 2)
    (h2 : (s.elts.filter (fun e => (s.nbrs e).length == 2)).length = s.elts.length - 2)
    (v w : V)
    (hv : v ∈ (scaffoldDfs s ((s.elts.filter (fun e => (s.nbrs e).length == 1)).headD (Elt.bubble 0))).filterMap idOf)
    (hw : w ∈ (scaffoldDfs s ((s.elts.filter (fun e => (s.nbrs e).length == 1)).headD (Elt.bubble 0))).filterMap idOf)
    (hmiss : env.tag g v "SN" = none) (hsv : sn v = none) (hsw : (sn w).isSome) :
    daoPart2 env (graphOf s) (typesOf s.elts) g bo s.bubbles (idsOf s.bubbles.length) aps inside = .error (.raise "KeyError") ∧
      finishScaffold s apsRaw so sn = .skipped .mixedSN := by
  have hlen : 2 ≤ s.elts.length := by
    have := List.length_filter_le (fun e => (s.nbrs e).length == 1) s.elts
    omega
  have h2' : (((s.elts.filter (fun e => (s.nbrs e).length == 2)).length : Int) = (s.elts.length : Int) - 2) := by omega
  obtain ⟨a, b, hab⟩ := length_eq_two _ h1
  rw [hab] at hv hw
  simp only [List.headD_cons] at hv hw
  constructor
  · unfold daoPart2
    simp only [degList_eq hg, graph_len, List.length_map]
    have hl2 : ([a, b].length == 2) = true := rfl
    simp only [h1, h2', hab, hl2, beq_self_eq_true, if_true, List.map_cons, List.getElem?_cons_zero, dfs_eq hg a]
    rw [scafOnly_eq hg _ (fun x t h => by simp only [h]) _ (scaffoldDfs_sub s a)]
    simp only []
    rw [mapE_keyError _ (fun x => by cases h : env.tag g x "SN" <;> simp [h]) _ v hv (by simp only [hmiss])]
  · rw [finish_eq_afterTrav s apsRaw so sn (scaffoldDfs s a) h1 h2 (by rw [hab]; rfl)]
    unfold afterTrav
    have : ((((scaffoldDfs s a).filterMap idOf).map sn).eraseDups).length ≠ 1 := by
      intro h
      obtain ⟨x, _, hx⟩ := (eraseDups_length_one _).mp h
      have e1 := hx (sn v) (List.mem_map.mpr ⟨v, hv, rfl⟩)
      have e2 := hx (sn w) (List.mem_map.mpr ⟨w, hw, rfl⟩)
      rw [hsv] at e1
      rw [← e1] at e2
      rw [e2] at hsw
      cases hsw
    simp [this]

end Gaftools.TieA.Decompose
