import Gaftools.Spec.Walk
import Gaftools.Proofs.GfaLemmas
/-!
# C14 — path sequences are spelled correctly and only for real walks
-/
namespace Gaftools.C14
open Gaftools.Gfa Gaftools.Spec.Walk Gaftools.Proofs.Gfa

/-- segment ids are unique (the quantifier's "every GFA"; a repeated id is ignored by the reader with a warning) -/
def UniqueIds (t : GfaFile) : Prop := (t.segs.map (·.id)).Nodup

/-- the `cases` table in closed form -/
theorem pathCase_eq (o1 o2 : Bool) : pathCase o1 o2 = (o1, !o2) := by
  cases o1 <;> cases o2 <;> rfl

/-- the heart: the side-indexed adjacency built by `add_edge` answers the 4-row `path_exists` table exactly when the step
    is a declared link or the mirror image of one — all 16 orientation cases, self-links and both-end declarations included -/
theorem stepOk_iff (t : GfaFile) (hu : UniqueIds t) (lm : Bool) (s1 s2 : Step) :
    stepOk (readGraph t lm) s1 s2 = true ↔ Joined t s1 s2 := by
  have _ := hu   -- not needed: the reader ignores repeated ids, so the node ids are duplicate-free anyway
  obtain ⟨o1, n1⟩ := s1
  obtain ⟨o2, n2⟩ := s2
  unfold stepOk Joined joinedB
  rw [pathCase_eq, List.any_eq_true, List.any_eq_true]
  simp only [mem_adj_readGraph, Contrib]
  constructor
  · rintro ⟨⟨m, sm, ov⟩, ⟨l, hl, ha, hb, hc⟩, hx⟩
    have ha' : hasSeg t l.a = true := ha
    have hb' : hasSeg t l.b = true := hb
    refine ⟨l, hl, ?_⟩
    rw [ha', hb']
    simp only [Bool.and_eq_true, beq_iff_eq] at hx
    obtain ⟨rfl, rfl⟩ := hx
    rcases hc with ⟨rfl, rfl, h⟩ | ⟨rfl, h2, h⟩
    · simp only [Prod.mk.injEq] at h
      obtain ⟨rfl, h, _⟩ := h
      have : l.db = o2 := by simpa using h.symm
      simp [this]
    · simp only [Prod.mk.injEq] at h
      obtain ⟨rfl, h, _⟩ := h
      have h1 : (l.db == !o1) = true := by rw [h2]; simp
      have h3 : (l.da == !o2) = true := by rw [← h]; simp
      simp only [h1, h3, beq_self_eq_true, Bool.and_self, Bool.or_true]
  · rintro ⟨l, hl, h⟩
    simp only [Bool.and_eq_true, Bool.or_eq_true, beq_iff_eq] at h
    obtain ⟨⟨ha, hb⟩, h⟩ := h
    rcases h with ⟨⟨⟨rfl, rfl⟩, rfl⟩, rfl⟩ | ⟨⟨⟨rfl, h1⟩, rfl⟩, h2⟩
    · exact ⟨(l.b, !l.db, l.ov), ⟨l, hl, ha, hb, Or.inl ⟨rfl, rfl, rfl⟩⟩, by simp⟩
    · refine ⟨(l.a, l.da, l.ov), ⟨l, hl, ha, hb, Or.inr ⟨rfl, ?_, rfl⟩⟩, by simp [h1]⟩
      simp [h2]

theorem has_iff (t : GfaFile) (lm : Bool) (id : String) : (readGraph t lm).has id = hasSeg t id :=
  has_readGraph t lm id

/-- for steps over nodes of the graph `path_exists` never raises and decides "is a walk" -/
theorem pathExists_iff (t : GfaFile) (hu : UniqueIds t) (lm : Bool) (steps : List Step)
    (hk : ∀ s ∈ steps, hasSeg t s.2 = true) :
    pathExists (readGraph t lm) steps = some (isWalkB t steps) := by
  induction steps with
  | nil => rfl
  | cons s1 rest ih =>
    cases rest with
    | nil => rfl
    | cons s2 rest =>
      have h1 : (readGraph t lm).has s1.2 = true := by
        rw [has_iff]; exact hk s1 (List.mem_cons_self ..)
      have ih := ih (fun s hs => hk s (List.mem_cons_of_mem _ hs))
      simp only [pathExists, h1, isWalkB, Bool.not_true, Bool.false_eq_true, if_false]
      cases hj : joinedB t s1 s2 with
      | true =>
        have hs : stepOk (readGraph t lm) s1 s2 = true := (stepOk_iff t hu lm s1 s2).2 hj
        simp only [hs, if_true, ih, Bool.true_and]
      | false =>
        have hs : stepOk (readGraph t lm) s1 s2 = false := by
          cases hs : stepOk (readGraph t lm) s1 s2 with
          | false => rfl
          | true =>
            have : joinedB t s1 s2 = true := (stepOk_iff t hu lm s1 s2).1 hs
            rw [hj] at this; cases this
        simp only [hs, Bool.false_eq_true, if_false, Bool.false_and]

theorem spellStep_readGraph (t : GfaFile) (s : Step) (h : hasSeg t s.2 = true) :
    spellStep (readGraph t) s = some (if s.1 then seqOf t s.2 else revComp (seqOf t s.2)) := by
  have hf := find_seq_readGraph t false s.2
  unfold spellStep seqOf
  unfold hasSeg at h
  cases hs : t.segs.find? (·.id == s.2) with
  | none =>
    rw [List.find?_eq_none] at hs
    rw [List.any_eq_true] at h
    obtain ⟨x, hx, hx'⟩ := h
    exact absurd hx' (hs x hx)
  | some sg =>
    rw [hs] at hf
    cases hg : (readGraph t).find s.2 with
    | none => rw [hg] at hf; simp at hf
    | some n =>
      rw [hg] at hf
      simp only [Option.map_some, Option.some.injEq, Bool.false_eq_true, if_false] at hf
      simp only [Option.map_some, hf]

theorem filterMap_eq_map_of_forall {α β} (f : α → Option β) (g : α → β) (l : List α)
    (h : ∀ a ∈ l, f a = some (g a)) : l.filterMap f = l.map g := by
  induction l with
  | nil => rfl
  | cons a l ih =>
    rw [List.filterMap_cons, h a (List.mem_cons_self ..), List.map_cons,
      ih (fun b hb => h b (List.mem_cons_of_mem _ hb))]

/-- MAIN: `extract_path` returns the spelled sequence exactly for walks, the empty string otherwise -/
theorem extractPath_spec (t : GfaFile) (hu : UniqueIds t) (steps : List Step)
    (hk : ∀ s ∈ steps, hasSeg t s.2 = true) :
    extractPath (readGraph t) steps = some (expected t steps) := by
  unfold extractPath expected
  rw [pathExists_iff t hu false steps hk]
  cases hw : isWalkB t steps with
  | false => rfl
  | true =>
    have hall : steps.all (fun s => (readGraph t).has s.2) = true := by
      rw [List.all_eq_true]
      intro s hs
      rw [has_iff]; exact hk s hs
    simp only [hall, if_true]
    unfold spell
    rw [filterMap_eq_map_of_forall _ _ steps (fun s hs => spellStep_readGraph t s (hk s hs))]

theorem joinedB_rev (t : GfaFile) (s1 s2 : Step) :
    joinedB t (!s2.1, s2.2) (!s1.1, s1.2) = joinedB t s1 s2 := by
  unfold joinedB
  congr 1; funext l
  simp only [Bool.not_not]
  rw [Bool.or_comm]

theorem joined_rev (t : GfaFile) (s1 s2 : Step) :
    Joined t s1 s2 ↔ Joined t (!s2.1, s2.2) (!s1.1, s1.2) := by
  unfold Joined
  rw [joinedB_rev]

/-- a walk extended by one step at the end -/
theorem isWalkB_snoc (t : GfaFile) (l : List Step) (a b : Step) :
    isWalkB t (l ++ [a, b]) = (isWalkB t (l ++ [a]) && joinedB t a b) := by
  induction l with
  | nil => simp [isWalkB]
  | cons x l ih =>
    cases l with
    | nil => simp [isWalkB]
    | cons y l =>
      simp only [List.cons_append, isWalkB] at ih ⊢
      rw [ih, Bool.and_assoc]

/-- the reversed walk is accepted exactly when the walk is … -/
theorem reverse_walk (t : GfaFile) (steps : List Step) : isWalkB t (revSteps steps) = isWalkB t steps := by
  induction steps with
  | nil => rfl
  | cons s1 rest ih =>
    cases rest with
    | nil => rfl
    | cons s2 rest =>
      have e1 : revSteps (s1 :: s2 :: rest) = revSteps rest ++ [(!s2.1, s2.2), (!s1.1, s1.2)] := by
        simp [revSteps]
      have e2 : revSteps (s2 :: rest) = revSteps rest ++ [(!s2.1, s2.2)] := by
        simp [revSteps]
      rw [e1, isWalkB_snoc, ← e2, ih, joinedB_rev, isWalkB, Bool.and_comm]

/-- … and spells the reverse complement -/
theorem reverse_spell (t : GfaFile) (steps : List Step)
    (hc : ∀ s ∈ steps, ∀ c ∈ (seqOf t s.2).toList, comp (comp c) = c) :
    spell t (revSteps steps) = revComp (spell t steps) := by
  unfold spell revSteps
  rw [revComp_join, ← List.map_reverse, List.map_map, List.map_map]
  congr 1
  apply List.map_congr_left
  intro s hs
  have hs' : s ∈ steps := List.mem_reverse.1 hs
  simp only [Function.comp]
  cases h1 : s.1 with
  | true => simp
  | false => simp [revComp_revComp _ (hc s hs')]

/-! non-vacuity: a graph with a link declared from the far end, an inversion link and a self-link -/
def exFile : GfaFile :=
  { segs := [⟨"a", "AAC", []⟩, ⟨"b", "GT", []⟩, ⟨"c", "TTTG", []⟩],
    links := [⟨"a", true, "b", true, 0, []⟩, ⟨"c", false, "b", false, 0, []⟩, ⟨"b", true, "b", false, 0, []⟩, ⟨"a", true, "zz", true, 0, []⟩] }
example : (exFile.segs.map (·.id)).Nodup := by decide
example : extractPath (readGraph exFile) [(true, "a"), (true, "b"), (true, "c")] = some "AACGTTTTG" := by decide
example : extractPath (readGraph exFile) [(false, "c"), (false, "b"), (false, "a")] = some "CAAAACGTT" := by decide
example : extractPath (readGraph exFile) [(true, "a"), (true, "b"), (false, "b"), (false, "a")] = some "AACGTACGTT" := by decide
example : extractPath (readGraph exFile) [(true, "a"), (true, "c")] = some "" := by decide
example : expected exFile [(true, "a"), (true, "b"), (true, "c")] = "AACGTTTTG" := by decide

end Gaftools.C14
