import Gaftools.Model.View
import Gaftools.Model.ConvText
import Gaftools.Gen.IndexLoop
import Gaftools.Props.TieA
import Gaftools.Proofs.SearchLemmas
import Gaftools.Props.C03
/-!
# Tie A for `index.convert_coord` and the record loop of `index.run` (C03, and through the index C04 and C05)

`Gen/IndexLoop.lean` is regenerated from `gaftools/cli/index.py` on every run, statement by statement:

* `convert_coord`: the tokenisation of column 6 (`re.split("(>)|(<)", …)` + `filter(None, …)`), the loop over the tokens (orientation
  tokens skipped; an interval token split at `:` and `-`, a bare contig name taking columns 8 and 9), the call of
  `search_intervals` (`Gen.searchIv`, itself translated), the slice `[start : end + 1]`, the loop over the window with `cases = -1`,
  the three tests, `if cases != -1: append(node.id)` — `Gen.convertCoord`, `convertCoord_for1`, `convertCoord_for2`;
* `run` from `out_dict = {}` to `pickle.dump`: `while True:` with `offset = tell()` BEFORE `readline()`, `if not mapping: break`,
  the split of the line, the stable / unstable route, `for a in alignment: try: out_dict[key].append(offset) except KeyError:
  out_dict[key] = [offset]` with both key tuples, `out_dict["ref_contig"] = ref_contig` — `Gen.run`, `run_while`, `run_for1`;
* the comprehension that defines `ref_contig` — `Gen.run_ref_contig`.

The theorems say that the model about which C03 (`index_exact`), C04 and C05 are proved — `Conv.convertCoord`, `View.idxAdd` /
`keyOf`, `View.recNodes`, `View.buildIndex` (and the text layer `ConvText.pathTokens`, `parseStableItems`, `parseUnstableSteps`) —
computes exactly what these translated definitions compute, exceptions included:

* `tokens_gen`, `for2_gen`, `scan_gen`, `ix_slice_window`, `core_gen`: the pieces;
* `convertCoord_gen`: `Gen.convertCoord` on the fields of a line = `Conv.convertCoord` on the parsed items;
* `for_a_gen`: the `try / except KeyError` = `idxAdd` under `keyOf`; `unstable_gen`: the unstable route;
* `while_step`, `while_eof`, `while_gen`, `run_gen`: one record, the end of the file, the whole loop, the pickled object;
* `refContig_gen`: `ref_contig` lists exactly the contigs of rank 0 (what `View.refContigs` is documented to be).

What is assumed (and why):

* `parseStableItems path = some items` (`convertCoord_gen`, `LineRec`): the model takes a record as parsed items; the theorem is about
  every path the model's parser accepts.  (The parser also insists on an orientation in front of an interval, which `convert_coord`
  does not look at — paths without one are not GAF.)
* `BareCols`: columns 8 and 9 exist and are decimal numbers — needed only if the path has a bare contig name (otherwise index.py
  never reads them; else `int()` raises).
* `UPathOk` (unstable route): `re.split(">|<", path)` is `""` followed by non-empty names.  For a path that does not begin with an
  orientation character `[1:]` silently drops the first node, and an empty name raises `KeyError` — the model (`parseUnstableSteps`)
  indexes `a>b` under `a` and `b` and `>a><b` under `a` and `b`; index.py indexes the first under `b` only and crashes on the
  second.  Neither is a GAF path.
* `lines.length < fuel`: the `while True:` loop is unrolled by fuel.
* Modelling conventions shared with the rest of the development: a record is identified by its ordinal (`tell()` = number of lines
  read, C17 ties ordinals to byte / virtual offsets), `nodes[a]` is the node's `NodeInfo` (`nodesOf`; a node without the rGFA
  tags is a `KeyError` either way), `reference` is a `defaultdict` (total), `int()` is `ConvText.toInt`.
-/
namespace Gaftools.TieA
open Gaftools.Gaf Gaftools.Conv Gaftools.ConvText Gaftools.View

/-! ## tokens -/

theorem reSplitAux_tokens (p cur : Str) :
    Gen.filterNone (Gen.reSplitAux (fun c => c == '>' || c == '<') (fun c => c == '>' || c == '<') p cur) = pathTokensAux p cur := by
  induction p generalizing cur with
  | nil =>
    unfold Gen.reSplitAux pathTokensAux Gen.filterNone
    cases cur <;> simp
  | cons c cs ih =>
    unfold Gen.reSplitAux pathTokensAux
    by_cases hc : (c == '>' || c == '<') = true
    · simp only [hc, if_true]
      have := ih []
      unfold Gen.filterNone at this ⊢
      cases cur <;> simp [this]
    · simp only [hc, Bool.false_eq_true, if_false]
      exact ih _

theorem tokens_gen (p : Str) :
    Gen.filterNone (Gen.reSplit (fun c => c == '>' || c == '<') (fun c => c == '>' || c == '<') p) = pathTokens p :=
  reSplitAux_tokens p []

/-! ## the window scan -/

theorem for2_gen (qs qe : Int) (acc : List String) (sg : Seg) :
    Gen.convertCoord_for2 qs qe acc sg = if overlapCase sg qs qe ≠ 0 then acc ++ [sg.id] else acc := by
  unfold Gen.convertCoord_for2 overlapCase
  simp only []
  repeat' split
  all_goals first | rfl | (exfalso; omega) | (simp at *; done) | (simp at *; omega)

theorem scan_gen (qs qe : Int) (win : List Seg) (acc : List String) :
    win.foldl (Gen.convertCoord_for2 qs qe) acc = acc ++ (win.filter (fun sg => overlapCase sg qs qe ≠ 0)).map (·.id) := by
  induction win generalizing acc with
  | nil => simp
  | cons sg rest ih =>
    rw [List.foldl_cons, ih, for2_gen]
    by_cases h : overlapCase sg qs qe ≠ 0
    · simp [h]
    · simp [h]

/-- what `search_intervals` returns from a non-negative start: the sentinel, or a non-empty range of non-negative indices -/
theorem ix_searchIv_range (iv : List Seg) (qs qe : Int) :
    ∀ (fuel : Nat) (s e : Int), 0 ≤ s → ∀ r, Conv.searchIv iv qs qe fuel s e = some r → r = (-1, -1) ∨ (0 ≤ r.1 ∧ r.1 ≤ r.2) := by
  intro fuel
  induction fuel with
  | zero => intro s e _ r h; simp [Conv.searchIv] at h
  | succ fuel ih =>
    intro s e hs r h
    unfold Conv.searchIv at h
    split at h
    · rename_i hse
      simp only at h
      split at h
      · simp at h
      · split at h
        · simp at h
        · split at h
          · exact ih _ _ hs r h
          · split at h
            · exact ih _ _ (by omega) r h
            · injection h with h; subst h; exact Or.inr ⟨hs, hse⟩
    · injection h with h; subst h; exact Or.inl rfl

theorem ix_slice_window (iv : List Seg) (r : Int × Int) (h : r = (-1, -1) ∨ (0 ≤ r.1 ∧ r.1 ≤ r.2)) :
    Gen.ixSlice iv r.1 (r.2 + 1) = window iv r := by
  unfold Gen.ixSlice window
  rcases h with rfl | ⟨h1, h2⟩
  · simp
    omega
  · have hn1 : ¬ (r.1 < 0) := by omega
    have hn2 : ¬ (r.2 + 1 < 0) := by omega
    simp only [hn1, hn2, if_false]
    by_cases hlen : (iv.length : Int) ≤ r.1
    · have : iv.length ≤ r.1.toNat := by omega
      have e1 : min r.1 (iv.length : Int) = iv.length := by omega
      rw [e1, List.drop_eq_nil_of_le this, List.drop_eq_nil_of_le (by simp)]
      simp
    · have e1 : min r.1 (iv.length : Int) = r.1 := by omega
      rw [e1, List.take_eq_take_iff]
      simp only [List.length_drop]
      omega

/-! ## one step of a stable path -/

/-- the step function of `Conv.convertCoord` (the model folds exactly this over the items) -/
def ccModelStep (reference : String → List Seg) (ps pe : Int) (acc : List String) (it : SItem) : Option (List String) :=
  let (contig, qs, qe) := match it with
    | .iv _ c s e => (c, s, e)
    | .bare c => (c, ps, pe)
  let iv := reference contig
  match Conv.searchIv iv qs qe (iv.length + 2) 0 iv.length with
  | none => none
  | some r => some (acc ++ ((window iv r).filter (fun sg => overlapCase sg qs qe ≠ 0)).map (·.id))

theorem convertCoord_fold (reference : String → List Seg) (items : List SItem) (ps pe : Int) :
    Conv.convertCoord reference items ps pe = items.foldlM (ccModelStep reference ps pe) [] := rfl

/-- search, slice and scan of one step, as translated, are the model's search, window and filter -/
theorem core_gen (iv : List Seg) (qs qe : Int) (acc : List String) :
    ((Gen.searchIv iv qs qe (iv.length + 2) (0 : Int) (iv.length : Int)).bind fun v =>
        some ((Gen.ixSlice iv v.1 (v.2 + (1 : Int))).foldl (Gen.convertCoord_for2 qs qe) acc))
      = match Conv.searchIv iv qs qe (iv.length + 2) 0 iv.length with
        | none => none
        | some r => some (acc ++ ((window iv r).filter (fun sg => overlapCase sg qs qe ≠ 0)).map (·.id)) := by
  rw [searchIv_gen_eq_model iv qs qe _ 0 _ (by omega)]
  cases h : Conv.searchIv iv qs qe (iv.length + 2) 0 iv.length with
  | none => rfl
  | some r =>
    simp only [Option.bind_some]
    rw [ix_slice_window iv r (ix_searchIv_range iv qs qe _ 0 _ (by omega) r h), scan_gen]

theorem for1_orient (line : List Str) (ref : String → List Seg) (acc : List String) (t : Str) (h : isOrientTok t = true) :
    Gen.convertCoord_for1 line ref acc t = some acc := by
  unfold isOrientTok at h
  unfold Gen.convertCoord_for1
  simp only [h, if_true]

theorem for1_iv (line : List Str) (ref : String → List Seg) (ps pe : Int) (acc : List String) (t c rng a b : Str) (rest : List Str)
    (s e : Int) (ob : Bool)
    (h0 : isOrientTok t = false) (h1 : (t.contains ':' && t.contains '-') = true)
    (h2 : splitOnChar ':' (rstrip t) = c :: rng :: rest) (h3 : splitOnChar '-' (rstrip rng) = [a, b])
    (ha : toInt a = some s) (hb : toInt b = some e) :
    Gen.convertCoord_for1 line ref acc t = ccModelStep ref ps pe acc (.iv ob (String.ofList c) s e) := by
  unfold isOrientTok at h0
  unfold Gen.convertCoord_for1 ccModelStep
  simp only [h0, Bool.false_eq_true, if_false, h1, if_true, h2, List.getElem?_cons_zero, List.getElem?_cons_succ, Option.bind_some,
    h3, Gen.unpack2, ha, hb]
  exact core_gen _ _ _ _

theorem for1_bare (line : List Str) (ref : String → List Seg) (ps pe : Int) (acc : List String) (t l7 l8 : Str)
    (h0 : isOrientTok t = false) (h1 : (t.contains ':' && t.contains '-') = false)
    (h7 : line[7]? = some l7) (h8 : line[8]? = some l8) (hs : toInt l7 = some ps) (he : toInt l8 = some pe) :
    Gen.convertCoord_for1 line ref acc t = ccModelStep ref ps pe acc (.bare (String.ofList t)) := by
  unfold isOrientTok at h0
  unfold Gen.convertCoord_for1 ccModelStep
  simp only [h0, Bool.false_eq_true, if_false, h1, h7, h8, Option.bind_some, hs, he]
  exact core_gen _ _ _ _

/-- columns 8 and 9 are read (and must be numbers) only when the path has a bare contig name -/
def BareCols (line : List Str) (items : List SItem) (ps pe : Int) : Prop :=
  ∀ c, SItem.bare c ∈ items → ∃ l7 l8, line[7]? = some l7 ∧ line[8]? = some l8 ∧ toInt l7 = some ps ∧ toInt l8 = some pe

theorem for1_fold (line : List Str) (ref : String → List Seg) (ps pe : Int) :
    ∀ (toks : List Str) (o : Option Bool) (items : List SItem) (acc : List String),
      parseStableItems.go toks o = some items → BareCols line items ps pe →
      toks.foldlM (Gen.convertCoord_for1 line ref) acc = items.foldlM (ccModelStep ref ps pe) acc := by
  intro toks
  induction toks with
  | nil =>
    intro o items acc h _
    simp only [parseStableItems.go] at h
    injection h with h; subst h; rfl
  | cons t ts ih =>
    intro o items acc h hb
    rw [parseStableItems.go] at h
    rw [List.foldlM_cons]
    by_cases h0 : isOrientTok t = true
    · simp only [h0, if_true] at h
      rw [for1_orient line ref acc t h0]
      exact ih _ items acc h hb
    · have h0' : isOrientTok t = false := by simpa using h0
      simp only [h0', Bool.false_eq_true, if_false] at h
      by_cases h1 : (t.contains ':' && t.contains '-') = true
      · simp only [h1, if_true] at h
        split at h
        · rename_i c rng rest h2
          split at h
          · rename_i a b h3
            split at h
            · rename_i s e ob ha hb'
              cases hr : parseStableItems.go ts (some ob) with
              | none => simp [hr] at h
              | some r =>
                simp only [hr, Option.map_some] at h
                injection h with h; subst h
                rw [for1_iv line ref ps pe acc t c rng a b rest s e ob h0' h1 h2 h3 ha hb', List.foldlM_cons]
                cases hm : ccModelStep ref ps pe acc (.iv ob (String.ofList c) s e) with
                | none => rfl
                | some acc' =>
                  exact ih _ r acc' hr (fun c hc => hb c (List.mem_cons_of_mem _ hc))
            · cases h
          · cases h
        · cases h
      · have h1' : (t.contains ':' && t.contains '-') = false := by simpa using h1
        simp only [h1', Bool.false_eq_true, if_false] at h
        cases hr : parseStableItems.go ts o with
        | none => simp [hr] at h
        | some r =>
          simp only [hr, Option.map_some] at h
          injection h with h; subst h
          obtain ⟨l7, l8, h7, h8, hs, he⟩ := hb (String.ofList t) List.mem_cons_self
          rw [for1_bare line ref ps pe acc t l7 l8 h0' h1' h7 h8 hs he, List.foldlM_cons]
          cases hm : ccModelStep ref ps pe acc (.bare (String.ofList t)) with
          | none => rfl
          | some acc' =>
            exact ih o r acc' hr (fun c hc => hb c (List.mem_cons_of_mem _ hc))

/-- **`convert_coord`**: on the fields `line` of a record whose path column tokenises and parses to `items`, the translated function
    computes what `Conv.convertCoord` computes on `items` (result or exception alike) -/
theorem convertCoord_gen (line : List Str) (ref : String → List Seg) (path : Str) (items : List SItem) (ps pe : Int)
    (h5 : line[5]? = some path) (hp : parseStableItems path = some items) (hb : BareCols line items ps pe) :
    Gen.convertCoord line ref = Conv.convertCoord ref items ps pe := by
  unfold Gen.convertCoord
  simp only [h5, Option.bind_some, tokens_gen]
  rw [for1_fold line ref ps pe (pathTokens path) none items [] hp hb, convertCoord_fold]
  cases items.foldlM (ccModelStep ref ps pe) [] <;> rfl

/-! ## the record loop of `run` -/

/-- `try: out_dict[key].append(offset) except KeyError: out_dict[key] = [offset]` is `idxAdd` under the node's key (unknown node id:
    the `KeyError` is raised again inside the handler) -/
theorem for_a_gen (nodes : String → Option NodeInfo) (ord : Nat) (idx : List (Key × List Nat)) (a : String) :
    Gen.run_for1 nodes ord idx a = (nodes a).bind fun i => some (idxAdd idx (keyOf i) ord) := by
  unfold Gen.run_for1
  cases hn : nodes a with
  | none => rfl
  | some i =>
    have hk : (i.id, i.sn, i.so, i.so + (i.en - i.so)) = keyOf i := by
      unfold keyOf
      have : i.so + (i.en - i.so) = i.en := by omega
      rw [this]
    simp only [Option.bind_some, hk]
    unfold idxAdd Gen.dHas Gen.dAppend Gen.dSet Gen.dHas
    by_cases h : idx.any (fun e => e.1 == keyOf i) = true
    · simp only [h, if_true]
    · simp only [h, Bool.false_eq_true, if_false]

/-! ### the path of an unstable record -/

theorem go_names (toks : List Str) (o : Bool) :
    (parseUnstableSteps.go toks o).map (·.2) = toks.filter (fun t => !isOrientTok t) := by
  induction toks generalizing o with
  | nil => rfl
  | cons t ts ih =>
    rw [parseUnstableSteps.go]
    by_cases h : isOrientTok t = true
    · simp [h, ih]
    · simp [h, ih]

theorem notOrient_of_noSep (t : Str) (h : ∀ c ∈ t, (c == '>' || c == '<') = false) : isOrientTok t = false := by
  cases hh : isOrientTok t with
  | false => rfl
  | true =>
    exfalso
    unfold isOrientTok at hh
    rcases (Bool.or_eq_true _ _).mp hh with h1 | h1
    · rw [beq_iff_eq] at h1; subst h1
      have := h '>' (by simp)
      simp at this
    · rw [beq_iff_eq] at h1; subst h1
      have := h '<' (by simp)
      simp at this

theorem tokens_names (p cur : Str) (hcur : ∀ c ∈ cur, (c == '>' || c == '<') = false) :
    (pathTokensAux p cur).filter (fun t => !isOrientTok t) =
      (List.splitOnPPrepend (fun c => c == '>' || c == '<') p cur).filter (fun t => !t.isEmpty) := by
  have hpre : ∀ cur : Str, (∀ c ∈ cur, (c == '>' || c == '<') = false) →
      (if cur.isEmpty then ([] : List Str) else [cur.reverse]).filter (fun t => !isOrientTok t) =
        [cur.reverse].filter (fun t => !t.isEmpty) := by
    intro cur hcur
    cases cur with
    | nil => simp
    | cons a as =>
      have hno : isOrientTok (a :: as).reverse = false :=
        notOrient_of_noSep _ (fun c hc => hcur c (List.mem_reverse.mp hc))
      have hne : (a :: as).reverse ≠ [] := by simp
      have hemp : (a :: as).isEmpty = false := rfl
      simp only [hemp, Bool.false_eq_true, if_false]
      generalize (a :: as).reverse = r at hno hne
      cases r with
      | nil => exact absurd rfl hne
      | cons x xs => simp [hno]
  induction p generalizing cur with
  | nil =>
    unfold pathTokensAux
    rw [List.splitOnPPrepend_nil]
    exact hpre cur hcur
  | cons c cs ih =>
    unfold pathTokensAux
    by_cases hc : (c == '>' || c == '<') = true
    · rw [List.splitOnPPrepend_cons_eq_if]
      simp only [hc, if_true]
      have hor : isOrientTok [c] = true := by
        unfold isOrientTok
        rcases Bool.or_eq_true _ _ |>.mp hc with h | h <;> (rw [beq_iff_eq] at h; subst h; rfl)
      rw [List.filter_append, hpre cur hcur, List.filter_cons, List.filter_cons (xs := List.splitOnP _ cs)]
      have := ih [] (by simp)
      rw [List.splitOnPPrepend_nil_right] at this
      simp [hor, this]
      cases cur <;> simp
    · have hc' : (c == '>' || c == '<') = false := by simpa using hc
      rw [List.splitOnPPrepend_cons_eq_if]
      simp only [hc', Bool.false_eq_true, if_false]
      exact ih (c :: cur) (by
        intro x hx
        rcases List.mem_cons.mp hx with rfl | hx
        · exact hc'
        · exact hcur x hx)

/-- an unstable path as `index.run` needs it: `re.split(">|<", path)` is the empty string followed by non-empty names, i.e. the path
    begins with an orientation character and no name is empty.  (Without the first, `[1:]` silently drops the first node; without
    the second, `nodes[""]` raises `KeyError`.) -/
def UPathOk (path : Str) : Prop :=
  ∃ names, path.splitOnP (fun c => c == '>' || c == '<') = [] :: names ∧ ∀ t ∈ names, t ≠ []

theorem unstable_gen (path : Str) (h : UPathOk path) :
    ((path.splitOnP (fun c => c == '>' || c == '<')).drop 1).map String.ofList = (parseUnstableSteps path).map (·.2) := by
  obtain ⟨names, hs, hne⟩ := h
  unfold parseUnstableSteps
  rw [List.map_map]
  have h1 : ((parseUnstableSteps.go (pathTokens path) true).map ((fun x : Bool × String => x.2) ∘ fun s => (s.1, String.ofList s.2))) =
      ((parseUnstableSteps.go (pathTokens path) true).map (·.2)).map String.ofList := by
    rw [List.map_map]; rfl
  rw [h1, go_names]
  unfold pathTokens
  rw [tokens_names path [] (by simp), List.splitOnPPrepend_nil_right, hs]
  have : names.filter (fun t => !t.isEmpty) = names := by
    rw [List.filter_eq_self]
    intro t ht
    have := hne t ht
    cases t <;> simp_all
  simp [this]

/-! ### the loop -/

/-- the dictionary `nodes` (`gfa_file.nodes`) as the model reads it: the node of that id with its rGFA tags (`none`: `KeyError`) -/
def nodesOf (g : Gfa.Graph) (a : String) : Option NodeInfo := (infos g).find? (·.id == a)

/-- what the model is told about a line of the GAF: index.py strips and splits the line, looks at column 6 and — only for a bare
    contig name — at columns 8 and 9 -/
def LineRec (stable : Bool) (line : Str) (r : RecPath) : Prop :=
  ∃ path, (splitTab (rstrip line))[5]? = some path ∧
    match stable with
    | true => ∃ items ps pe, parseStableItems path = some items ∧ BareCols (splitTab (rstrip line)) items ps pe ∧
        r = .stable items ps pe
    | false => UPathOk path ∧ r = .unstable (parseUnstableSteps path)

/-- the file, line by line, is the list of records -/
inductive LinesRecs (stable : Bool) : List Str → List RecPath → Prop
  | nil : LinesRecs stable [] []
  | cons {line : Str} {r : RecPath} {lines : List Str} {recs : List RecPath} :
      LineRec stable line r → LinesRecs stable lines recs → LinesRecs stable (line :: lines) (r :: recs)

theorem addIds_gen (g : Gfa.Graph) (ord : Nat) (ids : List String) (idx : List (Key × List Nat)) :
    ids.foldlM (Gen.run_for1 (nodesOf g) ord) idx = C03.addIds g ord ids idx := by
  have : Gen.run_for1 (nodesOf g) ord = fun idx a => do
      let i ← (infos g).find? (·.id == a)
      return idxAdd idx (keyOf i) ord := by
    funext idx a
    rw [for_a_gen]
    rfl
  rw [this]
  rfl

/-- one record: the offset is the position before the line is read, the record's nodes are entered under it -/
theorem while_step (g : Gfa.Graph) (stable : Bool) (idx : List (Key × List Nat)) (off k : Nat) (line : Str) (rest : List Str)
    (r : RecPath) (h : LineRec stable line r) :
    Gen.run_while stable (nodesOf g) (reference g) ⟨idx, off, ⟨k, line :: rest⟩⟩ =
      (C03.ixStep g idx (r, k)).map fun idx' => (true, ⟨idx', k, ⟨k + 1, rest⟩⟩) := by
  obtain ⟨path, h5, h⟩ := h
  have hsplit : splitOnChar '\t' (rstrip line) = splitTab (rstrip line) := rfl
  unfold Gen.run_while C03.ixStep
  simp only [List.head?_cons, Option.isNone_some, Bool.false_eq_true, if_false, Option.getD_some, List.tail_cons, hsplit]
  cases stable with
  | true =>
    obtain ⟨items, ps, pe, hp, hb, rfl⟩ := h
    simp only [if_true, recNodes, convertCoord_gen _ (reference g) path items ps pe h5 hp hb]
    cases hc : Conv.convertCoord (reference g) items ps pe with
    | none => rfl
    | some ids =>
      simp only [Option.bind_some, addIds_gen]
      show _ = Option.map _ (C03.addIds g k ids idx)
      cases C03.addIds g k ids idx <;> rfl
  | false =>
    obtain ⟨hu, rfl⟩ := h
    simp only [Bool.false_eq_true, if_false, recNodes, h5, Option.bind_some, unstable_gen path hu, addIds_gen]
    show _ = Option.map _ (C03.addIds g k ((parseUnstableSteps path).map (·.2)) idx)
    cases C03.addIds g k ((parseUnstableSteps path).map (·.2)) idx <;> rfl

/-- the end of the file: `readline()` returns the empty string and the loop is left -/
theorem while_eof (g : Gfa.Graph) (stable : Bool) (idx : List (Key × List Nat)) (off k : Nat) :
    Gen.run_while stable (nodesOf g) (reference g) ⟨idx, off, ⟨k, []⟩⟩ = some (false, ⟨idx, k, ⟨k + 1, []⟩⟩) := by
  rfl

theorem while_gen (g : Gfa.Graph) (stable : Bool) (lines : List Str) (recs : List RecPath)
    (h : LinesRecs stable lines recs) :
    ∀ (fuel : Nat) (idx : List (Key × List Nat)) (off k : Nat), lines.length < fuel →
      Gen.whileTrue (Gen.run_while stable (nodesOf g) (reference g)) fuel ⟨idx, off, ⟨k, lines⟩⟩ =
        ((recs.zipIdx k).foldlM (C03.ixStep g) idx).map fun idx' =>
          ⟨idx', k + lines.length, ⟨k + lines.length + 1, []⟩⟩ := by
  induction h with
  | nil =>
    intro fuel idx off k hf
    cases fuel with
    | zero => omega
    | succ fuel =>
      unfold Gen.whileTrue
      rw [while_eof]
      rfl
  | @cons line r lines recs hl _ ih =>
    intro fuel idx off k hf
    cases fuel with
    | zero => omega
    | succ fuel =>
      unfold Gen.whileTrue
      rw [while_step g stable idx off k line lines r hl, List.zipIdx_cons, List.foldlM_cons]
      cases hs : C03.ixStep g idx (r, k) with
      | none => rfl
      | some idx' =>
        simp only [Option.map_some]
        rw [ih fuel idx' k (k + 1) (by simp only [List.length_cons] at hf; omega)]
        simp only [List.length_cons]
        have e1 : k + 1 + lines.length = k + (lines.length + 1) := by omega
        rw [e1]
        rfl

/-- **`index.run`**, from `out_dict = {}` to the object handed to `pickle.dump`: on a file whose lines are the records `recs`, the
    translated loop builds `buildIndex g recs` (or raises when the model says so), with the ordinal of a record as its offset; the
    pickled object is that dictionary with `ref_contig` under one more key -/
theorem run_gen (g : Gfa.Graph) (stable : Bool) (lines : List Str) (recs : List RecPath) (refContig : List String)
    (h : LinesRecs stable lines recs) (fuel : Nat) (hf : lines.length < fuel) :
    Gen.run stable (nodesOf g) (reference g) refContig ⟨0, lines⟩ fuel =
      (buildIndex g recs).map fun idx => (idx, [("ref_contig", refContig)]) := by
  unfold Gen.run
  simp only [while_gen g stable lines recs h fuel [] 0 0 hf, C03.buildIndex_eq]
  cases recs.zipIdx.foldlM (C03.ixStep g) [] <;> rfl

/-- `ref_contig`: the names whose rank in `gfa_file.contigs` is 0, in the order of the dictionary -/
theorem refContig_gen (contigs : List (String × Int)) :
    Gen.run_ref_contig contigs = (contigs.filter (fun p => p.2 == 0)).map (·.1) ∧
      ∀ c, c ∈ Gen.run_ref_contig contigs ↔ (c, (0 : Int)) ∈ contigs := by
  unfold Gen.run_ref_contig
  constructor
  · congr 1 <;> try (apply List.filter_congr; intro p _; simp)
  · intro c
    simp only [List.mem_map, List.mem_filter, decide_eq_true_eq]
    constructor
    · rintro ⟨p, ⟨hp, h0⟩, rfl⟩
      rw [← h0]; exact hp
    · intro h
      exact ⟨(c, 0), ⟨h, rfl⟩, rfl⟩

/-! ## non-vacuity: a two-node contig, a stable and an unstable record -/

def exRef : String → List Seg := fun c => if c == "chr1" then [⟨"s1", 0, 4⟩, ⟨"s2", 4, 10⟩] else []
def exNodes : String → Option NodeInfo := fun a =>
  if a == "s1" then some ⟨"s1", "chr1", 0, 4, 0⟩ else if a == "s2" then some ⟨"s2", "chr1", 4, 10, 0⟩ else none
def exStable : Str := "r1\t10\t0\t10\t+\t>chr1:2-6\t10\t0\t4\t4\t4\t60\n".toList
def exBare : Str := "r2\t10\t0\t10\t+\tchr1\t10\t5\t8\t3\t3\t60\n".toList
def exUnstable : Str := "r3\t10\t0\t10\t+\t>s2<s1\t10\t0\t4\t4\t4\t60\n".toList

/-- node id and offsets of every entry, and the extra entries -/
def exView (r : Option (Gen.Idx × List (String × List String))) : Option (List (String × List Nat) × List (String × List String)) :=
  r.map fun x => (x.1.map (fun e => (e.1.1, e.2)), x.2)

example : exView (Gen.run true exNodes exRef ["chr1"] ⟨0, [exStable, exBare]⟩ 3) =
    some ([("s1", [0]), ("s2", [0, 1])], [("ref_contig", ["chr1"])]) := by decide
example : exView (Gen.run false exNodes exRef ["chr1"] ⟨0, [exUnstable, exUnstable]⟩ 3) =
    some ([("s2", [0, 1]), ("s1", [0, 1])], [("ref_contig", ["chr1"])]) := by decide
example : LineRec true exStable (.stable [.iv true "chr1" 2 6] 0 4) :=
  ⟨">chr1:2-6".toList, by decide, [.iv true "chr1" 2 6], 0, 4, by decide, fun c hc => by simp at hc, rfl⟩
example : UPathOk ">s2<s1".toList := ⟨["s2".toList, "s1".toList], by decide, by decide⟩

end Gaftools.TieA
