import Gaftools.Props.C06
import Gaftools.Proofs.FinishLemmas
/-!
# C06 (continued) — from a path-shaped scaffold graph to the BO/NO numbering

If the collapsed bubble graph built from the blocks and articulation points is the path `es` (chain elements in chain
order) and the reference offsets of its scaffold nodes are strictly monotone along it, `decompose_and_order` numbers the
elements along the chain in the direction of increasing reference offset — whatever the dict order of the scaffold graph and
whichever end the traversal happens to start from.  (What remains unproved for `ChainCorrect` is only that `biccs` +
`buildScaffold` produce this path for a linear chain.)
-/
namespace Gaftools.C06
open Gaftools.Gfa Gaftools.Algo Gaftools.Order

/-- the scaffold graph `s` is the path `es` -/
structure PathScaffold (s : Scaffold) (es : List Elt) : Prop where
  names : (es.map Elt.name).Nodup
  perm : s.elts.Perm es
  len : 2 ≤ es.length
  adj : ∀ a b, b ∈ s.nbrs a ↔
    ∃ i, (es[i]? = some a ∧ es[i + 1]? = some b) ∨ (es[i]? = some b ∧ es[i + 1]? = some a)

def scaffoldIds (es : List Elt) : List V := es.filterMap (fun e => match e with | .scaffold id => some id | _ => none)

def strictlyIncreasing (l : List Int) : Prop := l.Pairwise (· < ·)

theorem PathScaffold.toPathS {s : Scaffold} {es : List Elt} (hp : PathScaffold s es) :
    Gaftools.Proofs.Finish.PathS s es := ⟨hp.names, hp.perm, hp.len, hp.adj⟩

theorem PathScaffold.reverse {s : Scaffold} {es : List Elt} (hp : PathScaffold s es) : PathScaffold s es.reverse :=
  let h := hp.toPathS.reverse
  ⟨h.names, h.perm, h.len, h.adj⟩

theorem scaffoldIds_eq (es : List Elt) : scaffoldIds es = es.filterMap Gaftools.Proofs.Finish.idOf := by
  unfold scaffoldIds
  congr 1; funext e; cases e <;> rfl

/-- MAIN: offsets increasing along `es` ⇒ numbered along `es` -/
theorem finish_path (s : Scaffold) (es : List Elt) (aps : List V) (so : V → Option Int) (sn : V → Option String)
    (hp : PathScaffold s es) (cs : List Int) (hso : (scaffoldIds es).mapM so = some cs) (h2 : 2 ≤ cs.length)
    (hinc : strictlyIncreasing cs) (hsn : (((scaffoldIds es).map sn).eraseDups).length = 1) :
    finishScaffold s aps so sn = .ok ⟨aps, s.bubbles.flatten, numberChain s es, es.length, s.bubbles.length⟩ := by
  rw [scaffoldIds_eq] at hso hsn
  exact Gaftools.Proofs.Finish.finish_path_core s es aps so sn hp.toPathS cs hso h2 hinc hsn

/-- offsets decreasing along `es` ⇒ numbered along `es.reverse` (i.e. again in increasing reference order) -/
theorem finish_path_rev (s : Scaffold) (es : List Elt) (aps : List V) (so : V → Option Int) (sn : V → Option String)
    (hp : PathScaffold s es) (cs : List Int) (hso : (scaffoldIds es).mapM so = some cs) (h2 : 2 ≤ cs.length)
    (hdec : strictlyIncreasing cs.reverse) (hsn : (((scaffoldIds es).map sn).eraseDups).length = 1) :
    finishScaffold s aps so sn = .ok ⟨aps, s.bubbles.flatten, numberChain s es.reverse, es.length, s.bubbles.length⟩ := by
  rw [scaffoldIds_eq] at hso hsn
  have hso' : (es.reverse.filterMap Gaftools.Proofs.Finish.idOf).mapM so = some cs.reverse := by
    rw [List.filterMap_reverse]; exact Gaftools.Proofs.Finish.mapM_reverse so _ cs hso
  have hsn' : (((es.reverse.filterMap Gaftools.Proofs.Finish.idOf).map sn).eraseDups).length = 1 := by
    rw [List.filterMap_reverse, List.map_reverse]
    exact Gaftools.Proofs.Finish.eraseDups_length_one_reverse _ hsn
  have h := Gaftools.Proofs.Finish.finish_path_core s es.reverse aps so sn hp.reverse.toPathS cs.reverse hso'
    (by simpa using h2) hdec hsn'
  rw [List.length_reverse] at h
  exact h

/-! non-vacuity: scaffold a — bubble0 — scaffold b — scaffold c, stored in another order -/
def exS : Scaffold :=
  { elts := [.scaffold "c", .scaffold "a", .scaffold "b", .bubble 0],
    edges := [(.bubble 0, .scaffold "a"), (.bubble 0, .scaffold "b"), (.scaffold "c", .scaffold "b")],
    bubbles := [["y", "x"]] }
def exSo : V → Option Int | "a" => some 0 | "b" => some 10 | "c" => some 20 | _ => none
/-- the chain order of `exS` -/
def exEs : List Elt := [.scaffold "a", .bubble 0, .scaffold "b", .scaffold "c"]
example : exS.elts.Perm exEs ∧ (exEs.map Elt.name).Nodup ∧ (scaffoldIds exEs).mapM exSo = some [0, 10, 20] := by decide
-- `#eval` (a test, labelled as such; `dfs` is defined by well-founded recursion, which `decide` does not unfold):
#eval (match finishScaffold exS ["a", "b", "c"] exSo (fun _ => some "chr1") with | .ok l => some l.order | _ => none)
-- some [("a", 0, 0), ("x", 1, 1), ("y", 1, 2), ("b", 2, 0), ("c", 3, 0)]

end Gaftools.C06
