import Gaftools.Model.Gaf
import Gaftools.Model.Phase
import Gaftools.Gen.GafRecord
/-!
# Tie A for the record text layer: `GAF.parse_gaf_line`, `Alignment.__str__`, the writes of `phase.add_phase_info` (C16, C17, C20)

`Gen/GafRecord.lean` is regenerated from `gaftools/gaf.py` and `gaftools/cli/phase.py` on every run:

* whether the line is right-stripped before it is split (both the text and the BGZF branch),
* the table "attribute of the record ← column, how it is read",
* group 1 of the tag regular expression as one predicate per character,
* the body of the tag loop after a match (symbolic execution over the loop state `(tags, cigar, is_primary)`),
* the format string / argument list / `cg:Z:` rule / tag format of `__str__`,
* the write plan of `add_phase_info` (format of the mandatory columns, the test for "phased", both texts, the tag format).

The theorems say that the hand-written model (`Gaf.tagSplit`, `tagStep`, `parseFields`, `mandatory`, `printTags`, `Phase.phaseTags`,
`phaseFields`) — about which C16 / C20 are proved — computes exactly what these generated pieces prescribe.
-/
namespace Gaftools.TieA
open Gaftools.Gaf Gaftools.Gen

/-! ## the line is stripped in both branches (C17: the two branches of `parse_gaf_line` agree) -/

theorem rstrip_gen : Gen.rstripPlain = true ∧ Gen.rstripBgzf = true := by
  first | exact ⟨rfl, rfl⟩ | decide

/-! ## the tag regular expression -/

/-- the regular expression as a function: group 1 = as many characters as `tagHead` has predicates, each satisfied; group 2 = the rest -/
def genTagSplit (k : Str) : Option (Str × Str) :=
  let n := Gen.tagHead.length
  if n ≤ k.length && (List.zipWith (fun p c => p c) Gen.tagHead k).all id then some (k.take n, k.drop n) else none

theorem tagSplit_gen (k : Str) : tagSplit k = genTagSplit k := by
  unfold tagSplit genTagSplit Gen.tagHead
  rcases k with _ | ⟨a, _ | ⟨b, _ | ⟨c, _ | ⟨t, _ | ⟨d, v⟩⟩⟩⟩⟩ <;> try rfl
  simp only [List.length_cons, List.length_nil, List.zipWith_cons_cons, List.zipWith_nil_left, List.all_cons, List.all_nil,
    isAlpha, isAlnum, isTagType, Char.isAlpha, Char.isAlphanum, Char.isUpper, Char.isLower, Char.isDigit, id, List.take, List.drop]
  have hlen : (0 + 1 + 1 + 1 + 1 + 1 ≤ v.length + 1 + 1 + 1 + 1 + 1) := by omega
  simp [hlen, Bool.and_assoc]

/-! ## the body of the tag loop -/

theorem tagStep_gen (st : TagSt) (k : Str) :
    tagStep st k = match tagSplit k with
      | none => st
      | some (p, v) => Gen.tagBody st p v := by
  unfold tagStep
  cases tagSplit k with
  | none => rfl
  | some pv =>
    obtain ⟨p, v⟩ := pv
    simp only
    unfold Gen.tagBody dsKey cgKey tpKey
    by_cases h1 : p = "ds:Z:".toList
    · simp [h1]
    · by_cases h2 : p = "cg:Z:".toList
      · simp [h2]
      · by_cases h3 : dictHas st.tags p = true
        · simp [h2, h3]
          by_cases hp : p = ['t', 'p', ':', 'A', ':'] <;> by_cases hv1 : v = ['P'] <;> by_cases hv2 : v = ['p'] <;> simp_all
        · have h3' : dictHas st.tags p = false := by simpa using h3
          have hset : dictSet st.tags p v = st.tags ++ [(p, v)] := by
            unfold dictSet; unfold dictHas at h3'; simp [h3']
          simp [h2, h3', hset]
          by_cases hp : p = ['t', 'p', ':', 'A', ':'] <;> by_cases hv1 : v = ['P'] <;> by_cases hv2 : v = ['p'] <;> simp_all

/-! ## the columns -/

inductive Val where
  | s (x : Str)
  | n (x : Nat)
deriving DecidableEq, Repr

/-- one column read the way the table says -/
def readCol (fs : List Str) (c : String × Nat × String) : Option Val :=
  match fs[c.2.1]? with
  | none => none
  | some f =>
    if c.2.2 == "cut" then some (.s (cutAtSpace f))
    else if c.2.2 == "str" then some (.s f)
    else if isDigits f then some (.n (toNat f)) else none

def readAll (fs : List Str) : Option (List Val) := Gen.columns.mapM (readCol fs)

/-- the attribute of the model's record with that name -/
def fieldOf (r : Rec) (name : String) : Val :=
  if name == "query_name" then .s r.qname
  else if name == "query_length" then .n r.qlen
  else if name == "query_start" then .n r.qs
  else if name == "query_end" then .n r.qe
  else if name == "strand" then .s r.strand
  else if name == "path" then .s r.path
  else if name == "path_length" then .n r.plen
  else if name == "path_start" then .n r.ps
  else if name == "path_end" then .n r.pe
  else if name == "residue_matches" then .n r.nmatch
  else if name == "alignment_block_length" then .n r.blen
  else if name == "mapping_quality" then .n r.mapq
  else .s []

/-- every attribute of an accepted record holds what the table reads from its column -/
theorem parseFields_columns (fs : List Str) (r : Rec) (h : parseFields fs = some r) :
    readAll fs = some (Gen.columns.map (fun c => fieldOf r c.1)) := by
  unfold parseFields at h
  split at h
  · split at h
    · rename_i hd
      simp only [Bool.and_eq_true] at hd
      obtain ⟨⟨⟨⟨⟨⟨⟨⟨h1, h2⟩, h3⟩, h6⟩, h7⟩, h8⟩, h9⟩, h10⟩, h11⟩ := hd
      injection h with h
      subst h
      simp [readAll, Gen.columns, readCol, fieldOf, h1, h2, h3, h6, h7, h8, h9, h10, h11]
    · cases h
  · cases h

/-- a line of at least twelve columns that the model rejects is rejected by the table as well (a numeric column is not digits) -/
theorem parseFields_rejects (fs : List Str) (hl : 12 ≤ fs.length) (h : parseFields fs = none) : readAll fs = none := by
  unfold parseFields at h
  split at h
  · split at h
    · cases h
    · rename_i f0 f1 f2 f3 f4 f5 f6 f7 f8 f9 f10 f11 opt hd
      by_cases e1 : isDigits f1 = true
      case neg => simp [readAll, Gen.columns, readCol, e1]
      by_cases e2 : isDigits f2 = true
      case neg => simp [readAll, Gen.columns, readCol, e2]
      by_cases e3 : isDigits f3 = true
      case neg => simp [readAll, Gen.columns, readCol, e3]
      by_cases e6 : isDigits f6 = true
      case neg => simp [readAll, Gen.columns, readCol, e6]
      by_cases e7 : isDigits f7 = true
      case neg => simp [readAll, Gen.columns, readCol, e7]
      by_cases e8 : isDigits f8 = true
      case neg => simp [readAll, Gen.columns, readCol, e8]
      by_cases e9 : isDigits f9 = true
      case neg => simp [readAll, Gen.columns, readCol, e9]
      by_cases e10 : isDigits f10 = true
      case neg => simp [readAll, Gen.columns, readCol, e10]
      by_cases e11 : isDigits f11 = true
      case neg => simp [readAll, Gen.columns, readCol, e11]
      simp [e1, e2, e3, e6, e7, e8, e9, e10, e11] at hd
  · rename_i hne
    exfalso
    rcases fs with _ | ⟨f0, _ | ⟨f1, _ | ⟨f2, _ | ⟨f3, _ | ⟨f4, _ | ⟨f5, _ | ⟨f6, _ | ⟨f7, _ | ⟨f8, _ | ⟨f9, _ | ⟨f10, _ | ⟨f11, opt⟩⟩⟩⟩⟩⟩⟩⟩⟩⟩⟩⟩ <;>
      simp at hl
    exact hne _ _ _ _ _ _ _ _ _ _ _ _ _ rfl

/-- the tags, the CIGAR and the primary flag of an accepted record are the fold of the generated loop body over the optional fields -/
theorem parseFields_tags (fs : List Str) (r : Rec) (h : parseFields fs = some r) :
    let st := (fs.drop 12).foldl (fun st k => match tagSplit k with
      | none => st
      | some (p, v) => Gen.tagBody st p v) ⟨[], [], true⟩
    r.tags = st.tags ∧ r.cigar = st.cigar ∧ r.isPrimary = st.isPrimary := by
  have hfun : (fun (st : TagSt) (k : Str) => match tagSplit k with
      | none => st
      | some (p, v) => Gen.tagBody st p v) = tagStep := by
    funext st k; exact (tagStep_gen st k).symm
  simp only [hfun]
  unfold parseFields at h
  split at h
  · split at h
    · injection h with h
      subst h
      simp
    · cases h
  · cases h

/-! ## `Alignment.__str__` -/

def render : Val → Str
  | .s x => x
  | .n x => dec x

theorem mandatory_gen (r : Rec) : mandatory r = Gen.strArgs.map (fun a => render (fieldOf r a)) := by
  simp [mandatory, Gen.strArgs, fieldOf, render]

/-- the format of the mandatory columns: as many tab-separated placeholders as arguments, each `%s` or `%d` -/
def placeholders (fmt : String) : List Str := splitTab fmt.toList

theorem strFormat_gen :
    (placeholders Gen.strFormat).length = Gen.strArgs.length ∧
    (placeholders Gen.strFormat).all (fun p => p == "%s".toList || p == "%d".toList) = true := by
  decide

theorem printTags_gen (r : Rec) :
    printTags r = if Gen.strSetsCg (!r.cigar.isEmpty) (dictHas r.tags cgKey) then dictSet r.tags cgKey r.cigar else r.tags := by
  unfold printTags Gen.strSetsCg
  rfl

theorem strTagFormat_gen : Gen.strTagFormat.toList = '\t' :: "%s%s".toList := by decide

/-! ## `phase.add_phase_info` -/

open Gaftools.Phase

/-- `fmt % args` for `%s` / `%d` placeholders over already rendered arguments -/
def fillFmt : List Char → List Str → Str
  | '%' :: 's' :: rest, a :: as => a ++ fillFmt rest as
  | '%' :: 'd' :: rest, a :: as => a ++ fillFmt rest as
  | c :: rest, as => c :: fillFmt rest as
  | [], _ => []

def phaseArg (e : TsvEntry) (name : String) : Str :=
  if name == "chr" then e.chr else if name == "pset" then e.pset else if name == "hap" then e.hap else []

/-- the two phase fields as one piece of text, each preceded by a tab — what the tool writes after the mandatory columns -/
def phaseText (phase : List TsvEntry) (q : Str) : Str :=
  ((phaseTags phase q).map (fun f => '\t' :: f)).flatten

theorem phaseTags_gen (phase : List TsvEntry) (q : Str) :
    phaseText phase q =
      match lookupPhase phase q with
      | some e =>
        if Gen.phaseIsPhased true (e.hap == noneStr) then fillFmt Gen.phasedFormat.toList (Gen.phasedArgs.map (phaseArg e))
        else Gen.unphasedText.toList
      | none =>
        if Gen.phaseIsPhased false true then [] else Gen.unphasedText.toList := by
  unfold phaseText phaseTags
  cases lookupPhase phase q with
  | none => simp [Gen.phaseIsPhased]; decide
  | some e =>
    simp only [Gen.phaseIsPhased, Bool.true_and]
    by_cases hh : e.hap = noneStr
    · simp [hh]; decide
    · have : (e.hap != noneStr) = true := by simpa using hh
      simp [this, hh, Gen.phasedFormat, Gen.phasedArgs, phaseArg, fillFmt]

theorem phaseMandatory_gen (r : Rec) :
    mandatory r = Gen.phaseArgs.map (fun a => render (fieldOf r a)) ∧
    (placeholders Gen.phaseFormat).length = Gen.phaseArgs.length ∧
    (placeholders Gen.phaseFormat).all (fun p => p == "%s".toList || p == "%d".toList) = true ∧
    Gen.phaseTagFormat.toList = '\t' :: "%s%s".toList := by
  refine ⟨by simp [mandatory, Gen.phaseArgs, fieldOf, render], ?_⟩
  decide

end Gaftools.TieA
