import Gaftools.Model.Realign
import Gaftools.Proofs.RealignLemmas
import Gaftools.Props.C11b
import Gaftools.Gen.RealignBatch
/-!
# Tie A for the sequential part of `realign_gaf` (C11): batches, rounds, priorities, the drain of the priority queue

`Gen/RealignBatch.lean` is regenerated from `gaftools/cli/realign.py` on every run: `realign_gaf` WITHOUT its two collector loops
(those are `Gen/Collector.lean` / `Props/TieA3.lean`), translated statement by statement into a state-passing function —

* `Gen.batchSize`: the constant batch size (and the verification hook that replaces it);
* `Gen.initSt`, `Gen.recStep` (the body of `for line in gaf_file.read_file()`: the tuple appended to `seq_batch` with the running
  `priority_counter`, the test against `batch_size`, the `continue`, the `mp.Process` appended to `processes`, the test against
  `cores`, `start()`, the collector loop as an oracle `coll`, the drain `for _ in range(len(p_queue.queue)): output.write(p_queue.get().seq)`,
  the resets), `Gen.leftover` (the statements after the loop), `Gen.realignGaf` (the whole);
* `Gen.workerPrio / workerPuts / workerTail / workerTodo`: what `wfa_alignment` puts on the queue for its batch.

The theorems say that the model of C11 — `Realign.groups` (= `chunks cores (chunks batchSize records)`), `Realign.init`,
`Realign.output` (= `sortNat got`) and `C11.fileOutput` — is exactly what this program computes:

* `realignGaf_runs`     the processes on which the collector loops are executed, in order, are the `groups` of the records, every
                         record carrying its input position as priority, every process started;
* `realignGaf_out`      what is written is, round after round, the sorted content of the priority queue (the drain IS `sortNat`);
* `init_gen`            the initial state of the protocol for a round is the workers with the translated `workerTodo`;
* `realignGaf_fileOutput`  with the collector loops run under schedules `scheds`, the written file IS `C11.fileOutput`;
* `realignGaf_in_order` hence (C11) the file is the input order.

There is NO hypothesis on `batch_size` and `cores`: they are Python integers (`Int`); a value `≤ 0` behaves like `0` in the source (the
tests `len(seq_batch) != batch_size`, `len(processes) == cores` never / always hold) and `Int.toNat` maps it to the `0` of the model,
for which `chunks 0` gives the same single batch / single round.
-/
namespace Gaftools.TieA
open Gaftools.Realign Gaftools.Gen.RealignBatch

/-- the state of the translated program (`St` alone is also the state of the protocol) -/
abbrev RSt := Gaftools.Gen.RealignBatch.St

/-! ## the priority queue: draining it is sorting -/

theorem rb_minOf_mem (m : Nat) (l : List Nat) : minOf m l ∈ m :: l := by
  induction l generalizing m with
  | nil => simp [minOf]
  | cons x xs ih =>
    simp only [minOf]
    have := ih (if x < m then x else m)
    rcases List.mem_cons.mp this with h | h
    · rw [h]; split <;> simp
    · exact List.mem_cons_of_mem _ (List.mem_cons_of_mem _ h)

theorem rb_minOf_le (m : Nat) (l : List Nat) : ∀ y ∈ m :: l, minOf m l ≤ y := by
  induction l generalizing m with
  | nil => intro y hy; simp [minOf] at *; omega
  | cons x xs ih =>
    intro y hy
    simp only [minOf]
    have h0 := ih (if x < m then x else m) _ List.mem_cons_self
    rcases List.mem_cons.mp hy with rfl | hy
    · by_cases hxm : x < y <;> simp only [hxm, if_true, if_false] at h0 ⊢ <;> omega
    · rcases List.mem_cons.mp hy with rfl | hy
      · by_cases hxm : y < m <;> simp only [hxm, if_true, if_false] at h0 ⊢ <;> omega
      · exact ih _ y (List.mem_cons_of_mem _ hy)

/-- the smallest entry first, then the rest sorted, is the whole sorted -/
theorem rb_min_cons_sort (m : Nat) (q : List Nat) (hm : m ∈ q) (hle : ∀ y ∈ q, m ≤ y) :
    m :: sortNat (q.erase m) = sortNat q := by
  apply Proofs.Realign.sorted_perm_eq
  · refine List.pairwise_cons.2 ⟨?_, Proofs.Realign.sortNat_sorted _⟩
    intro a ha
    exact hle a (List.mem_of_mem_erase ((Proofs.Realign.sortNat_perm _).mem_iff.1 ha))
  · exact Proofs.Realign.sortNat_sorted _
  · exact ((List.Perm.cons m (Proofs.Realign.sortNat_perm _)).trans (List.perm_cons_erase hm).symm).trans
      (Proofs.Realign.sortNat_perm q).symm

/-- one `output.write(p_queue.get().seq)` -/
def rbDrain1 (σ : RSt) : RSt :=
  match pqGet σ.p_queue with
  | none => σ
  | some r => { σ with p_queue := r.2, out := σ.out ++ [r.1] }

/-- as many `get`s as the queue has entries write its content in sorted order and leave it empty -/
theorem rb_drain (is : List Nat) (σ : RSt) (h : is.length = σ.p_queue.length) :
    is.foldl (fun (σ : RSt) _ => rbDrain1 σ) σ = { σ with p_queue := [], out := σ.out ++ sortNat σ.p_queue } := by
  induction is generalizing σ with
  | nil =>
    have hq : σ.p_queue = [] := List.eq_nil_of_length_eq_zero (by simpa using h.symm)
    cases σ
    simp_all [sortNat]
  | cons i is ih =>
    cases hq : σ.p_queue with
    | nil => simp [hq] at h
    | cons x xs =>
      have hm := rb_minOf_mem x xs
      have hle := rb_minOf_le x xs
      rw [List.foldl_cons]
      have h1 : rbDrain1 σ = { σ with p_queue := (x :: xs).erase (minOf x xs), out := σ.out ++ [minOf x xs] } := by
        simp [rbDrain1, hq, pqGet]
      rw [h1, ih]
      · simp only [List.append_assoc, List.singleton_append, rb_min_cons_sort _ _ hm hle]
      · simp only [List.length_erase_of_mem hm]
        rw [hq] at h
        simp only [List.length_cons] at h ⊢
        omega

/-! ## cutting a list into chunks, one element at a time -/

/-- add one element to the chunk being filled; a full chunk is moved to the finished ones -/
def rbFeed {α : Type} (k : Nat) (st : List (List α) × List α) (x : α) : List (List α) × List α :=
  if st.2.length + 1 = k then (st.1 ++ [st.2 ++ [x]], []) else (st.1, st.2 ++ [x])

/-- at the end a chunk that is not full counts if it is not empty -/
def rbFinish {α : Type} (st : List (List α) × List α) : List (List α) :=
  if st.2.isEmpty then st.1 else st.1 ++ [st.2]

theorem rb_chunks_nil {α : Type} (k fuel : Nat) : chunks k fuel ([] : List α) = [] := by
  cases fuel <;> simp [chunks]

theorem rb_chunks_stream_aux {α : Type} (k : Nat) (l : List α) : ∀ (done : List (List α)) (cur : List α) (fuel : Nat),
    (k = 0 ∨ cur.length < k) → (cur ++ l).length < fuel →
    rbFinish (l.foldl (rbFeed k) (done, cur)) = done ++ chunks k fuel (cur ++ l) := by
  induction l with
  | nil =>
    intro done cur fuel hk hf
    simp only [List.foldl_nil, List.append_nil, rbFinish]
    cases cur with
    | nil => simp [rb_chunks_nil]
    | cons a t =>
      obtain ⟨f, rfl⟩ : ∃ f, fuel = f + 1 := ⟨fuel - 1, by omega⟩
      simp only [List.isEmpty_cons, Bool.false_eq_true, if_false, chunks]
      by_cases h0 : k = 0
      · simp [h0]
      · have hlt : (a :: t).length ≤ k := by omega
        simp only [h0, if_false, List.take_of_length_le hlt, List.drop_eq_nil_of_le hlt, rb_chunks_nil]
  | cons x l ih =>
    intro done cur fuel hk hf
    obtain ⟨f, rfl⟩ : ∃ f, fuel = f + 1 := ⟨fuel - 1, by omega⟩
    rw [List.foldl_cons]
    have hsplit : cur ++ x :: l = (cur ++ [x]) ++ l := by simp
    by_cases hfull : cur.length + 1 = k
    · have h0 : k ≠ 0 := by omega
      have hfeed : rbFeed k (done, cur) x = (done ++ [cur ++ [x]], []) := by simp [rbFeed, hfull]
      rw [hfeed, ih _ [] f (Or.inr (by simp; omega)) (by simp at hf ⊢; omega)]
      have hne : cur ++ x :: l ≠ [] := by simp
      have hlen : (cur ++ [x]).length = k := by simp [hfull]
      cases hc : cur ++ x :: l with
      | nil => exact absurd hc hne
      | cons a t =>
        simp only [chunks, h0, if_false]
        rw [← hc, hsplit, List.take_left' hlen, List.drop_left' hlen]
        simp
    · have hfeed : rbFeed k (done, cur) x = (done, cur ++ [x]) := by simp [rbFeed, hfull]
      rw [hfeed, ih done (cur ++ [x]) (f + 1) (by rcases hk with h | h; exact Or.inl h; exact Or.inr (by simp; omega))
        (by simp at hf ⊢; omega), hsplit]

/-- `chunks` (defined with fuel, by `take` / `drop`) is the one-pass algorithm -/
theorem rb_chunks_stream {α : Type} (k fuel : Nat) (l : List α) (h : l.length < fuel) :
    chunks k fuel l = rbFinish (l.foldl (rbFeed k) ([], [])) := by
  rw [rb_chunks_stream_aux k l [] [] fuel (by simp only [List.length_nil]; omega) (by simpa using h)]
  simp

theorem rb_chunks_length {α : Type} (k fuel : Nat) (l : List α) : (chunks k fuel l).length ≤ l.length := by
  by_cases hk : 0 < k
  · exact Proofs.Realign.chunks_length k hk fuel l
  · have h0 : k = 0 := by omega
    subst h0
    cases fuel with
    | zero => simp [chunks]
    | succ f =>
      cases l with
      | nil => simp [chunks]
      | cons a t => simp [chunks]

theorem rb_chunks_map {α β : Type} (g : α → β) (k fuel : Nat) (l : List α) :
    chunks k fuel (l.map g) = (chunks k fuel l).map (List.map g) := by
  induction fuel generalizing l with
  | zero => simp [chunks]
  | succ f ih =>
    cases l with
    | nil => simp [chunks]
    | cons a t =>
      simp only [List.map_cons, chunks]
      split
      · simp
      · rw [← List.map_cons, ← List.map_take, ← List.map_drop, ih]
        simp

/-! ## the loop over the records -/

/-- the batches cut from the first records: (finished, being filled); a record is paired with its input position -/
def rbLvl1 (b : Nat) (lines : List Nat) : List (List Item) × List Item := lines.zipIdx.foldl (rbFeed b) ([], [])

/-- … and the finished batches cut into rounds: (finished rounds, batches waiting for a round) -/
def rbLvl2 (b c : Nat) (lines : List Nat) : List (List (List Item)) × List (List Item) :=
  (rbLvl1 b lines).1.foldl (rbFeed c) ([], [])

def rbFresh (r : List (List Item)) : List Proc := r.map (fun x => ⟨x, false⟩)
def rbStarted (r : List (List Item)) : List Proc := r.map (fun x => ⟨x, true⟩)

/-- what has been written after the rounds `rs` (the first of them is the `k`-th execution of a collector loop) -/
def rbWritten (coll : Nat → List Proc → List Nat) : Nat → List (List Proc) → List Nat
  | _, [] => []
  | k, r :: rs => sortNat (coll k r) ++ rbWritten coll (k + 1) rs

theorem rbWritten_snoc (coll : Nat → List Proc → List Nat) (k : Nat) (rs : List (List Proc)) (r : List Proc) :
    rbWritten coll k (rs ++ [r]) = rbWritten coll k rs ++ sortNat (coll (k + rs.length) r) := by
  induction rs generalizing k with
  | nil => simp [rbWritten]
  | cons a rs ih =>
    simp only [List.cons_append, rbWritten, ih, List.length_cons, List.append_assoc]
    rw [show k + 1 + rs.length = k + (rs.length + 1) by omega]

/-- the variables of the program after the records `lines`, in closed form -/
def rbState (b c : Nat) (coll : Nat → List Proc → List Nat) (lines : List Nat) : RSt :=
  { processes := rbFresh (rbLvl2 b c lines).2
    seq_batch := (rbLvl1 b lines).2
    priority_counter := lines.length
    p_queue := []
    runs := (rbLvl2 b c lines).1.map rbStarted
    out := rbWritten coll 0 ((rbLvl2 b c lines).1.map rbStarted) }

theorem rbLvl1_snoc (b : Nat) (lines : List Nat) (x : Nat) :
    rbLvl1 b (lines ++ [x]) = rbFeed b (rbLvl1 b lines) (x, lines.length) := by
  simp [rbLvl1, List.zipIdx_append, List.foldl_append]

/-- the drain as the translation writes it -/
theorem rb_drain_f (f : RSt → Nat → RSt) (hf : ∀ σ i, f σ i = rbDrain1 σ) (n : Int) (σ : RSt) (hn : n = σ.p_queue.length) :
    (List.range n.toNat).foldl f σ = { σ with p_queue := [], out := σ.out ++ sortNat σ.p_queue } := by
  have : f = fun σ _ => rbDrain1 σ := by funext σ i; exact hf σ i
  subst this
  exact rb_drain _ σ (by simp [hn])

/-- one round: a fresh priority queue, `start()` on every process, the collector loop, the drain -/
def rbRound (coll : Nat → List Proc → List Nat) (σ : RSt) : RSt :=
  let σ : RSt := { σ with p_queue := [] }
  let σ : RSt := { σ with processes := σ.processes.map (fun p => { p with started := true }) }
  let σ : RSt := { σ with p_queue := σ.p_queue ++ coll σ.runs.length σ.processes, runs := σ.runs ++ [σ.processes] }
  (List.range ((σ.p_queue.length : Int)).toNat).foldl (fun (σ : RSt) _ => rbDrain1 σ) σ

theorem rbRound_eq (coll : Nat → List Proc → List Nat) (σ : RSt) :
    rbRound coll σ = { σ with processes := σ.processes.map (fun p => { p with started := true }), p_queue := [],
                              runs := σ.runs ++ [σ.processes.map (fun p => { p with started := true })],
                              out := σ.out ++ sortNat (coll σ.runs.length (σ.processes.map (fun p => { p with started := true }))) } := by
  unfold rbRound
  simp only []
  rw [rb_drain_f _ (fun _ _ => rfl) _ _ rfl]
  simp

/-- the translated body of the loop, with its round named -/
theorem rb_recStep_shape (bs cs : Int) (coll : Nat → List Proc → List Nat) (σ : RSt) (x : Nat) :
    recStep bs cs coll σ x =
      (let σ1 : RSt := { σ with seq_batch := σ.seq_batch ++ [(x, σ.priority_counter)], priority_counter := σ.priority_counter + 1 }
       if ((σ1.seq_batch.length : Int) != bs) then σ1
       else
         let σ2 : RSt := { σ1 with processes := σ1.processes ++ [⟨σ1.seq_batch, false⟩], seq_batch := [] }
         if ((σ2.processes.length : Int) == cs) then { rbRound coll σ2 with processes := [], p_queue := [] } else σ2) := by
  first | rfl | (unfold recStep rbRound; rfl)

theorem rb_leftover_shape (bs cs : Int) (coll : Nat → List Proc → List Nat) (σ : RSt) :
    leftover bs cs coll σ =
      (let σ1 : RSt := if decide ((σ.seq_batch.length : Int) > 0) then { σ with processes := σ.processes ++ [⟨σ.seq_batch, false⟩] } else σ
       if ((σ1.processes.length : Int) != 0) then rbRound coll σ1 else σ1) := by
  first | rfl | (unfold leftover rbRound; rfl)

/-- the variables of the program as a function of the two levels of cutting -/
def rbMk (coll : Nat → List Proc → List Nat) (n : Nat) (L1 : List (List Item) × List Item)
    (L2 : List (List (List Item)) × List (List Item)) : RSt :=
  { processes := rbFresh L2.2, seq_batch := L1.2, priority_counter := n, p_queue := [],
    runs := L2.1.map rbStarted, out := rbWritten coll 0 (L2.1.map rbStarted) }

theorem rb_step_mk (bs cs : Int) (coll : Nat → List Proc → List Nat) (n x : Nat) (B : List (List Item)) (cur : List Item)
    (R : List (List (List Item))) (P : List (List Item)) :
    recStep bs cs coll (rbMk coll n (B, cur) (R, P)) x =
      rbMk coll (n + 1) (rbFeed bs.toNat (B, cur) (x, n))
        (if cur.length + 1 = bs.toNat then rbFeed cs.toNat (R, P) (cur ++ [(x, n)]) else (R, P)) := by
  rw [rb_recStep_shape]
  by_cases hfull : cur.length + 1 = bs.toNat
  · have hc : (((cur ++ [(x, n)]).length : Int) != bs) = false := by
      simp only [List.length_append, List.length_cons, List.length_nil, bne_eq_false_iff_eq]; omega
    by_cases hfull2 : P.length + 1 = cs.toNat
    · have hc2 : (((rbFresh P ++ [(⟨cur ++ [(x, n)], false⟩ : Proc)]).length : Int) == cs) = true := by
        simp only [rbFresh, List.length_append, List.length_map, List.length_cons, List.length_nil, beq_iff_eq]; omega
      simp only [rbMk, rbFeed, hfull, hfull2, if_true, hc, hc2, Bool.false_eq_true, if_false, rbRound_eq]
      simp [rbFresh, rbStarted, rbWritten_snoc, Function.comp_def]
    · have hc2 : (((rbFresh P ++ [(⟨cur ++ [(x, n)], false⟩ : Proc)]).length : Int) == cs) = false := by
        simp only [rbFresh, List.length_append, List.length_map, List.length_cons, List.length_nil, beq_eq_false_iff_ne, ne_eq]; omega
      simp only [rbMk, rbFeed, hfull, hfull2, if_true, hc, hc2, Bool.false_eq_true, if_false]
      simp [rbFresh]
  · have hc : (((cur ++ [(x, n)]).length : Int) != bs) = true := by
      simp only [List.length_append, List.length_cons, List.length_nil, bne_iff_ne, ne_eq]; omega
    simp only [rbMk, rbFeed, hfull, hc, if_true, if_false]

theorem rbState_eq (b c : Nat) (coll : Nat → List Proc → List Nat) (lines : List Nat) :
    rbState b c coll lines = rbMk coll lines.length (rbLvl1 b lines) (rbLvl2 b c lines) := rfl

theorem rbLvl2_snoc (b c : Nat) (lines : List Nat) (x : Nat) :
    rbLvl2 b c (lines ++ [x]) =
      (if (rbLvl1 b lines).2.length + 1 = b then rbFeed c (rbLvl2 b c lines) ((rbLvl1 b lines).2 ++ [(x, lines.length)])
       else rbLvl2 b c lines) := by
  by_cases h : (rbLvl1 b lines).2.length + 1 = b
  · have hf : rbFeed b (rbLvl1 b lines) (x, lines.length)
        = ((rbLvl1 b lines).1 ++ [(rbLvl1 b lines).2 ++ [(x, lines.length)]], []) := by simp [rbFeed, h]
    simp only [rbLvl2, rbLvl1_snoc, hf, h, if_true, List.foldl_append, List.foldl_cons, List.foldl_nil]
  · have hf : rbFeed b (rbLvl1 b lines) (x, lines.length) = ((rbLvl1 b lines).1, (rbLvl1 b lines).2 ++ [(x, lines.length)]) := by
      simp [rbFeed, h]
    simp only [rbLvl2, rbLvl1_snoc, hf, h, if_false]

theorem rb_recStep (bs cs : Int) (coll : Nat → List Proc → List Nat) (lines : List Nat) (x : Nat) :
    recStep bs cs coll (rbState bs.toNat cs.toNat coll lines) x = rbState bs.toNat cs.toNat coll (lines ++ [x]) := by
  rw [rbState_eq, rbState_eq, rbLvl1_snoc, rbLvl2_snoc, List.length_append]
  exact rb_step_mk bs cs coll lines.length x _ _ _ _

theorem rb_foldl_closed {σ α : Type} (f : σ → α → σ) (S : List α → σ) (h : ∀ l x, f (S l) x = S (l ++ [x])) (l : List α) :
    l.foldl f (S []) = S l := by
  have : ∀ (l pre : List α), l.foldl f (S pre) = S (pre ++ l) := by
    intro l
    induction l with
    | nil => intro pre; simp
    | cons x l ih => intro pre; rw [List.foldl_cons, h, ih]; simp
  simpa using this l []

/-- the loop over the records, in closed form -/
theorem rb_loop (bs cs : Int) (coll : Nat → List Proc → List Nat) (lines : List Nat) :
    lines.foldl (recStep bs cs coll) initSt = rbState bs.toNat cs.toNat coll lines := by
  have h0 : initSt = rbState bs.toNat cs.toNat coll [] := by first | rfl | decide
  rw [h0]
  exact rb_foldl_closed (recStep bs cs coll) (rbState bs.toNat cs.toNat coll) (rb_recStep bs cs coll) lines

/-! ## after the loop -/

/-- the rounds once the leftover batch and the leftover round are counted -/
def rbFinal (L1 : List (List Item) × List Item) (L2 : List (List (List Item)) × List (List Item)) : List (List (List Item)) :=
  if L1.2.isEmpty then rbFinish L2 else L2.1 ++ [L2.2 ++ [L1.2]]

theorem rb_leftover_mk (bs cs : Int) (coll : Nat → List Proc → List Nat) (n : Nat) (B : List (List Item)) (cur : List Item)
    (R : List (List (List Item))) (P : List (List Item)) :
    (leftover bs cs coll (rbMk coll n (B, cur) (R, P))).runs = (rbFinal (B, cur) (R, P)).map rbStarted ∧
    (leftover bs cs coll (rbMk coll n (B, cur) (R, P))).out = rbWritten coll 0 ((rbFinal (B, cur) (R, P)).map rbStarted) := by
  rw [rb_leftover_shape]
  cases cur with
  | nil =>
    cases P with
    | nil => simp [rbMk, rbFinal, rbFinish, rbFresh]
    | cons p ps =>
      have hne : ¬ ((ps.length : Int) + 1 = 0) := by omega
      simp only [rbMk, List.length_nil, rbRound_eq, rbFinal, rbFinish]
      simp [rbFresh, rbStarted, rbWritten_snoc, Function.comp_def, hne]
  | cons a t =>
    have hne : ¬ ((P.length : Int) + 1 = 0) := by omega
    simp only [rbMk, rbRound_eq, rbFinal]
    simp [rbFresh, rbStarted, rbWritten_snoc, Function.comp_def, hne]

/-- the records paired with their positions, cut into batches of `b`, the batches into rounds of `c` (`Realign.groups` on the pairs) -/
def rbGroups (b c : Nat) (lines : List Nat) : List (List (List Item)) :=
  chunks c (lines.length + 1) (chunks b (lines.length + 1) lines.zipIdx)

theorem rbGroups_final (b c : Nat) (lines : List Nat) : rbGroups b c lines = rbFinal (rbLvl1 b lines) (rbLvl2 b c lines) := by
  unfold rbGroups
  have hlen : (chunks b (lines.length + 1) lines.zipIdx).length < lines.length + 1 := by
    have := rb_chunks_length b (lines.length + 1) lines.zipIdx
    simp only [List.length_zipIdx] at this
    omega
  rw [rb_chunks_stream c _ _ hlen, rb_chunks_stream b _ lines.zipIdx (by simp)]
  unfold rbFinal rbLvl2 rbLvl1
  generalize lines.zipIdx.foldl (rbFeed b) ([], []) = L1
  obtain ⟨B, cur⟩ := L1
  cases cur with
  | nil => simp [rbFinish]
  | cons a t =>
    simp only [rbFinish, List.isEmpty_cons, Bool.false_eq_true, if_false, List.foldl_append, List.foldl_cons, List.foldl_nil]
    generalize B.foldl (rbFeed c) ([], []) = L2
    obtain ⟨R, P⟩ := L2
    simp only [rbFeed]
    split <;> simp

/-! ## the theorems -/

/-- ROUNDS.  The processes on which `realign_gaf` executes its collector loops, in order: the records, each paired with its position
    in the input as priority, cut into batches of `batch_size`, the batches cut into rounds of `cores` — the leftover batch and
    the leftover round included —, every process started.  For every `batch_size`, `cores` (also `≤ 0`) and every collector. -/
theorem realignGaf_runs (bs cs : Int) (coll : Nat → List Proc → List Nat) (lines : List Nat) :
    (realignGaf bs cs coll lines).runs = (rbGroups bs.toNat cs.toNat lines).map rbStarted := by
  unfold realignGaf
  rw [rb_loop, rbState_eq, rbGroups_final]
  exact (rb_leftover_mk bs cs coll _ _ _ _ _).1

/-- OUTPUT.  What is written: round after round, the content of the priority queue after the collector loop, sorted (the drain
    `for _ in range(len(p_queue.queue)): output.write(p_queue.get().seq)` IS `sortNat`, i.e. `Realign.output`) -/
theorem realignGaf_out (bs cs : Int) (coll : Nat → List Proc → List Nat) (lines : List Nat) :
    (realignGaf bs cs coll lines).out = rbWritten coll 0 (realignGaf bs cs coll lines).runs := by
  rw [realignGaf_runs]
  unfold realignGaf
  rw [rb_loop, rbState_eq, rbGroups_final]
  exact (rb_leftover_mk bs cs coll _ _ _ _ _).2

/-- the priorities in the rounds are `Realign.groups` of the input positions `0 … n-1` (the object of `C11.groups_flatten`,
    `C11.file_output_in_order`) -/
theorem rbGroups_prios (b c : Nat) (lines : List Nat) :
    (rbGroups b c lines).map (List.map (List.map Prod.snd)) = groups b c (List.range lines.length) := by
  unfold rbGroups groups
  rw [← rb_chunks_map, ← rb_chunks_map, List.zipIdx_map_snd, ← List.range_eq_range', List.length_range]

/-- … and the records in them are the input, cut the same way -/
theorem rbGroups_records (b c : Nat) (lines : List Nat) :
    (rbGroups b c lines).map (List.map (List.map Prod.fst)) = chunks c (lines.length + 1) (chunks b (lines.length + 1) lines) := by
  unfold rbGroups
  rw [← rb_chunks_map, ← rb_chunks_map, List.zipIdx_map_fst]

/-- the component of a batch element that a worker uses as priority of its result is the priority counter -/
theorem workerPrio_gen (t : Item) : workerPrio t = t.2 := by first | rfl | simp [workerPrio]

/-- WORKER.  For its batch a worker puts one result per element, in batch order, with the element's priority, then the sentinel:
    the `todo` of a worker in `Realign.init` -/
theorem workerTodo_gen (conds : Item → Nat → Bool) (batch : List Item) :
    workerTodo conds batch = (batch.map workerPrio).map Msg.item ++ [Msg.sentinel] := by
  have h1 : ∀ t, workerPuts (conds t) t = [Msg.item (workerPrio t)] := by
    intro t
    unfold workerPuts
    first | rfl | simp | (split <;> rfl)
  unfold workerTodo workerTail
  congr 1
  induction batch with
  | nil => rfl
  | cons a l ih => rw [List.flatMap_cons, h1, ih]; rfl

/-- the priorities a process works on -/
def rbPrios (p : Proc) : List Nat := p.batch.map workerPrio

/-- PROTOCOL.  The initial state of the collector protocol for a round (`Realign.init`, about which C11 / C13 are proved) is: one
    worker per process, running, with the translated list of puts; nothing in the pipe; `n_sentinels` as the source sets it -/
theorem init_gen (conds : Item → Nat → Bool) (ps : List Proc) :
    init (ps.map rbPrios) =
      { ws := ps.map (fun p => ⟨workerTodo conds p.batch, [], .running⟩), chan := [],
        pc := if ps.isEmpty then .done else .atGet, nSent := collectorInitMain, got := [] } ∧
    collectorInitLeft = collectorInitMain := by
  refine ⟨?_, by first | rfl | decide⟩
  simp only [init, List.map_map, List.isEmpty_map, workerTodo_gen]
  first | rfl | (simp [collectorInitMain, rbPrios, Function.comp_def])

/-- the collector loops as the protocol runs them: the `k`-th execution follows the schedule `scheds[k]`; the objects it puts into
    the priority queue are `got` -/
def rbColl (scheds : List (List Ev)) (k : Nat) (ps : List Proc) : List Nat :=
  (run (init (ps.map rbPrios)) (scheds.getD k [])).got

theorem rbWritten_scheds (scheds : List (List Ev)) (rs : List (List Proc)) : ∀ (k : Nat),
    rbWritten (rbColl scheds) k rs =
      ((rs.map (List.map rbPrios)).zip (scheds.drop k)).flatMap (fun p => output (run (init p.1) p.2)) := by
  induction rs with
  | nil => intro k; simp [rbWritten]
  | cons r rs ih =>
    intro k
    simp only [rbWritten, ih, List.map_cons]
    by_cases hk : k < scheds.length
    · have h3 : scheds.getD k [] = scheds[k] := by simp [List.getD, List.getElem?_eq_getElem hk]
      rw [List.drop_eq_getElem_cons hk]
      simp only [List.zip_cons_cons, List.flatMap_cons, rbColl, output, h3]
    · have h1 : scheds.drop k = [] := List.drop_eq_nil_of_le (by omega)
      have h2 : scheds.drop (k + 1) = [] := List.drop_eq_nil_of_le (by omega)
      have h3 : scheds.getD k [] = [] := by simp [List.getD, List.getElem?_eq_none (by omega : scheds.length ≤ k)]
      simp only [h1, h2, List.zip_nil_right, List.flatMap_nil, rbColl, h3, run, List.foldl_nil, init, sortNat, List.foldr_nil,
        List.append_nil]

/-- FILE.  With the collector loops run by the protocol under the schedules `scheds`, what the translated `realign_gaf` writes IS
    `C11.fileOutput` — for every `batch_size`, `cores`, input and choice of schedules -/
theorem realignGaf_fileOutput (bs cs : Int) (lines : List Nat) (scheds : List (List Ev)) :
    (realignGaf bs cs (rbColl scheds) lines).out = C11.fileOutput bs.toNat cs.toNat lines.length scheds := by
  rw [realignGaf_out, realignGaf_runs, rbWritten_scheds, C11.fileOutput, ← rbGroups_prios, List.drop_zero]
  congr 2
  simp only [List.map_map]
  apply List.map_congr_left
  intro g _
  simp only [Function.comp, rbStarted, List.map_map]
  apply List.map_congr_left
  intro x _
  simp [rbPrios, workerPrio_gen]

/-- C11 for the translated program: if every collector loop is left normally, the file is the input order, each record once -/
theorem realignGaf_in_order (bs cs : Int) (hb : 0 < bs) (hc : 0 < cs) (lines : List Nat) (scheds : List (List Ev))
    (hlen : scheds.length = (groups bs.toNat cs.toNat (List.range lines.length)).length)
    (hdone : ∀ p ∈ (groups bs.toNat cs.toNat (List.range lines.length)).zip scheds, (run (init p.1) p.2).pc = .done) :
    (realignGaf bs cs (rbColl scheds) lines).out = List.range lines.length := by
  rw [realignGaf_fileOutput]
  exact C11.file_output_in_order _ _ _ (by omega) (by omega) scheds hlen hdone

/-- the batch size: the constant of the source; under the verification hook the integer of the environment variable, if set -/
theorem batchSize_gen (env : Option Int) (v : Int) :
    batchSize false env = 1000 ∧ batchSize true (some v) = v ∧ batchSize true none = 1000 := by
  refine ⟨?_, ?_, ?_⟩ <;> first | rfl | simp [batchSize]

/-- so the hypothesis `0 < batchSize` of `C11.file_output_in_order` holds for the program as it is run -/
theorem batchSize_pos (env : Option Int) : 0 < (batchSize false env).toNat := by
  rw [(batchSize_gen env 0).1]; decide

/-! non-vacuity: seven records, batches of 2, rounds of 2; every collector delivers its round's results in reverse order -/
example : (realignGaf 2 2 (fun _ ps => (ps.flatMap rbPrios).reverse) [10, 11, 12, 13, 14, 15, 16]).runs.map (List.map rbPrios)
    = [[[0, 1], [2, 3]], [[4, 5], [6]]] := by decide
example : (realignGaf 2 2 (fun _ ps => (ps.flatMap rbPrios).reverse) [10, 11, 12, 13, 14, 15, 16]).out = [0, 1, 2, 3, 4, 5, 6] := by decide
example : ((realignGaf 2 2 (fun _ _ => []) [10, 11, 12]).runs.map (List.map (·.batch))) = [[[(10, 0), (11, 1)], [(12, 2)]]] := by decide
/-- `cores ≤ 0`: the test `len(processes) == cores` never holds, every batch waits for the leftover round -/
example : (realignGaf 2 (-1) (fun _ _ => []) [10, 11, 12, 13, 14]).runs.map (List.map rbPrios) = [[[0, 1], [2, 3], [4]]]
    ∧ groups 2 0 [0, 1, 2, 3, 4] = [[[0, 1], [2, 3], [4]]] := by decide

end Gaftools.TieA
