import Gaftools.Proofs.CliLemmas
/-!
# What the command-line layer guarantees  (model: `Model/Cli.lean`; correspondence: `harness/p_cli.py`, driver op `cli.parse`)

* `parse_items`, `parse_render` — a command line made of the sub-command name and well-read items (any order, any of the
  spellings) parses to exactly the values of the items; in particular the canonical rendering of a namespace (the harness's
  `_argv`) parses back to that namespace;
* `append_order`, `append_order_spellings`, `nodes_in_order`, `regions_in_order` — `-n` / `-r` accumulate in command-line order;
* `validate_view_iff`, `validate_sort_iff`, `validate_others` — the exact conditions of a refusal by `validate`;
* `dispatch_kwargs`, `kwargs_keys`, `kwargs_default`, `kwargs_defaults_bare` — an accepted command line calls the entry point
  of its sub-command with exactly the parsed values;
* `exit_codes`, `usage_touches_nothing`, `commandLineError_status`, `viewHead_error_iff`, `validated_no_assertion` — status 2 /
  status 1, no record written; **but** `commandLineError_truncates_output`: a `view` refused with status 1 has already opened
  (created or emptied) the file given with `-o`.

Every theorem is followed by a closed example showing that its hypotheses can be met.
-/
namespace Gaftools.CliProps
open Gaftools.Cli Gaftools.Proofs.Cli Gaftools.TextLayer

/-! ## 1. parsing the canonical rendering -/

/-- the string values of a namespace, as they appear on its canonical command line -/
def values : Opts → List String
  | .view o => [o.gaf_path] ++ o.gfa.toList ++ o.output.toList ++ o.index.toList ++ o.nodes ++ o.regions ++ o.format.toList
  | .index o => [o.gaf_path, o.gfa_path] ++ o.output.toList
  | .sort o => [o.gaf, o.gfa] ++ o.outgaf.toList ++ o.outind.toList
  | .stat o => [o.gaf_path] ++ o.output.toList
  | .phase o => [o.gaf_file, o.tsv_file] ++ (match o.output with | .stdoutObject => [] | .path p => [p])
  | .realign o => [o.gaf, o.graph, o.fasta] ++ o.output.toList
  | .find_path o => [o.gfa_path, o.input_path] ++ o.output.toList
  | .order_gfa o => [o.gfa_filename, o.outdir, o.chromosome_order]

/-- `int()` takes at most 4300 digits (`sys.get_int_max_str_digits()`) -/
def CoresOk : Opts → Prop
  | .realign r => (toString r.cores.natAbs).length ≤ maxStrDigits
  | _ => True

/-- the documented fragment: every string value is one the sub-parser classifies 'A' (a value, not an option): it is empty, or
    does not start with '-', or is "-", or looks like a negative number, or starts with '-', holds a blank and fits no option; the
    number of cores has at most 4300 digits (`int()` refuses more).  This is the weakest hypothesis possible for the values: a
    string the parser takes for an option cannot be given with `-x VALUE` (see the example after `parse_render`). -/
def Plain (o : Opts) : Prop := (∀ v ∈ values o, classify (table o.sub) v = .arg) ∧ CoresOk o

/-- a sufficient condition that needs no look at the tables: no value starts with '-' -/
theorem plain_of_nodash (o : Opts) (h : ∀ v ∈ values o, v.toList.head? ≠ some '-') (hc : CoresOk o) : Plain o :=
  ⟨fun v hv => classify_of_nodash _ v (h v hv), hc⟩

/-- any order, any spelling: the sub-command name followed by items each of which the sub-parser reads as intended
    (`Good`), with as many positionals as the sub-command has → the positional values in order and the stored values in
    command-line order -/
theorem parse_items (sub : Sub) (items : List Item) (hg : ∀ it ∈ items, Good (table sub) it)
    (hn : (items.flatMap Item.posv).length = (positionals sub).length) :
    parseArgs (sub.name :: items.flatMap Item.toks)
      = (match build sub (items.flatMap Item.posv) (items.flatMap Item.ev) with
         | some o => .ok ⟨false, o⟩
         | none => .error (.usage .required)) := by
  unfold parseArgs
  rw [parseTrace_items sub items hg hn]
  rfl

example : parseArgs ["realign", "--cores=4", "a.gaf", "-oout", "g.gfa", "r.fa"]
    = .ok ⟨false, .realign { gaf := "a.gaf", graph := "g.gfa", fasta := "r.fa", output := some "out", cores := 4 }⟩ := by decide +kernel

theorem fold_nodes (o : ViewOpts) (ns : List String) :
    (ns.map (fun n => (("nodes", Val.str n) : Event))).foldl ViewOpts.apply o = { o with nodes := o.nodes ++ ns } := by
  induction ns generalizing o with
  | nil => simp
  | cons n ns ih => simp [ih, ViewOpts.apply]

theorem fold_regions (o : ViewOpts) (rs : List String) :
    (rs.map (fun r => (("regions", Val.str r) : Event))).foldl ViewOpts.apply o = { o with regions := o.regions ++ rs } := by
  induction rs generalizing o with
  | nil => simp
  | cons r rs ih => simp [ih, ViewOpts.apply]

theorem parse_render_of (o : Opts) (hg : ∀ it ∈ itemsOf o, Good (table o.sub) it)
    (hn : ((itemsOf o).flatMap Item.posv).length = (positionals o.sub).length)
    (hb : build o.sub ((itemsOf o).flatMap Item.posv) ((itemsOf o).flatMap Item.ev) = some o) :
    parseArgs (render o) = .ok ⟨false, o⟩ := by
  rw [render_items, parse_items _ _ hg hn, hb]

theorem parse_render_view (o : ViewOpts) (h : Plain (.view o)) : parseArgs (render (.view o)) = .ok ⟨false, .view o⟩ := by
  have hv : ∀ v ∈ values (.view o), IsValue (table .view) v := fun v hm => (isValue_iff .view v).mpr (h.1 v hm)
  have hg : ∀ it ∈ itemsOf (.view o), Good (table .view) it := by
    intro it hit
    simp only [itemsOf, List.mem_append] at hit
    rcases hit with (((((hit | hit) | hit) | hit) | hit) | hit) | hit
    · simp only [List.mem_singleton] at hit; subst hit; exact hv _ (by simp [values])
    · exact good_optItems (by decide) (by decide) (Or.inl rfl) (fun v e => hv v (by simp [values, e])) it hit
    · exact good_optItems (by decide) (by decide) (Or.inl rfl) (fun v e => hv v (by simp [values, e])) it hit
    · exact good_optItems (by decide) (by decide) (Or.inl rfl) (fun v e => hv v (by simp [values, e])) it hit
    · exact good_listItems (by decide) (by decide) (Or.inr rfl) (fun v e => hv v (by simp [values, e])) it hit
    · exact good_listItems (by decide) (by decide) (Or.inr rfl) (fun v e => hv v (by simp [values, e])) it hit
    · exact good_optItems (by decide) (by decide) (Or.inl rfl) (fun v e => hv v (by simp [values, e])) it hit
  refine parse_render_of (.view o) hg (by simp [itemsOf, Item.posv, positionals, Opts.sub]) ?_
  obtain ⟨gaf, gfa, out, ix, ns, rs, fm⟩ := o
  cases gfa <;> cases out <;> cases ix <;> cases fm <;>
    simp [itemsOf, Item.posv, Item.ev, Opts.sub, build, optEv, ViewOpts.apply, fold_nodes, fold_regions, List.foldl_append]

theorem parse_render_index (o : IndexOpts) (h : Plain (.index o)) : parseArgs (render (.index o)) = .ok ⟨false, .index o⟩ := by
  have hv : ∀ v ∈ values (.index o), IsValue (table .index) v := fun v hm => (isValue_iff .index v).mpr (h.1 v hm)
  have hg : ∀ it ∈ itemsOf (.index o), Good (table .index) it := by
    intro it hit
    simp only [itemsOf, List.mem_append] at hit
    rcases hit with hit | hit
    · simp only [List.mem_cons, List.mem_nil_iff, or_false] at hit; rcases hit with rfl | rfl <;> exact hv _ (by simp [values])
    · exact good_optItems (by decide) (by decide) (Or.inl rfl) (fun v e => hv v (by simp [values, e])) it hit
  refine parse_render_of (.index o) hg (by simp [itemsOf, Item.posv, positionals, Opts.sub]) ?_
  obtain ⟨a, b, out⟩ := o
  cases out <;>
    simp [itemsOf, Item.posv, Item.ev, Opts.sub, build, optEv, flagEv, IndexOpts.apply, List.foldl_append]

theorem parse_render_sort (o : SortOpts) (h : Plain (.sort o)) : parseArgs (render (.sort o)) = .ok ⟨false, .sort o⟩ := by
  have hv : ∀ v ∈ values (.sort o), IsValue (table .sort) v := fun v hm => (isValue_iff .sort v).mpr (h.1 v hm)
  have hg : ∀ it ∈ itemsOf (.sort o), Good (table .sort) it := by
    intro it hit
    simp only [itemsOf, List.mem_append] at hit
    rcases hit with ((hit | hit) | hit) | hit
    · simp only [List.mem_cons, List.mem_nil_iff, or_false] at hit; rcases hit with rfl | rfl <;> exact hv _ (by simp [values])
    · exact good_optItems (by decide) (by decide) (Or.inl rfl) (fun v e => hv v (by simp [values, e])) it hit
    · exact good_optItems (by decide) (by decide) (Or.inl rfl) (fun v e => hv v (by simp [values, e])) it hit
    · exact good_flagItems (by decide) (by decide) rfl it hit
  refine parse_render_of (.sort o) hg (by simp [itemsOf, Item.posv, positionals, Opts.sub]) ?_
  obtain ⟨a, b, og, oi, bz⟩ := o
  cases og <;> cases oi <;> cases bz <;>
    simp [itemsOf, Item.posv, Item.ev, Opts.sub, build, optEv, flagEv, SortOpts.apply, List.foldl_append]

theorem parse_render_stat (o : StatOpts) (h : Plain (.stat o)) : parseArgs (render (.stat o)) = .ok ⟨false, .stat o⟩ := by
  have hv : ∀ v ∈ values (.stat o), IsValue (table .stat) v := fun v hm => (isValue_iff .stat v).mpr (h.1 v hm)
  have hg : ∀ it ∈ itemsOf (.stat o), Good (table .stat) it := by
    intro it hit
    simp only [itemsOf, List.mem_append] at hit
    rcases hit with (hit | hit) | hit
    · simp only [List.mem_cons, List.mem_nil_iff, or_false] at hit; rcases hit with rfl <;> exact hv _ (by simp [values])
    · exact good_optItems (by decide) (by decide) (Or.inl rfl) (fun v e => hv v (by simp [values, e])) it hit
    · exact good_flagItems (by decide) (by decide) rfl it hit
  refine parse_render_of (.stat o) hg (by simp [itemsOf, Item.posv, positionals, Opts.sub]) ?_
  obtain ⟨a, out, cg⟩ := o
  cases out <;> cases cg <;>
    simp [itemsOf, Item.posv, Item.ev, Opts.sub, build, optEv, flagEv, StatOpts.apply, List.foldl_append]

theorem parse_render_find_path (o : FindPathOpts) (h : Plain (.find_path o)) : parseArgs (render (.find_path o)) = .ok ⟨false, .find_path o⟩ := by
  have hv : ∀ v ∈ values (.find_path o), IsValue (table .find_path) v := fun v hm => (isValue_iff .find_path v).mpr (h.1 v hm)
  have hg : ∀ it ∈ itemsOf (.find_path o), Good (table .find_path) it := by
    intro it hit
    simp only [itemsOf, List.mem_append] at hit
    rcases hit with (hit | hit) | hit
    · simp only [List.mem_cons, List.mem_nil_iff, or_false] at hit; rcases hit with rfl | rfl <;> exact hv _ (by simp [values])
    · exact good_optItems (by decide) (by decide) (Or.inl rfl) (fun v e => hv v (by simp [values, e])) it hit
    · exact good_flagItems (by decide) (by decide) rfl it hit
  refine parse_render_of (.find_path o) hg (by simp [itemsOf, Item.posv, positionals, Opts.sub]) ?_
  obtain ⟨a, b, out, fa⟩ := o
  cases out <;> cases fa <;>
    simp [itemsOf, Item.posv, Item.ev, Opts.sub, build, optEv, flagEv, FindPathOpts.apply, List.foldl_append]

theorem parse_render_phase (o : PhaseOpts) (h : Plain (.phase o)) : parseArgs (render (.phase o)) = .ok ⟨false, .phase o⟩ := by
  have hv : ∀ v ∈ values (.phase o), IsValue (table .phase) v := fun v hm => (isValue_iff .phase v).mpr (h.1 v hm)
  obtain ⟨a, b, out⟩ := o
  have hg : ∀ it ∈ itemsOf (.phase ⟨a, b, out⟩), Good (table .phase) it := by
    intro it hit
    simp only [itemsOf, List.mem_append] at hit
    rcases hit with hit | hit
    · simp only [List.mem_cons, List.mem_nil_iff, or_false] at hit; rcases hit with rfl | rfl <;> exact hv _ (by simp [values])
    · cases out with
      | stdoutObject => simp [optItems] at hit
      | path p => exact good_optItems (by decide) (by decide) (Or.inl rfl) (fun v e => hv v (by simp at e; simp [values, e])) it hit
  refine parse_render_of _ hg (by simp [itemsOf, Item.posv, positionals, Opts.sub]) ?_
  cases out <;>
    simp [itemsOf, Item.posv, Item.ev, Opts.sub, build, optEv, flagEv, PhaseOpts.apply, List.foldl_append]

theorem parse_render_realign (o : RealignOpts) (h : Plain (.realign o)) :
    parseArgs (render (.realign o)) = .ok ⟨false, .realign o⟩ := by
  have hv : ∀ v ∈ values (.realign o), IsValue (table .realign) v := fun v hm => (isValue_iff .realign v).mpr (h.1 v hm)
  have hc : (Nat.toDigits 10 o.cores.natAbs).length ≤ maxStrDigits := by
    have : (toString o.cores.natAbs).length ≤ maxStrDigits := h.2
    rw [← String.length_toList] at this
    rwa [show (toString o.cores.natAbs).toList = Nat.toDigits 10 o.cores.natAbs from Nat.toList_repr] at this
  have hg : ∀ it ∈ itemsOf (.realign o), Good (table .realign) it := by
    intro it hit
    simp only [itemsOf, List.mem_append] at hit
    rcases hit with (hit | hit) | hit
    · simp only [List.mem_cons, List.mem_nil_iff, or_false] at hit; rcases hit with rfl | rfl | rfl <;> exact hv _ (by simp [values])
    · exact good_optItems (by decide) (by decide) (Or.inl rfl) (fun v e => hv v (by simp [values, e])) it hit
    · simp only [List.mem_singleton] at hit; subst hit
      exact ⟨by decide, by decide, rfl, isValue_int .realign _, by simp only [take, pyInt_toString _ hc]⟩
  refine parse_render_of (.realign o) hg (by simp [itemsOf, Item.posv, positionals, Opts.sub]) ?_
  obtain ⟨a, b, c, out, cores⟩ := o
  cases out <;>
    simp [itemsOf, Item.posv, Item.ev, Opts.sub, build, optEv, flagEv, RealignOpts.apply, List.foldl_append]

theorem parse_render_order_gfa (o : OrderOpts) (h : Plain (.order_gfa o)) :
    parseArgs (render (.order_gfa o)) = .ok ⟨false, .order_gfa o⟩ := by
  have hv : ∀ v ∈ values (.order_gfa o), IsValue (table .order_gfa) v := fun v hm => (isValue_iff .order_gfa v).mpr (h.1 v hm)
  have hg : ∀ it ∈ itemsOf (.order_gfa o), Good (table .order_gfa) it := by
    intro it hit
    simp only [itemsOf, List.mem_append] at hit
    rcases hit with (((hit | hit) | hit) | hit) | hit
    · refine good_optItems (by decide) (by decide) (Or.inl rfl) (fun v e => ?_) it hit
      have : v = o.chromosome_order := by split at e <;> simp_all
      subst this; exact hv _ (by simp [values])
    · exact good_flagItems (by decide) (by decide) rfl it hit
    · simp only [List.mem_singleton] at hit; subst hit
      exact good_sep_store (by decide) (by decide) (Or.inl rfl) (hv _ (by simp [values]))
    · exact good_flagItems (by decide) (by decide) rfl it hit
    · simp only [List.mem_singleton] at hit; subst hit; exact hv _ (by simp [values])
  refine parse_render_of (.order_gfa o) hg (by simp [itemsOf, Item.posv, positionals, Opts.sub]) ?_
  obtain ⟨a, co, ws, od, bc⟩ := o
  by_cases hco : co = "" <;> cases ws <;> cases bc <;>
    simp [itemsOf, Item.posv, Item.ev, Opts.sub, build, optEv, flagEv, OrderOpts.apply, List.foldl_append, hco]

/-- **parse_render.** For every sub-command and every namespace in the documented fragment, parsing the canonical command line
    of the namespace (`render` = the harness's `_argv`) gives back exactly that namespace, with `--debug` off. -/
theorem parse_render (o : Opts) (h : Plain o) : parseArgs (render o) = .ok ⟨false, o⟩ := by
  cases o with
  | view o => exact parse_render_view o h
  | index o => exact parse_render_index o h
  | sort o => exact parse_render_sort o h
  | stat o => exact parse_render_stat o h
  | phase o => exact parse_render_phase o h
  | realign o => exact parse_render_realign o h
  | find_path o => exact parse_render_find_path o h
  | order_gfa o => exact parse_render_order_gfa o h

/-- non-vacuity: a namespace with every option set, values with blanks, '=', a leading '>' … -/
example : Plain (.view { gaf_path := "a b.gaf", gfa := some "g.gfa", output := some "", index := some "x=y", nodes := ["s1", ">s2"],
                         format := some "stable" }) := plain_of_nodash _ (by decide) trivial
example : parseArgs (render (.view { gaf_path := "a b.gaf", gfa := some "g.gfa", output := some "", index := some "x=y",
                                     nodes := ["s1", ">s2"], format := some "stable" }))
    = .ok ⟨false, .view { gaf_path := "a b.gaf", gfa := some "g.gfa", output := some "", index := some "x=y", nodes := ["s1", ">s2"],
                          format := some "stable" }⟩ := parse_render _ (plain_of_nodash _ (by decide) trivial)
/-- a negative number of cores and a value that looks like a negative number are inside the fragment … -/
example : Plain (.realign { gaf := "-5", graph := "g", fasta := "- x", cores := -3 }) :=
  ⟨by decide +kernel, by show (toString (-3 : Int).natAbs).length ≤ maxStrDigits; decide⟩
/-- … a value that looks like an option is not, and the rendering then does not parse back (the hypothesis is needed) -/
example : parseArgs (render (.index { gaf_path := "a", gfa_path := "b", output := some "-x" })) = .error (.usage .expectedOneArgument) := by
  decide +kernel
example : ¬ Plain (.index { gaf_path := "a", gfa_path := "b", output := some "-x" }) := by
  intro h; exact absurd (h.1 "-x" (by decide)) (by decide +kernel)

/-! ## 2. `-n` / `-r` accumulate in command-line order -/

/-- **append_order.** `view GAF -n a -n b …`: the nodes reach the namespace in the order of the command line. -/
theorem append_order (gaf : String) (ns : List String) (hg : classify (table .view) gaf = .arg)
    (hn : ∀ n ∈ ns, classify (table .view) n = .arg) :
    parseArgs ("view" :: gaf :: ns.flatMap (fun n => ["-n", n])) = .ok ⟨false, .view { gaf_path := gaf, nodes := ns }⟩ := by
  have h := parse_render (.view { gaf_path := gaf, nodes := ns })
    ⟨by intro v hv; simp [values] at hv; rcases hv with rfl | hv; exact hg; exact hn v hv, trivial⟩
  simpa [render, optArg] using h

theorem append_order_regions (gaf : String) (rs : List String) (hg : classify (table .view) gaf = .arg)
    (hr : ∀ r ∈ rs, classify (table .view) r = .arg) :
    parseArgs ("view" :: gaf :: rs.flatMap (fun r => ["-r", r])) = .ok ⟨false, .view { gaf_path := gaf, regions := rs }⟩ := by
  have h := parse_render (.view { gaf_path := gaf, regions := rs })
    ⟨by intro v hv; simp [values] at hv; rcases hv with rfl | hv; exact hg; exact hr v hv, trivial⟩
  simpa [render, optArg] using h

example : parseArgs ["view", "x.gaf", "-n", "s3", "-n", "s1", "-n", "s2"]
    = .ok ⟨false, .view { gaf_path := "x.gaf", nodes := ["s3", "s1", "s2"] }⟩ :=
  append_order "x.gaf" ["s3", "s1", "s2"] (by decide) (by decide)

/-- the ways to write an option with its value -/
inductive Spelling where
  | shortSep        -- `-n VALUE`
  | longSep         -- `--node VALUE`
  | longEq          -- `--node=VALUE`
  | shortAttached   -- `-nVALUE`
  | shortEq         -- `-n=VALUE`
  deriving DecidableEq, Repr

def spell (short long : String) : Spelling → String → List String
  | .shortSep, v => [short, v]
  | .longSep, v => [long, v]
  | .longEq, v => [long ++ "=" ++ v]
  | .shortAttached, v => [short ++ v]
  | .shortEq, v => [short ++ "=" ++ v]

/-- which values a spelling can carry: as a separate argument the value must be one the parser reads as a value; after `=` it
    can be anything; attached to the short option it must not be empty and not start with `=` -/
def SpellOk : Spelling → String → Prop
  | .shortSep, v => classify (table .view) v = .arg
  | .longSep, v => classify (table .view) v = .arg
  | .longEq, _ => True
  | .shortEq, _ => True
  | .shortAttached, v => ∃ c r, v.toList = c :: r ∧ c ≠ '='

/-- one `-n` (`node = true`) or `-r` option in some spelling -/
structure Sel where
  node : Bool
  how : Spelling
  value : String

def Sel.toks (x : Sel) : List String := if x.node then spell "-n" "--node" x.how x.value else spell "-r" "--region" x.how x.value

def dNode : OptDecl := ⟨["-n", "--node"], .append "nodes"⟩
def dRegion : OptDecl := ⟨["-r", "--region"], .append "regions"⟩

theorem not_top_ambiguous_single (s : String) (c : Char) (r : List Char) (hs : s.toList = '-' :: c :: r) (hc : c ≠ '-') :
    isAmbiguous topTable s = false := by
  cases hb : isAmbiguous topTable s with
  | false => rfl
  | true =>
    exfalso
    rcases top_ambiguous_shape s hb with h | ⟨r', h⟩ <;> rw [hs] at h <;> simp at h <;> exact hc h.1

theorem not_top_ambiguous_long (s : String) (c : Char) (r : List Char) (hs : s.toList = '-' :: '-' :: c :: r) (hc : c ≠ '=') :
    isAmbiguous topTable s = false := by
  cases hb : isAmbiguous topTable s with
  | false => rfl
  | true =>
    exfalso
    rcases top_ambiguous_shape s hb with h | ⟨r', h⟩ <;> rw [hs] at h <;> simp at h
    exact hc h.1

def Sel.item (x : Sel) : Item :=
  let d := if x.node then dNode else dRegion
  let short := if x.node then "-n" else "-r"
  let long := if x.node then "--node" else "--region"
  let ev : Event := (if x.node then "nodes" else "regions", .str x.value)
  match x.how with
  | .shortSep => .sep d short x.value ev
  | .longSep => .sep d long x.value ev
  | .longEq => .one d (long ++ "=" ++ x.value) long x.value ev
  | .shortAttached => .one d (short ++ x.value) short x.value ev
  | .shortEq => .one d (short ++ "=" ++ x.value) short x.value ev

theorem sel_toks (x : Sel) : x.item.toks = x.toks := by
  obtain ⟨node, how, v⟩ := x
  cases node <;> cases how <;> rfl

theorem sel_good (x : Sel) (h : SpellOk x.how x.value) : Good (table .view) x.item := by
  obtain ⟨node, how, v⟩ := x
  cases node <;> cases how
  all_goals simp only [Sel.item, Bool.false_eq_true, if_false, if_true]
  -- regions
  · exact good_sep_store (by decide) (by decide) (Or.inr rfl) ((isValue_iff .view v).mpr h)
  · exact good_sep_store (by decide) (by decide) (Or.inr rfl) ((isValue_iff .view v).mpr h)
  · exact ⟨classify_eq _ dRegion "--region" v (by decide) ⟨_, _, rfl⟩ (by decide) (by decide),
      not_top_ambiguous_long _ 'r' ("egion=".toList ++ v.toList) (by simp) (by decide), rfl, rfl⟩
  · obtain ⟨c, r, hv, hc⟩ := h
    exact ⟨classify_attached (table .view) (by decide) dRegion 'r' v c r hv hc (by decide) (by decide) (by decide),
      not_top_ambiguous_single _ 'r' v.toList (by simp) (by decide), rfl, rfl⟩
  · exact ⟨classify_eq _ dRegion "-r" v (by decide) ⟨_, _, rfl⟩ (by decide) (by decide),
      not_top_ambiguous_single _ 'r' ('=' :: v.toList) (by simp) (by decide), rfl, rfl⟩
  -- nodes
  · exact good_sep_store (by decide) (by decide) (Or.inr rfl) ((isValue_iff .view v).mpr h)
  · exact good_sep_store (by decide) (by decide) (Or.inr rfl) ((isValue_iff .view v).mpr h)
  · exact ⟨classify_eq _ dNode "--node" v (by decide) ⟨_, _, rfl⟩ (by decide) (by decide),
      not_top_ambiguous_long _ 'n' ("ode=".toList ++ v.toList) (by simp) (by decide), rfl, rfl⟩
  · obtain ⟨c, r, hv, hc⟩ := h
    exact ⟨classify_attached (table .view) (by decide) dNode 'n' v c r hv hc (by decide) (by decide) (by decide),
      not_top_ambiguous_single _ 'n' v.toList (by simp) (by decide), rfl, rfl⟩
  · exact ⟨classify_eq _ dNode "-n" v (by decide) ⟨_, _, rfl⟩ (by decide) (by decide),
      not_top_ambiguous_single _ 'n' ('=' :: v.toList) (by simp) (by decide), rfl, rfl⟩

def Sel.ev (x : Sel) : Event := (if x.node then "nodes" else "regions", .str x.value)

theorem sel_ev (x : Sel) : x.item.ev = [x.ev] := by
  obtain ⟨node, how, v⟩ := x
  cases node <;> cases how <;> rfl

theorem sel_posv (x : Sel) : x.item.posv = [] := by
  obtain ⟨node, how, v⟩ := x
  cases node <;> cases how <;> rfl

theorem fold_sels (o : ViewOpts) (xs : List Sel) :
    (xs.map Sel.ev).foldl ViewOpts.apply o
      = { o with nodes := o.nodes ++ (xs.filter (·.node)).map (·.value),
                 regions := o.regions ++ (xs.filter (fun x => !x.node)).map (·.value) } := by
  induction xs generalizing o with
  | nil => simp
  | cons x xs ih =>
    obtain ⟨node, how, v⟩ := x
    rw [List.map_cons, List.foldl_cons, ih]
    cases node <;> simp [Sel.ev, ViewOpts.apply]

theorem flatMap_singleton' {α β : Type} (f : α → β) (l : List α) : l.flatMap (fun a => [f a]) = l.map f := by
  induction l with
  | nil => rfl
  | cons a l ih => simp [ih]

/-- **append_order, every spelling.** `-n` and `-r` options in any of the five spellings, in any order (`validate` refuses the
    mixture afterwards, the parser does not): the namespace holds the nodes in command-line order and the regions in
    command-line order. -/
theorem append_order_spellings (gaf : String) (xs : List Sel) (hg : classify (table .view) gaf = .arg)
    (hx : ∀ x ∈ xs, SpellOk x.how x.value) :
    parseArgs ("view" :: gaf :: xs.flatMap Sel.toks)
      = .ok ⟨false, .view { gaf_path := gaf, nodes := (xs.filter (·.node)).map (·.value),
                            regions := (xs.filter (fun x => !x.node)).map (·.value) }⟩ := by
  have hitems : ("view" :: gaf :: xs.flatMap Sel.toks) = Sub.view.name :: (Item.pos gaf :: xs.map Sel.item).flatMap Item.toks := by
    rw [List.flatMap_cons, List.flatMap_map]
    simp only [sel_toks]
    rfl
  have hg' : ∀ it ∈ Item.pos gaf :: xs.map Sel.item, Good (table .view) it := by
    intro it hit
    rcases List.mem_cons.mp hit with rfl | hit
    · exact (isValue_iff .view gaf).mpr hg
    · obtain ⟨x, hxm, rfl⟩ := List.mem_map.mp hit
      exact sel_good x (hx x hxm)
  have hpos : ((Item.pos gaf :: xs.map Sel.item).flatMap Item.posv) = [gaf] := by
    rw [List.flatMap_cons, List.flatMap_map]
    simp only [sel_posv]
    simp [Item.posv]
  have hev : ((Item.pos gaf :: xs.map Sel.item).flatMap Item.ev) = xs.map Sel.ev := by
    rw [List.flatMap_cons, List.flatMap_map]
    simp only [sel_ev, flatMap_singleton']
    rfl
  rw [hitems, parse_items _ _ hg' (by rw [hpos]; rfl), hpos, hev]
  simp [build, fold_sels]

example : parseArgs ["view", "x.gaf", "-n", "a", "--node=-b", "-nc", "--region", "chr1:1-5", "--node", "d", "-n=e", "-r="]
    = .ok ⟨false, .view { gaf_path := "x.gaf", nodes := ["a", "-b", "c", "d", "e"], regions := ["chr1:1-5", ""] }⟩ :=
  append_order_spellings "x.gaf" [⟨true, .shortSep, "a"⟩, ⟨true, .longEq, "-b"⟩, ⟨true, .shortAttached, "c"⟩,
    ⟨false, .longSep, "chr1:1-5"⟩, ⟨true, .longSep, "d"⟩, ⟨true, .shortEq, "e"⟩, ⟨false, .shortEq, ""⟩] (by decide)
    (by intro x hx; simp at hx; rcases hx with rfl | rfl | rfl | rfl | rfl | rfl | rfl <;>
          first | trivial | (show classify _ _ = _; decide) | exact ⟨_, _, rfl, by decide⟩)

/-! ## 3. `validate` -/

/-- **validate_view_iff.** `view` passes `validate` exactly when: a `--format` that is given (and not empty) is one of the two
    words; not both `--node` and `--region`; a `--format` that is given comes with a `--gfa` that is given (and not empty). -/
theorem validate_view_def (o : ViewOpts) : validate (.view o) =
    (if truthy o.format && !(o.format == some "unstable" || o.format == some "stable") then
      some "--format only accepts unstable or stable as input."
    else if !o.nodes.isEmpty && !o.regions.isEmpty then
      some "provide either of the --regions and --nodes options and not both."
    else if truthy o.format && !truthy o.gfa then
      some "GFA file has to be provided along with --format."
    else none) := rfl

theorem validate_view_iff (o : ViewOpts) :
    validate (.view o) = none ↔
      (truthy o.format = true → o.format = some "unstable" ∨ o.format = some "stable")
      ∧ (o.nodes = [] ∨ o.regions = [])
      ∧ (truthy o.format = true → truthy o.gfa = true) := by
  rw [validate_view_def]
  cases hn : o.nodes <;> cases hr : o.regions <;> cases hf : truthy o.format <;> cases hg : truthy o.gfa <;>
    by_cases hu : o.format = some "unstable" <;> by_cases hs : o.format = some "stable" <;> simp [hu, hs]

/-- the three refusals, in the order the code tests them -/
theorem validate_view_messages (o : ViewOpts) (m : String) (h : validate (.view o) = some m) :
    m = "--format only accepts unstable or stable as input."
    ∨ m = "provide either of the --regions and --nodes options and not both."
    ∨ m = "GFA file has to be provided along with --format." := by
  rw [validate_view_def] at h
  split at h
  · left; exact (Option.some.inj h).symm
  · split at h
    · right; left; exact (Option.some.inj h).symm
    · split at h
      · right; right; exact (Option.some.inj h).symm
      · cases h

example : validate (.view { gaf_path := "x", format := some "stable", gfa := some "g", nodes := ["a"] }) = none := by decide
example : validate (.view { gaf_path := "x", format := some "Stable", gfa := some "g" }) = some "--format only accepts unstable or stable as input." := by decide
example : validate (.view { gaf_path := "x", nodes := ["a"], regions := ["c:1-2"] })
    = some "provide either of the --regions and --nodes options and not both." := by decide
example : validate (.view { gaf_path := "x", format := some "stable" }) = some "GFA file has to be provided along with --format." := by decide
/-- an empty `--gfa` counts as not given; an empty `--format` is accepted and means "no conversion" -/
example : validate (.view { gaf_path := "x", format := some "stable", gfa := some "" }) = some "GFA file has to be provided along with --format." := by decide
example : validate (.view { gaf_path := "x", format := some "" }) = none := by decide

/-- **validate_sort_iff.** `sort` passes `validate` exactly when `--bgzip` and `--outind` (given and not empty) come with an
    `--outgaf` that is given and not empty. -/
theorem validate_sort_def (o : SortOpts) : validate (.sort o) =
    (if o.bgzip && !truthy o.outgaf then
      some "--bgzip flag has been specified but not output path has been defined. Please define the output path."
    else if truthy o.outind && !truthy o.outgaf then
      some "index path specified but no output gaf path. Please provide an output path."
    else none) := rfl

theorem validate_sort_iff (o : SortOpts) :
    validate (.sort o) = none ↔ (o.bgzip = true → truthy o.outgaf = true) ∧ (truthy o.outind = true → truthy o.outgaf = true) := by
  rw [validate_sort_def]
  cases hb : o.bgzip <;> cases hi : truthy o.outind <;> cases hg : truthy o.outgaf <;> simp

theorem validate_sort_messages (o : SortOpts) (m : String) (h : validate (.sort o) = some m) :
    m = "--bgzip flag has been specified but not output path has been defined. Please define the output path."
    ∨ m = "index path specified but no output gaf path. Please provide an output path." := by
  rw [validate_sort_def] at h
  split at h
  · left; exact (Option.some.inj h).symm
  · split at h
    · right; exact (Option.some.inj h).symm
    · cases h

example : validate (.sort { gaf := "a", gfa := "g", bgzip := true, outgaf := some "o.gaf.gz", outind := some "o.gsi" }) = none := by decide
example : validate (.sort { gaf := "a", gfa := "g", bgzip := true })
    = some "--bgzip flag has been specified but not output path has been defined. Please define the output path." := by decide
example : validate (.sort { gaf := "a", gfa := "g", outind := some "o.gsi" })
    = some "index path specified but no output gaf path. Please provide an output path." := by decide

/-- the six other sub-commands accept every namespace (four `validate` that `return True`, two modules without `validate`) -/
theorem validate_others (o : Opts) (h : o.sub ≠ .view ∧ o.sub ≠ .sort) : validate o = none := by
  cases o <;> simp_all [Opts.sub, validate]

/-- in particular nothing checks the number of cores -/
example : validate (.realign { gaf := "a", graph := "g", fasta := "f", cores := -2 }) = none := rfl

/-! ## 4. dispatch -/

/-- **dispatch_kwargs.** The entry point of a sub-command is called exactly for the command lines that parse to a namespace
    `validate` accepts, and then it is the entry point of that sub-command, with `--debug` as parsed and the keyword arguments
    `kwargsOf` of that namespace: every destination with its parsed value. -/
theorem dispatch_kwargs (argv : List String) (debug : Bool) (c : Call) :
    dispatch argv = .call debug c ↔
      ∃ o, parseArgs argv = .ok ⟨debug, o⟩ ∧ validate o = none ∧ c = ⟨entryPoint o.sub, kwargsOf o⟩ := by
  unfold dispatch accepted
  constructor
  · intro h
    cases hp : parseArgs argv with
    | error e => cases e <;> simp [hp] at h <;> (try (split at h <;> cases h))
    | ok p =>
      cases hv : validate p.opts with
      | some m => simp [hp, hv] at h
      | none =>
        simp [hp, hv] at h
        exact ⟨p.opts, by rw [← h.1], hv, by rw [← h.2]; rfl⟩
  · rintro ⟨o, hp, hv, rfl⟩
    simp [hp, hv, callOf]

example : dispatch ["--debug", "sort", "a.gaf", "--outgaf=o.gaf", "g.gfa", "--bgzip"]
    = .call true ⟨"gaftools.cli.sort.run_sort", [("gaf", .str "a.gaf"), ("gfa", .str "g.gfa"), ("outgaf", .str "o.gaf"),
        ("outind", .none), ("bgzip", .bool true)]⟩ := by decide +kernel

/-- the destinations an option table defines -/
def dests (tbl : Table) : List String :=
  tbl.filterMap (fun d => match d.act with
    | .store x => some x | .storeInt x => some x | .append x => some x | .storeTrue x => some x
    | .help => none | .version => none)

/-- **no option lost, none invented**: the keyword names are exactly the positionals and the destinations of `add_arguments`,
    each once -/
theorem kwargs_keys (o : Opts) :
    ((kwargsOf o).map Prod.fst).Perm (positionals o.sub ++ dests (table o.sub)) ∧ ((kwargsOf o).map Prod.fst).Nodup := by
  cases o <;> exact ⟨by simp only [kwargsOf, List.map, Opts.sub]; decide, by simp only [kwargsOf, List.map]; decide⟩

/-- a parse that succeeds is the namespace built from the positionals and the stored values of the scan -/
theorem parseArgs_trace (argv : List String) (p : Parsed) (h : parseArgs argv = .ok p) :
    ∃ t, parseTrace argv = .ok t ∧ t.debug = p.debug ∧ build t.sub t.st.pos t.st.evs = some p.opts := by
  unfold parseArgs at h
  cases ht : parseTrace argv with
  | error e => simp [ht] at h
  | ok t =>
    simp only [ht] at h
    cases hb : build t.sub t.st.pos t.st.evs with
    | none => simp [hb] at h
    | some o => simp [hb] at h; subst h; exact ⟨t, rfl, rfl, hb⟩

/-! "defaults for those not given": a destination no stored value names keeps the value it has when nothing is given -/

macro "step_tac" ap:ident : tactic => `(tactic|
  (rename_i o e dest h
   obtain ⟨d, v⟩ := e
   cases v <;> simp only [$ap:ident] <;> (try rfl) <;> (repeat' split) <;> (try rfl) <;>
     (subst_vars; have hb := beq_false_of_ne (Ne.symm h); simp [kwargsOf, List.lookup, hb])))

theorem view_step (o : ViewOpts) (e : Event) (dest : String) (h : e.1 ≠ dest) :
    (kwargsOf (.view (o.apply e))).lookup dest = (kwargsOf (.view o)).lookup dest := by step_tac ViewOpts.apply
theorem index_step (o : IndexOpts) (e : Event) (dest : String) (h : e.1 ≠ dest) :
    (kwargsOf (.index (o.apply e))).lookup dest = (kwargsOf (.index o)).lookup dest := by step_tac IndexOpts.apply
theorem sort_step (o : SortOpts) (e : Event) (dest : String) (h : e.1 ≠ dest) :
    (kwargsOf (.sort (o.apply e))).lookup dest = (kwargsOf (.sort o)).lookup dest := by step_tac SortOpts.apply
theorem stat_step (o : StatOpts) (e : Event) (dest : String) (h : e.1 ≠ dest) :
    (kwargsOf (.stat (o.apply e))).lookup dest = (kwargsOf (.stat o)).lookup dest := by step_tac StatOpts.apply
theorem phase_step (o : PhaseOpts) (e : Event) (dest : String) (h : e.1 ≠ dest) :
    (kwargsOf (.phase (o.apply e))).lookup dest = (kwargsOf (.phase o)).lookup dest := by step_tac PhaseOpts.apply
theorem realign_step (o : RealignOpts) (e : Event) (dest : String) (h : e.1 ≠ dest) :
    (kwargsOf (.realign (o.apply e))).lookup dest = (kwargsOf (.realign o)).lookup dest := by step_tac RealignOpts.apply
theorem find_path_step (o : FindPathOpts) (e : Event) (dest : String) (h : e.1 ≠ dest) :
    (kwargsOf (.find_path (o.apply e))).lookup dest = (kwargsOf (.find_path o)).lookup dest := by step_tac FindPathOpts.apply
theorem order_step (o : OrderOpts) (e : Event) (dest : String) (h : e.1 ≠ dest) :
    (kwargsOf (.order_gfa (o.apply e))).lookup dest = (kwargsOf (.order_gfa o)).lookup dest := by step_tac OrderOpts.apply

theorem fold_lookup {α : Type} (apply : α → Event → α) (kw : α → List (String × PyVal))
    (step : ∀ o e dest, e.1 ≠ dest → (kw (apply o e)).lookup dest = (kw o).lookup dest)
    (evs : List Event) (o : α) (dest : String) (h : ∀ e ∈ evs, e.1 ≠ dest) :
    (kw (evs.foldl apply o)).lookup dest = (kw o).lookup dest := by
  induction evs generalizing o with
  | nil => rfl
  | cons e evs ih =>
    rw [List.foldl_cons, ih _ (fun e' he' => h e' (List.mem_cons_of_mem _ he')), step o e dest (h e (List.mem_cons_self ..))]

/-- **defaults for the options not given.** In the namespace built from the positionals `pos` and the stored values `evs`, a
    keyword no stored value names has the value it has in the namespace built from the positionals alone - the default of
    `add_arguments`. -/
theorem kwargs_default (sub : Sub) (pos : List String) (evs : List Event) (o o₀ : Opts) (h : build sub pos evs = some o)
    (h₀ : build sub pos [] = some o₀) (dest : String) (hd : ∀ e ∈ evs, e.1 ≠ dest) :
    (kwargsOf o).lookup dest = (kwargsOf o₀).lookup dest := by
  unfold build at h h₀
  split at h <;> simp only [Option.some.injEq, List.foldl_nil, reduceCtorEq] at h h₀ <;> subst h h₀
  · exact fold_lookup ViewOpts.apply (fun o => kwargsOf (.view o)) view_step evs _ dest hd
  · exact fold_lookup IndexOpts.apply (fun o => kwargsOf (.index o)) index_step evs _ dest hd
  · exact fold_lookup SortOpts.apply (fun o => kwargsOf (.sort o)) sort_step evs _ dest hd
  · exact fold_lookup StatOpts.apply (fun o => kwargsOf (.stat o)) stat_step evs _ dest hd
  · exact fold_lookup PhaseOpts.apply (fun o => kwargsOf (.phase o)) phase_step evs _ dest hd
  · exact fold_lookup RealignOpts.apply (fun o => kwargsOf (.realign o)) realign_step evs _ dest hd
  · exact fold_lookup FindPathOpts.apply (fun o => kwargsOf (.find_path o)) find_path_step evs _ dest hd
  · exact fold_lookup OrderOpts.apply (fun o => kwargsOf (.order_gfa o)) order_step evs _ dest hd

/-- … for a command line: whatever `argv` is, when it is accepted, every keyword that no option of the command line stored is at
    its default -/
theorem kwargs_default_argv (argv : List String) (p : Parsed) (h : parseArgs argv = .ok p) :
    ∃ t o₀, parseTrace argv = .ok t ∧ build t.sub t.st.pos [] = some o₀ ∧
      ∀ dest, (∀ e ∈ t.st.evs, e.1 ≠ dest) → (kwargsOf p.opts).lookup dest = (kwargsOf o₀).lookup dest := by
  obtain ⟨t, ht, -, hb⟩ := parseArgs_trace argv p h
  have h0 : ∃ o₀, build t.sub t.st.pos [] = some o₀ := by
    unfold build at hb ⊢
    split at hb <;> simp_all
  obtain ⟨o₀, h0⟩ := h0
  exact ⟨t, o₀, ht, h0, fun dest hd => kwargs_default _ _ _ _ _ hb h0 dest hd⟩

/-- the defaults themselves (the `default=` of every `add_arguments`; for `phase -o` the object `sys.stdout`) -/
example : (build .view ["x"] []).map kwargsOf = some [("gaf_path", .str "x"), ("gfa", .none), ("output", .none), ("index", .none),
    ("nodes", .list []), ("regions", .list []), ("format", .none)] := by decide
example : (build .index ["x", "g"] []).map kwargsOf = some [("gaf_path", .str "x"), ("gfa_path", .str "g"), ("output", .none)] := by decide
example : (build .sort ["x", "g"] []).map kwargsOf
    = some [("gaf", .str "x"), ("gfa", .str "g"), ("outgaf", .none), ("outind", .none), ("bgzip", .bool false)] := by decide
example : (build .stat ["x"] []).map kwargsOf = some [("gaf_path", .str "x"), ("output", .none), ("cigar_stat", .bool false)] := by decide
example : (build .phase ["x", "t"] []).map kwargsOf = some [("gaf_file", .str "x"), ("tsv_file", .str "t"), ("output", .stdoutObject)] := by decide
example : (build .realign ["x", "g", "f"] []).map kwargsOf
    = some [("gaf", .str "x"), ("graph", .str "g"), ("fasta", .str "f"), ("output", .none), ("cores", .int 1)] := by decide
example : (build .find_path ["g", "p"] []).map kwargsOf
    = some [("gfa_path", .str "g"), ("input_path", .str "p"), ("output", .none), ("fasta", .bool false)] := by decide
example : (build .order_gfa ["g"] []).map kwargsOf = some [("chromosome_order", .str ""), ("with_sequence", .bool false),
    ("gfa_filename", .str "g"), ("outdir", .str "./out"), ("by_chrom", .bool false)] := by decide
example : dispatch ["order_gfa", "g.gfa", "--by-chrom"] = .call false ⟨"gaftools.cli.order_gfa.run_order_gfa",
    [("chromosome_order", .str ""), ("with_sequence", .bool false), ("gfa_filename", .str "g.gfa"), ("outdir", .str "./out"),
     ("by_chrom", .bool true)]⟩ := by decide +kernel

/-! ## 5. exit status -/

theorem dispatch_usage_iff (argv : List String) (w : Why) : dispatch argv = .usage w ↔ accepted argv = .error (.usage w) := by
  unfold dispatch
  cases h : accepted argv with
  | error e => cases e <;> simp
  | ok p => simp

/-- **exit_codes.** A usage error (of the parser or of `validate`) ends the process with status 2, a `CommandLineError` at the head
    of `view.run` with status 1, `--help` / `--version` with status 0; in none of these cases does the layer write a record. -/
theorem exit_codes (argv : List String) (fmt : Option Bool) (ix : Bool) :
    (∀ w, dispatch argv = .usage w → (effect argv fmt ix).status = some 2)
    ∧ (∀ v, dispatch argv = .exit0 v → (effect argv fmt ix).status = some 0)
    ∧ (∀ dbg o m, accepted argv = .ok ⟨dbg, .view o⟩ → viewHead fmt o ix = .commandLineError m → (effect argv fmt ix).status = some 1)
    ∧ (effect argv fmt ix).records = [] := by
  refine ⟨?_, ?_, ?_, ?_⟩
  · intro w h
    rw [dispatch_usage_iff] at h
    simp [effect, h]
  · intro v h
    unfold dispatch at h
    cases ha : accepted argv with
    | error e => cases e <;> simp_all [effect]
    | ok p => simp [ha] at h
  · intro dbg o m ha hh
    simp [effect, ha, hh]
  · unfold effect
    split <;> (try rfl)
    split <;> rfl

/-- a usage error happens before anything is opened -/
theorem usage_touches_nothing (argv : List String) (fmt : Option Bool) (ix : Bool) (h : (effect argv fmt ix).status = some 2) :
    (effect argv fmt ix).opened = none ∧ (effect argv fmt ix).records = [] := by
  unfold effect at h ⊢
  split <;> simp_all
  split <;> simp_all

/-- **finding.** A `view` command refused with status 1 ("input already in the requested format", "no index found") has already
    opened its `-o` file for writing: the file is created, or an existing file is emptied, although nothing is written.
    (`view.run` opens the output before it looks at the input.) -/
theorem commandLineError_truncates_output (argv : List String) (fmt : Option Bool) (ix : Bool) (dbg : Bool) (o : ViewOpts) (m p : String)
    (ha : accepted argv = .ok ⟨dbg, .view o⟩) (hh : viewHead fmt o ix = .commandLineError m) (ho : o.output = some p) :
    effect argv fmt ix = ⟨some 1, [], some p⟩ := by
  simp [effect, ha, hh, ho]

example : effect ["view", "s.gaf", "-g", "g.gfa", "-f", "stable", "-o", "precious.gaf"] (some true) false
    = ⟨some 1, [], some "precious.gaf"⟩ := by decide +kernel
example : effect ["view", "s.gaf", "-n", "s1", "-o", "precious.gaf"] (some false) false = ⟨some 1, [], some "precious.gaf"⟩ := by decide +kernel
example : effect ["view", "s.gaf", "-n", "s1", "-r", "c:1-2", "-o", "precious.gaf"] (some false) false = ⟨some 2, [], none⟩ := by decide +kernel
example : effect ["view", "--version"] none false = ⟨some 2, [], none⟩ := by decide +kernel
example : effect ["--version", "view"] none false = ⟨some 0, [], none⟩ := by decide +kernel

/-- the exact conditions of the two kinds of `CommandLineError` at the head of `view.run`, for a namespace `validate` accepted -/
theorem viewHead_error_iff (fmt : Option Bool) (o : ViewOpts) (ix : Bool) (hv : validate (.view o) = none) :
    (∃ m, viewHead fmt o ix = .commandLineError m) ↔
      (o.format = some "stable" ∧ fmt = some true) ∨ (o.format = some "unstable" ∧ fmt = some false)
      ∨ ((o.nodes ≠ [] ∨ o.regions ≠ []) ∧ o.index = none ∧ ix = false) := by
  have hv' := (validate_view_iff o).mp hv
  obtain ⟨h1, -, -⟩ := hv'
  unfold viewHead
  cases hfm : o.format with
  | none =>
    cases hn : o.nodes <;> cases hr : o.regions <;> cases hi : o.index <;> cases ix <;> simp [truthy]
  | some f =>
    by_cases he : f = ""
    · subst he
      cases hn : o.nodes <;> cases hr : o.regions <;> cases hi : o.index <;> cases ix <;> simp [truthy]
    · have ht : truthy o.format = true := by simp [hfm, truthy, he]
      rcases h1 ht with e | e <;> rw [hfm] at e <;> cases e <;>
        cases hn : o.nodes <;> cases hr : o.regions <;> cases hi : o.index <;> cases ix <;>
        rcases fmt with _ | _ | _ <;> simp [truthy]

/-- what `validate` accepted never reaches the `assert` -/
theorem validated_no_assertion (fmt : Option Bool) (o : ViewOpts) (ix : Bool) (hv : validate (.view o) = none) :
    viewHead fmt o ix ≠ .assertionError := by
  obtain ⟨h1, -, -⟩ := (validate_view_iff o).mp hv
  unfold viewHead
  cases hf : truthy o.format
  · simp; split <;> (try split) <;> (try split) <;> simp
  · rcases h1 hf with e | e <;> simp [e] <;> split <;> (try split) <;> (try split) <;> (try split) <;> simp

/-- through the Python entry point (no `validate`) it does -/
example : viewHead (some false) { gaf_path := "x", format := some "gfa" } false = .assertionError := by decide

/-! ## 6. the usage errors of the parser

`items` is any well-read beginning of the command line (`Good`); what follows it decides the error. -/

theorem parseArgs_error_of_trace (argv : List String) (e : CliErr) (h : parseTrace argv = .error e) : parseArgs argv = .error e := by
  simp [parseArgs, h]

/-- a positional is missing → "the following arguments are required" -/
theorem usage_missing_positional (sub : Sub) (items : List Item) (hg : ∀ it ∈ items, Good (table sub) it)
    (hn : (items.flatMap Item.posv).length < (positionals sub).length) :
    parseArgs (sub.name :: items.flatMap Item.toks) = .error (.usage .required) := by
  apply parseArgs_error_of_trace
  have h := parseTrace_items_rest sub items hg [] (Nat.le_of_lt hn) (by simp) (by simp)
  rw [List.append_nil] at h
  rw [h]
  have : ((positionals sub).drop (items.flatMap Item.posv).length).isEmpty = false := by
    cases hd : (positionals sub).drop (items.flatMap Item.posv).length with
    | nil => rw [List.drop_eq_nil_iff] at hd; omega
    | cons a l => rfl
  simp only [scan, stAfter, this, Bool.false_eq_true, if_false]

example : parseArgs ["index", "-o", "x.gvi", "a.gaf"] = .error (.usage .required) := by decide +kernel

/-- an option that takes a value is the last argument → "expected one argument" -/
theorem usage_missing_value (sub : Sub) (items : List Item) (hg : ∀ it ∈ items, Good (table sub) it)
    (hn : (items.flatMap Item.posv).length ≤ (positionals sub).length) (name : String) (d : OptDecl)
    (hc : classify (table sub) name = .opt d name none) (ht : isAmbiguous topTable name = false) (ha : d.act.arity = 1) :
    parseArgs (sub.name :: (items.flatMap Item.toks ++ [name])) = .error (.usage .expectedOneArgument) := by
  apply parseArgs_error_of_trace
  rw [parseTrace_items_rest sub items hg [name] hn (by simpa using ht) (by simpa using not_ambiguous_of_opt hc)]
  rw [scan, hc]
  simp [analyse, noExplicit_value d [] ha, scan]

example : parseArgs ["view", "a.gaf", "-n", "s1", "--output"] = .error (.usage .expectedOneArgument) := by decide +kernel

/-- … or is followed by something the parser does not read as a value (another option, an unknown option) -/
theorem usage_option_as_value (sub : Sub) (items : List Item) (hg : ∀ it ∈ items, Good (table sub) it)
    (hn : (items.flatMap Item.posv).length ≤ (positionals sub).length) (name v : String) (d : OptDecl) (rest : List String)
    (hc : classify (table sub) name = .opt d name none) (ht : isAmbiguous topTable name = false) (ha : d.act.arity = 1)
    (hv : classify (table sub) v ≠ .arg)
    (hr₁ : ∀ s ∈ v :: rest, isAmbiguous topTable s = false) (hr₂ : ∀ s ∈ v :: rest, isAmbiguous (table sub) s = false) :
    parseArgs (sub.name :: (items.flatMap Item.toks ++ name :: v :: rest)) = .error (.usage .expectedOneArgument) := by
  apply parseArgs_error_of_trace
  rw [parseTrace_items_rest sub items hg (name :: v :: rest) hn
    (by intro s hs; rcases List.mem_cons.mp hs with rfl | hs; exact ht; exact hr₁ s hs)
    (by intro s hs; rcases List.mem_cons.mp hs with rfl | hs; exact not_ambiguous_of_opt hc; exact hr₂ s hs)]
  rw [scan, hc]
  simp only [analyse, noExplicit_value d [] ha]
  rw [scan]
  cases hcv : classify (table sub) v <;> simp_all

example : parseArgs ["stat", "a.gaf", "-o", "--cigar"] = .error (.usage .expectedOneArgument) := by decide +kernel

/-- `-c` with something `int()` refuses → "invalid int value", whatever follows -/
theorem usage_bad_int (sub : Sub) (items : List Item) (hg : ∀ it ∈ items, Good (table sub) it)
    (hn : (items.flatMap Item.posv).length ≤ (positionals sub).length) (name v dest : String) (d : OptDecl) (rest : List String)
    (hc : classify (table sub) name = .opt d name none) (ht : isAmbiguous topTable name = false) (hd : d.act = .storeInt dest)
    (hv : classify (table sub) v = .arg) (hi : pyInt v.toList = none)
    (hr₁ : ∀ s ∈ rest, isAmbiguous topTable s = false) (hr₂ : ∀ s ∈ rest, isAmbiguous (table sub) s = false) :
    parseArgs (sub.name :: (items.flatMap Item.toks ++ name :: v :: rest)) = .error (.usage .invalidInt) := by
  apply parseArgs_error_of_trace
  have ha : d.act.arity = 1 := by simp [hd, Act.arity]
  rw [parseTrace_items_rest sub items hg (name :: v :: rest) hn
    (by intro s hs; rcases List.mem_cons.mp hs with rfl | hs; exact ht
        rcases List.mem_cons.mp hs with rfl | hs; exact arg_not_top_ambiguous sub _ hv; exact hr₁ s hs)
    (by intro s hs; rcases List.mem_cons.mp hs with rfl | hs; exact not_ambiguous_of_opt hc
        rcases List.mem_cons.mp hs with rfl | hs; exact not_ambiguous_of_arg hv; exact hr₂ s hs)]
  rw [scan, hc]
  simp only [analyse, noExplicit_value d [] ha]
  rw [scan, hv]
  simp [takeAll, take, hd, hi]

example : parseArgs ["realign", "a.gaf", "g.gfa", "-c", "x", "r.fa"] = .error (.usage .invalidInt) := by decide +kernel
example : parseArgs ["realign", "a.gaf", "g.gfa", "r.fa", "-c", "1.5"] = .error (.usage .invalidInt) := by decide +kernel

/-- every positional given, then an option the sub-parser does not know → "unrecognized arguments" -/
theorem usage_unknown_option (sub : Sub) (items : List Item) (hg : ∀ it ∈ items, Good (table sub) it)
    (hn : (items.flatMap Item.posv).length = (positionals sub).length) (u : String)
    (hu : classify (table sub) u = .unknown) (ht : isAmbiguous topTable u = false) :
    parseArgs (sub.name :: (items.flatMap Item.toks ++ [u])) = .error (.usage .unrecognized) := by
  apply parseArgs_error_of_trace
  rw [parseTrace_items_rest sub items hg [u] (Nat.le_of_eq hn) (by simpa using ht) (by simp [isAmbiguous, hu])]
  rw [scan, hu]
  simp [scan, stAfter, hn]

example : parseArgs ["sort", "a.gaf", "g.gfa", "--bogus"] = .error (.usage .unrecognized) := by decide +kernel
/-- the top-level options are unknown to the sub-parsers -/
example : parseArgs ["sort", "a.gaf", "g.gfa", "--debug"] = .error (.usage .unrecognized) := by decide +kernel

/-- one positional too many → "unrecognized arguments" -/
theorem usage_surplus_positional (sub : Sub) (items : List Item) (hg : ∀ it ∈ items, Good (table sub) it)
    (hn : (items.flatMap Item.posv).length = (positionals sub).length) (v : String) (hv : classify (table sub) v = .arg) :
    parseArgs (sub.name :: (items.flatMap Item.toks ++ [v])) = .error (.usage .unrecognized) := by
  apply parseArgs_error_of_trace
  rw [parseTrace_items_rest sub items hg [v] (Nat.le_of_eq hn) (by simpa using arg_not_top_ambiguous sub v hv)
    (by simpa using not_ambiguous_of_arg hv)]
  rw [scan, hv]
  simp [scan, stAfter, hn]

example : parseArgs ["stat", "a.gaf", "b.gaf"] = .error (.usage .unrecognized) := by decide +kernel

/-- the first argument that is no top-level option is not one of the eight names → a usage error -/
theorem usage_unknown_subcommand (s : String) (rest : List String) (h : classify topTable s = .arg) (hs : Sub.ofName? s = none) :
    ∃ w, parseArgs (s :: rest) = .error (.usage w) := by
  unfold parseArgs parseTrace
  cases (s :: rest).any (isAmbiguous topTable)
  · refine ⟨.invalidChoice, ?_⟩
    simp [scanTop, h, parseSub, hs]
  · exact ⟨.ambiguous, by simp⟩

example : parseArgs ["find-path", "g.gfa", ">s1"] = .error (.usage .invalidChoice) := by decide +kernel
example : parseArgs [] = .error (.usage .noSubcommand) := by decide +kernel
example : parseArgs ["--debug"] = .error (.usage .noSubcommand) := by decide +kernel

end Gaftools.CliProps
