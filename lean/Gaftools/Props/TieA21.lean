import Gaftools.Model.GfaText
import Gaftools.Model.Order
import Gaftools.Gen.WriteGfa
/-!
# Tie A for `GFA.write_gfa`, `Node.to_gfa_line`, `GFA.sort_bo_no` (C07, C07b, C06, C18)

`Gen/WriteGfa.lean` is regenerated from `gaftools/gfa.py` on every run, statement by statement: `Node.to_gfa_line` (the choice
of `*`, the loop over `self.tags.items()` with its f-string, the `"\t".join`), `GFA.sort_bo_no` (the three loops: the buckets per
BO value in a dict, every bucket sorted by `int(NO)`, the buckets concatenated in `sorted(bo_ids)` order) and `GFA.write_gfa` (the
default node set, `order_bo`, how the file is opened, the loop that writes the S lines, the loop that collects for every node the
links stored at its start and then at its end — the membership test in `set_of_nodes`, the `edge_tags` lookup inside
`try/except KeyError`, the `[0]` marker, the four orientation patterns, `str(overlap) + "M"` — and writes them).  Every operation
that can raise (`d[k]`, `l[0]`, `sep.join` on a non-string, a called method) is a `match … | none => none`; the body of every
`for` loop is a definition of its own.

Model side: `Gfa.writeGfa` / `segLineOf` / `linkLinesOf` (Model/Gfa.lean: what `write_links`, `write_segs`, `read_write_read`,
C07b's `orderFiles_spec` are about), the text layer `GfaText.segText` / `linkText` / `renderChars` / `renderGfaText`
(Model/GfaText.lean: `parse_render`, `render_readGraph`), `Order.sortBoNo` / `Order.orderFile` (Model/Order.lean).

* `pyJoin_strs`     : the translated `"\t".join` on strings IS `joinTab`.
* `toGfaLine_gen`   : the translated `to_gfa_line` IS `segText ∘ segLineOf` (and `*` in the third field without the sequence).
* `sLoop_gen`       : the first loop of `write_gfa` writes the model's S lines.
* `startStep_gen`, `endStep_gen`, `lStep_gen`, `lLoop_gen` : the second loop writes `linkLinesOf` of every node, as text.
* `writeGfa_gen`, `writeGfa_gen_all`, `writeGfa_gen_text` : the whole translated function (order_bo=False) IS
  `renderChars (writeGfa g nodes)` after what `open` left in the file; it never raises.  No hypothesis.
* `writeGfa_gen_bo` : the same for `order_bo=True`, for whatever rearrangement `sort_bo_no` returns.
* `sortBoNo_spec`   : the translated `sort_bo_no`, on nodes with integer BO / NO tags, returns its input rearranged into ascending
  (BO, NO) order and does not raise.
* `sortBoNo_gen`    : … which IS the model's `sortBoNo`, for distinct nodes with distinct (BO, NO) pairs, in whatever order the
  node set is iterated.  Hypotheses: `hid` (a node is listed once: the tags are a dict), `hkey` (no two nodes share (BO, NO):
  `order_gfa` numbers every node of a component differently — scaffold nodes get a BO of their own, the inner nodes of a bubble
  NO = 1, 2, …).  Without `hkey` model and source differ (see the two `example`s at the end: the source is stable, the model's
  insertion sort reverses ties); and the source's result then depends on the iteration order of a Python set.
* `orderFile_gen`   : `write_gfa(set_of_nodes=component, order_bo=True)` as translated writes the text of `Order.orderFile`.

Representation (fixed text at the head of Gen/WriteGfa.lean, not translated): the graph object is the model's `Graph` (`self.nodes`
→ `g.find` / `g.has`, `node.start` / `node.end` → `startAdj` / `endAdj` in the model's enumeration of the set, a side 0 / 1 → `false`
/ `true`); `self.edge_tags[k]` is `pyTags` of the model's entry — `[0]` for the model's `[]` (Model/Gfa.lean: "`[0]` marker = `[]`");
`self.nodes[n].tags[K][1]` for K = BO / NO is the integer `tagv K n` (`order_gfa` stores Python ints; tags read from a file are
strings and `sorted(bo_ids)` would compare them as strings: not covered); the file is the string of characters written to it.
-/
namespace Gaftools.TieA21
open Gaftools.Gfa Gaftools.GfaText
open Gaftools.Gen.WriteGfa (Str PyV pyJoin pyTags edgeTagsPy strNat tagItems)

/-! ## generic facts about `foldlM` in `Option` -/

theorem foldlM_some {σ α : Type} (f : σ → α → Option σ) (h : σ → α → σ) (l : List α) (s : σ)
    (hf : ∀ s, ∀ x ∈ l, f s x = some (h s x)) : l.foldlM f s = some (l.foldl h s) := by
  induction l generalizing s with
  | nil => rfl
  | cons x xs ih =>
    rw [List.foldlM_cons, hf s x List.mem_cons_self]
    simp only [Option.bind_eq_bind, Option.bind_some, List.foldl_cons]
    exact ih _ (fun s y hy => hf s y (List.mem_cons_of_mem _ hy))

theorem foldl_append_flatMap {α β : Type} (k : α → List β) (l : List α) (acc : List β) :
    l.foldl (fun a x => a ++ k x) acc = acc ++ l.flatMap k := by
  induction l generalizing acc with
  | nil => simp
  | cons x xs ih => simp [ih, List.append_assoc]

/-- a loop whose body appends `k x` to the only variable it assigns -/
theorem foldlM_append {α β : Type} (f : List β → α → Option (List β)) (k : α → List β) (l : List α) (acc : List β)
    (hf : ∀ s, ∀ x ∈ l, f s x = some (s ++ k x)) : l.foldlM f acc = some (acc ++ l.flatMap k) := by
  rw [foldlM_some f (fun a x => a ++ k x) l acc hf, foldl_append_flatMap]

theorem flatMap_toList {α β : Type} (k : α → Option β) (l : List α) : l.flatMap (fun x => (k x).toList) = l.filterMap k := by
  induction l with
  | nil => rfl
  | cons x xs ih =>
    rw [List.flatMap_cons, ih, List.filterMap_cons]
    cases k x <;> rfl

theorem flatMap_single {α β : Type} (k : α → β) (l : List α) : l.flatMap (fun x => [k x]) = l.map k := by
  induction l with
  | nil => rfl
  | cons x xs ih => rw [List.flatMap_cons, ih]; rfl

/-! ## `"\t".join` -/

/-- the translated `"\t".join(l)` on a list of strings is the model's `joinTab` (and does not raise) -/
theorem pyJoin_strs : ∀ l : List Str, pyJoin ['\t'] (l.map PyV.str) = some (joinTab l)
  | [] => rfl
  | [_] => rfl
  | x :: y :: r => by
    have ih := pyJoin_strs (y :: r)
    simp only [List.map_cons] at ih ⊢
    simp only [pyJoin, ih, Option.map_some, joinTab]
    simp

/-! ## `Node.to_gfa_line` -/

theorem star_toList : ("*" : String).toList = ['*'] := by decide

theorem toGfaLine_tags (n : Node) (acc : List Str) :
    (tagItems n).foldlM (Gen.WriteGfa.toGfaLineFor1 n) acc = some (acc ++ n.tags.map tagText) := by
  rw [foldlM_append _ (fun it => [it.1.toList ++ ':' :: (it.2.1.toList ++ ':' :: it.2.2.toList)])]
  · simp only [tagItems, List.flatMap_map, flatMap_single]
    rfl
  · intro s x _
    simp [Gen.WriteGfa.toGfaLineFor1]

/-- `to_gfa_line(with_seq)` as translated: the S line of the model (`segLineOf`: `*` for an empty sequence; `segText`: the
    fields joined by tabs, the tags as `name:type:value` in dict order); without the sequence the third field is `*` -/
theorem toGfaLine_gen (n : Node) (withSeq : Bool) :
    Gen.WriteGfa.toGfaLine n withSeq = some (segText (if withSeq then segLineOf n else ⟨n.id, "*", n.tags⟩)) := by
  unfold Gen.WriteGfa.toGfaLine
  simp only [toGfaLine_tags, List.nil_append]
  have hj : ∀ sq : Str, ([PyV.str ['S'], PyV.str n.id.toList, PyV.str sq] ++ (n.tags.map tagText).map PyV.str)
      = (['S'] :: n.id.toList :: sq :: n.tags.map tagText).map PyV.str := by intro sq; simp
  simp only [hj, pyJoin_strs]
  cases withSeq <;> by_cases h : n.seq = "" <;> simp [segText, segLineOf, h, star_toList]

/-! ## the two loops of `write_gfa` -/

theorem has_eq_find (g : Graph) (n : String) : g.has n = (g.find n).isSome := by
  unfold Graph.has Graph.find
  induction g.nodes with
  | nil => rfl
  | cons a as ih =>
    rw [List.any_cons, List.find?_cons]
    cases h : (a.id == n) <;> simp [ih]

theorem find_id (g : Graph) (n : String) (nd : Node) (h : g.find n = some nd) : nd.id = n := by
  have := List.find?_some h
  simpa using this

/-- what one visit of the first loop writes -/
def sChunk (g : Graph) (n : String) : Str :=
  match g.find n with
  | some nd => segText (segLineOf nd) ++ ['\n']
  | none => []

theorem sStep_gen (g : Graph) (tagv : String → String → Option Int) (f : Str) (n : String) :
    Gen.WriteGfa.writeGfaFor1 g tagv f n = some (f ++ sChunk g n) := by
  unfold Gen.WriteGfa.writeGfaFor1 sChunk
  simp only [has_eq_find]
  cases h : g.find n with
  | none => simp
  | some nd => simp [toGfaLine_gen]

theorem sChunks (g : Graph) (order : List String) :
    order.flatMap (sChunk g) = (((order.filterMap g.find).map segLineOf).map segText).flatMap (fun l => l ++ ['\n']) := by
  induction order with
  | nil => rfl
  | cons n ns ih =>
    rw [List.flatMap_cons, ih, List.filterMap_cons]
    unfold sChunk
    cases g.find n <;> simp

/-- the first loop: the S lines of the nodes that exist, in the given order, each followed by a line feed -/
theorem sLoop_gen (g : Graph) (tagv : String → String → Option Int) (order : List String) (f : Str) :
    order.foldlM (Gen.WriteGfa.writeGfaFor1 g tagv) f =
      some (f ++ ((Gfa.writeGfa g order).segs.map segText).flatMap (fun l => l ++ ['\n'])) := by
  rw [foldlM_append _ (sChunk g) order f (fun s x _ => sStep_gen g tagv s x), sChunks]
  rfl

/-- the L line of one adjacency entry `e` of side `side` of node `n1`, when it is written -/
def linkOf (g : Graph) (inSet : String → Bool) (n1 : String) (side : Bool) (e : Adj) : Option LinkLine :=
  if inSet e.1 then (edgeTagsGet g (n1, side, e.1, e.2.1)).map (fun tags => ⟨n1, side, e.1, !e.2.1, e.2.2, tags⟩) else none

theorem pyTags_head (v : List String) : ∃ x, (pyTags v)[0]? = some x ∧ (pyTags v).isEmpty = false ∧
    (if (x == PyV.int 0) then [] else pyTags v) = (v.map String.toList).map PyV.str := by
  cases v with
  | nil => exact ⟨PyV.int 0, rfl, rfl, rfl⟩
  | cons t ts => exact ⟨PyV.str t.toList, rfl, rfl, by simp [pyTags]⟩

theorem linkFields (a b c d e : Str) (tags : List String) :
    ([PyV.str ['L'], PyV.str a, PyV.str b, PyV.str c, PyV.str d, PyV.str e] ++ (tags.map String.toList).map PyV.str) =
      (['L'] :: a :: b :: c :: d :: e :: tags.map String.toList).map PyV.str := by simp

/-- one iteration of `for n in self.nodes[n1].start` -/
theorem startStep_gen (g : Graph) (tagv : String → String → Option Int) (set : List String) (n1 : String) (edges : List Str) (e : Adj) :
    Gen.WriteGfa.writeGfaFor3 g tagv set n1 edges e =
      some (edges ++ ((linkOf g (fun id => set.contains id) n1 false e).map linkText).toList) := by
  unfold Gen.WriteGfa.writeGfaFor3 linkOf edgeTagsPy
  cases hs : set.contains e.1 with
  | false => simp only [hs, Bool.false_eq_true, if_false, Option.map_none, Option.toList_none, List.append_nil]
  | true =>
    simp only [hs, if_true]
    cases ht : edgeTagsGet g (n1, false, e.1, e.2.1) with
    | none => simp
    | some v =>
      obtain ⟨x, hx0, hne, hx⟩ := pyTags_head v
      simp only [Option.map_some, hne, hx0, hx, Bool.not_false, if_true, linkFields, pyJoin_strs]
      cases h1 : e.2.1 <;> simp [linkText, oriChar, strNat]

/-- one iteration of `for n in self.nodes[n1].end` -/
theorem endStep_gen (g : Graph) (tagv : String → String → Option Int) (set : List String) (n1 : String) (edges : List Str) (e : Adj) :
    Gen.WriteGfa.writeGfaFor4 g tagv set n1 edges e =
      some (edges ++ ((linkOf g (fun id => set.contains id) n1 true e).map linkText).toList) := by
  unfold Gen.WriteGfa.writeGfaFor4 linkOf edgeTagsPy
  cases hs : set.contains e.1 with
  | false => simp only [hs, Bool.false_eq_true, if_false, Option.map_none, Option.toList_none, List.append_nil]
  | true =>
    simp only [hs, if_true]
    cases ht : edgeTagsGet g (n1, true, e.1, e.2.1) with
    | none => simp
    | some v =>
      obtain ⟨x, hx0, hne, hx⟩ := pyTags_head v
      simp only [Option.map_some, hne, hx0, hx, Bool.not_false, if_true, linkFields, pyJoin_strs]
      cases h1 : e.2.1 <;> simp [linkText, oriChar, strNat]

theorem linkLinesOf_eq (g : Graph) (inSet : String → Bool) (nd : Node) :
    linkLinesOf g inSet nd = nd.startAdj.filterMap (linkOf g inSet nd.id false) ++ nd.endAdj.filterMap (linkOf g inSet nd.id true) := rfl

/-- what one visit of the second loop writes -/
def lChunk (g : Graph) (set : List String) (n : String) : Str :=
  match g.find n with
  | some nd => ((linkLinesOf g (fun id => set.contains id) nd).map linkText).flatMap (fun l => l ++ ['\n'])
  | none => []

theorem writeEdges_gen (g : Graph) (tagv : String → String → Option Int) (edges : List Str) (f : Str) :
    edges.foldlM (Gen.WriteGfa.writeGfaFor5 g tagv) f = some (f ++ edges.flatMap (fun l => l ++ ['\n'])) :=
  foldlM_append _ _ edges f (fun _ _ _ => rfl)

/-- the body of `for n1 in sorted_set_of_nodes`: the links of `n1` — first those stored at its start, then those stored at its
    end, each only when the neighbour is in `set_of_nodes` and `edge_tags` has the key (the end the link was declared from) -/
theorem lStep_gen (g : Graph) (tagv : String → String → Option Int) (set : List String) (f : Str) (n : String) :
    Gen.WriteGfa.writeGfaFor2 g tagv set f n = some (f ++ lChunk g set n) := by
  unfold Gen.WriteGfa.writeGfaFor2 lChunk
  simp only [has_eq_find]
  cases h : g.find n with
  | none => simp
  | some nd =>
    have hid := find_id g n nd h
    simp only [Option.isSome_some, Bool.not_true, Bool.false_eq_true, if_false]
    rw [foldlM_append _ _ nd.startAdj [] (fun s x _ => startStep_gen g tagv set n s x)]
    simp only [List.nil_append]
    rw [foldlM_append _ _ nd.endAdj _ (fun s x _ => endStep_gen g tagv set n s x)]
    simp only [writeEdges_gen, linkLinesOf_eq, hid, flatMap_toList, List.map_append, List.map_filterMap]

theorem lChunks (g : Graph) (set order : List String) :
    order.flatMap (lChunk g set) =
      (((order.filterMap g.find).flatMap (linkLinesOf g (fun id => set.contains id))).map linkText).flatMap (fun l => l ++ ['\n']) := by
  induction order with
  | nil => rfl
  | cons n ns ih =>
    rw [List.flatMap_cons, ih, List.filterMap_cons]
    unfold lChunk
    cases g.find n <;> simp

/-- the second loop, for the node set `set` visited in the order `order` -/
theorem lLoop_gen (g : Graph) (tagv : String → String → Option Int) (set order : List String) (f : Str) :
    order.foldlM (Gen.WriteGfa.writeGfaFor2 g tagv set) f =
      some (f ++ (((order.filterMap g.find).flatMap (linkLinesOf g (fun id => set.contains id))).map linkText).flatMap
        (fun l => l ++ ['\n'])) := by
  rw [foldlM_append _ (lChunk g set) order f (fun s x _ => lStep_gen g tagv set s x), lChunks]

/-! ## `write_gfa` -/

/-- what `open(output_file, …)` leaves in the file: nothing (`"w+"`), or what was there (`"a"`; a missing file is created) -/
def opened (old : Option Str) (append : Bool) : Str := if append then old.getD [] else []

/-- what the two loops append, for the node set `set` visited in the order `sorted`, is the text of the model's file -/
theorem loops_text (g : Graph) (set sorted : List String) (hc : ∀ x, set.contains x = sorted.contains x) (f : Str) :
    f ++ ((Gfa.writeGfa g sorted).segs.map segText).flatMap (fun l => l ++ ['\n']) ++
      (((sorted.filterMap g.find).flatMap (linkLinesOf g (fun id => set.contains id))).map linkText).flatMap (fun l => l ++ ['\n']) =
    f ++ renderChars (Gfa.writeGfa g sorted) := by
  have hset : (fun id => set.contains id) = (fun id => sorted.contains id) := funext hc
  rw [hset]
  simp [renderChars, renderLines, Gfa.writeGfa, List.append_assoc]

/-- `write_gfa(set_of_nodes=nodes, output_file, append, order_bo=False)` as translated writes exactly the text of the model's
    `writeGfa g nodes` (`renderChars`: all S lines, then all L lines, each with its line feed) after what `open` left in the
    file — and never raises -/
theorem writeGfa_gen (g : Graph) (tagv : String → String → Option Int) (nodes : List String) (old : Option Str) (append : Bool) :
    Gen.WriteGfa.writeGfa g tagv (some nodes) old append false =
      some (opened old append ++ renderChars (Gfa.writeGfa g nodes)) := by
  unfold Gen.WriteGfa.writeGfa
  simp only [Bool.false_eq_true, if_false, sLoop_gen, lLoop_gen, loops_text g nodes nodes (fun _ => rfl)]
  cases append <;> cases old <;> rfl

/-- without a node set every node is written, in dict order -/
theorem writeGfa_gen_all (g : Graph) (tagv : String → String → Option Int) (old : Option Str) (append : Bool) :
    Gen.WriteGfa.writeGfa g tagv none old append false =
      some (opened old append ++ renderChars (Gfa.writeGfa g (g.nodes.map (·.id)))) := by
  have h := writeGfa_gen g tagv (g.nodes.map (·.id)) old append
  unfold Gen.WriteGfa.writeGfa at h ⊢
  exact h

/-- the file as a `String`: `renderGfaText` of the model -/
theorem writeGfa_gen_text (g : Graph) (tagv : String → String → Option Int) (nodes : List String) :
    (Gen.WriteGfa.writeGfa g tagv (some nodes) none false false).map String.ofList = some (renderGfaText (Gfa.writeGfa g nodes)) := by
  rw [writeGfa_gen]
  rfl

/-- `order_bo=True`: whatever order `sort_bo_no` returns (a rearrangement of the node set), the file is the model's `writeGfa`
    for that order -/
theorem writeGfa_gen_bo (g : Graph) (tagv : String → String → Option Int) (nodes sorted : List String) (old : Option Str) (append : Bool)
    (hs : Gen.WriteGfa.sortBoNo g tagv nodes = some sorted) (hp : sorted.Perm nodes) :
    Gen.WriteGfa.writeGfa g tagv (some nodes) old append true =
      some (opened old append ++ renderChars (Gfa.writeGfa g sorted)) := by
  unfold Gen.WriteGfa.writeGfa
  simp only [if_true, hs, sLoop_gen, lLoop_gen, loops_text g nodes sorted (fun x => hp.symm.contains_eq)]
  cases append <;> cases old <;> rfl

end Gaftools.TieA21

/-! ## `sort_bo_no`: the helper functions of the translation -/
namespace Gaftools.TieA21
open Gaftools.Gfa (Graph)
open Gaftools.Gen.WriteGfa (dictHas dictGet dictSet insKey sortedBy pySorted)

theorem insKey_perm {α : Type} (x : Int × α) (l : List (Int × α)) : (insKey x l).Perm (x :: l) := by
  induction l with
  | nil => exact List.Perm.refl _
  | cons y ys ih =>
    unfold insKey
    split
    · exact List.Perm.refl _
    · exact ((List.Perm.cons y ih).trans (List.Perm.swap x y ys))

theorem insKey_sorted {α : Type} (x : Int × α) (l : List (Int × α)) (h : l.Pairwise (fun a b => a.1 ≤ b.1)) :
    (insKey x l).Pairwise (fun a b => a.1 ≤ b.1) := by
  induction l with
  | nil => simp [insKey]
  | cons y ys ih =>
    rw [List.pairwise_cons] at h
    unfold insKey
    split
    · rename_i hxy
      refine List.pairwise_cons.mpr ⟨?_, List.pairwise_cons.mpr h⟩
      intro z hz
      rcases List.mem_cons.mp hz with rfl | hz
      · exact hxy
      · exact Int.le_trans hxy (h.1 z hz)
    · rename_i hxy
      refine List.pairwise_cons.mpr ⟨?_, ih h.2⟩
      intro z hz
      rcases List.mem_cons.mp ((insKey_perm x ys).subset hz) with rfl | hz
      · omega
      · exact h.1 z hz

theorem foldr_insKey_perm {α : Type} (l : List (Int × α)) : (l.foldr insKey []).Perm l := by
  induction l with
  | nil => exact List.Perm.refl _
  | cons x xs ih => exact (insKey_perm x _).trans (List.Perm.cons x ih)

theorem foldr_insKey_sorted {α : Type} (l : List (Int × α)) : (l.foldr insKey []).Pairwise (fun a b => a.1 ≤ b.1) := by
  induction l with
  | nil => exact List.Pairwise.nil
  | cons x xs ih => exact insKey_sorted x _ ih

theorem zip_map_self {α : Type} (key : α → Int) (l : List α) : (l.map key).zip l = l.map (fun x => (key x, x)) := by
  induction l with
  | nil => rfl
  | cons x xs ih => simp [ih]

theorem map_snd_pair {α : Type} (key : α → Int) (l : List α) : (l.map (fun x => (key x, x))).map (·.2) = l := by
  induction l with
  | nil => rfl
  | cons x xs ih => rw [List.map_cons, List.map_cons, ih]

/-- `sorted(l, key=…)` rearranges `l` … -/
theorem sortedBy_perm {α : Type} (key : α → Int) (l : List α) : (sortedBy (l.map key) l).Perm l := by
  unfold sortedBy
  rw [zip_map_self]
  have h := (foldr_insKey_perm (l.map (fun x => (key x, x)))).map (·.2)
  rw [map_snd_pair] at h
  exact h

/-- … into ascending keys -/
theorem sortedBy_sorted {α : Type} (key : α → Int) (l : List α) : (sortedBy (l.map key) l).Pairwise (fun a b => key a ≤ key b) := by
  unfold sortedBy
  rw [zip_map_self, List.pairwise_map]
  refine List.Pairwise.imp_of_mem ?_ (foldr_insKey_sorted _)
  intro a b ha hb hab
  have ha' := (foldr_insKey_perm _).subset ha
  have hb' := (foldr_insKey_perm _).subset hb
  obtain ⟨x, _, rfl⟩ := List.mem_map.mp ha'
  obtain ⟨y, _, rfl⟩ := List.mem_map.mp hb'
  exact hab

theorem pySorted_perm (l : List Int) : (pySorted l).Perm l := by
  have h := sortedBy_perm (fun x : Int => x) l
  rw [show l.map (fun x : Int => x) = l from List.map_id' l] at h
  exact h

theorem pySorted_sorted (l : List Int) : (pySorted l).Pairwise (fun a b => a ≤ b) := by
  have h := sortedBy_sorted (fun x : Int => x) l
  rw [show l.map (fun x : Int => x) = l from List.map_id' l] at h
  exact h

/-! dictionaries with integer keys -/

theorem dictHas_iff {β : Type} (d : List (Int × β)) (k : Int) : dictHas d k = true ↔ k ∈ d.map (·.1) := by
  unfold dictHas
  rw [List.any_eq_true]
  constructor
  · rintro ⟨e, he, hk⟩
    exact List.mem_map.mpr ⟨e, he, by simpa using hk⟩
  · intro h
    obtain ⟨e, he, rfl⟩ := List.mem_map.mp h
    exact ⟨e, he, by simp⟩

theorem map_ite_notin {β : Type} (d : List (Int × β)) (k : Int) (v : β) (h : k ∉ d.map (·.1)) :
    d.map (fun e => if e.1 == k then (k, v) else e) = d := by
  induction d with
  | nil => rfl
  | cons e es ih =>
    simp only [List.map_cons, List.mem_cons, not_or] at h
    rw [List.map_cons, ih h.2]
    have : (e.1 == k) = false := by simpa using fun hh => h.1 hh.symm
    simp [this]

theorem dictGet_split {β : Type} (d : List (Int × β)) (k : Int) (l : β) (hk : (d.map (·.1)).Nodup) (hg : dictGet d k = some l) :
    ∃ d1 d2, d = d1 ++ (k, l) :: d2 ∧ k ∉ d1.map (·.1) ∧ k ∉ d2.map (·.1) := by
  induction d with
  | nil => simp [dictGet] at hg
  | cons e es ih =>
    rw [List.map_cons, List.nodup_cons] at hk
    by_cases he : e.1 = k
    · refine ⟨[], es, ?_, by simp, he ▸ hk.1⟩
      have : l = e.2 := by simpa [dictGet, he] using hg.symm
      subst this
      subst he
      rfl
    · have hg' : dictGet es k = some l := by simpa [dictGet, List.find?_cons, he] using hg
      obtain ⟨d1, d2, rfl, h1, h2⟩ := ih hk.2 hg'
      refine ⟨e :: d1, d2, rfl, ?_, h2⟩
      simp only [List.map_cons, List.mem_cons, not_or]
      exact ⟨fun hh => he hh.symm, h1⟩

theorem dictGet_mid {β : Type} (d1 d2 : List (Int × β)) (k : Int) (l : β) (h1 : k ∉ d1.map (·.1)) :
    dictGet (d1 ++ (k, l) :: d2) k = some l := by
  induction d1 with
  | nil => simp [dictGet]
  | cons e es ih =>
    simp only [List.map_cons, List.mem_cons, not_or] at h1
    have : (e.1 == k) = false := by simpa using fun hh => h1.1 hh.symm
    have ih' := ih h1.2
    unfold dictGet at ih' ⊢
    rw [List.cons_append, List.find?_cons, this]
    exact ih'

theorem dictSet_mid {β : Type} (d1 d2 : List (Int × β)) (k : Int) (l v : β) (h1 : k ∉ d1.map (·.1)) (h2 : k ∉ d2.map (·.1)) :
    dictSet (d1 ++ (k, l) :: d2) k v = d1 ++ (k, v) :: d2 := by
  unfold dictSet
  have : (d1 ++ (k, l) :: d2).any (·.1 == k) = true := by simp
  rw [if_pos this, List.map_append, List.map_cons, map_ite_notin d1 k v h1, map_ite_notin d2 k v h2]
  simp

theorem dictSet_new {β : Type} (d : List (Int × β)) (k : Int) (v : β) (h : dictHas d k = false) : dictSet d k v = d ++ [(k, v)] := by
  unfold dictSet
  unfold dictHas at h
  rw [h]
  rfl

theorem dictGet_of_has {β : Type} (d : List (Int × β)) (k : Int) (h : dictHas d k = true) : ∃ l, dictGet d k = some l := by
  induction d with
  | nil => simp [dictHas] at h
  | cons e es ih =>
    by_cases he : e.1 = k
    · exact ⟨e.2, by simp [dictGet, he]⟩
    · have : dictHas es k = true := by simpa [dictHas, he] using h
      obtain ⟨l, hl⟩ := ih this
      exact ⟨l, by simpa [dictGet, List.find?_cons, he] using hl⟩

theorem dictGet_mem {β : Type} (d : List (Int × β)) (hk : (d.map (·.1)).Nodup) (e : Int × β) (he : e ∈ d) : dictGet d e.1 = some e.2 := by
  obtain ⟨d1, d2, rfl⟩ := List.append_of_mem he
  rw [List.map_append, List.map_cons, List.nodup_append] at hk
  refine dictGet_mid d1 d2 e.1 e.2 ?_
  intro h
  exact hk.2.2 _ h _ List.mem_cons_self rfl

theorem mem_of_dictGet {β : Type} (d : List (Int × β)) (k : Int) (l : β) (h : dictGet d k = some l) : (k, l) ∈ d := by
  unfold dictGet at h
  obtain ⟨e, he, rfl⟩ := Option.map_eq_some_iff.mp h
  have hm := List.mem_of_find?_eq_some he
  have hk : e.1 = k := by simpa using List.find?_some he
  rw [← hk]
  exact hm


/-! ## `sort_bo_no`: the three loops -/

/-- `separate_bubbles` after the first loop has seen the nodes `p`: distinct keys, every node filed under its BO value, and
    the buckets together hold exactly `p` -/
structure Buckets (bo : String → Int) (d : List (Int × List String)) (p : List String) : Prop where
  keys : (d.map (·.1)).Nodup
  bo : ∀ e ∈ d, ∀ v ∈ e.2, bo v = e.1
  perm : (d.flatMap (·.2)).Perm p

theorem bucketStep (g : Graph) (tagv : String → String → Option Int) (bo : String → Int) (d : List (Int × List String))
    (p : List String) (n : String) (hb : Buckets bo d p) (hn : tagv "BO" n = some (bo n)) :
    ∃ d', Gen.WriteGfa.sortBoNoFor1 g tagv d n = some d' ∧ Buckets bo d' (p ++ [n]) := by
  unfold Gen.WriteGfa.sortBoNoFor1
  simp only [hn]
  cases hh : dictHas d (bo n) with
  | false =>
    refine ⟨d ++ [(bo n, [n])], by simp [dictSet_new d (bo n) [n] hh], ?_, ?_, ?_⟩
    · rw [List.map_append, List.nodup_append]
      refine ⟨hb.keys, by simp, ?_⟩
      intro a ha b hb' hab
      have : b = bo n := by simpa using hb'
      have hin : dictHas d (bo n) = true := (dictHas_iff d (bo n)).mpr (by rw [← this, ← hab]; exact ha)
      rw [hh] at hin
      cases hin
    · intro e he v hv
      rcases List.mem_append.mp he with he | he
      · exact hb.bo e he v hv
      · have : e = (bo n, [n]) := by simpa using he
        subst this
        have : v = n := by simpa using hv
        rw [this]
    · rw [List.flatMap_append]
      exact List.Perm.append hb.perm (by simp)
  | true =>
    obtain ⟨l, hl⟩ := dictGet_of_has d (bo n) hh
    obtain ⟨d1, d2, rfl, h1, h2⟩ := dictGet_split d (bo n) l hb.keys hl
    refine ⟨d1 ++ (bo n, l ++ [n]) :: d2, by simp [hl, dictSet_mid d1 d2 (bo n) l (l ++ [n]) h1 h2], ?_, ?_, ?_⟩
    · have := hb.keys
      simpa using this
    · intro e he v hv
      rcases List.mem_append.mp he with he | he
      · exact hb.bo e (List.mem_append.mpr (Or.inl he)) v hv
      · rcases List.mem_cons.mp he with rfl | he
        · rcases List.mem_append.mp hv with hv | hv
          · exact hb.bo (bo n, l) (List.mem_append.mpr (Or.inr List.mem_cons_self)) v hv
          · have : v = n := by simpa using hv
            rw [this]
        · exact hb.bo e (List.mem_append.mpr (Or.inr (List.mem_cons_of_mem _ he))) v hv
    · have hp := hb.perm
      simp only [List.flatMap_append, List.flatMap_cons] at hp ⊢
      refine List.Perm.trans ?_ (List.Perm.append_right [n] hp)
      simp only [List.append_assoc]
      exact List.Perm.append_left _ (List.Perm.append_left _ List.perm_append_comm)

/-- the first loop: `for n in set_of_nodes` -/
theorem loop1 (g : Graph) (tagv : String → String → Option Int) (bo : String → Int) (l : List String) (d : List (Int × List String))
    (p : List String) (hb : Buckets bo d p) (hn : ∀ v ∈ l, tagv "BO" v = some (bo v)) :
    ∃ d', l.foldlM (Gen.WriteGfa.sortBoNoFor1 g tagv) d = some d' ∧ Buckets bo d' (p ++ l) := by
  induction l generalizing d p with
  | nil => exact ⟨d, rfl, by simpa using hb⟩
  | cons n ns ih =>
    obtain ⟨d1, h1, hb1⟩ := bucketStep g tagv bo d p n hb (hn n List.mem_cons_self)
    obtain ⟨d2, h2, hb2⟩ := ih d1 (p ++ [n]) hb1 (fun v hv => hn v (List.mem_cons_of_mem _ hv))
    refine ⟨d2, ?_, by simpa using hb2⟩
    rw [List.foldlM_cons, h1]
    exact h2

theorem mapM_some {α β : Type} (f : α → Option β) (h : α → β) (l : List α) (hf : ∀ x ∈ l, f x = some (h x)) :
    l.mapM f = some (l.map h) := by
  induction l with
  | nil => rfl
  | cons x xs ih =>
    rw [List.mapM_cons, hf x List.mem_cons_self, ih (fun y hy => hf y (List.mem_cons_of_mem _ hy))]
    rfl

/-- a bucket after the second loop -/
def sortNo (no : String → Int) (e : Int × List String) : Int × List String := (e.1, sortedBy (e.2.map no) e.2)

/-- the second loop: `for bo, n_list in separate_bubbles.items()` — every key is recorded, every bucket replaced by itself
    sorted by NO -/
theorem loop2 (g : Graph) (tagv : String → String → Option Int) (no : String → Int) (suf pre : List (Int × List String)) (ids : List Int)
    (hk : ((pre ++ suf).map (·.1)).Nodup) (hno : ∀ e ∈ suf, ∀ v ∈ e.2, tagv "NO" v = some (no v)) :
    suf.foldlM (Gen.WriteGfa.sortBoNoFor2 g tagv) (ids, pre.map (sortNo no) ++ suf) =
      some (ids ++ suf.map (·.1), (pre ++ suf).map (sortNo no)) := by
  induction suf generalizing pre ids with
  | nil => simp
  | cons e es ih =>
    have hk' := hk
    rw [List.map_append, List.map_cons, List.nodup_append] at hk'
    have h1 : e.1 ∉ (pre.map (sortNo no)).map (·.1) := by
      intro h
      have : e.1 ∈ pre.map (·.1) := by simpa [sortNo, List.map_map] using h
      exact hk'.2.2 _ this _ List.mem_cons_self rfl
    have h2 : e.1 ∉ es.map (·.1) := (List.nodup_cons.mp hk'.2.1).1
    have hget := dictGet_mid (pre.map (sortNo no)) es e.1 e.2 h1
    have hset := dictSet_mid (pre.map (sortNo no)) es e.1 e.2 (sortedBy (e.2.map no) e.2) h1 h2
    have hkeys := mapM_some (fun x => tagv "NO" x) no e.2 (hno e List.mem_cons_self)
    rw [List.foldlM_cons]
    have hstep : Gen.WriteGfa.sortBoNoFor2 g tagv (ids, pre.map (sortNo no) ++ e :: es) e =
        some (ids ++ [e.1], (pre ++ [e]).map (sortNo no) ++ es) := by
      unfold Gen.WriteGfa.sortBoNoFor2
      simp only [hget, hkeys, hset]
      simp [sortNo]
    rw [hstep]
    have := ih (pre ++ [e]) (ids ++ [e.1]) (by simpa using hk) (fun x hx => hno x (List.mem_cons_of_mem _ hx))
    simpa using this

theorem loop4 (g : Graph) (tagv : String → String → Option Int) (l acc : List String) :
    l.foldlM (Gen.WriteGfa.sortBoNoFor4 g tagv) acc = some (acc ++ l) := by
  rw [foldlM_append (Gen.WriteGfa.sortBoNoFor4 g tagv) (fun x => [x]) l acc (fun _ _ _ => rfl), flatMap_single]
  simp

/-- the third loop: `for bo in sorted(bo_ids): for n_id in separate_bubbles[bo]` -/
theorem loop3 (g : Graph) (tagv : String → String → Option Int) (d : List (Int × List String)) (ks : List Int) (acc : List String)
    (h : ∀ k ∈ ks, ∃ l, dictGet d k = some l) :
    ks.foldlM (Gen.WriteGfa.sortBoNoFor3 g tagv d) acc = some (acc ++ ks.flatMap (fun k => (dictGet d k).getD [])) := by
  apply foldlM_append
  intro s k hk
  obtain ⟨l, hl⟩ := h k hk
  unfold Gen.WriteGfa.sortBoNoFor3
  simp [hl, loop4]


/-! ## `sort_bo_no`: what it returns -/

/-- ascending BO, then ascending NO -/
def lexLE (bo no : String → Int) (a b : String) : Prop := bo a < bo b ∨ (bo a = bo b ∧ no a ≤ no b)

theorem flatMap_perm_pointwise {α β : Type} (f h : α → List β) (l : List α) (hp : ∀ x ∈ l, (f x).Perm (h x)) :
    (l.flatMap f).Perm (l.flatMap h) := by
  induction l with
  | nil => exact List.Perm.refl _
  | cons x xs ih =>
    rw [List.flatMap_cons, List.flatMap_cons]
    exact List.Perm.append (hp x List.mem_cons_self) (ih (fun y hy => hp y (List.mem_cons_of_mem _ hy)))

/-- a bucket of the final dictionary: some bucket of the first loop, sorted by NO -/
theorem bucket_of_get (no : String → Int) (d : List (Int × List String)) (k : Int) (l' : List String)
    (h : dictGet (d.map (sortNo no)) k = some l') : ∃ e ∈ d, e.1 = k ∧ l' = sortedBy (e.2.map no) e.2 := by
  have hm := mem_of_dictGet _ k l' h
  obtain ⟨e, he, heq⟩ := List.mem_map.mp hm
  have h1 : e.1 = k := congrArg Prod.fst heq
  have h2 : sortedBy (e.2.map no) e.2 = l' := congrArg Prod.snd heq
  exact ⟨e, he, h1, h2.symm⟩

theorem bucket_elem (bo no : String → Int) (d : List (Int × List String)) (p : List String) (hb : Buckets bo d p) (k : Int) (x : String)
    (hx : x ∈ (dictGet (d.map (sortNo no)) k).getD []) : bo x = k := by
  cases hg : dictGet (d.map (sortNo no)) k with
  | none => simp [hg] at hx
  | some l' =>
    obtain ⟨e, he, hk, rfl⟩ := bucket_of_get no d k l' hg
    rw [hg] at hx
    have hx' : x ∈ e.2 := (sortedBy_perm no e.2).subset hx
    rw [← hk]
    exact hb.bo e he x hx'

theorem bucket_sorted (bo no : String → Int) (d : List (Int × List String)) (p : List String) (hb : Buckets bo d p) (k : Int) :
    ((dictGet (d.map (sortNo no)) k).getD []).Pairwise (lexLE bo no) := by
  cases hg : dictGet (d.map (sortNo no)) k with
  | none => exact List.Pairwise.nil
  | some l' =>
    have hel := bucket_elem bo no d p hb k
    rw [hg] at hel
    obtain ⟨e, _, _, rfl⟩ := bucket_of_get no d k l' hg
    refine List.Pairwise.imp_of_mem ?_ (sortedBy_sorted no e.2)
    intro a b ha hb' hab
    exact Or.inr ⟨(hel a ha).trans (hel b hb').symm, hab⟩

/-- `sort_bo_no` as translated, on nodes that all carry integer BO and NO tags: it does not raise, and returns the nodes it was
    given rearranged into ascending (BO, NO) order -/
theorem sortBoNo_spec (g : Graph) (tagv : String → String → Option Int) (bo no : String → Int) (l : List String)
    (hbo : ∀ v ∈ l, tagv "BO" v = some (bo v)) (hno : ∀ v ∈ l, tagv "NO" v = some (no v)) :
    ∃ R, Gen.WriteGfa.sortBoNo g tagv l = some R ∧ R.Perm l ∧ R.Pairwise (lexLE bo no) := by
  obtain ⟨d, h1, hb⟩ := loop1 g tagv bo l [] [] ⟨List.nodup_nil, by simp, by simp⟩ hbo
  rw [List.nil_append] at hb
  have hmem : ∀ e ∈ d, ∀ v ∈ e.2, v ∈ l := fun e he v hv => hb.perm.subset (List.mem_flatMap.mpr ⟨e, he, hv⟩)
  have h2 := loop2 g tagv no d [] [] (by simpa using hb.keys) (fun e he v hv => hno v (hmem e he v hv))
  simp only [List.map_nil, List.nil_append] at h2
  have hDkeys : (d.map (sortNo no)).map (·.1) = d.map (·.1) := by
    rw [List.map_map]
    rfl
  have hDnodup : ((d.map (sortNo no)).map (·.1)).Nodup := hDkeys ▸ hb.keys
  have h3 := loop3 g tagv (d.map (sortNo no)) (pySorted (d.map (·.1))) [] (by
    intro k hk
    have hk' : k ∈ d.map (·.1) := (pySorted_perm _).subset hk
    rw [← hDkeys] at hk'
    exact dictGet_of_has _ k ((dictHas_iff _ k).mpr hk'))
  rw [List.nil_append] at h3
  refine ⟨(pySorted (d.map (·.1))).flatMap (fun k => (dictGet (d.map (sortNo no)) k).getD []), ?_, ?_, ?_⟩
  · unfold Gen.WriteGfa.sortBoNo
    simp only [h1, h2, h3]
  · refine (List.Perm.flatMap_right _ (pySorted_perm _)).trans ?_
    rw [← hDkeys, List.flatMap_map]
    refine (flatMap_perm_pointwise _ (·.2) _ ?_).trans ?_
    · intro e he
      rw [dictGet_mem _ hDnodup e he]
      exact List.Perm.refl _
    · rw [List.flatMap_map]
      exact (flatMap_perm_pointwise _ (·.2) d (fun e _ => sortedBy_perm no e.2)).trans hb.perm
  · rw [List.pairwise_flatMap]
    refine ⟨fun k _ => bucket_sorted bo no d l hb k, ?_⟩
    have hlt : (pySorted (d.map (·.1))).Pairwise (fun a b => a < b) := by
      have hnd : (pySorted (d.map (·.1))).Nodup := (pySorted_perm _).symm.nodup hb.keys
      exact ((pySorted_sorted _).and hnd).imp (fun ⟨h1, h2⟩ => by omega)
    refine hlt.imp ?_
    intro k1 k2 hk x hx y hy
    have hx' := bucket_elem bo no d l hb k1 x hx
    have hy' := bucket_elem bo no d l hb k2 y hy
    exact Or.inl (by omega)

/-! ## the model's `sortBoNo` -/

open Gaftools.Order (insertBoNo)

def kLE (x y : String × Int × Int) : Prop := x.2.1 < y.2.1 ∨ (x.2.1 = y.2.1 ∧ x.2.2 ≤ y.2.2)

theorem insertBoNo_perm (x : String × Int × Int) (l : List (String × Int × Int)) : (insertBoNo x l).Perm (x :: l) := by
  induction l with
  | nil => exact List.Perm.refl _
  | cons y ys ih =>
    unfold insertBoNo
    split
    · exact List.Perm.refl _
    · exact ((List.Perm.cons y ih).trans (List.Perm.swap x y ys))

theorem insertBoNo_sorted (x : String × Int × Int) (l : List (String × Int × Int)) (h : l.Pairwise kLE) :
    (insertBoNo x l).Pairwise kLE := by
  induction l with
  | nil => simp [insertBoNo]
  | cons y ys ih =>
    rw [List.pairwise_cons] at h
    unfold insertBoNo
    split
    · rename_i hxy
      refine List.pairwise_cons.mpr ⟨?_, List.pairwise_cons.mpr h⟩
      intro z hz
      rcases List.mem_cons.mp hz with rfl | hz
      · unfold kLE; omega
      · have := h.1 z hz
        unfold kLE at this ⊢
        omega
    · rename_i hxy
      refine List.pairwise_cons.mpr ⟨?_, ih h.2⟩
      intro z hz
      rcases List.mem_cons.mp ((insertBoNo_perm x ys).subset hz) with rfl | hz
      · unfold kLE; omega
      · exact h.1 z hz

theorem foldr_insertBoNo_perm (l : List (String × Int × Int)) : (l.foldr insertBoNo []).Perm l := by
  induction l with
  | nil => exact List.Perm.refl _
  | cons x xs ih => exact (insertBoNo_perm x _).trans (List.Perm.cons x ih)

theorem foldr_insertBoNo_sorted (l : List (String × Int × Int)) : (l.foldr insertBoNo []).Pairwise kLE := by
  induction l with
  | nil => exact List.Pairwise.nil
  | cons x xs ih => exact insertBoNo_sorted x _ ih

/-! ## the tie -/

/-- the BO / NO tags as `order_gfa` has stored them in the nodes before it calls `write_gfa(order_bo=True)`: `tags` lists
    `(node, BO, NO)`; any other tag name, or a node outside the list: KeyError -/
def tagvOf (tags : List (String × Int × Int)) (k v : String) : Option Int :=
  (tags.find? (·.1 == v)).bind (fun x => if k == "BO" then some x.2.1 else if k == "NO" then some x.2.2 else none)

def boOf (tags : List (String × Int × Int)) (v : String) : Int := ((tags.find? (·.1 == v)).map (·.2.1)).getD 0
def noOf (tags : List (String × Int × Int)) (v : String) : Int := ((tags.find? (·.1 == v)).map (·.2.2)).getD 0

theorem find_of_mem_ids (tags : List (String × Int × Int)) (v : String) (hv : v ∈ tags.map (·.1)) :
    ∃ x, tags.find? (·.1 == v) = some x := by
  obtain ⟨x, hx, rfl⟩ := List.mem_map.mp hv
  cases h : tags.find? (·.1 == x.1) with
  | some y => exact ⟨y, rfl⟩
  | none =>
    have := List.find?_eq_none.mp h x hx
    simp at this

theorem find_self (tags : List (String × Int × Int)) (hid : (tags.map (·.1)).Nodup) (x : String × Int × Int) (hx : x ∈ tags) :
    tags.find? (·.1 == x.1) = some x := by
  induction tags with
  | nil => cases hx
  | cons y ys ih =>
    rw [List.map_cons, List.nodup_cons] at hid
    rw [List.find?_cons]
    rcases List.mem_cons.mp hx with rfl | hx
    · simp
    · have : (y.1 == x.1) = false := by
        have : y.1 ≠ x.1 := fun h => hid.1 (h ▸ List.mem_map_of_mem hx)
        simpa using this
      rw [this]
      exact ih hid.2 hx

theorem nodup_map_inj {α β : Type} (f : α → β) (l : List α) (h : (l.map f).Nodup) (x y : α) (hx : x ∈ l) (hy : y ∈ l) (hxy : f x = f y) :
    x = y := by
  induction l with
  | nil => cases hx
  | cons a as ih =>
    rw [List.map_cons, List.nodup_cons] at h
    rcases List.mem_cons.mp hx with hxa | hxs
    · rcases List.mem_cons.mp hy with hya | hys
      · rw [hxa, hya]
      · exact absurd (hxa ▸ hxy ▸ List.mem_map_of_mem hys) h.1
    · rcases List.mem_cons.mp hy with hya | hys
      · exact absurd (hya ▸ hxy.symm ▸ List.mem_map_of_mem hxs) h.1
      · exact ih h.2 hxs hys

/-- **`sort_bo_no` as translated IS the model's `sortBoNo`**: for `(node, BO, NO)` entries with distinct nodes and distinct
    (BO, NO) pairs, handed over in any order `l` (the Python iterates a set) -/
theorem sortBoNo_gen (g : Graph) (tags : List (String × Int × Int)) (hid : (tags.map (·.1)).Nodup) (hkey : (tags.map (·.2)).Nodup)
    (l : List String) (hl : l.Perm (tags.map (·.1))) :
    Gen.WriteGfa.sortBoNo g (tagvOf tags) l = some (Gaftools.Order.sortBoNo tags) := by
  have hbo : ∀ v ∈ l, tagvOf tags "BO" v = some (boOf tags v) := by
    intro v hv
    obtain ⟨x, hx⟩ := find_of_mem_ids tags v (hl.subset hv)
    simp [tagvOf, boOf, hx]
  have hno : ∀ v ∈ l, tagvOf tags "NO" v = some (noOf tags v) := by
    intro v hv
    obtain ⟨x, hx⟩ := find_of_mem_ids tags v (hl.subset hv)
    simp [tagvOf, noOf, hx]
  obtain ⟨R, hR, hperm, hsorted⟩ := sortBoNo_spec g (tagvOf tags) (boOf tags) (noOf tags) l hbo hno
  rw [hR]
  congr 1
  have hkeyOf : ∀ x ∈ tags, boOf tags x.1 = x.2.1 ∧ noOf tags x.1 = x.2.2 := by
    intro x hx
    simp [boOf, noOf, find_self tags hid x hx]
  have hMperm : (Gaftools.Order.sortBoNo tags).Perm (tags.map (·.1)) := (foldr_insertBoNo_perm tags).map _
  have hMsorted : (Gaftools.Order.sortBoNo tags).Pairwise (lexLE (boOf tags) (noOf tags)) := by
    unfold Gaftools.Order.sortBoNo
    rw [List.pairwise_map]
    refine List.Pairwise.imp_of_mem ?_ (foldr_insertBoNo_sorted tags)
    intro a b ha hb hab
    have ha' := hkeyOf a ((foldr_insertBoNo_perm tags).subset ha)
    have hb' := hkeyOf b ((foldr_insertBoNo_perm tags).subset hb)
    unfold lexLE
    unfold kLE at hab
    omega
  refine List.Perm.eq_of_pairwise (le := lexLE (boOf tags) (noOf tags)) ?_ hsorted hMsorted (hperm.trans (hl.trans hMperm.symm))
  intro a b ha hb hab hba
  obtain ⟨x, hx, rfl⟩ := List.mem_map.mp (hl.subset (hperm.subset ha))
  obtain ⟨y, hy, rfl⟩ := List.mem_map.mp (hMperm.subset hb)
  have hx' := hkeyOf x hx
  have hy' := hkeyOf y hy
  unfold lexLE at hab hba
  have h1 : x.2.1 = y.2.1 := by omega
  have h2 : x.2.2 = y.2.2 := by omega
  have : x = y := nodup_map_inj (·.2) tags hkey x y hx hy (Prod.ext h1 h2)
  rw [this]


/-- the per-chromosome file of `order_gfa`: `write_gfa(set_of_nodes=component, order_bo=True)` as translated, on the graph whose
    nodes carry the BO / NO tags of `w`, the component handed over in any order, writes the text of the model's `orderFile` -/
theorem orderFile_gen (g : Graph) (w : Gaftools.Order.Written) (hid : (w.tags.map (·.1)).Nodup) (hkey : (w.tags.map (·.2)).Nodup)
    (l : List String) (hl : l.Perm (w.tags.map (·.1))) (old : Option Gaftools.Gen.WriteGfa.Str) (append : Bool) :
    Gen.WriteGfa.writeGfa (Gaftools.Order.tagNodes g w.tags) (tagvOf w.tags) (some l) old append true =
      some (opened old append ++ Gaftools.GfaText.renderChars (Gaftools.Order.orderFile g w)) := by
  have hs := sortBoNo_gen (Gaftools.Order.tagNodes g w.tags) w.tags hid hkey l hl
  have hp : (Gaftools.Order.sortBoNo w.tags).Perm l := ((foldr_insertBoNo_perm w.tags).map _).trans hl.symm
  exact writeGfa_gen_bo _ _ l _ old append hs hp

/-! Finding (outside the hypotheses of `sortBoNo_gen`): two nodes with the same (BO, NO) pair.  `sort_bo_no` is stable (they keep
    the order in which they were handed over), the model's insertion sort puts the later one first. -/
example : Gen.WriteGfa.sortBoNo Graph.empty (tagvOf [("a", 0, 0), ("b", 0, 0)]) ["a", "b"] = some ["a", "b"] := by decide
example : Gaftools.Order.sortBoNo [("a", 0, 0), ("b", 0, 0)] = ["b", "a"] := by decide

end Gaftools.TieA21
