import Gaftools.Model.Gfa
import Gaftools.Gen.Edges
/-!
# Tie A for `GFA.add_edge` / `GFA.remove_edge` (C07, C14, C15)

`Gen/Edges.lean` is regenerated from `gaftools/gfa.py` on every run: after the `E_DIR` lookup, which endpoint's adjacency set
(start or end) receives which `(neighbour, side, overlap)` entry, under which key the link's tags are filed, and the same
dispatch for `remove_edge`.  The theorems say that the model's `addEdge` / `removeEdge` — on which `stepOk_iff`, `write_links`,
`read_write_read`, `history_eq_build` rest — perform exactly these updates.
-/
namespace Gaftools.TieA
open Gaftools.Gfa Gaftools.Gen

def endpoint (a b : String) (second : Bool) : String := if second then b else a

/-- apply the translated adjacency updates of `add_edge` for the link `a → b` with overlap `ov` -/
def applyAdd (nodes : List Node) (a b : String) (ov : Nat) (es : List Entry) : List Node :=
  es.foldl (fun ns e => addAdj ns (endpoint a b e.owner2) e.side (endpoint a b e.nbr2, e.nbrSide, ov)) nodes

def applyRemove (nodes : List Node) (a b : String) (ov : Nat) (es : List Entry) : List Node :=
  es.foldl (fun ns e => removeAdj ns (endpoint a b e.owner2) e.side (endpoint a b e.nbr2, e.nbrSide, ov)) nodes

theorem addEdge_gen (g : Graph) (l : LinkLine) :
    (addEdge g l).nodes = applyAdd g.nodes l.a l.b l.ov (addEdgeEntries (eDir l.da l.db).1 (eDir l.da l.db).2) ∧
    (addEdge g l).edgeTags =
      (let k := addEdgeTagKey (eDir l.da l.db).1 (eDir l.da l.db).2
       edgeTagSet g.edgeTags (endpoint l.a l.b k.1, k.2.1, endpoint l.a l.b k.2.2.1, k.2.2.2) l.tags) := by
  cases hda : l.da <;> cases hdb : l.db <;>
    simp [addEdge, applyAdd, addEdgeEntries, addEdgeTagKey, eDir, endpoint, hda, hdb]

theorem removeEdge_gen (g : Graph) (n1 : String) (s1 : Bool) (n2 : String) (s2 : Bool) (ov : Nat) :
    (removeEdge g n1 s1 n2 s2 ov).nodes = applyRemove g.nodes n1 n2 ov (removeEdgeEntries s1 s2) ∧
    (removeEdge g n1 s1 n2 s2 ov).edgeTags = g.edgeTags := by
  cases s1 <;> cases s2 <;> simp [removeEdge, applyRemove, removeEdgeEntries, endpoint]

end Gaftools.TieA
