import Gaftools.Model.Conv
import Gaftools.Gen.Coords
/-!
# Tie A for the coordinate arithmetic of the conversions (C01, C02)

`Gen/Coords.lean` is regenerated from `gaftools/conversion.py` on every run by symbolic execution of the assignments between
the loop over the path and the twelve-column format statement, followed by the expressions printed in columns 5 and 7-9:
`unstableCoords` (the four strand × split-contig branches of `to_unstable`) and `stableCoords` (the single-reference-interval
collapse of `to_stable`, with the strand flip and the CIGAR reversal flag).  The theorems say that the model's `toUnstable` /
`toStable` — about which `toStable_locus`, `toUnstable_*`, `roundtrip_USU/SUS` are proved — compute their output columns with
exactly these expressions.
-/
namespace Gaftools.TieA
open Gaftools.Conv Gaftools.Gen

theorem unstableCoords_gen (reference : String → List Seg) (strandPlus : Bool) (items : List SItem) (plen ps pe : Int) :
    toUnstable reference strandPlus items plen ps pe =
      (match items.foldlM (itemStep reference strandPlus ps pe) ⟨[], none, -1, 0, false⟩ with
       | none => none
       | some st =>
         if items.isEmpty then none
         else
           let c := unstableCoords (!strandPlus) st.split plen ps pe st.newTotal st.newStart
           some (st.path, ⟨true, c.1, c.2.1, c.2.2, !strandPlus⟩)) := by
  unfold toUnstable
  cases items.foldlM (itemStep reference strandPlus ps pe) ⟨[], none, -1, 0, false⟩ with
  | none => rfl
  | some st =>
    simp only
    cases items.isEmpty <;> cases strandPlus <;> cases st.split <;>
      first
        | rfl
        | (simp only [unstableCoords, Bool.not_true, Bool.not_false, if_true, if_false, Bool.false_eq_true]; rfl)
        | (simp [unstableCoords] <;> omega)

theorem stableCoords_gen (nodes : String → Option SNode) (refContigs : List String) (contigLen : String → Option Int)
    (strandPlus : Bool) (steps : List (Bool × String)) (plen ps pe : Int) :
    toStable nodes refContigs contigLen strandPlus steps plen ps pe =
      (match steps.mapM (fun s => (nodes s.2).map (fun n => (n, s.1))) with
       | none => none
       | some [] => none
       | some (x :: xs) =>
         let out := mergeGo x xs
         let plain : Option (SPath × ConvOut) :=
           let c := stableCoords false false strandPlus 0 0 plen ps pe
           some (.ivs out, ⟨c.1, c.2.2.1, c.2.2.2.1, c.2.2.2.2, c.2.1⟩)
         match out with
         | [(n, o)] =>
           if refContigs.contains n.contig then
             match contigLen n.contig with
             | none => none
             | some total =>
               let c := stableCoords true (!o) strandPlus n.s total plen ps pe
               some (.bare n.contig, ⟨c.1, c.2.2.1, c.2.2.2.1, c.2.2.2.2, c.2.1⟩)
           else plain
         | _ => plain) := by
  unfold toStable
  cases steps.mapM (fun s => (nodes s.2).map (fun n => (n, s.1))) with
  | none => rfl
  | some l =>
    cases l with
    | nil => rfl
    | cons x xs =>
      simp only
      generalize mergeGo x xs = out
      match out with
      | [] => simp [stableCoords]
      | [(n, o)] =>
        by_cases hc : refContigs.contains n.contig = true
        · simp only [hc, if_true]
          cases contigLen n.contig with
          | none => rfl
          | some total =>
            cases o <;> simp [stableCoords] <;> omega
        · simp only [hc, if_false, Bool.false_eq_true]
          simp [stableCoords]
      | a :: b :: t => simp [stableCoords]

end Gaftools.TieA
