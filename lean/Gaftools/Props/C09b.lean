import Gaftools.Props.C09
import Gaftools.Model.SortText
import Gaftools.Proofs.ConvLemmas
/-!
# C09 (continued) — at the level of lines: the output is a permutation of the right-stripped input lines, each extended by
# exactly the three fields of its own record
-/
namespace Gaftools.C09
open Gaftools.Gaf Gaftools.Sort Gaftools.SortText

/-- `process_alignment` stores the offset it was handed -/
theorem processAlignment_offset (nodes : String → Option NodeTags) (steps : List Step) (plen ps pe off : Int) (a : Aln)
    (h : processAlignment nodes steps plen ps pe off = .ok a) : a.offset = off := by
  unfold processAlignment at h
  repeat' split at h
  all_goals first
    | (injection h with h; subst h; rfl)
    | cases h

theorem alnOfLine_offset (nodes : String → Option NodeTags) (line : Str) (ord : Nat) (a : Aln)
    (h : alnOfLine nodes line ord = some a) : a.offset = (ord : Int) := by
  unfold alnOfLine at h
  split at h
  · split at h
    · rename_i path plen ps pe _ _ _
      cases hp : processAlignment nodes (ConvText.parseUnstableSteps path) (Gaf.toNat plen) (Gaf.toNat ps)
          (Gaf.toNat pe) (ord : Nat) with
      | error e => rw [hp] at h; cases h
      | ok b =>
        rw [hp] at h
        have hb : b = a := by simpa [Except.toOption] using h
        subst hb
        exact processAlignment_offset _ _ _ _ _ _ _ hp
    · cases h
  · cases h

/-- the i-th alignment record carries ordinal i as its offset (so the line looked up in the second pass is its own line) -/
theorem alns_offsets (nodes : String → Option NodeTags) (lines : List Str) (alns : List Aln)
    (h : lines.zipIdx.mapM (fun (l, i) => alnOfLine nodes l i) = some alns) :
    alns.length = lines.length ∧ ∀ i (hi : i < alns.length), (alns[i]).offset = (i : Int) := by
  obtain ⟨hl, hp⟩ := (Proofs.Conv.mapM_eq_some_iff _ _ _).1 h
  rw [List.length_zipIdx] at hl
  refine ⟨hl, fun i hi => ?_⟩
  have := hp i (by rw [List.length_zipIdx]; omega)
  rw [List.getElem?_eq_getElem hi] at this
  simp only [List.getElem_zipIdx, Nat.zero_add] at this
  exact alnOfLine_offset _ _ _ _ this

/-- every written line is an input line (right-stripped) plus the suffix computed from that very line; as a multiset the
    right-stripped input lines are all there, each once -/
theorem sortLines_perm (nodes : String → Option NodeTags) (lines out : List Str) (h : sortLines nodes lines = some out) :
    ∃ alns : List Aln,
      lines.zipIdx.mapM (fun (l, i) => alnOfLine nodes l i) = some alns ∧
      out.length = lines.length ∧
      (out.Perm ((List.range lines.length).map (fun i =>
          rstrip (lines.getD i []) ++ (match alns[i]? with | some a => (suffix a).toList | none => [])))) := by
  unfold sortLines at h
  cases hm : lines.zipIdx.mapM (fun (l, i) => alnOfLine nodes l i) with
  | none => rw [hm] at h; cases h
  | some alns =>
    rw [hm] at h
    have ho : (sortAlns alns).map (fun a => rstrip (lines.getD a.offset.toNat []) ++ (suffix a).toList) = out := by
      have h' : some ((sortAlns alns).map (fun a => rstrip (lines.getD a.offset.toNat []) ++ (suffix a).toList))
          = some out := h
      exact Option.some.inj h'
    obtain ⟨hl, hoff⟩ := alns_offsets nodes lines alns hm
    refine ⟨alns, rfl, ?_, ?_⟩
    · rw [← ho, List.length_map, ((C08.sort_perm alns).length_eq), hl]
    · rw [← ho]
      refine ((C08.sort_perm alns).map _).trans ?_
      apply List.Perm.of_eq
      apply List.ext_getElem
      · simp [hl]
      · intro i h1 h2
        have hi : i < alns.length := by simpa using h1
        simp only [List.getElem_map, List.getElem_range, List.getElem?_eq_getElem hi, hoff i hi, Int.toNat_natCast]
