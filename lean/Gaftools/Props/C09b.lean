import Gaftools.Props.C09
import Gaftools.Model.SortText
/-!
# C09 (continued) — at the level of lines: the output is a permutation of the right-stripped input lines, each extended by
# exactly the three fields of its own record
-/
namespace Gaftools.C09
open Gaftools.Gaf Gaftools.Sort Gaftools.SortText

/-- every written line is an input line (right-stripped) plus the suffix computed from that very line; as a multiset the
    right-stripped input lines are all there, each once -/
theorem sortLines_perm (nodes : String → Option NodeTags) (lines out : List Str) (h : sortLines nodes lines = some out) :
    ∃ alns : List Aln,
      lines.zipIdx.mapM (fun (l, i) => alnOfLine nodes l i) = some alns ∧
      out.length = lines.length ∧
      (out.Perm ((List.range lines.length).map (fun i =>
          rstrip (lines.getD i []) ++ (match alns[i]? with | some a => (suffix a).toList | none => [])))) := by
  sorry

/-- the i-th alignment record carries ordinal i as its offset (so the line looked up in the second pass is its own line) -/
theorem alns_offsets (nodes : String → Option NodeTags) (lines : List Str) (alns : List Aln)
    (h : lines.zipIdx.mapM (fun (l, i) => alnOfLine nodes l i) = some alns) :
    alns.length = lines.length ∧ ∀ i (hi : i < alns.length), (alns[i]).offset = (i : Int) := by
  sorry

end Gaftools.C09
