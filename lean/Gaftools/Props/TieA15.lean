import Gaftools.Gen.ViewSel
import Gaftools.Props.TieA2
import Gaftools.Proofs.ViewLemmas
/-!
# Tie A for the selection of `view` (C04, C05): `view.run` (selecting branch), `view.get_unstable`, `view.search`

`Gen/ViewSel.lean` is regenerated from `gaftools/cli/view.py` on every run: `search`, `get_unstable` and the branch of `run` that
selects by `--node` / `--region` (from the statement after the index is unpickled to the end of the branch), translated statement
by statement into the exception monad `M = Except VErr` — every subscript, `int()`, dictionary lookup, comparison between tuple
components, `sorted` / `.sort`, `assert` and `raise` is a step that can fail as it does in Python; every `for` loop is a step
function (`<fn>_loop<k>`) folded over the list.

What is proved here (no statement mentions a hand-written copy of the code: the right-hand sides are the model functions of
`Model/View.lean` and `Model/TextLayer.lean` about which `Props/C03.lean` (`selectNodes_exact`, `regionNodes_iff`,
`selectRegions_exact`), `Props/C17.lean` and `Props/TextLayer.lean` (`parseRegion_*`) are stated):

* `search_gen`       `search` = `int` of both bounds (else `ValueError`), then the filter `Gen.regionHit` (Gen/Decisions.lean, reused)
* `get_unstable_gen` `get_unstable regions ind` = `regions.mapM parseRegion` (first malformed region raises, with `parseRegion`'s
                     exception), then the concatenation of `regionNodes idx c a b` — the per-contig cache `node_dict` is transparent,
                     "ref_contig" is never in a node list, `node_list.sort(key=x[2])` is the model's stable insertion by SO.  No hypothesis.
* `run_gen`          the selecting branch of `run` = `selectNodes` (`--node`) / `parseRegion` + `selectRegions` (`--region`) /
                     `AssertionError` (both given), the 'No alignments found' `CommandLineError` exactly when the model says
                     `noAlignments`, and otherwise every selected offset read once, in increasing order, and converted by the
                     function `--format` names (`emitSpec`).
* `selecting_gen`    the guard of the branch.

Hypothesis of `run_gen`, and why:
* `hn : (idx.map (·.1.1)).Nodup` — one key per node id.  `gaftools index` writes such an index (a key is
  `(id, SN, SO, SO+LN)` of `gfa_file[id]`); `Proofs.View.mem_entryOf` and C03–C05 assume the same.  Without it `ind_dict[id]` is the
  last key *in (SN, SO) order* while `Model.View.entryOf` takes the last *in insertion order*.

History: the first version of this tie needed a second hypothesis, "no contig is called "e"": the source sorted *all* keys of the
index, `sorted(list(ind.keys()), key=lambda x: (x[1], x[2]))`, including the string key "ref_contig", whose sort key is
`("e", "f")`; against a node key of contig "e" the comparison `"f" < <SO>` raised `TypeError` (reproduced with the real tool).  The
source now filters "ref_contig" out before sorting (`nodeKeys_filter`), only node keys are compared (`keys_comparable`, no
hypothesis), and the hypothesis is gone.

Modelling conventions of the translation (fixed text at the head of the generated file): a key of the pickled index is
`IKey.node k` or `IKey.ref` (the string "ref_contig"); `x[j]` of a key is a `PyAtom` (`str` or `int`), `<` / `<=` between a `str`
and an `int` is a `TypeError`; the value stored under "ref_contig" is shown as `[]` (it is never read: `indKey_ok`, `indDict_entries`);
a `set` is a duplicate-free list (only `sorted` reads it); `sorted` is insertion sort — the same result as Python's whenever all
comparisons are defined; logging statements are dropped (assumed not to raise); the result of `run` is the list of lines printed
when the branch ends normally (what was printed before an exception is not represented).
-/
namespace Gaftools.TieA.ViewSel
open Gaftools.TextLayer Gaftools.Gen.ViewSel
open Gaftools.View (Key SelErr sortNat selectNodes selectRegions regionNodes)

/-! ## the exception monad -/

@[simp] theorem ok_bind {α β : Type} (x : α) (f : α → M β) : (Except.ok x >>= f) = f x := rfl
@[simp] theorem error_bind {α β : Type} (e : VErr) (f : α → M β) : ((Except.error e : M α) >>= f) = Except.error e := rfl
@[simp] theorem pure_eq {α : Type} (x : α) : (pure x : M α) = Except.ok x := rfl
@[simp] theorem throw_eq {α : Type} (e : VErr) : (throw e : M α) = Except.error e := rfl

/-! ## sorting: `pySortedBy` is the stable insertion sort whenever every comparison is defined -/

/-- insertion before the first element that `r` puts after `x` -/
def insBy {α : Type} (r : α → α → Bool) (x : α) : List α → List α
  | [] => [x]
  | y :: ys => if r x y then x :: y :: ys else y :: insBy r x ys

/-- the outcome of `key x < key y` (false when it raises) -/
def ltD {α κ : Type} [PyOrd κ] (key : α → κ) (x y : α) : Bool :=
  match PyOrd.lt (key x) (key y) with
  | .ok b => b
  | .error _ => false

theorem mem_insBy {α : Type} (r : α → α → Bool) (x y : α) (l : List α) : y ∈ insBy r x l ↔ y = x ∨ y ∈ l := by
  induction l with
  | nil => simp [insBy]
  | cons z zs ih =>
    unfold insBy
    split
    · simp
    · simp only [List.mem_cons, ih]
      constructor
      · rintro (h | h | h) <;> simp [h]
      · rintro (h | h | h) <;> simp [h]

theorem mem_foldl_insBy {α : Type} (r : α → α → Bool) (y : α) (l : List α) :
    ∀ acc : List α, y ∈ l.foldl (fun a x => insBy r x a) acc ↔ y ∈ l ∨ y ∈ acc := by
  induction l with
  | nil => intro acc; simp
  | cons x xs ih =>
    intro acc
    simp only [List.foldl_cons, ih, mem_insBy, List.mem_cons]
    constructor
    · rintro (h | h | h) <;> simp [h]
    · rintro ((h | h) | h) <;> simp [h]

theorem pyInsert_ok {α κ : Type} [PyOrd κ] (key : α → κ) (x : α) (l : List α)
    (h : ∀ y ∈ l, ∃ b, PyOrd.lt (key x) (key y) = Except.ok b) :
    pyInsert (key x) x (l.map (fun y => (key y, y))) = Except.ok ((insBy (ltD key) x l).map (fun y => (key y, y))) := by
  induction l with
  | nil => rfl
  | cons y ys ih =>
    obtain ⟨b, hb⟩ := h y List.mem_cons_self
    have ih' := ih (fun z hz => h z (List.mem_cons_of_mem _ hz))
    simp only [List.map_cons, pyInsert, hb, ok_bind, insBy, ltD]
    cases b
    · simp [ih']
    · simp

theorem foldlM_pyInsert_ok {α κ : Type} [PyOrd κ] (key : α → κ) (l : List α) :
    ∀ acc : List α, (∀ x ∈ l ++ acc, ∀ y ∈ l ++ acc, ∃ b, PyOrd.lt (key x) (key y) = Except.ok b) →
      l.foldlM (fun a x => pyInsert (key x) x a) (acc.map (fun y => (key y, y))) =
        Except.ok ((l.foldl (fun a x => insBy (ltD key) x a) acc).map (fun y => (key y, y))) := by
  induction l with
  | nil => intro acc _; rfl
  | cons x xs ih =>
    intro acc h
    have h1 : pyInsert (key x) x (acc.map (fun y => (key y, y))) = Except.ok ((insBy (ltD key) x acc).map (fun y => (key y, y))) :=
      pyInsert_ok key x acc (fun y hy => h x (by simp) y (by simp [hy]))
    simp only [List.foldlM_cons, List.foldl_cons, h1, ok_bind]
    apply ih
    intro a ha b hb
    apply h
    · rcases List.mem_append.mp ha with ha | ha
      · simp [ha]
      · rcases (mem_insBy _ _ _ _).mp ha with rfl | ha <;> simp [*]
    · rcases List.mem_append.mp hb with hb | hb
      · simp [hb]
      · rcases (mem_insBy _ _ _ _).mp hb with rfl | hb <;> simp [*]

/-- `sorted(l, key=…)` / `l.sort(key=…)` when any two keys can be compared -/
theorem pySortedBy_ok {α κ : Type} [PyOrd κ] (key : α → κ) (l : List α)
    (h : ∀ x ∈ l, ∀ y ∈ l, ∃ b, PyOrd.lt (key x) (key y) = Except.ok b) :
    pySortedBy key l = Except.ok (l.foldl (fun a x => insBy (ltD key) x a) []) := by
  unfold pySortedBy
  have := foldlM_pyInsert_ok key l [] (by simpa using h)
  simp only [List.map_nil] at this
  simp only [this, ok_bind, pure_eq, List.map_map]
  congr 1
  simp [Function.comp_def]

/-! ## the index as `view.run` unpickles it -/

/-- the dictionary written by `gaftools index`: the node keys in insertion order, then "ref_contig" (its value, the list of
    reference contig names, is shown as `[]`: `ind_dict` never maps to it — `indDict_entries` — so it is never read) -/
def indOf (idx : List (Key × List Nat)) : Dict IKey (List Nat) :=
  idx.map (fun e => (IKey.node e.1, e.2)) ++ [(IKey.ref, [])]

theorem dictKeys_indOf (idx : List (Key × List Nat)) : dictKeys (indOf idx) = (idx.map (fun e => IKey.node e.1)) ++ [IKey.ref] := by
  simp [dictKeys, indOf, Function.comp_def]

theorem mem_dictKeys_indOf (idx : List (Key × List Nat)) (x : IKey) :
    x ∈ dictKeys (indOf idx) ↔ x = IKey.ref ∨ ∃ e ∈ idx, x = IKey.node e.1 := by
  rw [dictKeys_indOf]
  simp only [List.mem_append, List.mem_map, List.mem_singleton]
  constructor
  · rintro (⟨e, he, rfl⟩ | h)
    · exact Or.inr ⟨e, he, rfl⟩
    · exact Or.inl h
  · rintro (h | ⟨e, he, rfl⟩)
    · exact Or.inr h
    · exact Or.inl ⟨e, he, rfl⟩

/-- with one key per node id, looking a node key up gives that node's offsets -/
theorem dictGet_indOf (idx : List (Key × List Nat)) (hn : (idx.map (·.1.1)).Nodup) (e : Key × List Nat) (he : e ∈ idx) :
    dictGet (indOf idx) (IKey.node e.1) = Except.ok e.2 := by
  have key : dictGet? (indOf idx) (IKey.node e.1) = some e.2 := by
    unfold dictGet? indOf
    induction idx with
    | nil => simp at he
    | cons e0 rest ih =>
      by_cases h0 : e0.1 = e.1
      · have : e0 = e :=
          Proofs.View.nodup_map_inj (fun e : Key × List Nat => e.1.1) (e0 :: rest) hn e0 (by simp) e he (by rw [h0])
        subst this
        simp
      · have he' : e ∈ rest := by
          rcases List.mem_cons.mp he with rfl | h
          · exact absurd rfl h0
          · exact h
        have hn' : (rest.map (·.1.1)).Nodup := by
          rw [List.map_cons, List.nodup_cons] at hn
          exact hn.2
        have := ih hn' he'
        simp only [List.map_cons, List.cons_append]
        rw [List.find?_cons_of_neg]
        · exact this
        · simp [h0]
  unfold dictGet
  rw [key]
  rfl

/-- the entry of a node id in the model's index is the offsets list of the one key with that id -/
theorem entryOf_eq (idx : List (Key × List Nat)) (hn : (idx.map (·.1.1)).Nodup) (e : Key × List Nat) (he : e ∈ idx) :
    View.entryOf idx e.1.1 = e.2 := by
  have key : idx.filter (fun e' => e'.1.1 == e.1.1) = [e] := by
    induction idx with
    | nil => simp at he
    | cons e0 rest ih =>
      rw [List.map_cons, List.nodup_cons] at hn
      rcases List.mem_cons.mp he with rfl | h
      · have : rest.filter (fun e' => e'.1.1 == e.1.1) = [] := by
          rw [List.filter_eq_nil_iff]
          intro a ha hc
          exact hn.1 (by simp at hc; rw [← hc]; exact List.mem_map_of_mem (f := fun e : Key × List Nat => e.1.1) ha)
        simp [this]
      · have hne : ¬ (e0.1.1 = e.1.1) := by
          intro hc
          exact hn.1 (by rw [hc]; exact List.mem_map_of_mem (f := fun e : Key × List Nat => e.1.1) h)
        simp [hne, ih hn.2 h]
  unfold View.entryOf
  rw [key]
  rfl

theorem entryOf_nil (idx : List (Key × List Nat)) (id : String) (h : ∀ e ∈ idx, e.1.1 ≠ id) : View.entryOf idx id = [] := by
  have key : idx.filter (fun e' => e'.1.1 == id) = [] := by
    rw [List.filter_eq_nil_iff]
    intro a ha hc
    exact h a ha (by simpa using hc)
  unfold View.entryOf
  rw [key]
  rfl

/-! ## `ind_key = sorted((k for k in ind.keys() if k != "ref_contig"), key=lambda x: (x[1], x[2]))` -/

/-- the generator expression keeps exactly the node keys -/
theorem nodeKeys_filter (idx : List (Key × List Nat)) :
    (dictKeys (indOf idx)).filter (fun k => (!(k.eqStr "ref_contig"))) = idx.map (fun e => IKey.node e.1) := by
  rw [dictKeys_indOf, List.filter_append]
  have h1 : [IKey.ref].filter (fun k => (!(k.eqStr "ref_contig"))) = [] := by simp [IKey.eqStr]
  rw [h1, List.append_nil, List.filter_eq_self]
  intro x hx
  obtain ⟨e, _, rfl⟩ := List.mem_map.mp hx
  simp [IKey.eqStr]

/-- any two sort keys `(SN, SO)` of node keys can be compared (strings with strings, then integers with integers) -/
theorem keys_comparable (idx : List (Key × List Nat)) :
    ∀ x ∈ idx.map (fun e => IKey.node e.1), ∀ y ∈ idx.map (fun e => IKey.node e.1),
      ∃ b, PyOrd.lt (κ := PyAtom × PyAtom) ((x.get 1), (x.get 2)) ((y.get 1), (y.get 2)) = Except.ok b := by
  intro x hx y hy
  obtain ⟨e1, _, rfl⟩ := List.mem_map.mp hx
  obtain ⟨e2, _, rfl⟩ := List.mem_map.mp hy
  simp only [PyOrd.lt, IKey.get]
  split
  · split
    · exact ⟨false, rfl⟩
    · exact ⟨_, rfl⟩
  · exact ⟨_, rfl⟩

/-- the sorted key list exists; its members are the node keys of the index -/
theorem indKey_ok (idx : List (Key × List Nat)) :
    ∃ sk, pySortedBy (fun x : IKey => ((x.get 1), (x.get 2))) ((dictKeys (indOf idx)).filter (fun k => (!(k.eqStr "ref_contig")))) =
        Except.ok sk ∧ ∀ x, x ∈ sk ↔ ∃ e ∈ idx, x = IKey.node e.1 := by
  rw [nodeKeys_filter]
  refine ⟨_, pySortedBy_ok _ _ (keys_comparable idx), ?_⟩
  intro x
  rw [mem_foldl_insBy]
  simp only [List.mem_map, List.not_mem_nil, or_false]
  constructor
  · rintro ⟨e, he, rfl⟩; exact ⟨e, he, rfl⟩
  · rintro ⟨e, he, rfl⟩; exact ⟨e, he, rfl⟩

/-! ## dictionaries -/

theorem mem_dictSet {κ ν : Type} [BEq κ] [LawfulBEq κ] (d : Dict κ ν) (k : κ) (v : ν) (p : κ × ν) :
    p ∈ dictSet d k v → p ∈ d ∨ p = (k, v) := by
  unfold dictSet
  split
  · intro hp
    obtain ⟨e, he, rfl⟩ := List.mem_map.mp hp
    split
    · rename_i hk
      right
      rw [eq_of_beq hk]
    · left; exact he
  · intro hp
    rcases List.mem_append.mp hp with h | h
    · left; exact h
    · right; simpa using h

theorem dictHas_dictSet {κ ν : Type} [BEq κ] [LawfulBEq κ] (d : Dict κ ν) (k : κ) (v : ν) (a : κ) :
    dictHas (dictSet d k v) a = true ↔ dictHas d a = true ∨ a = k := by
  unfold dictSet dictHas
  split
  · rename_i hk
    simp only [List.any_eq_true, List.mem_map]
    constructor
    · rintro ⟨x, ⟨e, he, rfl⟩, hx⟩
      left
      refine ⟨e, he, ?_⟩
      split at hx
      · exact hx
      · exact hx
    · rintro (⟨e, he, hx⟩ | rfl)
      · refine ⟨_, ⟨e, he, rfl⟩, ?_⟩
        split
        · exact hx
        · exact hx
      · obtain ⟨e, he, hx⟩ := List.any_eq_true.mp hk
        refine ⟨_, ⟨e, he, rfl⟩, ?_⟩
        split
        · exact hx
        · exact hx
  · simp only [List.any_append, Bool.or_eq_true, List.any_cons, List.any_nil, Bool.or_false, beq_iff_eq]
    constructor
    · rintro (h | h)
      · exact Or.inl h
      · exact Or.inr h.symm
    · rintro (h | h)
      · exact Or.inl h
      · exact Or.inr h.symm

theorem dictGet_of_has {κ ν : Type} [BEq κ] [LawfulBEq κ] (d : Dict κ ν) (a : κ) (h : dictHas d a = true) :
    ∃ p ∈ d, p.1 = a ∧ dictGet d a = Except.ok p.2 := by
  unfold dictHas at h
  unfold dictGet dictGet?
  induction d with
  | nil => simp at h
  | cons e rest ih =>
    by_cases he : (e.1 == a) = true
    · exact ⟨e, by simp, eq_of_beq he, by simp [he]⟩
    · have hr : rest.any (fun x => x.1 == a) = true := by
        simp only [List.any_cons, Bool.or_eq_true] at h
        rcases h with h | h
        · exact absurd h he
        · exact h
      obtain ⟨p, hp, h1, h2⟩ := ih hr
      refine ⟨p, List.mem_cons_of_mem _ hp, h1, ?_⟩
      simp only [List.find?_cons, Bool.not_eq_true] at he ⊢
      rw [he]
      exact h2

/-! ## `ind_dict` -/

theorem run_loop1_eq (d : Dict PyAtom IKey) (k : Key) :
    run_loop1 d (IKey.node k) = Except.ok (dictSet d (PyAtom.str k.1) (IKey.node k)) := by
  simp [run_loop1, IKey.get]

/-- one iteration of `for i in ind_key` over a node key, as a function (`ind_key` holds node keys only: `indKey_ok`) -/
def dstep (d : Dict PyAtom IKey) (i : IKey) : Dict PyAtom IKey :=
  match i with
  | .ref => d
  | .node k => dictSet d (PyAtom.str k.1) (IKey.node k)

theorem foldlM_loop1 (l : List IKey) (hl : ∀ i ∈ l, ∃ k, i = IKey.node k) :
    ∀ d : Dict PyAtom IKey, l.foldlM run_loop1 d = Except.ok (l.foldl dstep d) := by
  induction l with
  | nil => intro d; rfl
  | cons i is ih =>
    intro d
    obtain ⟨k, rfl⟩ := hl i List.mem_cons_self
    simp only [List.foldlM_cons, List.foldl_cons, run_loop1_eq, ok_bind, dstep]
    exact ih (fun j hj => hl j (List.mem_cons_of_mem _ hj)) _

/-- every entry of `ind_dict` is `id ↦ key of a node with that id` — in particular never "ref_contig" -/
theorem indDict_entries (l : List IKey) : ∀ (d : Dict PyAtom IKey) (p : PyAtom × IKey), p ∈ l.foldl dstep d →
    p ∈ d ∨ ∃ k, IKey.node k ∈ l ∧ p = (PyAtom.str k.1, IKey.node k) := by
  induction l with
  | nil => intro d p hp; exact Or.inl hp
  | cons i is ih =>
    intro d p hp
    rcases ih _ p hp with h | ⟨k, hk, rfl⟩
    · cases i with
      | ref => exact Or.inl h
      | node k =>
        rcases mem_dictSet _ _ _ _ h with h | rfl
        · exact Or.inl h
        · exact Or.inr ⟨k, by simp, rfl⟩
    · exact Or.inr ⟨k, List.mem_cons_of_mem _ hk, rfl⟩

theorem indDict_has (l : List IKey) : ∀ (d : Dict PyAtom IKey) (a : PyAtom),
    dictHas (l.foldl dstep d) a = true ↔ dictHas d a = true ∨ ∃ k, IKey.node k ∈ l ∧ a = PyAtom.str k.1 := by
  induction l with
  | nil => intro d a; simp
  | cons i is ih =>
    intro d a
    rw [List.foldl_cons, ih]
    cases i with
    | ref =>
      simp only [dstep, List.mem_cons, reduceCtorEq, false_or]
    | node k =>
      simp only [dstep, dictHas_dictSet, List.mem_cons, IKey.node.injEq]
      constructor
      · rintro ((h | rfl) | ⟨k', hk', rfl⟩)
        · exact Or.inl h
        · exact Or.inr ⟨k, Or.inl rfl, rfl⟩
        · exact Or.inr ⟨k', Or.inr hk', rfl⟩
      · rintro (h | ⟨k', (rfl | hk'), rfl⟩)
        · exact Or.inl (Or.inl h)
        · exact Or.inl (Or.inr rfl)
        · exact Or.inr ⟨k', hk', rfl⟩

/-! ## the union of the offsets -/

theorem run_loop2_spec (idx : List (Key × List Nat)) (hn : (idx.map (·.1.1)).Nodup) (sk : List IKey)
    (hsk : ∀ x, x ∈ sk ↔ ∃ e ∈ idx, x = IKey.node e.1) (offsets : List Nat) (id : String) :
    ∃ o', run_loop2 (indOf idx) (sk.foldl dstep []) offsets (PyAtom.str id) = Except.ok o' ∧ (offsets.Nodup → o'.Nodup) ∧
      ∀ x, x ∈ o' ↔ x ∈ offsets ∨ x ∈ View.entryOf idx id := by
  unfold run_loop2
  by_cases hh : dictHas (sk.foldl dstep []) (PyAtom.str id) = true
  · obtain ⟨p, hp, h1, h2⟩ := dictGet_of_has _ _ hh
    rcases indDict_entries sk [] p hp with h | ⟨k, hk, rfl⟩
    · simp at h
    · obtain ⟨e, he, hke⟩ := (hsk _).mp hk
      · have hke' : k = e.1 := by simpa using hke
        subst hke'
        have hid : e.1.1 = id := by simpa using h1
        subst hid
        have h3 := dictGet_indOf idx hn e he
        have h4 := entryOf_eq idx hn e he
        simp only [hh, if_true, h2, h3, ok_bind, pure_eq, h4]
        refine ⟨_, rfl, fun _ => Proofs.View.nodup_eraseDups _, ?_⟩
        intro x
        simp [setUnion, setOf, List.mem_eraseDups]
  · have hnone : ∀ e ∈ idx, e.1.1 ≠ id := by
      intro e he hc
      apply hh
      rw [indDict_has]
      right
      refine ⟨e.1, (hsk _).mpr ⟨e, he, rfl⟩, by rw [hc]⟩
    have h4 := entryOf_nil idx id hnone
    simp only [hh, Bool.false_eq_true, if_false, pure_eq, h4]
    exact ⟨_, rfl, fun h => h, by simp⟩

theorem run_loop2_fold (idx : List (Key × List Nat)) (hn : (idx.map (·.1.1)).Nodup) (sk : List IKey)
    (hsk : ∀ x, x ∈ sk ↔ ∃ e ∈ idx, x = IKey.node e.1) (ids : List String) :
    ∀ offsets : List Nat, offsets.Nodup →
      ∃ o', (ids.map PyAtom.str).foldlM (run_loop2 (indOf idx) (sk.foldl dstep [])) offsets = Except.ok o' ∧ o'.Nodup ∧
        ∀ x, x ∈ o' ↔ x ∈ offsets ∨ ∃ id ∈ ids, x ∈ View.entryOf idx id := by
  induction ids with
  | nil => intro offsets h; exact ⟨offsets, rfl, h, by simp⟩
  | cons id ids ih =>
    intro offsets h
    obtain ⟨o1, h1, h2, h3⟩ := run_loop2_spec idx hn sk hsk offsets id
    obtain ⟨o2, h4, h5, h6⟩ := ih o1 (h2 h)
    refine ⟨o2, ?_, h5, ?_⟩
    · simp only [List.map_cons, List.foldlM_cons, h1, ok_bind]
      exact h4
    · intro x
      rw [h6, h3]
      simp only [List.mem_cons, exists_eq_or_imp]
      constructor
      · rintro ((h | h) | h)
        · exact Or.inl h
        · exact Or.inr (Or.inl h)
        · exact Or.inr (Or.inr h)
      · rintro (h | h | h)
        · exact Or.inl (Or.inl h)
        · exact Or.inl (Or.inr h)
        · exact Or.inr h

/-! ## `sorted(offsets)` -/

theorem ltD_nat (a b : Nat) : ltD (fun v : Nat => v) a b = decide (a < b) := rfl

theorem insBy_sorted (x : Nat) (l : List Nat) (h : l.Pairwise (· < ·)) (hx : x ∉ l) :
    (insBy (ltD (fun v : Nat => v)) x l).Pairwise (· < ·) := by
  induction l with
  | nil => simp [insBy]
  | cons y ys ih =>
    rw [List.pairwise_cons] at h
    unfold insBy
    rw [ltD_nat]
    by_cases hxy : x < y
    · simp only [hxy, decide_true, if_true, List.pairwise_cons]
      refine ⟨?_, h⟩
      intro a ha
      rcases List.mem_cons.mp ha with rfl | ha
      · exact hxy
      · exact Nat.lt_trans hxy (h.1 a ha)
    · simp only [hxy, decide_false, Bool.false_eq_true, if_false, List.pairwise_cons]
      have hne : x ≠ y := fun hc => hx (by simp [hc])
      refine ⟨?_, ih h.2 (fun hc => hx (List.mem_cons_of_mem _ hc))⟩
      intro a ha
      rcases (mem_insBy _ _ _ _).mp ha with rfl | ha
      · omega
      · exact h.1 a ha

theorem nodup_insBy {α : Type} (r : α → α → Bool) (x : α) (l : List α) (h : l.Nodup) (hx : x ∉ l) : (insBy r x l).Nodup := by
  induction l with
  | nil => simp [insBy]
  | cons y ys ih =>
    rw [List.nodup_cons] at h
    unfold insBy
    split
    · rw [List.nodup_cons]
      exact ⟨hx, List.nodup_cons.mpr h⟩
    · rw [List.nodup_cons]
      refine ⟨?_, ih h.2 (fun hc => hx (List.mem_cons_of_mem _ hc))⟩
      intro hc
      rcases (mem_insBy _ _ _ _).mp hc with rfl | hc
      · exact hx (by simp)
      · exact h.1 hc

theorem foldl_insBy_sorted (l : List Nat) : ∀ acc : List Nat, acc.Pairwise (· < ·) → (l ++ acc).Nodup →
    (l.foldl (fun a x => insBy (ltD (fun v : Nat => v)) x a) acc).Pairwise (· < ·) := by
  induction l with
  | nil => intro acc h _; exact h
  | cons x xs ih =>
    intro acc h hn
    rw [List.cons_append, List.nodup_cons] at hn
    rw [List.foldl_cons]
    apply ih
    · exact insBy_sorted x acc h (fun hc => hn.1 (by simp [hc]))
    · rw [List.nodup_append] at hn ⊢
      have hxa : x ∉ acc := fun hc => hn.1 (by simp [hc])
      refine ⟨hn.2.1, nodup_insBy _ x acc hn.2.2.1 hxa, ?_⟩
      intro a ha b hb
      rcases (mem_insBy _ _ _ _).mp hb with rfl | hb
      · intro hc
        exact hn.1 (by simp [← hc, ha])
      · exact hn.2.2.2 a ha b hb

theorem sorted_offsets (o : List Nat) (h : o.Nodup) :
    ∃ s, pySortedBy (fun v : Nat => v) o = Except.ok s ∧ s.Pairwise (· < ·) ∧ ∀ x, x ∈ s ↔ x ∈ o := by
  refine ⟨_, pySortedBy_ok _ _ (fun x _ y _ => ⟨decide (x < y), rfl⟩), ?_, ?_⟩
  · exact foldl_insBy_sorted o [] List.Pairwise.nil (by simpa using h)
  · intro x
    rw [mem_foldl_insBy]
    simp

/-! ## reading and converting the selected records -/

section emit
variable {Rec Out : Type} (rd : Nat → M Rec) (ts tu : Rec → M Out) (so : Rec → Out)

theorem loop3_fold (offs : List Nat) : ∀ out : List Out,
    offs.foldlM (run_loop3 rd ts) out = (do let l ← offs.mapM (fun o => rd o >>= ts); pure (out ++ l)) := by
  induction offs with
  | nil => intro out; simp
  | cons o os ih =>
    intro out
    simp only [List.foldlM_cons, List.mapM_cons, run_loop3]
    cases rd o with
    | error e => rfl
    | ok r =>
      simp only [ok_bind]
      cases ts r with
      | error e => rfl
      | ok v =>
        simp only [ok_bind, pure_eq, ih]
        cases os.mapM (fun o => rd o >>= ts) with
        | error e => rfl
        | ok l => simp

theorem loop4_fold (offs : List Nat) : ∀ out : List Out,
    offs.foldlM (run_loop4 rd tu) out = (do let l ← offs.mapM (fun o => rd o >>= tu); pure (out ++ l)) := by
  induction offs with
  | nil => intro out; simp
  | cons o os ih =>
    intro out
    simp only [List.foldlM_cons, List.mapM_cons, run_loop4]
    cases rd o with
    | error e => rfl
    | ok r =>
      simp only [ok_bind]
      cases tu r with
      | error e => rfl
      | ok v =>
        simp only [ok_bind, pure_eq, ih]
        cases os.mapM (fun o => rd o >>= tu) with
        | error e => rfl
        | ok l => simp

theorem loop5_fold (offs : List Nat) : ∀ out : List Out,
    offs.foldlM (run_loop5 rd so) out = (do let l ← offs.mapM (fun o => so <$> rd o); pure (out ++ l)) := by
  induction offs with
  | nil => intro out; simp
  | cons o os ih =>
    intro out
    simp only [List.foldlM_cons, List.mapM_cons, run_loop5]
    cases rd o with
    | error e => rfl
    | ok r =>
      simp only [ok_bind, pure_eq, ih]
      cases os.mapM (fun o => so <$> rd o) with
      | error e => rfl
      | ok l => simp

/-- what `view.run` prints for the selected offsets: each is read once, in order, and converted as `--format` says -/
def emitSpec (format : Option String) (offs : List Nat) : M (List Out) :=
  if truthyStr format then
    if format == some "stable" then offs.mapM (fun o => rd o >>= ts)
    else if format == some "unstable" then offs.mapM (fun o => rd o >>= tu)
    else Except.error VErr.assertionError
  else offs.mapM (fun o => so <$> rd o)

end emit

/-! ## `view.run` with `--node` -/

/-- the message of the `CommandLineError` -/
def noAlignments : String := "No alignments found for the given nodes/regions"

/-- the end of `run` given what the model selects -/
def finish {Rec Out : Type} (rd : Nat → M Rec) (ts tu : Rec → M Out) (so : Rec → Out) (format : Option String)
    (r : Except SelErr (List Nat)) : M (List Out) :=
  match r with
  | .error _ => Except.error (VErr.commandLineError noAlignments)
  | .ok offs => emitSpec rd ts tu so format offs

theorem run_nodes_gen {Rec Out : Type} (rd : Nat → M Rec) (ts tu : Rec → M Out) (so : Rec → Out) (format : Option String)
    (idx : List (Key × List Nat)) (hn : (idx.map (·.1.1)).Nodup) (nodes : List String) :
    run rd ts tu so format (indOf idx) (nodes.map PyAtom.str) [] = finish rd ts tu so format (selectNodes idx nodes) := by
  obtain ⟨sk, hsort, hsk⟩ := indKey_ok idx
  have hl : ∀ i ∈ sk, ∃ k, i = IKey.node k := fun i hi => by
    obtain ⟨e, _, rfl⟩ := (hsk i).mp hi
    exact ⟨_, rfl⟩
  obtain ⟨o, hfold, hnd, hmem⟩ := run_loop2_fold idx hn sk hsk nodes [] List.nodup_nil
  obtain ⟨s, hsorted, hlt, hs⟩ := sorted_offsets o hnd
  have hs' : s = sortNat ((nodes.flatMap (View.entryOf idx)).eraseDups) := by
    apply Proofs.View.eq_of_lt_of_mem _ _ hlt (Proofs.View.sortNat_lt _ (Proofs.View.nodup_eraseDups _))
    intro x
    rw [hs, hmem, Proofs.View.mem_sortNat, List.mem_eraseDups, List.mem_flatMap]
    simp
  simp only [run, hsort, ok_bind, foldlM_loop1 sk hl, pure_eq, List.isEmpty_nil, Bool.not_true, Bool.false_eq_true, if_false, hfold, hsorted]
  have hsel : selectNodes idx nodes = if s.isEmpty then Except.error SelErr.noAlignments else Except.ok s := by
    rw [hs']; rfl
  rw [hsel]
  cases s with
  | nil => simp [finish, noAlignments]
  | cons a as =>
    have hne : ((a :: as).length == 0) = false := by simp
    simp only [hne, Bool.false_eq_true, if_false, List.isEmpty_cons, finish, emitSpec, loop3_fold, loop4_fold, loop5_fold,
      List.nil_append]
    split
    · split
      · simp
      · split
        · rename_i h; simp [pyAssert, h]
        · rename_i h; simp [pyAssert, h]
    · simp

/-! ## `view.search` -/

theorem pyFilterM_ok {α : Type} (p : α → M Bool) (q : α → Bool) (l : List α) (h : ∀ x ∈ l, p x = Except.ok (q x)) :
    pyFilterM p l = Except.ok (l.filter q) := by
  induction l with
  | nil => rfl
  | cons x xs ih =>
    have h1 := h x List.mem_cons_self
    have h2 := ih (fun y hy => h y (List.mem_cons_of_mem _ hy))
    simp only [pyFilterM, h1, h2, ok_bind, pure_eq, List.filter_cons]

/-- `search([c, s, e], node_list)` over the node keys of a contig: `int(s)`, `int(e)` (a `ValueError` otherwise), then the filter
    `Gen.regionHit` (the translation of the same test in `Gen/Decisions.lean`) -/
theorem search_gen (c s e : String) (ks : List Key) :
    search [c, s, e] (ks.map IKey.node) =
      match pyInt s.toList, pyInt e.toList with
      | some a, some b => Except.ok ((ks.filter (fun k => Gen.regionHit k.2.2.1 k.2.2.2 a b)).map IKey.node)
      | _, _ => Except.error VErr.valueError := by
  unfold search
  simp only [pyIdx, List.getElem?_cons_succ, List.getElem?_cons_zero, pure_eq, ok_bind, pyIntOf]
  cases pyInt s.toList with
  | none => rfl
  | some a =>
    simp only [ok_bind]
    cases pyInt e.toList with
    | none => rfl
    | some b =>
      simp only [ok_bind]
      rw [pyFilterM_ok _ (fun n => match n with | .node k => Gen.regionHit k.2.2.1 k.2.2.2 a b | .ref => false)]
      · simp only [List.filter_map]
        rfl
      · intro x hx
        obtain ⟨k, _, rfl⟩ := List.mem_map.mp hx
        simp only [IKey.get, PyAtom.le, PyAtom.lt, pyAnd, pure_eq, ok_bind, regionHit_gen]
        by_cases h1 : k.2.2.1 ≤ b <;> by_cases h2 : a < k.2.2.2 <;> simp [h1, h2]

/-! ## `view.get_unstable` -/

/-- the node keys of contig `c` in the index, stably sorted by SO: the list `regionNodes` filters -/
def sortedKeys (idx : List (Key × List Nat)) (c : String) : List Key :=
  ((idx.map (·.1)).filter (fun k => k.2.1 == c)).foldl (fun acc k => regionNodes.insK k acc) []

theorem regionNodes_sortedKeys (idx : List (Key × List Nat)) (c : String) (a b : Int) :
    regionNodes idx c a b = ((sortedKeys idx c).filter (fun k => Gen.regionHit k.2.2.1 k.2.2.2 a b)).map (·.1) :=
  regionNodes_gen idx c a b

theorem nodeList_filter (idx : List (Key × List Nat)) (c : String) :
    (dictKeys (indOf idx)).filter (fun x => ((!(x.eqStr "ref_contig")) && ((x.get 1) == (PyAtom.str c)))) =
      ((idx.map (·.1)).filter (fun k => k.2.1 == c)).map IKey.node := by
  rw [dictKeys_indOf, List.filter_append]
  have h1 : [IKey.ref].filter (fun x => ((!(x.eqStr "ref_contig")) && ((x.get 1) == (PyAtom.str c)))) = [] := by
    simp [IKey.eqStr]
  rw [h1, List.append_nil, List.filter_map, List.filter_map, List.map_map]
  congr 1
  apply List.filter_congr
  intro e _
  simp only [Function.comp, IKey.eqStr, IKey.get, Bool.not_false, Bool.true_and]
  rw [Bool.eq_iff_iff]
  simp

theorem insBy_node (r : IKey → IKey → Bool) (x : Key) (hr : ∀ y : Key, r (IKey.node x) (IKey.node y) = decide (x.2.2.1 < y.2.2.1))
    (l : List Key) : insBy r (IKey.node x) (l.map IKey.node) = (regionNodes.insK x l).map IKey.node := by
  induction l with
  | nil => rfl
  | cons y ys ih =>
    simp only [List.map_cons, insBy, regionNodes.insK, hr]
    by_cases h : x.2.2.1 < y.2.2.1
    · simp [h]
    · simp [h, ih]

/-- `node_list.sort(key=lambda x: x[2])` -/
theorem sortKeys_ok (ks : List Key) :
    pySortedBy (fun x : IKey => (x.get 2)) (ks.map IKey.node) =
      Except.ok ((ks.foldl (fun acc k => regionNodes.insK k acc) []).map IKey.node) := by
  rw [pySortedBy_ok]
  · congr 1
    have : ∀ acc : List Key, (ks.map IKey.node).foldl (fun a x => insBy (ltD (fun x : IKey => (x.get 2))) x a) (acc.map IKey.node) =
        (ks.foldl (fun acc k => regionNodes.insK k acc) acc).map IKey.node := by
      induction ks with
      | nil => intro acc; rfl
      | cons k ks ih =>
        intro acc
        simp only [List.map_cons, List.foldl_cons]
        rw [insBy_node _ k (fun y => rfl), ih]
    exact this []
  · intro x hx y hy
    obtain ⟨a, _, rfl⟩ := List.mem_map.mp hx
    obtain ⟨b, _, rfl⟩ := List.mem_map.mp hy
    exact ⟨_, rfl⟩

theorem splitOn_ne_nil (sep : Char) (l : List Char) : splitOn sep l ≠ [] := by
  cases l with
  | nil => simp [splitOn]
  | cons c cs =>
    unfold splitOn
    split
    · simp
    · split <;> simp

/-- the Python exception of the string layer, as an outcome of the fragment -/
def ofPyErr : PyErr → VErr
  | .indexError => VErr.indexError
  | .valueError => VErr.valueError
  | .keyError => VErr.keyError
  | .osError => VErr.keyError        -- not raised by `parseRegion`

/-- every cached per-contig list is the sorted key list of that contig -/
def CacheOk (idx : List (Key × List Nat)) (nd : Dict String (List IKey)) : Prop :=
  ∀ c l, dictGet? nd c = some l → l = (sortedKeys idx c).map IKey.node

theorem search_rest (idx : List (Key × List Nat)) (C : String) (p q : List Char) (nd' : Dict String (List IKey)) (res : List PyAtom) :
    (search [C, String.ofList p, String.ofList q] ((sortedKeys idx C).map IKey.node) >>= fun t8 =>
        (pure (nd', res ++ t8.map (fun n => (n.get 0))) : M (Dict String (List IKey) × List PyAtom))) =
      match pyInt p, pyInt q with
      | some a, some b => Except.ok (nd', res ++ (regionNodes idx C a b).map PyAtom.str)
      | _, _ => Except.error VErr.valueError := by
  rw [search_gen]
  simp only [String.toList_ofList]
  cases pyInt p with
  | none => rfl
  | some a =>
    cases pyInt q with
    | none => rfl
    | some b =>
      simp only [ok_bind, pure_eq, regionNodes_sortedKeys, List.map_map]
      rfl

theorem dictGet?_none_any {κ ν : Type} [BEq κ] (d : Dict κ ν) (k : κ) (h : dictGet? d k = none) : d.any (·.1 == k) = false := by
  unfold dictGet? at h
  rw [Option.map_eq_none_iff, List.find?_eq_none] at h
  rw [List.any_eq_false]
  exact h

theorem loop1_spec (idx : List (Key × List Nat)) (nd : Dict String (List IKey)) (res : List PyAtom) (hc : CacheOk idx nd)
    (region : String) :
    ∃ nd', CacheOk idx nd' ∧ get_unstable_loop1 (indOf idx) (nd, res) region =
      match parseRegion region with
      | .error e => Except.error (ofPyErr e)
      | .ok r => Except.ok (nd', res ++ (regionNodes idx r.1 r.2.1 r.2.2).map PyAtom.str) := by
  unfold parseRegion parseRegionChars get_unstable_loop1 pySplit
  rcases hp : splitOn ':' region.toList with _ | ⟨c, _ | ⟨r, rest⟩⟩
  · exact ⟨nd, hc, by simp [pyIdx, ofPyErr]⟩
  · exact ⟨nd, hc, by simp [pyIdx, ofPyErr]⟩
  · obtain ⟨p, ps', hps⟩ : ∃ p ps', splitOn '-' r = p :: ps' := by
      cases h : splitOn '-' r with
      | nil => exact absurd h (splitOn_ne_nil _ _)
      | cons p ps' => exact ⟨p, ps', rfl⟩
    obtain ⟨q, hq⟩ : ∃ q, (p :: ps').getLast? = some q := by
      cases h : (p :: ps').getLast? with
      | none => simp at h
      | some q => exact ⟨q, rfl⟩
    have hlast : (p :: ps').getLastD [] = q := by rw [List.getLastD_eq_getLast?, hq]; rfl
    have hrest := search_rest idx (String.ofList c) p q
    rcases hd : dictGet? nd (String.ofList c) with _ | l
    · refine ⟨dictSet nd (String.ofList c) ((sortedKeys idx (String.ofList c)).map IKey.node), ?_, ?_⟩
      · intro c' l' hl'
        have hany := dictGet?_none_any nd _ hd
        unfold dictSet at hl'
        rw [hany] at hl'
        simp only [Bool.false_eq_true, if_false] at hl'
        unfold dictGet? at hl'
        rw [List.find?_append] at hl'
        cases hf : nd.find? (fun x => x.1 == c') with
        | some v =>
          rw [hf] at hl'
          exact hc c' l' (by unfold dictGet?; rw [hf]; exact hl')
        | none =>
          rw [hf] at hl'
          simp only [Option.none_or, List.find?_cons, List.find?_nil] at hl'
          split at hl'
          · rename_i heq
            have : String.ofList c = c' := by simpa using heq
            subst this
            simpa using hl'.symm
          · simp at hl'
      · simp only [List.map_cons, pyIdx, List.getElem?_cons_zero, List.getElem?_cons_succ, pure_eq, ok_bind,
          String.toList_ofList, hps, pyLast, List.getLast?_map, hq, Option.map_some, hd, nodeList_filter, sortKeys_ok,
          List.headD_cons, hlast]
        erw [hrest (dictSet nd (String.ofList c) ((sortedKeys idx (String.ofList c)).map IKey.node)) res]
        cases pyInt p <;> cases pyInt q <;> simp [ofPyErr]
    · have hl := hc _ _ hd
      subst hl
      refine ⟨nd, hc, ?_⟩
      simp only [List.map_cons, pyIdx, List.getElem?_cons_zero, List.getElem?_cons_succ, pure_eq, ok_bind,
        String.toList_ofList, hps, pyLast, List.getLast?_map, hq, Option.map_some, hd,
        List.headD_cons, hlast]
      erw [hrest nd res]
      cases pyInt p <;> cases pyInt q <;> simp [ofPyErr]

theorem getUnstable_fold (idx : List (Key × List Nat)) (regions : List String) :
    ∀ (nd : Dict String (List IKey)) (res : List PyAtom), CacheOk idx nd →
      (regions.foldlM (get_unstable_loop1 (indOf idx)) (nd, res)).map (·.2) =
        match regions.mapM parseRegion with
        | .error e => Except.error (ofPyErr e)
        | .ok rs => Except.ok (res ++ (rs.flatMap (fun r => regionNodes idx r.1 r.2.1 r.2.2)).map PyAtom.str) := by
  induction regions with
  | nil => intro nd res _; simp [Except.map, pure, Except.pure]
  | cons region rest ih =>
    intro nd res hc
    obtain ⟨nd', hc', hstep⟩ := loop1_spec idx nd res hc region
    rw [List.foldlM_cons, hstep, List.mapM_cons]
    cases hpr : parseRegion region with
    | error e => rfl
    | ok r =>
      simp only [ok_bind]
      rw [ih nd' _ hc']
      cases rest.mapM parseRegion with
      | error e => rfl
      | ok rs =>
        simp only [bind, Except.bind, pure, Except.pure, List.flatMap_cons, List.map_append, List.append_assoc]

/-- **`get_unstable` = the model's region lookup**: the regions are parsed in order (the first malformed one raises what
    `parseRegion` says), each contributes `regionNodes` of the index, in order; the per-contig cache is transparent -/
theorem get_unstable_gen (idx : List (Key × List Nat)) (regions : List String) :
    get_unstable regions (indOf idx) =
      match regions.mapM parseRegion with
      | .error e => Except.error (ofPyErr e)
      | .ok rs => Except.ok ((rs.flatMap (fun r => regionNodes idx r.1 r.2.1 r.2.2)).map PyAtom.str) := by
  have h := getUnstable_fold idx regions [] [] (by intro c l h; simp [dictGet?] at h)
  unfold get_unstable
  simp only [pure_eq]
  cases hf : regions.foldlM (get_unstable_loop1 (indOf idx)) ([], []) with
  | error e =>
    rw [hf] at h
    simp only [Except.map] at h
    simp only [error_bind]
    exact h
  | ok st =>
    rw [hf] at h
    simp only [Except.map, List.nil_append] at h
    simp only [ok_bind]
    exact h

/-! ## `view.run` with `--region`, and the whole selecting branch -/

theorem run_regions_reduce {Rec Out : Type} (rd : Nat → M Rec) (ts tu : Rec → M Out) (so : Rec → Out) (format : Option String)
    (idx : List (Key × List Nat)) (nodes : List PyAtom) (r : String) (rs : List String) :
    run rd ts tu so format (indOf idx) nodes (r :: rs) =
      if nodes == [] then get_unstable (r :: rs) (indOf idx) >>= fun ns => run rd ts tu so format (indOf idx) ns []
      else Except.error VErr.assertionError := by
  obtain ⟨sk, hsort, hsk⟩ := indKey_ok idx
  have hl : ∀ i ∈ sk, ∃ k, i = IKey.node k := fun i hi => by
    obtain ⟨e, _, rfl⟩ := (hsk i).mp hi
    exact ⟨_, rfl⟩
  simp only [run, hsort, ok_bind, foldlM_loop1 sk hl, pure_eq, List.isEmpty_cons, Bool.not_false, if_true, List.isEmpty_nil,
    Bool.not_true, Bool.false_eq_true, if_false]
  by_cases h : (nodes == []) = true
  · simp only [h, pyAssert, if_true, pure_eq, ok_bind]
    cases get_unstable (r :: rs) (indOf idx) <;> rfl
  · simp only [h, pyAssert, Bool.false_eq_true, if_false, throw_eq, error_bind]

/-- **the selecting branch of `view.run` = the model's selection followed by reading and converting the selected records.**
    `nodes` / `regions` are the `--node` / `--region` arguments.  Hypothesis: the index has one key per node id (what
    `gaftools index` writes). -/
theorem run_gen {Rec Out : Type} (rd : Nat → M Rec) (ts tu : Rec → M Out) (so : Rec → Out) (format : Option String)
    (idx : List (Key × List Nat)) (hn : (idx.map (·.1.1)).Nodup) (nodes regions : List String) :
    run rd ts tu so format (indOf idx) (nodes.map PyAtom.str) regions =
      if regions.isEmpty then finish rd ts tu so format (selectNodes idx nodes)
      else if !nodes.isEmpty then Except.error VErr.assertionError
      else match regions.mapM parseRegion with
        | .error e => Except.error (ofPyErr e)
        | .ok rs => finish rd ts tu so format (selectRegions idx rs) := by
  cases regions with
  | nil => simp only [List.isEmpty_nil, if_true]; exact run_nodes_gen rd ts tu so format idx hn nodes
  | cons r rs =>
    rw [run_regions_reduce rd ts tu so format idx]
    cases nodes with
    | cons n ns => simp
    | nil =>
      simp only [List.map_nil, beq_self_eq_true, if_true, List.isEmpty_cons, Bool.false_eq_true, if_false, List.isEmpty_nil,
        Bool.not_true, get_unstable_gen]
      cases (r :: rs).mapM parseRegion with
      | error e => rfl
      | ok ps =>
        simp only [ok_bind]
        exact run_nodes_gen rd ts tu so format idx hn _

/-- the guard of the selecting branch (`len(nodes) != 0 or len(regions) != 0`) is `Cli.viewHead`'s `selecting` -/
theorem selecting_gen (nodes regions : List String) :
    selecting (nodes.map PyAtom.str) regions = (!nodes.isEmpty || !regions.isEmpty) := by
  cases nodes <;> cases regions <;> simp [selecting]

end Gaftools.TieA.ViewSel
