import Gaftools.Props.C06b
import Gaftools.Proofs.FinishLemmas2
/-!
# C06 (continued) — complete decision of `finishScaffold` on a path-shaped scaffold graph, and `buildScaffold` against the
definition-level chain

`finish_ok_inv` is the converse of `finish_path(_rev)`: whatever `decompose_and_order` accepts on a path-shaped scaffold
graph is numbered along the chain, in a direction in which the reference offsets strictly increase, all scaffold nodes
carrying one SN.  The three `finish_*` theorems after it say when it does not accept (C18's "reported and skipped").
`buildScaffold_*` relate the scaffold graph built from *any* list of blocks and articulation points to `chainOfBlocks`
(the specification's chain elements) — what then remains open for `ChainCorrect` is exactly (1) `BiccExact` (C15) and
(2) "the census of a block–cut tree recognises paths".
-/
namespace Gaftools.C06
open Gaftools.Gfa Gaftools.Algo Gaftools.Order Gaftools.Spec.Order
open Gaftools.Proofs.Finish Gaftools.Proofs.Finish2

theorem finish_ok_inv (s : Scaffold) (es : List Elt) (aps : List V) (so : V → Option Int) (sn : V → Option String)
    (hp : PathScaffold s es) (l : Local) (h : finishScaffold s aps so sn = .ok l) :
    ∃ tr cs, (tr = es ∨ tr = es.reverse) ∧
      l = ⟨aps, s.bubbles.flatten, numberChain s tr, es.length, s.bubbles.length⟩ ∧
      (scaffoldIds tr).mapM so = some cs ∧ strictlyIncreasing cs ∧
      (((scaffoldIds es).map sn).eraseDups).length = 1 := by
  have hsnrev : ∀ T : List Elt, (T = es ∨ T = es.reverse) →
      (((T.filterMap idOf).map sn).eraseDups).length = 1 → (((scaffoldIds es).map sn).eraseDups).length = 1 := by
    rintro T (rfl | rfl) hT
    · rw [scaffoldIds_eq]; exact hT
    · rw [scaffoldIds_eq]
      have := eraseDups_length_one_reverse _ hT
      rwa [← List.map_reverse, ← List.filterMap_reverse, List.reverse_reverse] at this
  rcases finish_path_cases hp.toPathS aps so sn with e | e
  · rw [e] at h
    obtain ⟨tr, cs, htr, hl, hso, hinc, hsn⟩ := afterTrav_ok s aps so sn es l h
    refine ⟨tr, cs, htr, hl, ?_, hinc, hsnrev es (Or.inl rfl) hsn⟩
    rw [scaffoldIds_eq]; exact hso
  · rw [e] at h
    obtain ⟨tr, cs, htr, hl, hso, hinc, hsn⟩ := afterTrav_ok s aps so sn es.reverse l h
    refine ⟨tr, cs, ?_, ?_, ?_, hinc, hsnrev es.reverse (Or.inr rfl) hsn⟩
    · rcases htr with rfl | rfl
      · exact Or.inr rfl
      · exact Or.inl (List.reverse_reverse es)
    · rw [hl, List.length_reverse]
    · rw [scaffoldIds_eq]; exact hso

theorem finish_mixedSN (s : Scaffold) (es : List Elt) (aps : List V) (so : V → Option Int) (sn : V → Option String)
    (hp : PathScaffold s es) (hsn : (((scaffoldIds es).map sn).eraseDups).length ≠ 1) :
    finishScaffold s aps so sn = .skipped .mixedSN := by
  rw [scaffoldIds_eq] at hsn
  rcases finish_path_cases hp.toPathS aps so sn with e | e
  · rw [e]; exact afterTrav_mixedSN s aps so sn es hsn
  · rw [e]
    apply afterTrav_mixedSN
    intro h
    apply hsn
    have := eraseDups_length_one_reverse _ h
    rwa [← List.map_reverse, ← List.filterMap_reverse, List.reverse_reverse] at this

theorem finish_crash (s : Scaffold) (es : List Elt) (aps : List V) (so : V → Option Int) (sn : V → Option String)
    (hp : PathScaffold s es) (hsn : (((scaffoldIds es).map sn).eraseDups).length = 1)
    (hso : (scaffoldIds es).mapM so = none) :
    finishScaffold s aps so sn = .crash "SO missing" := by
  rw [scaffoldIds_eq] at hsn hso
  rcases finish_path_cases hp.toPathS aps so sn with e | e
  · rw [e]; exact afterTrav_crash s aps so sn es hsn hso
  · rw [e]
    apply afterTrav_crash
    · rw [List.filterMap_reverse, List.map_reverse]
      exact eraseDups_length_one_reverse _ hsn
    · rw [List.filterMap_reverse]; exact mapM_reverse_none so _ hso

theorem finish_notIncreasing (s : Scaffold) (es : List Elt) (aps : List V) (so : V → Option Int) (sn : V → Option String)
    (hp : PathScaffold s es) (hsn : (((scaffoldIds es).map sn).eraseDups).length = 1)
    (cs : List Int) (hso : (scaffoldIds es).mapM so = some cs)
    (h1 : ¬ strictlyIncreasing cs) (h2 : ¬ strictlyIncreasing cs.reverse) :
    finishScaffold s aps so sn = .skipped .notIncreasing := by
  rw [scaffoldIds_eq] at hsn hso
  unfold strictlyIncreasing at h1 h2
  rcases finish_path_cases hp.toPathS aps so sn with e | e
  · rw [e]; exact afterTrav_notIncreasing s aps so sn es cs hsn hso h1 h2
  · rw [e]
    apply afterTrav_notIncreasing s aps so sn es.reverse cs.reverse
    · rw [List.filterMap_reverse, List.map_reverse]
      exact eraseDups_length_one_reverse _ hsn
    · rw [List.filterMap_reverse]; exact mapM_reverse so _ cs hso
    · exact h2
    · rw [List.reverse_reverse]; exact h1

/-- consecutive chain positions are adjacent in the scaffold graph -/
theorem chain_adjacent (s : Scaffold) (tr : List Elt) (hp : PathScaffold s tr) (k : Nat) (a b : Elt)
    (ha : tr[k]? = some a) (hb : tr[k + 1]? = some b) : b ∈ s.nbrs a ∧ a ∈ s.nbrs b := by
  exact ⟨(hp.adj a b).mpr ⟨k, Or.inl ⟨ha, hb⟩⟩, (hp.adj b a).mpr ⟨k, Or.inr ⟨ha, hb⟩⟩⟩

/-- `buildScaffold` refuses exactly the block lists the specification calls `bad` -/
theorem buildScaffold_error_iff (bl : List (List V)) (aps : List V) :
    (∃ e, buildScaffold bl aps = .error e) ↔ (chainOfBlocks bl aps).bad = true := by
  rw [buildScaffold_eq]
  constructor
  · rintro ⟨e, h⟩
    exact (foldl_error aps bl _ e h).2
  · intro hbad
    cases h : List.foldlM (step aps) ⟨aps.map Elt.scaffold, [], []⟩ bl with
    | error e => exact ⟨e, rfl⟩
    | ok s =>
      have := (foldl_ok aps bl _ s h).1
      rw [hbad] at this
      cases this

theorem buildScaffold_error_kind (bl : List (List V)) (aps : List V) (e : Skip) (h : buildScaffold bl aps = .error e) :
    e = .blockEnds := by
  rw [buildScaffold_eq] at h
  exact (foldl_error aps bl _ e h).1

/-- … and otherwise builds the collapsed graph of the specification's chain elements -/
theorem buildScaffold_ok (bl : List (List V)) (aps : List V) (s : Scaffold) (h : buildScaffold bl aps = .ok s) :
    (chainOfBlocks bl aps).bad = false ∧
    s.bubbles = (chainOfBlocks bl aps).bubbles.map (·.1) ∧
    s.elts = aps.map Elt.scaffold ++ (List.range (chainOfBlocks bl aps).bubbles.length).map Elt.bubble ∧
    (∀ p, p ∈ s.edges ↔
      ((∃ i a, p = (Elt.bubble i, Elt.scaffold a) ∧ i < (chainOfBlocks bl aps).bubbles.length ∧
          a ∈ ((chainOfBlocks bl aps).bubbles.getD i ([], [])).2) ∨
       (∃ a b, p = (Elt.scaffold a, Elt.scaffold b) ∧ (a, b) ∈ (chainOfBlocks bl aps).bridges))) := by
  rw [buildScaffold_eq] at h
  obtain ⟨i1, i2, i3, i4⟩ := foldl_ok aps bl _ s h
  refine ⟨i1, by simpa using i2, by simpa using i3, ?_⟩
  intro p
  rw [i4 p]
  simp

/-! non-vacuity (tests): -/
#eval (match buildScaffold [["a", "x", "y", "b"], ["b", "c"]] ["a", "b", "c"] with | .ok s => some (s.elts, s.edges, s.bubbles) | _ => none)
#eval (let c := chainOfBlocks [["a", "x", "y", "b"], ["b", "c"]] ["a", "b", "c"]; (c.bubbles, c.bridges, c.bad))

end Gaftools.C06
