import Gaftools.Props.TieA7
import Gaftools.Props.TieA8
import Gaftools.Props.TieA9
import Gaftools.Props.TieA12
import Gaftools.Props.TieA20
import Gaftools.Props.TieA25
/-!
# Non-vacuity audit of TieA7, TieA8, TieA9, TieA12, TieA20, TieA25

For every main theorem: an `example` that applies it to a concrete, non-trivial input (all hypotheses discharged), and a
`#guard` / `example … := by decide` showing that the generated side is not degenerate on that input.

`by decide` is used wherever the kernel can evaluate; `#guard` (compiled evaluation) where it cannot: the well-founded recursions
`findCompLoop` / `dfsLoop` of `Model/Algo.lean`, and `toString` on `Int` in `Sort.suffix`.
-/
namespace Gaftools.NonVacuousA

/-! ## TieA7 — the record text layer -/
section A7
open Gaftools.Gaf Gaftools.Gen Gaftools.TieA Gaftools.Phase

/-- a GAF line: read name with a description, twelve columns, five well-formed tags (one `ds:Z:`, one repeated `NM:i:`, a `cg:Z:`,
    a non-primary `tp:A:`), one field that is not a tag, trailing white space -/
def line0 : Str :=
  "read1 desc\t100\t5\t95\t+\t>s1>s2>s4\t9\t1\t8\t85\t90\t60\tNM:i:5\ttp:A:S\tcg:Z:90=\tds:Z:junk\tNM:i:7\tbad \n".toList

def fs0 : List Str := splitTab (rstrip line0)

def rec0 : Rec :=
  { qname := "read1".toList, qlen := 100, qs := 5, qe := 95, strand := "+".toList, path := ">s1>s2>s4".toList,
    plen := 9, ps := 1, pe := 8, nmatch := 85, blen := 90, mapq := 60, isPrimary := false, cigar := "90=".toList,
    tags := [("NM:i:".toList, "5".toList), ("tp:A:".toList, "S".toList), ("cg:Z:".toList, "90=".toList)] }

example : fs0.length = 18 := by decide
theorem parse0 : parseFields fs0 = some rec0 := by decide

/-- the same line with a non-numeric column 10 -/
def fs1 : List Str := splitTab "read1\t100\t5\t95\t+\t>s1>s2\t9\t1\t8\t8x\t90\t60\tNM:i:5".toList

-- rstrip_gen, strFormat_gen, strTagFormat_gen: closed statements about generated constants (no input to instantiate)
example := rstrip_gen
example := strFormat_gen
example := strTagFormat_gen

-- tagSplit_gen
example : tagSplit "tp:A:S".toList = genTagSplit "tp:A:S".toList := tagSplit_gen _
example : genTagSplit "tp:A:S".toList = some ("tp:A:".toList, "S".toList) := by decide
example : genTagSplit "NM:i:".toList = some ("NM:i:".toList, []) := by decide
example : genTagSplit "t:A:S".toList = none := by decide
example : genTagSplit "1M:i:5".toList = none := by decide
example : genTagSplit "NM:x:5".toList = none := by decide

-- tagStep_gen
def st0 : TagSt := ⟨[("NM:i:".toList, "5".toList)], [], true⟩
example : tagStep st0 "tp:A:S".toList =
    match tagSplit "tp:A:S".toList with
    | none => st0
    | some (p, v) => Gen.tagBody st0 p v := tagStep_gen st0 _
example : Gen.tagBody st0 "tp:A:".toList "S".toList =
    ⟨[("NM:i:".toList, "5".toList), ("tp:A:".toList, "S".toList)], [], false⟩ := by decide
example : Gen.tagBody st0 "tp:A:".toList "P".toList =
    ⟨[("NM:i:".toList, "5".toList), ("tp:A:".toList, "P".toList)], [], true⟩ := by decide
example : Gen.tagBody st0 "cg:Z:".toList "90=".toList =
    ⟨[("NM:i:".toList, "5".toList), ("cg:Z:".toList, "90=".toList)], "90=".toList, true⟩ := by decide
example : Gen.tagBody st0 "NM:i:".toList "7".toList = st0 := by decide
example : Gen.tagBody st0 "ds:Z:".toList "junk".toList = st0 := by decide

-- parseFields_columns
example : readAll fs0 = some (Gen.columns.map (fun c => fieldOf rec0 c.1)) := parseFields_columns fs0 rec0 parse0
example : readAll fs0 = some [.s "read1".toList, .n 100, .n 5, .n 95, .s "+".toList, .s ">s1>s2>s4".toList,
    .n 9, .n 1, .n 8, .n 85, .n 90, .n 60] := by decide

-- parseFields_rejects
example : readAll fs1 = none := parseFields_rejects fs1 (by decide) (by decide)
example : fs1.length = 13 ∧ (Gen.columns.take 9).mapM (readCol fs1) ≠ none := by decide

-- parseFields_tags
example :
    let st := (fs0.drop 12).foldl (fun st k => match tagSplit k with
      | none => st
      | some (p, v) => Gen.tagBody st p v) ⟨[], [], true⟩
    rec0.tags = st.tags ∧ rec0.cigar = st.cigar ∧ rec0.isPrimary = st.isPrimary := parseFields_tags fs0 rec0 parse0
example : (fs0.drop 12).foldl (fun st k => match tagSplit k with
      | none => st
      | some (p, v) => Gen.tagBody st p v) ⟨[], [], true⟩ ≠ ⟨[], [], true⟩ := by decide
example : (fs0.drop 12).length = 6 ∧ rec0.tags.length = 3 := by decide

-- mandatory_gen
example : mandatory rec0 = Gen.strArgs.map (fun a => render (fieldOf rec0 a)) := mandatory_gen rec0
example : Gen.strArgs.map (fun a => render (fieldOf rec0 a)) =
    ["read1", "100", "5", "95", "+", ">s1>s2>s4", "9", "1", "8", "85", "90", "60"].map String.toList := by decide

-- printTags_gen: a record with a CIGAR (the entry is rewritten) and one without CIGAR and without `cg:Z:` (untouched)
def rec1 : Rec := { rec0 with cigar := [], tags := [("NM:i:".toList, "5".toList)] }
def rec2 : Rec := { rec0 with cigar := "45=1X44=".toList }
example : printTags rec2 = if Gen.strSetsCg (!rec2.cigar.isEmpty) (dictHas rec2.tags cgKey) then dictSet rec2.tags cgKey rec2.cigar else rec2.tags :=
  printTags_gen rec2
example : Gen.strSetsCg (!rec2.cigar.isEmpty) (dictHas rec2.tags cgKey) = true ∧
    Gen.strSetsCg (!rec1.cigar.isEmpty) (dictHas rec1.tags cgKey) = false ∧
    dictSet rec2.tags cgKey rec2.cigar ≠ rec2.tags := by decide

-- phaseTags_gen: a phased read, a read listed with haplotype `none`, a read that is not listed
def phase0 : List TsvEntry :=
  buildPhase [⟨"read1".toList, "H1".toList, "1234".toList, "chr1".toList⟩, ⟨"read2".toList, "none".toList, "77".toList, "chr2".toList⟩,
    ⟨"read1".toList, "H2".toList, "9".toList, "chrX".toList⟩]
example : phase0.length = 2 := by decide
example : phaseText phase0 rec0.qname =
    match lookupPhase phase0 rec0.qname with
    | some e =>
      if Gen.phaseIsPhased true (e.hap == noneStr) then fillFmt Gen.phasedFormat.toList (Gen.phasedArgs.map (phaseArg e))
      else Gen.unphasedText.toList
    | none =>
      if Gen.phaseIsPhased false true then [] else Gen.unphasedText.toList := phaseTags_gen phase0 rec0.qname
example := phaseTags_gen phase0 "read2".toList
example := phaseTags_gen phase0 "read9".toList
example : (match lookupPhase phase0 rec0.qname with
    | some e =>
      if Gen.phaseIsPhased true (e.hap == noneStr) then fillFmt Gen.phasedFormat.toList (Gen.phasedArgs.map (phaseArg e))
      else Gen.unphasedText.toList
    | none =>
      if Gen.phaseIsPhased false true then [] else Gen.unphasedText.toList) = "\tps:Z:chr1-1234\tht:Z:H1".toList := by decide
example : phaseText phase0 "read2".toList = "\tps:Z:none\tht:Z:none".toList ∧
    phaseText phase0 "read9".toList = "\tps:Z:none\tht:Z:none".toList ∧
    phaseText phase0 "read1".toList ≠ phaseText phase0 "read2".toList := by decide

-- phaseMandatory_gen
example : mandatory rec0 = Gen.phaseArgs.map (fun a => render (fieldOf rec0 a)) := (phaseMandatory_gen rec0).1
example : (Gen.phaseArgs.map (fun a => render (fieldOf rec0 a))).length = 12 ∧
    Gen.phaseArgs.map (fun a => render (fieldOf rec0 a)) ≠ Gen.phaseArgs.map (fun a => render (fieldOf { rec0 with mapq := 0 } a)) := by
  decide

end A7

/-! ## TieA8 — the write loop of `sort` -/
section A8
open Gaftools.Sort Gaftools.Gen Gaftools.TieA

def aln0 : Aln := { offset := 3, bo := 17, no := 0, start := 250, inv := 1, sn := "chr1" }
def aln1 : Aln := { offset := 9, bo := -1, no := -1, start := 0, inv := 0, sn := "unknown" }

-- sortStrips_gen: closed statement about generated constants
example := sortStrips_gen

-- suffix_gen (`toString` on `Int`: the values are shown with `#guard`)
example : (suffix aln0).toList ++ ['\n'] = fillFmt Gen.sortSuffixFormat.toList (Gen.sortSuffixArgs.map (alnArg aln0)) := suffix_gen aln0
example : (suffix aln1).toList ++ ['\n'] = fillFmt Gen.sortSuffixFormat.toList (Gen.sortSuffixArgs.map (alnArg aln1)) := suffix_gen aln1
#guard fillFmt Gen.sortSuffixFormat.toList (Gen.sortSuffixArgs.map (alnArg aln0)) = "\tbo:i:17\tsn:Z:chr1\tiv:i:1\n".toList
#guard fillFmt Gen.sortSuffixFormat.toList (Gen.sortSuffixArgs.map (alnArg aln1)) = "\tbo:i:-1\tsn:Z:unknown\tiv:i:0\n".toList

-- gsiStep_gen_same: a contig already in the index (only `last` moves) and a new one (both are set)
def idx0 : List (String × Nat × Nat) := [("chr1", 0, 120), ("chr2", 200, 260)]
example : entryOf (gsiStep idx0 ("chr2", 300)) "chr2" = applyAssign (entryOf idx0 "chr2") 300 := gsiStep_gen_same idx0 "chr2" 300
example : entryOf (gsiStep idx0 ("chr3", 300)) "chr3" = applyAssign (entryOf idx0 "chr3") 300 := gsiStep_gen_same idx0 "chr3" 300
example : applyAssign (entryOf idx0 "chr2") 300 = (some 200, some 300) ∧ applyAssign (entryOf idx0 "chr3") 300 = (some 300, some 300) ∧
    entryOf idx0 "chr2" = (some 200, some 260) ∧ entryOf idx0 "chr3" = (none, none) := by decide

-- gsiStep_gen_other
example : entryOf (gsiStep idx0 ("chr2", 300)) "chr1" = entryOf idx0 "chr1" := gsiStep_gen_other idx0 "chr2" "chr1" 300 (by decide)
example : entryOf (gsiStep idx0 ("chr3", 300)) "chr2" = entryOf idx0 "chr2" := gsiStep_gen_other idx0 "chr3" "chr2" 300 (by decide)
example : entryOf idx0 "chr1" = (some 0, some 120) := by decide

-- gsiIndex_gen: five output records on three contigs, one of them `unknown`
def sns0 : List String := ["chr1", "chr1", "unknown", "chr2", "chr2"]
def offs0 : Nat → Nat := fun i => 100 * i + 7
example : gsiIndex sns0 offs0 = ((sns0.zipIdx.map (fun (s, i) => (s, offs0 i))).foldl gsiStep []).filter (·.1 != Gen.gsiPopped) :=
  (gsiIndex_gen sns0 offs0).2
example : ((sns0.zipIdx.map (fun (s, i) => (s, offs0 i))).foldl gsiStep []).filter (·.1 != Gen.gsiPopped) =
    [("chr1", 7, 107), ("chr2", 307, 407)] := by decide
example : ((sns0.zipIdx.map (fun (s, i) => (s, offs0 i))).foldl gsiStep []).length = 3 := by decide

end A8

/-! ## the graph used for TieA9, TieA12, TieA20, TieA25 -/
section G
open Gaftools.Gfa Gaftools.Gen.GfaMutate

def tg (n t v : String) : Tag := ⟨n, t, v⟩
def seg1 : SegLine := ⟨"s1", "ACGT", [tg "SN" "Z" "chr1", tg "SO" "i" "0", tg "SR" "i" "0", tg "LN" "i" "4"]⟩
def seg2 : SegLine := ⟨"s2", "GG", [tg "SN" "Z" "chr1", tg "SO" "i" "4", tg "SR" "i" "0", tg "LN" "i" "2"]⟩
def seg3 : SegLine := ⟨"s3", "T", [tg "SN" "Z" "alt", tg "SO" "i" "4", tg "SR" "i" "1", tg "LN" "i" "1"]⟩
def seg4 : SegLine := ⟨"s4", "CCA", [tg "SN" "Z" "chr1", tg "SO" "i" "6", tg "SR" "i" "0", tg "LN" "i" "3"]⟩
def seg5 : SegLine := ⟨"s5", "AAAA", [tg "SN" "Z" "chr1", tg "SO" "i" "+9", tg "SR" "i" "0", tg "LN" "i" "4"]⟩
def seg6 : SegLine := ⟨"s6", "C", []⟩
def sL (s : SegLine) : TLine := ⟨some 'S', s, default⟩
def lL (l : LinkLine) : TLine := ⟨some 'L', default, l⟩

/-- a GFA file on the token level: a header line, six S lines (not in coordinate order, one without tags and without links),
    six L lines (two of them before the S lines of their endpoints, one with a tag, one towards a node that does not exist), an empty line -/
def lines0 : List TLine :=
  [⟨some 'H', default, default⟩, sL seg1, lL ⟨"s1", true, "s2", true, 0, []⟩, sL seg4, sL seg2, lL ⟨"s1", true, "s3", true, 0, ["xx:Z:q"]⟩,
   sL seg3, sL seg5, ⟨none, default, default⟩, lL ⟨"s2", true, "s4", true, 0, []⟩, lL ⟨"s3", true, "s4", true, 2, []⟩,
   lL ⟨"s1", true, "zz", false, 0, []⟩, lL ⟨"s4", true, "s5", true, 0, []⟩, sL seg6]

def file0 : GfaFile := TieA20.fileOf lines0
def g0 : Graph := readGraph file0
def x0 : GraphExtra.GFA := GraphExtra.readGFA file0

example : file0.segs = [seg1, seg4, seg2, seg3, seg5, seg6] ∧ file0.links.length = 6 := by decide
example : g0.nodes.map (·.id) = ["s1", "s4", "s2", "s3", "s5", "s6"] := by decide
example : g0.nodes.map (·.neighbors) = [["s2", "s3"], ["s2", "s3", "s5"], ["s1", "s4"], ["s1", "s4"], ["s4"], []] := by decide
example : x0.contigToNodes = [("chr1", ["s1", "s4", "s2", "s5"]), ("alt", ["s3"])] := by decide
theorem x0_g : x0.g = g0 := Gaftools.Proofs.GraphExtra.readGFA_g file0 false

end G

/-! ## TieA9 — `biccs` -/
section A9
open Gaftools.Gfa Gaftools.Algo Gaftools.TieA

def nb0 : V → List V := Graph.nbFun g0
def Vs0 : List V := Graph.ids g0

/-- the hypothesis of `bgo_gen` / `biccsFrom_gen` for the neighbour function of a concrete graph -/
theorem nb0_noEmpty : ∀ v, "" ∉ nb0 v := by
  have h : ∀ n ∈ g0.nodes, "" ∉ n.neighbors := by decide
  intro v
  show "" ∉ Graph.neighbors g0 v
  unfold Graph.neighbors
  split
  · next n hf => exact h n (List.mem_of_find?_eq_some hf)
  · simp

def init0 (root : V) : BSt :=
  { disc := [(root, 0)], low := [(root, 0)], visited := [root], estack := [], loc := [],
    stack := [⟨root, root, 0, nb0 root⟩], comps := [], aps := [], rootChildren := 0 }

theorem framesOk_init0 (root : V) : FramesOk (init0 root) := by
  intro f hf
  simp [init0] at hf
  subst hf
  exact nb0_noEmpty root

theorem framesOk_bgo (n : Nat) (s : BSt) (h : FramesOk s) : FramesOk (bgo nb0 n s) := by
  induction n generalizing s with
  | zero => exact h
  | succ n ih =>
    unfold bgo
    split
    · exact h
    · exact ih _ (bstep_framesOk nb0 nb0_noEmpty s h)

-- bstep_gen: at every state the search from `s1` goes through (all branches of the loop body are met, see the guards below)
example (k : Nat) : Gen.bstep nb0 (bgo nb0 k (init0 "s1")) = bstep nb0 (bgo nb0 k (init0 "s1")) :=
  bstep_gen nb0 _
-- … and at one state written out by `decide`
example : FramesOk (bgo nb0 5 (init0 "s1")) := by unfold FramesOk; decide
-- the stack grows to four frames and is empty after 15 iterations: new node, back edge, parent skipped, both pop branches, root pop
#guard (List.range 18).map (fun k => (bgo nb0 k (init0 "s1")).stack.length) =
  [1, 2, 2, 3, 3, 4, 4, 4, 3, 4, 4, 3, 2, 1, 1, 0, 0, 0]
#guard (List.range 15).all (fun k =>
  let s := bgo nb0 k (init0 "s1")
  let t := Gen.bstep nb0 s
  (t.stack.map (·.ptr), t.estack, t.disc, t.low, t.comps, t.aps, t.rootChildren, t.visited) !=
    (s.stack.map (·.ptr), s.estack, s.disc, s.low, s.comps, s.aps, s.rootChildren, s.visited))

/-- which branch of the loop body a state takes: 0 empty stack, 1 neighbour = parent, 2 back edge kept, 3 back edge dropped,
    4 new node, 5 pop (component closed below a non-root), 6 pop (nothing closed), 7 pop of a child of the root, 8 pop of the root -/
def branchOf (s : BSt) : Nat :=
  match s.stack with
  | [] => 0
  | f :: rest =>
    if f.ptr < f.nbrs.length then
      let nn := f.nbrs.getD f.ptr ""
      if nn == f.parent then 1
      else if s.visited.contains nn then
        (if (lookup nn s.disc).getD 0 ≤ (lookup f.child s.disc).getD 0 then 2 else 3)
      else 4
    else if rest.length > 1 then
      (if (lookup f.child s.low).getD 0 ≥ (lookup f.parent s.disc).getD 0 then 5 else 6)
    else if rest.length == 1 then 7 else 8
-- every branch of the loop body is taken in the search from `s1`
#guard (List.range 17).map (fun k => branchOf (bgo nb0 k (init0 "s1"))) = [4, 1, 4, 1, 4, 2, 1, 6, 4, 1, 5, 6, 7, 3, 8, 0, 0]
#guard (List.range 17).map (fun k => branchOf (bgo nb0 k (init0 "s4"))) = [4, 4, 1, 4, 1, 2, 6, 6, 1, 7, 3, 4, 1, 7, 8, 0, 0]

-- bgo_gen
example : genBgo nb0 40 (init0 "s1") = bgo nb0 40 (init0 "s1") := bgo_gen nb0 40 _
#guard (genBgo nb0 40 (init0 "s1")).comps = [["s4", "s5"], ["s1", "s2", "s4", "s3"]]
#guard (genBgo nb0 40 (init0 "s1")).aps = ["s4"] && (genBgo nb0 40 (init0 "s1")).rootChildren = 1 && (genBgo nb0 40 (init0 "s1")).stack.length = 0
#guard (genBgo nb0 5 (init0 "s1")).comps = []

-- biccsFrom_gen, from a root that is not an articulation point and from one that is
example : biccsFrom nb0 "s1" 40 =
    (let s := genBgo nb0 40 (init0 "s1")
     (s.comps, if Gen.rootIsAp s.rootChildren then insertSet "s1" s.aps else s.aps)) := biccsFrom_gen nb0 "s1" 40
example : biccsFrom nb0 "s4" (biccFuel nb0 Vs0) =
    (let s := genBgo nb0 (biccFuel nb0 Vs0) (init0 "s4")
     (s.comps, if Gen.rootIsAp s.rootChildren then insertSet "s4" s.aps else s.aps)) := biccsFrom_gen nb0 "s4" _
#guard (let s := genBgo nb0 40 (init0 "s1")
        (s.comps, if Gen.rootIsAp s.rootChildren then insertSet "s1" s.aps else s.aps)) = ([["s4", "s5"], ["s1", "s2", "s4", "s3"]], ["s4"])
#guard (let s := genBgo nb0 40 (init0 "s4")
        (s.rootChildren, Gen.rootIsAp s.rootChildren, if Gen.rootIsAp s.rootChildren then insertSet "s4" s.aps else s.aps)) = (2, true, ["s4"])


/-! History (TieA9): the first version of `bstep_gen` needed `∀ v, "" ∉ nb v`, and — unlike its header said — `read_graph` does not
guarantee that: the line `S<TAB><TAB>ACGT` is accepted by the Python and by `Gfa.readGraph`. On the triangle `"" – a – b` the source
(`if nn:`) found two components and an articulation point, the model one component and none. This audit exposed it; the source was
repaired (D23, `if nn is not None:`), the theorems are unconditional now, and the translated loop agrees with the model on that graph: -/
def gE : Graph := readGraph ⟨[⟨"", "ACGT", []⟩, ⟨"a", "GG", []⟩, ⟨"b", "T", []⟩],
  [⟨"a", true, "", true, 0, []⟩, ⟨"", true, "b", true, 0, []⟩, ⟨"a", true, "b", true, 0, []⟩]⟩
def nbE : V → List V := Graph.nbFun gE
def initE (root : V) : BSt :=
  { disc := [(root, 0)], low := [(root, 0)], visited := [root], estack := [], loc := [],
    stack := [⟨root, root, 0, nbE root⟩], comps := [], aps := [], rootChildren := 0 }
example : ¬ ∀ v, "" ∉ nbE v := fun h => h "a" (by decide)
example : genBgo nbE 40 (initE "") = bgo nbE 40 (initE "") := bgo_gen nbE 40 _
#guard (let s := genBgo nbE 40 (initE ""); (s.comps, if Gen.rootIsAp s.rootChildren then insertSet "" s.aps else s.aps)) =
  ([["", "a", "b"]], [])
#guard biccsFrom nbE "" 40 = ([["", "a", "b"]], [])

end A9

/-! ## TieA12 — `find_component`, `all_components`, `dfs`

`findCompLoop` and `dfsLoop` are well-founded recursions: the kernel does not evaluate them, so the values of the model side
are shown with `#guard` (compiled evaluation), the hypotheses with `decide`. -/
section A12
open Gaftools.Gfa Gaftools.Algo Gaftools.TieA Gaftools.Gen.Search

theorem closed0 : NbClosed nb0 Vs0 := by unfold NbClosed; decide
example : Vs0 = ["s1", "s4", "s2", "s3", "s5", "s6"] := by decide

-- fcStep_eq / findCompLoop_step: `s4` is popped, `s1` is in the component already, `s2` waits on the queue
example : fcStep nb0 ⟨"s4" :: ["s2"], ["s1"], ["s1", "s2", "s3"]⟩ =
    if ["s1"].contains "s4" then ⟨["s2"], ["s1"], ["s1", "s2", "s3"]⟩
    else ⟨((nb0 "s4").filter (fun n => !(insertSet "s4" ["s1", "s2", "s3"]).contains n)).reverse ++ ["s2"], "s4" :: ["s1"],
      insertSet "s4" ["s1", "s2", "s3"]⟩ := fcStep_eq nb0 "s4" ["s2"] ["s1"] ["s1", "s2", "s3"]
example : findCompLoop nb0 Vs0 ("s4" :: ["s2"]) ["s1"] ["s1", "s2", "s3"] =
    findCompLoop nb0 Vs0 (fcStep nb0 ⟨"s4" :: ["s2"], ["s1"], ["s1", "s2", "s3"]⟩).queue
      (fcStep nb0 ⟨"s4" :: ["s2"], ["s1"], ["s1", "s2", "s3"]⟩).cc (fcStep nb0 ⟨"s4" :: ["s2"], ["s1"], ["s1", "s2", "s3"]⟩).vis :=
  findCompLoop_step nb0 Vs0 "s4" ["s2"] ["s1"] ["s1", "s2", "s3"] (by decide)
example : (fcStep nb0 ⟨"s4" :: ["s2"], ["s1"], ["s1", "s2", "s3"]⟩).queue = ["s5", "s2"] ∧
    (fcStep nb0 ⟨"s4" :: ["s2"], ["s1"], ["s1", "s2", "s3"]⟩).cc = ["s4", "s1"] ∧
    (fcStep nb0 ⟨"s4" :: ["s2"], ["s1"], ["s1", "s2", "s3"]⟩).vis = ["s4", "s1", "s2", "s3"] := by decide

-- fcLoop_gen
example : ∃ n, ∀ m, n ≤ m → whileFuel fcCond (fcStep nb0) m ⟨["s1"], [], ["s1"]⟩
    = ⟨[], (findCompLoop nb0 Vs0 ["s1"] [] ["s1"]).1, (findCompLoop nb0 Vs0 ["s1"] [] ["s1"]).2⟩ :=
  fcLoop_gen nb0 Vs0 closed0 ["s1"] [] ["s1"] (by decide)
#guard (whileFuel fcCond (fcStep nb0) 30 ⟨["s1"], [], ["s1"]⟩).cc = (findCompLoop nb0 Vs0 ["s1"] [] ["s1"]).1
#guard (whileFuel fcCond (fcStep nb0) 30 ⟨["s1"], [], ["s1"]⟩).cc = ["s2", "s5", "s4", "s3", "s1"]
#guard (whileFuel fcCond (fcStep nb0) 30 ⟨["s1"], [], ["s1"]⟩).queue = []
#guard (whileFuel fcCond (fcStep nb0) 3 ⟨["s1"], [], ["s1"]⟩).queue != []

-- findComponent_gen: a node of the large component (flags of another search already set) and the isolated node
example : ∃ n, ∀ m, n ≤ m → findComponent nb0 m "s3" ["s6"] = findComp nb0 Vs0 "s3" ["s6"] :=
  findComponent_gen nb0 Vs0 closed0 "s3" (by decide) ["s6"]
example : ∃ n, ∀ m, n ≤ m → findComponent nb0 m "s6" [] = findComp nb0 Vs0 "s6" [] :=
  findComponent_gen nb0 Vs0 closed0 "s6" (by decide) []
#guard findComponent nb0 30 "s3" ["s6"] = findComp nb0 Vs0 "s3" ["s6"]
#guard findComponent nb0 30 "s3" ["s6"] = (["s1", "s2", "s5", "s4", "s3"], ["s1", "s2", "s5", "s4", "s3", "s6"])
#guard findComponent nb0 30 "s6" [] = (["s6"], ["s6"])
#guard findComponent nb0 2 "s3" ["s6"] != findComp nb0 Vs0 "s3" ["s6"]   -- too little fuel: the bound `n` is not 0

-- allComponents_gen (entered with a flag set: the search from `s6` is skipped) and allComponents_gen'
example : ∃ n, ∀ m, n ≤ m → Gen.Search.allComponents nb0 m Vs0 ["s6"] = (allComponentsGo nb0 Vs0 Vs0 ["s6"] [], []) :=
  allComponents_gen nb0 Vs0 closed0 ["s6"]
example : ∃ n, ∀ m, n ≤ m → Gen.Search.allComponents nb0 m Vs0 [] = (Algo.allComponents nb0 Vs0, []) :=
  allComponents_gen' nb0 Vs0 closed0
#guard Gen.Search.allComponents nb0 30 Vs0 [] = (Algo.allComponents nb0 Vs0, [])
#guard Gen.Search.allComponents nb0 30 Vs0 [] = ([["s2", "s5", "s4", "s3", "s1"], ["s6"]], [])
#guard Gen.Search.allComponents nb0 30 Vs0 ["s6"] = ([["s2", "s5", "s4", "s3", "s1"]], [])

-- dfsStep_eq / dfsLoop_step
example : dfsStep nb0 ⟨"s4" :: ["s3"], ["s2", "s1"], ["s1", "s2"]⟩ =
    if ["s2", "s1"].contains "s4" then ⟨["s3"], ["s2", "s1"], ["s1", "s2"]⟩
    else ⟨(nb0 "s4").reverse ++ ["s3"], "s4" :: ["s2", "s1"], ["s1", "s2"] ++ ["s4"]⟩ := dfsStep_eq nb0 "s4" ["s3"] ["s2", "s1"] ["s1", "s2"]
example := dfsLoop_step nb0 Vs0 "s4" ["s3"] ["s2", "s1"] (by decide)
example : (dfsStep nb0 ⟨"s4" :: ["s3"], ["s2", "s1"], ["s1", "s2"]⟩).stack = ["s5", "s3", "s2", "s3"] ∧
    (dfsStep nb0 ⟨"s4" :: ["s3"], ["s2", "s1"], ["s1", "s2"]⟩).ordered_dfs_out = ["s1", "s2", "s4"] := by decide

-- dfsLoop_gen
example : ∃ n, ∀ m, n ≤ m → whileFuel dfsCond (dfsStep nb0) m ⟨["s2"], ["s1"], ["s1"].reverse⟩
    = ⟨[], dfsLoop nb0 Vs0 ["s2"] ["s1"], (dfsLoop nb0 Vs0 ["s2"] ["s1"]).reverse⟩ :=
  dfsLoop_gen nb0 Vs0 closed0 ["s2"] ["s1"] (by decide)
#guard (whileFuel dfsCond (dfsStep nb0) 30 ⟨["s2"], ["s1"], ["s1"]⟩).ordered_dfs_out = (dfsLoop nb0 Vs0 ["s2"] ["s1"]).reverse
#guard (whileFuel dfsCond (dfsStep nb0) 30 ⟨["s2"], ["s1"], ["s1"]⟩).ordered_dfs_out = ["s1", "s2", "s4", "s5", "s3"]

-- dfs_gen: through the loop, from the isolated node, from an id that is not in the graph
example : ∃ n, ∀ m, n ≤ m → Gen.Search.dfs nb0 m Vs0 "s1" = Algo.dfs nb0 Vs0 "s1" := dfs_gen nb0 Vs0 closed0 "s1"
example : ∃ n, ∀ m, n ≤ m → Gen.Search.dfs nb0 m Vs0 "s6" = Algo.dfs nb0 Vs0 "s6" := dfs_gen nb0 Vs0 closed0 "s6"
example : ∃ n, ∀ m, n ≤ m → Gen.Search.dfs nb0 m Vs0 "zz" = Algo.dfs nb0 Vs0 "zz" := dfs_gen nb0 Vs0 closed0 "zz"
#guard Gen.Search.dfs nb0 30 Vs0 "s1" = Algo.dfs nb0 Vs0 "s1"
#guard Gen.Search.dfs nb0 30 Vs0 "s1" = ["s1", "s3", "s4", "s5", "s2"]
#guard Gen.Search.dfs nb0 30 Vs0 "s5" = ["s5", "s4", "s3", "s1", "s2"]
#guard Gen.Search.dfs nb0 30 Vs0 "s6" = ["s6"] && Gen.Search.dfs nb0 30 Vs0 "zz" = []
#guard Gen.Search.dfs nb0 3 Vs0 "s1" != Algo.dfs nb0 Vs0 "s1"

end A12

/-! ## TieA20 — `add_node`, `remove_node`, `read_graph` -/
section A20
open Gaftools.Gfa Gaftools.Gen Gaftools.TieA Gaftools.TieA20
open Gaftools.Gen.GfaMutate (St Exc TLine ETags forE)

/-- the object after `GFA(file0)` -/
def σ0 : St := ⟨g0, [("chr1", 0), ("alt", 1)], x0.contigToNodes⟩
/-- the translation of `GFA(graph_file, low_memory=False)`, evaluated by the kernel on the fourteen lines -/
theorem load0 : GfaMutate.load lines0 false = .ok σ0 := by decide
example : σ0.g.nodes.length = 6 ∧ σ0.g.edgeTags.length = 5 ∧ σ0.c2n.length = 2 := by decide

-- addNode_gen: a new node on a known contig (one tag name twice), on a new contig, with a clashing rank, with a rank that is
-- not a number, without SN/SR, and an id that exists
def tags7 : List Tag := [tg "SN" "Z" "chr1", tg "LN" "i" "3", tg "SR" "i" "0", tg "LN" "i" "5"]
example : GfaMutate.addNode σ0 "s7" "TTT" tags7 =
    if σ0.g.has "s7" then .ok σ0
    else match GfaText.contigStep σ0.contigs (GfaText.dictOf tags7) with
      | .error e => .error (excOf e)
      | .ok c => .ok { g := Gfa.addNode σ0.g ⟨"s7", "TTT", tags7⟩ false, contigs := c, c2n := σ0.c2n } := addNode_gen σ0 "s7" "TTT" tags7
example := addNode_gen σ0 "s7" "TTT" [tg "SN" "Z" "chrY", tg "SR" "i" "2"]
example := addNode_gen σ0 "s7" "TTT" [tg "SN" "Z" "chr1", tg "SR" "i" "3"]
example := addNode_gen σ0 "s7" "TTT" [tg "SN" "Z" "chr1", tg "SR" "i" "x"]
example := addNode_gen σ0 "s7" "TTT" [tg "LN" "i" "3"]
example := addNode_gen σ0 "s2" "TTT" tags7
example : GfaMutate.addNode σ0 "s7" "TTT" tags7 =
    .ok { σ0 with g := { σ0.g with nodes := σ0.g.nodes ++ [⟨"s7", "TTT", [], [], [tg "SN" "Z" "chr1", tg "LN" "i" "5", tg "SR" "i" "0"]⟩] } } := by decide
example : (GfaMutate.addNode σ0 "s7" "TTT" [tg "SN" "Z" "chrY", tg "SR" "i" "2"]).toOption.map (·.contigs) =
    some [("chr1", 0), ("alt", 1), ("chrY", 2)] := by decide
example : GfaMutate.addNode σ0 "s7" "TTT" [tg "SN" "Z" "chr1", tg "SR" "i" "3"] = .error .assertionError := by decide
example : GfaMutate.addNode σ0 "s7" "TTT" [tg "SN" "Z" "chr1", tg "SR" "i" "x"] = .error .valueError := by decide
example : GfaMutate.addNode σ0 "s2" "TTT" tags7 = .ok σ0 := by decide

-- removeNode_gen / removeNode_missing: the node with three links; an id that is not there
example : GfaMutate.removeNode σ0 "s4" = .ok { σ0 with g := Gfa.removeNode σ0.g "s4" } := removeNode_gen σ0 "s4" (by decide)
example : GfaMutate.removeNode σ0 "zz" = .error .keyError := removeNode_missing σ0 "zz" (by decide)
example : (GfaMutate.removeNode σ0 "s4").toOption.map (fun σ => σ.g.nodes.map (fun n => (n.id, n.neighbors))) =
    some [("s1", ["s2", "s3"]), ("s2", ["s1"]), ("s3", ["s1"]), ("s5", []), ("s6", [])] := by decide

-- lineStep_S / lineStep_L / lineStep_other
def l56 : TLine := lL ⟨"s5", true, "s6", false, 3, ["ab:i:1"]⟩
def seg7 : SegLine := ⟨"s7", "TTT", tags7⟩
example : GfaMutate.readGraphLoop1 false (σ0, [l56]) (sL seg7) =
    match segSpec false σ0 (sL seg7).seg with
    | .error e => .error e
    | .ok σ' => .ok (σ', [l56]) := lineStep_S false σ0 [l56] (sL seg7) rfl
example := lineStep_S true σ0 [l56] (sL seg2) rfl       -- a repeated S line, low_memory
example : GfaMutate.readGraphLoop1 false (σ0, [l56]) l56 = .ok (σ0, [l56] ++ [l56]) := lineStep_L false σ0 [l56] l56 rfl
example : GfaMutate.readGraphLoop1 false (σ0, [l56]) ⟨some 'H', default, default⟩ = .ok (σ0, [l56]) :=
  lineStep_other false σ0 [l56] ⟨some 'H', default, default⟩ (by decide) (by decide)
example : (GfaMutate.readGraphLoop1 false (σ0, [l56]) (sL seg7)).toOption.map (fun r => (r.1.g.nodes.length, r.1.c2n, r.2.length)) =
    some (7, [("chr1", ["s1", "s4", "s2", "s5", "s7"]), ("alt", ["s3"])], 1) := by decide
example : (GfaMutate.readGraphLoop1 true (σ0, [l56]) (sL seg2)).toOption.map (fun r => (r.1.g == σ0.g, r.1.c2n)) =
    some (true, [("chr1", ["s1", "s4", "s2", "s5", "s2"]), ("alt", ["s3"])]) := by decide

-- loop1_gen: the whole file
example : forE lines0 (GfaMutate.initSt, []) (GfaMutate.readGraphLoop1 false) =
    match forE (segsOf lines0) GfaMutate.initSt (segSpec false) with
    | .error e => .error e
    | .ok σ' => .ok (σ', [] ++ linkLinesOf lines0) := loop1_gen false lines0 GfaMutate.initSt []
example : (forE lines0 (GfaMutate.initSt, []) (GfaMutate.readGraphLoop1 false)).toOption.map
    (fun r => (r.1.g.nodes.map (·.id), r.1.contigs, r.2.length)) =
    some (["s1", "s4", "s2", "s3", "s5", "s6"], [("chr1", 0), ("alt", 1)], 6) := by decide

-- edgeStep_gen / loop2_gen / hist_addLink: a new link with a tag, a link towards a node that does not exist
def l1z : TLine := lL ⟨"s1", true, "zz", false, 0, []⟩
example : GfaMutate.readGraphLoop2 σ0 l56 = .ok { σ0 with g := Gaftools.Proofs.Gfa.linkStep σ0.g l56.link } := edgeStep_gen σ0 l56
example : GfaMutate.readGraphLoop2 σ0 l1z = .ok { σ0 with g := Gaftools.Proofs.Gfa.linkStep σ0.g l1z.link } := edgeStep_gen σ0 l1z
example : forE [l56, l1z] σ0 GfaMutate.readGraphLoop2 =
    .ok { σ0 with g := ([l56, l1z].map (·.link)).foldl Gaftools.Proofs.Gfa.linkStep σ0.g } := loop2_gen [l56, l1z] σ0
example : GfaMutate.readGraphLoop2 σ0 l56 = .ok { σ0 with g := Hist.applyOp σ0.g (.addLink l56.link) } := hist_addLink σ0 l56
example : GfaMutate.readGraphLoop2 σ0 l1z = .ok σ0 ∧ GfaMutate.readGraphLoop2 σ0 l56 ≠ .ok σ0 ∧
    (GfaMutate.readGraphLoop2 σ0 l56).toOption.map (fun σ => (σ.g.neighbors "s6", σ.g.edgeTags.length)) = some (["s5"], 6) := by decide

-- segRun_gen
example : forE file0.segs GfaMutate.initSt (segSpec false) =
    match contigRun false file0.segs GfaMutate.initSt.g GfaMutate.initSt.contigs with
    | .error e => .error (excOf e)
    | .ok c =>
      .ok ⟨(file0.segs.foldl (GraphExtra.segStep false) ⟨GfaMutate.initSt.g, GfaMutate.initSt.c2n⟩).g, c,
        (file0.segs.foldl (GraphExtra.segStep false) ⟨GfaMutate.initSt.g, GfaMutate.initSt.c2n⟩).contigToNodes⟩ :=
  segRun_gen false file0.segs GfaMutate.initSt

-- readGraph_gen: into the empty object, and a second file read into an object that already holds the first (low_memory)
def lines1 : List TLine := [sL seg7, l56, sL seg2, lL ⟨"s7", false, "s5", true, 1, []⟩]
example : GfaMutate.readGraph GfaMutate.initSt lines0 false =
    match contigRun false (segsOf lines0) GfaMutate.initSt.g GfaMutate.initSt.contigs with
    | .error e => .error (excOf e)
    | .ok c =>
      let x := (segsOf lines0).foldl (GraphExtra.segStep false) ⟨GfaMutate.initSt.g, GfaMutate.initSt.c2n⟩
      .ok ⟨(linksOf lines0).foldl (fun g l => if g.has l.a && g.has l.b then addEdge g l else g) x.g, c, x.contigToNodes⟩ :=
  readGraph_gen GfaMutate.initSt lines0 false
example := readGraph_gen σ0 lines1 true
example : (GfaMutate.readGraph σ0 lines1 true).toOption.map
    (fun σ => (σ.g.nodes.map (fun n => (n.id, n.seq)), σ.g.neighbors "s5", σ.c2n)) =
    some ([("s1", "ACGT"), ("s4", "CCA"), ("s2", "GG"), ("s3", "T"), ("s5", "AAAA"), ("s6", "C"), ("s7", "")],
      ["s4", "s6", "s7"], [("chr1", ["s1", "s4", "s2", "s5", "s7", "s2"]), ("alt", ["s3"])]) := by decide

-- load_gen / load_ok: the file, the file with low_memory, the file followed by an S line whose rank clashes / is not a number
def linesClash : List TLine := lines0 ++ [sL ⟨"s9", "A", [tg "SN" "Z" "chr1", tg "SR" "i" "1"]⟩, l56]
def linesBadRank : List TLine := lines0 ++ [sL ⟨"s9", "A", [tg "SN" "Z" "chr1", tg "SR" "i" "1.5"]⟩, l56]
example : GfaMutate.load lines0 false =
    match contigRun false (segsOf lines0) Graph.empty [] with
    | .error e => .error (excOf e)
    | .ok c => .ok ⟨Gfa.readGraph (fileOf lines0) false, c, (GraphExtra.readGFA (fileOf lines0) false).contigToNodes⟩ := load_gen lines0 false
example := load_gen lines0 true
example := load_gen linesClash false
example := load_gen linesBadRank false
example : σ0.g = Gfa.readGraph (fileOf lines0) false ∧ (⟨σ0.g, σ0.c2n⟩ : GraphExtra.GFA) = GraphExtra.readGFA (fileOf lines0) false :=
  load_ok lines0 false σ0 load0
example : GfaMutate.load lines0 true ≠ GfaMutate.load lines0 false ∧
    (GfaMutate.load lines0 true).toOption.map (fun σ => σ.g.nodes.map (·.seq)) = some ["", "", "", "", "", ""] ∧
    GfaMutate.load linesClash false = .error .assertionError ∧ GfaMutate.load linesBadRank false = .error .valueError := by decide

-- segSpec_sTok: while the S records are read (two read so far): a record on a new contig, a rank clash, a repeated id
def σS : St := ⟨⟨[nodeOfSeg seg1, nodeOfSeg seg4], []⟩, [("chr1", 0)], [("chr1", ["s1", "s4"])]⟩
def stS : GfaText.SState := ⟨[seg1, seg4], [("chr1", 0)], [("chr1", ["s1", "s4"])]⟩
theorem relS : Rel σS stS := ⟨by decide, by decide, by decide⟩
example : forE [seg1, seg4] GfaMutate.initSt (segSpec false) = .ok σS := by decide
example : match segSpec false σS seg3, GfaText.sTok false stS seg3 with
    | .ok σ', .ok st' => Rel σ' st'
    | .error x, .error e => x = excOf e
    | _, _ => False := segSpec_sTok false σS stS seg3 relS
example := segSpec_sTok true σS stS ⟨"s9", "A", [tg "SN" "Z" "chr1", tg "SR" "i" "1"]⟩ relS
example := segSpec_sTok false σS stS seg1 relS
example : segSpec false σS seg3 = .ok ⟨⟨[nodeOfSeg seg1, nodeOfSeg seg4, nodeOfSeg seg3], []⟩, [("chr1", 0), ("alt", 1)],
      [("chr1", ["s1", "s4"]), ("alt", ["s3"])]⟩ ∧
    GfaText.sTok false stS seg3 = .ok ⟨[seg1, seg4, seg3], [("chr1", 0), ("alt", 1)], [("chr1", ["s1", "s4"]), ("alt", ["s3"])]⟩ ∧
    segSpec true σS ⟨"s9", "A", [tg "SN" "Z" "chr1", tg "SR" "i" "1"]⟩ = .error .assertionError ∧
    GfaText.sTok true stS ⟨"s9", "A", [tg "SN" "Z" "chr1", tg "SR" "i" "1"]⟩ = .error .rankClash ∧
    segSpec false σS seg1 = .ok { σS with c2n := [("chr1", ["s1", "s4", "s1"])] } := by decide

-- contigStep_errors
example : (GfaText.PyErr.rankClash = .badRank ∧ excOf .rankClash = .valueError) ∨ (GfaText.PyErr.rankClash = .rankClash ∧ excOf .rankClash = .assertionError) :=
  contigStep_errors [("chr1", 0)] [tg "SN" "Z" "chr1", tg "SR" "i" "1"] .rankClash (by decide)
example := contigStep_errors [("chr1", 0)] [tg "SN" "Z" "chr1", tg "SR" "i" "one"] .badRank (by decide)

-- hist_addNode / hist_delNode
example : GfaMutate.addNode σ0 "n1" "" [] = .ok { σ0 with g := Hist.applyOp σ0.g (.addNode "n1") } := hist_addNode σ0 "n1"
example : GfaMutate.removeNode σ0 "s4" = .ok { σ0 with g := Hist.applyOp σ0.g (.delNode "s4") } := hist_delNode σ0 "s4" (by decide)
example : GfaMutate.addNode σ0 "n1" "" [] ≠ .ok σ0 ∧ GfaMutate.removeNode σ0 "s4" ≠ .ok σ0 := by decide

-- removeStep_entries: the entry of `s4` towards `s5` (end side), the entry towards `s3` (start side, overlap 2)
example := removeStep_entries σ0 "s4" ("s5", false, 0)
example : GfaMutate.removeNodeLoop1 "s4" σ0 ("s3", true, 2) =
    .ok { σ0 with g := ⟨applyRemove σ0.g.nodes "s4" "s3" 2 (removeEdgeEntries false true), σ0.g.edgeTags⟩ } :=
  (removeStep_entries σ0 "s4" ("s3", true, 2)).1
example : (GfaMutate.removeNodeLoop1 "s4" σ0 ("s3", true, 2)).toOption.map (fun σ => (σ.g.neighbors "s4", σ.g.neighbors "s3")) =
    some (["s2", "s5"], ["s1"]) ∧
    (GfaMutate.removeNodeLoop2 "s4" σ0 ("s5", false, 0)).toOption.map (fun σ => (σ.g.neighbors "s4", σ.g.neighbors "s5")) =
    some (["s2", "s3"], []) := by decide

-- the constructors and derived slots: closed statements
example := TieA20.newNode_gen "s9"
example := newNodeSeqLen_gen "s9"
example := addNodeSeqLen_gen "s7" "TTT" tags7
example := nodeVisited_gen "s7" "TTT" tags7
example := initSt_gen

end A20

/-! ## TieA25 — the helpers of `Model/GraphExtra.lean` -/
section A25
open Gaftools.Gfa Gaftools.View Gaftools.GraphExtra Gaftools.Proofs.GraphExtra Gaftools.Gen Gaftools.TieA25

def n4 : Node := (x0.g.find "s4").getD default
example : n4 = ⟨"s4", "CCA", [("s2", true, 0), ("s3", true, 2)], [("s5", false, 0)], seg4.tags⟩ := by decide

-- nodeNeighbors_gen
example : GraphHelpers.nodeNeighbors n4 = .ok n4.neighbors := nodeNeighbors_gen n4
example : GraphHelpers.nodeNeighbors n4 = .ok ["s2", "s3", "s5"] := by decide

-- nodeInDirection_gen: the three cases of `direction`
example : GraphHelpers.nodeInDirection n4 "s5" 1 = n4.inDirection "s5" 1 := nodeInDirection_gen n4 "s5" 1
example : GraphHelpers.nodeInDirection n4 "s5" 0 = n4.inDirection "s5" 0 := nodeInDirection_gen n4 "s5" 0
example : GraphHelpers.nodeInDirection n4 "s5" 2 = n4.inDirection "s5" 2 := nodeInDirection_gen n4 "s5" 2
example : GraphHelpers.nodeInDirection n4 "s5" 1 = .ok true ∧ GraphHelpers.nodeInDirection n4 "s5" 0 = .ok false ∧
    GraphHelpers.nodeInDirection n4 "s3" 0 = .ok true ∧ GraphHelpers.nodeInDirection n4 "s5" 2 = .error .valueError := by decide

-- nodeChildren_gen
example : GraphHelpers.nodeChildren n4 0 = n4.children 0 := nodeChildren_gen n4 0
example : GraphHelpers.nodeChildren n4 1 = n4.children 1 := nodeChildren_gen n4 1
example : GraphHelpers.nodeChildren n4 (-1) = n4.children (-1) := nodeChildren_gen n4 (-1)
example : GraphHelpers.nodeChildren n4 0 = .ok ["s2", "s3"] ∧ GraphHelpers.nodeChildren n4 1 = .ok ["s5"] ∧
    GraphHelpers.nodeChildren n4 (-1) = .error .valueError := by decide

-- nodeIsEqualTo_gen: the same node with the tags and the start set in another order (equal), with another sequence (equal only in topology)
def n4perm : Node := { n4 with tags := n4.tags.reverse, startAdj := n4.startAdj.reverse }
def n4seq : Node := { n4 with seq := "CCG" }
example : GraphHelpers.nodeIsEqualTo n4 n4perm false = .ok (n4.isEqualTo n4perm false) := nodeIsEqualTo_gen n4 n4perm false
example : GraphHelpers.nodeIsEqualTo n4 n4seq false = .ok (n4.isEqualTo n4seq false) := nodeIsEqualTo_gen n4 n4seq false
example : GraphHelpers.nodeIsEqualTo n4 n4seq true = .ok (n4.isEqualTo n4seq true) := nodeIsEqualTo_gen n4 n4seq true
example : n4 ≠ n4perm ∧ GraphHelpers.nodeIsEqualTo n4 n4perm false = .ok true ∧ GraphHelpers.nodeIsEqualTo n4 n4seq false = .ok false ∧
    GraphHelpers.nodeIsEqualTo n4 n4seq true = .ok true ∧
    GraphHelpers.nodeIsEqualTo n4 { n4 with endAdj := [] } true = .ok false := by decide

-- gfaListIsPath_gen: a path of four nodes, a list that is not a path, a list whose first node is unknown
example : GraphHelpers.gfaListIsPath x0 ["s1", "s2", "s4", "s5"] = listIsPath x0.g ["s1", "s2", "s4", "s5"] := gfaListIsPath_gen x0 _
example : GraphHelpers.gfaListIsPath x0 ["s1", "s2", "s3"] = listIsPath x0.g ["s1", "s2", "s3"] := gfaListIsPath_gen x0 _
example : GraphHelpers.gfaListIsPath x0 ["zz", "s1"] = listIsPath x0.g ["zz", "s1"] := gfaListIsPath_gen x0 _
example : GraphHelpers.gfaListIsPath x0 ["s1", "s2", "s4", "s5"] = .ok true ∧ GraphHelpers.gfaListIsPath x0 ["s1", "s2", "s3"] = .ok false ∧
    GraphHelpers.gfaListIsPath x0 ["zz", "s1"] = .error .keyError ∧ GraphHelpers.gfaListIsPath x0 ["s1", "zz"] = .ok false := by decide

-- gfaReturnGfaPath_gen: forwards, backwards, a list that is not a path, a one-element list, the empty list
example : GraphHelpers.gfaReturnGfaPath x0 ["s1", "s3", "s4", "s5"] = returnGfaPath x0.g ["s1", "s3", "s4", "s5"] := gfaReturnGfaPath_gen x0 _
example : GraphHelpers.gfaReturnGfaPath x0 ["s5", "s4", "s2", "s1"] = returnGfaPath x0.g ["s5", "s4", "s2", "s1"] := gfaReturnGfaPath_gen x0 _
example : GraphHelpers.gfaReturnGfaPath x0 ["s1", "s4"] = returnGfaPath x0.g ["s1", "s4"] := gfaReturnGfaPath_gen x0 _
example : GraphHelpers.gfaReturnGfaPath x0 ["s1"] = returnGfaPath x0.g ["s1"] := gfaReturnGfaPath_gen x0 _
example : GraphHelpers.gfaReturnGfaPath x0 [] = returnGfaPath x0.g [] := gfaReturnGfaPath_gen x0 _
example : GraphHelpers.gfaReturnGfaPath x0 ["s1", "s3", "s4", "s5"] = .ok "s1+,s3+,s4+,s5+" ∧
    GraphHelpers.gfaReturnGfaPath x0 ["s5", "s4", "s2", "s1"] = .ok "s5-,s4-,s2-,s1-" ∧
    GraphHelpers.gfaReturnGfaPath x0 ["s1", "s4"] = .error .valueError ∧
    GraphHelpers.gfaReturnGfaPath x0 ["s1"] = .error .indexError ∧ GraphHelpers.gfaReturnGfaPath x0 ["zz"] = .error .keyError ∧
    GraphHelpers.gfaReturnGfaPath x0 [] = .error .indexError := by decide

-- gfaGetPath_gen: the ids of chr1 are stored as s1 s4 s2 s5 and come back sorted by SO (one SO is written `+9`)
example : GraphHelpers.gfaGetPath x0 "chr1" true = x0.getPath "chr1" true := gfaGetPath_gen x0 "chr1" true
example : GraphHelpers.gfaGetPath x0 "alt" false = x0.getPath "alt" false := gfaGetPath_gen x0 "alt" false
example : GraphHelpers.gfaGetPath x0 "chrUn" true = x0.getPath "chrUn" true := gfaGetPath_gen x0 "chrUn" true
example : GraphHelpers.gfaGetPath x0 "chr1" true = .ok ["s1", "s2", "s4", "s5"] ∧ GraphHelpers.gfaGetPath x0 "alt" false = .ok ["s3"] ∧
    GraphHelpers.gfaGetPath x0 "chrUn" true = .ok [] := by decide
/-- the same graph without the link s2–s4: the sorted ids of chr1 are no path (warning: `[]`, no warning: the list) -/
def xCut : GFA := GraphExtra.readGFA ⟨file0.segs, file0.links.filter (fun l => !(l.a == "s2" && l.b == "s4"))⟩
example : GraphHelpers.gfaGetPath xCut "chr1" true = xCut.getPath "chr1" true := gfaGetPath_gen xCut "chr1" true
example : GraphHelpers.gfaGetPath xCut "chr1" true = .ok [] ∧ GraphHelpers.gfaGetPath xCut "chr1" false = .ok ["s1", "s2", "s4", "s5"] := by decide

-- gfaGetContigLength_gen
example : GraphHelpers.gfaGetContigLength x0 "chr1" true = x0.getContigLength "chr1" true := gfaGetContigLength_gen x0 "chr1" true
example : GraphHelpers.gfaGetContigLength xCut "chr1" true = xCut.getContigLength "chr1" true := gfaGetContigLength_gen xCut "chr1" true
example : GraphHelpers.gfaGetContigLength x0 "chr1" true = .ok 13 ∧ GraphHelpers.gfaGetContigLength x0 "alt" true = .ok 1 ∧
    GraphHelpers.gfaGetContigLength xCut "chr1" true = .error .exit := by decide

-- gfaGraphFromComp_gen: the four nodes of the bubble (one id twice), a list with an unknown id
example : GraphHelpers.gfaGraphFromComp x0 ["s3", "s1", "s2", "s4", "s1"] = x0.graphFromComp ["s3", "s1", "s2", "s4", "s1"] := gfaGraphFromComp_gen x0 _
example : GraphHelpers.gfaGraphFromComp x0 ["s3", "zz"] = x0.graphFromComp ["s3", "zz"] := gfaGraphFromComp_gen x0 _
example : (GraphHelpers.gfaGraphFromComp x0 ["s3", "s1", "s2", "s4", "s1"]).toOption.map
      (fun y => (y.g.nodes.map (fun n => (n.id, n.seq, n.neighbors)), y.g.edgeTags.length, y.contigToNodes.length)) =
    some ([("s3", "T", ["s1", "s4"]), ("s1", "ACGT", ["s2", "s3"]), ("s2", "GG", ["s1", "s4"]), ("s4", "CCA", ["s2", "s3", "s5"])], 0, 0) ∧
    GraphHelpers.gfaGraphFromComp x0 ["s3", "zz"] = .error .attributeError := by decide

-- gfaIsEqualTo_gen: the same file with its S and L lines in reverse order (equal), with other sequences (equal in topology only),
-- without the lonely node (different)
def xRev : GFA := GraphExtra.readGFA ⟨file0.segs.reverse, file0.links.reverse⟩
def xSeq : GFA := GraphExtra.readGFA ⟨file0.segs.map (fun s => { s with seq := "A" }), file0.links⟩
example : GraphHelpers.gfaIsEqualTo x0 xRev false = .ok (x0.isEqualTo xRev false) := gfaIsEqualTo_gen x0 xRev false
example : GraphHelpers.gfaIsEqualTo x0 xSeq false = .ok (x0.isEqualTo xSeq false) := gfaIsEqualTo_gen x0 xSeq false
example : GraphHelpers.gfaIsEqualTo x0 xSeq true = .ok (x0.isEqualTo xSeq true) := gfaIsEqualTo_gen x0 xSeq true
example : GraphHelpers.gfaIsEqualTo x0 x0.removeLonely true = .ok (x0.isEqualTo x0.removeLonely true) := gfaIsEqualTo_gen x0 _ true
example : x0 ≠ xRev ∧ GraphHelpers.gfaIsEqualTo x0 xRev false = .ok true ∧ GraphHelpers.gfaIsEqualTo x0 xSeq false = .ok false ∧
    GraphHelpers.gfaIsEqualTo x0 xSeq true = .ok true ∧ GraphHelpers.gfaIsEqualTo x0 x0.removeLonely true = .ok false ∧
    GraphHelpers.gfaIsEqualTo x0 xCut true = .ok false := by decide

-- gfaRemoveLonelyNodes_gen: `NodupIds` holds for the graph read from the file; `s6` goes, and with `s4` removed first `s5` goes as well
theorem nodup0 : NodupIds x0.g := by unfold NodupIds; decide
example : GraphHelpers.gfaRemoveLonelyNodes x0 = .ok x0.removeLonely := gfaRemoveLonelyNodes_gen x0 nodup0
def x0m4 : GFA := { x0 with g := removeNode x0.g "s4" }
example : GraphHelpers.gfaRemoveLonelyNodes x0m4 = .ok x0m4.removeLonely :=
  gfaRemoveLonelyNodes_gen x0m4 (by unfold NodupIds; decide)
example : (GraphHelpers.gfaRemoveLonelyNodes x0).toOption.map (fun y => y.g.nodes.map (·.id)) = some ["s1", "s4", "s2", "s3", "s5"] ∧
    (GraphHelpers.gfaRemoveLonelyNodes x0m4).toOption.map (fun y => y.g.nodes.map (·.id)) = some ["s1", "s2", "s3"] ∧
    GraphHelpers.gfaRemoveLonelyNodes x0 ≠ .ok x0 := by decide
example := removeLonely_dup_differs

-- callRemoveNode_gen
example : GfaMutate.removeNode ⟨x0.g, [("chr1", 0), ("alt", 1)], x0.contigToNodes⟩ "s4" =
    match GraphHelpers.callRemoveNode x0 "s4" with
    | .error _ => .error .keyError
    | .ok x' => .ok ⟨x'.g, [("chr1", 0), ("alt", 1)], x'.contigToNodes⟩ := callRemoveNode_gen x0 _ "s4"
example := callRemoveNode_gen x0 [("chr1", 0), ("alt", 1)] "zz"
example : GraphHelpers.callRemoveNode x0 "s4" = .ok x0m4 ∧ x0m4 ≠ x0 ∧ GraphHelpers.callRemoveNode x0 "zz" = .error .keyError := by decide

example : "zz" ∉ x0.g.nodes.map (·.id) ∧ PyErr.keyError = .keyError := ⟨by decide, callRemoveNode_error x0 "zz" .keyError (by decide)⟩

-- pySortedBy_gen (helper with a hypothesis on the key function): the ids of chr1 by SO
example := pySortedBy_gen x0.g (tagIntOf x0.g "SO") (fun _ => rfl) ["s1", "s4", "s2", "s5"]
example : GraphHelpers.pySortedBy (tagIntOf x0.g "SO") ["s1", "s4", "s2", "s5"] = .ok ["s1", "s2", "s4", "s5"] ∧
    GraphHelpers.pySortedBy (tagIntOf x0.g "SO") ["s1", "s6"] = .error .keyError := by decide

-- the constructors: closed statements
example := TieA25.newNode_gen "s9"
example := emptyGFA_gen

end A25

end Gaftools.NonVacuousA
