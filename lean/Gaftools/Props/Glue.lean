import Gaftools.Spec.Glue
import Gaftools.Model.ConvText
import Gaftools.Proofs.GfaLemmas
import Gaftools.Proofs.GlueLemmas
/-!
# Glue — the tables `index`/`view` build from the loaded graph are the abstract tables the C01–C05 theorems are stated over,
# and the text layer of paths round-trips

C01/C02 are stated over `Spec.Conv.nodeTbl / refNames / ctgLen / refOf` of the rGFA segments; C03–C05 over `View.infos` and
`View.reference` of the loaded graph.  These theorems connect the two (for every complete rGFA token file), so the
conversion / index theorems apply to what `view.run` and `index.run` actually compute from the file.
-/
namespace Gaftools.Glue
open Gaftools.Gfa Gaftools.View Gaftools.Conv Gaftools.ConvText Gaftools.Spec.Conv Gaftools.Spec.Glue

/-- the node infos of the loaded graph are the rGFA segments, in file order (in low-memory mode too) -/
theorem infos_readGraph (t : GfaFile) (ht : TaggedRGFA t) (lm : Bool) :
    infos (readGraph t lm) = (rsegsOf t).map (fun s => (⟨s.id, s.sn, s.so, s.en, s.sr⟩ : NodeInfo)) :=
  Gaftools.Proofs.Glue.infos_readGraph' t ht lm

theorem nodeTable_eq (t : GfaFile) (ht : TaggedRGFA t) (lm : Bool) (id : String) :
    nodeTable (readGraph t lm) id = nodeTbl (rsegsOf t) id := by
  unfold nodeTable
  rw [Gaftools.Proofs.Glue.infos_readGraph' t ht lm]
  exact Gaftools.Proofs.Glue.nodeTable_map _ id

theorem refContigs_eq (t : GfaFile) (ht : TaggedRGFA t) (lm : Bool) :
    refContigs (readGraph t lm) = refNames (rsegsOf t) := by
  unfold refContigs
  rw [Gaftools.Proofs.Glue.infos_readGraph' t ht lm]
  exact Gaftools.Proofs.Glue.refContigs_map _

theorem reference_eq (t : GfaFile) (ht : TaggedRGFA t) (lm : Bool) (c : String) :
    reference (readGraph t lm) c = refOf (rsegsOf t) c := by
  unfold reference contigNodes
  rw [Gaftools.Proofs.Glue.infos_readGraph' t ht lm]
  exact Gaftools.Proofs.Glue.reference_map _ c

theorem contigLen_eq (t : GfaFile) (ht : TaggedRGFA t) (lm : Bool) (c : String) :
    contigLen (readGraph t lm) c = ctgLen (rsegsOf t) c :=
  Gaftools.Proofs.Glue.contigLen_map _ _ (Gaftools.Proofs.Glue.infos_readGraph' t ht lm) c

/-! ## text layer of paths -/

/-- a node / contig name as it can occur in a path column: non-empty, none of `> < : -`, no blank at its end -/
def plainName (n : String) : Prop :=
  n.toList ≠ [] ∧ (∀ c ∈ n.toList, c ≠ '>' ∧ c ≠ '<' ∧ c ≠ ':' ∧ c ≠ '-') ∧ (∀ c, n.toList.getLast? = some c → Gaftools.Gaf.isWs c = false)

/-- an unstable path prints and reads back as the same steps -/
theorem parse_render_unstable (steps : List (Bool × String)) (h : ∀ s ∈ steps, plainName s.2) :
    parseUnstableSteps (renderUPath steps) = steps := by
  apply Gaftools.Proofs.Glue.parse_render_unstable'
  intro s hs
  obtain ⟨h1, h2, _⟩ := h s hs
  exact ⟨h1, fun c hc => ⟨(h2 c hc).1, (h2 c hc).2.1⟩⟩

/-- a stable interval path prints and reads back as the same items (non-negative bounds) -/
theorem parse_render_ivs (l : List OIv) (h : ∀ x ∈ l, plainName x.1.contig ∧ 0 ≤ x.1.s ∧ 0 ≤ x.1.e) :
    parseStableItems (renderSPath (.ivs l)) = some (l.map (fun x => SItem.iv x.2 x.1.contig x.1.s x.1.e)) := by
  apply Gaftools.Proofs.Glue.parse_render_ivs'
  intro x hx
  obtain ⟨⟨_, h2, _⟩, hs, he⟩ := h x hx
  exact ⟨h2, hs, he⟩

theorem parse_render_bare (c : String) (h : plainName c) :
    parseStableItems (renderSPath (.bare c)) = some [SItem.bare c] :=
  Gaftools.Proofs.Glue.parse_render_bare' c h.1 h.2.1

end Gaftools.Glue
