import Gaftools.Gen.ViewPrep
import Gaftools.Model.Cli
import Gaftools.Props.TieA
import Gaftools.Props.TieA20
import Gaftools.Props.C15Extra
import Gaftools.Props.Glue
import Gaftools.Proofs.ViewLemmas
/-!
# Tie A for `view.run` outside the selection block (C01–C05, `Cli.viewHead`), with `GFA.list_is_path`, `GFA.get_path`,
# `GFA.get_contig_length` and the two whole-file generators of `conversion.py`

`Gen/ViewPrep.lean` is regenerated on every run from `gaftools/cli/view.py`, `gaftools/gfa.py` and `gaftools/conversion.py`,
statement by statement into the exception monad `M = Except Err`:
* `list_is_path` (`forRet` over `range(1, len(node_list))`: both subscripts, the `self.nodes[previous]` lookup, the membership test,
  `continue` / `return False` / `return True`), `get_path` (the `defaultdict` read, the empty test, `sorted(..., key=int(SO))` with the
  key as its own definition `get_path_fun1`, the call of `list_is_path`, the three returns), `get_contig_length` (the call, `sys.exit(1)`,
  the sum of `int(LN)`);
* `unstable_to_stable` / `stable_to_unstable` (what the generators yield, in order);
* `run`: where it prints (`writer`), the loop over the first records (`run_loop1`: `break` at `i == 10`, the assignment at `i == 0`, the
  `assert`), `if format:` with both preparations — the refusal tests on `gaf_format`, `GFA(graph_file=gfa, low_memory=True)`
  (`E.loadGFA true`), the dict comprehension `gfa_nodes` (`run_fun1`: every `gfa_file[id].tags[..][1]` and `int()` in source order),
  the list comprehension `ref_contig`, the loop that fills `contig_len` (`run_loop2`), `defaultdict` + the two nested loops that fill
  `reference` (`run_loop3`, `run_loop4`) —, the guard of the selecting branch, the choice of the index (`index is None`, the default
  path, `os.path.exists`, the refusal), the unpickling (`E.loadIndex`), the rest of that branch as ONE call (`E.selectRest`, tied in
  Gen/ViewSel.lean / Props/TieA15.lean) with the four tables as they stand, and the whole-file branch (three loops that print).
  A name only some paths assign (`reference`) is an `Option` (`none` = unbound; reading it unbound is `UnboundLocalError`).

What is proved (right-hand sides are model functions: `GraphExtra.listIsPath / GFA.getPath / GFA.getContigLength` (C15Extra),
`Cli.viewHead` (Props/Cli.lean), `View.nodeTable / refContigs / contigLen / contigNodes / reference` (C01–C05 through Props/Glue.lean)):
* `list_is_path_gen`, `get_path_gen`, `get_contig_length_gen` — EQUALITIES, no hypothesis (value and exception class).
* `detect_gen` — the loop over the first records = `detectSpec` (first record's format if the next nine agree, else
  `AssertionError`; `None` for an empty file).  No hypothesis.  (`E.detect` = `detect_path_format`, tied by `TieA.isStable_gen_eq_model`.)
* `run_gen` — EQUALITY, no hypothesis: `run` = detection, then `Cli.viewHead` asked for its `--format` part (both refusals with their
  texts, `AssertionError` for a third format), then `tables` (load + the generated table builders), then `Cli.viewHead` asked for its
  index part ("No index found" with its text / the index path), then `E.loadIndex` + `E.selectRest` or `wholeFile`.
  `run_viewHead` restates it against the undivided `Cli.viewHead` (`viewHead_split`).
* `wholeFile_records`, `wholeFile_plain`, `unstable_to_stable_gen`, `stable_to_unstable_gen` — the whole-file branch emits one item per
  record (i-th from i-th, by the conversion `--format` names) / every raw line right-stripped (decoded first for BGZF).
* `gfaNodes_gen` + `gfaNodes_lookup`, `refContig_gen`, `contigLen_gen`, `reference_gen` + `refEntries_model`, bundled in
  `stableTables_loaded` / `unstableTables_loaded` — for the object loaded from a completely tagged rGFA the generated builders end
  normally and their results ARE the model's tables (dictionaries compared by lookup).

Hypotheses of the table theorems (`Loaded lines lm σ`), and why:
* `load : GfaMutate.load lines lm = .ok σ` — `σ` is what `GFA(file, low_memory)` returned (Gen/GfaMutate.lean, tied in Props/TieA20.lean);
* `tagged : TaggedRGFA (fileOf lines)` — unique ids, one tag per name, SN / SO / SR / LN on every S record, `LN` = sequence length: the
  input type of the model's tables (`View.infos` silently skips a node without these tags; the Python raises `KeyError` on it — the
  model cannot represent that input; `Props/Glue.lean` has the same hypothesis);
* `ints : IntReadersAgree …`, `srs : SrReadersAgree …` — Python's `int()` (Model/GraphExtra.lean `pyInt` for SO / LN, Model/TextLayer.lean
  `pyInt` for SR in `add_node`) and the model's `String.toInt?` read the tag values alike (they differ on `+3`, ` 3`, `1_0`; C15Extra's
  `getPath_contigNodes` has the same hypothesis).
`gfaNodes_gen` itself needs only: unique ids, every node fully tagged (`FullyTagged`), the readers agree.

Modelling conventions (fixed text at the head of the generated file): what the fragment calls but does not translate is a field of
`Ext` (record layer, conversions of one record, the loaded files, `os.path.exists`, the selection rest); a `dict` is an association list
in insertion order; the entry a *read* of a `defaultdict` creates is not represented (it reads the same); `sorted(key=…)` computes the
keys left to right and then sorts stably by insertion; logging / timing statements are dropped; the result of `run` is `(writer, items
printed)` when it ends normally (what was printed before an exception is not represented; the generators are consumed eagerly — the
same items in the same order).
-/
set_option linter.unusedSimpArgs false
namespace Gaftools.TieA.ViewPrep
open Gaftools.Gfa Gaftools.Conv Gaftools.View Gaftools.GraphExtra
open Gaftools.Gen.ViewPrep
open Gaftools.Gen.GfaMutate (St ctgGet)

/-! ## the exception monad -/

@[simp] theorem ok_bind {α β : Type} (x : α) (f : α → M β) : (Except.ok x >>= f) = f x := rfl
@[simp] theorem error_bind {α β : Type} (e : Err) (f : α → M β) : ((Except.error e : M α) >>= f) = Except.error e := rfl
@[simp] theorem pure_eq {α : Type} (x : α) : (pure x : M α) = Except.ok x := rfl
@[simp] theorem throw_eq {α : Type} (e : Err) : (throw e : M α) = Except.error e := rfl

@[simp] theorem ok_bind' {α β : Type} (x : α) (f : α → Except PyErr β) : (Except.ok x >>= f) = f x := rfl
@[simp] theorem error_bind' {α β : Type} (e : PyErr) (f : α → Except PyErr β) : ((Except.error e : Except PyErr α) >>= f) = Except.error e := rfl
@[simp] theorem pure_eq' {α : Type} (x : α) : (pure x : Except PyErr α) = Except.ok x := rfl

/-- the exception of Model/GraphExtra.lean as the translation names it (`sys.exit(1)` = `SystemExit(1)`) -/
def errOf : PyErr → Err
  | .valueError => .valueError
  | .indexError => .indexError
  | .keyError => .keyError
  | .attributeError => .attributeError
  | .exit => .systemExit 1

/-- an outcome of the model in the translation's monad -/
def liftE {α : Type} : Except PyErr α → M α
  | .ok v => .ok v
  | .error e => .error (errOf e)

@[simp] theorem liftE_ok {α : Type} (v : α) : liftE (Except.ok v : Except PyErr α) = Except.ok v := rfl
@[simp] theorem liftE_error {α : Type} (e : PyErr) : liftE (Except.error e : Except PyErr α) = Except.error (errOf e) := rfl

theorem liftE_bind {α β : Type} (x : Except PyErr α) (f : α → Except PyErr β) :
    liftE (x >>= f) = (liftE x >>= fun v => liftE (f v)) := by
  cases x <;> rfl

/-! ## `GFA.list_is_path` -/

theorem pyIdx_nat {α : Type} (l : List α) (n : Nat) :
    pyIdx l (n : Int) = (match l[n]? with | some v => Except.ok v | none => Except.error .indexError) := by
  unfold pyIdx
  have h : ¬ ((n : Int) < 0) := by omega
  simp only [h, if_false, Int.toNat_natCast]
  rfl

theorem pyIdx_pred {α : Type} (l : List α) (n : Nat) : pyIdx l (((n + 1 : Nat) : Int) - 1) = pyIdx l (n : Int) := by
  congr 1
  omega

/-- the outcome of the translated loop for an outcome of the model's recursion -/
def pathFlow : Except PyErr Bool → M (Unit ⊕ Bool)
  | .ok true => .ok (.inl ())
  | .ok false => .ok (.inr false)
  | .error e => .error (errOf e)

theorem list_is_path_loop (σ : St) : ∀ (rest pre : List String) (p : String),
    forRet ((List.range rest.length).map (fun k => ((pre.length + 1 + k : Nat) : Int))) ()
        (list_is_path_loop1 σ (pre ++ p :: rest)) = pathFlow (listIsPath σ.g (p :: rest)) := by
  intro rest
  induction rest with
  | nil => intro pre p; rfl
  | cons c rest ih =>
    intro pre p
    rw [List.length_cons, List.range_succ_eq_map, List.map_cons, List.map_map]
    unfold forRet
    have h1 : pyIdx (pre ++ p :: c :: rest) ((pre.length + 1 + 0 : Nat) : Int) = Except.ok c := by
      rw [pyIdx_nat]
      simp
    have h2 : pyIdx (pre ++ p :: c :: rest) (((pre.length + 1 + 0 : Nat) : Int) - 1) = Except.ok p := by
      rw [show (pre.length + 1 + 0 : Nat) = pre.length + 1 from rfl, pyIdx_pred, pyIdx_nat]
      simp
    simp only [list_is_path_loop1, h1, h2, ok_bind, nodesGet, listIsPath]
    cases hf : σ.g.find p with
    | none => simp [pathFlow, errOf]
    | some n =>
      simp only [pure_eq, ok_bind]
      by_cases hc : n.neighbors.contains c = true
      · simp only [hc, if_true, ok_bind]
        have := ih (pre ++ [p]) c
        simp only [List.append_assoc, List.singleton_append, List.length_append, List.length_singleton] at this
        rw [← this]
        congr 1
        apply List.map_congr_left
        intro k _
        simp only [Function.comp]
        congr 1
        omega
      · simp only [hc, Bool.false_eq_true, if_false, ok_bind]
        rfl

theorem pyRange_one (n : Nat) : pyRange (1 : Int) ((n + 1 : Nat) : Int) = (List.range n).map (fun k => ((0 + 1 + k : Nat) : Int)) := by
  unfold pyRange
  have : (((n + 1 : Nat) : Int) - 1).toNat = n := by omega
  rw [this]
  apply List.map_congr_left
  intro k _
  omega

/-- **`GFA.list_is_path`** as translated from the source is `GraphExtra.listIsPath` (same value, same exception) -/
theorem list_is_path_gen (σ : St) (l : List String) : list_is_path σ l = liftE (listIsPath σ.g l) := by
  unfold list_is_path
  cases l with
  | nil => rfl
  | cons p rest =>
    rw [List.length_cons, pyRange_one]
    have := list_is_path_loop σ rest [] p
    simp only [List.length_nil, List.nil_append] at this
    rw [this]
    cases h : listIsPath σ.g (p :: rest) with
    | error e => rfl
    | ok b => cases b <;> rfl

/-! ## `GFA.get_path`, `GFA.get_contig_length` -/

theorem ddGet_c2n (σ : St) (c : String) : ddGet σ.c2n c = (⟨σ.g, σ.c2n⟩ : GFA).contigIds c := by
  unfold ddGet dictGet? GFA.contigIds
  cases σ.c2n.find? (fun e => e.1 == c) <;> rfl

theorem beq_nil_isEmpty (l : List String) : (l == []) = l.isEmpty := by
  cases l <;> rfl

/-- `int(self.nodes[x].tags[name][1])` -/
theorem tagInt_gen (σ : St) (name x : String) :
    (do let t1 ← nodesGet σ x; let t2 ← tagsGet t1.tags name; let t3 ← pyIntOf t2.val; pure t3 : M Int) = liftE (tagIntOf σ.g name x) := by
  unfold nodesGet tagIntOf
  cases σ.g.find x with
  | none => rfl
  | some n =>
    simp only [pure_eq, ok_bind]
    unfold tagsGet tagVal
    cases n.tags.find? (fun t => t.name == name) with
    | none => rfl
    | some t =>
      simp only [pure_eq, ok_bind, Option.map_some]
      unfold pyIntOf
      cases Gaftools.GraphExtra.pyInt t.val <;> rfl

theorem get_path_fun1_gen (σ : St) (x : String) : get_path_fun1 σ x = liftE (tagIntOf σ.g "SO" x) := tagInt_gen σ "SO" x
theorem get_contig_length_fun1_gen (σ : St) (x : String) : get_contig_length_fun1 σ x = liftE (tagIntOf σ.g "LN" x) := tagInt_gen σ "LN" x

theorem mapM_liftE {α β : Type} (f : α → Except PyErr β) (l : List α) : l.mapM (fun x => liftE (f x)) = liftE (l.mapM f) := by
  induction l with
  | nil => rfl
  | cons a l ih =>
    rw [List.mapM_cons, List.mapM_cons, ih]
    cases f a with
    | error e => rfl
    | ok b =>
      cases l.mapM f with
      | error e => rfl
      | ok bs => rfl

theorem insertByKey_eq (x : String × Int) (l : List (String × Int)) :
    Gaftools.Gen.ViewPrep.insertByKey x l = Gaftools.GraphExtra.insertByKey x l := by
  induction l with
  | nil => rfl
  | cons y ys ih => simp only [Gaftools.Gen.ViewPrep.insertByKey, Gaftools.GraphExtra.insertByKey, ih]

theorem sortedByM_gen (g : Graph) (l : List String) :
    sortedByM (fun x => liftE (tagIntOf g "SO" x)) l = liftE ((keyed g l).map (fun ks => (sortByKey ks).map (·.1))) := by
  unfold sortedByM keyed
  have hf : (fun x => (do let k ← liftE (tagIntOf g "SO" x); pure (x, k) : M (String × Int))) =
      fun x => liftE (do let k ← tagIntOf g "SO" x; pure (x, k)) := by
    funext x
    cases tagIntOf g "SO" x <;> rfl
  rw [hf, mapM_liftE]
  cases l.mapM (fun id => (do let k ← tagIntOf g "SO" id; pure (id, k) : Except PyErr (String × Int))) with
  | error e => rfl
  | ok ks =>
    simp only [liftE_ok, ok_bind, pure_eq, Except.map, sortByKey]
    congr 2
    have : (fun acc x => Gaftools.Gen.ViewPrep.insertByKey x acc) = fun (acc : List (String × Int)) x => Gaftools.GraphExtra.insertByKey x acc := by
      funext acc x
      exact insertByKey_eq x acc
    rw [this]

/-- **`GFA.get_path`** as translated from the source is `GraphExtra.GFA.getPath` (same list, same exception) -/
theorem get_path_gen (σ : St) (c : String) (tw : Bool) :
    get_path σ c tw = liftE ((⟨σ.g, σ.c2n⟩ : GFA).getPath c tw) := by
  unfold get_path GFA.getPath
  simp only [ddGet_c2n, beq_nil_isEmpty]
  cases hi : ((⟨σ.g, σ.c2n⟩ : GFA).contigIds c).isEmpty with
  | true => rfl
  | false =>
    simp only [Bool.false_eq_true, if_false]
    have hk : get_path_fun1 σ = fun x => liftE (tagIntOf σ.g "SO" x) := funext (get_path_fun1_gen σ)
    rw [hk, sortedByM_gen]
    cases keyed σ.g ((⟨σ.g, σ.c2n⟩ : GFA).contigIds c) with
    | error e => rfl
    | ok ks =>
      simp only [Except.map, liftE_ok, ok_bind, ok_bind', list_is_path_gen]
      cases listIsPath σ.g ((sortByKey ks).map (·.1)) with
      | error e => simp
      | ok b => cases b <;> cases tw <;> simp

/-- **`GFA.get_contig_length`** as translated from the source is `GraphExtra.GFA.getContigLength` (`sys.exit(1)` = `PyErr.exit`) -/
theorem get_contig_length_gen (σ : St) (c : String) (tw : Bool) :
    get_contig_length σ c tw = liftE ((⟨σ.g, σ.c2n⟩ : GFA).getContigLength c tw) := by
  unfold get_contig_length GFA.getContigLength
  rw [get_path_gen]
  cases (⟨σ.g, σ.c2n⟩ : GFA).getPath c tw with
  | error e => rfl
  | ok p =>
    simp only [liftE_ok, ok_bind, ok_bind']
    cases hp : p.isEmpty with
    | true => simp [errOf]
    | false =>
      simp only [Bool.false_eq_true, if_false]
      have hk : get_contig_length_fun1 σ = fun x => liftE (tagIntOf σ.g "LN" x) := funext (get_contig_length_fun1_gen σ)
      rw [hk, mapM_liftE]
      cases p.mapM (tagIntOf σ.g "LN") with
      | error e => simp
      | ok ls => simp

/-! ## `view.run`: the format of the input -/

/-- what the loop over the first records leaves in `gaf_format`: `None` for a file without records, else what
    `detect_path_format` says of the first record — provided it says the same of the next nine (`AssertionError` otherwise) -/
def detectSpec {Rec : Type} (d : Rec → Bool) (recs : List Rec) : M (Option Bool) :=
  match recs.take 10 with
  | [] => .ok none
  | r :: rs => if rs.all (fun x => d r == d x) then .ok (some (d r)) else .error .assertionError

theorem detect_loop {Rec Out Line Ind : Type} (E : Ext Rec Out Line Ind) (b : Bool) : ∀ (rs : List Rec) (n : Nat), 1 ≤ n → n ≤ 10 →
    forBrk (enumFrom n rs) (some b) (run_loop1 E) =
      if (rs.take (10 - n)).all (fun x => b == E.detect x) then Except.ok (some b) else Except.error .assertionError := by
  intro rs
  induction rs with
  | nil => intro n _ _; simp [enumFrom, forBrk]
  | cons x rs ih =>
    intro n h1 h10
    by_cases h : n = 10
    · subst h
      simp [enumFrom, forBrk, run_loop1]
    · have hlt : n < 10 := by omega
      have hn0 : (n == 0) = false := by simp; omega
      have hn10 : (n == 10) = false := by simp [h]
      have ht : 10 - n = (10 - (n + 1)) + 1 := by omega
      rw [ht, List.take_succ_cons, List.all_cons]
      simp only [enumFrom, forBrk, run_loop1, hn0, hn10, Bool.false_eq_true, if_false, pure_eq, ok_bind, pyAssert]
      by_cases hb : b = E.detect x
      · subst hb
        simp only [beq_self_eq_true, if_true, ok_bind, Bool.true_and]
        exact ih (n + 1) (by omega) (by omega)
      · have hb' : (b == E.detect x) = false := by simpa using hb
        have hb'' : (some b == some (E.detect x)) = false := by simpa using hb
        simp [hb', hb'']

/-- the loop over the first ten records of `run` -/
theorem detect_gen {Rec Out Line Ind : Type} (E : Ext Rec Out Line Ind) :
    forBrk (enumFrom 0 E.recs) none (run_loop1 E) = detectSpec E.detect E.recs := by
  unfold detectSpec
  cases E.recs with
  | nil => rfl
  | cons r rs =>
    simp only [enumFrom, forBrk, run_loop1, List.take_succ_cons]
    simp only [show ((0 : Nat) == 10) = false from rfl, show ((0 : Nat) == 0) = true from rfl, Bool.false_eq_true, if_false, if_true, pure_eq, ok_bind,
      pyAssert, beq_self_eq_true]
    exact detect_loop E (E.detect r) rs 1 (by omega) (by omega)

/-! ## `view.run`: the whole function -/

/-- a loop that appends one computed item per element is `mapM` -/
theorem foldlM_snoc_mapM {α β : Type} (f : α → M β) (l : List α) : ∀ acc : List β,
    l.foldlM (fun out x => do let t ← f x; pure (out ++ [t])) acc = (l.mapM f >>= fun r => pure (acc ++ r)) := by
  induction l with
  | nil => intro acc; simp
  | cons x xs ih =>
    intro acc
    rw [List.foldlM_cons, List.mapM_cons]
    cases f x with
    | error e => rfl
    | ok t =>
      simp only [ok_bind, pure_bind]
      rw [ih]
      cases xs.mapM f with
      | error e => rfl
      | ok r => simp

theorem foldlM_snoc_map {α β : Type} (f : α → β) (l : List α) : ∀ acc : List β,
    l.foldlM (fun out x => (pure (out ++ [f x]) : M (List β))) acc = Except.ok (acc ++ l.map f) := by
  induction l with
  | nil => intro acc; simp
  | cons x xs ih =>
    intro acc
    rw [List.foldlM_cons, pure_bind, ih]
    simp

theorem unstable_to_stable_gen {Rec Out Line Ind : Type} (E : Ext Rec Out Line Ind) (p : String) (nt : NodeTable) (rc : List String)
    (cl : Dict String Int) : unstable_to_stable E p nt rc cl = E.recs.mapM (E.toStable nt rc cl) := by
  unfold unstable_to_stable
  have : unstable_to_stable_loop1 E nt rc cl = fun out x => (do let t ← E.toStable nt rc cl x; pure (out ++ [t])) := rfl
  rw [this, foldlM_snoc_mapM]
  cases E.recs.mapM (E.toStable nt rc cl) <;> simp

theorem stable_to_unstable_gen {Rec Out Line Ind : Type} (E : Ext Rec Out Line Ind) (p : String) (r : RefTable) :
    stable_to_unstable E p r = E.recs.mapM (E.toUnstable r) := by
  unfold stable_to_unstable
  have : stable_to_unstable_loop1 E r = fun out x => (do let t ← E.toUnstable r x; pure (out ++ [t])) := rfl
  rw [this, foldlM_snoc_mapM]
  cases E.recs.mapM (E.toUnstable r) <;> simp

theorem print_loop5 {Out : Type} (l : List Out) : l.foldlM (run_loop5) [] = Except.ok l := by
  have : (run_loop5 : List Out → Out → M (List Out)) = fun out x => pure (out ++ [id x]) := rfl
  rw [this, foldlM_snoc_map]; simp
theorem print_loop6 {Out : Type} (l : List Out) : l.foldlM (run_loop6) [] = Except.ok l := by
  have : (run_loop6 : List Out → Out → M (List Out)) = fun out x => pure (out ++ [id x]) := rfl
  rw [this, foldlM_snoc_map]; simp

/-- one raw line of the input as `run` prints it when nothing is selected and nothing converted -/
def plainLine {Rec Out Line Ind : Type} (E : Ext Rec Out Line Ind) (l : Line) : Out :=
  E.ofText (Gaftools.Gaf.rstrip (if E.gzFlag then E.decodeUtf8 l else E.asText l))

theorem print_loop7 {Rec Out Line Ind : Type} (E : Ext Rec Out Line Ind) (l : List Line) :
    l.foldlM (run_loop7 E) [] = Except.ok (l.map (plainLine E)) := by
  have : run_loop7 E = fun out x => pure (out ++ [plainLine E x]) := by
    funext out x
    unfold run_loop7 plainLine
    cases E.gzFlag <;> rfl
  rw [this, foldlM_snoc_map]; simp

def writerOf : Option String → Writer
  | none => .stdout
  | some p => .file p

abbrev Tables := NodeTable × List String × Dict String Int × Option RefTable

/-- the three tables for `--format stable` from the loaded object, in the order `run` builds them -/
def stableTables (σ : St) : M Tables := do
  let l ← (nodeIds σ).mapM (run_fun1 σ)
  let rc := (dictKeys σ.contigs).filter (fun c => ctgGet σ.contigs c == some (0 : Int))
  let cl ← rc.foldlM (run_loop2 σ) []
  pure (some (dictOfList l), rc, cl, none)

/-- the table for `--format unstable` -/
def unstableTables (σ : St) : M Tables := do
  let r ← (dictKeys σ.contigs).foldlM (run_loop3 σ) []
  pure (none, [], [], some r)

/-- the preparation for `--format` after the format check has passed -/
def tables {Rec Out Line Ind : Type} (E : Ext Rec Out Line Ind) (format : Option String) : M Tables :=
  if format == some "stable" then E.loadGFA true >>= stableTables
  else if Cli.truthy format then E.loadGFA true >>= unstableTables
  else pure (none, [], [], none)

/-- the branch of `run` without `--node` / `--region` -/
def wholeFile {Rec Out Line Ind : Type} (E : Ext Rec Out Line Ind) (format : Option String) (T : Tables) : M (List Out) :=
  if Cli.truthy format then
    if format == some "stable" then E.recs.mapM (E.toStable T.1 T.2.1 T.2.2.1)
    else bound T.2.2.2 >>= fun r => E.recs.mapM (E.toUnstable r)
  else pure (E.rawLines.map (plainLine E))

theorem truthyStr_eq (f : Option String) : truthyStr f = Cli.truthy f := by
  cases f <;> rfl


/-- the case analysis over `--output`, `--node`, `--region`, `--index` and the existence of the default index -/
local macro "vp_emit" E:term "," o:term : tactic =>
  `(tactic| (cases ($o).output <;> by_cases hn : ($o).nodes = [] <;> by_cases hr : ($o).regions = [] <;> cases ($o).index <;>
      cases hpe : Ext.pathExists $E (($o).gaf_path ++ ".gvi") <;>
      simp [hn, hr, hpe, print_loop5, print_loop6, print_loop7, writerOf, bound] <;>
      (try (split <;> simp [print_loop5, print_loop6, print_loop7]))))

/-- **`view.run`**.  The head — the format of the input, the two refusals, the choice of the index and its refusal — is
    `Cli.viewHead` (asked twice: once for the `--format` part, once for the index part, because the graph is loaded and the tables
    are built between the two); the tables are `tables`; without `--node` / `--region` the output is `wholeFile`. -/
theorem run_gen {Rec Out Line Ind : Type} (E : Ext Rec Out Line Ind) (o : Cli.ViewOpts) :
    run E o.gaf_path o.output o.index o.nodes o.regions o.format =
      (detectSpec E.detect E.recs >>= fun fmt =>
        match Cli.viewHead fmt { o with nodes := [], regions := [] } false with
        | .assertionError => Except.error .assertionError
        | .commandLineError m => Except.error (.commandLineError m)
        | .proceed _ =>
          tables E o.format >>= fun T =>
            (match Cli.viewHead none { o with format := none } (E.pathExists (o.gaf_path ++ ".gvi")) with
              | .commandLineError m => Except.error (.commandLineError m)
              | .assertionError => Except.error .assertionError
              | .proceed (some p) => E.loadIndex p >>= fun ind => E.selectRest ind T.1 T.2.1 T.2.2.1 T.2.2.2
              | .proceed none => wholeFile E o.format T) >>= fun out => Except.ok (writerOf o.output, out)) := by
  unfold run
  simp only [detect_gen]
  cases detectSpec E.detect E.recs with
  | error e => cases o.output <;> rfl
  | ok fmt =>
    simp only [ok_bind]
    cases hf : o.format with
    | none =>
      simp [Cli.viewHead, Cli.truthy, truthyStr, tables, wholeFile]
      vp_emit E, o
    | some f =>
      by_cases h0 : f = ""
      · subst h0
        simp [Cli.viewHead, Cli.truthy, truthyStr, tables, wholeFile]
        vp_emit E, o
      · by_cases hs : f = "stable"
        · subst hs
          simp [Cli.viewHead, Cli.truthy, truthyStr, tables, wholeFile]
          by_cases hfm : fmt = some true
          · simp [hfm]; cases o.output <;> rfl
          · simp only [hfm, if_false]
            cases E.loadGFA true with
            | error e => cases o.output <;> rfl
            | ok σ =>
              simp only [ok_bind, stableTables]
              cases (nodeIds σ).mapM (run_fun1 σ) with
              | error e => cases o.output <;> rfl
              | ok l =>
                simp only [ok_bind]
                cases List.foldlM (run_loop2 σ) [] (List.filter (fun contig => ctgGet σ.contigs contig == some 0) (dictKeys σ.contigs)) with
                | error e => cases o.output <;> rfl
                | ok cl =>
                  simp only [ok_bind, pure_eq, unstable_to_stable_gen]
                  vp_emit E, o
        · by_cases hu : f = "unstable"
          · subst hu
            simp [Cli.viewHead, Cli.truthy, truthyStr, tables, wholeFile, pyAssert]
            by_cases hfm : fmt = some false
            · simp [hfm]; cases o.output <;> rfl
            · simp only [hfm, if_false]
              cases E.loadGFA true with
              | error e => cases o.output <;> rfl
              | ok σ =>
                simp only [ok_bind, unstableTables]
                cases List.foldlM (run_loop3 σ) [] (dictKeys σ.contigs) with
                | error e => cases o.output <;> rfl
                | ok r =>
                  simp only [ok_bind, pure_eq, stable_to_unstable_gen, bound]
                  vp_emit E, o
          · simp [Cli.viewHead, Cli.truthy, truthyStr, tables, wholeFile, pyAssert, h0, hs, hu]
            cases o.output <;> rfl

/-! ## the tables of `--format stable` are the model's (`View.nodeTable`, `View.refContigs`, `View.contigLen`) -/

open Gaftools.Proofs.GraphExtra in
/-- `tags[name][1]` when the model's `tagVal` finds the tag -/
theorem tagsGet_of_tagVal {tags : List Tag} {name v : String} (h : tagVal tags name = some v) :
    ∃ t, tagsGet tags name = Except.ok t ∧ t.val = v := by
  unfold tagVal at h
  unfold tagsGet
  cases hf : tags.find? (fun t => t.name == name) with
  | none => rw [hf] at h; cases h
  | some t =>
    rw [hf] at h
    exact ⟨t, rfl, by simpa using h⟩

/-- `int(tags[name][1])` when the model's `tagInt` reads the tag and the two integer readers agree on its value -/
theorem tagRead_of_tagInt {tags : List Tag} {name : String} {k : Int} (hint : ∀ v, tagVal tags name = some v → Gaftools.GraphExtra.pyInt v = v.toInt?)
    (h : tagInt tags name = some k) : ∃ t, tagsGet tags name = Except.ok t ∧ pyIntOf t.val = Except.ok k := by
  unfold tagInt at h
  cases hv : tagVal tags name with
  | none => simp [hv] at h
  | some v =>
    obtain ⟨t, ht, htv⟩ := tagsGet_of_tagVal hv
    refine ⟨t, ht, ?_⟩
    simp only [hv, Option.bind_some] at h
    unfold pyIntOf
    rw [htv, hint v hv, h]
    rfl

open Gaftools.Proofs.GraphExtra in
/-- one item of the comprehension that builds `gfa_nodes` -/
theorem run_fun1_ok (σ : St) (hnd : NodupIds σ.g) (hint : IntReadersAgree σ.g) {n : Node} (hn : n ∈ σ.g.nodes) {i : NodeInfo}
    (hi : nodeInfo n = some i) : run_fun1 σ n.id = Except.ok (i.id, (⟨i.sn, i.so, i.en⟩ : SNode)) := by
  obtain ⟨hid, hsn, hso, hln⟩ := nodeInfo_some hi
  obtain ⟨t1, ht1, hv1⟩ := tagsGet_of_tagVal hsn
  obtain ⟨t2, ht2, hv2⟩ := tagRead_of_tagInt (fun v hv => hint n hn "SO" v hv) hso
  obtain ⟨t3, ht3, hv3⟩ := tagRead_of_tagInt (fun v hv => hint n hn "LN" v hv) hln
  unfold run_fun1
  simp only [getItem, find_of_mem hnd hn, attrOf, pure_eq, ok_bind, ht1, ht2, hv2, ht3, hv3, hv1, hid]
  congr 3
  omega

open Gaftools.Proofs.GraphExtra in
theorem gfaNodes_list (σ : St) (hnd : NodupIds σ.g) (hint : IntReadersAgree σ.g) : ∀ (ns : List Node), (∀ n ∈ ns, n ∈ σ.g.nodes) →
    (∀ n ∈ ns, (nodeInfo n).isSome) →
    (ns.map (·.id)).mapM (run_fun1 σ) = Except.ok ((ns.filterMap nodeInfo).map (fun i => (i.id, (⟨i.sn, i.so, i.en⟩ : SNode)))) := by
  intro ns
  induction ns with
  | nil => intro _ _; rfl
  | cons n ns ih =>
    intro hm hs
    obtain ⟨i, hi⟩ := Option.isSome_iff_exists.mp (hs n (by simp))
    rw [List.map_cons, List.mapM_cons, run_fun1_ok σ hnd hint (hm n (by simp)) hi,
      ih (fun m h => hm m (by simp [h])) (fun m h => hs m (by simp [h])), List.filterMap_cons_some hi]
    rfl

/-- every node of the graph carries `SN`, `SO`, `LN` and `SR` with integer values: the model's `View.infos` skips a node that does
    not, the Python raises `KeyError` / `ValueError` when it builds `gfa_nodes` -/
def FullyTagged (g : Graph) : Prop := ∀ n ∈ g.nodes, (nodeInfo n).isSome

/-- **`gfa_nodes`**: the comprehension yields one item per node, in graph order: `(id, StableNode(SN, SO, SO + LN))` -/
theorem gfaNodes_gen (σ : St) (hnd : Gaftools.Proofs.GraphExtra.NodupIds σ.g) (hint : Gaftools.Proofs.GraphExtra.IntReadersAgree σ.g)
    (hall : FullyTagged σ.g) :
    (nodeIds σ).mapM (run_fun1 σ) = Except.ok ((infos σ.g).map (fun i => (i.id, (⟨i.sn, i.so, i.en⟩ : SNode)))) :=
  gfaNodes_list σ hnd hint σ.g.nodes (fun _ h => h) hall

theorem dictSet_new {κ ν : Type} [BEq κ] [LawfulBEq κ] (d : Dict κ ν) (k : κ) (v : ν) (h : k ∉ d.map (·.1)) : dictSet d k v = d ++ [(k, v)] := by
  unfold dictSet
  have : d.any (fun e => e.1 == k) = false := by
    cases ha : d.any (fun e => e.1 == k) with
    | false => rfl
    | true =>
      obtain ⟨e, he, hk⟩ := List.any_eq_true.mp ha
      exact absurd (List.mem_map.mpr ⟨e, he, by simpa using hk⟩) h
  simp [this]

theorem dictOfList_aux {κ ν : Type} [BEq κ] [LawfulBEq κ] : ∀ (l acc : Dict κ ν), ((acc ++ l).map (·.1)).Nodup →
    l.foldl (fun d kv => dictSet d kv.1 kv.2) acc = acc ++ l := by
  intro l
  induction l with
  | nil => intro acc _; simp
  | cons kv l ih =>
    intro acc h
    have hk : kv.1 ∉ acc.map (·.1) := by
      intro hin
      rw [List.map_append, List.map_cons] at h
      have := (List.nodup_append.mp h).2.2 kv.1 hin kv.1 (by simp)
      exact this rfl
    rw [List.foldl_cons, dictSet_new acc kv.1 kv.2 hk, ih]
    · simp
    · simpa using h

/-- a comprehension with distinct keys is the list of its items -/
theorem dictOfList_nodup {κ ν : Type} [BEq κ] [LawfulBEq κ] (l : Dict κ ν) (h : (l.map (·.1)).Nodup) : dictOfList l = l := by
  unfold dictOfList
  simpa using dictOfList_aux l [] (by simpa using h)

open Gaftools.Proofs.GraphExtra in
theorem infos_ids_nodup (g : Graph) (hnd : NodupIds g) : ((infos g).map (·.id)).Nodup := by
  unfold infos NodupIds at *
  have hsub : (g.nodes.filterMap nodeInfo).map (·.id) = (g.nodes.filterMap (fun n => (nodeInfo n).map (fun _ => n.id))) := by
    rw [List.map_filterMap]
    apply Gaftools.Proofs.Glue.filterMap_congr'
    intro n _
    cases hi : nodeInfo n with
    | none => rfl
    | some i => simp [(nodeInfo_some hi).1]
  rw [hsub]
  have : (g.nodes.filterMap (fun n => (nodeInfo n).map (fun _ => n.id))).Sublist (g.nodes.map (·.id)) := by
    induction g.nodes with
    | nil => exact List.Sublist.slnil
    | cons n ns ih =>
      rw [List.map_cons]
      cases hi : nodeInfo n with
      | none => rw [List.filterMap_cons_none (by simp [hi])]; exact List.Sublist.cons _ ih
      | some i => rw [List.filterMap_cons_some (b := n.id) (by simp [hi])]; exact List.Sublist.cons_cons _ ih
  exact this.nodup hnd

/-- … and looking an id up in the dictionary built from them is **`View.nodeTable`** -/
theorem gfaNodes_lookup (g : Graph) (hnd : Gaftools.Proofs.GraphExtra.NodupIds g) (id : String) :
    dictGet? (dictOfList ((infos g).map (fun i => (i.id, (⟨i.sn, i.so, i.en⟩ : SNode))))) id = nodeTable g id := by
  rw [dictOfList_nodup]
  · unfold dictGet? nodeTable
    rw [List.find?_map]
    have : ((fun x => x.1 == id) ∘ fun (i : NodeInfo) => (i.id, (⟨i.sn, i.so, i.en⟩ : SNode))) = fun i => i.id == id := rfl
    rw [this]
    cases (infos g).find? (fun i => i.id == id) <;> rfl
  · rw [List.map_map]
    exact infos_ids_nodup g hnd

/-! ### `gfa.contigs` of a loaded file -/

/-- the `SN`/`SR` bookkeeping of `add_node` on the pair (contig name, rank) of one S record: a new name is appended with its rank,
    a known one must have the same rank (`none` = the `assert` fails) -/
def pairStep (c : List (String × Int)) (p : String × Int) : Option (List (String × Int)) :=
  match ctgGet c p.1 with
  | none => some (c ++ [p])
  | some r0 => if r0 = p.2 then some c else none

theorem eraseDups_snoc {α} [BEq α] [LawfulBEq α] (l : List α) (x : α) :
    (l ++ [x]).eraseDups = if x ∈ l then l.eraseDups else l.eraseDups ++ [x] := by
  rw [List.eraseDups_append]
  by_cases h : x ∈ l
  · simp [h, List.removeAll]
  · simp [h, List.removeAll, List.eraseDups_cons]

/-- the names of rank 0, in the order of the list -/
def zeroNames (l : List (String × Int)) : List String := (l.filter (·.2 == 0)).map (·.1)

/-- what is known of `contigs` after the pairs `P` have gone through `pairStep` -/
structure PairInv (P c : List (String × Int)) : Prop where
  nodup : (c.map (·.1)).Nodup
  sub : ∀ p ∈ P, p ∈ c
  sup : ∀ e ∈ c, e ∈ P
  zero : zeroNames c = (zeroNames P).eraseDups
  keys : c.map (·.1) = (P.map (·.1)).eraseDups

theorem ctgGet_none {c : List (String × Int)} {k : String} (h : ctgGet c k = none) : k ∉ c.map (·.1) := by
  unfold ctgGet at h
  intro hin
  obtain ⟨e, he, hk⟩ := List.mem_map.mp hin
  cases hf : c.find? (fun e => e.1 == k) with
  | none => exact absurd (by simpa using hk) (by simpa using List.find?_eq_none.mp hf e he)
  | some e' => rw [hf] at h; cases h

theorem ctgGet_some {c : List (String × Int)} {k : String} {r : Int} (h : ctgGet c k = some r) : (k, r) ∈ c := by
  unfold ctgGet at h
  cases hf : c.find? (fun e => e.1 == k) with
  | none => rw [hf] at h; cases h
  | some e =>
    rw [hf] at h
    have hm := List.mem_of_find?_eq_some hf
    have hk := List.find?_some hf
    simp only [beq_iff_eq] at hk
    simp only [Option.map_some, Option.some.injEq] at h
    have : e = (k, r) := by rw [← hk, ← h]
    rw [← this]; exact hm

theorem pairStep_inv {P c c' : List (String × Int)} {p : String × Int} (hI : PairInv P c) (h : pairStep c p = some c') :
    PairInv (P ++ [p]) c' := by
  unfold pairStep at h
  cases hg : ctgGet c p.1 with
  | none =>
    rw [hg] at h
    simp only [Option.some.injEq] at h
    subst h
    have hk := ctgGet_none hg
    have hkP : p.1 ∉ P.map (·.1) := by
      intro hin
      obtain ⟨q, hq, hq1⟩ := List.mem_map.mp hin
      exact hk (List.mem_map.mpr ⟨q, hI.sub q hq, hq1⟩)
    refine ⟨?_, ?_, ?_, ?_, ?_⟩
    · rw [List.map_append, List.nodup_append]
      refine ⟨hI.nodup, by simp, ?_⟩
      intro a ha b hb
      simp only [List.map_cons, List.map_nil, List.mem_singleton] at hb
      subst hb
      rintro rfl
      exact hk ha
    · intro q hq
      rcases List.mem_append.mp hq with hq | hq
      · exact List.mem_append_left _ (hI.sub q hq)
      · exact List.mem_append_right _ hq
    · intro e he
      rcases List.mem_append.mp he with he | he
      · exact List.mem_append_left _ (hI.sup e he)
      · exact List.mem_append_right _ he
    · unfold zeroNames
      rw [List.filter_append, List.filter_append, List.map_append, List.map_append]
      by_cases h0 : p.2 = 0
      · have hf : [p].filter (fun x => x.2 == 0) = [p] := by simp [h0]
        rw [hf, List.map_singleton, eraseDups_snoc]
        have : p.1 ∉ (P.filter (fun x => x.2 == 0)).map (·.1) := by
          intro hin
          obtain ⟨q, hq, hq1⟩ := List.mem_map.mp hin
          exact hkP (List.mem_map.mpr ⟨q, (List.mem_filter.mp hq).1, hq1⟩)
        rw [if_neg this]
        have := hI.zero
        unfold zeroNames at this
        rw [this]
      · have hf : [p].filter (fun x => x.2 == 0) = [] := by simp [h0]
        rw [hf]
        simpa [zeroNames] using hI.zero
    · rw [List.map_append, List.map_append, List.map_singleton, eraseDups_snoc, if_neg hkP, hI.keys]
  | some r0 =>
    rw [hg] at h
    by_cases hr : r0 = p.2
    · simp only [hr, if_true, Option.some.injEq] at h
      subst h
      have hp : p ∈ c := by
        have := ctgGet_some hg
        rw [hr] at this
        exact this
      have hpP : p ∈ P := hI.sup p hp
      refine ⟨hI.nodup, ?_, ?_, ?_, ?_⟩
      · intro q hq
        rcases List.mem_append.mp hq with hq | hq
        · exact hI.sub q hq
        · simp only [List.mem_singleton] at hq; subst hq; exact hp
      · intro e he
        exact List.mem_append_left _ (hI.sup e he)
      · unfold zeroNames
        rw [List.filter_append, List.map_append]
        by_cases h0 : p.2 = 0
        · have hf : [p].filter (fun x => x.2 == 0) = [p] := by simp [h0]
          rw [hf, List.map_singleton, eraseDups_snoc]
          have : p.1 ∈ (P.filter (fun x => x.2 == 0)).map (·.1) :=
            List.mem_map.mpr ⟨p, List.mem_filter.mpr ⟨hpP, by simp [h0]⟩, rfl⟩
          rw [if_pos this]
          exact hI.zero
        · have hf : [p].filter (fun x => x.2 == 0) = [] := by simp [h0]
          rw [hf]
          simpa [zeroNames] using hI.zero
      · rw [List.map_append, List.map_singleton, eraseDups_snoc, if_pos (List.mem_map.mpr ⟨p, hpP, rfl⟩)]
        exact hI.keys
    · simp [hr] at h

theorem pairRun_inv : ∀ (pairs P c c' : List (String × Int)), PairInv P c → pairs.foldlM pairStep c = some c' → PairInv (P ++ pairs) c' := by
  intro pairs
  induction pairs with
  | nil =>
    intro P c c' hI h
    simp only [List.foldlM_nil, Option.pure_def, Option.some.injEq] at h
    subst h
    simpa using hI
  | cons p pairs ih =>
    intro P c c' hI h
    rw [List.foldlM_cons] at h
    cases hs : pairStep c p with
    | none => rw [hs] at h; cases h
    | some c1 =>
      rw [hs] at h
      have := ih (P ++ [p]) c1 c' (pairStep_inv hI hs) h
      simpa using this

theorem pairInv_nil : PairInv [] [] := ⟨by simp, by simp, by simp, rfl, rfl⟩

theorem find?_nodup_fst {ν : Type} : ∀ (c : List (String × ν)), (c.map (·.1)).Nodup → ∀ e ∈ c, c.find? (fun x => x.1 == e.1) = some e := by
  intro c
  induction c with
  | nil => intro _ e he; cases he
  | cons a c ih =>
    intro h e he
    rw [List.map_cons, List.nodup_cons] at h
    rcases List.mem_cons.mp he with rfl | he'
    · simp
    · have hne : ¬ (a.1 = e.1) := by
        intro heq
        exact h.1 (heq ▸ List.mem_map.mpr ⟨e, he', rfl⟩)
      rw [List.find?_cons_of_neg (by simpa using hne)]
      exact ih h.2 e he'

/-- with distinct keys, the keys whose value is 0 are the names of the pairs of rank 0 -/
theorem zeroKeys_eq (c : List (String × Int)) (h : (c.map (·.1)).Nodup) :
    (dictKeys c).filter (fun k => ctgGet c k == some (0 : Int)) = zeroNames c := by
  unfold dictKeys zeroNames
  rw [List.filter_map]
  congr 1
  apply List.filter_congr
  intro e he
  have : ctgGet c e.1 = some e.2 := by
    unfold ctgGet
    have := find?_nodup_fst c h e he
    rw [this]; rfl
  simp [this]

open Gaftools.Spec.Glue Gaftools.Spec.Conv in
theorem rsegOf_parts {s : SegLine} {r : RSeg} (h : rsegOf s = some r) :
    tagVal s.tags "SN" = some r.sn ∧ tagInt s.tags "SR" = some r.sr := by
  unfold rsegOf at h
  cases h1 : tagVal s.tags "SN" with
  | none => simp [h1] at h
  | some sn =>
    cases h2 : tagInt s.tags "SO" with
    | none => simp [h1, h2] at h
    | some so =>
      cases h3 : tagInt s.tags "SR" with
      | none => simp [h1, h2, h3] at h
      | some sr =>
        simp [h1, h2, h3] at h
        subst h
        exact ⟨rfl, rfl⟩

/-- the reading of `SR` by `int()` in `add_node` (Model/TextLayer.lean `pyInt`) agrees with the reading the model's `View.nodeInfo`
    uses (`String.toInt?`) on the values of the file (they differ on `+3`, ` 3`, `1_0`, which an `SR:i:` field of an rGFA never is) -/
def SrReadersAgree (segs : List SegLine) : Prop :=
  ∀ s ∈ segs, ∀ v, tagVal s.tags "SR" = some v → Gaftools.TextLayer.pyInt v.toList = v.toInt?

open Gaftools.Spec.Glue Gaftools.Spec.Conv Gaftools.GfaText in
/-- `contigs` after one S record with a new id, SN and SR -/
theorem contigStep_pair (c : List (String × Int)) (s : SegLine) (r : RSeg) (hr : rsegOf s = some r)
    (hn : (s.tags.map (·.name)).Nodup) (hsr : ∀ v, tagVal s.tags "SR" = some v → Gaftools.TextLayer.pyInt v.toList = v.toInt?) :
    (match contigStep c (dictOf s.tags) with | .ok c' => some c' | .error _ => none) = pairStep c (r.sn, r.sr) := by
  have hd : dictOf s.tags = s.tags := by
    have := Gaftools.Proofs.Write.foldl_tagSet_of_nodup s.tags [] (by simpa [Gaftools.Proofs.Write.names] using hn)
    simpa [dictOf] using this
  obtain ⟨hsn, hsrr⟩ := rsegOf_parts hr
  rw [hd]
  unfold contigStep Gaftools.GfaText.dictGet
  unfold tagVal at hsn
  cases h1 : s.tags.find? (fun t => t.name == "SN") with
  | none => rw [h1] at hsn; cases hsn
  | some t1 =>
    rw [h1] at hsn
    simp only [Option.map_some, Option.some.injEq] at hsn
    unfold tagInt at hsrr
    cases hv : tagVal s.tags "SR" with
    | none => simp [hv] at hsrr
    | some v =>
      have hpy := hsr v hv
      simp only [hv, Option.bind_some] at hsrr
      unfold tagVal at hv
      cases h2 : s.tags.find? (fun t => t.name == "SR") with
      | none => rw [h2] at hv; cases hv
      | some t2 =>
        rw [h2] at hv
        simp only [Option.map_some, Option.some.injEq] at hv
        simp only [hv, hpy, hsrr, hsn, pairStep]
        have : rankGet c r.sn = ctgGet c r.sn := rfl
        rw [this]
        cases ctgGet c r.sn with
        | none => rfl
        | some r0 => by_cases h : r0 = r.sr <;> simp [h]

open Gaftools.Spec.Glue Gaftools.Spec.Conv in
/-- `contigs` after the S records of a completely tagged file: the pairs (SN, SR) of the records through `pairStep`, in file order -/
theorem contigRun_pairs (lm : Bool) : ∀ (segs : List SegLine) (g : Graph) (c c' : List (String × Int)),
    (segs.map (·.id)).Nodup → (∀ s ∈ segs, g.has s.id = false) → (∀ s ∈ segs, (s.tags.map (·.name)).Nodup) →
    (∀ s ∈ segs, (rsegOf s).isSome) → SrReadersAgree segs →
    Gaftools.TieA20.contigRun lm segs g c = .ok c' →
    ((segs.filterMap rsegOf).map (fun r => (r.sn, r.sr))).foldlM pairStep c = some c' := by
  intro segs
  induction segs with
  | nil =>
    intro g c c' _ _ _ _ _ h
    simp only [Gaftools.TieA20.contigRun, Except.ok.injEq] at h
    subst h; rfl
  | cons s segs ih =>
    intro g c c' hnd hh hnames hsome hsr h
    obtain ⟨r, hr⟩ := Option.isSome_iff_exists.mp (hsome s (by simp))
    rw [List.filterMap_cons_some hr, List.map_cons, List.foldlM_cons]
    have hstep := contigStep_pair c s r hr (hnames s (by simp)) (hsr s (by simp))
    simp only [Gaftools.TieA20.contigRun, hh s (by simp), Bool.false_eq_true, if_false] at h
    cases hc : GfaText.contigStep c (GfaText.dictOf s.tags) with
    | error e => rw [hc] at h; cases h
    | ok c1 =>
      rw [hc] at h hstep
      simp only at h hstep
      rw [← hstep]
      rw [List.map_cons, List.nodup_cons] at hnd
      refine ih (Gfa.addNode g s lm) c1 c' hnd.2 ?_ (fun x hx => hnames x (by simp [hx])) (fun x hx => hsome x (by simp [hx]))
        (fun x hx => hsr x (by simp [hx])) h
      intro x hx
      rw [Gaftools.Proofs.Gfa.has_addNode, hh x (by simp [hx])]
      have : ¬ (s.id = x.id) := fun heq => hnd.1 (heq ▸ List.mem_map.mpr ⟨x, hx, rfl⟩)
      simp [this]

/-! ### the loaded object of a completely tagged rGFA -/

open Gaftools.Spec.Glue Gaftools.Spec.Conv Gaftools.TieA20 Gaftools.Proofs.GraphExtra in
/-- `GFA(graph_file=gfa, low_memory=lm)` returned `σ` for the file `lines`, whose S records form a completely tagged rGFA
    (`Spec.Glue.TaggedRGFA`: unique ids, one tag per name, SN / SO / SR / LN on every S record, `LN` = sequence length — the input the
    model's tables `View.infos` … are about), and the integer readers agree on the values of its tags -/
structure Loaded (lines : List Gaftools.Gen.GfaMutate.TLine) (lm : Bool) (σ : St) : Prop where
  load : Gaftools.Gen.GfaMutate.load lines lm = .ok σ
  tagged : TaggedRGFA (fileOf lines)
  ints : IntReadersAgree (readGraph (fileOf lines) lm)
  srs : SrReadersAgree (fileOf lines).segs

open Gaftools.Spec.Glue Gaftools.Spec.Conv Gaftools.TieA20 Gaftools.Proofs.GraphExtra in
theorem Loaded.parts {lines : List Gaftools.Gen.GfaMutate.TLine} {lm : Bool} {σ : St} (h : Loaded lines lm σ) :
    σ.g = readGraph (fileOf lines) lm ∧ (⟨σ.g, σ.c2n⟩ : GFA) = readGFA (fileOf lines) lm ∧
      contigRun lm (fileOf lines).segs Graph.empty [] = .ok σ.contigs := by
  have hl := h.load
  have hok := load_ok lines lm σ hl
  refine ⟨hok.1, hok.2, ?_⟩
  rw [load_gen] at hl
  show contigRun lm (segsOf lines) Graph.empty [] = .ok σ.contigs
  cases hc : contigRun lm (segsOf lines) Graph.empty [] with
  | error e => rw [hc] at hl; cases hl
  | ok c =>
    rw [hc] at hl
    simp only [Except.ok.injEq] at hl
    rw [← hl]

open Gaftools.Spec.Glue Gaftools.Spec.Conv Gaftools.Proofs.Glue Gaftools.Proofs.Write in
theorem fullyTagged_readGraph (t : GfaFile) (ht : TaggedRGFA t) (lm : Bool) : FullyTagged (readGraph t lm) := by
  intro n hn
  have hc := core_readGraph t lm ht.ids
  have hmem : core n ∈ (readGraph t lm).nodes.map core := List.mem_map.mpr ⟨n, hn, rfl⟩
  rw [hc] at hmem
  obtain ⟨s, hs, hcore⟩ := List.mem_map.mp hmem
  have hf : s.tags.foldl tagSet [] = s.tags := by
    have := foldl_tagSet_of_nodup s.tags [] (by simpa [names] using ht.names s hs)
    simpa using this
  rw [nodeInfo_eq_core, ← hcore, hf, nodeInfoC_seg s _ (ht.ln s hs)]
  have := ht.tagged s hs
  cases h : rsegOf s with
  | none => rw [h] at this; cases this
  | some r => rfl

open Gaftools.Spec.Glue Gaftools.Spec.Conv Gaftools.TieA20 Gaftools.Proofs.GraphExtra in
theorem Loaded.graph {lines : List Gaftools.Gen.GfaMutate.TLine} {lm : Bool} {σ : St} (h : Loaded lines lm σ) :
    NodupIds σ.g ∧ IntReadersAgree σ.g ∧ FullyTagged σ.g := by
  rw [h.parts.1]
  exact ⟨Gaftools.Proofs.GraphExtra.nodupIds_readGraph _ _, h.ints, fullyTagged_readGraph _ h.tagged lm⟩

open Gaftools.Spec.Glue Gaftools.Spec.Conv Gaftools.TieA20 in
theorem Loaded.contigs {lines : List Gaftools.Gen.GfaMutate.TLine} {lm : Bool} {σ : St} (h : Loaded lines lm σ) :
    PairInv ((rsegsOf (fileOf lines)).map (fun r => (r.sn, r.sr))) σ.contigs := by
  have hrun := contigRun_pairs lm (fileOf lines).segs Graph.empty [] σ.contigs h.tagged.ids (fun _ _ => rfl) h.tagged.names h.tagged.tagged
    h.srs h.parts.2.2
  have := pairRun_inv _ [] [] σ.contigs pairInv_nil hrun
  simpa [rsegsOf] using this

open Gaftools.Spec.Glue Gaftools.Spec.Conv Gaftools.TieA20 in
/-- **`ref_contig`** = `[contig for contig in gfa_file.contigs if gfa_file.contigs[contig] == 0]` is `View.refContigs` -/
theorem refContig_gen {lines : List Gaftools.Gen.GfaMutate.TLine} {lm : Bool} {σ : St} (h : Loaded lines lm σ) :
    (dictKeys σ.contigs).filter (fun c => ctgGet σ.contigs c == some (0 : Int)) = refContigs σ.g := by
  have hI := h.contigs
  rw [zeroKeys_eq _ hI.nodup, hI.zero]
  unfold refContigs
  rw [h.parts.1, Gaftools.Glue.infos_readGraph _ h.tagged lm]
  congr 1
  unfold zeroNames
  rw [List.filter_map, List.filter_map, List.map_map, List.map_map]
  rfl

/-! ### `contig_len` -/

theorem foldlM_dictSet_ok {ν : Type} (f : String → M ν) (v : String → ν) : ∀ (ks : List String) (acc : Dict String ν),
    (acc.map (·.1) ++ ks).Nodup → (∀ k ∈ ks, f k = Except.ok (v k)) →
    ks.foldlM (fun d k => do let t ← f k; pure (dictSet d k t)) acc = Except.ok (acc ++ ks.map (fun k => (k, v k))) := by
  intro ks
  induction ks with
  | nil => intro acc _ _; simp
  | cons k ks ih =>
    intro acc hn hf
    have hk : k ∉ acc.map (·.1) := by
      intro hin
      exact (List.nodup_append.mp hn).2.2 k hin k (by simp) rfl
    rw [List.foldlM_cons, hf k (by simp)]
    simp only [ok_bind, pure_bind, dictSet_new acc k (v k) hk]
    rw [ih (acc ++ [(k, v k)]) (by simpa [List.map_append] using hn) (fun x hx => hf x (by simp [hx]))]
    simp

theorem dictGet?_map_keys {ν : Type} (v : String → ν) (c : String) : ∀ (ks : List String),
    dictGet? (ks.map (fun k => (k, v k))) c = if c ∈ ks then some (v c) else none := by
  intro ks
  induction ks with
  | nil => rfl
  | cons k ks ih =>
    unfold dictGet? at ih ⊢
    rw [List.map_cons, List.find?_cons]
    by_cases h : k = c
    · subst h; simp
    · have : ((k, v k).1 == c) = false := by simpa using h
      rw [this]
      simp only [ih]
      have hc : ¬ c = k := fun e => h e.symm
      simp [hc]

open Gaftools.Proofs.GraphExtra in
theorem contigLen_isSome_of_mem (g : Graph) (c : String) (h : c ∈ refContigs g) : (contigLen g c).isSome := by
  unfold refContigs at h
  rw [List.mem_eraseDups] at h
  obtain ⟨i, hi, hc⟩ := List.mem_map.mp h
  have hne : (infos g).filter (fun i => i.sn == c) ≠ [] := by
    intro he
    have : i ∈ (infos g).filter (fun i => i.sn == c) := List.mem_filter.mpr ⟨(List.mem_filter.mp hi).1, by simp [hc]⟩
    rw [he] at this; cases this
  have := Gaftools.Proofs.Glue.foldl_insertBySo_ne_nil _ [] (Or.inl hne)
  unfold contigLen contigNodes
  cases hN : ((infos g).filter (fun i => i.sn == c)).foldl (fun acc x => insertBySo x acc) [] with
  | nil => exact absurd hN this
  | cons a N => rfl

open Gaftools.Spec.Glue Gaftools.TieA20 in
/-- `gfa_file.get_contig_length(contig, throw_warning=False)` of the loaded object is `View.contigLen` (`none` = `sys.exit(1)`) -/
theorem contigLength_loaded {lines : List Gaftools.Gen.GfaMutate.TLine} {lm : Bool} {σ : St} (h : Loaded lines lm σ) (c : String) :
    get_contig_length σ c false = (match contigLen σ.g c with | none => Except.error (.systemExit 1) | some v => Except.ok v) := by
  rw [get_contig_length_gen, h.parts.2.1, Gaftools.C15Extra.contigLength_contigLen _ lm h.tagged h.ints c, h.parts.1]
  cases contigLen (readGraph (fileOf lines) lm) c <;> rfl

/-- **`contig_len`**: the loop over `ref_contig` ends normally, and looking a contig up in the dictionary it leaves is
    `View.contigLen` (for a rank-0 contig; the others have no entry) -/
theorem contigLen_gen {lines : List Gaftools.Gen.GfaMutate.TLine} {lm : Bool} {σ : St} (h : Loaded lines lm σ) :
    ∃ cl, (refContigs σ.g).foldlM (run_loop2 σ) [] = Except.ok cl ∧
      ∀ c, dictGet? cl c = if c ∈ refContigs σ.g then contigLen σ.g c else none := by
  have hf : run_loop2 σ = fun d k => (do let t ← get_contig_length σ k false; pure (dictSet d k t)) := rfl
  refine ⟨(refContigs σ.g).map (fun k => (k, (contigLen σ.g k).getD 0)), ?_, ?_⟩
  · rw [hf, foldlM_dictSet_ok (fun k => get_contig_length σ k false) (fun k => (contigLen σ.g k).getD 0) (refContigs σ.g) []]
    · simp
    · simp only [List.map_nil, List.nil_append]
      exact Gaftools.Proofs.View.nodup_eraseDups _
    · intro k hk
      rw [contigLength_loaded h k]
      have := contigLen_isSome_of_mem σ.g k hk
      cases hc : contigLen σ.g k with
      | none => rw [hc] at this; cases this
      | some v => rfl
  · intro c
    rw [dictGet?_map_keys]
    by_cases hc : c ∈ refContigs σ.g
    · simp only [hc, if_true]
      have := contigLen_isSome_of_mem σ.g c hc
      cases hv : contigLen σ.g c with
      | none => rw [hv] at this; cases this
      | some v => rfl
    · simp [hc]

/-! ## the table of `--format unstable` is the model's (`View.reference`) -/

theorem dictGet?_ddAppend {ν : Type} (d : Dict String (List ν)) (c' : String) (x : ν) (c : String) :
    dictGet? (ddAppend d c' x) c = if c' = c then some ((dictGet? d c).getD [] ++ [x]) else dictGet? d c := by
  unfold ddAppend dictGet?
  by_cases hany : d.any (·.1 == c') = true
  · simp only [hany, if_true, List.find?_map]
    have hfun : ((fun e : String × List ν => e.1 == c) ∘ fun e => if e.1 == c' then (e.1, e.2 ++ [x]) else e) =
        (fun e => e.1 == c) := by
      funext e; simp only [Function.comp]; split <;> rfl
    rw [hfun]
    cases hf : d.find? (·.1 == c) with
    | none =>
      by_cases hcc : c' = c
      · subst hcc
        obtain ⟨e, he, hec⟩ := List.any_eq_true.mp hany
        exact absurd hec (by simpa using List.find?_eq_none.mp hf e he)
      · simp [hcc]
    | some e =>
      have hec : e.1 = c := by simpa using List.find?_some hf
      by_cases hcc : c' = c
      · subst hcc; simp [hec]
      · have : ¬ e.1 = c' := by rw [hec]; exact fun h => hcc h.symm
        simp [hcc, this]
  · have hnone : ∀ e ∈ d, ¬ e.1 = c' := by
      intro e he hec; exact hany (List.any_eq_true.mpr ⟨e, he, by simpa using hec⟩)
    rw [if_neg hany]
    simp only [List.find?_append]
    by_cases hcc : c' = c
    · subst hcc
      have h1 : d.find? (·.1 == c') = none := List.find?_eq_none.mpr (fun e he => by simpa using hnone e he)
      have h2 : [(c', [x])].find? (fun e : String × List ν => e.1 == c') = some (c', [x]) := by simp
      rw [h1, h2]; simp
    · have h2 : [(c', [x])].find? (fun e : String × List ν => e.1 == c) = none := by simp [hcc]
      rw [h2, Option.or_none]; simp [hcc]

theorem ddGet_ddAppend {ν : Type} (d : Dict String (List ν)) (c' : String) (x : ν) (c : String) :
    ddGet (ddAppend d c' x) c = if c' = c then ddGet d c ++ [x] else ddGet d c := by
  unfold ddGet
  rw [dictGet?_ddAppend]
  by_cases h : c' = c <;> simp [h]

theorem ddGet_foldl_ddAppend {ν : Type} (c' c : String) : ∀ (xs : List ν) (d : Dict String (List ν)),
    ddGet (xs.foldl (fun d x => ddAppend d c' x) d) c = if c' = c then ddGet d c ++ xs else ddGet d c := by
  intro xs
  induction xs with
  | nil => intro d; by_cases h : c' = c <;> simp [h]
  | cons x xs ih =>
    intro d
    rw [List.foldl_cons, ih, ddGet_ddAppend]
    by_cases h : c' = c <;> simp [h]

theorem inner_loop (σ : St) (c : String) : ∀ (path : List String) (d : RefTable),
    path.foldlM (run_loop4 σ c) d = Except.ok ((path.map (getItem σ)).foldl (fun d x => ddAppend d c x) d) := by
  intro path
  induction path with
  | nil => intro d; rfl
  | cons p path ih =>
    intro d
    rw [List.foldlM_cons]
    show (Except.ok (ddAppend d c (getItem σ p)) >>= fun s => path.foldlM (run_loop4 σ c) s) = _
    rw [ok_bind, ih]
    rfl

open Gaftools.Spec.Glue Gaftools.TieA20 in
/-- `gfa_file.get_path(contig, throw_warning=False)` of the loaded object is the id column of `View.contigNodes` -/
theorem getPath_loaded {lines : List Gaftools.Gen.GfaMutate.TLine} {lm : Bool} {σ : St} (h : Loaded lines lm σ) (c : String) :
    get_path σ c false = Except.ok ((contigNodes σ.g c).map (·.id)) := by
  rw [get_path_gen, h.parts.2.1, Gaftools.C15Extra.getPath_contigNodes _ lm h.tagged h.ints c, h.parts.1]
  rfl

/-- the node objects `run` files under a contig: `gfa_file[id]` for the ids of `View.contigNodes`, in that order -/
def refEntries (σ : St) (c : String) : List (Option Node) := (contigNodes σ.g c).map (fun i => getItem σ i.id)

theorem outer_loop {lines : List Gaftools.Gen.GfaMutate.TLine} {lm : Bool} {σ : St} (h : Loaded lines lm σ) : ∀ (ks : List String), ks.Nodup →
    ∀ d : RefTable, ∃ d', ks.foldlM (run_loop3 σ) d = Except.ok d' ∧
      ∀ c, ddGet d' c = ddGet d c ++ (if c ∈ ks then refEntries σ c else []) := by
  intro ks
  induction ks with
  | nil => intro _ d; exact ⟨d, rfl, by simp⟩
  | cons k ks ih =>
    intro hn d
    rw [List.nodup_cons] at hn
    have hstep : run_loop3 σ d k = Except.ok (((contigNodes σ.g k).map (fun i => getItem σ i.id)).foldl (fun d x => ddAppend d k x) d) := by
      unfold run_loop3
      simp only [getPath_loaded h k, ok_bind, inner_loop, pure_eq, List.map_map]
      rfl
    obtain ⟨d', hd', hget⟩ := ih hn.2 (((contigNodes σ.g k).map (fun i => getItem σ i.id)).foldl (fun d x => ddAppend d k x) d)
    refine ⟨d', ?_, ?_⟩
    · rw [List.foldlM_cons, hstep]
      exact hd'
    · intro c
      rw [hget c, ddGet_foldl_ddAppend]
      by_cases hkc : k = c
      · subst hkc
        simp [hn.1, refEntries]
      · have : ¬ c = k := fun e => hkc e.symm
        simp [hkc, this]

open Gaftools.Spec.Glue Gaftools.Spec.Conv Gaftools.TieA20 in
/-- a contig that is not a key of `gfa.contigs` has no node -/
theorem contigNodes_nil_of_not_key {lines : List Gaftools.Gen.GfaMutate.TLine} {lm : Bool} {σ : St} (h : Loaded lines lm σ) (c : String)
    (hc : c ∉ dictKeys σ.contigs) : contigNodes σ.g c = [] := by
  have hk := h.contigs.keys
  have hf : (infos σ.g).filter (fun i => i.sn == c) = [] := by
    rw [List.filter_eq_nil_iff]
    intro i hi hsn
    apply hc
    unfold dictKeys
    rw [hk, List.mem_eraseDups, List.map_map]
    rw [h.parts.1, Gaftools.Glue.infos_readGraph _ h.tagged lm] at hi
    obtain ⟨r, hr, hri⟩ := List.mem_map.mp hi
    refine List.mem_map.mpr ⟨r, hr, ?_⟩
    have : i.sn = c := by simpa using hsn
    rw [← this, ← hri]
    rfl
  unfold contigNodes
  rw [hf]
  rfl

/-- **`reference`**: the two nested loops end normally, and the entry of every contig name (an absent key of the
    `defaultdict` reads as `[]`) is the list of the node objects of `View.contigNodes`, in that order -/
theorem reference_gen {lines : List Gaftools.Gen.GfaMutate.TLine} {lm : Bool} {σ : St} (h : Loaded lines lm σ) :
    ∃ ref, (dictKeys σ.contigs).foldlM (run_loop3 σ) [] = Except.ok ref ∧ ∀ c, ddGet ref c = refEntries σ c := by
  obtain ⟨ref, hr, hget⟩ := outer_loop h (dictKeys σ.contigs) h.contigs.nodup []
  refine ⟨ref, hr, ?_⟩
  intro c
  rw [hget c]
  by_cases hc : c ∈ dictKeys σ.contigs
  · simp [hc, ddGet, dictGet?]
  · simp [hc, ddGet, dictGet?, refEntries, contigNodes_nil_of_not_key h c hc]

open Gaftools.Proofs.GraphExtra in
/-- … every one of them is a node of the graph, and reading (id, SO, SO + LN) off them gives **`View.reference`** -/
theorem refEntries_model {lines : List Gaftools.Gen.GfaMutate.TLine} {lm : Bool} {σ : St} (h : Loaded lines lm σ) (c : String) :
    (refEntries σ c).filterMap (fun o => (o.bind nodeInfo).map (fun i => (⟨i.id, i.so, i.en⟩ : Seg))) = View.reference σ.g c := by
  unfold refEntries View.reference
  rw [List.filterMap_map]
  have : ∀ i ∈ contigNodes σ.g c, ((fun o => (o.bind nodeInfo).map (fun i => (⟨i.id, i.so, i.en⟩ : Seg))) ∘ fun i => getItem σ i.id) i =
      some (⟨i.id, i.so, i.en⟩ : Seg) := by
    intro i hi
    have hi' : i ∈ infos σ.g := (List.mem_filter.mp ((contigNodes_perm σ.g c).subset hi)).1
    obtain ⟨n, hn, hni⟩ := infos_mem hi'
    have hid := (nodeInfo_some hni).1
    simp only [Function.comp, getItem, hid, find_of_mem h.graph.1 hn, Option.bind_some, hni, Option.map_some]
  rw [Gaftools.Proofs.Glue.filterMap_congr' this]
  induction contigNodes σ.g c with
  | nil => rfl
  | cons a l ih => simp

/-! ## the tables of a loaded rGFA, together -/

/-- **`--format stable`**: for a completely tagged rGFA the preparation ends normally with `gfa_nodes` = `View.nodeTable`,
    `ref_contig` = `View.refContigs`, `contig_len` = `View.contigLen` (as dictionaries: by lookup) and `reference` unbound -/
theorem stableTables_loaded {lines : List Gaftools.Gen.GfaMutate.TLine} {lm : Bool} {σ : St} (h : Loaded lines lm σ) :
    ∃ nt cl, stableTables σ = Except.ok (some nt, refContigs σ.g, cl, none) ∧ (∀ id, dictGet? nt id = nodeTable σ.g id) ∧
      (∀ c, dictGet? cl c = if c ∈ refContigs σ.g then contigLen σ.g c else none) := by
  obtain ⟨cl, hcl, hget⟩ := contigLen_gen h
  refine ⟨_, cl, ?_, gfaNodes_lookup σ.g h.graph.1, hget⟩
  unfold stableTables
  rw [gfaNodes_gen σ h.graph.1 h.graph.2.1 h.graph.2.2]
  simp only [ok_bind, refContig_gen h, hcl, pure_eq]

/-- **`--format unstable`**: … with `reference[c]` = the node objects of `View.contigNodes σ.g c` (`refEntries_model`: read as
    (id, SO, SO + LN) they are `View.reference σ.g c`), the three other tables as initialised -/
theorem unstableTables_loaded {lines : List Gaftools.Gen.GfaMutate.TLine} {lm : Bool} {σ : St} (h : Loaded lines lm σ) :
    ∃ ref, unstableTables σ = Except.ok (none, [], [], some ref) ∧ ∀ c, ddGet ref c = refEntries σ c := by
  obtain ⟨ref, hr, hget⟩ := reference_gen h
  refine ⟨ref, ?_, hget⟩
  unfold unstableTables
  rw [hr]
  rfl

/-! ## `Cli.viewHead` as a whole, and the whole-file output -/

/-- `Cli.viewHead` decides the `--format` part first and the index part second -/
theorem viewHead_split (fmt : Option Bool) (o : Cli.ViewOpts) (ix : Bool) :
    Cli.viewHead fmt o ix =
      (match Cli.viewHead fmt { o with nodes := [], regions := [] } false with
        | .proceed _ => Cli.viewHead none { o with format := none } ix
        | h => h) := by
  unfold Cli.viewHead
  cases hf : o.format with
  | none => simp [Cli.truthy]
  | some f =>
    by_cases h0 : f = ""
    · subst h0; simp [Cli.truthy]
    · by_cases hs : f = "stable"
      · subst hs
        by_cases h1 : fmt = some true <;> simp [Cli.truthy, h1]
      · by_cases hu : f = "unstable"
        · subst hu
          by_cases h1 : fmt = some false <;> simp [Cli.truthy, h1]
        · simp [Cli.truthy, h0, hs, hu]

/-- **`view.run` against `Cli.viewHead`** (the model of the head of `run`, about which `Props/Cli.lean` is stated): when the model
    says `AssertionError`, `run` raises it; when it says `CommandLineError m`, `run` raises exactly that — unless loading the graph
    or building the tables raised first (only possible for the "No index found" refusal, which comes after them); when it says
    `proceed`, `run` builds the tables and then processes the records with the index the model names -/
theorem run_viewHead {Rec Out Line Ind : Type} (E : Ext Rec Out Line Ind) (o : Cli.ViewOpts) (fmt : Option Bool)
    (hd : detectSpec E.detect E.recs = Except.ok fmt) :
    match Cli.viewHead fmt o (E.pathExists (o.gaf_path ++ ".gvi")) with
    | .assertionError => run E o.gaf_path o.output o.index o.nodes o.regions o.format = Except.error .assertionError
    | .commandLineError m =>
      run E o.gaf_path o.output o.index o.nodes o.regions o.format = Except.error (.commandLineError m) ∨
        ∃ e, tables E o.format = Except.error e ∧ run E o.gaf_path o.output o.index o.nodes o.regions o.format = Except.error e
    | .proceed ip =>
      run E o.gaf_path o.output o.index o.nodes o.regions o.format =
        (tables E o.format >>= fun T =>
          (match ip with
            | some p => E.loadIndex p >>= fun ind => E.selectRest ind T.1 T.2.1 T.2.2.1 T.2.2.2
            | none => wholeFile E o.format T) >>= fun out => Except.ok (writerOf o.output, out)) := by
  rw [run_gen, hd, viewHead_split]
  simp only [ok_bind]
  cases hA : Cli.viewHead fmt { o with nodes := [], regions := [] } false with
  | assertionError => simp
  | commandLineError m => simp
  | proceed ip0 =>
    simp only []
    cases hB : Cli.viewHead none { o with format := none } (E.pathExists (o.gaf_path ++ ".gvi")) with
    | assertionError =>
      exfalso
      unfold Cli.viewHead at hB
      simp only [Cli.truthy, Bool.false_eq_true, if_false] at hB
      by_cases hsel : (!o.nodes.isEmpty || !o.regions.isEmpty) = true
      · simp only [hsel, if_true] at hB
        cases hi : o.index with
        | some p => simp [hi] at hB
        | none =>
          simp only [hi] at hB
          by_cases hx : E.pathExists (o.gaf_path ++ ".gvi") = true <;> simp [hx] at hB
      · simp [hsel] at hB
    | commandLineError m =>
      simp only []
      cases hT : tables E o.format with
      | error e => exact Or.inr ⟨e, rfl, rfl⟩
      | ok T => exact Or.inl rfl
    | proceed ip =>
      cases ip <;> rfl

theorem mapM_ok_get {α β : Type} (f : α → M β) : ∀ (l : List α) (out : List β), l.mapM f = Except.ok out →
    out.length = l.length ∧ ∀ i (hi : i < l.length) (ho : i < out.length), f l[i] = Except.ok out[i] := by
  intro l
  induction l with
  | nil =>
    intro out h
    simp only [List.mapM_nil, pure_eq, Except.ok.injEq] at h
    subst h
    exact ⟨rfl, fun i hi => absurd hi (by simp)⟩
  | cons a l ih =>
    intro out h
    rw [List.mapM_cons] at h
    cases ha : f a with
    | error e => rw [ha] at h; cases h
    | ok b =>
      cases hl : l.mapM f with
      | error e => rw [ha, hl] at h; cases h
      | ok bs =>
        rw [ha, hl] at h
        simp only [ok_bind, pure_eq, Except.ok.injEq] at h
        subst h
        obtain ⟨h1, h2⟩ := ih bs hl
        refine ⟨by simp [h1], ?_⟩
        intro i hi ho
        cases i with
        | zero => simpa using ha
        | succ i => simpa using h2 i (by simpa using hi) (by simpa using ho)

/-- **the whole-file branch with `--format`**: one printed item per record, the i-th from the i-th, made by the conversion the
    format names with the tables built before (`Props/C02.lean` `convertFile`) -/
theorem wholeFile_records {Rec Out Line Ind : Type} (E : Ext Rec Out Line Ind) (format : Option String) (T : Tables) (out : List Out)
    (hf : Cli.truthy format = true) (h : wholeFile E format T = Except.ok out) :
    out.length = E.recs.length ∧ ∀ i (hi : i < E.recs.length) (ho : i < out.length),
      (if format == some "stable" then E.toStable T.1 T.2.1 T.2.2.1 E.recs[i]
        else bound T.2.2.2 >>= fun r => E.toUnstable r E.recs[i]) = Except.ok out[i] := by
  unfold wholeFile at h
  simp only [hf, if_true] at h
  by_cases hs : (format == some "stable") = true
  · simp only [hs, if_true] at h ⊢
    exact mapM_ok_get _ _ _ h
  · simp only [hs, Bool.false_eq_true, if_false] at h ⊢
    cases hb : bound T.2.2.2 with
    | error e => rw [hb] at h; cases h
    | ok r =>
      rw [hb] at h
      simp only [ok_bind] at h ⊢
      exact mapM_ok_get _ _ _ h

/-- **the whole-file branch without `--format`**: every raw line of the file, right-stripped (decoded first for a BGZF file) -/
theorem wholeFile_plain {Rec Out Line Ind : Type} (E : Ext Rec Out Line Ind) (format : Option String) (T : Tables)
    (hf : Cli.truthy format = false) : wholeFile E format T = Except.ok (E.rawLines.map (plainLine E)) := by
  unfold wholeFile
  simp [hf]

/-! ## evaluated example: the translated builders on a small rGFA (two rank-0 segments out of file order, one rank-1 segment) -/

def exTag (n t v : String) : Tag := ⟨n, t, v⟩
def exSeg (id seq sn so sr : String) : Gaftools.Gen.GfaMutate.TLine :=
  ⟨some 'S', ⟨id, seq, [exTag "LN" "i" (toString seq.length), exTag "SN" "Z" sn, exTag "SO" "i" so, exTag "SR" "i" sr]⟩, default⟩
def exLines : List Gaftools.Gen.GfaMutate.TLine :=
  [exSeg "b" "GG" "chr" "3" "0", exSeg "a" "ACT" "chr" "0" "0", exSeg "h" "TT" "hap" "10" "1",
   ⟨some 'L', default, ⟨"a", true, "b", true, 0, []⟩⟩]

#guard (match Gaftools.Gen.GfaMutate.load exLines true with
  | .error _ => false
  | .ok σ =>
    (match stableTables σ with
      | .ok (some nt, rc, cl, none) =>
        rc == refContigs σ.g && rc == ["chr"] &&
          ["a", "b", "h", "zz"].all (fun id => dictGet? nt id == nodeTable σ.g id) &&
          ["chr", "hap", "zz"].all (fun c => dictGet? cl c == (if rc.contains c then contigLen σ.g c else none)) &&
          dictGet? cl "chr" == some 5
      | _ => false) &&
    (match unstableTables σ with
      | .ok (none, [], [], some ref) =>
        ["chr", "hap", "zz"].all (fun c =>
          (ddGet ref c).filterMap (fun o => (o.bind nodeInfo).map (fun i => (⟨i.id, i.so, i.en⟩ : Seg))) == View.reference σ.g c) &&
          ((ddGet ref "chr").map (fun o => o.map (·.id))) == [some "a", some "b"]
      | _ => false) &&
    get_contig_length σ "zz" false == Except.error (.systemExit 1) &&
    get_path σ "chr" true == Except.ok ["a", "b"])

/-- a stub record layer: a record is its own format flag, a printed item a string -/
def exExt (recs : List Bool) (ix : Bool) : Ext Bool String String Unit :=
  { detect := id, loadGFA := fun lm => (match Gaftools.Gen.GfaMutate.load exLines lm with | .ok σ => .ok σ | .error _ => .error .valueError),
    toStable := fun nt rc _ r => .ok (s!"S{(nt.getD []).length}{rc}{r}"), toUnstable := fun ref r => .ok (s!"U{(ddGet ref "chr").length}{r}"),
    recs := recs, rawLines := ["x \n", "y"], gzFlag := false, decodeUtf8 := fun l => l.toList, asText := fun l => l.toList,
    ofText := String.ofList, pathExists := fun _ => ix, loadIndex := fun _ => .ok (),
    selectRest := fun _ nt _ _ ref => .ok [s!"sel {nt.isSome} {ref.isSome}"] }

#guard run (exExt [false, false] false) "in.gaf" none none [] [] (some "stable") == Except.ok (Writer.stdout, ["S3[chr]false", "S3[chr]false"])
#guard run (exExt [true] false) "in.gaf" (some "o") none [] [] (some "unstable") == Except.ok (Writer.file "o", ["U2true"])
#guard run (exExt [true] false) "in.gaf" none none [] [] (some "stable") ==
  Except.error (.commandLineError "Input GAF already has stable coordinates. Please remove the --format stable option")
#guard run (exExt [true, false] false) "in.gaf" none none [] [] none == Except.error .assertionError
#guard run (exExt [false] false) "in.gaf" none none ["a"] [] (some "stable") ==
  Except.error (.commandLineError "No index found. Please provide the path to the index or create one with gaftools index.")
#guard run (exExt [false] true) "in.gaf" none none ["a"] [] (some "stable") == Except.ok (Writer.stdout, ["sel true false"])
#guard run (exExt [] false) "in.gaf" none none [] [] none == Except.ok (Writer.stdout, ["x", "y"])

end Gaftools.TieA.ViewPrep
