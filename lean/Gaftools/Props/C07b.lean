import Gaftools.Props.C07
import Gaftools.Props.C06g
import Gaftools.Proofs.OrderFilesLemmas2
/-!
# C07 (continued) — the files of the model of `run_order_gfa`

`orderFiles` is the whole command with `--by-chrom` down to the token files it writes: read the graph, split it into components,
name them, run the chromosome loop, set the BO/NO tags on the nodes (dict assignment: a stale tag is replaced in place), and
`write_gfa(set_of_nodes = component, order_bo = True)`.  `orderFiles_spec`: every file it writes meets the executable file
specification of C07 (`Spec.Order.specWritten`): exactly the segments of the component, each once, with the declared sequence
(or `*`), the declared tags and only BO / NO added (type `i`, the assigned values, stale ones replaced); S lines in strictly
increasing (BO, NO) order; exactly the declared links inside the component, each as often as declared.
The correspondence compares these model files with the files the real tool writes (S lines in order, L lines as a multiset).
-/
namespace Gaftools.C07
open Gaftools.Gfa Gaftools.Algo Gaftools.Order Gaftools.Spec.Order Gaftools.Spec.Graph
open Gaftools.Proofs.OrderRun Gaftools.Proofs.OrderFiles

theorem orderFiles_spec (t : GfaFile) (hw : WFGfa t) (htab : ∀ s ∈ t.segs, '\t' ∉ s.id.toList)
    (hseq : ∀ s ∈ t.segs, s.seq ≠ "") (hnames : ∀ s ∈ t.segs, (s.tags.map (·.name)).Nodup)
    (order : List String) (lm : Bool) (fs : List (String × GfaFile)) (h : orderFiles t order lm = .ok fs) :
    ∀ p ∈ fs, ∃ w : Written, w.name = p.1 ∧ p.2 = orderFile (readGraph t lm) w ∧
      specWritten t (compOfName t lm p.1) (fun v => (w.tags.find? (·.1 == v)).map (·.2)) (!lm) p.2 = true := by
  intro p hp
  have hids := hw.ids
  unfold orderFiles at h
  cases hrun : orderRun t order lm with
  | error e => rw [hrun] at h; cases h
  | ok r =>
    obtain ⟨ws, next⟩ := r
    rw [hrun] at h
    simp only at h
    injection h with h
    subst h
    rw [List.mem_map] at hp
    obtain ⟨w, hwm, rfl⟩ := hp
    refine ⟨w, rfl, rfl, ?_⟩
    simp only
    -- what the loop wrote
    have hgo : Gaftools.C18.go (fun c => decompose (Graph.nbFun (readGraph t lm)) (compOfName t lm c) (soOf t) (snOf t))
        ([], 0) order = .ok (ws, next) := hrun
    have hws := Gaftools.C18.go_written _ order _ _ hgo
    simp only [List.nil_append] at hws
    rw [hws] at hwm
    obtain ⟨l, lo, _, hdec, htags, _⟩ := outList_mem _ order 0 (Int.le_refl 0) w hwm
    have hU := Gaftools.C15.readGraph_undirected t hids lm
    rcases compOfName_cases t lm w.name with hnil | hmem
    · exfalso
      rw [hnil] at hdec
      exact decompose_nil' _ hU.symm _ _ _ hdec
    · have hidsEq : Graph.ids (readGraph t lm) = t.segs.map (·.id) := Gaftools.Proofs.Write.ids_readGraph t lm hids
      have hnd : (Graph.ids (readGraph t lm)).Nodup := by rw [hidsEq]; exact hids
      have hpart := Gaftools.C15.components_partition _ _ hU hnd
      obtain ⟨hne, hcnd, hsub, hcls⟩ := hpart.1 _ hmem
      generalize compOfName t lm w.name = comp at hdec hne hcnd hsub hcls ⊢
      have hclosed := class_closed (Graph.nbFun (readGraph t lm)) comp hcls
      have hagree := restrict_agree (Graph.nbFun (readGraph t lm)) comp
      have hu' := restrict_undirected _ _ comp hU hclosed
      have hconn := restrict_connected _ _ comp hU hcls
      have hsub' : ∀ v ∈ comp, v ∈ t.segs.map (·.id) := by
        intro v hv
        rw [← hidsEq]
        exact hsub v hv
      have htab' : ∀ v ∈ comp, '\t' ∉ v.toList := by
        intro v hv
        have := hsub' v hv
        rw [List.mem_map] at this
        obtain ⟨s, hs, rfl⟩ := this
        exact htab s hs
      have hdec' : decompose (restrict (Graph.nbFun (readGraph t lm)) comp) comp (soOf t) (snOf t) = .ok l := by
        rw [Gaftools.C06.decompose_congr _ _ comp _ _ hne hclosed hagree]
        exact hdec
      have hgood := goodOrder_of_decompose _ comp (soOf t) (snOf t) l hu' hcnd hconn htab' hne hdec'
      have hgt : GoodTags t comp w.tags := by
        rw [htags]
        exact goodTags_of_goodOrder hgood hcnd hsub' lo
      exact specWritten_of_goodTags hw lm hseq hnames w hgt

end Gaftools.C07
