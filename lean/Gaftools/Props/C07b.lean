import Gaftools.Props.C07
import Gaftools.Props.C06g
/-!
# C07 (continued) — the files of the model of `run_order_gfa`

`orderFiles` is the whole command with `--by-chrom` down to the token files it writes: read the graph, split it into components,
name them, run the chromosome loop, set the BO/NO tags on the nodes (dict assignment: a stale tag is replaced in place), and
`write_gfa(set_of_nodes = component, order_bo = True)`.  `orderFiles_spec`: every file it writes meets the executable file
specification of C07 (`Spec.Order.specWritten`): exactly the segments of the component, each once, with the declared sequence
(or `*`), the declared tags and only BO / NO added (type `i`, the assigned values, stale ones replaced); S lines in strictly
increasing (BO, NO) order; exactly the declared links inside the component, each as often as declared.
The correspondence compares these model files with the files the real tool writes (S lines in order, L lines as a multiset).
-/
namespace Gaftools.C07
open Gaftools.Gfa Gaftools.Algo Gaftools.Order Gaftools.Spec.Order

theorem orderFiles_spec (t : GfaFile) (hw : WFGfa t) (htab : ∀ s ∈ t.segs, '\t' ∉ s.id.toList)
    (hseq : ∀ s ∈ t.segs, s.seq ≠ "") (hnames : ∀ s ∈ t.segs, (s.tags.map (·.name)).Nodup)
    (order : List String) (lm : Bool) (fs : List (String × GfaFile)) (h : orderFiles t order lm = .ok fs) :
    ∀ p ∈ fs, ∃ w : Written, w.name = p.1 ∧ p.2 = orderFile (readGraph t lm) w ∧
      specWritten t (compOfName t lm p.1) (fun v => (w.tags.find? (·.1 == v)).map (·.2)) (!lm) p.2 = true := by
  sorry

end Gaftools.C07
