import Gaftools.Props.TieA10
import Gaftools.Props.TieA11
import Gaftools.Props.TieA15
import Gaftools.Props.TieA27
import Gaftools.Props.TieA17
import Std.Data.String.ToInt
/-!
# Non-vacuity audit of TieA10, TieA11, TieA15, TieA27, TieA17  (TieA13: see `NvB13.lean`)

For every main theorem: an `example` that applies it to a concrete, non-trivial input (all hypotheses discharged), and a `#guard` /
`example` showing that the generated side is not degenerate on that input (`#guard` evaluates with the compiler; it is used for the
values because several inputs go through `String.toInt?`, which the kernel cannot reduce).

`Props/TieA13` cannot be imported here: `Gen/IndexLoop.lean` and `Gen/ConvLoopU.lean` both declare `Gaftools.Gen.pySlice`, and `TieA10` /
`TieA13` both declare `Gaftools.TieA.searchIv_range` and `Gaftools.TieA.pySlice_window`; its audit is `Props/NvB13.lean`.
`Std.Data.String.ToInt` (part of the Lean toolchain, no package) is imported for two facts about `String.toInt?` needed to show that the
hypothesis `Loaded` of TieA27 holds for a concrete file.
-/
set_option linter.unusedVariables false
namespace Gaftools.NonVacuousB

def exOk {ε α : Type} [BEq α] (r : Except ε α) (v : α) : Bool :=
  match r with
  | .ok x => x == v
  | .error _ => false
def exErr {ε α : Type} [BEq ε] (r : Except ε α) (e : ε) : Bool :=
  match r with
  | .ok _ => false
  | .error x => x == e

/-! ## TieA17 : `path_exists`, `extract_path`, `rev_comp`, `find_path.run` -/
section A17
open Gaftools.Gfa Gaftools.TextLayer Gaftools.Gen Gaftools.TieA17
open Gaftools.Gen.PathWalk (findall)

/-- three nodes, two links: `a+ -> b-`, `b- -> c+` : the walk `>a<b>c` exists, `>a>b` does not -/
def g17 : Graph :=
  readGraph ⟨[⟨"a", "AC", []⟩, ⟨"b", "GGT", []⟩, ⟨"c", "TTA", []⟩],
    [⟨"a", true, "b", false, 0, []⟩, ⟨"b", false, "c", true, 0, []⟩]⟩

example : PathWalk.revComp "ACGGTN" = Gfa.revComp "ACGGTN" := revComp_gen _
#guard PathWalk.revComp "ACGGTN" == "NACCGT"
#guard PathWalk.revComp "ACGGTN" != PathWalk.revComp "ACGGTA"

example : findall (fun c => c == '>' || c == '<') (fun c => !(c == '>' || c == '<')) 1 none "x>a<b>>c<".toList
    = (tokenizePath "x>a<b>>c<".toList).map tokOf :=
  findall_gen _ _ (fun _ => rfl) (fun _ => rfl) _
#guard findall (fun c => c == '>' || c == '<') (fun c => !(c == '>' || c == '<')) 1 none "x>a<b>>c<".toList
    == [('>', "a"), ('<', "b"), ('>', "c")]

example : PathWalk.pathExists g17 ([(true, "a"), (false, "b"), (true, "c")].map tokOf)
    = liftKey (Gfa.pathExists g17 [(true, "a"), (false, "b"), (true, "c")]) := pathExists_gen _ _
example : PathWalk.pathExists g17 ([(true, "a"), (true, "b"), (true, "c")].map tokOf)
    = liftKey (Gfa.pathExists g17 [(true, "a"), (true, "b"), (true, "c")]) := pathExists_gen _ _
example : PathWalk.pathExists g17 ([(true, "zz"), (true, "b")].map tokOf)
    = liftKey (Gfa.pathExists g17 [(true, "zz"), (true, "b")]) := pathExists_gen _ _
#guard exOk (PathWalk.pathExists g17 ([(true, "a"), (false, "b"), (true, "c")].map tokOf)) true
#guard exOk (PathWalk.pathExists g17 ([(true, "a"), (true, "b"), (true, "c")].map tokOf)) false
#guard exErr (PathWalk.pathExists g17 ([(true, "zz"), (true, "b")].map tokOf)) .keyError

example : PathWalk.extractPath g17 ">a<b>c" = extractPathStr g17 ">a<b>c" := extractPath_gen _ _
#guard exOk (PathWalk.extractPath g17 ">a<b>c") "ACACCTTA"
#guard exOk (PathWalk.extractPath g17 "<c>b<a") "TAAGGTGT"
#guard exOk (PathWalk.extractPath g17 ">a>b") ""

example : PathWalk.run g17 "paths.txt" (some [" >a<b>c \n", "x\n", "\t<c>b<a"]) true
    = findPathRun g17 "paths.txt" (some [" >a<b>c \n", "x\n", "\t<c>b<a"]) true := run_gen _ _ _ _
example : PathWalk.run g17 ">a<b>c" none false = findPathRun g17 ">a<b>c" none false := run_gen _ _ _ _
#guard exOk (PathWalk.run g17 "paths.txt" (some [" >a<b>c \n", "x\n", "\t<c>b<a"]) true)
    [">seq_>a<b>c", "ACACCTTA", ">seq_x", "", ">seq_<c>b<a", "TAAGGTGT"]
#guard exOk (PathWalk.run g17 "paths.txt" (some [" >a<b>c \n", "x\n", "\t<c>b<a"]) false) ["ACACCTTA", "", "TAAGGTGT"]
#guard exOk (PathWalk.run g17 ">a<b>c" none false) ["ACACCTTA"]
#guard exErr (PathWalk.run g17 "paths.txt" none false) .osError
end A17

/-! ## TieA11 : `conversion.to_stable` -/
section A11
open Gaftools.Gaf Gaftools.Conv Gaftools.ConvText Gaftools.TieA

/-- chr1 = s1 [0,4) s2 [4,10) s3 [10,15); a rank-1 node s4 on hap [0,7) -/
def nodes11 : String → Option SNode := fun a =>
  if a == "s1" then some ⟨"chr1", 0, 4⟩ else if a == "s2" then some ⟨"chr1", 4, 10⟩
  else if a == "s3" then some ⟨"chr1", 10, 15⟩ else if a == "s4" then some ⟨"hap", 0, 7⟩ else none
def clen11 : String → Option Int := fun c => if c == "chr1" then some 15 else none

example : Gen.splitKeep Gen.pathSeps ">s1>s2<s4".toList = pathTokens ">s1>s2<s4".toList := gafNodes_gen _
#guard Gen.splitKeep Gen.pathSeps ">s1>s2<s4".toList == [">".toList, "s1".toList, ">".toList, "s2".toList, "<".toList, "s4".toList]

example : Gen.toStr ⟨"chr1", 4, 10⟩ false = renderOIv (⟨"chr1", 4, 10⟩, false) := toStr_gen _ _
#guard Gen.toStr ⟨"chr1", 4, 10⟩ false == "<chr1:4-10".toList

example : Gen.tokStep nodes11 (some ['>'], [(⟨"chr1", 0, 4⟩, some ['>'])]) ['<'] = some (some ['<'], [(⟨"chr1", 0, 4⟩, some ['>'])]) :=
  tokStep_orient nodes11 _ _ _ (by decide)
example : Gen.tokStep nodes11 (some ['<'], [(⟨"chr1", 10, 15⟩, some ['<'])]) "s2".toList =
    (nodes11 (String.ofList "s2".toList)).map (fun n => (some (if false then ['>'] else ['<']),
      [(⟨"chr1", 10, 15⟩, some ['<'])] ++ [(n, some (if false then ['>'] else ['<']))])) :=
  tokStep_name nodes11 (some ['<']) false (Or.inr (Or.inr ⟨rfl, rfl⟩)) _ _ (by decide)
#guard Gen.tokStep nodes11 (some ['<'], [(⟨"chr1", 10, 15⟩, some ['<'])]) "s2".toList ==
    some (some ['<'], [(⟨"chr1", 10, 15⟩, some ['<']), (⟨"chr1", 4, 10⟩, some ['<'])])
#guard Gen.tokStep nodes11 (none, []) "s2".toList == some (some ['>'], [(⟨"chr1", 4, 10⟩, some ['>'])])
#guard Gen.tokStep nodes11 (none, []) "zz".toList == none

example : ((pathTokens ">s1>s2<s4".toList).foldlM (Gen.tokStep nodes11) (none, [])).map (fun r => r.2.map (fun x => (x.1, Gen.encOrient x.2))) =
    (parseUnstableSteps ">s1>s2<s4".toList).mapM (fun s => (nodes11 s.2).map (fun n => (n, s.1))) := tokLoop_gen _ _
#guard ((pathTokens ">s1>s2<s4".toList).foldlM (Gen.tokStep nodes11) (none, [])).map (fun r => r.2.map (fun x => (x.1, Gen.encOrient x.2))) ==
    some [(⟨"chr1", 0, 4⟩, true), (⟨"chr1", 4, 10⟩, true), (⟨"hap", 0, 7⟩, false)]

example : ∀ x ∈ [((⟨"chr1", 0, 4⟩ : SNode), some ['>']), (⟨"chr1", 4, 10⟩, some ['>']), (⟨"hap", 0, 7⟩, some ['<'])],
    x.2 = some ['>'] ∨ x.2 = some ['<'] :=
  tokLoop_orients nodes11 (pathTokens ">s1>s2<s4".toList) (some ['<'], _) (by decide)

/-- `node_list` of `>s1>s2<s4>s3` after the Bool encoding -/
def nl11 : List OIv := [(⟨"chr1", 0, 4⟩, true), (⟨"chr1", 4, 10⟩, true), (⟨"hap", 0, 7⟩, false), (⟨"chr1", 10, 15⟩, true)]

-- iteration 0 merges s1 and s2; iteration 1 cannot merge the result with s4
example : Gen.mergeStep nl11 ([], [] ++ [(⟨"chr1", 0, 4⟩, true)]) 0 =
    (match mergeNodes (⟨"chr1", 0, 4⟩ : SNode) (⟨"chr1", 4, 10⟩ : SNode) true true with
     | none => some ([] ++ renderOIv (⟨"chr1", 0, 4⟩, true), [] ++ [(⟨"chr1", 0, 4⟩, true)] ++ [(⟨"chr1", 4, 10⟩, true)])
     | some m => some ([], [] ++ [m])) :=
  mergeStep_gen nl11 [] [] (⟨"chr1", 0, 4⟩, true) 0 (⟨"chr1", 4, 10⟩, true) rfl
example : Gen.mergeStep nl11 ([], [] ++ [(⟨"chr1", 0, 10⟩, true)]) 1 =
    (match mergeNodes (⟨"chr1", 0, 10⟩ : SNode) (⟨"hap", 0, 7⟩ : SNode) true false with
     | none => some ([] ++ renderOIv (⟨"chr1", 0, 10⟩, true), [] ++ [(⟨"chr1", 0, 10⟩, true)] ++ [(⟨"hap", 0, 7⟩, false)])
     | some m => some ([], [] ++ [m])) :=
  mergeStep_gen nl11 [] [] (⟨"chr1", 0, 10⟩, true) 1 (⟨"hap", 0, 7⟩, false) rfl
#guard Gen.mergeStep nl11 ([], [(⟨"chr1", 0, 4⟩, true)]) 0 == some ([], [(⟨"chr1", 0, 10⟩, true)])
#guard Gen.mergeStep nl11 ([], [(⟨"chr1", 0, 10⟩, true)]) 1 == some (">chr1:0-10".toList, [(⟨"chr1", 0, 10⟩, true), (⟨"hap", 0, 7⟩, false)])

example : (List.range (nl11.length - 1)).foldlM (Gen.mergeStep nl11) ([], [(⟨"chr1", 0, 4⟩, true)]) =
    some ([] ++ (mergeGo (⟨"chr1", 0, 4⟩, true) nl11.tail).dropLast.flatMap renderOIv, mergeGo (⟨"chr1", 0, 4⟩, true) nl11.tail) :=
  mergeLoop_gen (⟨"chr1", 0, 4⟩, true) nl11.tail []
#guard (List.range (nl11.length - 1)).foldlM (Gen.mergeStep nl11) ([], [(⟨"chr1", 0, 4⟩, true)]) ==
    some (">chr1:0-10<hap:0-7".toList, [(⟨"chr1", 0, 10⟩, true), (⟨"hap", 0, 7⟩, false), (⟨"chr1", 10, 15⟩, true)])

-- the whole function: a walk that collapses to one reference interval (forward and backward), and one that does not
example : Gen.toStableS nodes11 ["chr1"] clen11 true ">s1>s2>s3".toList 15 2 12 =
    (toStable nodes11 ["chr1"] clen11 true (parseUnstableSteps ">s1>s2>s3".toList) 15 2 12).map (fun r => (renderSPath r.1, r.2)) :=
  toStableS_gen _ _ _ _ _ _ _ _
example : Gen.toStableS nodes11 ["chr1"] clen11 true "<s3<s2".toList 11 2 9 =
    (toStable nodes11 ["chr1"] clen11 true (parseUnstableSteps "<s3<s2".toList) 11 2 9).map (fun r => (renderSPath r.1, r.2)) :=
  toStableS_gen _ _ _ _ _ _ _ _
example : Gen.toStableS nodes11 ["chr1"] clen11 true ">s1>s2<s4>s3".toList 22 1 20 =
    (toStable nodes11 ["chr1"] clen11 true (parseUnstableSteps ">s1>s2<s4>s3".toList) 22 1 20).map (fun r => (renderSPath r.1, r.2)) :=
  toStableS_gen _ _ _ _ _ _ _ _
#guard Gen.toStableS nodes11 ["chr1"] clen11 true ">s1>s2>s3".toList 15 2 12 == some ("chr1".toList, ⟨true, 15, 2, 12, false⟩)
#guard Gen.toStableS nodes11 ["chr1"] clen11 true "<s3<s2".toList 11 2 9 == some ("chr1".toList, ⟨false, 15, 6, 13, true⟩)
#guard Gen.toStableS nodes11 ["chr1"] clen11 true ">s1>s2<s4>s3".toList 22 1 20 ==
    some (">chr1:0-10<hap:0-7>chr1:10-15".toList, ⟨true, 22, 1, 20, false⟩)
#guard Gen.toStableS nodes11 ["chr1"] clen11 true ">s1>zz".toList 22 1 20 == none

/-- a parsed record with tags (a CIGAR among them) -/
def rec11 : Rec :=
  (parseLine "read1\t20\t0\t9\t+\t<s3<s2\t11\t2\t9\t7\t9\t60\tNM:i:2\tcg:Z:3M1I4M\ttp:A:P".toList).getD default
#guard rec11.path == "<s3<s2".toList && rec11.tags.length == 3

example : (Gen.toStableS nodes11 ["chr1"] clen11 (rec11.strand == ['+']) rec11.path rec11.plen rec11.ps rec11.pe).map
      (fun q => emitConverted rec11 q.1 q.2) =
    (toStable nodes11 ["chr1"] clen11 (rec11.strand == ['+']) (parseUnstableSteps rec11.path) rec11.plen rec11.ps rec11.pe).map
      (fun (p, o) => emitConverted rec11 (renderSPath p) o) := toStableS_emit _ _ _ _
#guard (Gen.toStableS nodes11 ["chr1"] clen11 (rec11.strand == ['+']) rec11.path rec11.plen rec11.ps rec11.pe).map
      (fun q => emitConverted rec11 q.1 q.2) ==
    some "read1\t20\t0\t9\t-\tchr1\t15\t6\t13\t7\t9\t60\tNM:i:2\tcg:Z:4M1I3M\ttp:A:P".toList
end A11

/-! ## TieA10 : the path loop of `conversion.to_unstable` -/
section A10
open Gaftools.Gaf Gaftools.Conv Gaftools.ConvText Gaftools.TieA

/-- chr1 = s1 [0,4) s2 [4,10) s3 [10,15); hap = s4 [0,7) -/
def ref10 : String → List Seg := fun c =>
  if c == "chr1" then [⟨"s1", 0, 4⟩, ⟨"s2", 4, 10⟩, ⟨"s3", 10, 15⟩] else if c == "hap" then [⟨"s4", 0, 7⟩] else []
def chr1 : List Seg := [⟨"s1", 0, 4⟩, ⟨"s2", 4, 10⟩, ⟨"s3", 10, 15⟩]

-- the inner loop body: the query [2,12) starts in s1 (case 1, sets new_start), contains s2 (case 3), ends in s3 (case 2), misses [20,30)
example := (convScanStep_gen true 2 12 ["s0"] (-1) 0 ⟨"s1", 0, 4⟩ : Gen.convScanStep 2 true 12 (-1, ["s0"], 0) ⟨"s1", 0, 4⟩ = _)
example := (convScanStep_gen false 2 12 ["s0"] (-1) 0 ⟨"s1", 1, 4⟩ : Gen.convScanStep 2 false 12 (-1, ["s0"], 0) ⟨"s1", 1, 4⟩ = _)
#guard Gen.convScanStep 2 true 12 (-1, ["s0"], 0) ⟨"s1", 0, 4⟩ == (2, ["s0", "s1"], 4)
#guard Gen.convScanStep 2 false 12 (-1, ["s0"], 0) ⟨"s1", 1, 4⟩ == (1, ["s0", "s1"], 3)
#guard Gen.convScanStep 2 true 12 (2, ["s1"], 4) ⟨"s2", 4, 10⟩ == (2, ["s1", "s2"], 10)
#guard Gen.convScanStep 2 true 12 (2, ["s1"], 4) ⟨"s3", 10, 15⟩ == (2, ["s1", "s3"], 9)
#guard Gen.convScanStep 2 true 12 (2, ["s1"], 4) ⟨"s9", 20, 30⟩ == (2, ["s1"], 4)

example : chr1.foldl (Gen.convScanStep 2 false 12) (-1, [], 0) =
    ((scanWindow chr1 2 12 false (-1) 0).2.1, (scanWindow chr1 2 12 false (-1) 0).1, (scanWindow chr1 2 12 false (-1) 0).2.2) :=
  scanWindow_gen _ _ _ _ _ _
#guard chr1.foldl (Gen.convScanStep 2 false 12) (-1, [], 0) == (2, ["s1", "s2", "s3"], 15)
#guard chr1.foldl (Gen.convScanStep 5 false 9) (-1, [], 0) == (1, ["s2"], 6)

-- the slice for a pair the search returns, and for the sentinel
example : Gen.pySlice chr1 (1, 2).1 ((1, 2).2 + 1) = window chr1 (1, 2) := TieA.pySlice_window chr1 (1, 2) (Or.inr ⟨by decide, by decide⟩)
example : Gen.pySlice chr1 (-1, -1).1 ((-1, -1).2 + 1) = window chr1 (-1, -1) := TieA.pySlice_window chr1 (-1, -1) (Or.inl rfl)
#guard Gen.pySlice chr1 1 (2 + 1) == [⟨"s2", 4, 10⟩, ⟨"s3", 10, 15⟩]
#guard Gen.pySlice chr1 (-1) (-1 + 1) == []

/-- a model state in the middle of a path: one step emitted, orientation '>' -/
def m10 : USt := ⟨[(true, "s0")], some true, 3, 9, true⟩

example : Gen.convTokStep ref10 true 0 14 (absG m10 (some true) true) ['<'] = some (absG m10 (some (['<'] == ['>'])) true) :=
  convTokStep_orient ref10 true 0 14 m10 (some true) true ['<'] (by decide)
#guard Gen.convTokStep ref10 true 0 14 (absG m10 (some true) true) ['<'] ==
    some ⟨[(true, "s0")], some false, 3, 9, some true⟩

-- an interval token after a '<' token
example : Gen.convTokStep ref10 true 0 14 (absG m10 (some false) true) "chr1:2-12".toList =
    ((tokItem "chr1:2-12".toList (some false)).bind (itemStep ref10 true 0 14 m10)).map (fun m' => absG m' (some false) true) :=
  convTokStep_item ref10 true 0 14 m10 (some false) true "chr1:2-12".toList (by decide) (by decide)
#guard Gen.convTokStep ref10 true 0 14 (absG m10 (some false) true) "chr1:2-12".toList ==
    some ⟨[(true, "s0"), (false, "s3"), (false, "s2"), (false, "s1")], some false, 3, 24, some true⟩
-- a bare contig token with no orientation token since the last item, columns 8-9 = 5, 9
example : Gen.convTokStep ref10 false 5 9 (absG ⟨[], none, -1, 0, false⟩ none false) "chr1".toList =
    ((tokItem "chr1".toList none).bind (itemStep ref10 false 5 9 ⟨[], none, -1, 0, false⟩)).map (fun m' => absG m' none true) :=
  convTokStep_item ref10 false 5 9 ⟨[], none, -1, 0, false⟩ none false "chr1".toList (by decide) (by decide)
#guard Gen.convTokStep ref10 false 5 9 (absG ⟨[], none, -1, 0, false⟩ none false) "chr1".toList ==
    some ⟨[(false, "s2")], some false, 1, 6, some false⟩
#guard Gen.convTokStep ref10 false 5 9 (absG ⟨[], none, -1, 0, false⟩ none false) "chr1:x-9".toList == none

theorem tokOk10 : TokOk true (pathTokens ">chr1:2-12<hap:1-5".toList) none none := by
  simp [TokOk, pathTokens, pathTokensAux, isOrientTok]

example := (convLoop_fold ref10 true 0 14 (pathTokens ">chr1:2-12<hap:1-5".toList) none ⟨[], none, -1, 0, false⟩ false tokOk10 :
  ((pathTokens ">chr1:2-12<hap:1-5".toList).foldlM (Gen.convTokStep ref10 true 0 14) (absG ⟨[], none, -1, 0, false⟩ none false)).map obsG = _)
#guard ((pathTokens ">chr1:2-12<hap:1-5".toList).foldlM (Gen.convTokStep ref10 true 0 14) Gen.convInit).map obsG ==
    some ([(true, "s1"), (true, "s2"), (true, "s3"), (false, "s4")], 2, 22, some true)

/-- the right-hand side of `toUnstable_gen` -/
def genU (sp : Bool) (p : Str) (plen ps pe : Int) : Option (List (Bool × String) × ConvOut) :=
  match (pathTokens p).foldlM (Gen.convTokStep ref10 sp ps pe) Gen.convInit with
  | none => none
  | some g =>
    match g.split_contig with
    | none => none
    | some split =>
      let c := Gen.unstableCoords (!sp) split plen ps pe g.new_total g.new_start
      some (g.unstable_coord, ⟨true, c.1, c.2.1, c.2.2, !sp⟩)

example : (parseStableItems ">chr1:2-12<hap:1-5".toList).bind (fun items => toUnstable ref10 true items 14 0 14) =
    genU true ">chr1:2-12<hap:1-5".toList 14 0 14 :=
  toUnstable_gen ref10 true _ 14 0 14 tokOk10
-- a bare contig name on the minus strand
example : (parseStableItems "chr1".toList).bind (fun items => toUnstable ref10 false items 15 5 9) = genU false "chr1".toList 15 5 9 :=
  toUnstable_gen ref10 false _ 15 5 9 (by simp [TokOk, pathTokens, pathTokensAux, isOrientTok])
#guard genU true ">chr1:2-12<hap:1-5".toList 14 0 14 ==
    some ([(true, "s1"), (true, "s2"), (true, "s3"), (false, "s4")], ⟨true, 14, 0, 14, false⟩)
#guard genU false "chr1".toList 15 5 9 == some ([(false, "s2")], ⟨true, 6, 1, 5, true⟩)
#guard genU true "chr1".toList 15 5 9 == some ([(true, "s2")], ⟨true, 6, 1, 5, false⟩)
#guard genU true "chr1".toList 15 2 12 == some ([(true, "s1"), (true, "s2"), (true, "s3")], ⟨true, 15, 2, 12, false⟩)

theorem plain_chr1 : Gaftools.Glue.plainName "chr1" :=
  ⟨by decide, by decide, fun c h => by
    have h' : "chr1".toList.getLast? = some '1' := by decide
    rw [h'] at h; cases h; decide⟩
theorem plain_hap : Gaftools.Glue.plainName "hap" :=
  ⟨by decide, by decide, fun c h => by
    have h' : "hap".toList.getLast? = some 'p' := by decide
    rw [h'] at h; cases h; decide⟩

def ivs10 : List OIv := [(⟨"chr1", 2, 12⟩, true), (⟨"hap", 1, 5⟩, false)]
theorem ivs10_ok : ∀ x ∈ ivs10, Gaftools.Glue.plainName x.1.contig ∧ 0 ≤ x.1.s ∧ 0 ≤ x.1.e := by
  intro x hx
  simp only [ivs10, List.mem_cons, List.not_mem_nil, or_false] at hx
  rcases hx with rfl | rfl
  · exact ⟨plain_chr1, by decide, by decide⟩
  · exact ⟨plain_hap, by decide, by decide⟩

example : toUnstable ref10 true (ivs10.map (fun x => SItem.iv x.2 x.1.contig x.1.s x.1.e)) 14 0 14 =
    genU true (renderSPath (.ivs ivs10)) 14 0 14 :=
  toUnstable_gen_ivs ref10 true ivs10 14 0 14 ivs10_ok
#guard renderSPath (.ivs ivs10) == ">chr1:2-12<hap:1-5".toList
example : toUnstable ref10 false [SItem.bare "chr1"] 15 5 9 = genU false (renderSPath (.bare "chr1")) 15 5 9 :=
  toUnstable_gen_bare ref10 false "chr1" 15 5 9 plain_chr1
end A10

/-! ## TieA15 : the selection of `view` -/
section A15
open Gaftools.TextLayer Gaftools.Gen.ViewSel Gaftools.TieA.ViewSel
open Gaftools.View (Key SelErr sortNat selectNodes selectRegions regionNodes)

/-- an index as `gaftools index` writes it: four nodes on two contigs, inserted out of coordinate order, three records -/
def idx15 : List (Key × List Nat) :=
  [(("s2", "chr1", 4, 10), [0, 1]), (("s1", "chr1", 0, 4), [0]), (("s3", "chr1", 10, 15), [1, 2]), (("s4", "hap", 0, 7), [2])]
theorem idx15_nodup : (idx15.map (·.1.1)).Nodup := by decide

/-- a three-record file and the two conversions, as strings -/
def rd15 : Nat → M String := fun o => if o < 3 then .ok s!"rec{o}" else .error .indexError
def ts15 : String → M String := fun r => .ok ("S:" ++ r)
def tu15 : String → M String := fun r => if r == "rec1" then .error .valueError else .ok ("U:" ++ r)

-- `sorted` of the node keys by (SN, SO), every comparison defined
example := (pySortedBy_ok (fun x : IKey => ((x.get 1), (x.get 2))) (idx15.map (fun e => IKey.node e.1)) (keys_comparable idx15) :
  pySortedBy (fun x : IKey => ((x.get 1), (x.get 2))) (idx15.map (fun e => IKey.node e.1)) = _)
#guard exOk (pySortedBy (fun x : IKey => ((x.get 1), (x.get 2))) (idx15.map (fun e => IKey.node e.1)))
    [IKey.node ("s1", "chr1", 0, 4), IKey.node ("s2", "chr1", 4, 10), IKey.node ("s3", "chr1", 10, 15), IKey.node ("s4", "hap", 0, 7)]
-- … whereas with "ref_contig" left in, against a contig called "e", the comparison is a TypeError (the history in the file header)
#guard exErr (pySortedBy (fun x : IKey => ((x.get 1), (x.get 2))) [IKey.node ("n", "e", 0, 4), IKey.ref]) VErr.typeError

example : (dictKeys (indOf idx15)).filter (fun k => (!(k.eqStr "ref_contig"))) = idx15.map (fun e => IKey.node e.1) := nodeKeys_filter _
#guard (dictKeys (indOf idx15)).length == 5 && ((dictKeys (indOf idx15)).filter (fun k => (!(k.eqStr "ref_contig")))).length == 4

example : dictGet (indOf idx15) (IKey.node ("s3", "chr1", 10, 15)) = Except.ok [1, 2] :=
  dictGet_indOf idx15 idx15_nodup (("s3", "chr1", 10, 15), [1, 2]) (by decide)

example : pySortedBy (fun x : IKey => (x.get 2)) ((idx15.map (·.1)).map IKey.node) =
    Except.ok (((idx15.map (·.1)).foldl (fun acc k => regionNodes.insK k acc) []).map IKey.node) := sortKeys_ok _
example : (dictKeys (indOf idx15)).filter (fun x => ((!(x.eqStr "ref_contig")) && ((x.get 1) == (PyAtom.str "chr1")))) =
    ((idx15.map (·.1)).filter (fun k => k.2.1 == "chr1")).map IKey.node := nodeList_filter _ _
#guard ((dictKeys (indOf idx15)).filter (fun x => ((!(x.eqStr "ref_contig")) && ((x.get 1) == (PyAtom.str "chr1"))))).length == 3

-- `search`
example := (search_gen "chr1" "5" "11" (sortedKeys idx15 "chr1") : search ["chr1", "5", "11"] ((sortedKeys idx15 "chr1").map IKey.node) = _)
example := (search_gen "chr1" "5" "x" (sortedKeys idx15 "chr1") : search ["chr1", "5", "x"] ((sortedKeys idx15 "chr1").map IKey.node) = _)
#guard exOk (search ["chr1", "5", "11"] ((sortedKeys idx15 "chr1").map IKey.node)) [IKey.node ("s2", "chr1", 4, 10), IKey.node ("s3", "chr1", 10, 15)]
#guard exOk (search ["chr1", "0", "3"] ((sortedKeys idx15 "chr1").map IKey.node)) [IKey.node ("s1", "chr1", 0, 4)]
#guard exErr (search ["chr1", "5", "x"] ((sortedKeys idx15 "chr1").map IKey.node)) VErr.valueError

-- `get_unstable`: two regions on the same contig (the cache is used for the second) and one on another
example : get_unstable ["chr1:5-11", "hap:0-3", "chr1:0-3"] (indOf idx15) =
    (match ["chr1:5-11", "hap:0-3", "chr1:0-3"].mapM parseRegion with
      | .error e => Except.error (ofPyErr e)
      | .ok rs => Except.ok ((rs.flatMap (fun r => regionNodes idx15 r.1 r.2.1 r.2.2)).map PyAtom.str)) := get_unstable_gen _ _
#guard exOk (get_unstable ["chr1:5-11", "hap:0-3", "chr1:0-3"] (indOf idx15)) [PyAtom.str "s2", .str "s3", .str "s4", .str "s1"]
#guard exErr (get_unstable ["chr1:5-11", "hap"] (indOf idx15)) VErr.indexError
#guard exErr (get_unstable ["chr1:5-11", "hap:a-3"] (indOf idx15)) VErr.valueError

-- `run` with `--node` (an unknown id among them), no `--format`
example : run rd15 ts15 tu15 id none (indOf idx15) (["s3", "zz", "s1"].map PyAtom.str) [] =
    finish rd15 ts15 tu15 id none (selectNodes idx15 ["s3", "zz", "s1"]) :=
  run_nodes_gen rd15 ts15 tu15 id none idx15 idx15_nodup _
#guard exOk (run rd15 ts15 tu15 id none (indOf idx15) (["s3", "zz", "s1"].map PyAtom.str) []) ["rec0", "rec1", "rec2"]
#guard exOk (run rd15 ts15 tu15 id none (indOf idx15) (["s1"].map PyAtom.str) []) ["rec0"]

example := (run_regions_reduce rd15 ts15 tu15 id (some "stable") idx15 [] "hap:0-3" ["chr1:0-3"] :
  run rd15 ts15 tu15 id (some "stable") (indOf idx15) [] ("hap:0-3" :: ["chr1:0-3"]) = _)

-- the whole selecting branch: regions + `--format stable`; nodes + `--format unstable` (a conversion raising); both given; nothing found;
-- a third format
example : run rd15 ts15 tu15 id (some "stable") (indOf idx15) (([] : List String).map PyAtom.str) ["hap:0-3", "chr1:0-3"] =
    (if ["hap:0-3", "chr1:0-3"].isEmpty then finish rd15 ts15 tu15 id (some "stable") (selectNodes idx15 [])
      else if !([] : List String).isEmpty then Except.error VErr.assertionError
      else match ["hap:0-3", "chr1:0-3"].mapM parseRegion with
        | .error e => Except.error (ofPyErr e)
        | .ok rs => finish rd15 ts15 tu15 id (some "stable") (selectRegions idx15 rs)) :=
  run_gen rd15 ts15 tu15 id (some "stable") idx15 idx15_nodup [] _
example := (run_gen rd15 ts15 tu15 id (some "unstable") idx15 idx15_nodup ["s2"] [] :
  run rd15 ts15 tu15 id (some "unstable") (indOf idx15) (["s2"].map PyAtom.str) [] = _)
example := (run_gen rd15 ts15 tu15 id none idx15 idx15_nodup ["s2"] ["chr1:0-3"] :
  run rd15 ts15 tu15 id none (indOf idx15) (["s2"].map PyAtom.str) ["chr1:0-3"] = _)
#guard exOk (run rd15 ts15 tu15 id (some "stable") (indOf idx15) [] ["hap:0-3", "chr1:0-3"]) ["S:rec0", "S:rec2"]
#guard exOk (run rd15 ts15 tu15 id (some "unstable") (indOf idx15) [PyAtom.str "s4"] []) ["U:rec2"]
#guard exErr (run rd15 ts15 tu15 id (some "unstable") (indOf idx15) [PyAtom.str "s2"] []) VErr.valueError
#guard exErr (run rd15 ts15 tu15 id none (indOf idx15) [PyAtom.str "s2"] ["chr1:0-3"]) VErr.assertionError
#guard exErr (run rd15 ts15 tu15 id none (indOf idx15) [PyAtom.str "zz"] []) (VErr.commandLineError noAlignments)
#guard exErr (run rd15 ts15 tu15 id none (indOf idx15) [] ["chr1:20-30"]) (VErr.commandLineError noAlignments)
#guard exErr (run rd15 ts15 tu15 id (some "gfa") (indOf idx15) [PyAtom.str "s2"] []) VErr.assertionError

example : selecting (["s1", "s2"].map PyAtom.str) [] = (!["s1", "s2"].isEmpty || !([] : List String).isEmpty) := selecting_gen _ _
#guard selecting (["s1", "s2"].map PyAtom.str) [] && !selecting [] []
end A15

/-! ## TieA27 : `view.run` outside the selection block, `list_is_path`, `get_path`, `get_contig_length`, the tables -/
section A27
open Gaftools.Gfa Gaftools.Conv Gaftools.View Gaftools.GraphExtra
open Gaftools.Gen.ViewPrep Gaftools.TieA.ViewPrep
open Gaftools.Gen.GfaMutate (St ctgGet TLine)
open Gaftools.Spec.Glue Gaftools.TieA20 Gaftools.Proofs.GraphExtra

/-! ### `String.toInt?` does not reduce in the kernel: two lemmas from `Std.Data.String.ToInt` (shipped with the toolchain) -/

theorem toInt_digits (s : String) (hne : s ≠ "") (hd : ∀ c ∈ s.toList, c.isDigit = true) :
    s.toInt? = some ((Nat.ofDigitChars 10 s.toList 0 : Nat) : Int) := by
  have h1 : s.isNat = true := String.isNat_of_isDigit hne hd
  have h2 := String.toNat?_eq_some_ofDigitChars h1
  have h3 : s.toList.filter (· != '_') = s.toList := by
    rw [List.filter_eq_self]
    intro c hc
    have := hd c hc
    by_cases h : c = '_'
    · subst h; exact absurd this (by decide)
    · simpa using h
  rw [h3] at h2
  exact String.toInt?_eq_some_iff.2 (Or.inl ⟨_, h2, rfl⟩)

theorem toInt_none (s : String) (h1 : s.toList.head? ≠ some '-') (h2 : ∃ c ∈ s.toList, c.isDigit = false ∧ c ≠ '_') :
    s.toInt? = none := by
  cases h : s.toInt? with
  | none => rfl
  | some a =>
    exfalso
    obtain ⟨c, hc, hcd, hcu⟩ := h2
    rcases String.toInt?_eq_some_iff.1 h with ⟨b, hb, _⟩ | ⟨t, ht, _⟩
    · have := (String.isNat_iff.1 (String.isNat_of_toNat?_eq_some hb)).2.1 c hc
      rcases this with h' | h'
      · rw [hcd] at h'; cases h'
      · exact hcu h'
    · apply h1
      rw [ht]
      simp

/-! ### a small rGFA -/

def tg (n t v : String) : Tag := ⟨n, t, v⟩
def sl (id seq ln sn so sr : String) : TLine :=
  ⟨some 'S', ⟨id, seq, [tg "LN" "i" ln, tg "SN" "Z" sn, tg "SO" "i" so, tg "SR" "i" sr]⟩, default⟩
def ll (a : String) (da : Bool) (b : String) (db : Bool) : TLine := ⟨some 'L', default, ⟨a, da, b, db, 0, []⟩⟩
/-- chr = a [0,3) b [3,5) c [5,9) (rank 0, out of file order), a rank-1 bubble h on hap [10,12); a header line; four links -/
def lines27 : List TLine :=
  [⟨some 'H', default, default⟩, sl "b" "GG" "2" "chr" "3" "0", sl "a" "ACT" "3" "chr" "0" "0", sl "h" "TT" "2" "hap" "10" "1",
   sl "c" "TTTA" "4" "chr" "5" "0", ll "a" true "b" true, ll "b" true "c" true, ll "a" true "h" true, ll "h" true "c" true]

def σ27 : St := match Gaftools.Gen.GfaMutate.load lines27 true with | .ok σ => σ | .error _ => default
theorem load27 : Gaftools.Gen.GfaMutate.load lines27 true = .ok σ27 := by rfl
#guard σ27.g.nodes.length == 4 && σ27.contigs == [("chr", 0), ("hap", 1)] && σ27.c2n == [("chr", ["b", "a", "c"]), ("hap", ["h"])]

/-- the values of all tags of the file -/
def vals27 : List String := ["2", "chr", "3", "0", "hap", "10", "1", "4", "5"]

theorem tagVal_mem {tags : List Tag} {name v : String} (h : tagVal tags name = some v) : v ∈ tags.map (·.val) := by
  unfold tagVal at h
  cases hf : tags.find? (fun t => t.name == name) with
  | none => rw [hf] at h; cases h
  | some t =>
    rw [hf] at h
    simp only [Option.map_some, Option.some.injEq] at h
    exact List.mem_map.mpr ⟨t, List.mem_of_find?_eq_some hf, h⟩

theorem toInt27 : ∀ v ∈ vals27, v.toInt? = (match v with | "chr" => none | "hap" => none | v => some ((Nat.ofDigitChars 10 v.toList 0 : Nat) : Int)) := by
  intro v hv
  simp only [vals27, List.mem_cons, List.not_mem_nil, or_false] at hv
  rcases hv with rfl | rfl | rfl | rfl | rfl | rfl | rfl | rfl | rfl
  · exact toInt_digits _ (by decide) (by decide)
  · exact toInt_none _ (by decide) ⟨'c', by decide, by decide, by decide⟩
  · exact toInt_digits _ (by decide) (by decide)
  · exact toInt_digits _ (by decide) (by decide)
  · exact toInt_none _ (by decide) ⟨'h', by decide, by decide, by decide⟩
  · exact toInt_digits _ (by decide) (by decide)
  · exact toInt_digits _ (by decide) (by decide)
  · exact toInt_digits _ (by decide) (by decide)
  · exact toInt_digits _ (by decide) (by decide)

theorem agree27 : ∀ v ∈ vals27, Gaftools.GraphExtra.pyInt v = v.toInt? ∧ Gaftools.TextLayer.pyInt v.toList = v.toInt? := by
  intro v hv
  rw [toInt27 v hv]
  revert v
  decide

theorem tagInt_of {tags : List Tag} {name v : String} {k : Int} (h1 : tagVal tags name = some v) (h2 : v.toInt? = some k) :
    tagInt tags name = some k := by
  unfold tagInt
  rw [h1]
  exact h2

theorem segs27 : (fileOf lines27).segs =
    [⟨"b", "GG", [tg "LN" "i" "2", tg "SN" "Z" "chr", tg "SO" "i" "3", tg "SR" "i" "0"]⟩,
     ⟨"a", "ACT", [tg "LN" "i" "3", tg "SN" "Z" "chr", tg "SO" "i" "0", tg "SR" "i" "0"]⟩,
     ⟨"h", "TT", [tg "LN" "i" "2", tg "SN" "Z" "hap", tg "SO" "i" "10", tg "SR" "i" "1"]⟩,
     ⟨"c", "TTTA", [tg "LN" "i" "4", tg "SN" "Z" "chr", tg "SO" "i" "5", tg "SR" "i" "0"]⟩] := by decide

theorem d2 : "2".toInt? = some 2 := toInt_digits _ (by decide) (by decide)
theorem d3 : "3".toInt? = some 3 := toInt_digits _ (by decide) (by decide)
theorem d0 : "0".toInt? = some 0 := toInt_digits _ (by decide) (by decide)
theorem d10 : "10".toInt? = some 10 := toInt_digits _ (by decide) (by decide)
theorem d1 : "1".toInt? = some 1 := toInt_digits _ (by decide) (by decide)
theorem d4 : "4".toInt? = some 4 := toInt_digits _ (by decide) (by decide)
theorem d5 : "5".toInt? = some 5 := toInt_digits _ (by decide) (by decide)

theorem rseg_some (s : SegLine) (sn so sr : String) (kso ksr : Int)
    (h1 : tagVal s.tags "SN" = some sn) (h2 : tagVal s.tags "SO" = some so) (h3 : tagVal s.tags "SR" = some sr)
    (h4 : so.toInt? = some kso) (h5 : sr.toInt? = some ksr) : (rsegOf s).isSome := by
  simp [rsegOf, h1, tagInt_of h2 h4, tagInt_of h3 h5]

theorem tagged27 : TaggedRGFA (fileOf lines27) := by
  refine ⟨by decide, by decide, ?_, ?_⟩
  · intro s hs
    rw [segs27] at hs
    simp only [List.mem_cons, List.not_mem_nil, or_false] at hs
    rcases hs with rfl | rfl | rfl | rfl
    · exact rseg_some _ "chr" "3" "0" 3 0 (by decide) (by decide) (by decide) d3 d0
    · exact rseg_some _ "chr" "0" "0" 0 0 (by decide) (by decide) (by decide) d0 d0
    · exact rseg_some _ "hap" "10" "1" 10 1 (by decide) (by decide) (by decide) d10 d1
    · exact rseg_some _ "chr" "5" "0" 5 0 (by decide) (by decide) (by decide) d5 d0
  · intro s hs
    rw [segs27] at hs
    simp only [List.mem_cons, List.not_mem_nil, or_false] at hs
    rcases hs with rfl | rfl | rfl | rfl
    · exact tagInt_of (v := "2") (by decide) d2
    · exact tagInt_of (v := "3") (by decide) d3
    · exact tagInt_of (v := "2") (by decide) d2
    · exact tagInt_of (v := "4") (by decide) d4

theorem ints27 : IntReadersAgree (readGraph (fileOf lines27) true) := by
  intro n hn name v hv
  have hall : ∀ n ∈ (readGraph (fileOf lines27) true).nodes, ∀ v ∈ n.tags.map (·.val), v ∈ vals27 := by decide
  exact (agree27 v (hall n hn v (tagVal_mem hv))).1

theorem srs27 : SrReadersAgree (fileOf lines27).segs := by
  intro s hs v hv
  have hall : ∀ s ∈ (fileOf lines27).segs, ∀ v ∈ s.tags.map (·.val), v ∈ vals27 := by decide
  exact (agree27 v (hall s hs v (tagVal_mem hv))).2

/-- the hypothesis of the table theorems holds for this file -/
theorem loaded27 : Loaded lines27 true σ27 := ⟨load27, tagged27, ints27, srs27⟩


/-! ### `list_is_path`, `get_path`, `get_contig_length` on the loaded object -/

example : list_is_path σ27 ["a", "b", "c"] = liftE (listIsPath σ27.g ["a", "b", "c"]) := list_is_path_gen _ _
example : list_is_path σ27 ["a", "c", "b"] = liftE (listIsPath σ27.g ["a", "c", "b"]) := list_is_path_gen _ _
example : list_is_path σ27 ["zz", "a", "b"] = liftE (listIsPath σ27.g ["zz", "a", "b"]) := list_is_path_gen _ _
#guard exOk (list_is_path σ27 ["a", "b", "c"]) true
#guard exOk (list_is_path σ27 ["a", "c", "b"]) false
#guard exErr (list_is_path σ27 ["zz", "a", "b"]) Err.keyError
#guard exOk (list_is_path σ27 ["a", "zz"]) false

example : get_path σ27 "chr" true = liftE ((⟨σ27.g, σ27.c2n⟩ : GFA).getPath "chr" true) := get_path_gen _ _ _
example : get_path σ27 "chr" false = Except.ok ((contigNodes σ27.g "chr").map (·.id)) := getPath_loaded loaded27 "chr"
#guard exOk (get_path σ27 "chr" true) ["a", "b", "c"]
#guard exOk (get_path σ27 "hap" true) ["h"]
#guard exOk (get_path σ27 "zz" true) []

example : get_contig_length σ27 "chr" true = liftE ((⟨σ27.g, σ27.c2n⟩ : GFA).getContigLength "chr" true) := get_contig_length_gen _ _ _
example : get_contig_length σ27 "chr" false =
    (match contigLen σ27.g "chr" with | none => Except.error (.systemExit 1) | some v => Except.ok v) := contigLength_loaded loaded27 "chr"
#guard exOk (get_contig_length σ27 "chr" true) 9
#guard exOk (get_contig_length σ27 "hap" false) 2
#guard exErr (get_contig_length σ27 "zz" false) (Err.systemExit 1)

/-! ### the tables -/

example : (nodeIds σ27).mapM (run_fun1 σ27) = Except.ok ((infos σ27.g).map (fun i => (i.id, (⟨i.sn, i.so, i.en⟩ : SNode)))) :=
  gfaNodes_gen σ27 loaded27.graph.1 loaded27.graph.2.1 loaded27.graph.2.2
#guard exOk ((nodeIds σ27).mapM (run_fun1 σ27))
    [("b", (⟨"chr", 3, 5⟩ : SNode)), ("a", ⟨"chr", 0, 3⟩), ("h", ⟨"hap", 10, 12⟩), ("c", ⟨"chr", 5, 9⟩)]
example : dictGet? (dictOfList ((infos σ27.g).map (fun i => (i.id, (⟨i.sn, i.so, i.en⟩ : SNode))))) "h" = nodeTable σ27.g "h" :=
  gfaNodes_lookup σ27.g loaded27.graph.1 "h"
#guard nodeTable σ27.g "h" == some ⟨"hap", 10, 12⟩ && nodeTable σ27.g "zz" == none

example : (dictKeys σ27.contigs).filter (fun c => ctgGet σ27.contigs c == some (0 : Int)) = refContigs σ27.g := refContig_gen loaded27
#guard (dictKeys σ27.contigs).filter (fun c => ctgGet σ27.contigs c == some (0 : Int)) == ["chr"] && dictKeys σ27.contigs == ["chr", "hap"]

example : ∃ cl, (refContigs σ27.g).foldlM (run_loop2 σ27) [] = Except.ok cl ∧
    ∀ c, dictGet? cl c = if c ∈ refContigs σ27.g then contigLen σ27.g c else none := contigLen_gen loaded27
#guard exOk ((refContigs σ27.g).foldlM (run_loop2 σ27) []) [("chr", (9 : Int))]

example : ∃ ref, (dictKeys σ27.contigs).foldlM (run_loop3 σ27) [] = Except.ok ref ∧ ∀ c, ddGet ref c = refEntries σ27 c :=
  reference_gen loaded27
example : (refEntries σ27 "chr").filterMap (fun o => (o.bind nodeInfo).map (fun i => (⟨i.id, i.so, i.en⟩ : Seg))) = View.reference σ27.g "chr" :=
  refEntries_model loaded27 "chr"
#guard (match (dictKeys σ27.contigs).foldlM (run_loop3 σ27) [] with
  | .ok ref => (ref.map (fun e => (e.1, e.2.map (fun o => o.map (·.id))))) == [("chr", [some "a", some "b", some "c"]), ("hap", [some "h"])]
  | .error _ => false)
#guard View.reference σ27.g "chr" == [⟨"a", 0, 3⟩, ⟨"b", 3, 5⟩, ⟨"c", 5, 9⟩]

example : ∃ nt cl, stableTables σ27 = Except.ok (some nt, refContigs σ27.g, cl, none) ∧ (∀ id, dictGet? nt id = nodeTable σ27.g id) ∧
    (∀ c, dictGet? cl c = if c ∈ refContigs σ27.g then contigLen σ27.g c else none) := stableTables_loaded loaded27
example : ∃ ref, unstableTables σ27 = Except.ok (none, [], [], some ref) ∧ ∀ c, ddGet ref c = refEntries σ27 c :=
  unstableTables_loaded loaded27
#guard (match stableTables σ27 with
  | .ok (some nt, rc, cl, none) => nt.length == 4 && rc == ["chr"] && cl == [("chr", 9)]
  | _ => false)
#guard (match unstableTables σ27 with
  | .ok (none, [], [], some ref) => (ddGet ref "chr").length == 3 && (ddGet ref "hap").length == 1 && (ddGet ref "zz").length == 0
  | _ => false)

/-! ### `view.run` with a record layer made of the generated conversions and the generated selection -/

/-- the right-hand side of `TieA10.toUnstable_gen` for a reference table -/
def genUr (reference : String → List Seg) (sp : Bool) (p : Gaftools.Gaf.Str) (plen ps pe : Int) : Option (List (Bool × String) × ConvOut) :=
  match (Gaftools.ConvText.pathTokens p).foldlM (Gaftools.Gen.convTokStep reference sp ps pe) Gaftools.Gen.convInit with
  | none => none
  | some g =>
    match g.split_contig with
    | none => none
    | some split =>
      let c := Gaftools.Gen.unstableCoords (!sp) split plen ps pe g.new_total g.new_start
      some (g.unstable_coord, ⟨true, c.1, c.2.1, c.2.2, !sp⟩)

def segsOfRef (ref : RefTable) (c : String) : List Seg :=
  (ddGet ref c).filterMap (fun o => (o.bind nodeInfo).map (fun i => (⟨i.id, i.so, i.en⟩ : Seg)))

/-- a record is its path column (columns 7-9 are 9, 0, 9 throughout, strand '+'); a printed item is the converted path and columns 7-9 -/
def conv27S (nt : NodeTable) (rc : List String) (cl : Dict String Int) (r : String) : M String :=
  match Gaftools.Gen.toStableS (fun id => nt.bind (fun d => Gaftools.Gen.ViewPrep.dictGet? d id)) rc
      (fun c => Gaftools.Gen.ViewPrep.dictGet? cl c) true r.toList 9 0 9 with
  | some (p, c) => .ok (String.ofList p ++ s!" {c.plen} {c.ps} {c.pe}")
  | none => .error .keyError
def conv27U (ref : RefTable) (r : String) : M String :=
  match genUr (segsOfRef ref) true r.toList 9 0 9 with
  | some (p, c) => .ok (String.ofList (Gaftools.ConvText.renderUPath p) ++ s!" {c.plen} {c.ps} {c.pe}")
  | none => .error .indexError

/-- the index of the two-record file `>a>b>c`, `>a>h>c` -/
def idx27 : List (Key × List Nat) :=
  [(("a", "chr", 0, 3), [0, 1]), (("b", "chr", 3, 5), [0]), (("c", "chr", 5, 9), [0, 1]), (("h", "hap", 10, 12), [1])]

def toV {α : Type} : M α → Gaftools.Gen.ViewSel.M α
  | .ok v => .ok v
  | .error _ => .error .keyError

def E27 (o : Gaftools.Cli.ViewOpts) (recs : List String) (ix : Bool) : Ext String String String (List (Key × List Nat)) :=
  { detect := fun r => Gaftools.Gaf.isStable r.toList
    loadGFA := fun lm => match Gaftools.Gen.GfaMutate.load lines27 lm with | .ok σ => .ok σ | .error _ => .error .valueError
    toStable := conv27S
    toUnstable := conv27U
    recs := recs
    rawLines := recs.map (· ++ " \n")
    gzFlag := false
    decodeUtf8 := String.toList
    asText := String.toList
    ofText := String.ofList
    pathExists := fun p => ix && p == "in.gaf.gvi"
    loadIndex := fun p => if p == "in.gaf.gvi" then .ok idx27 else .error .fileNotFoundError
    selectRest := fun ind nt rc cl ref =>
      match Gaftools.Gen.ViewSel.run (fun k => match recs[k]? with | some r => .ok r | none => .error .indexError)
          (fun r => toV (conv27S nt rc cl r)) (fun r => toV (bound ref >>= fun t => conv27U t r)) id o.format
          (Gaftools.TieA.ViewSel.indOf ind) (o.nodes.map Gaftools.Gen.ViewSel.PyAtom.str) o.regions with
      | .ok l => .ok l
      | .error (.commandLineError m) => .error (.commandLineError m)
      | .error _ => .error .keyError }

def recsU : List String := [">a>b>c", ">a>h>c"]
def recsS : List String := ["chr", ">chr:0-3>hap:10-12>chr:5-9"]
def oS : Gaftools.Cli.ViewOpts := { gaf_path := "in.gaf", format := some "stable" }
def oU : Gaftools.Cli.ViewOpts := { gaf_path := "in.gaf", format := some "unstable", output := some "out.gaf" }
def oN : Gaftools.Cli.ViewOpts := { gaf_path := "in.gaf", format := some "stable", nodes := ["b", "h"] }
def oR : Gaftools.Cli.ViewOpts := { gaf_path := "in.gaf", regions := ["chr:3-4", "hap:0-20"], index := some "in.gaf.gvi" }
def oP : Gaftools.Cli.ViewOpts := { gaf_path := "in.gaf" }

-- the loop over the first ten records: twelve records (the eleventh of the other kind is not looked at), a mixed file, an empty one
def recs12 : List String := List.replicate 10 ">a>b>c" ++ ["chr", ">a>h>c"]
example : forBrk (enumFrom 0 (E27 oP recs12 false).recs) none (run_loop1 (E27 oP recs12 false)) =
    detectSpec (E27 oP recs12 false).detect (E27 oP recs12 false).recs := detect_gen _
#guard exOk (forBrk (enumFrom 0 recs12) none (run_loop1 (E27 oP recs12 false))) (some false)
#guard exOk (forBrk (enumFrom 0 recsS) none (run_loop1 (E27 oP recsS false))) (some true)
#guard exErr (forBrk (enumFrom 0 (recsU ++ recsS)) none (run_loop1 (E27 oP (recsU ++ recsS) false))) Err.assertionError
#guard exOk (forBrk (enumFrom 0 ([] : List String)) none (run_loop1 (E27 oP [] false))) none

/-- the tables of `--format stable` / `--format unstable` for the loaded file -/
def TS27 : Tables := match stableTables σ27 with | .ok T => T | .error _ => (none, [], [], none)
def TU27 : Tables := match unstableTables σ27 with | .ok T => T | .error _ => (none, [], [], none)

example : unstable_to_stable (E27 oS recsU false) "in.gaf" TS27.1 TS27.2.1 TS27.2.2.1 =
    (E27 oS recsU false).recs.mapM ((E27 oS recsU false).toStable TS27.1 TS27.2.1 TS27.2.2.1) := unstable_to_stable_gen _ _ _ _ _
#guard exOk (unstable_to_stable (E27 oS recsU false) "in.gaf" TS27.1 TS27.2.1 TS27.2.2.1) ["chr 9 0 9", ">chr:0-3>hap:10-12>chr:5-9 9 0 9"]
example : stable_to_unstable (E27 oU recsS false) "in.gaf" (TU27.2.2.2.getD []) =
    (E27 oU recsS false).recs.mapM ((E27 oU recsS false).toUnstable (TU27.2.2.2.getD [])) := stable_to_unstable_gen _ _ _
#guard exOk (stable_to_unstable (E27 oU recsS false) "in.gaf" (TU27.2.2.2.getD [])) [">a>b>c 9 0 9", ">a>h>c 9 0 9"]

/-- the right-hand side of `run_gen` -/
def runSpec {Rec Out Line Ind : Type} (E : Ext Rec Out Line Ind) (o : Gaftools.Cli.ViewOpts) : M (Writer × List Out) :=
  detectSpec E.detect E.recs >>= fun fmt =>
    match Gaftools.Cli.viewHead fmt { o with nodes := [], regions := [] } false with
    | .assertionError => Except.error .assertionError
    | .commandLineError m => Except.error (.commandLineError m)
    | .proceed _ =>
      tables E o.format >>= fun T =>
        (match Gaftools.Cli.viewHead none { o with format := none } (E.pathExists (o.gaf_path ++ ".gvi")) with
          | .commandLineError m => Except.error (.commandLineError m)
          | .assertionError => Except.error .assertionError
          | .proceed (some p) => E.loadIndex p >>= fun ind => E.selectRest ind T.1 T.2.1 T.2.2.1 T.2.2.2
          | .proceed none => wholeFile E o.format T) >>= fun out => Except.ok (writerOf o.output, out)

example : run (E27 oS recsU false) oS.gaf_path oS.output oS.index oS.nodes oS.regions oS.format = runSpec (E27 oS recsU false) oS := run_gen _ _
example : run (E27 oU recsS false) oU.gaf_path oU.output oU.index oU.nodes oU.regions oU.format = runSpec (E27 oU recsS false) oU := run_gen _ _
example : run (E27 oN recsU true) oN.gaf_path oN.output oN.index oN.nodes oN.regions oN.format = runSpec (E27 oN recsU true) oN := run_gen _ _
example : run (E27 oR recsU false) oR.gaf_path oR.output oR.index oR.nodes oR.regions oR.format = runSpec (E27 oR recsU false) oR := run_gen _ _
example : run (E27 oP recsU false) oP.gaf_path oP.output oP.index oP.nodes oP.regions oP.format = runSpec (E27 oP recsU false) oP := run_gen _ _
#guard exOk (run (E27 oS recsU false) "in.gaf" none none [] [] (some "stable")) (Writer.stdout, ["chr 9 0 9", ">chr:0-3>hap:10-12>chr:5-9 9 0 9"])
#guard exOk (run (E27 oU recsS false) "in.gaf" (some "out.gaf") none [] [] (some "unstable")) (Writer.file "out.gaf", [">a>b>c 9 0 9", ">a>h>c 9 0 9"])
#guard exOk (run (E27 oN recsU true) "in.gaf" none none ["b", "h"] [] (some "stable")) (Writer.stdout, ["chr 9 0 9", ">chr:0-3>hap:10-12>chr:5-9 9 0 9"])
#guard exOk (run (E27 { oN with nodes := ["h"] } recsU true) "in.gaf" none none ["h"] [] (some "stable")) (Writer.stdout, [">chr:0-3>hap:10-12>chr:5-9 9 0 9"])
#guard exOk (run (E27 oR recsU false) "in.gaf" none (some "in.gaf.gvi") [] ["chr:3-4", "hap:0-20"] none) (Writer.stdout, [">a>b>c", ">a>h>c"])
#guard exOk (run (E27 oP recsU false) "in.gaf" none none [] [] none) (Writer.stdout, [">a>b>c", ">a>h>c"])
#guard exErr (run (E27 oN recsU false) "in.gaf" none none ["b", "h"] [] (some "stable"))
    (Err.commandLineError "No index found. Please provide the path to the index or create one with gaftools index.")
#guard exErr (run (E27 oS recsS false) "in.gaf" none none [] [] (some "stable"))
    (Err.commandLineError "Input GAF already has stable coordinates. Please remove the --format stable option")
#guard exErr (run (E27 oU recsU false) "in.gaf" (some "out.gaf") none [] [] (some "unstable"))
    (Err.commandLineError "Input GAF already has unstable coordinates. Please remove the --format unstable option")

-- against the undivided `Cli.viewHead`: the three outcomes
theorem det27U : detectSpec (E27 oN recsU true).detect (E27 oN recsU true).recs = Except.ok (some false) := by decide
example : run (E27 oN recsU true) oN.gaf_path oN.output oN.index oN.nodes oN.regions oN.format =
    (tables (E27 oN recsU true) oN.format >>= fun T =>
      ((E27 oN recsU true).loadIndex "in.gaf.gvi" >>= fun ind => (E27 oN recsU true).selectRest ind T.1 T.2.1 T.2.2.1 T.2.2.2) >>= fun out =>
        Except.ok (writerOf oN.output, out)) :=
  run_viewHead (E27 oN recsU true) oN (some false) det27U
example : run (E27 oN recsU false) oN.gaf_path oN.output oN.index oN.nodes oN.regions oN.format =
      Except.error (.commandLineError "No index found. Please provide the path to the index or create one with gaftools index.") ∨
    ∃ e, tables (E27 oN recsU false) oN.format = Except.error e ∧
      run (E27 oN recsU false) oN.gaf_path oN.output oN.index oN.nodes oN.regions oN.format = Except.error e :=
  run_viewHead (E27 oN recsU false) oN (some false) (by decide)
example : run (E27 { oS with format := some "gfa" } recsU false) "in.gaf" none none [] [] (some "gfa") = Except.error .assertionError :=
  run_viewHead (E27 { oS with format := some "gfa" } recsU false) { oS with format := some "gfa" } (some false) (by decide)

/-- what the whole-file branch prints for `--format stable` -/
def out27 : List String := match wholeFile (E27 oS recsU false) (some "stable") TS27 with | .ok l => l | .error _ => []
theorem whole27 : wholeFile (E27 oS recsU false) (some "stable") TS27 = Except.ok out27 := by rfl
example : out27.length = (E27 oS recsU false).recs.length ∧ ∀ i (hi : i < (E27 oS recsU false).recs.length) (ho : i < out27.length),
    (if (some "stable" : Option String) == some "stable" then (E27 oS recsU false).toStable TS27.1 TS27.2.1 TS27.2.2.1 (E27 oS recsU false).recs[i]
      else bound TS27.2.2.2 >>= fun r => (E27 oS recsU false).toUnstable r (E27 oS recsU false).recs[i]) = Except.ok out27[i] :=
  wholeFile_records (E27 oS recsU false) (some "stable") TS27 out27 rfl whole27
#guard out27 == ["chr 9 0 9", ">chr:0-3>hap:10-12>chr:5-9 9 0 9"]
example : wholeFile (E27 oP recsU false) none TS27 = Except.ok ((E27 oP recsU false).rawLines.map (plainLine (E27 oP recsU false))) :=
  wholeFile_plain _ none _ rfl
#guard (E27 oP recsU false).rawLines.map (plainLine (E27 oP recsU false)) == [">a>b>c", ">a>h>c"] &&
  (E27 oP recsU false).rawLines == [">a>b>c \n", ">a>h>c \n"]
end A27

end Gaftools.NonVacuousB
