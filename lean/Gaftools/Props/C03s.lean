import Gaftools.Spec.Conv
import Gaftools.Proofs.SearchLemmas
/-!
# Search lemmas shared by C01 (stable → unstable) and C03 (index of stable records)

`search_intervals` + the three `cases` select exactly the segments that overlap the query, in list order.
-/
namespace Gaftools.C03
open Gaftools.Conv Gaftools.Spec.Conv Gaftools.Proofs.Search

/-- the three cases are exactly "non-empty overlap" for a non-empty query and a non-empty segment -/
theorem overlapCase_iff (sg : Seg) (qs qe : Int) (hq : qs < qe) (hs : sg.so < sg.en) :
    overlapCase sg qs qe ≠ 0 ↔ overlaps sg qs qe = true := by
  rw [overlaps_iff]
  unfold overlapCase
  split
  · simp; omega
  · split
    · simp; omega
    · split
      · simp; omega
      · simp; omega

/-- L3: the window returned by the bisection contains every overlapping segment (indices), for any fuel that suffices -/
theorem searchIv_window (iv : List Seg) (hsd : SortedDisjoint iv) (qs qe : Int) (fuel : Nat) (s e : Int) (hs : 0 ≤ s)
    (hinv : ∀ i (hi : i < iv.length), overlaps iv[i] qs qe = true → s ≤ (i : Int) ∧ (i : Int) ≤ e)
    (r : Int × Int) (h : searchIv iv qs qe fuel s e = some r) :
    ∀ i (hi : i < iv.length), overlaps iv[i] qs qe = true → r.1 ≤ (i : Int) ∧ (i : Int) ≤ r.2 := by
  exact searchIv_window_aux iv hsd qs qe fuel s e hs hinv r h

set_option linter.unusedVariables false in -- `hq` is part of the stated interface, not needed by the proof
/-- the search never raises when some segment overlaps the query (and the fuel `length + 2` always suffices) -/
theorem searchIv_isSome (iv : List Seg) (hsd : SortedDisjoint iv) (qs qe : Int) (hq : qs < qe)
    (hex : ∃ sg ∈ iv, overlaps sg qs qe = true) :
    (searchIv iv qs qe (iv.length + 2) 0 iv.length).isSome := by
  obtain ⟨sg, hmem, hov⟩ := hex
  obtain ⟨i, hi, rfl⟩ := List.getElem_of_mem hmem
  exact searchIv_isSome_aux iv hsd qs qe i hi hov _ 0 iv.length (by omega) (by omega) (by omega) (by omega) (by omega)

/-- MAIN: the nodes picked by search + cases are exactly the overlapping segments, in offset order -/
theorem selected_eq_overlaps (iv : List Seg) (hsd : SortedDisjoint iv) (qs qe : Int) (hq : qs < qe)
    (r : Int × Int) (h : searchIv iv qs qe (iv.length + 2) 0 iv.length = some r) :
    (window iv r).filter (fun sg => overlapCase sg qs qe ≠ 0) = iv.filter (fun sg => overlaps sg qs qe) := by
  have hw := searchIv_window iv hsd qs qe _ 0 iv.length (by omega)
    (fun i hi _ => ⟨by omega, by omega⟩) r h
  have hr := searchIv_res iv qs qe _ 0 iv.length (by omega) r h
  have hcongr : ∀ l : List Seg, (∀ x ∈ l, x ∈ iv) →
      l.filter (fun sg => overlapCase sg qs qe ≠ 0) = l.filter (fun sg => overlaps sg qs qe) := by
    intro l hl
    apply List.filter_congr
    intro x hx
    have := overlapCase_iff x qs qe hq (hsd.1 x (hl x hx))
    cases hb : overlaps x qs qe <;> simp [hb] at this ⊢ <;> exact this
  unfold window
  split
  · rename_i hneg
    symm
    rw [List.filter_nil, List.filter_eq_nil_iff]
    intro x hx hov
    obtain ⟨i, hi, rfl⟩ := List.getElem_of_mem hx
    have := hw i hi hov
    rcases hr with rfl | h0
    · simp at this; omega
    · omega
  · rename_i hnn
    rw [hcongr _ (fun x hx => List.mem_of_mem_drop (List.mem_of_mem_take hx))]
    apply filter_window
    intro i hi hp
    have := hw i hi hp
    omega

theorem mem_refOf_aux (segs : List RSeg) (c : String) (sg : Seg) :
    sg ∈ refOf segs c ↔ ∃ s ∈ segs, s.sn = c ∧ sg = ⟨s.id, s.so, s.en⟩ := by
  unfold refOf
  rw [mem_foldl_insertBySo]
  simp only [List.mem_map, List.mem_filter, beq_iff_eq, List.not_mem_nil, or_false]
  constructor
  · rintro ⟨s, ⟨hs, hc⟩, rfl⟩; exact ⟨s, hs, hc, rfl⟩
  · rintro ⟨s, hs, hc, rfl⟩; exact ⟨s, ⟨hs, hc⟩, rfl⟩

/-- `refOf` (the per-contig table) is sorted and disjoint for a valid rGFA, and lists exactly the contig's segments -/
theorem refOf_sortedDisjoint (segs : List RSeg) (hv : ValidRGFA segs) (c : String) : SortedDisjoint (refOf segs c) := by
  have hmem := fun sg => (mem_refOf_aux segs c sg)
  constructor
  · intro sg hsg
    obtain ⟨s, hs, _, rfl⟩ := (hmem sg).mp hsg
    have := (hv.pos s hs).2
    have hl : 0 < s.seq.length := List.length_pos_iff.mpr this
    simp only [RSeg.en]
    omega
  · unfold refOf
    apply foldl_insertBySo_pairwise _ [] List.Pairwise.nil
    · rw [List.pairwise_map]
      have h1 : segs.Pairwise (fun a b => a.id ≠ b.id) := List.pairwise_map.mp hv.ids
      have h2 : segs.Pairwise (fun a b => a.sn = b.sn →
          Disj ⟨a.id, a.so, a.en⟩ ⟨b.id, b.so, b.en⟩) := by
        apply List.Pairwise.imp_of_mem _ h1
        intro a b ha hb hid hsn
        have hab : a ≠ b := fun heq => hid (by rw [heq])
        have ha1 := List.length_pos_iff.mpr (hv.pos a ha).2
        have hb1 := List.length_pos_iff.mpr (hv.pos b hb).2
        have hd := hv.disjoint a ha b hb hsn hab
        simp only [Disj, RSeg.en] at hd ⊢
        omega
      have h3 := h2.filter (fun s => s.sn == c)
      apply List.Pairwise.imp_of_mem _ h3
      intro a b ha hb hab
      simp only [List.mem_filter, beq_iff_eq] at ha hb
      exact hab (ha.2.trans hb.2.symm)
    · intro x _ y hy; simp at hy

theorem mem_refOf (segs : List RSeg) (c : String) (sg : Seg) :
    sg ∈ refOf segs c ↔ ∃ s ∈ segs, s.sn = c ∧ sg = ⟨s.id, s.so, s.en⟩ := by
  exact mem_refOf_aux segs c sg

/-! non-vacuity -/
def exIv : List Seg := [⟨"a", 0, 3⟩, ⟨"b", 3, 5⟩, ⟨"c", 5, 9⟩, ⟨"d", 20, 25⟩]
example : searchIv exIv 4 7 6 0 4 = some (0, 4) := by decide
example : (window exIv (0, 4)).filter (fun sg => overlapCase sg 4 7 ≠ 0) = [⟨"b", 3, 5⟩, ⟨"c", 5, 9⟩] := by decide
example : exIv.filter (fun sg => overlaps sg 4 7) = [⟨"b", 3, 5⟩, ⟨"c", 5, 9⟩] := by decide

end Gaftools.C03
