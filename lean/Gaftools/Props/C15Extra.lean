import Gaftools.Proofs.GraphExtraLemmas
import Gaftools.Proofs.GraphExtraGlue
/-!
# C15 (extra) — the remaining helpers of `gaftools/gfa.py`

Theorems about the model `Model/GraphExtra.lean` (tied to the real code by the correspondence `harness/p_graph_extra.py`,
driver op `graph.extra`).  Every theorem is followed by a `#guard`ed / `decide`d example showing that its hypotheses can be
met and its conclusion says something.  `NodupIds g` = the node ids of `g` are pairwise different, which is what the Python
dict `GFA.nodes` guarantees; it holds for every loaded graph (`readGFA_nodupIds`) and is kept by `remove_lonely_nodes` and
`graph_from_comp` (`removeLonely_nodupIds`, `graphFromComp_nodes`).

Statements that turned out FALSE of the model (which mirrors the code) are kept with their counterexamples:
* `return_gfa_path` of a list that `list_is_path` accepts need not be a walk of the graph (`returnGfaPath_not_walk`);
* `is_equal_to` is not symmetric / reflexive on node lists with a repeated id (`isEqualTo_not_symm_dup`, `isEqualTo_not_refl_dup`) —
  not reachable through the library, hence the hypothesis `NodupIds`;
* `get_path` after `remove_lonely_nodes` raises `KeyError` (`getPath_after_removeLonely_keyError`) — reachable, see the report.
-/
namespace Gaftools.C15Extra
open Gaftools.Gfa Gaftools.View Gaftools.GraphExtra Gaftools.Proofs.GraphExtra Gaftools.Proofs.Gfa Gaftools.Proofs.Hist

/-! ## examples used for non-vacuity -/

deriving instance DecidableEq for Except

/-- `a+ → b+`, `b+ → c-`, `d` alone; rGFA tags: contig `chr` = a (SO 0), b (SO 2), c (SO 5); contig `hap` = d -/
def exFile : GfaFile :=
  { segs := [⟨"a", "AC", [⟨"LN", "i", "2"⟩, ⟨"SN", "Z", "chr"⟩, ⟨"SO", "i", "0"⟩, ⟨"SR", "i", "0"⟩]⟩,
             ⟨"c", "G", [⟨"LN", "i", "1"⟩, ⟨"SN", "Z", "chr"⟩, ⟨"SO", "i", "5"⟩, ⟨"SR", "i", "0"⟩]⟩,
             ⟨"b", "TTT", [⟨"LN", "i", "3"⟩, ⟨"SN", "Z", "chr"⟩, ⟨"SO", "i", "2"⟩, ⟨"SR", "i", "0"⟩]⟩,
             ⟨"d", "A", [⟨"LN", "i", "1"⟩, ⟨"SN", "Z", "hap"⟩, ⟨"SO", "i", "7"⟩, ⟨"SR", "i", "1"⟩]⟩],
    links := [⟨"a", true, "b", true, 0, []⟩, ⟨"b", true, "c", false, 0, []⟩] }
def ex : GFA := readGFA exFile
def exNode (id : String) : Node := (ex.g.find id).getD default

/-! ## `Node.children`, `Node.in_direction` -/

/-- `children(d)`: the ids of the entries of `start` (d = 0) / `end` (d = 1), nothing else -/
theorem children_ok_iff (n : Node) (d : Int) (l : List String) :
    n.children d = .ok l ↔ (d = 0 ∧ l = n.startAdj.map (·.1)) ∨ (d = 1 ∧ l = n.endAdj.map (·.1)) := by
  unfold Node.children
  by_cases h0 : d = 0
  · subst h0; simp [sideOf_zero, bind, Except.bind, pure, Except.pure, Node.side, eq_comm]
  · by_cases h1 : d = 1
    · subst h1; simp [sideOf_one, bind, Except.bind, pure, Except.pure, Node.side, eq_comm]
    · simp [sideOf, h0, h1, bind, Except.bind]

/-- any other direction: `ValueError`, for both functions -/
theorem children_error_iff (n : Node) (d : Int) (e : PyErr) :
    n.children d = .error e ↔ e = .valueError ∧ d ≠ 0 ∧ d ≠ 1 := by
  unfold Node.children
  by_cases h0 : d = 0
  · subst h0; simp [sideOf_zero, bind, Except.bind, pure, Except.pure]
  · by_cases h1 : d = 1
    · subst h1; simp [sideOf_one, bind, Except.bind, pure, Except.pure]
    · simp [sideOf, h0, h1, bind, Except.bind, eq_comm]

/-- `in_direction(other, d)` is membership in `children(d)` (same error) -/
theorem inDirection_eq_children (n : Node) (o : String) (d : Int) :
    n.inDirection o d = (n.children d).map (fun l => l.contains o) := by
  unfold Node.inDirection Node.children
  cases sideOf d <;> rfl

/-- `in_direction(other, d)` is true iff `other` is the id of some adjacency entry on side `d` -/
theorem inDirection_iff (n : Node) (o : String) (d : Int) :
    n.inDirection o d = .ok true ↔
      (d = 0 ∧ ∃ side ov, (o, side, ov) ∈ n.startAdj) ∨ (d = 1 ∧ ∃ side ov, (o, side, ov) ∈ n.endAdj) := by
  unfold Node.inDirection
  by_cases h0 : d = 0
  · subst h0; simp [sideOf_zero, bind, Except.bind, pure, Except.pure, Node.side]
  · by_cases h1 : d = 1
    · subst h1; simp [sideOf_one, bind, Except.bind, pure, Except.pure, Node.side]
    · simp [sideOf, h0, h1, bind, Except.bind]

theorem children_mem (n : Node) (d : Int) (l : List String) (h : n.children d = .ok l) (o : String) :
    o ∈ l ↔ n.inDirection o d = .ok true := by
  rw [inDirection_eq_children, h]; simp [Except.map]

#guard (exNode "b").children 0 == .ok ["a"] && (exNode "b").children 1 == .ok ["c"] && (exNode "b").children 2 == .error .valueError
#guard (exNode "b").inDirection "c" 1 == .ok true && (exNode "b").inDirection "c" 0 == .ok false && (exNode "b").inDirection "c" (-1) == .error .valueError

/-! ## `list_is_path` -/

/-- `list_is_path` answers `True` iff every consecutive pair `(prev, cur)` has `cur` among the neighbours of `prev`
    (`g.neighbors prev` is empty for an unknown `prev`, so an unknown node is never accepted) -/
theorem listIsPath_iff (g : Graph) (l : List String) :
    listIsPath g l = .ok true ↔ ∀ i (h : i + 1 < l.length), l[i + 1] ∈ g.neighbors l[i] :=
  listIsPath_true_iff g l

/-- in terms of the adjacency sets -/
theorem listIsPath_iff_adj (g : Graph) (l : List String) :
    listIsPath g l = .ok true ↔ ∀ i (h : i + 1 < l.length), ∃ s sm ov, (l[i + 1], sm, ov) ∈ g.adj l[i] s := by
  rw [listIsPath_true_iff]
  constructor <;> intro H i h
  · exact (mem_neighbors g _ _).mp (H i h)
  · exact (mem_neighbors g _ _).mpr (H i h)

/-- the only exception is the `KeyError` of `self.nodes[previous_node]`, and it needs an unknown non-final node -/
theorem listIsPath_error (g : Graph) (l : List String) (e : PyErr) (h : listIsPath g l = .error e) :
    e = .keyError ∧ ∃ i, ∃ _ : i + 1 < l.length, g.has l[i] = false :=
  Proofs.GraphExtra.listIsPath_error g l e h

/-- no exception when all nodes but the last are nodes of the graph (the last one is only ever looked *for*) -/
theorem listIsPath_total (g : Graph) (l : List String) (h : ∀ i, ∀ _ : i + 1 < l.length, g.has l[i] = true) :
    ∃ b, listIsPath g l = .ok b :=
  Proofs.GraphExtra.listIsPath_total g l h

#guard listIsPath ex.g ["a", "b", "c"] == .ok true && listIsPath ex.g ["c", "b", "a", "b"] == .ok true
#guard listIsPath ex.g ["a", "c"] == .ok false && listIsPath ex.g ["a", "b", "zz"] == .ok false
#guard listIsPath ex.g ["zz", "a"] == .error .keyError && listIsPath ex.g ["zz"] == .ok true

/-! ## `return_gfa_path` -/

/-- on success there is one entry per node, and the list had at least two nodes -/
theorem returnGfaPath_length (g : Graph) (l : List String) (r : List (String × Bool)) (h : returnGfaPathO g l = .ok r) :
    r.length = l.length ∧ 2 ≤ l.length := by
  unfold returnGfaPathO at h
  cases hb : gfaPathBody g l with
  | error e => rw [hb] at h; simp [bind, Except.bind] at h
  | ok body =>
    cases hl : gfaPathLast g l with
    | error e => rw [hb, hl] at h; simp [bind, Except.bind] at h
    | ok e =>
      rw [hb, hl] at h
      simp [bind, Except.bind, pure, Except.pure] at h
      subst h
      have h2 : 2 ≤ l.length := by
        apply Decidable.byContradiction; intro hn
        rw [gfaPathLast_short g l (by omega)] at hl; cases hl
      have := (gfaPathBody_ok g l body hb).1
      exact ⟨by simp; omega, h2⟩

/-- a list of fewer than two nodes always raises: `IndexError`, or `KeyError` for a single unknown node -/
theorem returnGfaPath_short (g : Graph) (l : List String) (h : l.length < 2) :
    returnGfaPathO g l =
      .error (match l with | [a] => if g.has a then .indexError else .keyError | _ => .indexError) := by
  unfold returnGfaPathO
  have hl := gfaPathLast_short g l h
  match l, h with
  | [], _ => rfl
  | [a], _ => rw [hl]; rfl

/-- the orientation signs: entry `i` names node `l[i]`, which is a node of the graph;
    for every node but the last the sign is `+` iff the NEXT node is linked at its end side, and `-` implies it is linked at
    its start side; for the last node the sign is `+` iff the PREVIOUS node is linked at its start side, and `-` implies it
    is linked at its end side -/
theorem returnGfaPath_orient (g : Graph) (l : List String) (r : List (String × Bool)) (h : returnGfaPathO g l = .ok r) :
    ∀ i (hi : i < l.length) (hr : i < r.length),
      if hn : i + 1 < l.length then OrientSpec g l[i] l[i + 1] true r[i]
      else OrientSpec g l[i] (l[i - 1]'(by omega)) false r[i] := by
  have hlen := returnGfaPath_length g l r h
  unfold returnGfaPathO at h
  cases hb : gfaPathBody g l with
  | error e => rw [hb] at h; simp [bind, Except.bind] at h
  | ok body =>
    cases hl : gfaPathLast g l with
    | error e => rw [hb, hl] at h; simp [bind, Except.bind] at h
    | ok e =>
      rw [hb, hl] at h
      simp [bind, Except.bind, pure, Except.pure] at h
      subst h
      obtain ⟨hbl, hspec⟩ := gfaPathBody_ok g l body hb
      intro i hi hr
      by_cases hn : i + 1 < l.length
      · simp only [hn, dite_true]
        have hib : i < body.length := by omega
        have := hspec i hn hib
        rwa [List.getElem_append_left hib]
      · simp only [hn, dite_false]
        have hi' : i = l.length - 1 := by omega
        have hib : body.length ≤ i := by omega
        rw [gfaPathLast_eq g l hlen.2] at hl
        have hs := (orient_start_ok_iff g _ _ e).mp hl
        have he : (body ++ [e])[i] = e := by
          rw [List.getElem_append_right hib]; simp
        rw [he]
        subst hi'
        have : l.length - 1 - 1 = l.length - 2 := by omega
        simpa [this] using hs

/-- the two ways `return_gfa_path` of a list of at least two nodes can fail: `KeyError` needs an unknown node, `ValueError`
    needs a node not linked to its successor (for the last node: predecessor) on either side -/
theorem returnGfaPath_error (g : Graph) (l : List String) (e : PyErr) (h2 : 2 ≤ l.length) (h : returnGfaPathO g l = .error e) :
    (e = .keyError ∧ ∃ a ∈ l, g.has a = false) ∨
    (e = .valueError ∧ ∃ i, ∃ _ : i + 1 < l.length, l[i + 1] ∉ g.neighbors l[i] ∨ l[i] ∉ g.neighbors l[i + 1]) := by
  have key : ∀ (a o : String) (d1 d2 : Int), ((d1 = 1 ∧ d2 = 0) ∨ (d1 = 0 ∧ d2 = 1)) → orient g a o d1 d2 = .error e →
      (e = .keyError ∧ g.has a = false) ∨ (e = .valueError ∧ o ∉ g.neighbors a) := by
    intro a o d1 d2 hd ho
    rcases (orient_error_iff g a o d1 d2 hd e).mp ho with ⟨hh, he⟩ | ⟨n, hf, h0, h1, he⟩
    · exact Or.inl ⟨he, hh⟩
    · refine Or.inr ⟨he, ?_⟩
      rw [mem_neighbors_find hf]; exact fun h => h.elim h0 h1
  unfold returnGfaPathO at h
  cases hb : gfaPathBody g l with
  | error e' =>
    rw [hb] at h; simp [bind, Except.bind] at h; subst h
    obtain ⟨i, hi, ho⟩ := gfaPathBody_error g l e' hb
    rcases key _ _ 1 0 (Or.inl ⟨rfl, rfl⟩) ho with ⟨he, hh⟩ | ⟨he, hh⟩
    · exact Or.inl ⟨he, l[i], List.getElem_mem _, hh⟩
    · exact Or.inr ⟨he, i, hi, Or.inl hh⟩
  | ok body =>
    cases hl : gfaPathLast g l with
    | ok x => rw [hb, hl] at h; simp [bind, Except.bind, pure, Except.pure] at h
    | error e' =>
      rw [hb, hl] at h; simp [bind, Except.bind] at h; subst h
      rw [gfaPathLast_eq g l h2] at hl
      rcases key _ _ 0 1 (Or.inr ⟨rfl, rfl⟩) hl with ⟨he, hh⟩ | ⟨he, hh⟩
      · exact Or.inl ⟨he, _, List.getElem_mem _, hh⟩
      · refine Or.inr ⟨he, l.length - 2, by omega, Or.inr ?_⟩
        have : l.length - 2 + 1 = l.length - 1 := by omega
        simpa [this] using hh

#guard returnGfaPathO ex.g ["a", "b", "c"] == .ok [("a", true), ("b", true), ("c", false)]
#guard returnGfaPath ex.g ["a", "b", "c"] == .ok "a+,b+,c-" && returnGfaPath ex.g ["c", "b", "a"] == .ok "c+,b-,a-"
#guard returnGfaPath ex.g [] == .error .indexError && returnGfaPath ex.g ["a"] == .error .indexError && returnGfaPath ex.g ["zz"] == .error .keyError
#guard returnGfaPath ex.g ["a", "c"] == .error .valueError && returnGfaPath ex.g ["a", "zz"] == .error .valueError && returnGfaPath ex.g ["a", "b", "zz"] == .error .valueError
#guard returnGfaPath ex.g ["zz", "a"] == .error .keyError

/-- FALSE as first written ("a list accepted by `list_is_path` is rendered as a walk of the graph"): the sign of an inner node
    is chosen by the side its *successor* hangs on only; the side its predecessor hangs on is never looked at.
    Links `p+ → q-` (end of `p` to end of `q`) and `q+ → r+` (end of `q` to start of `r`): `[p, q, r]` is accepted by
    `list_is_path` and rendered `p+,q+,r+`, but `>p>q>r` is not a walk (`path_exists` says `False`): coming from `p` one
    arrives at the END of `q`, so `q` is traversed backwards and would have to be left through its START, where nothing hangs. -/
def nwFile : GfaFile :=
  { segs := [⟨"p", "A", []⟩, ⟨"q", "C", []⟩, ⟨"r", "G", []⟩],
    links := [⟨"p", true, "q", false, 0, []⟩, ⟨"q", true, "r", true, 0, []⟩] }
theorem returnGfaPath_not_walk :
    listIsPath (readGFA nwFile).g ["p", "q", "r"] = .ok true ∧
    returnGfaPathO (readGFA nwFile).g ["p", "q", "r"] = .ok [("p", true), ("q", true), ("r", true)] ∧
    pathExists (readGFA nwFile).g [(true, "p"), (true, "q"), (true, "r")] = some false := by decide

/-! ## `remove_lonely_nodes` -/

/-- `remove_lonely_nodes` keeps exactly the nodes with at least one adjacency entry, in the original order and unchanged;
    edge tags and the contig table are left alone -/
theorem removeLonely_nodes (x : GFA) (h : NodupIds x.g) :
    x.removeLonely.g.nodes = x.g.nodes.filter (fun n => !(n.startAdj.isEmpty && n.endAdj.isEmpty)) ∧
    x.removeLonely.g.edgeTags = x.g.edgeTags ∧ x.removeLonely.contigToNodes = x.contigToNodes := by
  rw [removeLonely_eq x h]; exact ⟨rfl, rfl, rfl⟩

theorem removeLonely_mem (x : GFA) (h : NodupIds x.g) (n : Node) :
    n ∈ x.removeLonely.g.nodes ↔ n ∈ x.g.nodes ∧ (n.startAdj ≠ [] ∨ n.endAdj ≠ []) := by
  rw [(removeLonely_nodes x h).1, List.mem_filter]
  cases n.startAdj <;> cases n.endAdj <;> simp

theorem removeLonely_nodupIds (x : GFA) (h : NodupIds x.g) : NodupIds x.removeLonely.g := by
  unfold NodupIds at *
  rw [(removeLonely_nodes x h).1]
  exact List.Nodup.sublist (List.Sublist.map _ List.filter_sublist) h

/-- a second call changes nothing -/
theorem removeLonely_idem (x : GFA) (h : NodupIds x.g) : x.removeLonely.removeLonely = x.removeLonely := by
  rw [removeLonely_eq _ (removeLonely_nodupIds x h), removeLonely_eq x h]
  simp [List.filter_filter]

#guard ex.removeLonely.g.nodes.map (·.id) == ["a", "c", "b"] && ex.g.nodes.map (·.id) == ["a", "c", "b", "d"]

/-- REACHABLE through the library: `remove_lonely_nodes` does not update `contig_to_nodes`, so `get_path` /
    `get_contig_length` of a contig that had a node without links raise `KeyError` afterwards (before: `["d"]` and 1) -/
theorem getPath_after_removeLonely_keyError :
    ex.getPath "hap" false = .ok ["d"] ∧ ex.getContigLength "hap" false = .ok 1 ∧
    ex.removeLonely.getPath "hap" false = .error .keyError ∧ ex.removeLonely.getContigLength "hap" false = .error .keyError := by
  decide

/-! ## `graph_from_comp` -/

/-- the only failure: some requested id is not a node (`self[n]` is `None`, `None.seq` raises `AttributeError`) -/
theorem graphFromComp_error_iff (x : GFA) (comp : List String) (e : PyErr) :
    x.graphFromComp comp = .error e ↔ e = .attributeError ∧ ∃ id ∈ comp, x.g.has id = false := by
  have hf := fromComp_fold x.g comp [] ⟨by simp, by simp⟩
  rw [graphFromComp_eq]
  cases hr : comp.foldlM (compStep x.g) [] with
  | error e' =>
    obtain ⟨h1, h2⟩ := hf.2 e' hr
    simp only [Except.map]
    constructor
    · intro h; cases h; exact ⟨h1, h2⟩
    · rintro ⟨h, _⟩; rw [h, h1]
  | ok ns =>
    have := (hf.1 ns hr).2.2
    simp only [Except.map]
    constructor
    · intro h; cases h
    · rintro ⟨_, id, hid, hh⟩; rw [this id hid] at hh; cases hh

/-- on success the result has exactly the requested nodes — each the very node of `x` (same sequence, tags and *whole*
    adjacency sets) —, unique ids, no edge tags and no contig table; and every requested id was a node -/
theorem graphFromComp_nodes (x : GFA) (comp : List String) (y : GFA) (h : x.graphFromComp comp = .ok y) :
    NodupIds y.g ∧ (∀ n, n ∈ y.g.nodes ↔ n.id ∈ comp ∧ x.g.find n.id = some n) ∧
    y.g.edgeTags = [] ∧ y.contigToNodes = [] ∧ ∀ id ∈ comp, x.g.has id = true := by
  have hf := fromComp_fold x.g comp [] ⟨by simp, by simp⟩
  rw [graphFromComp_eq] at h
  cases hr : comp.foldlM (compStep x.g) [] with
  | error e' => rw [hr] at h; simp [Except.map] at h
  | ok ns =>
    rw [hr] at h
    simp only [Except.map, Except.ok.injEq] at h
    subst h
    obtain ⟨h1, h2, h3⟩ := hf.1 ns hr
    exact ⟨h1.1, by simpa using h2, rfl, rfl, h3⟩

/-- the nodes of the result stand in the order of the first occurrences in the request (a dict keeps the position of a key
    that is assigned again) -/
theorem graphFromComp_order (x : GFA) (comp : List String) (y : GFA) (h : x.graphFromComp comp = .ok y) :
    y.g.nodes.map (·.id) = comp.eraseDups := by
  rw [graphFromComp_eq] at h
  cases hr : comp.foldlM (compStep x.g) [] with
  | error e' => rw [hr] at h; simp [Except.map] at h
  | ok ns =>
    rw [hr] at h
    simp only [Except.map, Except.ok.injEq] at h
    subst h
    have := fromComp_fold_ids x.g comp [] ns ⟨by simp, by simp⟩ hr
    rw [this, List.map_nil, foldl_insNew]
    simp only [List.contains_nil, Bool.not_false, List.nil_append]
    rw [List.filter_eq_self.mpr (fun _ _ => rfl)]

/-- lookups in the result -/
theorem graphFromComp_find (x : GFA) (comp : List String) (y : GFA) (h : x.graphFromComp comp = .ok y) (id : String) :
    y.g.find id = if id ∈ comp then x.g.find id else none := by
  obtain ⟨hnd, hmem, _, _, hall⟩ := graphFromComp_nodes x comp y h
  by_cases hc : id ∈ comp
  · simp only [hc, if_true]
    have hh := hall id hc
    cases hx : x.g.find id with
    | none => rw [(find_none_iff _ _).mp hx] at hh; cases hh
    | some n =>
      have hid := find_id hx
      have : n ∈ y.g.nodes := (hmem n).mpr ⟨hid ▸ hc, by rw [hid]; exact hx⟩
      have := find_of_mem hnd this
      rwa [hid] at this
  · simp only [hc, if_false]
    cases hy : y.g.find id with
    | none => rfl
    | some n =>
      have := (hmem n).mp (mem_of_find hy)
      rw [find_id hy] at this
      exact absurd this.1 hc

/-- the adjacency sets are copied wholesale: if the requested ids are closed under neighbourhood (a union of connected
    components, the intended use) every adjacency entry of the result points to a node of the result … -/
theorem graphFromComp_closed (x : GFA) (comp : List String) (y : GFA) (h : x.graphFromComp comp = .ok y)
    (hc : ∀ id ∈ comp, ∀ b ∈ x.g.neighbors id, b ∈ comp) :
    ∀ n ∈ y.g.nodes, ∀ b ∈ n.neighbors, y.g.has b = true := by
  obtain ⟨hnd, hmem, _, _, hall⟩ := graphFromComp_nodes x comp y h
  intro n hn b hb
  obtain ⟨hnc, hnx⟩ := (hmem n).mp hn
  have hbc : b ∈ comp := hc n.id hnc b (by unfold Graph.neighbors; rw [hnx]; exact hb)
  have := graphFromComp_find x comp y h b
  simp only [hbc, if_true] at this
  have h1 := find_isSome y.g b
  rw [this, find_isSome, hall b hbc] at h1
  exact h1.symm

/-- … and otherwise it need not: the component `{a, b, c}` cut down to `[a, b]` leaves `b` with a link to the absent `c`
    (`list_is_path`, `dfs`, … on the result then raise `KeyError`) -/
theorem graphFromComp_dangling :
    ∃ y, ex.graphFromComp ["a", "b"] = .ok y ∧ "c" ∈ y.g.neighbors "b" ∧ y.g.has "c" = false ∧
      listIsPath y.g ["b", "c", "b"] = .error .keyError := by
  refine ⟨_, rfl, ?_, ?_, ?_⟩ <;> decide

#guard (ex.graphFromComp ["b", "a", "b"]).map (fun y => y.g.nodes.map (·.id)) == .ok ["b", "a"]
#guard (ex.graphFromComp ["b", "zz"]).map (fun y => y.g.nodes.map (·.id)) == .error .attributeError

/-! ## `get_path` -/

theorem getPath_empty_contig (x : GFA) (c : String) (tw : Bool) (h : x.contigIds c = []) : x.getPath c tw = .ok [] := by
  rcases getPath_cases x c tw with ⟨_, h'⟩ | ⟨hne, _⟩ | ⟨hne, _⟩
  · exact h'
  · exact absurd h hne
  · exact absurd h hne

/-- a non-empty result of `get_path` is a permutation of the contig's node list, non-decreasing in `int(SO)`, and — with
    `throw_warning=True` — a list `list_is_path` accepts -/
theorem getPath_sorted_perm (x : GFA) (c : String) (tw : Bool) (l : List String) (h : x.getPath c tw = .ok l) (hne : l ≠ []) :
    l.Perm (x.contigIds c) ∧
    l.Pairwise (fun a b => ∃ ka kb, tagIntOf x.g "SO" a = .ok ka ∧ tagIntOf x.g "SO" b = .ok kb ∧ ka ≤ kb) ∧
    (tw = true → listIsPath x.g l = .ok true) := by
  rcases getPath_cases x c tw with ⟨_, h'⟩ | ⟨_, e, _, h'⟩ | ⟨_, ks, hk, hc⟩
  · rw [h'] at h; cases h; exact absurd rfl hne
  · rw [h'] at h; cases h
  · obtain ⟨hids, hso⟩ := keyed_ok x.g _ ks hk
    have hl : l = (sortByKey ks).map (·.1) ∧ (tw = true → listIsPath x.g l = .ok true) := by
      rcases hc with ⟨e, _, h'⟩ | ⟨hp, h'⟩ | ⟨hp, h'⟩
      · rw [h'] at h; cases h
      · rw [h'] at h; cases h; exact ⟨rfl, fun _ => hp⟩
      · rw [h'] at h
        cases tw with
        | true => cases h; exact absurd rfl hne
        | false => cases h; exact ⟨rfl, fun h => by cases h⟩
    refine ⟨?_, ?_, hl.2⟩
    · rw [hl.1, ← hids]; exact (sortByKey_perm ks).map _
    · rw [hl.1, List.pairwise_map]
      refine List.Pairwise.imp_of_mem ?_ (sortByKey_sorted ks)
      intro a b ha hb hab
      exact ⟨a.2, b.2, hso a ((sortByKey_perm ks).subset ha), hso b ((sortByKey_perm ks).subset hb), hab⟩

/-- the sort is stable: the nodes with one and the same `SO` keep the order of the contig's node list -/
theorem getPath_stable (x : GFA) (c : String) (tw : Bool) (l : List String) (h : x.getPath c tw = .ok l) (hne : l ≠ []) (k : Int) :
    l.filter (fun id => decide (tagIntOf x.g "SO" id = .ok k)) =
      (x.contigIds c).filter (fun id => decide (tagIntOf x.g "SO" id = .ok k)) := by
  rcases getPath_cases x c tw with ⟨_, h'⟩ | ⟨_, e, _, h'⟩ | ⟨_, ks, hk, hc⟩
  · rw [h'] at h; cases h; exact absurd rfl hne
  · rw [h'] at h; cases h
  · obtain ⟨hids, hso⟩ := keyed_ok x.g _ ks hk
    have hl : l = (sortByKey ks).map (·.1) := by
      rcases hc with ⟨e, _, h'⟩ | ⟨hp, h'⟩ | ⟨hp, h'⟩
      · rw [h'] at h; cases h
      · rw [h'] at h; cases h; rfl
      · rw [h'] at h
        cases tw with
        | true => cases h; exact absurd rfl hne
        | false => cases h; rfl
    have key : ∀ (m : List (String × Int)), (∀ p ∈ m, p ∈ ks) →
        (m.map (·.1)).filter (fun id => decide (tagIntOf x.g "SO" id = .ok k)) = (m.filter (fun p => p.2 == k)).map (·.1) := by
      intro m hm
      rw [List.filter_map]
      congr 1
      apply List.filter_congr
      intro p hp
      simp only [Function.comp, hso p (hm p hp)]
      by_cases hpk : p.2 = k <;> simp [hpk]
    rw [hl, ← hids, key _ (fun p hp => (sortByKey_perm ks).subset hp), key _ (fun p hp => hp), sortByKey_stable]

/-- the flag only matters when the sorted list is not a path: what `throw_warning=True` returns, from what `False` returns -/
theorem getPath_true_of_false (x : GFA) (c : String) (l : List String) (h : x.getPath c false = .ok l) :
    ∃ b, listIsPath x.g l = .ok b ∧ x.getPath c true = .ok (if b then l else []) := by
  rcases getPath_cases x c false with ⟨h0, h'⟩ | ⟨_, e, _, h'⟩ | ⟨hne, ks, hk, hc⟩
  · rw [h'] at h; cases h
    exact ⟨true, rfl, getPath_empty_contig x c true h0⟩
  · rw [h'] at h; cases h
  · rcases getPath_cases x c true with ⟨h0, _⟩ | ⟨_, e, hk', _⟩ | ⟨_, ks', hk', hc'⟩
    · exact absurd h0 hne
    · rw [hk] at hk'; cases hk'
    · rw [hk] at hk'; cases hk'
      rcases hc with ⟨e, _, h'⟩ | ⟨hp, h'⟩ | ⟨hp, h'⟩
      · rw [h'] at h; cases h
      · rw [h'] at h; cases h
        rcases hc' with ⟨e, hp', _⟩ | ⟨_, h''⟩ | ⟨hp', _⟩
        · rw [hp] at hp'; cases hp'
        · exact ⟨true, hp, h''⟩
        · rw [hp] at hp'; cases hp'
      · rw [h'] at h; cases h
        rcases hc' with ⟨e, hp', _⟩ | ⟨hp', _⟩ | ⟨_, h''⟩
        · rw [hp] at hp'; cases hp'
        · rw [hp] at hp'; cases hp'
        · exact ⟨false, hp, h''⟩

/-- with `throw_warning=False` a result is always a permutation of the contig's node list
    (so it is empty only for a contig without nodes) -/
theorem getPath_false_perm (x : GFA) (c : String) (l : List String) (h : x.getPath c false = .ok l) :
    l.Perm (x.contigIds c) := by
  by_cases hne : l = []
  · subst hne
    rcases getPath_cases x c false with ⟨h0, _⟩ | ⟨_, e, _, h'⟩ | ⟨_, ks, hk, hc⟩
    · rw [h0]
    · rw [h'] at h; cases h
    · obtain ⟨hids, _⟩ := keyed_ok x.g _ ks hk
      have : (sortByKey ks).map (·.1) = [] := by
        rcases hc with ⟨e, _, h'⟩ | ⟨_, h'⟩ | ⟨_, h'⟩
        · rw [h'] at h; cases h
        · rw [h'] at h; exact (Except.ok.inj h)
        · rw [h'] at h; exact (Except.ok.inj h)
      rw [← hids]
      have hp := (sortByKey_perm ks).map (·.1)
      rw [this] at hp; exact hp
  · exact (getPath_sorted_perm x c false l h hne).1

/-- the exceptions do not depend on the flag -/
theorem getPath_error_flag (x : GFA) (c : String) (e : PyErr) :
    x.getPath c true = .error e ↔ x.getPath c false = .error e := by
  rcases getPath_cases x c true with ⟨h0, h1⟩ | ⟨hne, e1, hk, h1⟩ | ⟨hne, ks, hk, hc⟩
  · rw [h1, getPath_empty_contig x c false h0]
  · rcases getPath_cases x c false with ⟨h0, _⟩ | ⟨_, e2, hk', h2⟩ | ⟨_, ks', hk', _⟩
    · exact absurd h0 hne
    · rw [hk] at hk'; cases hk'; rw [h1, h2]
    · rw [hk] at hk'; cases hk'
  · rcases getPath_cases x c false with ⟨h0, _⟩ | ⟨_, e2, hk', _⟩ | ⟨_, ks', hk', hc'⟩
    · exact absurd h0 hne
    · rw [hk] at hk'; cases hk'
    · rw [hk] at hk'; cases hk'
      rcases hc with ⟨e1, hp, h1⟩ | ⟨hp, h1⟩ | ⟨hp, h1⟩ <;>
      rcases hc' with ⟨e2, hp', h2⟩ | ⟨hp', h2⟩ | ⟨hp', h2⟩ <;>
      rw [hp] at hp' <;> cases hp' <;> rw [h1, h2] <;> simp

theorem tagIntOf_ok_has {g : Graph} {name id : String} {k : Int} (h : tagIntOf g name id = .ok k) : g.has id = true := by
  unfold tagIntOf at h
  cases hf : g.find id with
  | none => rw [hf] at h; cases h
  | some n => exact has_of_find hf

/-- every error of `get_path`: `KeyError` (a listed node is gone, or has no `SO`) or `ValueError` (`SO` is not a number) for
    some node of the contig, or the `KeyError` of `list_is_path` -/
theorem getPath_error (x : GFA) (c : String) (tw : Bool) (e : PyErr) (h : x.getPath c tw = .error e) :
    (∃ id ∈ x.contigIds c, tagIntOf x.g "SO" id = .error e) ∨ (e = .keyError ∧ ∃ id ∈ x.contigIds c, x.g.has id = false) := by
  rcases getPath_cases x c tw with ⟨_, h'⟩ | ⟨_, e', hk, h'⟩ | ⟨_, ks, hk, hc⟩
  · rw [h'] at h; cases h
  · rw [h'] at h; cases h; exact Or.inl (keyed_error x.g _ e hk)
  · rcases hc with ⟨e', hp, h'⟩ | ⟨_, h'⟩ | ⟨_, h'⟩
    · rw [h'] at h; cases h
      obtain ⟨he, i, hi, hh⟩ := Proofs.GraphExtra.listIsPath_error x.g _ e hp
      obtain ⟨hids, _⟩ := keyed_ok x.g _ ks hk
      refine Or.inr ⟨he, _, ?_, hh⟩
      rw [← hids]
      exact ((sortByKey_perm ks).map (·.1)).subset (List.getElem_mem _)
    · rw [h'] at h; cases h
    · rw [h'] at h; cases h

/-- a result means every node listed for the contig is (still) a node of the graph -/
theorem getPath_ok_has (x : GFA) (c : String) (tw : Bool) (l : List String) (h : x.getPath c tw = .ok l) :
    ∀ id ∈ x.contigIds c, x.g.has id = true := by
  rcases getPath_cases x c tw with ⟨h0, _⟩ | ⟨_, e', hk, h'⟩ | ⟨_, ks, hk, hc⟩
  · rw [h0]; simp
  · rw [h'] at h; cases h
  · obtain ⟨hids, hso⟩ := keyed_ok x.g _ ks hk
    intro id hid
    rw [← hids] at hid
    obtain ⟨p, hp, rfl⟩ := List.mem_map.mp hid
    exact tagIntOf_ok_has (hso p hp)

/-- hence `get_path` (and `get_contig_length`) RAISE for every contig that listed a node which `remove_lonely_nodes`
    removed: the contig table is not updated -/
theorem removeLonely_getPath_raises (x : GFA) (hnd : NodupIds x.g) (c : String) (tw : Bool) (n : Node)
    (hn : n ∈ x.g.nodes) (hl : n.startAdj = [] ∧ n.endAdj = []) (hc : n.id ∈ x.contigIds c) :
    ∃ e, x.removeLonely.getPath c tw = .error e := by
  cases hr : x.removeLonely.getPath c tw with
  | error e => exact ⟨e, rfl⟩
  | ok l =>
    exfalso
    have hc' : n.id ∈ x.removeLonely.contigIds c := by
      unfold GFA.contigIds; rw [(removeLonely_nodes x hnd).2.2]; exact hc
    have hh := getPath_ok_has _ c tw l hr n.id hc'
    rw [has_iff_mem] at hh
    obtain ⟨m, hm, hmid⟩ := List.mem_map.mp hh
    obtain ⟨hmx, hml⟩ := (removeLonely_mem x hnd m).mp hm
    have := inj_id_of_nodup hnd hmx hn hmid
    subst this
    rcases hml with h | h
    · exact h hl.1
    · exact h hl.2

#guard ex.getPath "chr" true == .ok ["a", "b", "c"] && ex.contigIds "chr" == ["a", "c", "b"]
#guard ex.getPath "nope" true == .ok [] && ex.getContigLength "nope" false == .error .exit

/-- haplotype contig whose two nodes are not adjacent, a contig with a repeated S line, one with equal `SO`, one with a bad `SO` -/
def ex2 : GFA := readGFA
  { segs := [⟨"h1", "A", [⟨"LN", "i", "1"⟩, ⟨"SN", "Z", "hap"⟩, ⟨"SO", "i", "+9"⟩]⟩,
             ⟨"h2", "CC", [⟨"LN", "i", "2"⟩, ⟨"SN", "Z", "hap"⟩, ⟨"SO", "i", "003"⟩]⟩,
             ⟨"t2", "C", [⟨"LN", "i", "1"⟩, ⟨"SN", "Z", "tie"⟩, ⟨"SO", "i", "5"⟩]⟩,
             ⟨"t1", "C", [⟨"LN", "i", "1"⟩, ⟨"SN", "Z", "tie"⟩, ⟨"SO", "i", "5"⟩]⟩,
             ⟨"t0", "C", [⟨"LN", "i", "1"⟩, ⟨"SN", "Z", "tie"⟩, ⟨"SO", "i", "-1"⟩]⟩,
             ⟨"r", "G", [⟨"LN", "i", "1"⟩, ⟨"SN", "Z", "rep"⟩, ⟨"SO", "i", "0"⟩]⟩,
             ⟨"r", "G", [⟨"LN", "i", "1"⟩, ⟨"SN", "Z", "other"⟩, ⟨"SO", "i", "0"⟩]⟩,
             ⟨"z", "G", [⟨"LN", "Z", "x"⟩, ⟨"SN", "Z", "bad"⟩, ⟨"SO", "Z", "1.5"⟩]⟩,
             ⟨"k", "G", [⟨"SN", "Z", "nokey"⟩]⟩],
    links := [⟨"t0", true, "t2", true, 0, []⟩, ⟨"t2", true, "t1", true, 0, []⟩] }
#guard ex2.getPath "hap" true == .ok [] && ex2.getPath "hap" false == .ok ["h2", "h1"] && ex2.getContigLength "hap" true == .error .exit
#guard ex2.getContigLength "hap" false == .ok 3
#guard ex2.getPath "tie" true == .ok ["t0", "t2", "t1"]
#guard ex2.contigIds "rep" == ["r", "r"] && ex2.getPath "rep" false == .ok ["r", "r"] && ex2.getPath "rep" true == .ok [] && ex2.contigIds "other" == []
#guard ex2.getPath "bad" true == .error .valueError && ex2.getPath "nokey" false == .error .keyError

/-! ## `get_contig_length` -/

theorem tagIntOf_error {g : Graph} {name id : String} {e : PyErr} (h : tagIntOf g name id = .error e) :
    e = .keyError ∨ e = .valueError := by
  unfold tagIntOf at h
  cases hf : g.find id with
  | none => rw [hf] at h; cases h; exact Or.inl rfl
  | some n =>
    rw [hf] at h
    cases hv : tagVal n.tags name with
    | none => simp only [hv] at h; cases h; exact Or.inl rfl
    | some v =>
      simp only [hv] at h
      cases hi : pyInt v with
      | none => simp only [hi] at h; cases h; exact Or.inr rfl
      | some k => simp only [hi] at h; cases h

/-- `get_path` never exits -/
theorem getPath_ne_exit (x : GFA) (c : String) (tw : Bool) : x.getPath c tw ≠ .error .exit := by
  intro h
  rcases getPath_error x c tw _ h with ⟨id, _, ht⟩ | ⟨he, _⟩
  · rcases tagIntOf_error ht with h' | h' <;> cases h'
  · cases he

/-- what `get_contig_length` is in terms of `get_path`: its error if it raises, `sys.exit(1)` if it returns the empty list,
    otherwise the sum of `int(LN)` over the returned nodes (raising at the first node without a numeric `LN`) -/
theorem contigLength_eq_sum (x : GFA) (c : String) (tw : Bool) :
    x.getContigLength c tw =
      match x.getPath c tw with
      | .error e => .error e
      | .ok [] => .error .exit
      | .ok (a :: p) => ((a :: p).mapM (tagIntOf x.g "LN")).map List.sum := by
  unfold GFA.getContigLength
  cases hp : x.getPath c tw with
  | error e => rfl
  | ok p =>
    cases p with
    | nil => rfl
    | cons a p =>
      simp only [bind, Except.bind, List.isEmpty_cons, Bool.false_eq_true, if_false]
      cases (a :: p).mapM (tagIntOf x.g "LN") <;> rfl

/-- `sys.exit(1)` exactly when `get_path` returns the empty list -/
theorem contigLength_exit_iff (x : GFA) (c : String) (tw : Bool) :
    x.getContigLength c tw = .error .exit ↔ x.getPath c tw = .ok [] := by
  rw [contigLength_eq_sum]
  cases hp : x.getPath c tw with
  | error e =>
    simp only [reduceCtorEq, iff_false]
    intro h; cases h; exact getPath_ne_exit x c tw hp
  | ok p =>
    cases p with
    | nil => simp
    | cons a p =>
      simp only [Except.ok.injEq, reduceCtorEq, iff_false]
      cases hm : (a :: p).mapM (tagIntOf x.g "LN") with
      | error e =>
        obtain ⟨id, _, ht⟩ := mapM_error _ _ e hm
        intro h; simp [Except.map] at h; subst h
        rcases tagIntOf_error ht with h' | h' <;> cases h'
      | ok ls => simp [Except.map]

/-- a value means: `get_path` returned a non-empty list, every node of it has a numeric `LN`, and the value is their sum -/
theorem contigLength_ok_iff (x : GFA) (c : String) (tw : Bool) (v : Int) :
    x.getContigLength c tw = .ok v ↔
      ∃ (p : List String) (ls : List Int),
        x.getPath c tw = .ok p ∧ p ≠ [] ∧ p.map (tagIntOf x.g "LN") = ls.map Except.ok ∧ v = ls.sum := by
  rw [contigLength_eq_sum]
  cases hp : x.getPath c tw with
  | error e => simp
  | ok p =>
    cases p with
    | nil => simp
    | cons a p =>
      cases hm : (a :: p).mapM (tagIntOf x.g "LN") with
      | error e =>
        show Except.map List.sum (List.mapM (tagIntOf x.g "LN") (a :: p)) = Except.ok v ↔ _
        rw [hm]
        simp only [Except.map, reduceCtorEq, false_iff]
        rintro ⟨p', ls, h1, _, h3, _⟩
        cases h1
        obtain ⟨id, hid, ht⟩ := mapM_error _ _ e hm
        have : (tagIntOf x.g "LN" id) ∈ ls.map Except.ok := by rw [← h3]; exact List.mem_map.mpr ⟨id, hid, rfl⟩
        rw [ht] at this
        obtain ⟨_, _, h⟩ := List.mem_map.mp this
        cases h
      | ok ls =>
        have hmap := mapM_ok _ _ ls hm
        show Except.map List.sum (List.mapM (tagIntOf x.g "LN") (a :: p)) = Except.ok v ↔ _
        rw [hm]
        simp only [Except.map, Except.ok.injEq]
        constructor
        · intro h; exact ⟨a :: p, ls, rfl, by simp, hmap, h.symm⟩
        · rintro ⟨p', ls', h1, _, h3, h4⟩
          cases h1
          rw [hmap] at h3
          have : ls = ls' := (List.map_inj_right (fun _ _ h => Except.ok.inj h)).mp h3
          rw [h4, this]

#guard ex.getContigLength "chr" true == .ok 6 && ex2.getContigLength "tie" true == .ok 3
#guard ex2.getContigLength "bad" false == .error .valueError && ex2.getContigLength "nokey" true == .error .keyError

/-! ## `Node.is_equal_to`, `GFA.is_equal_to` -/

/-- `Node.is_equal_to`: same id and the same `start` / `end` sets; unless `only_topo`, also the same sequence and the same tags
    (as a dict: order of insertion does not matter) -/
theorem nodeEq_iff (a b : Node) (t : Bool) :
    a.isEqualTo b t = true ↔
      a.id = b.id ∧ (∀ e, e ∈ a.startAdj ↔ e ∈ b.startAdj) ∧ (∀ e, e ∈ a.endAdj ↔ e ∈ b.endAdj) ∧
      (t = false → a.seq = b.seq ∧ ∀ tg, tg ∈ a.tags ↔ tg ∈ b.tags) :=
  Proofs.GraphExtra.nodeEq_iff a b t

theorem nodeEq_refl (a : Node) (t : Bool) : a.isEqualTo a t = true := Proofs.GraphExtra.nodeEq_refl a t
theorem nodeEq_symm (a b : Node) (t : Bool) : a.isEqualTo b t = b.isEqualTo a t := Proofs.GraphExtra.nodeEq_symm a b t
theorem nodeEq_trans (a b c : Node) (t : Bool) (h1 : a.isEqualTo b t = true) (h2 : b.isEqualTo c t = true) :
    a.isEqualTo c t = true := Proofs.GraphExtra.nodeEq_trans a b c t h1 h2

/-- full equality implies topological equality -/
theorem nodeEq_topo_of_full (a b : Node) (h : a.isEqualTo b false = true) : a.isEqualTo b true = true := by
  rw [nodeEq_iff] at *
  exact ⟨h.1, h.2.1, h.2.2.1, fun ht => by cases ht⟩

/-- `GFA.is_equal_to` is `True` iff both graphs have the same node ids and the nodes with the same id are equal
    (`Node.is_equal_to`) — for graphs with unique ids, i.e. for every pair of `GFA` objects -/
theorem isEqualTo_iff (x y : GFA) (t : Bool) (hx : NodupIds x.g) (hy : NodupIds y.g) :
    x.isEqualTo y t = true ↔
      (∀ id, x.g.has id = y.g.has id) ∧
      (∀ id n1 n2, x.g.find id = some n1 → y.g.find id = some n2 → n1.isEqualTo n2 t = true) := by
  constructor
  · intro h
    have hp := isEqualTo_ids_perm x y t hx h
    obtain ⟨_, hn⟩ := (isEqualTo_unfold x y t).mp h
    refine ⟨?_, ?_⟩
    · intro id
      rw [Bool.eq_iff_iff, has_iff_mem, has_iff_mem]; exact hp.mem_iff
    · intro id n1 n2 h1 h2
      obtain ⟨n2', hf, he⟩ := hn n1 (mem_of_find h1)
      rw [find_id h1, h2] at hf
      cases hf; exact he
  · rintro ⟨hh, hn⟩
    rw [isEqualTo_unfold]
    constructor
    · have : (ids x.g).Perm (ids y.g) := by
        apply (List.perm_ext_iff_of_nodup (l₁ := ids x.g) (l₂ := ids y.g) hx hy).mpr
        intro id; rw [← has_iff_mem, ← has_iff_mem, hh id]
      simpa [ids] using this.length_eq
    · intro n1 hn1
      have h1 := find_of_mem hx hn1
      have : y.g.has n1.id = true := by rw [← hh]; exact has_of_find h1
      cases hf : y.g.find n1.id with
      | none => rw [(find_none_iff _ _).mp hf] at this; cases this
      | some n2 => exact ⟨n2, rfl, hn _ _ _ h1 hf⟩

/-- a `True` answer already forces `other`'s ids to be unique (length test + pigeonhole) -/
theorem isEqualTo_nodup_right (x y : GFA) (t : Bool) (hx : NodupIds x.g) (h : x.isEqualTo y t = true) : NodupIds y.g :=
  (isEqualTo_ids_perm x y t hx h).nodup_iff.mp hx

theorem isEqualTo_refl (x : GFA) (t : Bool) (hx : NodupIds x.g) : x.isEqualTo x t = true := by
  rw [isEqualTo_iff x x t hx hx]
  refine ⟨fun _ => rfl, ?_⟩
  intro id n1 n2 h1 h2
  rw [h1] at h2; cases h2; exact nodeEq_refl n1 t

/-- `is_equal_to` IS symmetric, although only `self`'s nodes are walked: after the length test, "every id of `self` is in
    `other`" already gives equal id sets -/
theorem isEqualTo_symm (x y : GFA) (t : Bool) (hx : NodupIds x.g) (hy : NodupIds y.g) : x.isEqualTo y t = y.isEqualTo x t := by
  rw [Bool.eq_iff_iff, isEqualTo_iff x y t hx hy, isEqualTo_iff y x t hy hx]
  constructor <;>
  · rintro ⟨h1, h2⟩
    exact ⟨fun id => (h1 id).symm, fun id n1 n2 f1 f2 => by rw [nodeEq_symm]; exact h2 id n2 n1 f2 f1⟩

/-- the direction that needs the hypothesis on `self` only -/
theorem isEqualTo_symm_of_true (x y : GFA) (t : Bool) (hx : NodupIds x.g) (h : x.isEqualTo y t = true) :
    y.isEqualTo x t = true := by
  rw [← isEqualTo_symm x y t hx (isEqualTo_nodup_right x y t hx h)]; exact h

theorem isEqualTo_trans (x y z : GFA) (t : Bool) (hx : NodupIds x.g) (h1 : x.isEqualTo y t = true) (h2 : y.isEqualTo z t = true) :
    x.isEqualTo z t = true := by
  have hy := isEqualTo_nodup_right x y t hx h1
  have hz := isEqualTo_nodup_right y z t hy h2
  rw [isEqualTo_iff _ _ t hx hy] at h1
  rw [isEqualTo_iff _ _ t hy hz] at h2
  rw [isEqualTo_iff _ _ t hx hz]
  refine ⟨fun id => (h1.1 id).trans (h2.1 id), ?_⟩
  intro id n1 n3 f1 f3
  have : y.g.has id = true := by rw [← h1.1]; exact has_of_find f1
  cases f2 : y.g.find id with
  | none => rw [(find_none_iff _ _).mp f2] at this; cases this
  | some n2 => exact nodeEq_trans n1 n2 n3 t (h1.2 id n1 n2 f1 f2) (h2.2 id n2 n3 f2 f3)

/-- full equality implies topological equality -/
theorem isEqualTo_topo_of_full (x y : GFA) (hx : NodupIds x.g) (h : x.isEqualTo y false = true) : x.isEqualTo y true = true := by
  have hy := isEqualTo_nodup_right x y false hx h
  rw [isEqualTo_iff _ _ _ hx hy] at *
  exact ⟨h.1, fun id n1 n2 f1 f2 => nodeEq_topo_of_full n1 n2 (h.2 id n1 n2 f1 f2)⟩

/-- `graph_from_comp` of all nodes gives a graph `is_equal_to` the original (both ways, with and without `only_topo`) -/
theorem fromComp_all_isEqualTo (x y : GFA) (t : Bool) (hx : NodupIds x.g) (h : x.graphFromComp (ids x.g) = .ok y) :
    y.isEqualTo x t = true ∧ x.isEqualTo y t = true := by
  obtain ⟨hy, _, _, _, _⟩ := graphFromComp_nodes x _ y h
  have hf := graphFromComp_find x _ y h
  have : x.isEqualTo y t = true := by
    rw [isEqualTo_iff _ _ t hx hy]
    constructor
    · intro id
      rw [← find_isSome, ← find_isSome, hf id]
      by_cases hc : id ∈ ids x.g
      · simp [hc]
      · have : x.g.has id = false := by
          cases hh : x.g.has id with
          | false => rfl
          | true => exact absurd ((has_iff_mem _ _).mp hh) hc
        simp [hc, find_isSome, this]
    · intro id n1 n2 f1 f2
      have hc : id ∈ ids x.g := (has_iff_mem _ _).mp (has_of_find f1)
      rw [hf id] at f2
      simp only [hc, if_true] at f2
      rw [f1] at f2; cases f2; exact nodeEq_refl n1 t
  exact ⟨isEqualTo_symm_of_true x y t hx this, this⟩

/-- FALSE without unique ids (unreachable through the library: `GFA.nodes` is a dict): on node lists with a repeated id
    `is_equal_to` is neither reflexive nor symmetric -/
def dupA : GFA := ⟨⟨[⟨"a", "", [], [], []⟩, ⟨"a", "", [], [], []⟩], []⟩, []⟩
def dupB : GFA := ⟨⟨[⟨"a", "", [], [], []⟩, ⟨"b", "", [], [], []⟩], []⟩, []⟩
def dupC : GFA := ⟨⟨[⟨"a", "", [], [], []⟩, ⟨"a", "X", [], [], []⟩], []⟩, []⟩
theorem isEqualTo_not_symm_dup : dupA.isEqualTo dupB = true ∧ dupB.isEqualTo dupA = false := by decide
theorem isEqualTo_not_refl_dup : dupC.isEqualTo dupC = false := by decide

#guard ex.isEqualTo ex && ex.isEqualTo ex true
#guard (ex.isEqualTo ex.removeLonely) == false && (ex.removeLonely.isEqualTo ex) == false
/-- the same graph written with the S lines and the tags in another order: equal -/
def exPermuted : GFA := readGFA
  { segs := exFile.segs.reverse.map (fun s => { s with tags := s.tags.reverse }), links := exFile.links.reverse }
#guard ex.isEqualTo exPermuted && exPermuted.isEqualTo ex && ex.g != exPermuted.g
/-- one sequence changed: topologically equal only -/
def exSeq : GFA := readGFA { exFile with segs := exFile.segs.map (fun s => if s.id == "b" then { s with seq := "TTA" } else s) }
#guard ex.isEqualTo exSeq true && (ex.isEqualTo exSeq false) == false

/-! ## the loaded object -/

/-- the graph part of `GFA(file)` is `Gfa.readGraph` (so everything proved about `readGraph` holds for it) -/
theorem readGFA_g (t : GfaFile) (lm : Bool) : (readGFA t lm).g = readGraph t lm := Proofs.GraphExtra.readGFA_g t lm

/-- every loaded graph has unique node ids: the hypothesis `NodupIds` of the theorems above is met by every `GFA(file)`,
    and (`removeLonely_nodupIds`, `graphFromComp_nodes`) by everything the helpers make of one -/
theorem readGFA_nodupIds (t : GfaFile) (lm : Bool) : NodupIds (readGFA t lm).g := by
  rw [readGFA_g]; exact nodupIds_readGraph t lm

#guard (readGFA exFile).g == readGraph exFile && (readGFA exFile true).g == readGraph exFile true

/-! ## the older model of `get_path(…, False)` / `get_contig_length(…, False)` (`View.contigNodes`, `View.contigLen`) -/

/-- for a completely tagged rGFA file (`Spec.Glue.TaggedRGFA`: unique ids, SN/SO/SR/LN on every S line, `LN` = sequence length)
    the contig table of the loaded object is, per contig, the id column of `View.infos` restricted to that `SN` -/
theorem contigIds_readGFA (t : GfaFile) (lm : Bool) (ht : Spec.Glue.TaggedRGFA t) (c : String) :
    (readGFA t lm).contigIds c = ((infos (readGraph t lm)).filter (·.sn == c)).map (·.id) :=
  Proofs.GraphExtra.contigIds_readGFA t lm ht c

/-- … and `get_path(c, False)` of this file's model is exactly the id column of `View.contigNodes` (the table C01/C03 are
    proved about), provided the two integer readers agree on the file's tag values (no `+` signs) -/
theorem getPath_contigNodes (t : GfaFile) (lm : Bool) (ht : Spec.Glue.TaggedRGFA t)
    (hint : IntReadersAgree (readGraph t lm)) (c : String) :
    (readGFA t lm).getPath c false = .ok ((contigNodes (readGraph t lm) c).map (·.id)) := by
  have := getPath_eq_contigNodes (readGFA t lm) c (readGFA_nodupIds t lm) (by rw [readGFA_g]; exact hint)
    (by rw [readGFA_g]; exact contigIds_readGFA t lm ht c)
  rw [readGFA_g] at this; exact this

/-- … and `get_contig_length(c, False)` is `View.contigLen` (`none` = `sys.exit(1)`) -/
theorem contigLength_contigLen (t : GfaFile) (lm : Bool) (ht : Spec.Glue.TaggedRGFA t)
    (hint : IntReadersAgree (readGraph t lm)) (c : String) :
    (readGFA t lm).getContigLength c false =
      (match contigLen (readGraph t lm) c with | none => .error .exit | some v => .ok v) := by
  have := contigLength_eq_contigLen (readGFA t lm) c (readGFA_nodupIds t lm) (by rw [readGFA_g]; exact hint)
    (by rw [readGFA_g]; exact contigIds_readGFA t lm ht c)
  rw [readGFA_g] at this; exact this

#guard ex.getPath "chr" false == .ok ((contigNodes ex.g "chr").map (·.id)) && (contigNodes ex.g "chr").length == 3
#guard ex.getContigLength "chr" false == .ok 6 && contigLen ex.g "chr" == some 6 && contigLen ex.g "zz" == none

end Gaftools.C15Extra
