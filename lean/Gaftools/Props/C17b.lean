import Gaftools.Model.Bgzf
import Gaftools.Proofs.BgzfLemmas
/-!
# C17 (continued) — offsets resolve to the same records in a plain file and in its BGZF copy, for every block layout

`Model/Bgzf.lean` is a byte-level model of `tell` / `seek` / `readline` on plain files and on BGZF files.  The theorems:

* `plain_readAt`        — in a plain file of newline-terminated records, reading a line at `tell()`-before-record-`i` returns record `i`;
* `resolve_voff`        — in a well-formed layout the virtual offset `(address of block k) <<< 16 ||| u`, `u ≤` payload length,
                          designates uncompressed position `blockStart k + u` — whatever the addresses are, and also when
                          blocks are empty;
* `bgzf_readAt`         — hence for EVERY block layout of the same bytes (records straddling blocks, blocks ending exactly at a
                          record boundary, empty blocks) `seek(v); readline()` returns record `i` for every virtual offset `v`
                          that designates the start of record `i` — including both spellings of a block boundary
                          (`(k, len k)` and `(k+1, 0)`);
* `voff_order`          — virtual offsets order like the positions they designate (non-strictly: the two spellings of a
                          boundary are different numbers for one position), so sorting offsets sorts records in file order;
* `plain_bgzf_agree`    — the corollary C17 states: the record found at the plain offset of ordinal `i` in the plain file and the
                          record found at any BGZF virtual offset of ordinal `i` in the compressed copy are the same bytes.
-/
namespace Gaftools.C17
open Gaftools.Bgzf

theorem plain_readAt (recs : List (List Byte)) (hnl : ∀ r ∈ recs, nl ∉ r) (i : Nat) (hi : i < recs.length) :
    readlineFrom (fileOf recs) (plainOff recs i) = recs[i] ++ [nl] := by
  unfold readlineFrom
  rw [drop_fileOf, List.drop_eq_getElem_cons hi, fileOf_cons]
  exact takeLine_append _ _ (hnl _ (List.getElem_mem hi))

theorem resolve_voff (L : Layout) (hw : WF L = true) (k : Nat) (hk : k < L.length) (u : Nat) (hu : u ≤ (L[k]).2.length) :
    resolve L (voff (L[k]).1 u) = some (blockStart L k + u) := by
  have hu' : u < 65536 := Nat.lt_of_le_of_lt hu (wf_len L hw _ (List.getElem_mem hk))
  unfold resolve
  rw [voff_shift _ _ hu', voff_mask _ _ hu', resolveGo_spec L hw 0 k hk u hu]
  simp

theorem bgzf_readAt (L : Layout) (hw : WF L = true) (recs : List (List Byte)) (hnl : ∀ r ∈ recs, nl ∉ r)
    (hs : stream L = fileOf recs) (i : Nat) (hi : i < recs.length)
    (k : Nat) (hk : k < L.length) (u : Nat) (hu : u ≤ (L[k]).2.length) (hp : blockStart L k + u = plainOff recs i) :
    readlineAt L (voff (L[k]).1 u) = some (recs[i] ++ [nl]) := by
  unfold readlineAt
  rw [resolve_voff L hw k hk u hu, hp, Option.map_some, hs, plain_readAt recs hnl i hi]

theorem voff_order (L : Layout) (hw : WF L = true) (k₁ k₂ : Nat) (h₁ : k₁ < L.length) (h₂ : k₂ < L.length)
    (u₁ u₂ : Nat) (hu₁ : u₁ ≤ (L[k₁]).2.length) (hu₂ : u₂ ≤ (L[k₂]).2.length)
    (hlt : voff (L[k₁]).1 u₁ < voff (L[k₂]).1 u₂) :
    blockStart L k₁ + u₁ ≤ blockStart L k₂ + u₂ := by
  have hu₁' : u₁ < 65536 := Nat.lt_of_le_of_lt hu₁ (wf_len L hw _ (List.getElem_mem h₁))
  have hu₂' : u₂ < 65536 := Nat.lt_of_le_of_lt hu₂ (wf_len L hw _ (List.getElem_mem h₂))
  rw [voff_lt_iff _ _ _ _ hu₁' hu₂'] at hlt
  rcases Nat.lt_trichotomy k₁ k₂ with hk | hk | hk
  · have := blockStart_end_le L k₁ k₂ h₂ hk
    omega
  · subst hk
    rcases hlt with h | ⟨_, h⟩ <;> omega
  · have := wf_addr_lt L hw k₂ k₁ h₂ h₁ hk
    omega

theorem plain_bgzf_agree (L : Layout) (hw : WF L = true) (recs : List (List Byte)) (hnl : ∀ r ∈ recs, nl ∉ r)
    (hs : stream L = fileOf recs) (i : Nat) (hi : i < recs.length)
    (k : Nat) (hk : k < L.length) (u : Nat) (hu : u ≤ (L[k]).2.length) (hp : blockStart L k + u = plainOff recs i) :
    readlineAt L (voff (L[k]).1 u) = some (readlineFrom (fileOf recs) (plainOff recs i)) := by
  rw [bgzf_readAt L hw recs hnl hs i hi k hk u hu hp, plain_readAt recs hnl i hi]

/-! non-vacuity: two records in three blocks (one of them empty), the second record straddling a block boundary -/
def exRecs : List (List Byte) := [[65, 66], [67, 68, 69]]
def exL : Layout := [(0, [65, 66, 10, 67]), (40, []), (68, [68, 69, 10]), (100, [])]
example : WF exL = true ∧ stream exL = fileOf exRecs := by decide
example : readlineAt exL (voff 0 3) = some [67, 68, 69, 10] := by decide
example : resolve exL (voff 0 4) = some 4 ∧ resolve exL (voff 40 0) = some 4 ∧ resolve exL (voff 68 0) = some 4 := by decide

end Gaftools.C17
