import Gaftools.Props.C01b
import Gaftools.Model.ConvText
import Gaftools.Proofs.RoundtripLemmas
/-!
# C02 — conversion is lossless: round trips and untouched columns
-/
namespace Gaftools.C02
open Gaftools.Gaf Gaftools.Conv Gaftools.ConvText Gaftools.Spec.Conv Gaftools.C01

/-- a canonical unstable record: a walk record whose alignment touches its first and its last node -/
structure CanonUnstable (segs : List RSeg) (steps : List (Bool × String)) (plen ps pe : Int) : Prop where
  walk : WalkRec segs steps plen ps pe
  nonempty : ps < pe
  first : ∀ st, steps.head? = some st → ∀ s, findSeg segs st.2 = some s → ps < s.seq.length
  last : ∀ st, steps.getLast? = some st → ∀ s, findSeg segs st.2 = some s → plen - s.seq.length < pe

/-- the stable path as the items `to_unstable` reads back -/
def itemsOf : SPath → List SItem
  | .bare c => [.bare c]
  | .ivs l => l.map toItem

/-- a list of (interval, run) pairs whose intervals are a singleton is a singleton -/
theorem single_group {α β : Type} (xgs : List (α × β)) (a : α) (h : xgs.map (·.1) = [a]) : ∃ g, xgs = [(a, g)] := by
  cases xgs with
  | nil => simp at h
  | cons xg rest =>
    cases rest with
    | cons _ _ => simp at h
    | nil =>
      obtain ⟨x1, g⟩ := xg
      simp only [List.map_cons, List.map_nil, List.cons.injEq, and_true] at h
      subst h
      exact ⟨g, rfl⟩

/-- MAIN: unstable → stable → unstable reproduces a canonical record exactly (path, path length, offsets; the CIGAR is
    reversed twice or not at all) -/
theorem roundtrip_USU (segs : List RSeg) (hv : ValidRGFA segs) (steps : List (Bool × String)) (plen ps pe : Int)
    (hc : CanonUnstable segs steps plen ps pe) (p : SPath) (o : ConvOut)
    (h : toStable (nodeTbl segs) (refNames segs) (ctgLen segs) true steps plen ps pe = some (p, o)) :
    toUnstable (refOf segs) o.strandPlus (itemsOf p) o.plen o.ps o.pe = some (steps, ⟨true, plen, ps, pe, o.flipCigar⟩) := by
  obtain ⟨l, hl1, hl2⟩ := Proofs.Roundtrip.steps_nodes segs steps hc.walk.known
  subst hl2
  have hmapM := Proofs.Roundtrip.mapM_nodeTbl segs hv l hl1
  obtain ⟨x, xs, hmap, hcases⟩ := toStable_cases _ _ _ true _ plen ps pe p o h
  rw [hmapM] at hmap
  injection hmap with hmap
  cases l with
  | nil => simp at hmap
  | cons q l' =>
    rw [List.map_cons] at hmap
    injection hmap with hx hxs
    subst hx; subst hxs
    have hq := hl1 q (by simp)
    obtain ⟨xgs, hg1, hg2, hg3⟩ := Proofs.Roundtrip.mergeGo_groups segs hv l' (ivOf q) [q]
      (Proofs.Roundtrip.grp_single segs hv q hq) (fun y hy => hl1 y (by simp [hy]))
    have hplen : lenOf (q :: l') = plen := by
      have := plenU_nodes segs hv (q :: l') hl1
      rw [hc.walk.plen_eq] at this
      injection this with this
      exact this.symm
    obtain ⟨hps, hpspe, hpe⟩ := hc.walk.bounds
    have hF : ∀ p, (q :: l').head? = some p → ps < p.2.seq.length := by
      intro p hp
      have hp' : p ∈ q :: l' := List.mem_of_head? hp
      exact hc.first (p.1, p.2.id) (by unfold stepsOf; rw [List.head?_map, hp]; rfl) p.2
        (findSeg_of_mem segs hv p.2 (hl1 p hp'))
    have hL : ∀ p, (q :: l').getLast? = some p → plen - p.2.seq.length < pe := by
      intro p hp
      have hp' : p ∈ q :: l' := List.mem_of_getLast? hp
      exact hc.last (p.1, p.2.id) (by unfold stepsOf; rw [List.getLast?_map, hp]; rfl) p.2
        (findSeg_of_mem segs hv p.2 (hl1 p hp'))
    rcases hcases with ⟨n, total, hout, -, -, hp, ho⟩ | ⟨n, total, hout, -, -, hp, ho⟩ | ⟨hp, ho⟩
    · subst hp; subst ho
      rw [← hg1] at hout
      obtain ⟨g, rfl⟩ := single_group xgs _ hout
      have hgeq : g = q :: l' := by simpa using hg3
      subst hgeq
      have hg := hg2 _ (List.mem_singleton.2 rfl)
      have := Proofs.Roundtrip.bare_roundtrip segs hv n false _ hg plen ps pe ⟨hps, hc.nonempty, hpe⟩ hplen hF hL total
      simp only [Bool.false_eq_true, if_false, Bool.not_false] at this
      exact this
    · subst hp; subst ho
      rw [← hg1] at hout
      obtain ⟨g, rfl⟩ := single_group xgs _ hout
      have hgeq : g = q :: l' := by simpa using hg3
      subst hgeq
      have hg := hg2 _ (List.mem_singleton.2 rfl)
      have := Proofs.Roundtrip.bare_roundtrip segs hv n true _ hg plen ps pe ⟨hps, hc.nonempty, hpe⟩ hplen hF hL total
      simp only [if_true, Bool.not_true] at this
      exact this
    · subst hp; subst ho
      have hne : xgs ≠ [] := by
        intro he
        rw [he] at hg3
        simp at hg3
      obtain ⟨st', hst', hpath, hsplit⟩ := Proofs.Roundtrip.fold_groups segs hv xgs hg2 true ps (ps + pe - ps)
        ⟨[], none, -1, 0, false⟩
      have hsplit' : st'.split = true := hsplit (Or.inr hne)
      have hpath' : st'.path = stepsOf (q :: l') := by
        rw [hpath, hg3]; rfl
      have hemp : (((xgs.map (·.1)).map toItem)).isEmpty = false := by
        cases xgs with
        | nil => exact absurd rfl hne
        | cons x l => rfl
      have hpe' : ps + pe - ps = pe := by omega
      simp only [itemsOf]
      rw [← hg1]
      unfold toUnstable
      rw [hst']
      simp only [hemp, hsplit', hpath', hpe', Bool.not_true, Bool.false_eq_true, if_false, if_true]

/-- gaftools' own canonical stable form: what `to_stable` writes for a canonical walk record -/
def CanonStable (segs : List RSeg) (p : SPath) (o : ConvOut) : Prop :=
  ∃ steps plen ps pe, CanonUnstable segs steps plen ps pe ∧
    toStable (nodeTbl segs) (refNames segs) (ctgLen segs) true steps plen ps pe = some (p, o)

/-- stable (canonical form) → unstable → stable reproduces the record exactly -/
theorem roundtrip_SUS (segs : List RSeg) (hv : ValidRGFA segs) (p : SPath) (o : ConvOut) (hc : CanonStable segs p o) :
    ∃ steps u, toUnstable (refOf segs) o.strandPlus (itemsOf p) o.plen o.ps o.pe = some (steps, u) ∧
      toStable (nodeTbl segs) (refNames segs) (ctgLen segs) u.strandPlus steps u.plen u.ps u.pe = some (p, o) := by
  obtain ⟨steps, plen, ps, pe, hcu, hts⟩ := hc
  exact ⟨steps, ⟨true, plen, ps, pe, o.flipCigar⟩, roundtrip_USU segs hv steps plen ps pe hcu p o hts, hts⟩

/-- a CIGAR as `groupby(str.isdigit)` sees it: non-empty digit runs alternating with non-empty non-digit runs, starting
    with digits and ending with an operation -/
def wfCigarToks : List Str → Prop
  | [] => True
  | n :: op :: rest => n ≠ [] ∧ n.all Char.isDigit = true ∧ op ≠ [] ∧ op.all (fun c => !c.isDigit) = true ∧ wfCigarToks rest
  | _ => False

/-- the tokens of a well-formed CIGAR are its (length, operation) pairs, flattened -/
theorem wf_pairs : ∀ toks : List Str, wfCigarToks toks →
    Proofs.Roundtrip.WfP (Gaftools.Stat.cigarPairs toks) ∧
      (Gaftools.Stat.cigarPairs toks).flatMap (fun p => [p.1, p.2]) = toks
  | [], _ => ⟨fun p hp => by simp [Gaftools.Stat.cigarPairs] at hp, rfl⟩
  | [_], h => by simp [wfCigarToks] at h
  | n :: op :: rest, h => by
    obtain ⟨h1, h2, h3, h4, h5⟩ := h
    obtain ⟨ih1, ih2⟩ := wf_pairs rest h5
    constructor
    · intro p hp
      simp only [Gaftools.Stat.cigarPairs, List.mem_cons] at hp
      rcases hp with rfl | hp
      · refine ⟨h1, ?_, h3, ?_⟩
        · intro c hc; exact List.all_eq_true.1 h2 c hc
        · intro c hc; simpa using List.all_eq_true.1 h4 c hc
      · exact ih1 p hp
    · simp only [Gaftools.Stat.cigarPairs, List.flatMap_cons, ih2]; rfl

/-- reversing the CIGAR twice gives it back -/
theorem reverseCigar_involutive (cg : Str) (h : wfCigarToks (Gaftools.Stat.groupDigits cg)) :
    reverseCigarStr (reverseCigarStr cg) = cg := by
  obtain ⟨hw, hf⟩ := wf_pairs _ h
  have hcg : (Gaftools.Stat.cigarPairs (Gaftools.Stat.groupDigits cg)).flatMap (fun p => p.1 ++ p.2) = cg := by
    rw [← Proofs.Roundtrip.flatMap_pair_flatten, hf, Proofs.Roundtrip.groupDigits_flatten]
  have hw' : Proofs.Roundtrip.WfP (Gaftools.Stat.cigarPairs (Gaftools.Stat.groupDigits cg)).reverse :=
    fun p hp => hw p (List.mem_reverse.1 hp)
  have e1 : reverseCigarStr cg
      = (Gaftools.Stat.cigarPairs (Gaftools.Stat.groupDigits cg)).reverse.flatMap (fun p => p.1 ++ p.2) := rfl
  rw [e1]
  unfold reverseCigarStr
  rw [Proofs.Roundtrip.reverse_pairs _ hw', List.reverse_reverse]
  exact hcg

/-! Why `emit_untouched` needs the hypothesis that the record's CIGAR holds no tab — without it the statement is false: `Rec.cigar` is a free field of the record, not tied to `r.tags`, and nothing excludes
    a tab in it; when the CIGAR is flipped the value written for `cg:Z:` is `reverseCigarStr r.cigar`, which then contains
    the tab and splits into two fields.  Counterexample below; `emit_untouched_fixed` is the statement with the missing
    hypothesis `¬ r.cigar.contains '\t'` (proved). -/
def emitCounterRec : Rec := { (default : Rec) with cigar := "1\tM".toList, tags := [(cgKey, "1M".toList)] }
example : (∀ t ∈ emitCounterRec.tags, ¬ t.1.contains '\t' ∧ ¬ t.2.contains '\t') ∧ ¬ emitCounterRec.qname.contains '\t' ∧
    ¬ ([] : Str).contains '\t' ∧
    ((splitTab (emitConverted emitCounterRec [] ⟨true, 0, 0, 0, true⟩)).drop 12).length ≠ emitCounterRec.tags.length := by decide

theorem dictSet_has (d : List (Str × Str)) (k v : Str) (h : dictHas d k = true) :
    dictSet d k v = d.map (fun e => if e.1 == k then (k, v) else e) := by
  unfold dictHas at h
  unfold dictSet
  rw [if_pos h]

theorem emit_core (r : Rec) (path : Str) (o : ConvOut) (tags' : List (Str × Str))
    (hq : '\t' ∉ r.qname) (hp : '\t' ∉ path) (hlen : tags'.length = r.tags.length)
    (hnt : ∀ e ∈ tags', '\t' ∉ e.1 ∧ '\t' ∉ e.2)
    (hpt : ∀ i (hi : i < r.tags.length) (hi' : i < tags'.length),
      tags'[i].1 = r.tags[i].1 ∧ (r.tags[i].1 ≠ cgKey → tags'[i] = r.tags[i])) :
    let fs := splitTab (joinTab ([r.qname, dec r.qlen, dec r.qs, dec r.qe, (if o.strandPlus then ['+'] else ['-']), path,
            decI o.plen, decI o.ps, decI o.pe, dec r.nmatch, dec r.blen, dec r.mapq] ++ tags'.map (fun kv => kv.1 ++ kv.2)))
    fs.take 4 = [r.qname, dec r.qlen, dec r.qs, dec r.qe] ∧
    (fs.drop 9).take 3 = [dec r.nmatch, dec r.blen, dec r.mapq] ∧
    (fs.drop 12).length = r.tags.length ∧
    ∀ i (hi : i < r.tags.length), ∃ f, (fs.drop 12)[i]? = some f ∧ f.take (r.tags[i]).1.length = (r.tags[i]).1 ∧
      ((r.tags[i]).1 ≠ cgKey → f = (r.tags[i]).1 ++ (r.tags[i]).2) := by
  have hdec : ∀ n, '\t' ∉ dec n := by
    intro n hm
    have := Nat.isDigit_of_mem_toDigits (b := 10) (by decide) (by decide) hm
    exact absurd this (by decide)
  have hdecI : ∀ i, '\t' ∉ decI i := by
    intro i hm
    unfold decI at hm
    split at hm
    · rcases List.mem_cons.1 hm with h | h
      · exact absurd h (by decide)
      · exact hdec _ h
    · exact hdec _ hm
  have hsplit : splitTab (joinTab ([r.qname, dec r.qlen, dec r.qs, dec r.qe, (if o.strandPlus then ['+'] else ['-']), path,
            decI o.plen, decI o.ps, decI o.pe, dec r.nmatch, dec r.blen, dec r.mapq] ++ tags'.map (fun kv => kv.1 ++ kv.2)))
      = [r.qname, dec r.qlen, dec r.qs, dec r.qe, (if o.strandPlus then ['+'] else ['-']), path,
            decI o.plen, decI o.ps, decI o.pe, dec r.nmatch, dec r.blen, dec r.mapq] ++ tags'.map (fun kv => kv.1 ++ kv.2) := by
    unfold splitTab joinTab
    apply List.splitOn_intercalate '\t' _ (by simp)
    intro l hl
    rw [List.mem_append] at hl
    rcases hl with hl | hl
    · simp only [List.mem_cons, List.not_mem_nil, or_false] at hl
      rcases hl with rfl|rfl|rfl|rfl|rfl|rfl|rfl|rfl|rfl|rfl|rfl|rfl
      · exact hq
      · exact hdec _
      · exact hdec _
      · exact hdec _
      · split <;> decide
      · exact hp
      · exact hdecI _
      · exact hdecI _
      · exact hdecI _
      · exact hdec _
      · exact hdec _
      · exact hdec _
    · obtain ⟨e, he, rfl⟩ := List.mem_map.1 hl
      intro hm
      rcases List.mem_append.1 hm with h | h
      · exact (hnt e he).1 h
      · exact (hnt e he).2 h
  intro fs
  have hfs : fs = _ := hsplit
  rw [hfs]
  refine ⟨rfl, rfl, ?_, ?_⟩
  · simp [hlen]
  · intro i hi
    have hi' : i < tags'.length := by omega
    obtain ⟨h1, h2⟩ := hpt i hi hi'
    refine ⟨tags'[i].1 ++ tags'[i].2, ?_, ?_, ?_⟩
    · simp [hi']
    · rw [← h1]; simp
    · intro hk; rw [h2 hk]

/-- the printed converted record leaves read name, read length/start/end, match count, block length and mapping quality
    unchanged, and every optional field other than the CIGAR, in the original order -/
theorem emit_untouched (r : Rec) (path : Str) (o : ConvOut) :
    let fs := splitTab (emitConverted r path o)
    (∀ t ∈ r.tags, ¬ t.1.contains '\t' ∧ ¬ t.2.contains '\t') → ¬ r.qname.contains '\t' → ¬ path.contains '\t' →
    ¬ r.cigar.contains '\t' →
    fs.take 4 = [r.qname, dec r.qlen, dec r.qs, dec r.qe] ∧
    (fs.drop 9).take 3 = [dec r.nmatch, dec r.blen, dec r.mapq] ∧
    (fs.drop 12).length = r.tags.length ∧
    ∀ i (hi : i < r.tags.length), ∃ f, (fs.drop 12)[i]? = some f ∧ f.take (r.tags[i]).1.length = (r.tags[i]).1 ∧
      ((r.tags[i]).1 ≠ cgKey → f = (r.tags[i]).1 ++ (r.tags[i]).2) := by
  intro fs htags hq hp hcg
  have htags' : ∀ t ∈ r.tags, '\t' ∉ t.1 ∧ '\t' ∉ t.2 := by
    intro t ht
    have := htags t ht
    simpa using this
  have hq' : '\t' ∉ r.qname := by simpa using hq
  have hp' : '\t' ∉ path := by simpa using hp
  have hcg' : '\t' ∉ r.cigar := by simpa using hcg
  by_cases hc : (o.flipCigar && dictHas r.tags cgKey) = true
  · have hhas : dictHas r.tags cgKey = true := by
      simp only [Bool.and_eq_true] at hc; exact hc.2
    have hfs : fs = splitTab (joinTab ([r.qname, dec r.qlen, dec r.qs, dec r.qe, (if o.strandPlus then ['+'] else ['-']), path,
            decI o.plen, decI o.ps, decI o.pe, dec r.nmatch, dec r.blen, dec r.mapq] ++
            (r.tags.map (fun e => if e.1 == cgKey then (cgKey, reverseCigarStr r.cigar) else e)).map (fun kv => kv.1 ++ kv.2))) := by
      show splitTab (emitConverted r path o) = _
      unfold emitConverted
      simp only []
      rw [if_pos hc, dictSet_has _ _ _ hhas]
    rw [hfs]
    apply emit_core r path o _ hq' hp' (by simp)
    · intro e he
      obtain ⟨t, ht, rfl⟩ := List.mem_map.1 he
      split
      · refine ⟨(by decide : '\t' ∉ cgKey), ?_⟩
        intro hm
        exact hcg' (Proofs.Roundtrip.mem_reverseCigarStr _ _ hm)
      · exact htags' t ht
    · intro i hi hi'
      simp only [List.getElem_map]
      split
      · rename_i hk
        have hk' : r.tags[i].1 = cgKey := by simpa using hk
        exact ⟨hk'.symm, fun hne => absurd hk' hne⟩
      · exact ⟨rfl, fun _ => rfl⟩
  · have hfs : fs = splitTab (joinTab ([r.qname, dec r.qlen, dec r.qs, dec r.qe, (if o.strandPlus then ['+'] else ['-']), path,
            decI o.plen, decI o.ps, decI o.pe, dec r.nmatch, dec r.blen, dec r.mapq] ++
            r.tags.map (fun kv => kv.1 ++ kv.2))) := by
      show splitTab (emitConverted r path o) = _
      unfold emitConverted
      simp only []
      rw [if_neg hc]
    rw [hfs]
    exact emit_core r path o _ hq' hp' rfl htags' (fun i hi hi' => ⟨rfl, fun _ => rfl⟩)

/-- whole-file conversion emits exactly one record per input record, the i-th from the i-th -/
def convertFile (conv : Str → Option Str) (lines : List Str) : Option (List Str) := lines.mapM conv

theorem convertFile_length (conv : Str → Option Str) (lines out : List Str) (h : convertFile conv lines = some out) :
    out.length = lines.length ∧ ∀ i (hi : i < lines.length), out[i]? = conv lines[i] := by
  obtain ⟨hl, hp⟩ := (Proofs.Conv.mapM_eq_some_iff conv lines out).1 h
  exact ⟨hl, fun i hi => (hp i hi).symm⟩

/-! non-vacuity (graph of C01: chr1 = a[0,3) b[3,5) c[5,9); h at hap[10,12)) -/
example : toUnstable (refOf exSegs) false (itemsOf (.bare "chr1")) 9 4 8 = some ([(false, "c"), (false, "b")], ⟨true, 6, 1, 5, true⟩) := by decide
example : reverseCigarStr "3=1X12I".toList = "12I1X3=".toList := by decide

end Gaftools.C02
