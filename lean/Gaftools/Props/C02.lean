import Gaftools.Props.C01b
import Gaftools.Model.ConvText
/-!
# C02 — conversion is lossless: round trips and untouched columns
-/
namespace Gaftools.C02
open Gaftools.Gaf Gaftools.Conv Gaftools.ConvText Gaftools.Spec.Conv Gaftools.C01

/-- a canonical unstable record: a walk record whose alignment touches its first and its last node -/
structure CanonUnstable (segs : List RSeg) (steps : List (Bool × String)) (plen ps pe : Int) : Prop where
  walk : WalkRec segs steps plen ps pe
  nonempty : ps < pe
  first : ∀ st, steps.head? = some st → ∀ s, findSeg segs st.2 = some s → ps < s.seq.length
  last : ∀ st, steps.getLast? = some st → ∀ s, findSeg segs st.2 = some s → plen - s.seq.length < pe

/-- the stable path as the items `to_unstable` reads back -/
def itemsOf : SPath → List SItem
  | .bare c => [.bare c]
  | .ivs l => l.map toItem

/-- MAIN: unstable → stable → unstable reproduces a canonical record exactly (path, path length, offsets; the CIGAR is
    reversed twice or not at all) -/
theorem roundtrip_USU (segs : List RSeg) (hv : ValidRGFA segs) (steps : List (Bool × String)) (plen ps pe : Int)
    (hc : CanonUnstable segs steps plen ps pe) (p : SPath) (o : ConvOut)
    (h : toStable (nodeTbl segs) (refNames segs) (ctgLen segs) true steps plen ps pe = some (p, o)) :
    toUnstable (refOf segs) o.strandPlus (itemsOf p) o.plen o.ps o.pe = some (steps, ⟨true, plen, ps, pe, o.flipCigar⟩) := by
  sorry

/-- gaftools' own canonical stable form: what `to_stable` writes for a canonical walk record -/
def CanonStable (segs : List RSeg) (p : SPath) (o : ConvOut) : Prop :=
  ∃ steps plen ps pe, CanonUnstable segs steps plen ps pe ∧
    toStable (nodeTbl segs) (refNames segs) (ctgLen segs) true steps plen ps pe = some (p, o)

/-- stable (canonical form) → unstable → stable reproduces the record exactly -/
theorem roundtrip_SUS (segs : List RSeg) (hv : ValidRGFA segs) (p : SPath) (o : ConvOut) (hc : CanonStable segs p o) :
    ∃ steps u, toUnstable (refOf segs) o.strandPlus (itemsOf p) o.plen o.ps o.pe = some (steps, u) ∧
      toStable (nodeTbl segs) (refNames segs) (ctgLen segs) u.strandPlus steps u.plen u.ps u.pe = some (p, o) := by
  sorry

/-- a CIGAR as `groupby(str.isdigit)` sees it: non-empty digit runs alternating with non-empty non-digit runs, starting
    with digits and ending with an operation -/
def wfCigarToks : List Str → Prop
  | [] => True
  | n :: op :: rest => n ≠ [] ∧ n.all Char.isDigit = true ∧ op ≠ [] ∧ op.all (fun c => !c.isDigit) = true ∧ wfCigarToks rest
  | _ => False

/-- reversing the CIGAR twice gives it back -/
theorem reverseCigar_involutive (cg : Str) (h : wfCigarToks (Gaftools.Stat.groupDigits cg)) :
    reverseCigarStr (reverseCigarStr cg) = cg := by
  sorry

/-- the printed converted record leaves read name, read length/start/end, match count, block length and mapping quality
    unchanged, and every optional field other than the CIGAR, in the original order -/
theorem emit_untouched (r : Rec) (path : Str) (o : ConvOut) :
    let fs := splitTab (emitConverted r path o)
    (∀ t ∈ r.tags, ¬ t.1.contains '\t' ∧ ¬ t.2.contains '\t') → ¬ r.qname.contains '\t' → ¬ path.contains '\t' →
    fs.take 4 = [r.qname, dec r.qlen, dec r.qs, dec r.qe] ∧
    (fs.drop 9).take 3 = [dec r.nmatch, dec r.blen, dec r.mapq] ∧
    (fs.drop 12).length = r.tags.length ∧
    ∀ i (hi : i < r.tags.length), ∃ f, (fs.drop 12)[i]? = some f ∧ f.take (r.tags[i]).1.length = (r.tags[i]).1 ∧
      ((r.tags[i]).1 ≠ cgKey → f = (r.tags[i]).1 ++ (r.tags[i]).2) := by
  sorry

/-- whole-file conversion emits exactly one record per input record, the i-th from the i-th -/
def convertFile (conv : Str → Option Str) (lines : List Str) : Option (List Str) := lines.mapM conv

theorem convertFile_length (conv : Str → Option Str) (lines out : List Str) (h : convertFile conv lines = some out) :
    out.length = lines.length ∧ ∀ i (hi : i < lines.length), out[i]? = conv lines[i] := by
  sorry

/-! non-vacuity (graph of C01: chr1 = a[0,3) b[3,5) c[5,9); h at hap[10,12)) -/
example : toUnstable (refOf exSegs) false (itemsOf (.bare "chr1")) 9 4 8 = some ([(false, "c"), (false, "b")], ⟨true, 6, 1, 5, true⟩) := by decide
example : reverseCigarStr "3=1X12I".toList = "12I1X3=".toList := by decide

end Gaftools.C02
