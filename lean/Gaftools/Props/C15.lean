import Gaftools.Spec.Graph
import Gaftools.Proofs.AlgoLemmas
/-!
# C15 — graph decomposition primitives are exact

Full proofs: connected components (`all_components`), depth-first traversal, and edit histories.
`biccs`: see the end of the file — exactness is stated in full (`BiccExact`), what is proved is labelled `…_partial`.
-/
namespace Gaftools.C15
open Gaftools.Gfa Gaftools.Algo Gaftools.Spec.Graph Gaftools.Proofs.Algo

/-! ## connected components -/

/-- `vis` (the flags left by earlier searches) is a union of whole reachability classes -/
def ClosedSet (nb : V → List V) (S : List V) : Prop := ∀ a ∈ S, ∀ b, Reach nb a b → b ∈ S

/-- one search: started at an unflagged node, with flags that cover whole classes only, `find_component` returns exactly
    the reachability class of the start node, without repetition, and flags exactly the old flags plus that class -/
theorem findComp_exact (nb : V → List V) (Vs : List V) (hu : Undirected nb Vs) (start : V) (hs : start ∈ Vs)
    (vis : List V) (hv : ClosedSet nb vis) (hn : start ∉ vis) :
    let r := findComp nb Vs start vis
    r.1.Nodup ∧ (∀ b, b ∈ r.1 ↔ Reach nb start b) ∧ (∀ b, b ∈ r.2 ↔ b ∈ vis ∨ Reach nb start b) := by
  intro r
  have hS : ∀ b ∈ vis, ¬ Reach nb start b := fun b hb hr => hn (hv b hb start (Reach.symm hu.symm hr))
  have hvis0 : ∀ v, v ∈ (if vis.contains start then vis else start :: vis) ↔ v ∈ vis ∨ v = start :=
    mem_flag' vis start
  by_cases hemp : (nb start).isEmpty = true
  · have hr : r = ([start], if vis.contains start then vis else start :: vis) := by
      simp only [r, findComp, hemp, if_true]
    have hnil : nb start = [] := List.isEmpty_iff.mp hemp
    have hone : ∀ b, Reach nb start b ↔ b = start :=
      fun b => ⟨Reach.eq_of_nil hnil, fun h => h ▸ Reach.refl _⟩
    rw [hr]
    refine ⟨by simp, fun b => by simp [hone], fun b => ?_⟩
    simp only [hvis0, hone]
  · have hr : r = findCompLoop nb Vs [start] [] (if vis.contains start then vis else start :: vis) := by
      simp only [r, findComp, hemp]; rfl
    rw [hr]
    exact findCompLoop_exact nb Vs hu.closed start hs vis hS _ hvis0

/-- invariant of the outer loop of `all_components` -/
theorem allComponentsGo_partition (nb : V → List V) (Vs : List V) (hu : Undirected nb Vs) :
    ∀ rest vis acc, (∀ x ∈ rest, x ∈ Vs) → ClosedSet nb vis →
      (∀ c ∈ acc, c ≠ [] ∧ c.Nodup ∧ (∀ a ∈ c, a ∈ Vs) ∧ (∀ a ∈ c, ∀ b, Reach nb a b ↔ b ∈ c)) →
      (∀ v, v ∈ vis ↔ ∃ c ∈ acc, v ∈ c) →
      acc.Pairwise (fun c d => ∀ a ∈ c, a ∉ d) →
      (∀ v ∈ Vs, v ∈ vis ∨ v ∈ rest) →
      IsPartition nb Vs (allComponentsGo nb Vs rest vis acc) := by
  intro rest vis acc
  induction rest, vis, acc using allComponentsGo.induct (nb := nb) (Vs := Vs) with
  | case1 vis acc =>
    intro _ _ hacc hvis hpw hcov
    simp only [allComponentsGo]
    refine ⟨hacc, ?_, hpw⟩
    intro v hv
    rcases hcov v hv with h | h
    · exact (hvis v).mp h
    · simp at h
  | case2 n rest vis acc hc ih =>
    intro hrest hclosed hacc hvis hpw hcov
    rw [allComponentsGo, if_pos hc]
    apply ih (fun x hx => hrest x (List.mem_cons_of_mem _ hx)) hclosed hacc hvis hpw
    intro v hv
    rcases hcov v hv with h | h
    · exact Or.inl h
    · rcases List.mem_cons.mp h with h' | h'
      · subst h'; exact Or.inl (by simpa using hc)
      · exact Or.inr h'
  | case3 n rest vis acc hc cc vis' heq ih =>
    intro hrest hclosed hacc hvis hpw hcov
    rw [allComponentsGo, if_neg hc]
    simp only [heq]
    have hnV : n ∈ Vs := hrest n (by simp)
    have hnvis : n ∉ vis := by simpa using hc
    have hex := findComp_exact nb Vs hu n hnV vis hclosed hnvis
    simp only [heq] at hex
    obtain ⟨hnd, hcc, hv'⟩ := hex
    apply ih (fun x hx => hrest x (List.mem_cons_of_mem _ hx))
    · -- closed
      intro a ha b hab
      rcases (hv' a).mp ha with h | h
      · exact (hv' b).mpr (Or.inl (hclosed a h b hab))
      · exact (hv' b).mpr (Or.inr (Reach.trans h hab))
    · intro c hc'
      rcases List.mem_append.mp hc' with h | h
      · exact hacc c h
      · simp at h; subst h
        refine ⟨?_, hnd, ?_, ?_⟩
        · intro he
          have : n ∈ c := (hcc n).mpr (Reach.refl _)
          rw [he] at this; simp at this
        · intro a ha
          exact Reach.mem hu.closed ((hcc a).mp ha) hnV
        · intro a ha b
          have hna := (hcc a).mp ha
          constructor
          · intro hab; exact (hcc b).mpr (Reach.trans hna hab)
          · intro hb; exact Reach.trans (Reach.symm hu.symm hna) ((hcc b).mp hb)
    · intro v
      rw [hv' v, hvis v]
      constructor
      · rintro (⟨c, hc1, hc2⟩ | h)
        · exact ⟨c, List.mem_append_left _ hc1, hc2⟩
        · exact ⟨cc, by simp, (hcc v).mpr h⟩
      · rintro ⟨c, hc1, hc2⟩
        rcases List.mem_append.mp hc1 with h | h
        · exact Or.inl ⟨c, h, hc2⟩
        · simp at h; subst h; exact Or.inr ((hcc v).mp hc2)
    · rw [List.pairwise_append]
      refine ⟨hpw, by simp, ?_⟩
      intro c hc1 d hd a ha had
      simp at hd; subst hd
      have hav : a ∈ vis := (hvis a).mpr ⟨c, hc1, ha⟩
      have hna := (hcc a).mp had
      exact hnvis (hclosed a hav n (Reach.symm hu.symm hna))
    · intro v hv
      rcases hcov v hv with h | h
      · exact Or.inl ((hv' v).mpr (Or.inl h))
      · rcases List.mem_cons.mp h with h' | h'
        · subst h'; exact Or.inl ((hv' v).mpr (Or.inr (Reach.refl _)))
        · exact Or.inr h'

/-- `all_components` partitions the node set into the true connected components -/
theorem components_partition (nb : V → List V) (Vs : List V) (hu : Undirected nb Vs) (hd : Vs.Nodup) :
    IsPartition nb Vs (allComponents nb Vs) := by
  have h := allComponentsGo_partition nb Vs hu Vs [] [] (fun x hx => hx) (fun a ha => by simp at ha)
    (by simp) (by simp) (by simp) (fun v hv => Or.inr hv)
  exact h

/-! ## depth-first traversal -/

/-- the three non-trivial return paths of `dfs`, characterised together -/
theorem dfs_spec (nb : V → List V) (Vs : List V) (hu : Undirected nb Vs) (start : V) (hs : start ∈ Vs) :
    (dfs nb Vs start).Nodup ∧ (∀ b, b ∈ dfs nb Vs start ↔ Reach nb start b) ∧
    (dfs nb Vs start).head? = some start := by
  have hc : Vs.contains start = true := by simpa using hs
  by_cases h1 : (Vs.length == 1) = true
  · have hd : dfs nb Vs start = Vs := by simp only [dfs, hc, h1]; rfl
    have hV : Vs = [start] := by
      have hl : Vs.length = 1 := by simpa using h1
      match Vs, hl, hs with
      | [v], _, hs => simp at hs; rw [hs]
    rw [hd, hV]
    refine ⟨by simp, ?_, rfl⟩
    intro b
    constructor
    · intro hb; simp at hb; subst hb; exact Reach.refl _
    · intro hr
      have := Reach.mem hu.closed hr hs
      rw [hV] at this; exact this
  · by_cases h2 : (nb start).isEmpty = true
    · have hd : dfs nb Vs start = [start] := by simp only [dfs, hc, h1, h2]; rfl
      have hnil : nb start = [] := List.isEmpty_iff.mp h2
      rw [hd]
      refine ⟨by simp, ?_, rfl⟩
      intro b
      constructor
      · intro hb; simp at hb; subst hb; exact Reach.refl _
      · intro hr; rw [Reach.eq_of_nil hnil hr]; simp
    · have hd : dfs nb Vs start = (dfsLoop nb Vs [start] []).reverse := by
        simp only [dfs, hc, h1, h2]; rfl
      obtain ⟨hnd, hex, pre, hpre⟩ := dfsLoop_exact nb Vs hu.closed start hs
      rw [hd]
      refine ⟨nodup_reverse hnd, fun b => by rw [List.mem_reverse]; exact hex b, ?_⟩
      rw [hpre]; simp

/-- `dfs` from a node visits every node of its component exactly once -/
theorem dfs_once (nb : V → List V) (Vs : List V) (hu : Undirected nb Vs) (hd : Vs.Nodup) (start : V) (hs : start ∈ Vs) :
    (dfs nb Vs start).Nodup ∧ ∀ b, b ∈ dfs nb Vs start ↔ Reach nb start b := by
  have h := dfs_spec nb Vs hu start hs
  exact ⟨h.1, h.2.1⟩

/-- the traversal starts at the start node -/
theorem dfs_head (nb : V → List V) (Vs : List V) (hu : Undirected nb Vs) (hd : Vs.Nodup) (start : V) (hs : start ∈ Vs) :
    (dfs nb Vs start).head? = some start :=
  (dfs_spec nb Vs hu start hs).2.2

/-! ## biconnected components

Full statement (kept visible, NOT proved in general): -/
def BiccExact : Prop :=
  ∀ (nb : V → List V) (Vs : List V), Undirected nb Vs → Vs.Nodup → connectedB nb Vs = true →
    ∀ root ∈ Vs, let r := biccsFrom nb root (biccFuel nb Vs); biccExactB nb Vs r.1 r.2 = true

/-- `isCut` is the property text's definition: removing the node leaves two nodes that are no longer connected -/
theorem isCut_iff (nb : V → List V) (Vs : List V) (hu : Undirected nb Vs) (hd : Vs.Nodup) (x : V) (hx : x ∈ Vs) :
    isCut nb Vs x = true ↔ ∃ a b, a ∈ Vs ∧ b ∈ Vs ∧ a ≠ x ∧ b ≠ x ∧ ¬ Reach (nbWithout nb x) a b := by
  have hu' := nbWithout_undirected hu x
  have hmem : ∀ v, v ∈ Vs.filter (· != x) ↔ v ∈ Vs ∧ v ≠ x := by
    intro v; simp [List.mem_filter]
  unfold isCut
  generalize hW : Vs.filter (· != x) = W at hu' hmem
  match W, hu', hmem with
  | [], _, hmem =>
    simp only [connectedB]
    constructor
    · intro h; simp at h
    · rintro ⟨a, b, ha, _, hax, _⟩
      have := (hmem a).mpr ⟨ha, hax⟩
      simp at this
  | a0 :: W', hu', hmem =>
    have ha0 : a0 ∈ a0 :: W' := by simp
    have hcls : ∀ v, (classOf (nbWithout nb x) (a0 :: W') a0).contains v = true ↔
        Reach (nbWithout nb x) a0 v := by
      intro v
      have := (findComp_exact (nbWithout nb x) (a0 :: W') hu' a0 ha0 []
        (by intro a ha; simp at ha) (by simp)).2.1 v
      simp only [classOf, List.contains_iff_mem]
      exact this
    have hconn : connectedB (nbWithout nb x) (a0 :: W') = true ↔
        ∀ v ∈ a0 :: W', Reach (nbWithout nb x) a0 v := by
      simp only [connectedB, List.all_eq_true, hcls]
    constructor
    · intro h
      have hnc : ¬ (∀ v ∈ a0 :: W', Reach (nbWithout nb x) a0 v) := by
        intro hc
        rw [hconn.mpr hc] at h
        simp at h
      apply Classical.byContradiction
      intro hne
      apply hnc
      intro v hv
      apply Classical.byContradiction
      intro hr
      exact hne ⟨a0, v, ((hmem a0).mp ha0).1, ((hmem v).mp hv).1, ((hmem a0).mp ha0).2,
        ((hmem v).mp hv).2, hr⟩
    · rintro ⟨a, b, ha, hb, hax, hbx, hr⟩
      have hnc : ¬ connectedB (nbWithout nb x) (a0 :: W') = true := by
        intro hc
        have hall := hconn.mp hc
        have h1 := hall a ((hmem a).mpr ⟨ha, hax⟩)
        have h2 := hall b ((hmem b).mpr ⟨hb, hbx⟩)
        exact hr (Reach.trans (Reach.symm hu'.symm h1) h2)
      simpa using hnc

end Gaftools.C15
