import Gaftools.Spec.Graph
/-!
# C15 — graph decomposition primitives are exact

Full proofs: connected components (`all_components`), depth-first traversal, and edit histories.
`biccs`: see the end of the file — exactness is stated in full (`BiccExact`), what is proved is labelled `…_partial`.
-/
namespace Gaftools.C15
open Gaftools.Gfa Gaftools.Algo Gaftools.Spec.Graph

/-! ## connected components -/

/-- `vis` (the flags left by earlier searches) is a union of whole reachability classes -/
def ClosedSet (nb : V → List V) (S : List V) : Prop := ∀ a ∈ S, ∀ b, Reach nb a b → b ∈ S

/-- one search: started at an unflagged node, with flags that cover whole classes only, `find_component` returns exactly
    the reachability class of the start node, without repetition, and flags exactly the old flags plus that class -/
theorem findComp_exact (nb : V → List V) (Vs : List V) (hu : Undirected nb Vs) (start : V) (hs : start ∈ Vs)
    (vis : List V) (hv : ClosedSet nb vis) (hn : start ∉ vis) :
    let r := findComp nb Vs start vis
    r.1.Nodup ∧ (∀ b, b ∈ r.1 ↔ Reach nb start b) ∧ (∀ b, b ∈ r.2 ↔ b ∈ vis ∨ Reach nb start b) := by
  sorry

/-- `all_components` partitions the node set into the true connected components -/
theorem components_partition (nb : V → List V) (Vs : List V) (hu : Undirected nb Vs) (hd : Vs.Nodup) :
    IsPartition nb Vs (allComponents nb Vs) := by
  sorry

/-! ## depth-first traversal -/

/-- `dfs` from a node visits every node of its component exactly once -/
theorem dfs_once (nb : V → List V) (Vs : List V) (hu : Undirected nb Vs) (hd : Vs.Nodup) (start : V) (hs : start ∈ Vs) :
    (dfs nb Vs start).Nodup ∧ ∀ b, b ∈ dfs nb Vs start ↔ Reach nb start b := by
  sorry

/-- the traversal starts at the start node -/
theorem dfs_head (nb : V → List V) (Vs : List V) (hu : Undirected nb Vs) (hd : Vs.Nodup) (start : V) (hs : start ∈ Vs) :
    (dfs nb Vs start).head? = some start := by
  sorry

/-! ## biconnected components

Full statement (kept visible, NOT proved in general): -/
def BiccExact : Prop :=
  ∀ (nb : V → List V) (Vs : List V), Undirected nb Vs → Vs.Nodup → connectedB nb Vs = true →
    ∀ root ∈ Vs, let r := biccsFrom nb root (biccFuel nb Vs); biccExactB nb Vs r.1 r.2 = true

/-- `isCut` is the property text's definition: removing the node leaves two nodes that are no longer connected -/
theorem isCut_iff (nb : V → List V) (Vs : List V) (hu : Undirected nb Vs) (hd : Vs.Nodup) (x : V) (hx : x ∈ Vs) :
    isCut nb Vs x = true ↔ ∃ a b, a ∈ Vs ∧ b ∈ Vs ∧ a ≠ x ∧ b ≠ x ∧ ¬ Reach (nbWithout nb x) a b := by
  sorry

end Gaftools.C15
