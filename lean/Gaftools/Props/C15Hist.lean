import Gaftools.Props.C15
import Gaftools.Model.Hist
import Gaftools.Proofs.HistLemmas
/-!
# C15 (continued) — loaded graphs are undirected; edit histories
-/
namespace Gaftools.C15
open Gaftools.Gfa Gaftools.Algo Gaftools.Spec.Graph Gaftools.Hist
open Gaftools.Proofs.Gfa Gaftools.Proofs.Hist

/-! ## the neighbour relation of a loaded graph is undirected -/

theorem readGraph_undirected (t : GfaFile) (hu : (t.segs.map (·.id)).Nodup) (lm : Bool) :
    Undirected (Graph.nbFun (readGraph t lm)) (Graph.ids (readGraph t lm)) := by
  have _ := hu
  have hids : ∀ a, a ∈ Graph.ids (readGraph t lm) ↔ (readGraph t lm).has a = true := fun a =>
    (has_iff_mem (readGraph t lm) a).symm
  refine ⟨?_, ?_, ?_⟩
  · intro a b hb
    simp only [Graph.nbFun, mem_neighbors] at hb ⊢
    obtain ⟨s, sm, ov, hx⟩ := hb
    rw [mem_adj_readGraph] at hx
    obtain ⟨l, hl, ha, hb, hc⟩ := hx
    refine ⟨sm, s, ov, ?_⟩
    rw [mem_adj_readGraph]
    exact ⟨l, hl, ha, hb, (Contrib_symm l a s b sm ov).mp hc⟩
  · intro a _ b hb
    simp only [Graph.nbFun, mem_neighbors] at hb
    obtain ⟨s, sm, ov, hx⟩ := hb
    rw [mem_adj_readGraph] at hx
    obtain ⟨l, _, ha, hb, hc⟩ := hx
    rw [hids, has_readGraph]
    rcases Contrib_ends hc with ⟨_, h2⟩ | ⟨_, h2⟩
    · simp only at h2; rw [h2]; exact hb
    · simp only at h2; rw [h2]; exact ha
  · intro a ha
    rw [hids] at ha
    exact neighbors_of_not_has _ a (by simpa using ha)

/-! ## edit histories -/

/-- after any history the graph equals the one built directly from the surviving nodes and links:
    same nodes in the same order, same adjacency sets on both sides of every node -/
theorem history_eq_build (ops : List Op) :
    Graph.ids (applyOps ops) = Graph.ids (build (survivors ops)) ∧
    ∀ id side e, e ∈ (applyOps ops).adj id side ↔ e ∈ (build (survivors ops)).adj id side := by
  have h := inv_history ops
  constructor
  · show Gaftools.Proofs.Gfa.ids (applyOps ops) = Gaftools.Proofs.Gfa.ids (build (survivors ops))
    rw [h.ids_eq, ids_build _ h.nodup]
  · intro id side e
    rw [h.adj, mem_adj_build]
    constructor
    · rintro ⟨l, hl, hc⟩
      exact ⟨l, hl, (h.closed l hl).1, (h.closed l hl).2, hc⟩
    · rintro ⟨l, hl, _, _, hc⟩
      exact ⟨l, hl, hc⟩

/-- adjacency stays symmetric between the two ends of every link -/
theorem history_symmetric (ops : List Op) (n : String) (s : Bool) (m : String) (sm : Bool) (ov : Nat) :
    (m, sm, ov) ∈ (applyOps ops).adj n s ↔ (n, s, ov) ∈ (applyOps ops).adj m sm :=
  have h := (inv_history ops).sym
  ⟨h n s m sm ov, h m sm n s ov⟩

/-- nothing refers to a deleted node -/
theorem history_no_dangling (ops : List Op) (n : String) (s : Bool) (e : Adj) (h : e ∈ (applyOps ops).adj n s) :
    (applyOps ops).has e.1 = true ∧ (applyOps ops).has n = true := by
  have hi := inv_history ops
  obtain ⟨l, hl, hc⟩ := (hi.adj n s e).mp h
  have hcl := hi.closed l hl
  rw [has_iff_mem, has_iff_mem, hi.ids_eq]
  rcases Contrib_ends hc with ⟨h1, h2⟩ | ⟨h1, h2⟩
  · rw [h1, h2]; exact ⟨hcl.2, hcl.1⟩
  · rw [h1, h2]; exact ⟨hcl.1, hcl.2⟩

/-! non-vacuity: the hypotheses are met by every loaded graph (`readGraph_undirected`), e.g. a triangle with a pendant node
and an isolated node; the values computed by the model for it are printed by `#eval` in `Gaftools/Props/C15Eval.lean`. -/
def exFile : GfaFile :=
  { segs := [⟨"a", "A", []⟩, ⟨"b", "C", []⟩, ⟨"c", "G", []⟩, ⟨"d", "T", []⟩, ⟨"z", "T", []⟩],
    links := [⟨"a", true, "b", true, 0, []⟩, ⟨"b", true, "c", false, 0, []⟩, ⟨"c", true, "a", true, 0, []⟩, ⟨"c", true, "d", true, 0, []⟩] }
example : Undirected (Graph.nbFun (readGraph exFile)) (Graph.ids (readGraph exFile)) :=
  readGraph_undirected exFile (by decide) false
example : Graph.ids (readGraph exFile) = ["a", "b", "c", "d", "z"] := by decide

end Gaftools.C15
