import Gaftools.Props.C15
import Gaftools.Model.Hist
/-!
# C15 (continued) — loaded graphs are undirected; edit histories
-/
namespace Gaftools.C15
open Gaftools.Gfa Gaftools.Algo Gaftools.Spec.Graph Gaftools.Hist

/-! ## the neighbour relation of a loaded graph is undirected -/

theorem readGraph_undirected (t : GfaFile) (hu : (t.segs.map (·.id)).Nodup) (lm : Bool) :
    Undirected (Graph.nbFun (readGraph t lm)) (Graph.ids (readGraph t lm)) := by
  sorry

/-! ## edit histories -/

/-- after any history the graph equals the one built directly from the surviving nodes and links:
    same nodes in the same order, same adjacency sets on both sides of every node -/
theorem history_eq_build (ops : List Op) :
    Graph.ids (applyOps ops) = Graph.ids (build (survivors ops)) ∧
    ∀ id side e, e ∈ (applyOps ops).adj id side ↔ e ∈ (build (survivors ops)).adj id side := by
  sorry

/-- adjacency stays symmetric between the two ends of every link -/
theorem history_symmetric (ops : List Op) (n : String) (s : Bool) (m : String) (sm : Bool) (ov : Nat) :
    (m, sm, ov) ∈ (applyOps ops).adj n s ↔ (n, s, ov) ∈ (applyOps ops).adj m sm := by
  sorry

/-- nothing refers to a deleted node -/
theorem history_no_dangling (ops : List Op) (n : String) (s : Bool) (e : Adj) (h : e ∈ (applyOps ops).adj n s) :
    (applyOps ops).has e.1 = true ∧ (applyOps ops).has n = true := by
  sorry

/-! non-vacuity: the hypotheses are met by every loaded graph (`readGraph_undirected`), e.g. a triangle with a pendant node
and an isolated node; the values computed by the model for it are printed by `#eval` in `Gaftools/Props/C15Eval.lean`. -/
def exFile : GfaFile :=
  { segs := [⟨"a", "A", []⟩, ⟨"b", "C", []⟩, ⟨"c", "G", []⟩, ⟨"d", "T", []⟩, ⟨"z", "T", []⟩],
    links := [⟨"a", true, "b", true, 0, []⟩, ⟨"b", true, "c", false, 0, []⟩, ⟨"c", true, "a", true, 0, []⟩, ⟨"c", true, "d", true, 0, []⟩] }
example : Undirected (Graph.nbFun (readGraph exFile)) (Graph.ids (readGraph exFile)) :=
  readGraph_undirected exFile (by decide) false
example : Graph.ids (readGraph exFile) = ["a", "b", "c", "d", "z"] := by decide

end Gaftools.C15
