import Gaftools.Gen.MergeNodes
/-!
# Tie A for `conversion.merge_nodes`: the definition translated from the current source equals the hand-written model
used by `toStable` (and by every theorem of C01/C02).
-/
namespace Gaftools.TieA
open Gaftools.Conv

theorem mergeNodes_gen_eq_model (n1 n2 : SNode) (o1 o2 : Bool) : Gen.mergeNodes n1 n2 o1 o2 = Conv.mergeNodes n1 n2 o1 o2 := by
  unfold Gen.mergeNodes Conv.mergeNodes
  cases o1 <;> cases o2 <;> simp <;> (repeat' split) <;> simp_all

end Gaftools.TieA
