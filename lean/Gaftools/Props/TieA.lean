import Gaftools.Gen.MergeNodes
import Gaftools.Gen.Tables
import Gaftools.Gen.IsStable
import Gaftools.Gen.IsSecondary
import Gaftools.Model.Stat
import Gaftools.Model.Gfa
import Gaftools.Model.Gaf
/-!
# Tie A for `conversion.merge_nodes`: the definition translated from the current source equals the hand-written model
used by `toStable` (and by every theorem of C01/C02).
-/
namespace Gaftools.TieA
open Gaftools.Conv

theorem mergeNodes_gen_eq_model (n1 n2 : SNode) (o1 o2 : Bool) : Gen.mergeNodes n1 n2 o1 o2 = Conv.mergeNodes n1 n2 o1 o2 := by
  first
    | rfl
    | (unfold Gen.mergeNodes Conv.mergeNodes
       cases o1 <;> cases o2 <;> simp <;> (repeat' split) <;> simp_all)

/-- `gfa.E_DIR` as translated from the source is the table the graph model uses (C07, C14, C15) -/
theorem eDir_gen_eq_model (a b : Bool) : Gen.eDir a b = Gaftools.Gfa.eDir a b := by
  cases a <;> cases b <;> rfl

/-- the `cases` table of `GFA.path_exists` as translated from the source is the table of the walk model (C14) -/
theorem pathCase_gen_eq_model (a b : Bool) : Gen.pathCase a b = Gaftools.Gfa.pathCase a b := by
  cases a <;> cases b <;> rfl

/-- `Alignment.detect_path_format` as translated from the source is the model's `isStable` (C03, C04) -/
theorem isStable_gen_eq_model (p : List Char) : Gen.isStable p = Gaftools.Gaf.isStable p := by
  unfold Gen.isStable Gaftools.Gaf.isStable
  cases h1 : p.contains ':' <;> cases h2 : p.contains '>' <;> cases h3 : p.contains '<' <;> simp_all

/-- the secondary test of `run_stat` as translated from the source is the model's `isSecondary` (C19) -/
theorem isSecondary_gen_eq_model (r : Gaftools.Gaf.Rec) : Gen.isSecondary r.isPrimary r.mapq = Gaftools.Stat.isSecondary r := by
  unfold Gen.isSecondary Gaftools.Stat.isSecondary
  cases r.isPrimary <;> simp <;> omega

end Gaftools.TieA
