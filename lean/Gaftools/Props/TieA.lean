import Gaftools.Gen.MergeNodes
import Gaftools.Gen.Tables
import Gaftools.Gen.IsStable
import Gaftools.Gen.IsSecondary
import Gaftools.Gen.SearchIv
import Gaftools.Gen.OverlapCases
import Gaftools.Model.Stat
import Gaftools.Model.Gfa
import Gaftools.Model.Gaf
/-!
# Tie A for `conversion.merge_nodes`: the definition translated from the current source equals the hand-written model
used by `toStable` (and by every theorem of C01/C02).
-/
namespace Gaftools.TieA
open Gaftools.Conv

theorem mergeNodes_gen_eq_model (n1 n2 : SNode) (o1 o2 : Bool) : Gen.mergeNodes n1 n2 o1 o2 = Conv.mergeNodes n1 n2 o1 o2 := by
  first
    | rfl
    | (unfold Gen.mergeNodes Conv.mergeNodes
       cases o1 <;> cases o2 <;> simp <;> (repeat' split) <;> simp_all)

/-- `gfa.E_DIR` as translated from the source is the table the graph model uses (C07, C14, C15) -/
theorem eDir_gen_eq_model (a b : Bool) : Gen.eDir a b = Gaftools.Gfa.eDir a b := by
  cases a <;> cases b <;> rfl

/-- the `cases` table of `GFA.path_exists` as translated from the source is the table of the walk model (C14) -/
theorem pathCase_gen_eq_model (a b : Bool) : Gen.pathCase a b = Gaftools.Gfa.pathCase a b := by
  cases a <;> cases b <;> rfl

/-- `Alignment.detect_path_format` as translated from the source is the model's `isStable` (C03, C04) -/
theorem isStable_gen_eq_model (p : List Char) : Gen.isStable p = Gaftools.Gaf.isStable p := by
  unfold Gen.isStable Gaftools.Gaf.isStable
  cases h1 : p.contains ':' <;> cases h2 : p.contains '>' <;> cases h3 : p.contains '<' <;> simp_all

/-- the secondary test of `run_stat` as translated from the source is the model's `isSecondary` (C19) -/
theorem isSecondary_gen_eq_model (r : Gaftools.Gaf.Rec) : Gen.isSecondary r.isPrimary r.mapq = Gaftools.Stat.isSecondary r := by
  unfold Gen.isSecondary Gaftools.Stat.isSecondary
  cases r.isPrimary <;> simp <;> omega

/-- `utils.search_intervals` as translated from the source (recursion by fuel) is the model's `searchIv`, for every
    non-negative start index (the only ones that occur: the search starts at 0 and only ever moves `start` to `mid + 1`) -/
theorem searchIv_gen_eq_model (iv : List Seg) (qs qe : Int) (fuel : Nat) (s e : Int) (hs : 0 ≤ s) :
    Gen.searchIv iv qs qe fuel s e = Conv.searchIv iv qs qe fuel s e := by
  first
    | rfl
    | (induction fuel generalizing s e with
       | zero => rfl
       | succ fuel ih =>
         unfold Gen.searchIv Conv.searchIv
         by_cases hse : s ≤ e
         · have hm : ¬ (s + (e - s) / 2 < 0) := by omega
           simp only [hse, if_true, hm, if_false]
           cases hget : iv[(s + (e - s) / 2).toNat]? with
           | none => rfl
           | some sg =>
             simp only []
             by_cases h1 : qe ≤ sg.so
             · simp only [h1, if_true]; exact ih s _ hs
             · have h2 : (qs ≥ sg.so + (sg.en - sg.so)) ↔ (qs ≥ sg.en) := by omega
               by_cases h3 : qs ≥ sg.en
               · simp only [h1, if_false, h2.2 h3, h3, if_true]; exact ih _ e (by omega)
               · have h4 : ¬ (qs ≥ sg.so + (sg.en - sg.so)) := fun h => h3 (h2.1 h)
                 simp only [h1, if_false, h4, h3]
         · simp only [hse, if_false])

/-- the overlap tests of `to_unstable` and of `convert_coord`, as translated from the source, are the model's `overlapCase` -/
theorem overlapCaseConv_gen_eq_model (sg : Seg) (qs qe : Int) : Gen.overlapCaseConv sg qs qe = Conv.overlapCase sg qs qe := by
  first
    | rfl
    | (unfold Gen.overlapCaseConv Conv.overlapCase
       repeat' split
       all_goals first | rfl | omega)

theorem overlapCaseIndex_gen_eq_model (sg : Seg) (qs qe : Int) : Gen.overlapCaseIndex sg qs qe = Conv.overlapCase sg qs qe := by
  first
    | rfl
    | (unfold Gen.overlapCaseIndex Conv.overlapCase
       repeat' split
       all_goals first | rfl | omega)

end Gaftools.TieA
