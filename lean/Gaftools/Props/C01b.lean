import Gaftools.Props.C01a
import Gaftools.Props.C03s
/-!
# C01 (part b) — stable → unstable conversion designates the same locus
-/
namespace Gaftools.C01
open Gaftools.Conv Gaftools.Spec.Conv

variable (comp : Char → Char)

/-- a stable record whose path is a bare reference contig name (either strand) -/
structure BareRec (segs : List RSeg) (c : String) (ps pe : Int) : Prop where
  isRef : c ∈ refNames segs
  bounds : 0 ≤ ps ∧ ps < pe
  len : ∃ L, ctgLen segs c = some L ∧ pe ≤ L

/-- consecutive segments touch -/
def touching : List RSeg → Prop
  | a :: b :: r => a.en = b.so ∧ touching (b :: r)
  | _ => True

/-- the stable interval is exactly tiled by a run of consecutive segments of its stable sequence
    (what `to_stable` writes, and what the rGFA format means by a stable interval of a walk) -/
def TiledIv (segs : List RSeg) (x : OIv) : Prop :=
  ∃ run : List RSeg, run ≠ [] ∧ (∀ s ∈ run, s ∈ segs ∧ s.sn = x.1.contig) ∧ touching run ∧
    run.head?.map (·.so) = some x.1.s ∧ run.getLast?.map (·.en) = some x.1.e

def toItem (x : OIv) : SItem := .iv x.2 x.1.contig x.1.s x.1.e

/-- the rank-0 stable sequences of a valid rGFA are tiled from 0 to their length by their sorted segments -/
theorem ref_tiled (segs : List RSeg) (hv : ValidRGFA segs) (c : String) (hc : c ∈ refNames segs) (L : Int)
    (hL : ctgLen segs c = some L) (p : Int) (hp : 0 ≤ p ∧ p < L) :
    ∃ sg ∈ refOf segs c, sg.so ≤ p ∧ p < sg.en := by
  sorry

/-- MAIN (bare contig, either strand): the conversion succeeds, the result is a '+'-strand walk over the nodes under
    `[ps, pe)`, designates the same bases in the same read orientation, its path length is the total node length, the CIGAR is
    reversed exactly when the strand flips (input '-') -/
theorem toUnstable_bare (segs : List RSeg) (hv : ValidRGFA segs) (c : String) (strandPlus : Bool) (plen ps pe : Int)
    (hb : BareRec segs c ps pe) :
    ∃ path o, toUnstable (refOf segs) strandPlus [.bare c] plen ps pe = some (path, o) ∧
      locusU comp segs path o.ps o.pe = locusS comp segs (.bare c) strandPlus ps pe ∧
      (locusS comp segs (.bare c) strandPlus ps pe).isSome ∧
      plenU segs path = some o.plen ∧ o.strandPlus = true ∧ o.flipCigar = !strandPlus ∧ o.pe - o.ps = pe - ps := by
  sorry

/-- MAIN (interval list, '+' strand): every interval is replaced by its run of nodes (reversed for '<'), offsets and total
    length unchanged, same bases -/
theorem toUnstable_ivs (segs : List RSeg) (hv : ValidRGFA segs) (l : List OIv) (hl : l ≠ [])
    (ht : ∀ x ∈ l, TiledIv segs x) (ps pe : Int) (hb : 0 ≤ ps ∧ ps ≤ pe ∧ pe ≤ plenS l) :
    ∃ path, toUnstable (refOf segs) true (l.map toItem) (plenS l) ps pe = some (path, ⟨true, plenS l, ps, pe, false⟩) ∧
      locusU comp segs path ps pe = locusS comp segs (.ivs l) true ps pe ∧
      (locusS comp segs (.ivs l) true ps pe).isSome ∧
      plenU segs path = some (plenS l) := by
  sorry

/-! non-vacuity (graph of part a: chr1 = a[0,3) b[3,5) c[5,9); h at hap[10,12)) -/
example : toUnstable (refOf exSegs) false [.bare "chr1"] 9 4 8 = some ([(false, "c"), (false, "b")], ⟨true, 6, 1, 5, true⟩) := by decide
example : toUnstable (refOf exSegs) true [.iv true "chr1" 0 5, .iv false "hap" 10 12] 7 1 6
    = some ([(true, "a"), (true, "b"), (false, "h")], ⟨true, 7, 1, 6, false⟩) := by decide
example : "chr1" ∈ refNames exSegs := by decide

end Gaftools.C01
