import Gaftools.Props.C01a
import Gaftools.Props.C03s
import Gaftools.Proofs.UnstableLemmas
/-!
# C01 (part b) — stable → unstable conversion designates the same locus
-/
namespace Gaftools.C01
open Gaftools.Conv Gaftools.Spec.Conv

variable (comp : Char → Char)

/-- a stable record whose path is a bare reference contig name (either strand) -/
structure BareRec (segs : List RSeg) (c : String) (ps pe : Int) : Prop where
  isRef : c ∈ refNames segs
  bounds : 0 ≤ ps ∧ ps < pe
  len : ∃ L, ctgLen segs c = some L ∧ pe ≤ L

/-- consecutive segments touch -/
def touching : List RSeg → Prop
  | a :: b :: r => a.en = b.so ∧ touching (b :: r)
  | _ => True

/-- the stable interval is exactly tiled by a run of consecutive segments of its stable sequence
    (what `to_stable` writes, and what the rGFA format means by a stable interval of a walk) -/
def TiledIv (segs : List RSeg) (x : OIv) : Prop :=
  ∃ run : List RSeg, run ≠ [] ∧ (∀ s ∈ run, s ∈ segs ∧ s.sn = x.1.contig) ∧ touching run ∧
    run.head?.map (·.so) = some x.1.s ∧ run.getLast?.map (·.en) = some x.1.e

def toItem (x : OIv) : SItem := .iv x.2 x.1.contig x.1.s x.1.e


/-! ## helper lemmas -/

/-- all segments of a rank-0 stable sequence have rank 0, and there is one -/
theorem ref_rank0 (segs : List RSeg) (hv : ValidRGFA segs) (c : String) (hc : c ∈ refNames segs) :
    (∃ s ∈ segs, s.sn = c) ∧ ∀ s ∈ segs, s.sn = c → s.sr = 0 := by
  unfold refNames at hc
  rw [List.mem_eraseDups] at hc
  obtain ⟨s0, hs0, rfl⟩ := List.mem_map.1 hc
  rw [List.mem_filter] at hs0
  obtain ⟨hs0m, hs0r⟩ := hs0
  have h0 : s0.sr = 0 := by simpa using hs0r
  exact ⟨⟨s0, hs0m, rfl⟩, fun s hs hsn => by rw [hv.rank s hs s0 hs0m hsn]; exact h0⟩

/-- the sorted segments of a rank-0 stable sequence tile it from 0 -/
theorem ref_chain (segs : List RSeg) (hv : ValidRGFA segs) (c : String) (hc : c ∈ refNames segs) :
    ∃ b, Proofs.Unstable.Chain (refOf segs c) 0 b := by
  obtain ⟨⟨s0, hs0, hs0c⟩, hr⟩ := ref_rank0 segs hv c hc
  have hsd := C03.refOf_sortedDisjoint segs hv c
  refine Proofs.Unstable.sorted_chain _ ?_ hsd.1 hsd.2 ?_ ?_
  · intro h
    have hm : (⟨s0.id, s0.so, s0.en⟩ : Seg) ∈ refOf segs c := (C03.mem_refOf segs c _).2 ⟨s0, hs0, hs0c, rfl⟩
    rw [h] at hm
    simp at hm
  · intro sg hsg
    obtain ⟨s, hs, _, rfl⟩ := (C03.mem_refOf segs c sg).1 hsg
    exact (hv.pos s hs).1
  · intro sg hsg
    obtain ⟨s, hs, hsc, rfl⟩ := (C03.mem_refOf segs c sg).1 hsg
    rcases hv.tiled s hs (hr s hs hsc) with h | ⟨b, hb, hbn, hbe⟩
    · exact Or.inl h
    · exact Or.inr ⟨⟨b.id, b.so, b.en⟩, (C03.mem_refOf segs c _).2 ⟨b, hb, hbn.trans hsc, rfl⟩, hbe⟩

/-- `contig_len[c]` is the total length of the sorted segment table of `c` -/
theorem ctgLen_eq_sum (segs : List RSeg) (c : String) (L : Int) (hL : ctgLen segs c = some L) :
    ((refOf segs c).map (fun sg => sg.en - sg.so)).sum = L := by
  unfold ctgLen at hL
  unfold refOf
  rw [Proofs.Unstable.sum_foldl_insertBySo]
  simp only [List.map_nil, List.sum_nil, Int.add_zero, List.map_map]
  have hf : ((fun sg : Seg => sg.en - sg.so) ∘ (fun s : RSeg => (⟨s.id, s.so, s.en⟩ : Seg)))
      = fun s => (s.seq.length : Int) := by
    funext s; simp only [Function.comp, RSeg.en]; omega
  rw [hf]
  split at hL
  · simp at hL
  · injection hL

/-- the rank-0 stable sequences of a valid rGFA are tiled from 0 to their length by their sorted segments -/
theorem ref_tiled (segs : List RSeg) (hv : ValidRGFA segs) (c : String) (hc : c ∈ refNames segs) (L : Int)
    (hL : ctgLen segs c = some L) (p : Int) (hp : 0 ≤ p ∧ p < L) :
    ∃ sg ∈ refOf segs c, sg.so ≤ p ∧ p < sg.en := by
  obtain ⟨b, hch⟩ := ref_chain segs hv c hc
  have h1 := hch.sum
  rw [ctgLen_eq_sum segs c L hL] at h1
  exact hch.cover p hp.1 (by omega)


/-! ## nodes of a path, spelled sequences -/

theorem find_of_mem (l : List RSeg) (hn : (l.map (·.id)).Nodup) (s : RSeg) (hs : s ∈ l) :
    l.find? (·.id == s.id) = some s := by
  induction l with
  | nil => simp at hs
  | cons t l ih =>
    rw [List.map_cons, List.nodup_cons] at hn
    by_cases hts : t = s
    · subst hts; simp
    · have hsl : s ∈ l := by
        rcases List.mem_cons.1 hs with h | h
        · exact absurd h.symm hts
        · exact h
      have hid : ¬ (t.id == s.id) = true := by
        intro h
        have h' : t.id = s.id := by simpa using h
        exact hn.1 (by rw [h']; exact List.mem_map.2 ⟨s, hsl, rfl⟩)
      rw [List.find?_cons_of_neg (p := fun x : RSeg => x.id == s.id) hid]
      exact ih hn.2 hsl

theorem findSeg_of_mem (segs : List RSeg) (hv : ValidRGFA segs) (s : RSeg) (hs : s ∈ segs) : findSeg segs s.id = some s :=
  find_of_mem segs hv.ids s hs

/-- the step list of a list of oriented nodes -/
def stepsOf (L : List (Bool × RSeg)) : List (Bool × String) := L.map (fun p => (p.1, p.2.id))

/-- the sequence spelled by a list of oriented nodes -/
def seqOf (L : List (Bool × RSeg)) : List Char :=
  (L.map (fun p => if p.1 then p.2.seq else revcomp comp p.2.seq)).flatten

def lenOf (L : List (Bool × RSeg)) : Int := (L.map (fun p => (p.2.seq.length : Int))).sum

theorem spellU_nodes (segs : List RSeg) (hv : ValidRGFA segs) (L : List (Bool × RSeg)) (hL : ∀ p ∈ L, p.2 ∈ segs) :
    spellU comp segs (stepsOf L) = some (seqOf comp L) := by
  have h : (stepsOf L).mapM (fun st => (findSeg segs st.2).map (fun s => if st.1 then s.seq else revcomp comp s.seq))
      = some (L.map (fun p => if p.1 then p.2.seq else revcomp comp p.2.seq)) := by
    induction L with
    | nil => rfl
    | cons p L ih =>
      unfold stepsOf at ih ⊢
      rw [List.map_cons, List.mapM_cons, ih (fun q hq => hL q (by simp [hq])), findSeg_of_mem segs hv p.2 (hL p (by simp))]
      rfl
  unfold spellU seqOf
  rw [h]; rfl

theorem plenU_nodes (segs : List RSeg) (hv : ValidRGFA segs) (L : List (Bool × RSeg)) (hL : ∀ p ∈ L, p.2 ∈ segs) :
    plenU segs (stepsOf L) = some (lenOf L) := by
  have h : (stepsOf L).mapM (fun st => (findSeg segs st.2).map (fun s => (s.seq.length : Int)))
      = some (L.map (fun p => (p.2.seq.length : Int))) := by
    induction L with
    | nil => rfl
    | cons p L ih =>
      unfold stepsOf at ih ⊢
      rw [List.map_cons, List.mapM_cons, ih (fun q hq => hL q (by simp [hq])), findSeg_of_mem segs hv p.2 (hL p (by simp))]
      rfl
  unfold plenU lenOf
  rw [h]; rfl

theorem revcomp_flatten (xs : List (List Char)) :
    revcomp comp xs.flatten = (xs.reverse.map (revcomp comp)).flatten := by
  induction xs with
  | nil => rfl
  | cons x xs ih => simp [Proofs.Conv.revcomp_append, ih]

/-- the oriented node list of a run of nodes: forward for '>', reversed for '<' -/
theorem run_steps (rs : List RSeg) (o : Bool) :
    ∃ L : List (Bool × RSeg), (∀ p ∈ L, p.2 ∈ rs) ∧
      stepsOf L = (if o then rs.map (·.id) else (rs.map (·.id)).reverse).map (fun i => (o, i)) ∧
      seqOf comp L = (if o then (rs.map (·.seq)).flatten else revcomp comp (rs.map (·.seq)).flatten) ∧
      lenOf L = (rs.map (fun s => (s.seq.length : Int))).sum := by
  cases o with
  | true =>
    refine ⟨rs.map (fun s => (true, s)), ?_, ?_, ?_, ?_⟩
    · intro p hp
      obtain ⟨s, hs, rfl⟩ := List.mem_map.1 hp
      exact hs
    · simp [stepsOf, List.map_map, Function.comp_def]
    · simp [seqOf, List.map_map, Function.comp_def]
    · simp [lenOf, List.map_map, Function.comp_def]
  | false =>
    refine ⟨rs.reverse.map (fun s => (false, s)), ?_, ?_, ?_, ?_⟩
    · intro p hp
      obtain ⟨s, hs, rfl⟩ := List.mem_map.1 hp
      exact List.mem_reverse.1 hs
    · simp [stepsOf, List.map_map, Function.comp_def, List.map_reverse]
    · rw [revcomp_flatten]
      simp [seqOf, List.map_map, Function.comp_def, List.map_reverse]
    · simp only [lenOf, List.map_map, Function.comp_def, List.map_reverse]
      exact List.sum_reverse _

/-- a chain of table entries of `c` is a run of nodes whose sequences concatenate to the bases of the tiled interval -/
theorem chain_nodes (segs : List RSeg) (hv : ValidRGFA segs) (c : String) {ov : List Seg} {a b : Int}
    (h : Proofs.Unstable.Chain ov a b) : (∀ sg ∈ ov, sg ∈ refOf segs c) →
    ∃ rs : List RSeg, (∀ s ∈ rs, s ∈ segs) ∧ ov.map (·.id) = rs.map (·.id) ∧
      contigSlice segs c a b = some (rs.map (·.seq)).flatten ∧
      (rs.map (fun s => (s.seq.length : Int))).sum = b - a := by
  induction h with
  | single x hx =>
    intro hmem
    obtain ⟨s, hs, hsc, rfl⟩ := (C03.mem_refOf segs c x).1 (hmem x (by simp))
    subst hsc
    refine ⟨[s], by simpa using hs, rfl, ?_, ?_⟩
    · simpa using Proofs.Conv.contigSlice_node segs hv s hs
    · simp only [List.map_cons, List.map_nil, List.sum_cons, List.sum_nil, RSeg.en]; omega
  | cons x rest b hx hr ih =>
    intro hmem
    obtain ⟨rs, h1, h2, h3, h4⟩ := ih (fun sg h => hmem sg (by simp [h]))
    obtain ⟨s, hs, hsc, rfl⟩ := (C03.mem_refOf segs c x).1 (hmem x (by simp))
    subst hsc
    refine ⟨s :: rs, ?_, ?_, ?_, ?_⟩
    · intro t ht
      rcases List.mem_cons.1 ht with rfl | ht
      · exact hs
      · exact h1 t ht
    · simp [h2]
    · have hn := Proofs.Conv.contigSlice_node segs hv s hs
      have hlt : s.en < b := hr.lt
      have hx' : s.so < s.en := hx
      have := Proofs.Conv.contigSlice_append segs s.sn s.so s.en b (by omega) (by omega) _ _ hn h3
      simpa using this
    · have hx' : s.so < s.en := hx
      simp only [List.map_cons, List.sum_cons, h4]
      simp only [RSeg.en] at hx' ⊢
      omega

/-- what the search and the inner loop see for a covered query on the table of `c` -/
theorem item_core (segs : List RSeg) (hv : ValidRGFA segs) (c : String) (qs qe : Int) (hq : qs < qe)
    (hcov : ∀ p, qs ≤ p → p < qe → ∃ sg ∈ refOf segs c, sg.so ≤ p ∧ p < sg.en) :
    ∃ (r : Int × Int) (a b : Int) (rs : List RSeg), searchIv (refOf segs c) qs qe ((refOf segs c).length + 2) 0 (refOf segs c).length = some r ∧
      (window (refOf segs c) r).filter (fun sg => overlapCase sg qs qe ≠ 0)
        = (refOf segs c).filter (fun sg => overlaps sg qs qe) ∧
      Proofs.Unstable.Chain ((refOf segs c).filter (fun sg => overlaps sg qs qe)) a b ∧ a ≤ qs ∧ qe ≤ b ∧
      (∀ s ∈ rs, s ∈ segs) ∧ ((refOf segs c).filter (fun sg => overlaps sg qs qe)).map (·.id) = rs.map (·.id) ∧
      contigSlice segs c a b = some (rs.map (·.seq)).flatten ∧
      (rs.map (fun s => (s.seq.length : Int))).sum = b - a := by
  have hsd := C03.refOf_sortedDisjoint segs hv c
  have hex : ∃ sg ∈ refOf segs c, overlaps sg qs qe = true := by
    obtain ⟨sg, hsg, h1, h2⟩ := hcov qs (by omega) hq
    exact ⟨sg, hsg, by rw [Proofs.Search.overlaps_iff]; omega⟩
  have hsome := C03.searchIv_isSome (refOf segs c) hsd qs qe hq hex
  obtain ⟨r, hr⟩ := Option.isSome_iff_exists.1 hsome
  have hsel := C03.selected_eq_overlaps (refOf segs c) hsd qs qe hq r hr
  obtain ⟨a, b, hch, ha, hb⟩ := Proofs.Unstable.filter_chain (refOf segs c) hsd.1 hsd.2 qs qe hq hcov
  obtain ⟨rs, h1, h2, h3, h4⟩ := chain_nodes segs hv c hch (fun sg h => (List.mem_filter.1 h).1)
  exact ⟨r, a, b, rs, hr, hsel, hch, ha, hb, h1, h2, h3, h4⟩

/-! ## `itemStep` -/

theorem itemStep_iv (reference : String → List Seg) (sp : Bool) (ps pe : Int) (st : USt) (o : Bool) (c : String) (s e : Int)
    (r : Int × Int) (h : searchIv (reference c) s e ((reference c).length + 2) 0 (reference c).length = some r) :
    ∃ ns nt, itemStep reference sp ps pe st (.iv o c s e) =
      some { path := st.path ++ ((if o then (scanWindow (window (reference c) r) s e true st.newStart st.newTotal).1
                else (scanWindow (window (reference c) r) s e true st.newStart st.newTotal).1.reverse).map (fun i => (o, i))),
             orient := some o, newStart := ns, newTotal := nt, split := true } := by
  unfold itemStep
  simp only [h, Option.getD_some]
  exact ⟨_, _, rfl⟩

theorem itemStep_bare (reference : String → List Seg) (sp : Bool) (ps pe : Int) (c : String)
    (r : Int × Int) (h : searchIv (reference c) ps pe ((reference c).length + 2) 0 (reference c).length = some r)
    (ids : List String) (ns nt : Int) (hs : scanWindow (window (reference c) r) ps pe false (-1) 0 = (ids, ns, nt)) :
    itemStep reference sp ps pe ⟨[], none, -1, 0, false⟩ (.bare c) =
      some { path := (if sp then ids else ids.reverse).map (fun i => (sp, i)),
             orient := some sp, newStart := ns, newTotal := nt, split := false } := by
  unfold itemStep
  simp only [h, hs, Option.getD_none, List.nil_append]

/-- MAIN (bare contig, either strand): the conversion succeeds, the result is a '+'-strand walk over the nodes under
    `[ps, pe)`, designates the same bases in the same read orientation, its path length is the total node length, the CIGAR is
    reversed exactly when the strand flips (input '-') -/
theorem toUnstable_bare (segs : List RSeg) (hv : ValidRGFA segs) (c : String) (strandPlus : Bool) (plen ps pe : Int)
    (hb : BareRec segs c ps pe) :
    ∃ path o, toUnstable (refOf segs) strandPlus [.bare c] plen ps pe = some (path, o) ∧
      locusU comp segs path o.ps o.pe = locusS comp segs (.bare c) strandPlus ps pe ∧
      (locusS comp segs (.bare c) strandPlus ps pe).isSome ∧
      plenU segs path = some o.plen ∧ o.strandPlus = true ∧ o.flipCigar = !strandPlus ∧ o.pe - o.ps = pe - ps := by
  obtain ⟨hps, hpspe⟩ := hb.bounds
  obtain ⟨Lc, hLc, hpeL⟩ := hb.len
  have hcov : ∀ p, ps ≤ p → p < pe → ∃ sg ∈ refOf segs c, sg.so ≤ p ∧ p < sg.en :=
    fun p h1 h2 => ref_tiled segs hv c hb.isRef Lc hLc p ⟨by omega, by omega⟩
  obtain ⟨r, a, b, rs, hr, hsel, hch, ha, hbq, hrs, hids, hX, hsum⟩ := item_core segs hv c ps pe hpspe hcov
  obtain ⟨h, t, hov, hha, _⟩ := hch.head
  have hhov : overlaps h ps pe = true := by
    have : h ∈ (refOf segs c).filter (fun sg => overlaps sg ps pe) := by rw [hov]; simp
    exact (List.mem_filter.1 this).2
  rw [Proofs.Search.overlaps_iff] at hhov
  have hscan := Proofs.Unstable.scanWindow_bare (window (refOf segs c) r) ps pe h t (by rw [hsel, hov]) (by omega) hhov.2
  rw [← hov, hch.sum, hids, hha] at hscan
  have hstep := itemStep_bare (refOf segs) strandPlus ps pe c r hr _ _ _ hscan
  obtain ⟨L, hL1, hL2, hL3, hL4⟩ := run_steps comp rs strandPlus
  have hLs : ∀ p ∈ L, p.2 ∈ segs := fun p hp => hrs _ (hL1 p hp)
  have hspell := spellU_nodes comp segs hv L hLs
  have hplen := plenU_nodes segs hv L hLs
  rw [hL2] at hspell hplen
  rw [hL3] at hspell
  rw [hL4, hsum] at hplen
  have hXl := Proofs.Conv.contigSlice_length segs c a b _ hX
  have hab := hch.lt
  have hsub := Proofs.Conv.contigSlice_sub segs c a b ps pe _ hX ha (by omega) hbq
  have hfold : List.foldlM (itemStep (refOf segs) strandPlus ps pe) ⟨[], none, -1, 0, false⟩ [SItem.bare c]
      = some { path := (if strandPlus then rs.map (·.id) else (rs.map (·.id)).reverse).map (fun i => (strandPlus, i)),
               orient := some strandPlus, newStart := ps - a, newTotal := b - a, split := false } := by
    rw [List.foldlM_cons, hstep]; rfl
  unfold toUnstable
  rw [hfold]
  cases strandPlus with
  | true =>
    refine ⟨_, _, rfl, ?_, ?_, ?_, rfl, rfl, ?_⟩
    · simp only [locusU, locusS, hsub, if_true, Option.map_some]
      rw [if_pos rfl] at hspell
      rw [hspell]
      simp only [Option.map_some]
      congr 2
      omega
    · simp only [locusS, hsub]; rfl
    · exact hplen
    · simp only; omega
  | false =>
    refine ⟨_, _, rfl, ?_, ?_, ?_, rfl, rfl, ?_⟩
    · simp only [Bool.false_eq_true, if_false] at hspell
      simp only [locusU, locusS, hsub, Option.map_some, Bool.false_eq_true, if_false, hspell]
      rw [Proofs.Conv.slice_revcomp comp _ _ _ (by omega) (by omega) (by omega)]
      congr 3 <;> omega
    · simp only [locusS, hsub]; rfl
    · exact hplen
    · simp only; omega


/-! ## stable intervals -/

/-- a touching run of non-empty segments is a chain from its first start to its last end -/
theorem touching_chain (run : List RSeg) (hne : ∀ s ∈ run, s.seq ≠ []) (ht : touching run) (hr : run ≠ []) :
    ∃ a b, Proofs.Unstable.Chain (run.map (fun s => (⟨s.id, s.so, s.en⟩ : Seg))) a b ∧
      run.head?.map (·.so) = some a ∧ run.getLast?.map (·.en) = some b := by
  induction run with
  | nil => exact absurd rfl hr
  | cons s rest ih =>
    have hs : s.so < s.en := by
      have := List.length_pos_iff.mpr (hne s (by simp))
      simp only [RSeg.en]; omega
    cases rest with
    | nil => exact ⟨s.so, s.en, Proofs.Unstable.Chain.single ⟨s.id, s.so, s.en⟩ hs, rfl, rfl⟩
    | cons s2 r =>
      obtain ⟨hen, ht2⟩ : s.en = s2.so ∧ touching (s2 :: r) := ht
      obtain ⟨a, b, hch, hh, hl⟩ := ih (fun t h => hne t (by simp [h])) ht2 (by simp)
      have ha : a = s.en := by
        simp only [List.head?_cons, Option.map_some, Option.some.injEq] at hh
        omega
      subst ha
      refine ⟨s.so, b, Proofs.Unstable.Chain.cons ⟨s.id, s.so, s.en⟩ _ b hs hch, rfl, ?_⟩
      rw [List.getLast?_cons_cons]
      exact hl

/-- one stable interval: the nodes under it, the bases they spell, and the loop step -/
theorem iv_item (segs : List RSeg) (hv : ValidRGFA segs) (x : OIv) (hx : TiledIv segs x) :
    ∃ L : List (Bool × RSeg), (∀ p ∈ L, p.2 ∈ segs) ∧
      (∃ Z, contigSlice segs x.1.contig x.1.s x.1.e = some Z ∧ seqOf comp L = (if x.2 then Z else revcomp comp Z)) ∧
      lenOf L = x.1.e - x.1.s ∧
      ∀ (sp : Bool) (ps pe : Int) (st : USt), ∃ st', itemStep (refOf segs) sp ps pe st (toItem x) = some st' ∧
        st'.path = st.path ++ stepsOf L ∧ st'.split = true := by
  obtain ⟨run, hrne, hrmem, hrt, hrh, hrl⟩ := hx
  have hsd := C03.refOf_sortedDisjoint segs hv x.1.contig
  obtain ⟨a0, b0, hrch, hh0, hl0⟩ := touching_chain run (fun s h => (hv.pos s (hrmem s h).1).2) hrt hrne
  rw [hrh] at hh0
  rw [hrl] at hl0
  injection hh0 with hh0
  injection hl0 with hl0
  subst hh0; subst hl0
  have hrmem' : ∀ sg ∈ run.map (fun s => (⟨s.id, s.so, s.en⟩ : Seg)), sg ∈ refOf segs x.1.contig := by
    intro sg hsg
    obtain ⟨s, hs, rfl⟩ := List.mem_map.1 hsg
    exact (C03.mem_refOf segs _ _).2 ⟨s, (hrmem s hs).1, (hrmem s hs).2, rfl⟩
  have hq := hrch.lt
  have hcov : ∀ p, x.1.s ≤ p → p < x.1.e → ∃ sg ∈ refOf segs x.1.contig, sg.so ≤ p ∧ p < sg.en := by
    intro p h1 h2
    obtain ⟨sg, hsg, h⟩ := hrch.cover p h1 h2
    exact ⟨sg, hrmem' sg hsg, h⟩
  obtain ⟨r, a, b, rs, hr, hsel, hch, ha, hbq, hrs, hids, hX, hsum⟩ := item_core segs hv x.1.contig x.1.s x.1.e hq hcov
  -- the chain found by the search is exactly `[x.s, x.e)`
  have hmemf : ∀ sg ∈ (refOf segs x.1.contig).filter (fun sg => overlaps sg x.1.s x.1.e),
      sg ∈ refOf segs x.1.contig ∧ sg.so < x.1.e ∧ x.1.s < sg.en := by
    intro sg hsg
    obtain ⟨h1, h2⟩ := List.mem_filter.1 hsg
    rw [Proofs.Search.overlaps_iff] at h2
    exact ⟨h1, h2⟩
  have haeq : a = x.1.s := by
    obtain ⟨h, t, hov, hha, _⟩ := hch.head
    obtain ⟨h', t', hov', hha', hlt'⟩ := hrch.head
    have hm := hmemf h (by rw [hov]; simp)
    have hm' := hrmem' h' (by rw [hov']; simp)
    have := Proofs.Unstable.cover_unique hsd hm.1 hm' x.1.s ⟨by omega, hm.2.2⟩ ⟨by omega, by omega⟩
    rw [this] at hha
    omega
  have hbeq : b = x.1.e := by
    obtain ⟨z, hz, hzb, _⟩ := hch.last
    obtain ⟨z', hz', hzb', hlt'⟩ := hrch.last
    have hm := hmemf z hz
    have hm' := hrmem' z' hz'
    have := Proofs.Unstable.cover_unique hsd hm.1 hm' (x.1.e - 1) ⟨by omega, by omega⟩ ⟨by omega, by omega⟩
    rw [this] at hzb
    omega
  subst haeq; subst hbeq
  obtain ⟨L, hL1, hL2, hL3, hL4⟩ := run_steps comp rs x.2
  refine ⟨L, fun p hp => hrs _ (hL1 p hp), ⟨_, hX, hL3⟩, by rw [hL4, hsum], ?_⟩
  intro sp ps pe st
  obtain ⟨ns, nt, hstep⟩ := itemStep_iv (refOf segs) sp ps pe st x.2 x.1.contig x.1.s x.1.e r hr
  refine ⟨_, hstep, ?_, rfl⟩
  rw [Proofs.Unstable.scanWindow_ids, hsel, hids, hL2]

/-- the whole loop over a list of stable intervals -/
theorem fold_ivs (segs : List RSeg) (hv : ValidRGFA segs) (l : List OIv) (ht : ∀ x ∈ l, TiledIv segs x) :
    ∃ L : List (Bool × RSeg), (∀ p ∈ L, p.2 ∈ segs) ∧ spellS comp segs l = some (seqOf comp L) ∧ lenOf L = plenS l ∧
      ∀ (sp : Bool) (ps pe : Int) (st : USt), ∃ st',
        (l.map toItem).foldlM (itemStep (refOf segs) sp ps pe) st = some st' ∧
        st'.path = st.path ++ stepsOf L ∧ (st.split = true ∨ l ≠ [] → st'.split = true) := by
  induction l with
  | nil =>
    refine ⟨[], by simp, rfl, rfl, ?_⟩
    intro sp ps pe st
    refine ⟨st, rfl, by simp [stepsOf], ?_⟩
    rintro (h | h)
    · exact h
    · exact absurd rfl h
  | cons x l ih =>
    obtain ⟨Lx, hLx, ⟨Z, hZ, hsx⟩, hlx, hstepx⟩ := iv_item comp segs hv x (ht x (by simp))
    obtain ⟨Lr, hLr, hsr, hlr, hfold⟩ := ih (fun y hy => ht y (by simp [hy]))
    refine ⟨Lx ++ Lr, ?_, ?_, ?_, ?_⟩
    · intro p hp
      rcases List.mem_append.1 hp with h | h
      · exact hLx p h
      · exact hLr p h
    · rw [C01.spellS_cons_eq_some]
      refine ⟨Z, _, hZ, hsr, ?_⟩
      rw [← hsx]
      simp [seqOf]
    · rw [C01.plenS_cons, ← hlx, ← hlr]
      simp [lenOf]
    · intro sp ps pe st
      obtain ⟨st1, hst1, hp1, hs1⟩ := hstepx sp ps pe st
      obtain ⟨st2, hst2, hp2, hs2⟩ := hfold sp ps pe st1
      refine ⟨st2, ?_, ?_, fun _ => hs2 (Or.inl hs1)⟩
      · rw [List.map_cons, List.foldlM_cons, hst1]
        exact hst2
      · rw [hp2, hp1]
        simp [stepsOf]

/-- MAIN (interval list, '+' strand): every interval is replaced by its run of nodes (reversed for '<'), offsets and total
    length unchanged, same bases -/
theorem toUnstable_ivs (segs : List RSeg) (hv : ValidRGFA segs) (l : List OIv) (hl : l ≠ [])
    (ht : ∀ x ∈ l, TiledIv segs x) (ps pe : Int) (hb : 0 ≤ ps ∧ ps ≤ pe ∧ pe ≤ plenS l) :
    ∃ path, toUnstable (refOf segs) true (l.map toItem) (plenS l) ps pe = some (path, ⟨true, plenS l, ps, pe, false⟩) ∧
      locusU comp segs path ps pe = locusS comp segs (.ivs l) true ps pe ∧
      (locusS comp segs (.ivs l) true ps pe).isSome ∧
      plenU segs path = some (plenS l) := by
  have _hb := hb
  obtain ⟨L, hL, hsp, hlen, hfold⟩ := fold_ivs comp segs hv l ht
  obtain ⟨st', hst', hpath, hsplit⟩ := hfold true ps pe ⟨[], none, -1, 0, false⟩
  have hsplit' : st'.split = true := hsplit (Or.inr hl)
  have hpath' : st'.path = stepsOf L := by rw [hpath]; rfl
  have hemp : (l.map toItem).isEmpty = false := by
    cases l with
    | nil => exact absurd rfl hl
    | cons x l => rfl
  refine ⟨stepsOf L, ?_, ?_, ?_, ?_⟩
  · unfold toUnstable
    rw [hst']
    simp only [hemp, hsplit', hpath', Bool.not_true, Bool.false_eq_true, if_false, if_true]
  · simp only [locusU, locusS, spellU_nodes comp segs hv L hL, hsp]
  · simp only [locusS, hsp]; rfl
  · rw [plenU_nodes segs hv L hL, hlen]

/-! non-vacuity (graph of part a: chr1 = a[0,3) b[3,5) c[5,9); h at hap[10,12)) -/
example : toUnstable (refOf exSegs) false [.bare "chr1"] 9 4 8 = some ([(false, "c"), (false, "b")], ⟨true, 6, 1, 5, true⟩) := by decide
example : toUnstable (refOf exSegs) true [.iv true "chr1" 0 5, .iv false "hap" 10 12] 7 1 6
    = some ([(true, "a"), (true, "b"), (false, "h")], ⟨true, 7, 1, 6, false⟩) := by decide
example : "chr1" ∈ refNames exSegs := by decide

end Gaftools.C01
