import Gaftools.Model.Algo
import Gaftools.Gen.Biccs
/-!
# Tie A for `GFA.biccs` (C15, and through it C06 and C18)

`Gen/Biccs.lean` is regenerated from `gaftools/gfa.py` on every run: one iteration of the `while stack:` loop of `biccs`,
translated statement by statement (every `append`, `pop`, `del`, dictionary assignment and test in source order, the inner
function `next_child` with its in-place increment), and the rule applied to the start node after the loop.

`bstep_gen` says that this translation IS `Algo.bstep`, the step function about which `biccExact` (C15) — 3 300 lines of invariant
proof — is stated; `bgo_gen` lifts it to the whole loop and `biccsFrom_gen` to the result of a search.  No hypothesis.

History: the first version of these theorems needed "no neighbour list contains the empty string". The source tested `if nn:`, and an
empty node id — reachable through `add_node("")` and through an S line with an empty name, which `read_graph` accepts — is falsy in
Python: that neighbour was treated as "no neighbour left" and `biccs` returned wrong components (the triangle ""–a–b came out as two
components with articulation point a). The non-vacuity audit of this file exposed that the hypothesis was NOT guaranteed by the loader
as its comment claimed; the source was repaired (`if nn is not None:`, D23) and the hypothesis is gone.
-/
namespace Gaftools.TieA
open Gaftools.Algo

/-- no frame of the stack lists the empty id among its neighbours (kept for the record: the invariant the first version needed) -/
def FramesOk (s : BSt) : Prop := ∀ f ∈ s.stack, "" ∉ f.nbrs

theorem getD_mem_of_lt {l : List V} {i : Nat} (h : i < l.length) : l.getD i "" ∈ l := by
  have : l.getD i "" = l[i] := by simp [List.getD, List.getElem?_eq_getElem h]
  rw [this]
  exact List.getElem_mem h

theorem lookup_setKV_same {α β} [BEq α] [LawfulBEq α] (k : α) (v : β) (l : List (α × β)) :
    lookup k (setKV k v l) = some v := by
  simp [setKV, lookup]

theorem bstep_gen (nb : V → List V) (s : BSt) : Gen.bstep nb s = bstep nb s := by
  first
  | rfl
  | (unfold Gen.bstep bstep Gen.nextChild
     cases hs : s.stack with
     | nil => rfl
     | cons f rest =>
       by_cases hp : f.ptr < f.nbrs.length
       · have hne : f.nbrs.isEmpty = false := by
           cases hn : f.nbrs with
           | nil => simp [hn] at hp
           | cons a b => rfl
         have hge : ¬ (f.ptr ≥ f.nbrs.length) := by omega
         simp only [Nat.add_sub_cancel]
         generalize f.nbrs.getD f.ptr "" = nn
         simp only [hne, hge, hp, decide_false, Bool.false_eq_true, if_false, if_true,
           Option.isSome_some, Option.getD_some, List.tail_cons]
         by_cases h1 : (nn == f.parent) = true
         · simp only [h1, if_true]
         · simp only [h1, Bool.false_eq_true, if_false]
           by_cases h2 : s.visited.contains nn = true
           · simp only [h2, if_true]
             by_cases h3 : (lookup nn s.disc).getD 0 ≤ (lookup f.child s.disc).getD 0
             · simp [h3]
             · simp [h3]
           · simp only [h2, Bool.false_eq_true, if_false]
             simp [lookup_setKV_same]
       · have hge : f.ptr ≥ f.nbrs.length := by omega
         have hnone : (if f.nbrs.isEmpty = true then ((none : Option V), f)
             else if decide (f.ptr ≥ f.nbrs.length) = true then (none, f)
             else (some (f.nbrs.getD (f.ptr + 1 - 1) ""), { f with ptr := f.ptr + 1 })) = (none, f) := by
           by_cases he : f.nbrs.isEmpty = true
           · simp [he]
           · simp [he, hge]
         simp only [hnone, hp, if_false, Option.isSome_none, Bool.false_eq_true, Option.isNone_none, if_true,
           List.tail_cons]
         by_cases h1 : rest.length > 1
         · simp only [h1, decide_true, if_true]
           by_cases h2 : (lookup f.child s.low).getD 0 ≥ (lookup f.parent s.disc).getD 0
           · simp [h2]
           · simp [h2]
         · simp only [h1, decide_false, Bool.false_eq_true, if_false]
           by_cases h2 : rest.length = 1
           · have : rest.isEmpty = false := by
               cases rest with
               | nil => simp at h2
               | cons a b => rfl
             simp [h2, this]
           · have : rest = [] := by
               cases rest with
               | nil => rfl
               | cons a b => exfalso; simp only [List.length_cons] at h1 h2; omega
             simp [this])

/-- the frames stay free of the empty id when the neighbour function never lists it -/
theorem bstep_framesOk (nb : V → List V) (hnb : ∀ v, "" ∉ nb v) (s : BSt) (h : FramesOk s) : FramesOk (bstep nb s) := by
  unfold FramesOk at *
  unfold bstep
  cases hs : s.stack with
  | nil => simpa [hs] using h
  | cons f rest =>
    have hf : "" ∉ f.nbrs := h f (by rw [hs]; exact List.mem_cons_self)
    have hrest : ∀ g ∈ rest, "" ∉ g.nbrs := fun g hg => h g (by rw [hs]; exact List.mem_cons_of_mem _ hg)
    simp only
    split
    · split
      · intro g hg
        rcases List.mem_cons.mp hg with rfl | hg
        · exact hf
        · exact hrest g hg
      · split
        · split
          all_goals
            intro g hg
            rcases List.mem_cons.mp hg with rfl | hg
            · exact hf
            · exact hrest g hg
        · intro g hg
          rcases List.mem_cons.mp hg with rfl | hg
          · exact hnb _
          · rcases List.mem_cons.mp hg with rfl | hg
            · exact hf
            · exact hrest g hg
    · split
      · split <;> exact hrest
      · split <;> exact hrest

/-- the loop driven by the translated step -/
def genBgo (nb : V → List V) : Nat → BSt → BSt
  | 0, s => s
  | n + 1, s => if s.stack.isEmpty then s else genBgo nb n (Gen.bstep nb s)

theorem bgo_gen (nb : V → List V) (n : Nat) (s : BSt) : genBgo nb n s = bgo nb n s := by
  induction n generalizing s with
  | zero => rfl
  | succ n ih =>
    unfold genBgo bgo
    split
    · rfl
    · rw [bstep_gen nb s]
      exact ih _

/-- a whole search: the translated loop from the translated-and-checked initial state, then the translated root rule -/
theorem biccsFrom_gen (nb : V → List V) (root : V) (fuel : Nat) :
    biccsFrom nb root fuel =
      (let s := genBgo nb fuel { disc := [(root, 0)], low := [(root, 0)], visited := [root], estack := [], loc := [],
                                 stack := [⟨root, root, 0, nb root⟩], comps := [], aps := [], rootChildren := 0 }
       (s.comps, if Gen.rootIsAp s.rootChildren then insertSet root s.aps else s.aps)) := by
  unfold biccsFrom
  simp only [bgo_gen nb fuel _, Gen.rootIsAp, decide_eq_true_eq]

end Gaftools.TieA
