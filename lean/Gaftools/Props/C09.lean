import Gaftools.Props.C08
import Gaftools.Proofs.SortLemmas
/-!
# C09 — sort emits every record once, unchanged, plus correct bo/sn/iv tags

The second pass of `sort` writes, for every element of the sorted list, the raw input line found at its offset
(right-stripped) followed by the three fields of `Sort.suffix`.  So "every record once, unchanged" is the statement
that the offsets of the output sequence are a permutation of the offsets of the input sequence, and "correct tags"
is the statement that `process_alignment` computes the declarative `Spec.Sort.specAln`.
-/
namespace Gaftools.C09
open Gaftools.Sort Gaftools.Spec.Sort
open Gaftools.Proofs.Sort

/-- `process_alignment` (the loop with its `continue`s, asserts and KeyErrors) computes exactly the declarative
    specification; it fails precisely on the records outside the quantifier (unknown node, empty path, two reference contigs). -/
theorem process_eq_spec (nodes : String → Option NodeTags) (steps : List Step) (plen ps pe off : Int) :
    (processAlignment nodes steps plen ps pe off).toOption = specAln nodes steps plen ps pe off := by
  exact processAlignment_toOption nodes steps plen ps pe off

/-- every input record is written exactly once: output offsets are a permutation of input offsets -/
theorem sort_output_perm (l : List Aln) : ((outSuffixes l).map (·.1)).Perm (l.map (·.offset)) := by
  have : (outSuffixes l).map (·.1) = (sortAlns l).map (·.offset) := by
    simp [outSuffixes, List.map_map, Function.comp_def]
  rw [this]
  exact (C08.sort_perm l).map _

/-- each written line carries the suffix of the very record found at that offset -/
theorem sort_output_suffix (l : List Aln) : ∀ p ∈ outSuffixes l, ∃ a ∈ l, p = (a.offset, suffix a) := by
  intro p hp
  obtain ⟨a, ha, rfl⟩ := List.mem_map.1 hp
  exact ⟨a, (C08.sort_perm l).subset ha, rfl⟩

/-- the alignments of a file whose records are all inside the quantifier, offsets = ordinals -/
def alnsOf (specs : List (Option Aln)) : List Aln := specs.filterMap id

/-- a file as the driver sees it: the i-th record's spec carries offset i -/
def OrdinalOffsets (specs : List (Option Aln)) : Prop :=
  ∀ i (h : i < specs.length), ∀ a, specs[i] = some a → a.offset = (i : Int)

theorem offsets_alnsOf (specs : List (Option Aln)) (hv : ∀ s ∈ specs, s.isSome) (ho : OrdinalOffsets specs) :
    (alnsOf specs).map (·.offset) = (List.range specs.length).map (fun (i : Nat) => (i : Int)) := by
  induction specs using snoc_ind with
  | nil => rfl
  | snoc specs x ih =>
    have hv' : ∀ s ∈ specs, s.isSome := fun s hs => hv s (by simp [hs])
    have ho' : OrdinalOffsets specs := by
      intro i h a ha
      have h' : i < (specs ++ [x]).length := by simp; omega
      apply ho i h' a
      rw [List.getElem_append_left h]; exact ha
    obtain ⟨a, rfl⟩ := Option.isSome_iff_exists.1 (hv x (by simp))
    have hoa : a.offset = (specs.length : Int) := by
      apply ho specs.length (by simp) a
      simp
    simp only [alnsOf, List.filterMap_append, List.map_append, List.length_append, List.length_singleton,
      List.range_succ] at ih ⊢
    rw [ih hv' ho']
    simp [hoa]

theorem lookup_alnsOf (specs : List (Option Aln)) (ho : OrdinalOffsets specs) (a : Aln) (ha : a ∈ alnsOf specs) :
    (specs[a.offset.toNat]?).join = some a := by
  have hmem : some a ∈ specs := by
    obtain ⟨x, hx, hxa⟩ := List.mem_filterMap.1 ha
    simp only [id] at hxa
    subst hxa
    exact hx
  obtain ⟨i, hi, he⟩ := List.getElem_of_mem hmem
  have := ho i hi a he
  rw [this, Int.toNat_natCast, List.getElem?_eq_getElem hi, he]
  rfl

/-- whole-file statement: the model's output satisfies the executable file-level specification
    (permutation of the input ordinals, pairwise in spec order, spec suffixes) -/
theorem specFile_model (specs : List (Option Aln)) (hv : ∀ s ∈ specs, s.isSome) (ho : OrdinalOffsets specs) :
    specFile specs (outSuffixes (alnsOf specs)) = true := by
  have hoff := offsets_alnsOf specs hv ho
  have hperm := C08.sort_perm (alnsOf specs)
  have hfst : (outSuffixes (alnsOf specs)).map (·.1) = (sortAlns (alnsOf specs)).map (·.offset) := by
    simp [outSuffixes, List.map_map, Function.comp_def]
  have hlen : (sortAlns (alnsOf specs)).length = specs.length := by
    rw [hperm.length_eq]
    have := congrArg List.length hoff
    simpa using this
  have halns : (outSuffixes (alnsOf specs)).filterMap (fun (o, _) => (specs[o.toNat]?).join)
      = sortAlns (alnsOf specs) := by
    rw [outSuffixes, List.filterMap_map]
    have : ∀ a ∈ sortAlns (alnsOf specs),
        ((fun (x : Int × String) => (specs[x.1.toNat]?).join) ∘ fun a => (a.offset, suffix a)) a = some a := by
      intro a ha
      exact lookup_alnsOf specs ho a (hperm.subset ha)
    rw [filterMap_congr' this, List.filterMap_some]
  unfold specFile
  simp only [Bool.and_eq_true]
  refine ⟨?_, ?_⟩
  · unfold isPermOfRange
    rw [hfst]
    simp only [Bool.and_eq_true, List.all_eq_true, List.mem_range, beq_iff_eq, List.length_map]
    refine ⟨hlen, ?_⟩
    intro i hi
    have hp : ((sortAlns (alnsOf specs)).map (·.offset)).Perm ((List.range specs.length).map (fun (j : Nat) => (j : Int))) := by
      rw [← hoff]; exact hperm.map _
    rw [(hp.filter _).length_eq]
    exact filter_cast_range _ i hi
  · simp only [halns]
    refine ⟨⟨?_, ?_⟩, ?_⟩
    · simp [outSuffixes]
    · rw [pairwiseB_iff]
      exact (C08.sort_sorted _).imp (fun {a b} h => by simpa [keyLeB] using h)
    · exact zip_suffix_all _

/-! non-vacuity -/
def exNodes : String → Option NodeTags
  | "a" => some ⟨"chr1", 0, 0, 0⟩
  | "b" => some ⟨"chr1", 1, 1, 0⟩
  | "h" => some ⟨"hap", 1, 2, 3⟩
  | "c" => some ⟨"chr1", 2, 0, 0⟩
  | "u" => some ⟨"x", -1, -1, 1⟩
  | _ => none
example : specAln exNodes [(false, "c"), (false, "h"), (true, "a")] 30 2 25 7 = some ⟨7, 2, 0, 2, 1, "chr1"⟩ := by decide
example : specAln exNodes [(false, "c"), (false, "h"), (false, "a")] 30 2 25 7 = some ⟨7, 0, 0, 5, 0, "chr1"⟩ := by decide
example : specAln exNodes [(true, "u")] 30 2 25 7 = some ⟨7, -1, -1, 2, 0, "unknown"⟩ := by decide

end Gaftools.C09
