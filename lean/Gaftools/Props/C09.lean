import Gaftools.Props.C08
/-!
# C09 — sort emits every record once, unchanged, plus correct bo/sn/iv tags

The second pass of `sort` writes, for every element of the sorted list, the raw input line found at its offset
(right-stripped) followed by the three fields of `Sort.suffix`.  So "every record once, unchanged" is the statement
that the offsets of the output sequence are a permutation of the offsets of the input sequence, and "correct tags"
is the statement that `process_alignment` computes the declarative `Spec.Sort.specAln`.
-/
namespace Gaftools.C09
open Gaftools.Sort Gaftools.Spec.Sort

/-- `process_alignment` (the loop with its `continue`s, asserts and KeyErrors) computes exactly the declarative
    specification; it fails precisely on the records outside the quantifier (unknown node, empty path, two reference contigs). -/
theorem process_eq_spec (nodes : String → Option NodeTags) (steps : List Step) (plen ps pe off : Int) :
    (processAlignment nodes steps plen ps pe off).toOption = specAln nodes steps plen ps pe off := by
  sorry

/-- every input record is written exactly once: output offsets are a permutation of input offsets -/
theorem sort_output_perm (l : List Aln) : ((outSuffixes l).map (·.1)).Perm (l.map (·.offset)) := by
  sorry

/-- each written line carries the suffix of the very record found at that offset -/
theorem sort_output_suffix (l : List Aln) : ∀ p ∈ outSuffixes l, ∃ a ∈ l, p = (a.offset, suffix a) := by
  sorry

/-- the alignments of a file whose records are all inside the quantifier, offsets = ordinals -/
def alnsOf (specs : List (Option Aln)) : List Aln := specs.filterMap id

/-- a file as the driver sees it: the i-th record's spec carries offset i -/
def OrdinalOffsets (specs : List (Option Aln)) : Prop :=
  ∀ i (h : i < specs.length), ∀ a, specs[i] = some a → a.offset = (i : Int)

/-- whole-file statement: the model's output satisfies the executable file-level specification
    (permutation of the input ordinals, pairwise in spec order, spec suffixes) -/
theorem specFile_model (specs : List (Option Aln)) (hv : ∀ s ∈ specs, s.isSome) (ho : OrdinalOffsets specs) :
    specFile specs (outSuffixes (alnsOf specs)) = true := by
  sorry

/-! non-vacuity -/
def exNodes : String → Option NodeTags
  | "a" => some ⟨"chr1", 0, 0, 0⟩
  | "b" => some ⟨"chr1", 1, 1, 0⟩
  | "h" => some ⟨"hap", 1, 2, 3⟩
  | "c" => some ⟨"chr1", 2, 0, 0⟩
  | "u" => some ⟨"x", -1, -1, 1⟩
  | _ => none
example : specAln exNodes [(false, "c"), (false, "h"), (true, "a")] 30 2 25 7 = some ⟨7, 2, 0, 2, 1, "chr1"⟩ := by decide
example : specAln exNodes [(false, "c"), (false, "h"), (false, "a")] 30 2 25 7 = some ⟨7, 0, 0, 5, 0, "chr1"⟩ := by decide
example : specAln exNodes [(true, "u")] 30 2 25 7 = some ⟨7, -1, -1, 2, 0, "unknown"⟩ := by decide

end Gaftools.C09
