import Gaftools.Model.TextLayer
import Gaftools.Gen.PathWalk
/-!
# Tie A for `GFA.path_exists`, `GFA.extract_path`, `utils.rev_comp` and `find_path.run` (C14 and its string level)

`Gen/PathWalk.lean` is regenerated from `gaftools/gfa.py`, `gaftools/utils.py` and `gaftools/cli/find_path.py` on every run: the
four functions translated statement by statement (every test, assignment, `append`, `print`, loop, early `return`, the `try` around
the lookup in the `cases` table, the exceptions of `x[i]`, `d[k]` and `open`), in source order.

A token of `re.findall("[><][^><]+", path)` is a non-empty string; the translation keeps its first character and the rest
(`Tok = Char × String`), the model keeps an orientation bit and the rest (`Step = Bool × String`); `tokOf` maps the one to the other.

* `revComp_gen`     the translated `rev_comp` IS `Gfa.revComp`;
* `findall_gen`     the translated regular expression, run by the scanner of the generated file, gives the tokens of `tokenizePath`;
* `pathExists_gen`  the translated `path_exists` on the tokens of any list of steps IS `Gfa.pathExists` (`none` = `KeyError`);
* `extractPath_gen` the translated `extract_path` IS `TextLayer.extractPathStr`, for every graph and every string;
* `run_gen`         the translated `run` IS `TextLayer.findPathRun`, for every graph, argument, file and flag.

No hypotheses.  Each loop is handled by a lemma about ANY loop body that meets a one-iteration specification (`*_spec`); the
generated body is then shown to meet it by unfolding, so the generated text is never copied into this file.
-/
set_option linter.unusedSimpArgs false
namespace Gaftools.TieA17
open Gaftools.Gfa Gaftools.TextLayer Gaftools.Gen
open Gaftools.Gen.PathWalk (Flow forEach Tok pyGet pyRange dictGet sideSet findall)

/-- the token of a step: '>' for `true`, '<' for `false`, then the id -/
def tokOf (s : Step) : Tok := (if s.1 then '>' else '<', s.2)

/-- `none` of the token-level model is the `KeyError` -/
def liftKey {α : Type} : Option α → Except PyErr α
  | none => .error .keyError
  | some b => .ok b

/-! ## helpers of the generated file -/

theorem pyGet_nat {α : Type} (l : List α) (k : Nat) : pyGet l (k : Int) = l[k]? := by
  unfold pyGet
  have : ¬ ((k : Int) < 0) := by omega
  simp [this]

theorem pyGet_nat_succ {α : Type} (l : List α) (k : Nat) : pyGet l ((k : Int) + 1) = l[k + 1]? := by
  have := pyGet_nat l (k + 1)
  simpa using this

theorem pyGet_zero {α : Type} (l : List α) : pyGet l (0 : Int) = l.head? := by
  have := pyGet_nat l 0
  simp only [Int.natCast_zero] at this
  rw [this]
  cases l <;> rfl

theorem pyGet_last {α : Type} (l : List α) (x : α) : pyGet (l ++ [x]) (-1 : Int) = some x := by
  unfold pyGet
  have h1 : ((-1 : Int) < 0) := by omega
  have h2 : ¬ (((l ++ [x]).length : Int) + (-1) < 0) := by simp only [List.length_append, List.length_singleton]; omega
  have h3 : (((l ++ [x]).length : Int) + (-1)).toNat = l.length := by simp only [List.length_append, List.length_singleton]; omega
  simp only [h1, h2, h3, if_true, if_false]
  simp

theorem pyRange_step (a b : Int) : pyRange a b = if a < b then a :: pyRange (a + 1) b else [] := by
  unfold pyRange
  by_cases h : a < b
  · obtain ⟨n, hn⟩ : ∃ n, (b - a).toNat = n + 1 := ⟨(b - a).toNat - 1, by omega⟩
    have hn' : (b - (a + 1)).toNat = n := by omega
    simp only [h, if_true, hn, hn', List.range_succ_eq_map, List.map_cons, List.map_map]
    refine List.cons_eq_cons.2 ⟨by simp, ?_⟩
    apply List.map_congr_left
    intro k _
    simp only [Function.comp]
    omega
  · have : (b - a).toNat = 0 := by omega
    simp [h, this]

theorem has_eq_isSome (g : Graph) (id : String) : g.has id = (g.find id).isSome := by
  unfold Graph.has Graph.find
  induction g.nodes with
  | nil => rfl
  | cons n ns ih =>
    simp only [List.any_cons, List.find?_cons]
    cases n.id == id <;> simp [ih]

/-! ## `rev_comp` -/

theorem translate_comp (c : Char) : (dictGet PathWalk.complement c).getD c = comp c := by
  by_cases hA : c = 'A'
  · subst hA; decide
  by_cases hC : c = 'C'
  · subst hC; decide
  by_cases hG : c = 'G'
  · subst hG; decide
  by_cases hT : c = 'T'
  · subst hT; decide
  have e1 : ('A' == c) = false := by simp [Ne.symm hA]
  have e2 : ('C' == c) = false := by simp [Ne.symm hC]
  have e3 : ('G' == c) = false := by simp [Ne.symm hG]
  have e4 : ('T' == c) = false := by simp [Ne.symm hT]
  have hc : comp c = c := by
    unfold comp
    split <;> simp_all
  first
  | rfl
  | simp [dictGet, PathWalk.complement, List.find?, e1, e2, e3, e4, hc]

/-- `utils.rev_comp` as translated is the model's `revComp` -/
theorem revComp_gen (s : String) : PathWalk.revComp s = Gfa.revComp s := by
  unfold PathWalk.revComp Gfa.revComp
  congr 2
  funext c
  exact translate_comp c

/-! ## `re.findall("[><][^><]+", ·)` -/

theorem oriChar_of_isOri (c : Char) (h : isOri c = true) : (if (c == '>') = true then '>' else '<') = c := by
  unfold isOri at h
  by_cases h1 : c = '>'
  · simp [h1]
  · have h2 : c = '<' := by simpa [h1] using h
    subst h2
    decide

theorem findall_aux (H R : Char → Bool) (hH : ∀ c, H c = isOri c) (hR : ∀ c, R c = !isOri c) (p : List Char)
    (st : Option (Bool × List Char)) :
    findall H R 1 (st.map (fun x => ((if x.1 = true then '>' else '<'), x.2))) p = (tokenizeAux st p).map tokOf := by
  have emit : ∀ (o : Bool) (acc : List Char),
      (if acc.length ≥ 1 then [((if o = true then '>' else '<'), String.ofList acc.reverse)] else [] : List Tok) =
        (if acc.isEmpty then [] else [(o, String.ofList acc.reverse)] : List Step).map tokOf := by
    intro o acc
    cases acc <;> simp [tokOf]
  induction p generalizing st with
  | nil =>
    match st with
    | none => simp [findall, tokenizeAux]
    | some (o, acc) => simp only [Option.map_some, findall, tokenizeAux, emit]
  | cons c cs ih =>
    match st with
    | none =>
      simp only [Option.map_none, findall, tokenizeAux, hH]
      by_cases hc : isOri c = true
      · have := ih (some (c == '>', []))
        simp only [Option.map_some, oriChar_of_isOri c hc] at this
        simp only [hc, if_true, this]
      · have := ih none
        simp only [Option.map_none] at this
        simp only [hc, Bool.false_eq_true, if_false, this]
    | some (o, acc) =>
      simp only [Option.map_some, findall, tokenizeAux, hH, hR]
      by_cases hc : isOri c = true
      · have h1 := ih (some (c == '>', []))
        simp only [Option.map_some, oriChar_of_isOri c hc] at h1
        simp only [hc, Bool.not_true, Bool.false_eq_true, if_false, if_true, h1, emit, List.map_append]
      · have h1 := ih (some (o, c :: acc))
        simp only [Option.map_some] at h1
        have hc' : isOri c = false := by simpa using hc
        simp only [hc', Bool.not_false, if_true, Bool.false_eq_true, if_false, h1]

/-- the regular expression of `extract_path` as translated (first-character class, class of the run, `+`), run by the scanner of
    the generated file, finds the tokens of the model's `tokenizePath` -/
theorem findall_gen (H R : Char → Bool) (hH : ∀ c, H c = isOri c) (hR : ∀ c, R c = !isOri c) (p : List Char) :
    findall H R 1 none p = (tokenizePath p).map tokOf :=
  findall_aux H R hH hR p none

/-! ## `path_exists` -/

/-- the scan of the adjacency set: any body that sets the flag exactly on the entries satisfying `q` computes `any q` -/
theorem scan_spec {α : Type} (q : Adj → Bool) (body : Bool → Adj → Flow Bool α)
    (h : ∀ ok e, body ok e = .cont (if q e then true else ok)) (l : List Adj) (ok : Bool) :
    forEach l ok body = .cont (ok || l.any q) := by
  induction l generalizing ok with
  | nil => simp [forEach]
  | cons e l ih =>
    simp only [forEach, h, ih, List.any_cons]
    cases q e <;> cases ok <;> simp

/-- the loop over consecutive steps: any body that, for the pair at positions `k`, `k + 1`, raises `KeyError` when the first node
    is unknown, goes on when the step is joined and returns `False` otherwise computes `Gfa.pathExists` -/
theorem walk_spec (g : Graph) (steps : List Step) (body : Unit → Int → Flow Unit Bool)
    (h : ∀ (k : Nat) (a b : Step), steps[k]? = some a → steps[k + 1]? = some b →
      body () ((k : Int) + 1) = if !g.has a.2 then .exc .keyError else if stepOk g a b then .cont () else .ret false) :
    (match forEach (pyRange (1 : Int) (steps.length : Int)) () body with
      | .ret v => Except.ok v
      | .exc e => .error e
      | .cont _ => .ok true) = liftKey (Gfa.pathExists g steps) := by
  have key : ∀ (l pre : List Step), steps = pre ++ l →
      (match forEach (pyRange ((pre.length : Int) + 1) (steps.length : Int)) () body with
        | .ret v => Except.ok v
        | .exc e => .error e
        | .cont _ => .ok true) = liftKey (Gfa.pathExists g l) := by
    intro l
    induction l with
    | nil =>
      intro pre hp
      have hlen : steps.length = pre.length := by rw [hp]; simp
      have : ¬ ((pre.length : Int) + 1 < (steps.length : Int)) := by omega
      rw [pyRange_step]
      simp only [this, if_false, forEach]
      rfl
    | cons a l ih =>
      intro pre hp
      cases l with
      | nil =>
        have hlen : steps.length = pre.length + 1 := by rw [hp]; simp
        have : ¬ ((pre.length : Int) + 1 < (steps.length : Int)) := by omega
        rw [pyRange_step]
        simp only [this, if_false, forEach]
        rfl
      | cons b rest =>
        have hlt : ((pre.length : Int) + 1 < (steps.length : Int)) := by
          rw [hp]; simp only [List.length_append, List.length_cons]; omega
        have ha : steps[pre.length]? = some a := by rw [hp]; simp
        have hb : steps[pre.length + 1]? = some b := by
          rw [hp, List.getElem?_append_right (by omega)]; simp
        rw [pyRange_step]
        simp only [hlt, if_true, forEach, h pre.length a b ha hb]
        have ih' := ih (pre ++ [a]) (by rw [hp]; simp)
        simp only [List.length_append, List.length_singleton, Int.natCast_add, Int.natCast_one] at ih'
        unfold Gfa.pathExists
        by_cases h1 : g.has a.2 = true
        · by_cases h2 : stepOk g a b = true
          · simp only [h1, h2, Bool.not_true, Bool.false_eq_true, if_false, if_true]
            exact ih'
          · simp only [h1, h2, Bool.not_true, Bool.false_eq_true, if_false]
            rfl
        · have h1' : g.has a.2 = false := by simpa using h1
          simp only [h1', Bool.not_false, if_true]
          rfl
  have := key steps [] rfl
  simpa using this

/-- `GFA.path_exists` as translated, on the tokens of any list of steps, is the model's `pathExists` -/
theorem pathExists_gen (g : Graph) (steps : List Step) :
    PathWalk.pathExists g (steps.map tokOf) = liftKey (Gfa.pathExists g steps) := by
  unfold PathWalk.pathExists
  simp only [List.length_map]
  apply walk_spec g steps
  intro k a b ha hb
  simp only [Int.add_sub_cancel, pyGet_nat, pyGet_nat_succ, List.getElem?_map, ha, hb, Option.map_some]
  have hcase : dictGet [(('>', '>'), (true, false)), (('<', '<'), (false, true)), (('>', '<'), (true, true)), (('<', '>'), (false, false))]
      ((tokOf a).1, (tokOf b).1) = some (pathCase a.1 b.1) := by
    show dictGet _ ((if a.1 = true then '>' else '<'), (if b.1 = true then '>' else '<')) = _
    cases a.1 <;> cases b.1 <;> decide
  first
  | (rw [hcase]
     simp only [has_eq_isSome, tokOf]
     cases hf : g.find a.2 with
     | none => rfl
     | some n =>
       simp only [Option.isSome_some, Bool.not_true, Bool.false_eq_true, if_false]
       rw [scan_spec (fun e => e.1 == b.2 && e.2.1 == (pathCase a.1 b.1).2)]
       · have hs : stepOk g a b = (sideSet n (pathCase a.1 b.1).1).any (fun e => e.1 == b.2 && e.2.1 == (pathCase a.1 b.1).2) := by
           unfold stepOk Graph.adj sideSet
           simp only [hf]
         rw [hs]
         simp only [Bool.false_or]
         cases (sideSet n (pathCase a.1 b.1).1).any (fun e => e.1 == b.2 && e.2.1 == (pathCase a.1 b.1).2) <;> rfl
       · intro ok e
         have hc : ((b.2, (pathCase a.1 b.1).2) == (e.1, e.2.1)) = (e.1 == b.2 && e.2.1 == (pathCase a.1 b.1).2) := by
           show ((b.2 == e.1) && ((pathCase a.1 b.1).2 == e.2.1)) = _
           rw [BEq.comm (a := b.2), BEq.comm (a := (pathCase a.1 b.1).2)]
         simp only [hc]
         cases (e.1 == b.2 && e.2.1 == (pathCase a.1 b.1).2) <;> rfl)

/-! ## `extract_path` -/

/-- the spelling loop: any body that returns "" for an unknown node and appends the node's sequence (reverse-complemented for
    '<') otherwise computes what `Gfa.extractPath` does after `pathExists` said yes -/
theorem spell_spec (g : Graph) (body : List String → Tok → Flow (List String) String)
    (h1 : ∀ seq (s : Step), g.find s.2 = none → body seq (tokOf s) = .ret "")
    (h2 : ∀ seq (s : Step) n, g.find s.2 = some n → body seq (tokOf s) = .cont (seq ++ [if s.1 then n.seq else Gfa.revComp n.seq]))
    (steps : List Step) (seq : List String) :
    forEach (steps.map tokOf) seq body =
      if steps.all (fun s => g.has s.2) then .cont (seq ++ steps.filterMap (spellStep g)) else .ret "" := by
  induction steps generalizing seq with
  | nil => simp [forEach]
  | cons s rest ih =>
    simp only [List.map_cons, forEach, List.all_cons, List.filterMap_cons, has_eq_isSome g s.2, spellStep]
    cases hf : g.find s.2 with
    | none => simp [h1 seq s hf]
    | some n =>
      simp only [h2 seq s n hf, ih, Option.isSome_some, Bool.true_and, Option.map_some, List.append_assoc, List.singleton_append]

theorem contains_ori1 (c : Char) : ['<', '>'].contains c = isOri c := by
  simp only [List.contains_cons, List.contains_nil, isOri]
  cases (c == '<') <;> cases (c == '>') <;> rfl

theorem contains_ori2 (c : Char) : ['>', '<'].contains c = isOri c := by
  simp only [List.contains_cons, List.contains_nil, isOri]
  cases (c == '<') <;> cases (c == '>') <;> rfl

theorem tokOf_fst_gt (s : Step) : ((tokOf s).1 == '>') = s.1 := by
  show ((if s.1 = true then '>' else '<') == '>') = s.1
  cases s.1 <;> decide

theorem tokOf_fst_lt (s : Step) : ((tokOf s).1 == '<') = !s.1 := by
  show ((if s.1 = true then '>' else '<') == '<') = !s.1
  cases s.1 <;> decide

/-- `GFA.extract_path` as translated is the model's `extractPathStr`: every string, every graph -/
theorem extractPath_gen (g : Graph) (path : String) : PathWalk.extractPath g path = extractPathStr g path := by
  unfold PathWalk.extractPath extractPathStr
  simp only [pyGet_zero]
  cases hp : path.toList with
  | nil => rfl
  | cons c cs =>
    first
    | (simp only [List.head?_cons, contains_ori1, contains_ori2]
       by_cases hc : isOri c = true
       · simp only [hc, Bool.not_true, Bool.false_eq_true, if_false]
         rw [findall_gen, pathExists_gen]
         unfold Gfa.extractPath
         cases hpe : Gfa.pathExists g (tokenizePath (c :: cs)) with
         | none => rfl
         | some b =>
           cases b with
           | false => rfl
           | true =>
             simp only [liftKey, Bool.not_true, Bool.false_eq_true, if_false]
             rw [spell_spec g]
             · by_cases hall : (tokenizePath (c :: cs)).all (fun s => g.has s.2) = true
               · simp only [hall, if_true, List.nil_append]
               · simp only [hall, Bool.false_eq_true, if_false]
             · intro seq s hf
               simp only [has_eq_isSome, tokOf, hf, Option.isSome_none, Bool.not_false, if_true]
             · intro seq s n hf
               simp only [has_eq_isSome, hf, Option.isSome_some, Bool.not_true, Bool.false_eq_true, if_false,
                 tokOf_fst_gt, tokOf_fst_lt, revComp_gen]
               simp only [tokOf, hf]
               cases s.1 <;> simp
         · intro c; rfl
         · intro c; rfl
       · simp only [hc, Bool.not_false, if_true, Bool.false_eq_true])

/-! ## `find_path.run` -/

/-- the reading loop: any body that strips the line, extracts its path (an exception ends the loop) and appends both computes
    `mapM lineRecord` -/
theorem read_spec (g : Graph) (body : List String × List String → String → Flow (List String × List String) (List String))
    (h : ∀ ns ps line, body (ns, ps) line =
      match lineRecord g line with
      | .error e => .exc e
      | .ok r => .cont (ns ++ [r.1], ps ++ [r.2]))
    (ls : List String) (ns ps : List String) :
    forEach ls (ns, ps) body =
      match ls.mapM (lineRecord g) with
      | .error e => .exc e
      | .ok recs => .cont (ns ++ recs.map (·.1), ps ++ recs.map (·.2)) := by
  induction ls generalizing ns ps with
  | nil => simp [forEach, pure, Except.pure]
  | cons l ls ih =>
    rw [List.mapM_cons]
    simp only [forEach, h]
    cases hl : lineRecord g l with
    | error e => rfl
    | ok r =>
      simp only [ih]
      cases hm : ls.mapM (lineRecord g) with
      | error e => rfl
      | ok recs =>
        simp only [bind, Except.bind, pure, Except.pure, List.map_cons, List.append_assoc, List.singleton_append]

/-- the printing loops: any body that appends the record of a pair computes the `flatMap` of the records -/
theorem print_spec (fasta : Bool) (body : List String → String × String → Flow (List String) (List String))
    (h : ∀ out r, body out r = .cont (out ++ record fasta r.1 r.2)) (l : List (String × String)) (out : List String) :
    forEach l out body = .cont (out ++ l.flatMap (fun r => record fasta r.1 r.2)) := by
  induction l generalizing out with
  | nil => simp [forEach]
  | cons r l ih => simp only [forEach, h, ih, List.flatMap_cons, List.append_assoc]

theorem zip_map_fst_snd {α β : Type} (l : List (α × β)) : List.zip (l.map (·.1)) (l.map (·.2)) = l := by
  induction l with
  | nil => rfl
  | cons x l ih => simp only [List.map_cons, List.zip_cons_cons, ih]

/-- `find_path.run` as translated is the model's `findPathRun`: every graph, argument, file content (or no file) and flag -/
theorem run_gen (g : Graph) (arg : String) (fileLines : Option (List String)) (fasta : Bool) :
    PathWalk.run g arg fileLines fasta = findPathRun g arg fileLines fasta := by
  unfold PathWalk.run findPathRun
  simp only [pyGet_zero]
  cases hp : arg.toList with
  | nil => rfl
  | cons c cs =>
    first
    | (simp only [List.head?_cons, contains_ori1, contains_ori2, extractPath_gen]
       by_cases hc : isOri c = true
       · simp only [hc, if_true]
         cases extractPathStr g arg with
         | error e => rfl
         | ok s => cases fasta <;> rfl
       · simp only [hc, Bool.false_eq_true, if_false]
         cases fileLines with
         | none => rfl
         | some ls =>
           simp only []
           rw [read_spec g]
           · cases hm : ls.mapM (lineRecord g) with
             | error e => rfl
             | ok recs =>
               simp only [List.nil_append, zip_map_fst_snd, Except.map]
               cases fasta with
               | true =>
                 simp only [if_true]
                 rw [print_spec true]
                 · rfl
                 · intro out r; simp [record]
               | false =>
                 simp only [Bool.false_eq_true, if_false]
                 rw [print_spec false]
                 · rfl
                 · intro out r; simp [record]
           · intro ns ps line
             simp only [pyGet_last, lineRecord]
             cases extractPathStr g (pyStrip line) with
             | error e => rfl
             | ok s => rfl)

/-! ## the generated definitions compute (closed examples, evaluated by the kernel) -/

/-- a two-node graph: `a` = AC, `b` = GGT, one link `a+ → b-` -/
def demo : Graph :=
  readGraph ⟨[⟨"a", "AC", []⟩, ⟨"b", "GGT", []⟩], [⟨"a", true, "b", false, 0, []⟩]⟩

def isOk {α : Type} [BEq α] (r : Except PyErr α) (v : α) : Bool :=
  match r with
  | .ok x => x == v
  | .error _ => false

def isErr {α : Type} (r : Except PyErr α) (e : PyErr) : Bool :=
  match r with
  | .ok _ => false
  | .error x => x == e

example : isOk (PathWalk.pathExists demo [('>', "a"), ('<', "b")]) true = true := by decide
example : isOk (PathWalk.pathExists demo [('>', "a"), ('>', "b")]) false = true := by decide
example : isErr (PathWalk.pathExists demo [('>', "zz"), ('>', "b")]) .keyError = true := by decide
example : isOk (PathWalk.extractPath demo ">a<b") "ACACC" = true := by decide
example : isOk (PathWalk.extractPath demo ">b<a") "GGTGT" = true := by decide
example : isOk (PathWalk.extractPath demo ">a>b") "" = true := by decide
example : isErr (PathWalk.extractPath demo "") .indexError = true := by decide
example : isOk (PathWalk.run demo "paths.txt" (some [" >a<b \n", "x\n", "\t>b<a"]) true)
    [">seq_>a<b", "ACACC", ">seq_x", "", ">seq_>b<a", "GGTGT"] = true := by decide
example : isErr (PathWalk.run demo "paths.txt" (some [">a<b\n", " \n"]) false) .indexError = true := by decide
example : isErr (PathWalk.run demo "paths.txt" none false) .osError = true := by decide
example : isOk (PathWalk.run demo ">a<b" none true) [">seq_>a<b", "ACACC"] = true := by decide

end Gaftools.TieA17
