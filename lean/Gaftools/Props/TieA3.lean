import Gaftools.Model.Realign
import Gaftools.Gen.Collector
/-!
# Tie A for the collector protocol of `realign_gaf` (C11, C13)

`Gen/Collector.lean` is regenerated from `gaftools/cli/realign.py` on every run: the four process predicates (`all_are_alive`,
`one_is_alive`, `all_exited`, `one_failed`) as folds over what the parent sees of a process (`is_alive()`, `exitcode`), both
copies of the `except queue.Empty` handler as a decision PROGRAM (one poll per predicate call, in source order), the sentinel
test and the loop condition of both collector loops.  The theorems below say that these are exactly what the transition system
of `Model/Realign.lean` runs: its handler is the translated one (so a change of the ORDER of the polls breaks the equality, not
only a change of the decision) and its `pGet` step is the translated sentinel test, so the protocol theorems of C11 / C13 are theorems about the decisions the code takes
now.  A change of one of these decisions breaks the corresponding equality.
-/
namespace Gaftools.TieA
open Gaftools.Realign Gaftools.Gen

/-- what the parent sees of a worker: `is_alive()` and `exitcode` -/
def procOf (w : Worker) : Proc := (w.st == .running, match w.st with | .exited c => some c | .running => none)
def procs (s : St) : List Proc := s.ws.map procOf

/-- a fold whose step is semantically "`q p` or the rest" is `any q` (whatever the shape of the translated loop body) -/
theorem foldr_sem_any {α} (f : α → Bool → Bool) (q : α → Bool) (fin : Bool) (hfin : fin = false)
    (h : ∀ p acc, f p acc = (q p || acc)) (l : List α) : l.foldr f fin = l.any q := by
  subst hfin
  induction l with
  | nil => rfl
  | cons a t ih => simp only [List.foldr_cons, List.any_cons, ih, h]

/-- a fold whose step is semantically "`q p` and the rest" is `all q` -/
theorem foldr_sem_all {α} (f : α → Bool → Bool) (q : α → Bool) (fin : Bool) (hfin : fin = true)
    (h : ∀ p acc, f p acc = (q p && acc)) (l : List α) : l.foldr f fin = l.all q := by
  subst hfin
  induction l with
  | nil => rfl
  | cons a t ih => simp only [List.foldr_cons, List.all_cons, ih, h]

/-- decide a Boolean identity over what the parent sees of one process: alive or not, exit code absent / zero / non-zero -/
macro "proc_cases" : tactic => `(tactic| (
  intro p acc
  obtain ⟨a, e⟩ := p
  cases a <;> cases acc <;> cases e with
  | none => first | rfl | decide | simp
  | some c =>
    by_cases h0 : c = 0
    · subst h0; first | rfl | decide | simp
    · have h1 : ((some c : Option Int) != some 0) = true := by simp only [bne_iff_ne, ne_eq, Option.some.injEq]; exact h0
      have h2 : ((some c : Option Int) == some 0) = false := by
        simp only [beq_eq_false_iff_ne, ne_eq, Option.some.injEq]; exact h0
      first | rfl | simp [h1, h2] | simp_all))

theorem oneIsAlive_gen (s : St) : oneIsAlive (procs s) = anyRunning s := by
  unfold oneIsAlive procs anyRunning
  rw [foldr_sem_any _ (fun p : Proc => p.1) _ rfl (by proc_cases), List.any_map]
  rfl

theorem allAreAlive_gen (s : St) : allAreAlive (procs s) = s.ws.all (fun w => w.st == .running) := by
  unfold allAreAlive procs
  rw [foldr_sem_all _ (fun p : Proc => p.1) _ rfl (by proc_cases), List.all_map]
  rfl

theorem allExited_gen (s : St) : allExited (procs s) = allExitedZero s := by
  unfold allExited procs allExitedZero
  rw [foldr_sem_all _ (fun p : Proc => p.2 == some (0 : Int)) _ rfl (by proc_cases), List.all_map]
  congr 1
  funext w
  cases hw : w.st with
  | running => simp only [Function.comp, procOf, hw]; decide
  | exited c =>
    simp only [Function.comp, procOf, hw]
    by_cases h0 : c = 0
    · subst h0; decide
    · have h1 : ((some c : Option Int) == some 0) = false := by
        simp only [beq_eq_false_iff_ne, ne_eq, Option.some.injEq]; exact h0
      have h2 : (WSt.exited c == WSt.exited 0) = false := by
        simp only [beq_eq_false_iff_ne, ne_eq, WSt.exited.injEq]; exact h0
      rw [h1, h2]

theorem oneFailed_gen (s : St) : oneFailed (procs s) = anyFailed s := by
  unfold oneFailed procs anyFailed
  rw [foldr_sem_any _ (fun p : Proc => p.2.isSome && (p.2 != some (0 : Int))) _ rfl (by proc_cases), List.any_map]
  congr 1
  funext w
  cases hw : w.st with
  | running => simp only [Function.comp, procOf, hw]; decide
  | exited c =>
    simp only [Function.comp, procOf, hw, Option.isSome_some, Bool.true_and]
    rw [Bool.eq_iff_iff]
    simp only [bne_iff_ne, ne_eq, Option.some.injEq]

/-- the in-loop handler, as translated from the source (one poll per predicate call, in source order, `and` / `or` / `not` as
    short-circuit evaluation), IS the handler whose polls the transition system interleaves with the workers' moves -/
theorem handlerMain_eq : handlerMain = refHandler := by first | rfl | decide

/-- … and so is the handler of the leftover loop -/
theorem handlerLeft_eq : handlerLeft = refHandler := by first | rfl | decide

/-- the steps of the model are the steps under the translated handlers -/
theorem step_genMain (s : St) (e : Ev) : step s e = stepH handlerMain s e := by rw [handlerMain_eq]; rfl
theorem step_genLeft (s : St) (e : Ev) : step s e = stepH handlerLeft s e := by rw [handlerLeft_eq]; rfl

/-- every poll of the model evaluates the translated predicate on what the parent sees of the processes at that moment -/
theorem evalPred_gen (s : St) :
    evalPred s .failed = oneFailed (procs s) ∧ evalPred s .alive = oneIsAlive (procs s) ∧
    evalPred s .exited = allExited (procs s) ∧ evalPred s .allAlive = allAreAlive (procs s) := by
  refine ⟨(oneFailed_gen s).symm, (oneIsAlive_gen s).symm, (allExited_gen s).symm, ?_⟩
  rw [allAreAlive_gen]; rfl

/-- what the code does with a received object, as far as the model can express it (`none`: it cannot — e.g. a sentinel put
    into the priority queue) -/
def applyRecv (r : Recv) (s : St) (m : Msg) : Option St :=
  match r, m with
  | .count, _ => some { s with nSent := s.nSent + 1 }
  | .keep, .item p => some { s with got := s.got ++ [p] }
  | .drop, _ => some s
  | _, _ => none

/-- `receive` (the `pGet` step) is the sentinel test followed by the loop condition — in-loop copy -/
theorem receive_genMain (s : St) (m : Msg) :
    (applyRecv (onObjectMain (m == .sentinel)) s m).map
      (fun s' => if loopOnMain s'.nSent s'.ws.length then { s' with pc := .atGet } else { s' with pc := .done }) = some (receive s m) := by
  cases m <;> simp [applyRecv, onObjectMain, loopOnMain, receive] <;> split <;> simp_all

/-- … leftover copy -/
theorem receive_genLeft (s : St) (m : Msg) :
    (applyRecv (onObjectLeft (m == .sentinel)) s m).map
      (fun s' => if loopOnLeft s'.nSent s'.ws.length then { s' with pc := .atGet } else { s' with pc := .done }) = some (receive s m) := by
  cases m <;> simp [applyRecv, onObjectLeft, loopOnLeft, receive] <;> split <;> simp_all

end Gaftools.TieA
