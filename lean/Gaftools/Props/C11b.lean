import Gaftools.Props.C11
/-!
# C11 (continued) — the whole file: groups processed one after the other give the input order

`realign_gaf` cuts the records `0 … n-1` into batches of `batchSize`, runs them `cores` at a time (one collector loop per
group, the last group taking the leftovers) and writes each group's results sorted by priority.  Under EVERY choice of one
schedule per group: if every group's collector leaves its loop normally, the file holds exactly the records `0 … n-1`, each
once, in input order — i.e. it is the single-core file.
-/
namespace Gaftools.C11
open Gaftools.Realign

/-- what is written for the whole file, given one schedule per group -/
def fileOutput (batchSize cores n : Nat) (scheds : List (List Ev)) : List Nat :=
  ((groups batchSize cores (List.range n)).zip scheds).flatMap (fun p => output (run (init p.1) p.2))

theorem sortNat_of_sorted (l : List Nat) (h : l.Pairwise (· ≤ ·)) : sortNat l = l :=
  Proofs.Realign.sorted_perm_eq (sortNat_sorted l) h (sortNat_perm l)

/-- a `flatMap` over a zip that only looks at the first component, when the second list is long enough -/
theorem zip_flatMap_fst {α β γ : Type _} (f : α → List γ) :
    ∀ (l : List α) (r : List β), l.length ≤ r.length → (l.zip r).flatMap (fun p => f p.1) = l.flatMap f
  | [], _, _ => by simp
  | _ :: _, [], h => by simp at h
  | a :: l, b :: r, h => by
      have ih := zip_flatMap_fst f l r (by simpa using h)
      simp only [List.zip_cons_cons, List.flatMap_cons, ih]

theorem flatMap_congr' {α β : Type _} {f g : α → List β} :
    ∀ (l : List α), (∀ a ∈ l, f a = g a) → l.flatMap f = l.flatMap g
  | [], _ => rfl
  | a :: l, h => by
      rw [List.flatMap_cons, List.flatMap_cons, h a (List.mem_cons_self ..),
        flatMap_congr' l (fun b hb => h b (List.mem_cons_of_mem _ hb))]

/-- a member of a list of lists is a sublist of the concatenation -/
theorem sublist_flatten_of_mem' {α : Type _} : ∀ (L : List (List α)) (l : List α), l ∈ L → l.Sublist L.flatten
  | [], _, h => by simp at h
  | x :: L, l, h => by
      rw [List.flatten_cons]
      rcases List.mem_cons.mp h with rfl | h
      · exact List.sublist_append_left _ _
      · exact (sublist_flatten_of_mem' L l h).trans (List.sublist_append_right _ _)

/-- every group holds an increasing run of input positions -/
theorem group_sorted (batchSize cores n : Nat) (hb : 0 < batchSize) (hc : 0 < cores) (g : List (List Nat))
    (hg : g ∈ groups batchSize cores (List.range n)) : g.flatten.Pairwise (· ≤ ·) := by
  have hsub : g.flatten.Sublist ((groups batchSize cores (List.range n)).map List.flatten).flatten :=
    sublist_flatten_of_mem' _ _ (List.mem_map.mpr ⟨g, hg, rfl⟩)
  rw [groups_flatten batchSize cores hb hc] at hsub
  exact (List.pairwise_lt_range.imp (fun h => Nat.le_of_lt h)).sublist hsub

/-- MAIN: exactly-once, in input order, for every number of cores, every batch size and every schedule of every group -/
theorem file_output_in_order (batchSize cores n : Nat) (hb : 0 < batchSize) (hc : 0 < cores) (scheds : List (List Ev))
    (hlen : scheds.length = (groups batchSize cores (List.range n)).length)
    (hdone : ∀ p ∈ (groups batchSize cores (List.range n)).zip scheds, (run (init p.1) p.2).pc = .done) :
    fileOutput batchSize cores n scheds = List.range n := by
  unfold fileOutput
  have hcongr : ((groups batchSize cores (List.range n)).zip scheds).flatMap (fun p => output (run (init p.1) p.2))
      = ((groups batchSize cores (List.range n)).zip scheds).flatMap (fun p => List.flatten p.1) := by
    apply flatMap_congr'
    intro p hp
    rw [done_output p.1 p.2 (hdone p hp)]
    exact sortNat_of_sorted _ (group_sorted batchSize cores n hb hc p.1 (List.of_mem_zip hp).1)
  rw [hcongr, zip_flatMap_fst List.flatten _ _ (by omega), List.flatMap_def]
  exact groups_flatten batchSize cores hb hc (List.range n)

/-- the result does not depend on the number of cores: it is the single-core output -/
theorem file_output_cores_independent (batchSize c₁ c₂ n : Nat) (hb : 0 < batchSize) (h₁ : 0 < c₁) (h₂ : 0 < c₂)
    (s₁ s₂ : List (List Ev))
    (hl₁ : s₁.length = (groups batchSize c₁ (List.range n)).length) (hl₂ : s₂.length = (groups batchSize c₂ (List.range n)).length)
    (hd₁ : ∀ p ∈ (groups batchSize c₁ (List.range n)).zip s₁, (run (init p.1) p.2).pc = .done)
    (hd₂ : ∀ p ∈ (groups batchSize c₂ (List.range n)).zip s₂, (run (init p.1) p.2).pc = .done) :
    fileOutput batchSize c₁ n s₁ = fileOutput batchSize c₂ n s₂ := by
  rw [file_output_in_order batchSize c₁ n hb h₁ s₁ hl₁ hd₁, file_output_in_order batchSize c₂ n hb h₂ s₂ hl₂ hd₂]

end Gaftools.C11
