import Gaftools.Props.TieA13
/-!
# Non-vacuity audit of TieA13 (`index.convert_coord`, the record loop of `index.run`)

Separate from `NvB.lean` because `Props/TieA13` cannot be imported together with `Props/TieA10`: `Gen/IndexLoop.lean` and
`Gen/ConvLoopU.lean` both declare `Gaftools.Gen.ixSlice` (and `TieA10` / `TieA13` both declare `Gaftools.TieA.ix_searchIv_range`,
`Gaftools.TieA.ix_slice_window`).  Namespace `Gaftools.NonVacuous13` for the same reason.
-/
set_option linter.unusedVariables false
namespace Gaftools.NonVacuous13
open Gaftools.Gaf Gaftools.Conv Gaftools.ConvText Gaftools.View Gaftools.Gfa Gaftools.TieA

def tg (n t v : String) : Tag := ⟨n, t, v⟩
def sg (id seq ln sn so sr : String) : SegLine := ⟨id, seq, [tg "LN" "i" ln, tg "SN" "Z" sn, tg "SO" "i" so, tg "SR" "i" sr]⟩
/-- chr = a [0,3) b [3,5) c [5,9) (rank 0, out of file order), a rank-1 bubble h on hap [10,12); four links -/
def g13 : Graph :=
  readGraph ⟨[sg "b" "GG" "2" "chr" "3" "0", sg "a" "ACT" "3" "chr" "0" "0", sg "h" "TT" "2" "hap" "10" "1", sg "c" "TTTA" "4" "chr" "5" "0"],
    [⟨"a", true, "b", true, 0, []⟩, ⟨"b", true, "c", true, 0, []⟩, ⟨"a", true, "h", true, 0, []⟩, ⟨"h", true, "c", true, 0, []⟩]⟩
#guard reference g13 "chr" == [⟨"a", 0, 3⟩, ⟨"b", 3, 5⟩, ⟨"c", 5, 9⟩] && reference g13 "hap" == [⟨"h", 10, 12⟩]
#guard (nodesOf g13 "h") == some ⟨"h", "hap", 10, 12, 1⟩ && (nodesOf g13 "zz") == none

/-- the same reference written out (no `String.toInt?`, so that the kernel can evaluate it) -/
def ref13 : String → List Seg := fun c =>
  if c == "chr" then [⟨"a", 0, 3⟩, ⟨"b", 3, 5⟩, ⟨"c", 5, 9⟩] else if c == "hap" then [⟨"h", 10, 12⟩] else []
def chr13 : List Seg := [⟨"a", 0, 3⟩, ⟨"b", 3, 5⟩, ⟨"c", 5, 9⟩]

/-! ## `convert_coord` -/

example : Gen.filterNone (Gen.reSplit (fun c => c == '>' || c == '<') (fun c => c == '>' || c == '<') ">chr:0-3<hap:10-12".toList) =
    pathTokens ">chr:0-3<hap:10-12".toList := tokens_gen _
#guard Gen.filterNone (Gen.reSplit (fun c => c == '>' || c == '<') (fun c => c == '>' || c == '<') ">chr:0-3<hap:10-12".toList) ==
    [">".toList, "chr:0-3".toList, "<".toList, "hap:10-12".toList]
#guard (Gen.reSplit (fun c => c == '>' || c == '<') (fun c => c == '>' || c == '<') ">chr:0-3<hap:10-12".toList).length == 5

-- the window scan: the query [1,8) starts in a (case 1), contains b (case 3), ends in c (case 2); [20,30) is missed
example : Gen.convertCoord_for2 1 8 ["x"] ⟨"b", 3, 5⟩ = if overlapCase ⟨"b", 3, 5⟩ 1 8 ≠ 0 then ["x"] ++ ["b"] else ["x"] := for2_gen _ _ _ _
#guard Gen.convertCoord_for2 1 8 ["x"] ⟨"a", 0, 3⟩ == ["x", "a"] && Gen.convertCoord_for2 1 8 ["x"] ⟨"b", 3, 5⟩ == ["x", "b"] &&
  Gen.convertCoord_for2 1 8 ["x"] ⟨"c", 5, 9⟩ == ["x", "c"] && Gen.convertCoord_for2 1 8 ["x"] ⟨"z", 20, 30⟩ == ["x"]
example : chr13.foldl (Gen.convertCoord_for2 3 5) ["x"] = ["x"] ++ (chr13.filter (fun sg => overlapCase sg 3 5 ≠ 0)).map (·.id) := scan_gen _ _ _ _
#guard chr13.foldl (Gen.convertCoord_for2 3 5) ["x"] == ["x", "b"] && chr13.foldl (Gen.convertCoord_for2 1 8) [] == ["a", "b", "c"]

example : Gen.ixSlice chr13 (1, 2).1 ((1, 2).2 + 1) = window chr13 (1, 2) := TieA.ix_slice_window chr13 (1, 2) (Or.inr ⟨by decide, by decide⟩)
example : Gen.ixSlice chr13 (-1, -1).1 ((-1, -1).2 + 1) = window chr13 (-1, -1) := TieA.ix_slice_window chr13 (-1, -1) (Or.inl rfl)
#guard Gen.ixSlice chr13 1 (2 + 1) == [⟨"b", 3, 5⟩, ⟨"c", 5, 9⟩] && Gen.ixSlice chr13 (-1) (-1 + 1) == []

example := (core_gen chr13 3 7 ["x"] :
  ((Gen.searchIv chr13 3 7 (chr13.length + 2) (0 : Int) (chr13.length : Int)).bind fun v =>
    some ((Gen.ixSlice chr13 v.1 (v.2 + (1 : Int))).foldl (Gen.convertCoord_for2 3 7) ["x"])) = _)
#guard ((Gen.searchIv chr13 3 7 (chr13.length + 2) (0 : Int) (chr13.length : Int)).bind fun v =>
    some ((Gen.ixSlice chr13 v.1 (v.2 + (1 : Int))).foldl (Gen.convertCoord_for2 3 7) ["x"])) == some ["x", "b", "c"]

/-- the fields of a stable record with an interval path, and of one with a bare contig name -/
def fIv : List Str := (splitTab (rstrip "r1\t9\t0\t9\t+\t>chr:1-8<hap:10-12\t9\t0\t9\t9\t9\t60\tcg:Z:9M\n".toList))
def fBare : List Str := (splitTab (rstrip "r2\t9\t0\t4\t+\tchr\t9\t3\t7\t4\t4\t60\ttp:A:P\n".toList))

example : Gen.convertCoord_for1 fIv ref13 ["x"] ['<'] = some ["x"] := for1_orient _ _ _ _ (by decide)
example : Gen.convertCoord_for1 fIv ref13 ["x"] "chr:1-8".toList = ccModelStep ref13 0 9 ["x"] (.iv true (String.ofList "chr".toList) 1 8) :=
  for1_iv fIv ref13 0 9 ["x"] "chr:1-8".toList "chr".toList "1-8".toList "1".toList "8".toList [] 1 8 true
    (by decide) (by decide) (by decide) (by decide) (by decide) (by decide)
example : Gen.convertCoord_for1 fBare ref13 ["x"] "chr".toList = ccModelStep ref13 3 7 ["x"] (.bare (String.ofList "chr".toList)) :=
  for1_bare fBare ref13 3 7 ["x"] "chr".toList "3".toList "7".toList (by decide) (by decide) (by decide) (by decide) (by decide) (by decide)
#guard Gen.convertCoord_for1 fIv ref13 ["x"] "chr:1-8".toList == some ["x", "a", "b", "c"]
#guard Gen.convertCoord_for1 fBare ref13 ["x"] "chr".toList == some ["x", "b", "c"]
#guard Gen.convertCoord_for1 fIv ref13 ["x"] "chr".toList == some ["x", "a", "b", "c"]   -- columns 8, 9 of the other record: 0, 9
#guard Gen.convertCoord_for1 fIv ref13 ["x"] "chr:1-y".toList == none

theorem bareCols13 : BareCols fBare [.bare "chr"] 3 7 :=
  fun c _ => ⟨"3".toList, "7".toList, by decide, by decide, by decide, by decide⟩

example : (pathTokens ">chr:1-8<hap:10-12".toList).foldlM (Gen.convertCoord_for1 fIv ref13) ["x"] =
    [SItem.iv true "chr" 1 8, .iv false "hap" 10 12].foldlM (ccModelStep ref13 0 9) ["x"] :=
  for1_fold fIv ref13 0 9 _ none _ ["x"] (by decide) (fun c hc => by simp at hc)

example : Gen.convertCoord fIv ref13 = Conv.convertCoord ref13 [.iv true "chr" 1 8, .iv false "hap" 10 12] 0 9 :=
  convertCoord_gen fIv ref13 ">chr:1-8<hap:10-12".toList _ 0 9 (by decide) (by decide) (fun c hc => by simp at hc)
example : Gen.convertCoord fBare ref13 = Conv.convertCoord ref13 [.bare "chr"] 3 7 :=
  convertCoord_gen fBare ref13 "chr".toList _ 3 7 (by decide) (by decide) bareCols13
-- the same with the reference of the loaded graph
example : Gen.convertCoord fBare (reference g13) = Conv.convertCoord (reference g13) [.bare "chr"] 3 7 :=
  convertCoord_gen fBare (reference g13) "chr".toList _ 3 7 (by decide) (by decide) bareCols13
#guard Gen.convertCoord fIv ref13 == some ["a", "b", "c", "h"]
#guard Gen.convertCoord fBare ref13 == some ["b", "c"]
#guard Gen.convertCoord fBare (reference g13) == some ["b", "c"]
#guard Gen.convertCoord (fBare.take 8) ref13 == none

/-! ## the record loop -/

/-- an index with `b` already entered for record 0 -/
def idx0 : List (Key × List Nat) := [(("b", "chr", 3, 5), [0])]
example : Gen.run_for1 (nodesOf g13) 1 idx0 "b" = (nodesOf g13 "b").bind fun i => some (idxAdd idx0 (keyOf i) 1) := for_a_gen _ _ _ _
example : Gen.run_for1 (nodesOf g13) 1 idx0 "zz" = (nodesOf g13 "zz").bind fun i => some (idxAdd idx0 (keyOf i) 1) := for_a_gen _ _ _ _
#guard Gen.run_for1 (nodesOf g13) 1 idx0 "b" == some [(("b", "chr", 3, 5), [0, 1])]
#guard Gen.run_for1 (nodesOf g13) 1 idx0 "h" == some [(("b", "chr", 3, 5), [0]), (("h", "hap", 10, 12), [1])]
#guard Gen.run_for1 (nodesOf g13) 1 idx0 "zz" == none

theorem upath13 : UPathOk ">a<h>c".toList := ⟨["a".toList, "h".toList, "c".toList], by decide, by decide⟩
example : ((">a<h>c".toList.splitOnP (fun c => c == '>' || c == '<')).drop 1).map String.ofList = (parseUnstableSteps ">a<h>c".toList).map (·.2) :=
  unstable_gen _ upath13
#guard ((">a<h>c".toList.splitOnP (fun c => c == '>' || c == '<')).drop 1).map String.ofList == ["a", "h", "c"]

example : ["b", "c", "b"].foldlM (Gen.run_for1 (nodesOf g13) 2) idx0 = C03.addIds g13 2 ["b", "c", "b"] idx0 := addIds_gen _ _ _ _
#guard ["b", "c", "b"].foldlM (Gen.run_for1 (nodesOf g13) 2) idx0 == some [(("b", "chr", 3, 5), [0, 2, 2]), (("c", "chr", 5, 9), [2])]

/-- a stable file of three records and an unstable one of two -/
def lS1 : Str := "r1\t9\t0\t9\t+\t>chr:1-8<hap:10-12\t9\t0\t9\t9\t9\t60\tcg:Z:9M\n".toList
def lS2 : Str := "r2\t9\t0\t4\t+\tchr\t9\t3\t7\t4\t4\t60\ttp:A:P\n".toList
def lS3 : Str := "r3\t5\t0\t5\t-\t<chr:0-3\t9\t0\t3\t3\t3\t60\n".toList
def lU1 : Str := "r1\t9\t0\t9\t+\t>a>b>c\t9\t0\t9\t9\t9\t60\tcg:Z:9M\n".toList
def lU2 : Str := "r2\t9\t0\t9\t+\t>a<h>c\t9\t0\t9\t9\t9\t60\n".toList

theorem recS1 : LineRec true lS1 (.stable [.iv true "chr" 1 8, .iv false "hap" 10 12] 0 9) :=
  ⟨">chr:1-8<hap:10-12".toList, by decide, _, 0, 9, by decide, fun c hc => by simp at hc, rfl⟩
theorem recS2 : LineRec true lS2 (.stable [.bare "chr"] 3 7) :=
  ⟨"chr".toList, by decide, _, 3, 7, by decide, fun c _ => ⟨"3".toList, "7".toList, by decide, by decide, by decide, by decide⟩, rfl⟩
theorem recS3 : LineRec true lS3 (.stable [.iv false "chr" 0 3] 0 3) :=
  ⟨"<chr:0-3".toList, by decide, _, 0, 3, by decide, fun c hc => by simp at hc, rfl⟩
theorem recU1 : LineRec false lU1 (.unstable (parseUnstableSteps ">a>b>c".toList)) :=
  ⟨">a>b>c".toList, by decide, ⟨["a".toList, "b".toList, "c".toList], by decide, by decide⟩, rfl⟩
theorem recU2 : LineRec false lU2 (.unstable (parseUnstableSteps ">a<h>c".toList)) :=
  ⟨">a<h>c".toList, by decide, upath13, rfl⟩

def recsS : List RecPath := [.stable [.iv true "chr" 1 8, .iv false "hap" 10 12] 0 9, .stable [.bare "chr"] 3 7, .stable [.iv false "chr" 0 3] 0 3]
def recsU : List RecPath := [.unstable (parseUnstableSteps ">a>b>c".toList), .unstable (parseUnstableSteps ">a<h>c".toList)]
theorem linesS : LinesRecs true [lS1, lS2, lS3] recsS := .cons recS1 (.cons recS2 (.cons recS3 .nil))
theorem linesU : LinesRecs false [lU1, lU2] recsU := .cons recU1 (.cons recU2 .nil)

/-- what is compared of a loop state: the index by node id, the offset, the position, the number of lines left -/
def stView (r : Option (Bool × Gen.RunSt)) : Option (Bool × List (String × List Nat) × Nat × Nat × Nat) :=
  r.map fun x => (x.1, x.2.out_dict.map (fun e => (e.1.1, e.2)), x.2.offset, x.2.gaf_file.pos, x.2.gaf_file.rest.length)

example : Gen.run_while true (nodesOf g13) (reference g13) ⟨idx0, 7, ⟨1, lS2 :: [lS3]⟩⟩ =
    (C03.ixStep g13 idx0 (.stable [.bare "chr"] 3 7, 1)).map fun idx' => (true, ⟨idx', 1, ⟨1 + 1, [lS3]⟩⟩) :=
  while_step g13 true idx0 7 1 lS2 [lS3] _ recS2
example : Gen.run_while false (nodesOf g13) (reference g13) ⟨idx0, 7, ⟨1, lU2 :: []⟩⟩ =
    (C03.ixStep g13 idx0 (.unstable (parseUnstableSteps ">a<h>c".toList), 1)).map fun idx' => (true, ⟨idx', 1, ⟨1 + 1, []⟩⟩) :=
  while_step g13 false idx0 7 1 lU2 [] _ recU2
example : Gen.run_while true (nodesOf g13) (reference g13) ⟨idx0, 7, ⟨3, []⟩⟩ = some (false, ⟨idx0, 3, ⟨3 + 1, []⟩⟩) := while_eof _ _ _ _ _
#guard stView (Gen.run_while true (nodesOf g13) (reference g13) ⟨idx0, 7, ⟨1, lS2 :: [lS3]⟩⟩) ==
    some (true, [("b", [0, 1]), ("c", [1])], 1, 2, 1)
#guard stView (Gen.run_while false (nodesOf g13) (reference g13) ⟨idx0, 7, ⟨1, lU2 :: []⟩⟩) ==
    some (true, [("b", [0]), ("a", [1]), ("h", [1]), ("c", [1])], 1, 2, 0)
#guard stView (Gen.run_while true (nodesOf g13) (reference g13) ⟨idx0, 7, ⟨3, []⟩⟩) == some (false, [("b", [0])], 3, 4, 0)

example := (while_gen g13 true [lS1, lS2, lS3] recsS linesS 4 [] 0 0 (by decide) :
  Gen.whileTrue (Gen.run_while true (nodesOf g13) (reference g13)) 4 ⟨[], 0, ⟨0, [lS1, lS2, lS3]⟩⟩ = _)

/-- node id and offsets of every entry, and the extra entries -/
def idxView (r : Option (Gen.Idx × List (String × List String))) : Option (List (String × List Nat) × List (String × List String)) :=
  r.map fun x => (x.1.map (fun e => (e.1.1, e.2)), x.2)

example : Gen.run true (nodesOf g13) (reference g13) ["chr"] ⟨0, [lS1, lS2, lS3]⟩ 4 =
    (buildIndex g13 recsS).map fun idx => (idx, [("ref_contig", ["chr"])]) :=
  run_gen g13 true _ recsS ["chr"] linesS 4 (by decide)
example : Gen.run false (nodesOf g13) (reference g13) ["chr"] ⟨0, [lU1, lU2]⟩ 3 =
    (buildIndex g13 recsU).map fun idx => (idx, [("ref_contig", ["chr"])]) :=
  run_gen g13 false _ recsU ["chr"] linesU 3 (by decide)
#guard idxView (Gen.run true (nodesOf g13) (reference g13) ["chr"] ⟨0, [lS1, lS2, lS3]⟩ 4) ==
    some ([("a", [0, 2]), ("b", [0, 1]), ("c", [0, 1]), ("h", [0])], [("ref_contig", ["chr"])])
#guard idxView (Gen.run false (nodesOf g13) (reference g13) ["chr"] ⟨0, [lU1, lU2]⟩ 3) ==
    some ([("a", [0, 1]), ("b", [0]), ("c", [0, 1]), ("h", [1])], [("ref_contig", ["chr"])])
-- the fuel hypothesis is needed: with fuel = number of lines the loop is cut before it sees the end of the file
#guard idxView (Gen.run false (nodesOf g13) (reference g13) ["chr"] ⟨0, [lU1, lU2]⟩ 2) == none
-- a line that is not a record of the model: a path not beginning with an orientation (index.py drops the first node)
#guard idxView (Gen.run false (nodesOf g13) (reference g13) [] ⟨0, ["r\t9\t0\t9\t+\ta>b\t9\t0\t9\t9\t9\t60".toList]⟩ 3) == some ([("b", [0])], [("ref_contig", [])])

example : Gen.run_ref_contig [("chr", 0), ("hap", 1), ("alt", 0)] = ([("chr", (0 : Int)), ("hap", 1), ("alt", 0)].filter (fun p => p.2 == 0)).map (·.1) ∧
    ∀ c, c ∈ Gen.run_ref_contig [("chr", 0), ("hap", 1), ("alt", 0)] ↔ (c, (0 : Int)) ∈ [("chr", (0 : Int)), ("hap", 1), ("alt", 0)] :=
  refContig_gen _
#guard Gen.run_ref_contig [("chr", 0), ("hap", 1), ("alt", 0)] == ["chr", "alt"]

end Gaftools.NonVacuous13
