import Gaftools.Model.ConvText
import Gaftools.Gen.ConvLoopS
import Gaftools.Props.TieA
/-!
# Tie A for `conversion.to_stable` up to the twelve-column format statement (C01, C02)

`Gen/ConvLoopS.lean` is regenerated from `gaftools/conversion.py` on every run, statement by statement: the path split
(`list(filter(None, re.split("(>)|(<)", path)))` -> `splitKeep pathSeps`), the body of the loop over the tokens (`tokStep`: the
orientation bookkeeping with `orient` kept as the Python value `None` / a string, the `nodes[nd]` lookup, the append),
`out_node = [node_list[0]]`, the body of the merge loop (`mergeStep`: `out_node[-1]`, `node_list[i + 1]`, the call of `merge_nodes`
= `Gen.mergeNodes`, `stable_coord += n1.to_string(o1)`, the append / the replacement of the last element), `StableNode.to_string`
(`toStr`), the single-reference-interval test with both branches (strand flip, `reverse_flag`, `contig_len[...]`), and the
expressions the format statement prints in columns 5-9 (`toStableS`).  Every subscript that can raise is a `match … | none => none`.

Model side: `Conv.toStable` (the function `toStable_locus`, `roundtrip_USU/SUS`, C02 are about), fed with
`ConvText.parseUnstableSteps` and printed with `ConvText.renderSPath` — the composition `Drv/Conv.lean` runs and the
correspondence (B) tests.

* `gafNodes_gen`   : the translated split IS `pathTokens`.
* `toStr_gen`      : the translated `to_string` IS `renderOIv`.
* `tokLoop_gen`    : the translated token loop (fold of `Gen.tokStep`) followed by the Bool encoding of the orientation strings IS
                     `parseUnstableSteps` followed by the model's `nodes` lookup (`none` = KeyError on both sides).
* `tokLoop_orients`: every orientation string stored by the translated loop is `">"` or `"<"`, so that encoding loses nothing.
* `mergeStep_gen`  : one iteration of the translated merge loop, in terms of the model's `mergeNodes`.
* `mergeLoop_gen`  : the whole translated merge loop IS `mergeGo` (and `stable_coord` = the text of all intervals but the last).
* `toStableS_gen`  : the whole translated function IS `toStable ∘ parseUnstableSteps`, printed by `renderSPath`.  No hypothesis.
-/
namespace Gaftools.TieA
open Gaftools.Gaf Gaftools.Conv Gaftools.ConvText

/-- the translated path split with a pending run `cur` -/
theorem splitKeepAux_gen (p cur : Str) : Gen.splitKeepAux Gen.pathSeps p cur = pathTokensAux p cur := by
  induction p generalizing cur with
  | nil => simp [Gen.splitKeepAux, pathTokensAux]
  | cons c cs ih =>
    unfold Gen.splitKeepAux pathTokensAux
    rw [ih, ih]
    simp [Gen.pathSeps]

/-- `gaf_nodes`: the translated `list(filter(None, re.split("(>)|(<)", path)))` is the model's tokeniser -/
theorem gafNodes_gen (p : Str) : Gen.splitKeep Gen.pathSeps p = pathTokens p := splitKeepAux_gen p []

/-- `StableNode.to_string` as translated is the model's text of one interval -/
theorem toStr_gen (n : SNode) (o : Bool) : Gen.toStr n o = renderOIv (n, o) := by
  first
  | rfl
  | simp [Gen.toStr, renderOIv]

theorem toStr_gen_pair (y : OIv) : Gen.toStr y.1 y.2 = renderOIv y := by
  cases y; exact toStr_gen _ _

/-- the Python value of `orient` (`None`, `">"`, `"<"`) against the Bool the model's `parseUnstableSteps.go` carries ('>' by default) -/
def OrientRel (o : Option Str) (b : Bool) : Prop :=
  (o = none ∧ b = true) ∨ (o = some ['>'] ∧ b = true) ∨ (o = some ['<'] ∧ b = false)

/-- the translated loop body on an orientation token: `orient = nd; continue` -/
theorem tokStep_orient (nodes : String → Option SNode) (o : Option Str) (acc : List (SNode × Option Str)) (t : Str)
    (h : isOrientTok t = true) : Gen.tokStep nodes (o, acc) t = some (some t, acc) := by
  unfold isOrientTok at h
  simp [Gen.tokStep, h]

/-- the translated loop body on any other token: the default orientation, the lookup (`none` = KeyError), the append -/
theorem tokStep_name (nodes : String → Option SNode) (o : Option Str) (b : Bool) (hr : OrientRel o b)
    (acc : List (SNode × Option Str)) (t : Str) (h : isOrientTok t = false) :
    Gen.tokStep nodes (o, acc) t =
      (nodes (String.ofList t)).map (fun n => (some (if b then ['>'] else ['<']), acc ++ [(n, some (if b then ['>'] else ['<']))])) := by
  unfold isOrientTok at h
  rcases hr with ⟨rfl, rfl⟩ | ⟨rfl, rfl⟩ | ⟨rfl, rfl⟩ <;>
    cases hn : nodes (String.ofList t) <;> simp [Gen.tokStep, h, Gen.truthy, hn]

def encIv (x : SNode × Option Str) : OIv := (x.1, Gen.encOrient x.2)

theorem tokLoop_aux (nodes : String → Option SNode) (ts : List Str) (o : Option Str) (b : Bool) (hr : OrientRel o b)
    (acc : List (SNode × Option Str)) :
    (ts.foldlM (Gen.tokStep nodes) (o, acc)).map (fun r => r.2.map encIv) =
      (((parseUnstableSteps.go ts b).map (fun s => (s.1, String.ofList s.2))).mapM
          (fun s => (nodes s.2).map (fun n => (n, s.1)))).map (fun l => acc.map encIv ++ l) := by
  induction ts generalizing o b acc with
  | nil => simp [parseUnstableSteps.go]
  | cons t ts ih =>
    rw [List.foldlM_cons]
    unfold parseUnstableSteps.go
    cases ht : isOrientTok t with
    | true =>
      rw [tokStep_orient nodes o acc t ht]
      simp only [if_true, Option.bind_eq_bind, Option.bind_some]
      apply ih
      unfold isOrientTok at ht
      by_cases h1 : t = ['>']
      · subst h1; exact Or.inr (Or.inl ⟨rfl, rfl⟩)
      · have h2 : t = ['<'] := by simpa [h1] using ht
        subst h2; exact Or.inr (Or.inr ⟨rfl, by decide⟩)
    | false =>
      rw [tokStep_name nodes o b hr acc t ht]
      simp only [Bool.false_eq_true, if_false, List.map_cons, List.mapM_cons]
      cases hn : nodes (String.ofList t) with
      | none => simp
      | some n =>
        simp only [Option.map_some, Option.bind_eq_bind, Option.bind_some]
        rw [ih (some (if b then ['>'] else ['<'])) b (by cases b <;> simp [OrientRel])]
        cases ((parseUnstableSteps.go ts b).map (fun s => (s.1, String.ofList s.2))).mapM
          (fun s => (nodes s.2).map (fun n => (n, s.1))) with
        | none => simp
        | some l => cases b <;> simp [encIv, Gen.encOrient]

/-- the loop over the path tokens -/
theorem tokLoop_gen (nodes : String → Option SNode) (path : Str) :
    ((pathTokens path).foldlM (Gen.tokStep nodes) (none, [])).map (fun r => r.2.map (fun x => (x.1, Gen.encOrient x.2))) =
      (parseUnstableSteps path).mapM (fun s => (nodes s.2).map (fun n => (n, s.1))) := by
  have h := tokLoop_aux nodes (pathTokens path) none true (Or.inl ⟨rfl, rfl⟩) []
  simp only [List.map_nil, List.nil_append, Option.map_id'] at h
  unfold parseUnstableSteps
  exact h

def OrientOk (o : Option Str) : Prop := o = some ['>'] ∨ o = some ['<']

theorem tokLoop_orients_aux (nodes : String → Option SNode) (ts : List Str) (o : Option Str) (ho : o = none ∨ OrientOk o)
    (acc : List (SNode × Option Str)) (hacc : ∀ x ∈ acc, OrientOk x.2) (r : Option Str × List (SNode × Option Str))
    (h : ts.foldlM (Gen.tokStep nodes) (o, acc) = some r) : (r.1 = none ∨ OrientOk r.1) ∧ ∀ x ∈ r.2, OrientOk x.2 := by
  induction ts generalizing o acc with
  | nil =>
    simp at h
    subst h
    exact ⟨ho, hacc⟩
  | cons t ts ih =>
    rw [List.foldlM_cons] at h
    cases ht : isOrientTok t with
    | true =>
      rw [tokStep_orient nodes o acc t ht] at h
      simp only [Option.bind_eq_bind, Option.bind_some] at h
      refine ih (some t) (Or.inr ?_) acc hacc h
      unfold isOrientTok at ht
      by_cases h1 : t = ['>']
      · exact Or.inl (by rw [h1])
      · have h2 : t = ['<'] := by simpa [h1] using ht
        exact Or.inr (by rw [h2])
    | false =>
      have hr : ∃ b, OrientRel o b := by
        rcases ho with rfl | h1 | h1
        · exact ⟨true, Or.inl ⟨rfl, rfl⟩⟩
        · exact ⟨true, Or.inr (Or.inl ⟨h1, rfl⟩)⟩
        · exact ⟨false, Or.inr (Or.inr ⟨h1, rfl⟩)⟩
      obtain ⟨b, hr⟩ := hr
      rw [tokStep_name nodes o b hr acc t ht] at h
      cases hn : nodes (String.ofList t) with
      | none => simp [hn] at h
      | some n =>
        simp only [hn, Option.map_some, Option.bind_eq_bind, Option.bind_some] at h
        have hb : OrientOk (some (if b then ['>'] else ['<'])) := by cases b <;> simp [OrientOk]
        refine ih _ (Or.inr hb) _ ?_ h
        intro x hx
        rcases List.mem_append.mp hx with hx | hx
        · exact hacc x hx
        · simp at hx; subst hx; exact hb

/-- every orientation string the token loop stores is `">"` or `"<"`: the Bool encoding applied to `node_list` loses nothing -/
theorem tokLoop_orients (nodes : String → Option SNode) (ts : List Str) (r : Option Str × List (SNode × Option Str))
    (h : ts.foldlM (Gen.tokStep nodes) (none, []) = some r) : ∀ x ∈ r.2, x.2 = some ['>'] ∨ x.2 = some ['<'] :=
  (tokLoop_orients_aux nodes ts none (Or.inl rfl) [] (by simp) r h).2

theorem mergeGo_ne_nil (cur : OIv) (xs : List OIv) : mergeGo cur xs ≠ [] := by
  induction xs generalizing cur with
  | nil => simp [mergeGo]
  | cons y ys ih =>
    unfold mergeGo
    split
    · exact ih _
    · simp

/-- one iteration of the merge loop, `out_node` being `pre ++ [cur]` and `node_list[i + 1]` being `y` -/
theorem mergeStep_gen (nodeList : List OIv) (acc : Str) (pre : List OIv) (cur : OIv) (i : Nat) (y : OIv)
    (hy : nodeList[i + 1]? = some y) :
    Gen.mergeStep nodeList (acc, pre ++ [cur]) i =
      (match mergeNodes cur.1 y.1 cur.2 y.2 with
       | none => some (acc ++ renderOIv cur, pre ++ [cur] ++ [y])
       | some m => some (acc, pre ++ [m])) := by
  unfold Gen.mergeStep
  simp only [hy, List.getLast?_append, List.getLast?_singleton, Option.some_or, mergeNodes_gen_eq_model, toStr_gen]
  cases mergeNodes cur.1 y.1 cur.2 y.2 with
  | none => rfl
  | some m => simp [Gen.setLast]

theorem mergeLoop_aux (xs hd : List OIv) (k : Nat) (hk : hd.length = k + 1) (acc : Str) (pre : List OIv) (cur : OIv) :
    (List.range' k xs.length).foldlM (Gen.mergeStep (hd ++ xs)) (acc, pre ++ [cur]) =
      some (acc ++ (mergeGo cur xs).dropLast.flatMap renderOIv, pre ++ mergeGo cur xs) := by
  induction xs generalizing hd k acc pre cur with
  | nil => simp [mergeGo]
  | cons y ys ih =>
    have hy : (hd ++ y :: ys)[k + 1]? = some y := by
      rw [List.getElem?_append_right (by omega)]
      simp [hk]
    simp only [List.length_cons, List.range'_succ, List.foldlM_cons]
    rw [mergeStep_gen _ acc pre cur k y hy]
    have hsplit : hd ++ y :: ys = (hd ++ [y]) ++ ys := by simp
    unfold mergeGo
    cases hm : mergeNodes cur.1 y.1 cur.2 y.2 with
    | none =>
      simp only [Option.bind_eq_bind, Option.bind_some]
      rw [hsplit, ih (hd ++ [y]) (k + 1) (by simp [hk]) _ (pre ++ [cur]) y]
      have hne := mergeGo_ne_nil y ys
      cases hg : mergeGo y ys with
      | nil => exact absurd hg hne
      | cons a l => simp
    | some m =>
      simp only [Option.bind_eq_bind, Option.bind_some]
      rw [hsplit, ih (hd ++ [y]) (k + 1) (by simp [hk]) _ pre m]

/-- the whole merge loop from `out_node = [node_list[0]]`, `stable_coord = acc`: `out_node` ends as the model's `mergeGo`, and
    `stable_coord` has received the text of every interval but the last -/
theorem mergeLoop_gen (x : OIv) (xs : List OIv) (acc : Str) :
    (List.range ((x :: xs).length - 1)).foldlM (Gen.mergeStep (x :: xs)) (acc, [x]) =
      some (acc ++ (mergeGo x xs).dropLast.flatMap renderOIv, mergeGo x xs) := by
  have h := mergeLoop_aux xs [x] 0 rfl acc [] x
  simpa [List.range_eq_range'] using h

theorem flatMap_dropLast_getLast (a : OIv) (l : List OIv) (y : OIv) (h : (a :: l).getLast? = some y) :
    (a :: l).dropLast.flatMap renderOIv ++ renderOIv y = (a :: l).flatMap renderOIv := by
  have hne : (a :: l) ≠ [] := by simp
  have h1 : (a :: l) = (a :: l).dropLast ++ [y] := by
    have h2 := List.getLast?_eq_some_getLast hne
    rw [h] at h2
    have h3 := List.dropLast_concat_getLast hne
    rw [← Option.some.inj h2] at h3
    exact h3.symm
  conv => rhs; rw [h1]
  simp

theorem toStableS_gen (nodes : String → Option SNode) (refContigs : List String) (contigLen : String → Option Int)
    (strandPlus : Bool) (path : Str) (plen ps pe : Int) :
    Gen.toStableS nodes refContigs contigLen strandPlus path plen ps pe =
      (toStable nodes refContigs contigLen strandPlus (parseUnstableSteps path) plen ps pe).map
        (fun r => (renderSPath r.1, r.2)) := by
  have htok := tokLoop_gen nodes path
  unfold Gen.toStableS toStable
  simp only [gafNodes_gen]
  cases hf : (pathTokens path).foldlM (Gen.tokStep nodes) (none, []) with
  | none =>
    rw [hf] at htok
    simp only [Option.map_none] at htok
    simp [← htok]
  | some r =>
    obtain ⟨o, nl⟩ := r
    rw [hf] at htok
    simp only [Option.map_some] at htok
    rw [← htok]
    simp only
    cases hl : nl.map (fun x => (x.1, Gen.encOrient x.2)) with
    | nil => simp
    | cons x xs =>
      simp only [List.getElem?_cons_zero]
      rw [mergeLoop_gen x xs []]
      simp only [List.nil_append]
      have hne := mergeGo_ne_nil x xs
      cases hg : mergeGo x xs with
      | nil => exact absurd hg hne
      | cons a l =>
        cases l with
        | nil =>
          obtain ⟨n, oo⟩ := a
          by_cases hc : n.contig ∈ refContigs
          · cases hcl : contigLen n.contig with
            | none => simp [hc, hcl]
            | some total => cases oo <;> simp [hc, hcl, renderSPath]
          · simp [hc, renderSPath, toStr_gen]
        | cons b t =>
          cases hlast : (a :: b :: t).getLast? with
          | none => simp at hlast
          | some y =>
            have hthis := flatMap_dropLast_getLast a (b :: t) y hlast
            simp only [toStr_gen_pair, hthis]
            simp [renderSPath]

/-- the form `Drv/Conv.lean` (the executable the correspondence tests run) composes: record text from the translated function =
    record text from the model -/
theorem toStableS_emit (nodes : String → Option SNode) (refContigs : List String) (contigLen : String → Option Int)
    (r : Rec) :
    (Gen.toStableS nodes refContigs contigLen (r.strand == ['+']) r.path r.plen r.ps r.pe).map (fun q => emitConverted r q.1 q.2) =
      (toStable nodes refContigs contigLen (r.strand == ['+']) (parseUnstableSteps r.path) r.plen r.ps r.pe).map
        (fun (p, o) => emitConverted r (renderSPath p) o) := by
  rw [toStableS_gen, Option.map_map]
  rfl

end Gaftools.TieA
