import Gaftools.Props.C12
/-!
# C12 (continued) — the aligner's contract is satisfiable: a reference gap-affine aligner, proved optimal

`realign_record` is conditional on `AlignerContract al` (the foreign aligner returns a valid end-to-end alignment whose cost
under the penalties of `Cigar.cost` — mismatch 4 per base, a gap of length L costs 6 + 2·L — is minimal among all valid
alignments).  A theorem conditional on a contract nothing satisfies would say nothing, so this file exhibits an aligner that
meets it: `optFrom` is the three-state (Gotoh) recursion over single columns, `optCost` its value from the "previous column
was a match/mismatch" state, and `optAlign` a CIGAR that attains it.

* `optCost_le`          — no valid alignment is cheaper than `optCost` (for run-length CIGARs as `Cigar.cost` charges them:
                          two adjacent runs of the same gap kind pay the opening twice, which only makes them dearer);
* `optAlign_aligns`     — `optAlign ref q` is a valid end-to-end alignment;
* `optAlign_cost`       — its cost is `optCost ref q`;
* `contract_satisfiable`— therefore `AlignerContract optAlign`.
-/
namespace Gaftools.C12
open Gaftools.Gaf Gaftools.Cigar Gaftools.Spec.Align

/-- kind of the previous alignment column -/
inductive Last where
  | m | i | d
deriving DecidableEq, Repr

/-- cost of one more inserted / deleted base after a column of kind `s`: extension 2, plus opening 6 unless the gap continues -/
def insC : Last → Nat
  | .i => 2
  | _ => 8
def delC : Last → Nat
  | .d => 2
  | _ => 8

/-- cheapest completion of an alignment of `q` against `ref` when the previous column was of kind `s` -/
def optFrom : Last → List Char → List Char → Nat
  | _, [], [] => 0
  | s, _ :: r, [] => delC s + optFrom .d r []
  | s, [], _ :: q => insC s + optFrom .i [] q
  | s, a :: r, b :: q =>
    min ((if a = b then 0 else 4) + optFrom .m r q)
      (min (delC s + optFrom .d r (b :: q)) (insC s + optFrom .i (a :: r) q))
termination_by _ r q => r.length + q.length

/-- optimal gap-affine cost of a global alignment of `q` against `ref` -/
def optCost (ref q : List Char) : Nat := optFrom .m ref q

/-- the columns of one optimal alignment, as single-base operations ('=' 'X' 'I' 'D'), choosing among equal costs in the
    order substitution, deletion, insertion -/
def optCols : Last → List Char → List Char → List Char
  | _, [], [] => []
  | _, _ :: r, [] => 'D' :: optCols .d r []
  | _, [], _ :: q => 'I' :: optCols .i [] q
  | s, a :: r, b :: q =>
    let cm := (if a = b then 0 else 4) + optFrom .m r q
    let cd := delC s + optFrom .d r (b :: q)
    let ci := insC s + optFrom .i (a :: r) q
    if cm ≤ cd ∧ cm ≤ ci then (if a = b then '=' else 'X') :: optCols .m r q
    else if cd ≤ ci then 'D' :: optCols .d r (b :: q)
    else 'I' :: optCols .i (a :: r) q
termination_by _ r q => r.length + q.length

/-- run-length encoding of a column string -/
def rle : List Char → List Op
  | [] => []
  | c :: cs =>
    match rle cs with
    | (n, c') :: rest => if c = c' then (n + 1, c) :: rest else (1, c) :: (n, c') :: rest
    | [] => [(1, c)]

/-- the reference aligner -/
def optAlign (ref q : List Char) : List Op := rle (optCols .m ref q)

/-! ## column strings: validity and cost -/

/-- the state a column leaves behind -/
def kind (c : Char) : Last := if c = 'I' then .i else if c = 'D' then .d else .m

/-- cost of the column `c` after a column of kind `s` -/
def stepC (s : Last) (c : Char) : Nat :=
  if c = 'I' then insC s else if c = 'D' then delC s else if c = 'X' then 4 else 0

/-- cost of a column string entered from state `s` (a gap pays its opening once per maximal run) -/
def colCost : Last → List Char → Nat
  | _, [] => 0
  | s, c :: cs => stepC s c + colCost (kind c) cs

/-- `ColAl r q cs`: the single-base columns `cs` are an end-to-end alignment of `q` against `r` -/
inductive ColAl : List Char → List Char → List Char → Prop
  | nil : ColAl [] [] []
  | eq (a : Char) {r q cs} : ColAl r q cs → ColAl (a :: r) (a :: q) ('=' :: cs)
  | mis (a b : Char) {r q cs} : a ≠ b → ColAl r q cs → ColAl (a :: r) (b :: q) ('X' :: cs)
  | ins (b : Char) {r q cs} : ColAl r q cs → ColAl r (b :: q) ('I' :: cs)
  | del (a : Char) {r q cs} : ColAl r q cs → ColAl (a :: r) q ('D' :: cs)

@[simp] theorem kind_eq : kind '=' = .m := rfl
@[simp] theorem kind_X : kind 'X' = .m := rfl
@[simp] theorem kind_I : kind 'I' = .i := rfl
@[simp] theorem kind_D : kind 'D' = .d := rfl
@[simp] theorem stepC_eq (s : Last) : stepC s '=' = 0 := rfl
@[simp] theorem stepC_X (s : Last) : stepC s 'X' = 4 := rfl
@[simp] theorem stepC_I (s : Last) : stepC s 'I' = insC s := rfl
@[simp] theorem stepC_D (s : Last) : stepC s 'D' = delC s := rfl
@[simp] theorem colCost_nil (s : Last) : colCost s [] = 0 := by rw [colCost]
@[simp] theorem colCost_cons (s : Last) (c : Char) (cs : List Char) :
    colCost s (c :: cs) = stepC s c + colCost (kind c) cs := by rw [colCost]

theorem insC_le (s : Last) : insC s ≤ 8 := by cases s <;> simp [insC]
theorem delC_le (s : Last) : delC s ≤ 8 := by cases s <;> simp [delC]

/-- the recursion is a lower bound for every column-level alignment -/
theorem optFrom_le_colCost {r q cs : List Char} (h : ColAl r q cs) : ∀ s, optFrom s r q ≤ colCost s cs := by
  induction h with
  | nil => intro s; simp [optFrom]
  | eq a h ih =>
    intro s
    have := ih .m
    rw [optFrom]; simp only [colCost_cons, stepC_eq, kind_eq, if_true]; omega
  | mis a b hab h ih =>
    intro s
    have := ih .m
    rw [optFrom]; simp only [colCost_cons, stepC_X, kind_X, if_neg hab]; omega
  | @ins b r q cs h ih =>
    intro s
    have := ih .i
    cases r with
    | nil => rw [optFrom]; simp only [colCost_cons, stepC_I, kind_I]; omega
    | cons a r => rw [optFrom]; simp only [colCost_cons, stepC_I, kind_I]; omega
  | @del a r q cs h ih =>
    intro s
    have := ih .d
    cases q with
    | nil => rw [optFrom]; simp only [colCost_cons, stepC_D, kind_D]; omega
    | cons b q => rw [optFrom]; simp only [colCost_cons, stepC_D, kind_D]; omega

/-- `optCols` is a column-level alignment attaining the recursion's value -/
theorem optCols_spec (s : Last) (r q : List Char) :
    ColAl r q (optCols s r q) ∧ colCost s (optCols s r q) = optFrom s r q := by
  induction s, r, q using optCols.induct with
  | case1 s => rw [optCols, optFrom]; exact ⟨ColAl.nil, by simp⟩
  | case2 s a r ih =>
    rw [optCols, optFrom]
    exact ⟨ColAl.del a ih.1, by simp [ih.2]⟩
  | case3 s b q ih =>
    rw [optCols, optFrom]
    exact ⟨ColAl.ins b ih.1, by simp [ih.2]⟩
  | case4 s a r b q cm cd ci hc ih =>
    simp only [cm, cd, ci, dite_eq_ite] at hc
    rw [optCols, optFrom, if_pos hc]
    by_cases hab : a = b
    · subst hab
      simp only [if_true] at hc ⊢
      exact ⟨ColAl.eq a ih.1, by simp [ih.2]; omega⟩
    · simp only [if_neg hab] at hc ⊢
      exact ⟨ColAl.mis a b hab ih.1, by simp [ih.2]; omega⟩
  | case5 s a r b q cm cd ci hc hd ih =>
    simp only [cm, cd, ci, dite_eq_ite] at hc hd
    rw [optCols, optFrom, if_neg hc, if_pos hd]
    exact ⟨ColAl.del a ih.1, by simp [ih.2]; omega⟩
  | case6 s a r b q cm cd ci hc hd ih =>
    simp only [cm, cd, ci, dite_eq_ite] at hc hd
    rw [optCols, optFrom, if_neg hc, if_neg hd]
    exact ⟨ColAl.ins b ih.1, by simp [ih.2]; omega⟩

/-! ## from run-length operations to columns -/

/-- the column string of a run-length CIGAR -/
def expand (ops : List Op) : List Char := ops.flatMap (fun o => List.replicate o.1 o.2)

@[simp] theorem expand_nil : expand [] = [] := rfl
@[simp] theorem expand_cons (n : Nat) (c : Char) (ops : List Op) :
    expand ((n, c) :: ops) = List.replicate n c ++ expand ops := by simp [expand]

theorem colAl_eq_run (s : List Char) {r q cs : List Char} (h : ColAl r q cs) :
    ColAl (s ++ r) (s ++ q) (List.replicate s.length '=' ++ cs) := by
  induction s with
  | nil => simpa using h
  | cons a s ih => simpa [List.replicate_succ] using ColAl.eq a ih

theorem colAl_mis_run {r q cs : List Char} (h : ColAl r q cs) :
    ∀ (a b : List Char), a.length = b.length →
      (∀ i (h1 : i < a.length) (h2 : i < b.length), a[i] ≠ b[i]) →
      ColAl (a ++ r) (b ++ q) (List.replicate a.length 'X' ++ cs) := by
  intro a
  induction a with
  | nil => intro b hl _; cases b with
    | nil => simpa using h
    | cons y b => simp at hl
  | cons x a ih =>
    intro b hl hd
    cases b with
    | nil => simp at hl
    | cons y b =>
      have h0 : x ≠ y := hd 0 (Nat.zero_lt_succ _) (Nat.zero_lt_succ _)
      have ht := ih b (by simpa using hl) (fun i h1 h2 =>
        hd (i + 1) (Nat.succ_lt_succ h1) (Nat.succ_lt_succ h2))
      simpa [List.replicate_succ] using ColAl.mis x y h0 ht

theorem colAl_ins_run (b : List Char) {r q cs : List Char} (h : ColAl r q cs) :
    ColAl r (b ++ q) (List.replicate b.length 'I' ++ cs) := by
  induction b with
  | nil => simpa using h
  | cons y b ih => simpa [List.replicate_succ] using ColAl.ins y ih

theorem colAl_del_run (a : List Char) {r q cs : List Char} (h : ColAl r q cs) :
    ColAl (a ++ r) q (List.replicate a.length 'D' ++ cs) := by
  induction a with
  | nil => simpa using h
  | cons x a ih => simpa [List.replicate_succ] using ColAl.del x ih

/-- a valid run-length alignment expands to a valid column-level alignment -/
theorem colAl_of_aligns {r q : List Char} {ops : List Op} (h : Aligns r q ops) : ColAl r q (expand ops) := by
  induction h with
  | nil => exact ColAl.nil
  | eq s h hs ih => rw [expand_cons]; exact colAl_eq_run s ih
  | mis a b h hl ha hd ih => rw [expand_cons]; exact colAl_mis_run ih a b hl hd
  | ins b h hb ih => rw [expand_cons]; exact colAl_ins_run b ih
  | del a h ha ih => rw [expand_cons]; exact colAl_del_run a ih

/-- what `cost` charges for one run -/
def opCost (o : Op) : Nat := if o.2 == 'X' then 4 * o.1 else if o.2 == 'I' || o.2 == 'D' then 6 + 2 * o.1 else 0

theorem cost_cons (o : Op) (ops : List Op) : cost (o :: ops) = opCost o + cost ops := by
  simp [cost, opCost]

@[simp] theorem cost_nil : cost [] = 0 := rfl

theorem colCost_run_cont (n : Nat) (c : Char) (rest : List Char) (K : Nat) (hK : ∀ s, colCost s rest ≤ K) :
    colCost (kind c) (List.replicate n c ++ rest) ≤ n * stepC (kind c) c + K := by
  induction n with
  | zero => simpa using hK (kind c)
  | succ n ih =>
    simp only [List.replicate_succ, List.cons_append, colCost_cons, Nat.succ_mul]
    omega

/-- a run of columns costs no more than `cost` charges for it, whatever follows and whatever came before -/
theorem colCost_run_le (n : Nat) (c : Char) (rest : List Char) (K : Nat) (hK : ∀ s, colCost s rest ≤ K) (s : Last) :
    colCost s (List.replicate n c ++ rest) ≤ opCost (n, c) + K := by
  cases n with
  | zero => have := hK s; simp; omega
  | succ n =>
    have h := colCost_run_cont n c rest K hK
    simp only [List.replicate_succ, List.cons_append, colCost_cons]
    by_cases hI : c = 'I'
    · subst hI
      have := insC_le s
      have h2 : insC .i = 2 := rfl
      simp [opCost, h2] at h ⊢; omega
    · by_cases hD : c = 'D'
      · subst hD
        have := delC_le s
        have h2 : delC .d = 2 := rfl
        simp [opCost, h2] at h ⊢; omega
      · by_cases hX : c = 'X'
        · subst hX
          simp [opCost] at h ⊢; omega
        · simp [opCost, stepC, kind, hI, hD, hX] at h ⊢; omega

/-- the expansion of a run-length CIGAR costs, column by column, no more than `cost` charges -/
theorem colCost_expand_le (ops : List Op) : ∀ s, colCost s (expand ops) ≤ cost ops := by
  induction ops with
  | nil => intro s; simp
  | cons o ops ih =>
    intro s
    obtain ⟨n, c⟩ := o
    rw [expand_cons, cost_cons]
    exact colCost_run_le n c _ _ ih s

theorem optCost_le (ref q : List Char) (ops : List Op) (h : Aligns ref q ops) : optCost ref q ≤ cost ops :=
  Nat.le_trans (optFrom_le_colCost (colAl_of_aligns h) .m) (colCost_expand_le ops .m)

/-! ## run-length encoding of a column string -/

/-- one more column in front of a run-length CIGAR -/
def push (c : Char) : List Op → List Op
  | (n, c') :: rest => if c = c' then (n + 1, c) :: rest else (1, c) :: (n, c') :: rest
  | [] => [(1, c)]

theorem rle_cons (c : Char) (cs : List Char) : rle (c :: cs) = push c (rle cs) := by
  rw [rle]; cases rle cs <;> rfl

theorem cigarValid_cons (ref q : List Char) (n : Nat) (c : Char) (ops : List Op) :
    cigarValid ref q ((n, c) :: ops) = (decide (n > 0) &&
    (if c == '=' then
       decide (n ≤ ref.length) && decide (n ≤ q.length) && ref.take n == q.take n && cigarValid (ref.drop n) (q.drop n) ops
     else if c == 'X' then
       decide (n ≤ ref.length) && decide (n ≤ q.length) && (List.zip (ref.take n) (q.take n)).all (fun p => p.1 != p.2) &&
       cigarValid (ref.drop n) (q.drop n) ops
     else if c == 'I' then decide (n ≤ q.length) && cigarValid ref (q.drop n) ops
     else if c == 'D' then decide (n ≤ ref.length) && cigarValid (ref.drop n) q ops
     else false)) := by rw [cigarValid]

theorem cigarValid_nil (ref q : List Char) : cigarValid ref q [] = true ↔ ref = [] ∧ q = [] := by
  cases ref <;> cases q <;> simp [cigarValid]

theorem cv_push_eq (a : Char) (r q : List Char) (ops : List Op) (h : cigarValid r q ops = true) :
    cigarValid (a :: r) (a :: q) (push '=' ops) = true := by
  cases ops with
  | nil =>
    obtain ⟨rfl, rfl⟩ := (cigarValid_nil r q).1 h
    simp [push, cigarValid_cons, cigarValid]
  | cons o ops =>
    obtain ⟨n, c⟩ := o
    by_cases hc : '=' = c
    · subst hc
      simp only [push, if_true]
      rw [cigarValid_cons] at h ⊢
      simp at h ⊢
      exact h.2
    · simp only [push, if_neg hc]
      rw [cigarValid_cons]
      simpa using h

theorem cv_push_X (a b : Char) (hab : a ≠ b) (r q : List Char) (ops : List Op) (h : cigarValid r q ops = true) :
    cigarValid (a :: r) (b :: q) (push 'X' ops) = true := by
  cases ops with
  | nil =>
    obtain ⟨rfl, rfl⟩ := (cigarValid_nil r q).1 h
    simp [push, cigarValid_cons, cigarValid, hab]
  | cons o ops =>
    obtain ⟨n, c⟩ := o
    by_cases hc : 'X' = c
    · subst hc
      simp only [push, if_true]
      rw [cigarValid_cons] at h ⊢
      simp at h ⊢
      exact ⟨⟨⟨h.2.1.1.1, h.2.1.1.2⟩, hab, h.2.1.2⟩, h.2.2⟩
    · simp only [push, if_neg hc]
      rw [cigarValid_cons]
      simpa [hab] using h

theorem cv_push_I (b : Char) (r q : List Char) (ops : List Op) (h : cigarValid r q ops = true) :
    cigarValid r (b :: q) (push 'I' ops) = true := by
  cases ops with
  | nil =>
    obtain ⟨rfl, rfl⟩ := (cigarValid_nil r q).1 h
    simp [push, cigarValid_cons, cigarValid]
  | cons o ops =>
    obtain ⟨n, c⟩ := o
    by_cases hc : 'I' = c
    · subst hc
      simp only [push, if_true]
      rw [cigarValid_cons] at h ⊢
      simp at h ⊢
      exact h.2
    · simp only [push, if_neg hc]
      rw [cigarValid_cons]
      simpa using h

theorem cv_push_D (a : Char) (r q : List Char) (ops : List Op) (h : cigarValid r q ops = true) :
    cigarValid (a :: r) q (push 'D' ops) = true := by
  cases ops with
  | nil =>
    obtain ⟨rfl, rfl⟩ := (cigarValid_nil r q).1 h
    simp [push, cigarValid_cons, cigarValid]
  | cons o ops =>
    obtain ⟨n, c⟩ := o
    by_cases hc : 'D' = c
    · subst hc
      simp only [push, if_true]
      rw [cigarValid_cons] at h ⊢
      simp at h ⊢
      exact h.2
    · simp only [push, if_neg hc]
      rw [cigarValid_cons]
      simpa using h

/-- the run-length encoding of a column-level alignment passes the checker -/
theorem cigarValid_rle {r q cs : List Char} (h : ColAl r q cs) : cigarValid r q (rle cs) = true := by
  induction h with
  | nil => simp [rle, cigarValid]
  | eq a h ih => rw [rle_cons]; exact cv_push_eq a _ _ _ ih
  | mis a b hab h ih => rw [rle_cons]; exact cv_push_X a b hab _ _ _ ih
  | ins b h ih => rw [rle_cons]; exact cv_push_I b _ _ _ ih
  | del a h ih => rw [rle_cons]; exact cv_push_D a _ _ _ ih

theorem rle_cons_head (c : Char) (cs : List Char) : ∃ n rest, rle (c :: cs) = (n + 1, c) :: rest := by
  induction cs generalizing c with
  | nil => exact ⟨0, [], rfl⟩
  | cons c' cs ih =>
    obtain ⟨n, rest, h⟩ := ih c'
    rw [rle_cons, h]
    by_cases hc : c = c'
    · exact ⟨n + 1, rest, by simp [push, hc]⟩
    · exact ⟨0, (n + 1, c') :: rest, by simp [push, hc]⟩

theorem opCost_one (c : Char) : opCost (1, c) = stepC .m c := by
  by_cases hI : c = 'I'
  · subst hI; rfl
  · by_cases hD : c = 'D'
    · subst hD; rfl
    · by_cases hX : c = 'X'
      · subst hX; rfl
      · simp [opCost, stepC, hI, hD, hX]

theorem opCost_succ (n : Nat) (c : Char) : opCost (n + 1 + 1, c) = opCost (n + 1, c) + stepC (kind c) c := by
  by_cases hI : c = 'I'
  · subst hI; have h2 : insC .i = 2 := rfl; simp [opCost, h2]; omega
  · by_cases hD : c = 'D'
    · subst hD; have h2 : delC .d = 2 := rfl; simp [opCost, h2]; omega
    · by_cases hX : c = 'X'
      · subst hX; simp [opCost]; omega
      · simp [opCost, stepC, hI, hD, hX]

theorem stepC_kind_ne (c c' : Char) (h : c ≠ c') : stepC (kind c) c' = stepC .m c' := by
  by_cases hI : c' = 'I'
  · subst hI; simp only [stepC_I, kind, if_neg h]; split <;> rfl
  · by_cases hD : c' = 'D'
    · subst hD; simp only [stepC_D, kind, if_neg h]; split <;> rfl
    · simp [stepC, hI, hD]

/-- `cost` of the run-length encoding is the column-level cost: `rle` merges maximal runs, so every gap opens once -/
theorem cost_rle_cons (cs : List Char) : ∀ c, cost (rle (c :: cs)) = stepC .m c + colCost (kind c) cs := by
  induction cs with
  | nil => intro c; simp [rle, cost_cons, opCost_one]
  | cons c' cs ih =>
    intro c
    obtain ⟨n, rest, h⟩ := rle_cons_head c' cs
    have ih' := ih c'
    rw [h, cost_cons] at ih'
    rw [rle_cons, h, colCost_cons]
    by_cases hc : c = c'
    · subst hc
      simp only [push, if_true]
      rw [cost_cons, opCost_succ]
      omega
    · simp only [push, if_neg hc]
      rw [cost_cons, cost_cons, opCost_one, stepC_kind_ne c c' hc]
      omega

theorem cost_rle (cs : List Char) : cost (rle cs) = colCost .m cs := by
  cases cs with
  | nil => simp [rle]
  | cons c cs => rw [cost_rle_cons, colCost_cons]

theorem optAlign_aligns (ref q : List Char) : Aligns ref q (optAlign ref q) :=
  (cigarValid_iff ref q _).1 (cigarValid_rle (optCols_spec .m ref q).1)

theorem optAlign_cost (ref q : List Char) : cost (optAlign ref q) = optCost ref q := by
  rw [optAlign, cost_rle, (optCols_spec .m ref q).2, optCost]

/-- the contract assumed of the foreign aligner is satisfiable -/
theorem contract_satisfiable : AlignerContract optAlign where
  valid := fun ref q => (cigarValid_iff ref q _).2 (optAlign_aligns ref q)
  optimal := fun ref q ops h => by
    rw [optAlign_cost]
    exact optCost_le ref q ops ((cigarValid_iff ref q ops).1 h)

/-! non-vacuity / sanity -/
#guard optCost "ACGT".toList "ACGT".toList == 0
#guard optCost "ACGT".toList "AGGT".toList == 4
#guard optCost "ACGT".toList "AT".toList == 10
#guard optAlign "ACGT".toList "AT".toList == [(1, '='), (2, 'D'), (1, '=')]
#guard optAlign "ACGTACGT".toList "ACTTAGT".toList == [(2, '='), (1, 'X'), (2, '='), (1, 'D'), (2, '=')]
#guard cost (optAlign "ACGTACGT".toList "ACTTAGT".toList) == optCost "ACGTACGT".toList "ACTTAGT".toList
#guard cigarValid "ACGTACGT".toList "ACTTAGT".toList (optAlign "ACGTACGT".toList "ACTTAGT".toList)

end Gaftools.C12
