import Gaftools.Gen.Decisions
import Gaftools.Model.Sort
import Gaftools.Model.Order
import Gaftools.Model.Cigar
import Gaftools.Model.View
import Gaftools.Model.Stat
/-!
# Tie A (continued) — decision fragments

`Gen/Decisions.lean` is regenerated on every run from the thresholds, comparisons and index choices found in the current
source of `sort.process_alignment`, `order_gfa.decompose_and_order`, `realign.wfa_alignment`, `view.search` and
`stat.run_stat`.  Each theorem below restates a model function with those generated fragments in place of the hand-written
tests; a change of such a test in the source (`>=` for `>`, 50 for 49, `path[1]` for `path[0]` …) makes the theorem fail.
-/
namespace Gaftools.TieA
open Gaftools.Gfa Gaftools.Algo

/-- C08/C09: the tail of `process_alignment` -/
theorem processAlignment_gen (nodes : String → Option Sort.NodeTags) (steps : List Sort.Step) (plen ps pe offset : Int) :
    Sort.processAlignment nodes steps plen ps pe offset =
      match Sort.loop nodes ⟨none, []⟩ steps with
      | .error e => .error e
      | .ok st =>
        let inv : Int := if Gen.sortInv (Sort.countFwd st.orients) (Sort.countRev st.orients) then 1 else 0
        let sn := st.sn.getD "unknown"
        if Gen.sortRev (Sort.countFwd st.orients) (Sort.countRev st.orients) then
          match steps.getLast? with
          | none => .error .emptyPath
          | some s => match nodes s.2 with
            | none => .error .keyError
            | some t => .ok ⟨offset, t.bo, t.no, Gen.sortStartRev plen ps pe, inv, sn⟩
        else
          match steps.head? with
          | none => .error .emptyPath
          | some s => match nodes s.2 with
            | none => .error .keyError
            | some t => .ok ⟨offset, t.bo, t.no, Gen.sortStartFwd plen ps pe, inv, sn⟩ := by
  unfold Sort.processAlignment
  cases h : Sort.loop nodes ⟨none, []⟩ steps with
  | error e => rfl
  | ok st =>
    have h1 : (Sort.countFwd st.orients != 0 && Sort.countRev st.orients != 0) =
        Gen.sortInv (Sort.countFwd st.orients) (Sort.countRev st.orients) := by
      unfold Gen.sortInv
      by_cases a : Sort.countFwd st.orients = 0 <;> by_cases b : Sort.countRev st.orients = 0 <;> simp [a, b]
    have h2 : decide (Sort.countFwd st.orients < Sort.countRev st.orients) =
        Gen.sortRev (Sort.countFwd st.orients) (Sort.countRev st.orients) := by
      unfold Gen.sortRev
      by_cases a : Sort.countFwd st.orients < Sort.countRev st.orients <;> simp [a]
    have h3 : plen - pe = Gen.sortStartRev plen ps pe := by first | rfl | (unfold Gen.sortStartRev; omega)
    have h4 : ps = Gen.sortStartFwd plen ps pe := by first | rfl | (unfold Gen.sortStartFwd; omega)
    simp only [← h1, ← h2, ← h3, ← h4, decide_eq_true_eq]
    first | rfl | (split <;> rfl) | grind

/-- the anchoring step is the last token of the tokenised path in the reverse-majority branch (`path[-1]`) and the first
    node token otherwise (`path[1]`: token 0 is its orientation sign) — `steps.getLast?` / `steps.head?` in the model -/
theorem sortNode_gen : Gen.sortNodeRev = -1 ∧ Gen.sortNodeFwd = 1 := by
  first | exact ⟨rfl, rfl⟩ | decide

/-- C12: the pass-through guard depends on the read interval only (not on the path slice or the fetched read) -/
theorem passThrough_gen (r : Gaf.Rec) (refLen queryLen : Int) : Cigar.passThrough r = Gen.tooLong r.qs r.qe refLen queryLen := by
  unfold Cigar.passThrough Gen.tooLong
  by_cases h : r.qe - r.qs > 60000
  · have : ((r.qe : Int) - (r.qs : Int) > 60000) := by omega
    simp [h, this]
  · have : ¬ ((r.qe : Int) - (r.qs : Int) > 60000) := by omega
    simp [h, this]

set_option linter.unusedSimpArgs false

/-- closes `b₁ = b₂` for Boolean tests over integer / natural arithmetic -/
macro "bool_arith" : tactic => `(tactic|
  first
    | rfl
    | (rw [Bool.eq_iff_iff]
       simp only [decide_eq_true_eq, beq_iff_eq, bne_iff_ne, ne_eq, Bool.not_eq_true', decide_eq_false_iff_not,
         Bool.and_eq_true, Bool.or_eq_true, Bool.not_eq_true, Bool.decide_eq_false]
       first | done | omega))

theorem isDegOne_gen (d : Nat) : Gen.isDegOne d = (d == 1) := by unfold Gen.isDegOne; bool_arith
theorem isDegTwo_gen (d : Nat) : Gen.isDegTwo d = (d == 2) := by unfold Gen.isDegTwo; bool_arith
theorem censusOne_gen (n : Nat) : (!Gen.censusOne n) = (n != 2) := by unfold Gen.censusOne; bool_arith
theorem censusTwo_gen (n t : Nat) (ht : 2 ≤ t) : (!Gen.censusTwo n t) = (n != t - 2) := by unfold Gen.censusTwo; bool_arith
theorem mixedSN_gen (k : Nat) : Gen.mixedSN k = (k != 1) := by unfold Gen.mixedSN; bool_arith
theorem needsReverse_gen (a b : Int) : Gen.needsReverse a b = decide (a > b) := by unfold Gen.needsReverse; bool_arith
theorem notIncreasing_gen (x y : Int) : Gen.notIncreasing x y = !decide (x < y) := by unfold Gen.notIncreasing; bool_arith

/-- C06/C18: every test of `decompose_and_order` after the scaffold graph is built -/
theorem finishScaffold_gen (s : Order.Scaffold) (aps : List V) (so : V → Option Int) (sn : V → Option String) :
    Order.finishScaffold s aps so sn =
      (let deg (e : Order.Elt) := (s.nbrs e).length
       let one := s.elts.filter (fun e => Gen.isDegOne (deg e))
       let two := s.elts.filter (fun e => Gen.isDegTwo (deg e))
       if !Gen.censusOne one.length then .skipped .degreeOne
       else if !Gen.censusTwo two.length s.elts.length then .skipped .degreeTwo
       else
         let trav := Order.scaffoldDfs s (one.headD (Order.Elt.bubble 0))
         let scaf := trav.filterMap (fun e => match e with | .scaffold id => some id | _ => none)
         if Gen.mixedSN ((scaf.map sn).eraseDups).length then .skipped .mixedSN
         else
           match scaf.mapM so with
           | none => .crash "SO missing"
           | some coords =>
             let rev := match coords.head?, coords.getLast? with
               | some a, some b => Gen.needsReverse a b
               | _, _ => false
             let trav := if rev then trav.reverse else trav
             let coords := if rev then coords.reverse else coords
             if !(List.zip coords coords.tail).all (fun p => !Gen.notIncreasing p.1 p.2) then .skipped .notIncreasing
             else .ok ⟨aps, s.bubbles.flatten, Order.numberChain s trav, trav.length, s.bubbles.length⟩) := by
  unfold Order.finishScaffold
  simp only [isDegOne_gen, isDegTwo_gen, censusOne_gen, mixedSN_gen, needsReverse_gen, notIncreasing_gen, Bool.not_not]
  by_cases h1 : (s.elts.filter (fun e => (s.nbrs e).length == 1)).length = 2
  · have ht : 2 ≤ s.elts.length := by
      have := List.length_filter_le (fun e => (s.nbrs e).length == 1) s.elts
      omega
    simp only [censusTwo_gen _ _ ht]
    rfl
  · simp [h1]

/-- C06: the NO numbers -/
theorem numberChain_gen (s : Order.Scaffold) (trav : List Order.Elt) :
    Order.numberChain s trav =
      trav.zipIdx.flatMap (fun (e, k) => match e with
        | .scaffold id => [(id, k, Gen.scaffoldNo)]
        | .bubble i => (sortStrings (s.bubbles.getD i [])).zipIdx.map (fun (n, j) => (n, k, Gen.bubbleNo j))) := by
  first | rfl | (unfold Order.numberChain Gen.scaffoldNo Gen.bubbleNo; simp)

/-- C05: the region filter of `view.search` -/
theorem regionHit_gen (so en a b : Int) : Gen.regionHit so en a b = decide (so ≤ b ∧ a < en) := by
  unfold Gen.regionHit; bool_arith

theorem regionNodes_gen (idx : List (View.Key × List Nat)) (c : String) (a b : Int) :
    View.regionNodes idx c a b =
      ((((idx.map (·.1)).filter (fun k => k.2.1 == c)).foldl (fun acc k => View.regionNodes.insK k acc) []).filter
        (fun k => Gen.regionHit k.2.2.1 k.2.2.2 a b)).map (·.1) := by
  unfold View.regionNodes
  simp only [regionHit_gen]

/-- C19: thresholds of the CIGAR statistics -/
theorem large_gen (n : Nat) : Gen.largeDel n = decide (n ≥ 50) ∧ Gen.largeIns n = decide (n ≥ 50) ∧
    Gen.largeSub n = decide (n ≥ 50) ∧ Gen.largeMatch n = decide (n ≥ 50) := by
  refine ⟨?_, ?_, ?_, ?_⟩
  · unfold Gen.largeDel; bool_arith
  · unfold Gen.largeIns; bool_arith
  · unfold Gen.largeSub; bool_arith
  · unfold Gen.largeMatch; bool_arith

theorem bump_gen (c : Stat.CigarCounts) (p : Gaf.Str × Gaf.Str) :
    Stat.bump c p =
      (if p.2 == ['D'] then { c with del := c.del + 1, delL := c.delL + (if Gen.largeDel (Gaf.toNat p.1) then 1 else 0) }
       else if p.2 == ['I'] then { c with ins := c.ins + 1, insL := c.insL + (if Gen.largeIns (Gaf.toNat p.1) then 1 else 0) }
       else if p.2 == ['X'] then { c with x := c.x + 1, xL := c.xL + (if Gen.largeSub (Gaf.toNat p.1) then 1 else 0) }
       else if p.2 == ['='] then { c with m := c.m + 1, mL := c.mL + (if Gen.largeMatch (Gaf.toNat p.1) then 1 else 0) }
       else c) := by
  unfold Stat.bump
  simp only [(large_gen _).1, (large_gen _).2.1, (large_gen _).2.2.1, (large_gen _).2.2.2, decide_eq_true_eq]

theorem perfectTokens_gen (k : Nat) : Gen.perfectTokens k = (k == 2) := by unfold Gen.perfectTokens; bool_arith

theorem cigarStep_gen (c : Stat.CigarCounts) (cigar : Gaf.Str) :
    Stat.cigarStep c cigar =
      (let toks := Stat.groupDigits cigar
       let c' := if Gen.perfectTokens toks.length then { c with perfect := c.perfect + 1 } else c
       (Stat.cigarPairs toks).foldl Stat.bump c') := by
  unfold Stat.cigarStep
  simp only [perfectTokens_gen]

end Gaftools.TieA
