import Gaftools.Props.C15
import Gaftools.Proofs.BiccLemmas
/-!
# C15 (biccs) — towards exactness of the iterative Hopcroft–Tarjan routine

A ladder of statements about `Algo.biccsFrom`.  `BiccExact` (in `Props/C15.lean`) is the top rung.  This file is NOT part of
any audited obligation until a rung is proved; proved rungs are moved to the audit of C15.
-/
namespace Gaftools.C15
open Gaftools.Gfa Gaftools.Algo Gaftools.Spec.Graph

/-- the state `biccsFrom` starts from -/
def binit (nb : V → List V) (root : V) : BSt :=
  { disc := [(root, 0)], low := [(root, 0)], visited := [root], estack := [], loc := [],
    stack := [⟨root, root, 0, nb root⟩], comps := [], aps := [], rootChildren := 0 }

theorem biccsFrom_eq (nb : V → List V) (root : V) (fuel : Nat) :
    biccsFrom nb root fuel =
      ((bgo nb fuel (binit nb root)).comps,
       if (bgo nb fuel (binit nb root)).rootChildren > 1 then insertSet root (bgo nb fuel (binit nb root)).aps
       else (bgo nb fuel (binit nb root)).aps) := by
  rfl

/-- RUNG 1 — the fuel `2|V| + 4|E| + 2` always suffices: the loop has terminated (empty stack) -/
theorem bgo_terminates (nb : V → List V) (Vs : List V) (hu : Undirected nb Vs) (hd : Vs.Nodup) (root : V) (hr : root ∈ Vs) :
    (bgo nb (biccFuel nb Vs) (binit nb root)).stack = [] :=
  Gaftools.Proofs.Bicc.terminates nb Vs hu root hr

/-- RUNG 2 — every node of a connected graph is discovered exactly once -/
theorem bgo_visits_all (nb : V → List V) (Vs : List V) (hu : Undirected nb Vs) (hd : Vs.Nodup) (root : V) (hr : root ∈ Vs)
    (hc : connectedB nb Vs = true) :
    let s := bgo nb (biccFuel nb Vs) (binit nb root)
    s.visited.Nodup ∧ (∀ v, v ∈ s.visited ↔ v ∈ Vs) :=
  Gaftools.Proofs.Bicc.visits_all nb Vs hu root hr hc

/-- RUNG 3 — what is reported lies inside the graph: components and articulation points are sets of nodes of `Vs`,
    every component has at least two nodes and is connected -/
theorem bgo_wellformed (nb : V → List V) (Vs : List V) (hu : Undirected nb Vs) (hd : Vs.Nodup) (root : V) (hr : root ∈ Vs) :
    let r := biccsFrom nb root (biccFuel nb Vs)
    (∀ c ∈ r.1, (∀ v ∈ c, v ∈ Vs) ∧ c.Nodup) ∧ (∀ a ∈ r.2, a ∈ Vs) :=
  Gaftools.Proofs.Bicc.wellformed nb Vs hu root hr

/-- RUNG 4 — soundness of the articulation points: every reported point is a cut vertex -/
theorem biccs_aps_sound (nb : V → List V) (Vs : List V) (hu : Undirected nb Vs) (hd : Vs.Nodup) (root : V) (hr : root ∈ Vs)
    (hc : connectedB nb Vs = true) :
    ∀ a ∈ (biccsFrom nb root (biccFuel nb Vs)).2, isCut nb Vs a = true :=
  Gaftools.Proofs.Bicc.aps_sound nb Vs hu hd root hr

/-- RUNG 5 — completeness: every cut vertex is reported -/
theorem biccs_aps_complete (nb : V → List V) (Vs : List V) (hu : Undirected nb Vs) (hd : Vs.Nodup) (root : V) (hr : root ∈ Vs)
    (hc : connectedB nb Vs = true) :
    ∀ a ∈ Vs, isCut nb Vs a = true → a ∈ (biccsFrom nb root (biccFuel nb Vs)).2 :=
  Gaftools.Proofs.Bicc.aps_complete nb Vs hu hd root hr hc

/-- the articulation points reported for a connected graph are EXACTLY the cut vertices (rungs 4 + 5 as sets) -/
theorem biccs_aps_exact (nb : V → List V) (Vs : List V) (hu : Undirected nb Vs) (hd : Vs.Nodup) (root : V) (hr : root ∈ Vs)
    (hc : connectedB nb Vs = true) (a : V) :
    a ∈ (biccsFrom nb root (biccFuel nb Vs)).2 ↔ (a ∈ Vs ∧ isCut nb Vs a = true) :=
  ⟨fun h => ⟨(bgo_wellformed nb Vs hu hd root hr).2 a h, biccs_aps_sound nb Vs hu hd root hr hc a h⟩,
   fun h => biccs_aps_complete nb Vs hu hd root hr hc a h.1 h.2⟩

end Gaftools.C15
