import Gaftools.Spec.Gaf
import Gaftools.Proofs.GafLemmas
/-!
# C16 — GAF optional fields survive parsing and re-serialisation verbatim
-/
namespace Gaftools.C16
open Gaftools.Gaf Gaftools.Spec.Gaf Gaftools.Proofs.Gaf

/-- `%d` of `int()` reproduces a canonical decimal -/
theorem dec_toNat (s : Str) (h : canonDec s = true) : dec (toNat s) = s := by
  exact dec_toNat' s h

/-- `int()` of `%d` -/
theorem toNat_dec (n : Nat) : toNat (dec n) = n := by
  exact toNat_dec' n

/-- the line layer: right-strip and tab-split of a printed well-formed record gives its fields back -/
theorem split_join (fs : List Str) (h : wfFields fs = true) (nl : Str) (hnl : nl = [] ∨ nl = ['\n']) :
    splitTab (rstrip (joinTab fs ++ nl)) = fs := by
  exact split_join' fs h nl hnl

/-- a well-formed record always parses -/
theorem parse_isSome (fs : List Str) (h : wfFields fs = true) : (parseFields fs).isSome = true := by
  have := print_parse_K1' fs h
  cases hp : parseFields fs with
  | none => rw [hp] at this; cases this
  | some r => rfl

/-- MAIN: print ∘ parse reproduces the record — read name cut at the first space, columns 2–12 verbatim, every
    optional field verbatim and in the original order, only `ds:Z:` dropped — provided no TAG:TYPE repeats -/
theorem print_parse (fs : List Str) (h : wfFields fs = true) (hr : noRepeatedTag fs = true) :
    (parseFields fs).map printFields = some (expected fs) := by
  rw [print_parse_K1' fs h, expectedK1_eq' fs hr]

/-- no optional field is invented (holds with repeated tags too; in particular no empty `cg:Z:` for a record without CIGAR) -/
theorem no_invented_field (fs : List Str) (h : wfFields fs = true) (r : Rec) (hp : parseFields fs = some r) :
    ∀ f ∈ (printFields r).drop 12, f ∈ fs.drop 12 := by
  exact no_invented_field' fs h r hp

/-- with repeated tags the behaviour is exactly the recorded known finding K1 (first occurrence kept; cg:Z: keeps its
    first position and last value) -/
theorem print_parse_K1 (fs : List Str) (h : wfFields fs = true) :
    (parseFields fs).map printFields = some (expectedK1 fs) := by
  exact print_parse_K1' fs h

/-- consistency of the two expectations on the quantified domain -/
theorem expectedK1_eq (fs : List Str) (hr : noRepeatedTag fs = true) : expectedK1 fs = expected fs := by
  exact expectedK1_eq' fs hr

/-- whole-line statement -/
theorem print_parse_line (fs : List Str) (h : wfFields fs = true) (hr : noRepeatedTag fs = true) :
    (parseLine (joinTab fs ++ ['\n'])).map printRec = some (joinTab (expected fs)) := by
  unfold parseLine
  rw [split_join' fs h ['\n'] (Or.inr rfl), Option.map_congr (f := printRec) (g := joinTab ∘ printFields) (fun _ _ => rfl),
    ← Option.map_map, print_parse_K1' fs h, expectedK1_eq' fs hr]
  rfl

/-! non-vacuity -/
def exLine : List Str := ["r1 extra", "100", "0", "100", "+", ">s1<s2", "3293", "0", "100", "97", "100", "60",
  "tp:A:P", "NM:i:-3", "dv:f:1e-05", "ds:Z:=ACG*at", "XX:Z:foo_bar baz", "cg:Z:97=3X", "BB:B:i,1,2", "zz:Z:a:b"].map String.toList
example : wfFields exLine = true := by decide
example : noRepeatedTag exLine = true := by decide
example : (parseFields exLine).map printFields = some (expected exLine) := by decide
example : (expected exLine).length = 19 := by decide

end Gaftools.C16
