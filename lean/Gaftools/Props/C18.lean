import Gaftools.Model.Order
/-!
# C18 — order_gfa isolates components it cannot order
# C06 — (part) BO ranges of the chromosomes, numbering of a chain

`dec c` is the (offset-free) outcome of `decompose_and_order` for chromosome `c`; it does not depend on the running BO
(the Python adds `bo_start` to positions computed from the traversal only), so skipping is a pure filter on the request.
-/
namespace Gaftools.C18
open Gaftools.Algo Gaftools.Order

def isOk (dec : String → Outcome) (c : String) : Bool := match dec c with | .ok _ => true | _ => false
def isSkipped (dec : String → Outcome) (c : String) : Bool := match dec c with | .skipped _ => true | _ => false
def noCrash (dec : String → Outcome) (order : List String) : Prop := ∀ c ∈ order, ∀ w, dec c ≠ .crash w

/-- the chromosome loop from an arbitrary accumulator -/
def go (dec : String → Outcome) (acc : List Written × Int) (order : List String) : Except String (List Written × Int) :=
  order.foldlM (fun (acc : List Written × Int) c =>
    match dec c with
    | .ok l => .ok (acc.1 ++ [⟨c, l.order.map (fun (v, k, no) => (v, acc.2 + (k : Int), (no : Int))), l.aps, l.inside⟩], acc.2 + (l.len : Int))
    | .skipped _ => .ok acc
    | .crash w => .error w) acc

theorem runOrder_eq_go (dec : String → Outcome) (order : List String) : runOrder dec order = go dec ([], 0) order := rfl

theorem go_nil (dec : String → Outcome) (acc : List Written × Int) : go dec acc [] = .ok acc := rfl

theorem go_cons_ok (dec : String → Outcome) (acc : List Written × Int) (c : String) (cs : List String) (l : Local)
    (h : dec c = .ok l) :
    go dec acc (c :: cs) = go dec (acc.1 ++ [⟨c, l.order.map (fun (v, k, no) => (v, acc.2 + (k : Int), (no : Int))), l.aps, l.inside⟩], acc.2 + (l.len : Int)) cs := by
  simp only [go, List.foldlM_cons, h]; rfl

theorem go_cons_skipped (dec : String → Outcome) (acc : List Written × Int) (c : String) (cs : List String) (w : Skip)
    (h : dec c = .skipped w) : go dec acc (c :: cs) = go dec acc cs := by
  simp only [go, List.foldlM_cons, h]; rfl

theorem go_cons_crash (dec : String → Outcome) (acc : List Written × Int) (c : String) (cs : List String) (w : String)
    (h : dec c = .crash w) : go dec acc (c :: cs) = .error w := by
  simp only [go, List.foldlM_cons, h]; rfl

theorem go_skip (dec : String → Outcome) (order : List String) : ∀ acc,
    go dec acc order = go dec acc (order.filter (fun c => !isSkipped dec c)) := by
  induction order with
  | nil => intro acc; rfl
  | cons c cs ih =>
    intro acc
    cases hc : dec c with
    | ok l =>
      have : (fun c => !isSkipped dec c) c = true := by simp [isSkipped, hc]
      rw [List.filter_cons_of_pos (p := fun c => !isSkipped dec c) this, go_cons_ok _ _ _ _ _ hc, go_cons_ok _ _ _ _ _ hc, ih]
    | skipped w =>
      have : ¬ (fun c => !isSkipped dec c) c = true := by simp [isSkipped, hc]
      rw [List.filter_cons_of_neg (p := fun c => !isSkipped dec c) this, go_cons_skipped _ _ _ _ _ hc, ih]
    | crash w =>
      have : (fun c => !isSkipped dec c) c = true := by simp [isSkipped, hc]
      rw [List.filter_cons_of_pos (p := fun c => !isSkipped dec c) this, go_cons_crash _ _ _ _ _ hc, go_cons_crash _ _ _ _ _ hc]

/-- MAIN (C18): every other requested chromosome is ordered and written exactly as it would be if the skipped ones were
    absent from the request (files, tags, BO ranges) -/
theorem skip_isolated (dec : String → Outcome) (order : List String) :
    runOrder dec order = runOrder dec (order.filter (fun c => !isSkipped dec c)) := by
  rw [runOrder_eq_go, runOrder_eq_go]; exact go_skip dec order _

theorem go_total (dec : String → Outcome) (order : List String) : ∀ acc, noCrash dec order →
    ∃ r, go dec acc order = .ok r := by
  induction order with
  | nil => intro acc _; exact ⟨acc, rfl⟩
  | cons c cs ih =>
    intro acc h
    have h' : noCrash dec cs := fun x hx => h x (List.mem_cons_of_mem _ hx)
    cases hc : dec c with
    | ok l => rw [go_cons_ok _ _ _ _ _ hc]; exact ih _ h'
    | skipped w => rw [go_cons_skipped _ _ _ _ _ hc]; exact ih _ h'
    | crash w => exact absurd hc (h c (by simp) w)

/-- the command completes normally whatever subset of the chromosomes cannot be ordered -/
theorem runOrder_total (dec : String → Outcome) (order : List String) (h : noCrash dec order) :
    ∃ r, runOrder dec order = .ok r := by
  exact go_total dec order _ h

/-- what is written for a request, starting at BO `b` -/
def outList (dec : String → Outcome) : Int → List String → List Written
  | _, [] => []
  | b, c :: cs =>
    match dec c with
    | .ok l => ⟨c, l.order.map (fun (v, k, no) => (v, b + (k : Int), (no : Int))), l.aps, l.inside⟩ :: outList dec (b + (l.len : Int)) cs
    | _ => outList dec b cs

theorem go_written (dec : String → Outcome) (order : List String) : ∀ acc r, go dec acc order = .ok r →
    r.1 = acc.1 ++ outList dec acc.2 order := by
  induction order with
  | nil =>
    intro acc r h
    rw [go_nil] at h
    cases h
    simp [outList]
  | cons c cs ih =>
    intro acc r h
    cases hc : dec c with
    | ok l =>
      rw [go_cons_ok _ _ _ _ _ hc] at h
      rw [ih _ _ h]; simp [outList, hc]
    | skipped w =>
      rw [go_cons_skipped _ _ _ _ _ hc] at h
      rw [ih _ _ h]; simp [outList, hc]
    | crash w =>
      rw [go_cons_crash _ _ _ _ _ hc] at h
      cases h

theorem outList_names (dec : String → Outcome) (order : List String) : ∀ b,
    (outList dec b order).map (·.name) = order.filter (isOk dec) := by
  induction order with
  | nil => intro b; rfl
  | cons c cs ih =>
    intro b
    cases hc : dec c with
    | ok l =>
      have : isOk dec c = true := by simp [isOk, hc]
      rw [List.filter_cons_of_pos this]; simp [outList, hc, ih]
    | skipped w =>
      have : ¬ isOk dec c = true := by simp [isOk, hc]
      rw [List.filter_cons_of_neg this]; simp [outList, hc, ih]
    | crash w =>
      have : ¬ isOk dec c = true := by simp [isOk, hc]
      rw [List.filter_cons_of_neg this]; simp [outList, hc, ih]

/-- exactly the orderable chromosomes are written, in request order; nothing is written for a skipped one -/
theorem written_names (dec : String → Outcome) (order : List String) (r : List Written × Int)
    (h : runOrder dec order = .ok r) : r.1.map (·.name) = order.filter (isOk dec) := by
  have := go_written dec order _ _ h
  rw [this]; simpa using outList_names dec order 0

/-- C06: chromosomes receive consecutive, disjoint BO ranges in the requested order: the j-th written chromosome uses
    exactly the positions `lo_j + k` with `lo_0 = 0`, `lo_{j+1} = lo_j + len_j` -/
def lens (dec : String → Outcome) (cs : List String) : List Nat :=
  cs.filterMap (fun c => match dec c with | .ok l => some l.len | _ => none)

theorem lens_cons_ok {dec : String → Outcome} {c : String} {cs : List String} {l : Local} (h : dec c = .ok l) :
    lens dec (c :: cs) = l.len :: lens dec cs := by
  simp [lens, h]

theorem lens_cons_skipped {dec : String → Outcome} {c : String} {cs : List String} {w : Skip} (h : dec c = .skipped w) :
    lens dec (c :: cs) = lens dec cs := by
  simp [lens, h]

theorem go_bo (dec : String → Outcome) (order : List String) : ∀ acc r, go dec acc order = .ok r →
    r.2 = acc.2 + (((lens dec order).sum : Nat) : Int) := by
  induction order with
  | nil =>
    intro acc r h
    rw [go_nil] at h
    cases h
    simp [lens]
  | cons c cs ih =>
    intro acc r h
    cases hc : dec c with
    | ok l =>
      rw [go_cons_ok _ _ _ _ _ hc] at h
      rw [ih _ _ h, lens_cons_ok hc]; simp only [List.sum_cons]; omega
    | skipped w =>
      rw [go_cons_skipped _ _ _ _ _ hc] at h
      rw [ih _ _ h, lens_cons_skipped hc]
    | crash w =>
      rw [go_cons_crash _ _ _ _ _ hc] at h
      cases h

theorem lens_filter_isOk (dec : String → Outcome) (order : List String) :
    lens dec (order.filter (isOk dec)) = lens dec order := by
  induction order with
  | nil => rfl
  | cons c cs ih =>
    cases hc : dec c with
    | ok l =>
      have : isOk dec c = true := by simp [isOk, hc]
      rw [List.filter_cons_of_pos this, lens_cons_ok hc, lens_cons_ok hc, ih]
    | skipped w =>
      have : ¬ isOk dec c = true := by simp [isOk, hc]
      rw [List.filter_cons_of_neg this, lens_cons_skipped hc, ih]
    | crash w =>
      have : ¬ isOk dec c = true := by simp [isOk, hc]
      rw [List.filter_cons_of_neg this, ih]; simp [lens, hc]

theorem outList_ranges (dec : String → Outcome) (order : List String) : ∀ (b : Int) j (hj : j < (outList dec b order).length),
    ∃ l, dec ((outList dec b order)[j]).name = .ok l ∧
      ((outList dec b order)[j]).tags =
        l.order.map (fun (v, k, no) => (v, b + ((((lens dec order).take j).sum : Nat) : Int) + (k : Int), (no : Int))) := by
  induction order with
  | nil => intro b j hj; simp [outList] at hj
  | cons c cs ih =>
    intro b j hj
    cases hc : dec c with
    | ok l =>
      have e : outList dec b (c :: cs) = ⟨c, l.order.map (fun (v, k, no) => (v, b + (k : Int), (no : Int))), l.aps, l.inside⟩ :: outList dec (b + (l.len : Int)) cs := by
        simp [outList, hc]
      simp only [e] at hj ⊢
      cases j with
      | zero =>
        refine ⟨l, by simpa using hc, ?_⟩
        simp
      | succ j =>
        have hj' : j < (outList dec (b + (l.len : Int)) cs).length := by simpa using hj
        obtain ⟨l', h1, h2⟩ := ih _ j hj'
        refine ⟨l', by simpa using h1, ?_⟩
        simp only [List.getElem_cons_succ, h2, lens_cons_ok hc, List.take_succ_cons, List.sum_cons]
        apply List.map_congr_left
        rintro ⟨v, k, no⟩ _
        simp only [Prod.mk.injEq, true_and, and_true]
        omega
    | skipped w =>
      have e : outList dec b (c :: cs) = outList dec b cs := by simp [outList, hc]
      simp only [e] at hj ⊢
      rw [lens_cons_skipped hc]
      exact ih b j hj
    | crash w =>
      have e : outList dec b (c :: cs) = outList dec b cs := by simp [outList, hc]
      simp only [e] at hj ⊢
      have : lens dec (c :: cs) = lens dec cs := by simp [lens, hc]
      rw [this]
      exact ih b j hj

theorem runOrder_ranges (dec : String → Outcome) (order : List String) (r : List Written × Int)
    (h : runOrder dec order = .ok r) :
    r.2 = ((lens dec order).sum : Nat) ∧
    ∀ j (hj : j < r.1.length), ∃ l, dec (r.1[j]).name = .ok l ∧
      (r.1[j]).tags = l.order.map (fun (v, k, no) => (v, (((lens dec (order.filter (isOk dec))).take j).sum : Nat) + (k : Int), (no : Int))) := by
  have h1 := go_written dec order _ _ h
  have h2 := go_bo dec order _ _ h
  refine ⟨by simpa using h2, ?_⟩
  intro j hj
  have h1' : r.1 = outList dec 0 order := by simpa using h1
  have hj' : j < (outList dec 0 order).length := by rw [← h1']; exact hj
  obtain ⟨l, e1, e2⟩ := outList_ranges dec order 0 j hj'
  refine ⟨l, by simp only [h1']; exact e1, ?_⟩
  simp only [h1', e2, lens_filter_isOk]
  apply List.map_congr_left
  rintro ⟨v, k, no⟩ _
  simp

/-- C06: numbering of a traversal: the k-th element gets BO offset k; a scaffold node NO = 0; the inner nodes of a bubble
    all share the bubble's BO and are numbered 1..M in lexicographic id order -/
theorem numberChain_scaffold (s : Scaffold) (trav : List Elt) (k : Nat) (id : V) (h : trav[k]? = some (.scaffold id)) :
    (id, k, 0) ∈ numberChain s trav := by
  unfold numberChain
  rw [List.mem_flatMap]
  exact ⟨(.scaffold id, k), List.mem_zipIdx_iff_getElem?.mpr h, by simp⟩

theorem numberChain_bubble (s : Scaffold) (trav : List Elt) (k i : Nat) (h : trav[k]? = some (.bubble i))
    (j : Nat) (v : V) (hv : (Gaftools.Gfa.sortStrings (s.bubbles.getD i []))[j]? = some v) :
    (v, k, j + 1) ∈ numberChain s trav := by
  unfold numberChain
  rw [List.mem_flatMap]
  refine ⟨(.bubble i, k), List.mem_zipIdx_iff_getElem?.mpr h, ?_⟩
  simp only [List.mem_map]
  exact ⟨(v, j), List.mem_zipIdx_iff_getElem?.mpr hv, rfl⟩

theorem numberChain_only (s : Scaffold) (trav : List Elt) (v : V) (k no : Nat) (h : (v, k, no) ∈ numberChain s trav) :
    (trav[k]? = some (.scaffold v) ∧ no = 0) ∨
    (∃ i, trav[k]? = some (.bubble i) ∧ no ≥ 1 ∧ (Gaftools.Gfa.sortStrings (s.bubbles.getD i []))[no - 1]? = some v) := by
  unfold numberChain at h
  rw [List.mem_flatMap] at h
  obtain ⟨⟨e, k'⟩, hm, hx⟩ := h
  have hm' := List.mem_zipIdx_iff_getElem?.mp hm
  simp only at hm'
  cases e with
  | scaffold id =>
    simp only [List.mem_singleton, Prod.mk.injEq] at hx
    obtain ⟨rfl, rfl, rfl⟩ := hx
    exact Or.inl ⟨hm', rfl⟩
  | bubble i =>
    simp only [List.mem_map] at hx
    obtain ⟨⟨n, j⟩, hnj, heq⟩ := hx
    have hnj' := List.mem_zipIdx_iff_getElem?.mp hnj
    simp only [Prod.mk.injEq] at heq hnj'
    obtain ⟨rfl, rfl, rfl⟩ := heq
    exact Or.inr ⟨i, hm', by omega, by simpa using hnj'⟩

/-! non-vacuity -/
def exDec : String → Outcome
  | "chr1" => .ok ⟨["a"], [], [("a", 0, 0), ("x", 1, 1), ("b", 2, 0)], 3, 1⟩
  | "chr2" => .skipped .degreeOne
  | "chr3" => .ok ⟨["c"], [], [("c", 0, 0)], 1, 0⟩
  | _ => .crash "?"
example : (runOrder exDec ["chr1", "chr2", "chr3"]).toOption.map (fun r => (r.1.map (·.tags), r.2))
    = some ([[("a", 0, 0), ("x", 1, 1), ("b", 2, 0)], [("c", 3, 0)]], 4) := by decide
example : noCrash exDec ["chr1", "chr2", "chr3"] := by
  intro c hc w; simp at hc; rcases hc with rfl | rfl | rfl <;> simp [exDec]

end Gaftools.C18
