import Gaftools.Props.C15Bicc
import Gaftools.Proofs.BiccLemmas2
/-!
# C15 (biccs, continued) — the reported components are the blocks

Remaining rungs towards `BiccExact`: the node sets emitted from the edge stack are exactly the classes of links that no
single node removal separates (`Spec.Graph.blocks`).
-/
namespace Gaftools.C15
open Gaftools.Gfa Gaftools.Algo Gaftools.Spec.Graph

/-- RUNG 6 — every link between two different nodes lies in at least one reported component (both ends in its node set) -/
theorem biccs_covers_links (nb : V → List V) (Vs : List V) (hu : Undirected nb Vs) (hd : Vs.Nodup) (root : V) (hr : root ∈ Vs)
    (hc : connectedB nb Vs = true) (u v : V) (hu' : u ∈ Vs) (huv : v ∈ nb u) (hne : u ≠ v) :
    ∃ c ∈ (biccsFrom nb root (biccFuel nb Vs)).1, u ∈ c ∧ v ∈ c :=
  Gaftools.Proofs.Bicc2.covers_links nb Vs hu root hr hc u v hu' huv hne

/-- RUNG 7 — two different reported components share at most one node (so every link lies in exactly one) -/
theorem biccs_comps_share_one (nb : V → List V) (Vs : List V) (hu : Undirected nb Vs) (hd : Vs.Nodup) (root : V) (hr : root ∈ Vs)
    (hc : connectedB nb Vs = true) :
    let cs := (biccsFrom nb root (biccFuel nb Vs)).1
    ∀ i j (hi : i < cs.length) (hj : j < cs.length), i ≠ j → ∀ x y, x ∈ cs[i] → x ∈ cs[j] → y ∈ cs[i] → y ∈ cs[j] → x = y :=
  Gaftools.Proofs.Bicc2.comps_share_one nb Vs hu root hr

/-- RUNG 8 — no single node removal disconnects a reported component: for every node `x`, any two nodes of a component
    other than `x` stay connected in the graph without `x` -/
theorem biccs_comp_biconnected (nb : V → List V) (Vs : List V) (hu : Undirected nb Vs) (hd : Vs.Nodup) (root : V) (hr : root ∈ Vs)
    (hc : connectedB nb Vs = true) :
    ∀ c ∈ (biccsFrom nb root (biccFuel nb Vs)).1, ∀ x a b, a ∈ c → b ∈ c → a ≠ x → b ≠ x → Reach (nbWithout nb x) a b :=
  Gaftools.Proofs.Bicc2.comp_biconnected nb Vs hu root hr

/-- TOP RUNG — the full statement `BiccExact` of `Props/C15.lean` -/
theorem biccExact : BiccExact :=
  fun nb Vs hu hd hc root hr => Gaftools.Proofs.Bicc2.biccExact_main nb Vs hu hd hc root hr

end Gaftools.C15
