import Gaftools.Spec.Stat
import Gaftools.Proofs.StatLemmas
/-!
# C19 — stat reports numbers that match their definitions
-/
namespace Gaftools.C19
open Gaftools.Gaf Gaftools.Stat Gaftools.Spec.Stat Gaftools.Proofs.Stat

theorem isSecondary_iff (r : Rec) : isSecondary r = !isPrimaryRec r := by
  exact isSecondary_eq r

/-- total = number of records; secondary = not primary or MAPQ 0; total = primary + secondary -/
theorem stat_counts (c : Bool) (recs : List Rec) :
    (run c recs).total = total recs ∧ (run c recs).secondary = secondary recs ∧
    (run c recs).primary = primary recs ∧ total recs = primary recs + secondary recs := by
  exact ⟨run_total c recs, run_secondary c recs, run_primary c recs, total_split recs⟩

/-- reads and aligned bases are taken over primary records only -/
theorem stat_reads_bases (c : Bool) (recs : List Rec) :
    (run c recs).reads.map (·.name) = readNames recs ∧ (run c recs).bases = bases recs := by
  exact ⟨run_names c recs, run_bases c recs⟩

/-- best identity / best map ratio of a read = maximum over its primary records -/
theorem stat_best (c : Bool) (recs : List Rec) (a : ReadAgg) (h : a ∈ (run c recs).reads) :
    a.bestId = bestId recs a.name ∧ a.bestRatio = bestRatio recs a.name := by
  exact run_best c recs a h

/-- with --cigar: events = number of runs of each operation, large = runs of length ≥ 50, perfect = one-run CIGARs -/
theorem stat_cigar (recs : List Rec) :
    let s := (run true recs).cig
    s.del = events 'D' recs ∧ s.ins = events 'I' recs ∧ s.x = events 'X' recs ∧ s.m = events '=' recs ∧
    s.delL = large 'D' recs ∧ s.insL = large 'I' recs ∧ s.xL = large 'X' recs ∧ s.mL = large '=' recs ∧
    s.perfect = perfect recs := by
  exact run_cig_true recs

/-- the report is invariant under any reordering of the records: counts, the read set with its best values, and
    therefore both averages (exact arithmetic) -/
theorem stat_perm (c : Bool) (r₁ r₂ : List Rec) (hp : r₁.Perm r₂) :
    (run c r₁).total = (run c r₂).total ∧ (run c r₁).primary = (run c r₂).primary ∧
    (run c r₁).secondary = (run c r₂).secondary ∧ (run c r₁).bases = (run c r₂).bases ∧
    (run c r₁).mapqSum = (run c r₂).mapqSum ∧ (run c r₁).cig = (run c r₂).cig ∧
    (run c r₁).reads.Perm (run c r₂).reads ∧
    avgBestId (run c r₁) = avgBestId (run c r₂) ∧ avgBestRatio (run c r₁) = avgBestRatio (run c r₂) := by
  have hr := reads_perm c hp
  refine ⟨?_, ?_, ?_, ?_, ?_, cig_perm c hp, hr, ?_, ?_⟩
  · rw [run_total, run_total]; exact hp.length_eq
  · rw [run_primary, run_primary]; exact (primaries_perm hp).length_eq
  · rw [run_secondary, run_secondary]; exact (hp.filter _).length_eq
  · rw [run_bases, run_bases]; exact ((primaries_perm hp).map _).sum_nat
  · rw [run_mapqSum, run_mapqSum]; exact ((primaries_perm hp).map _).sum_nat
  · unfold avgBestId
    rw [sumRat_perm (hr.map _), hr.length_eq]
  · unfold avgBestRatio
    rw [sumRat_perm (hr.map _), hr.length_eq]

/-! non-vacuity -/
def mk (q : String) (mapq : Nat) (prim : Bool) (nm bl : Nat) (cg : String) : Rec :=
  { qname := q.toList, qlen := 100, qs := 0, qe := bl, strand := ['+'], path := ">s1".toList, plen := 500, ps := 0, pe := bl,
    nmatch := nm, blen := bl, mapq := mapq, isPrimary := prim, cigar := cg.toList, tags := [] }
def exRecs : List Rec := [mk "r1" 60 true 90 100 "90=10X", mk "r1" 30 false 50 50 "50=", mk "r2" 0 true 50 50 "50=", mk "r1" 20 true 60 60 "60="]
example : (run true exRecs).primary = 2 ∧ (run true exRecs).secondary = 2 ∧ (run true exRecs).reads.length = 1 := by decide
example : ((run true exRecs).reads.map (·.bestId)) = [1] := by decide +kernel

end Gaftools.C19
