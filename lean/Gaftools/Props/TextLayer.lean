import Gaftools.Model.TextLayer
import Gaftools.Proofs.TextLayerLemmas
/-!
# String level of `find_path` (C14) and of the region syntax of `view -r` (C05)

Part 1 (`Audit/C14_extra.lean`): `re.findall("[><][^><]+", ·)`, `GFA.extract_path(str)`, `find_path.run`.
Part 2 (`Audit/C05_extra.lean`): the three split expressions of `view.get_unstable` and the two `int()` of `view.search`.

Every theorem is followed by a closed example (`decide`) showing that its hypotheses can be met.  Statements that turned out
false while being proved are kept as `decide`d counterexamples next to the corrected statement.
-/
namespace Gaftools.TextLayerProps
open Gaftools.Gfa Gaftools.TextLayer Gaftools.Proofs.TextLayer

deriving instance DecidableEq for Except

/-! ## Part 1 — path strings -/

/-- a two-node graph for the examples: `a` = AC, `b` = GGT, one link `a+ → b-` -/
def demo : Graph :=
  readGraph ⟨[⟨"a", "AC", []⟩, ⟨"b", "GGT", []⟩], [⟨"a", true, "b", false, 0, []⟩]⟩

/-- tokenising a rendered path gives the steps back, for ids that are non-empty and hold neither '<' nor '>'
    (no other restriction: blanks, '-', ':', line breaks inside an id are all kept) -/
theorem tokenize_render (steps : List Step) (hg : ∀ s ∈ steps, GoodId s.2) :
    tokenizePath (renderPath steps).toList = steps := by
  unfold tokenizePath renderPath
  rw [String.toList_ofList]
  exact aux_render_none steps hg

example : tokenizePath (renderPath [(true, "n 1"), (false, "a-b:3")]).toList = [(true, "n 1"), (false, "a-b:3")] := by decide
/-- without the hypothesis the statement is false: an empty id disappears, an id with '>' is cut -/
example : tokenizePath (renderPath [(true, ""), (false, "b")]).toList = [(false, "b")] := by decide
example : tokenizePath (renderPath [(true, "a>b")]).toList = [(true, "a"), (true, "b")] := by decide

/-- whatever the string, every token has a non-empty id free of '<' and '>' (so `n[0]`, `n[1:]` in `extract_path` and the
    lookup `cases[(n1[0], n2[0])]` in `path_exists` never fail) -/
theorem tokenize_good (p : List Char) : ∀ s ∈ tokenizePath p, GoodId s.2 :=
  aux_good p none (by intro o acc h; cases h)

example : tokenizePath ">>a<<>b c\n<".toList = [(true, "a"), (true, "b c\n")] := by decide

/-- rendering the tokens and tokenising again changes nothing -/
theorem tokenize_idem (p : List Char) : tokenizePath (renderPath (tokenizePath p)).toList = tokenizePath p :=
  tokenize_render _ (tokenize_good p)

/-- what `extract_path` makes of the outcome of the token-level model: `none` there is the `KeyError` here -/
def liftKey : Option String → Except PyErr String
  | none => .error .keyError
  | some s => .ok s

theorem renderPath_toList (steps : List Step) : (renderPath steps).toList = renderChars steps := String.toList_ofList

/-- `extract_path` on a rendered, non-empty list of steps is the token-level `extractPath` of these steps — unknown nodes
    included (a `KeyError` exactly where `extractPath` has `none`) -/
theorem extractPathStr_render (g : Graph) (steps : List Step) (hne : steps ≠ []) (hg : ∀ s ∈ steps, GoodId s.2) :
    extractPathStr g (renderPath steps) = liftKey (extractPath g steps) := by
  have ht := tokenize_render steps hg
  cases steps with
  | nil => exact absurd rfl hne
  | cons s rest =>
    unfold extractPathStr
    rw [renderPath_toList] at ht ⊢
    rw [renderChars_cons] at ht ⊢
    simp only [oriChar_isOri, Bool.not_true, Bool.false_eq_true, if_false]
    unfold tokenizePath at ht
    unfold tokenizePath
    rw [ht]
    cases extractPath g (s :: rest) <;> rfl

example : extractPathStr demo (renderPath [(true, "a"), (false, "b")]) = .ok "ACACC" := by decide
example : extractPathStr demo (renderPath [(true, "zz"), (false, "b")]) = .error .keyError := by decide

/-- over nodes of the graph `path_exists` does not raise -/
theorem pathExists_known (g : Graph) (steps : List Step) (hk : ∀ s ∈ steps, g.has s.2 = true) :
    ∃ b, pathExists g steps = some b := by
  induction steps with
  | nil => exact ⟨true, rfl⟩
  | cons s1 rest ih =>
    cases rest with
    | nil => exact ⟨true, rfl⟩
    | cons s2 rest =>
      have h1 : g.has s1.2 = true := hk s1 (List.mem_cons_self ..)
      obtain ⟨b, hb⟩ := ih (fun s hs => hk s (List.mem_cons_of_mem _ hs))
      simp only [pathExists, h1, Bool.not_true, Bool.false_eq_true, if_false]
      cases stepOk g s1 s2 with
      | true => exact ⟨b, by simpa using hb⟩
      | false => exact ⟨false, by simp⟩

/-- the form asked for: rendered non-empty steps over nodes of the graph -/
theorem extractPathStr_render_known (g : Graph) (steps : List Step) (hne : steps ≠ []) (hg : ∀ s ∈ steps, GoodId s.2)
    (hk : ∀ s ∈ steps, g.has s.2 = true) :
    extractPathStr g (renderPath steps) = .ok ((extractPath g steps).getD "") := by
  rw [extractPathStr_render g steps hne hg]
  obtain ⟨b, hb⟩ := pathExists_known g steps hk
  unfold extractPath
  rw [hb]
  cases b with
  | false => rfl
  | true =>
    simp only []
    split <;> rfl

example : extractPathStr demo (renderPath [(true, "b"), (false, "a")]) = .ok ((extractPath demo [(true, "b"), (false, "a")]).getD "") ∧
    (extractPath demo [(true, "b"), (false, "a")]).getD "" = "GGTGT" := by decide

/-- the empty list of steps: the rendered string is empty and `path[0]` raises, while the token-level model answers "" -/
theorem extractPathStr_render_nil (g : Graph) : extractPathStr g (renderPath []) = .error .indexError := rfl

/-- FALSE without `steps ≠ []` (my first statement had no such hypothesis) -/
example : extractPathStr demo (renderPath []) ≠ .ok ((extractPath demo []).getD "") := by decide

/-- a non-empty string that does not start with '<' or '>' gives "" whatever follows (no exception, not even for unknown nodes) -/
theorem extractPathStr_first_char (g : Graph) (s : String) (c : Char) (rest : List Char) (h : s.toList = c :: rest)
    (hc : isOri c = false) : extractPathStr g s = .ok "" := by
  unfold extractPathStr
  rw [h]
  simp [hc]

example : extractPathStr demo "a<b" = .ok "" ∧ extractPathStr demo " >a<b" = .ok "" ∧ extractPathStr demo "x>zz>zz" = .ok "" := by decide

/-- the other two exits of the first line: the empty string raises; a string of orientation characters only is an empty path -/
theorem extractPathStr_empty (g : Graph) : extractPathStr g "" = .error .indexError := rfl

example : extractPathStr demo ">" = .ok "" ∧ extractPathStr demo "<>" = .ok "" := by decide

/-! ### `find_path.run` -/

/-- the sequence of one line of the path file (when it does not raise) -/
def lineSeq (g : Graph) (line : String) : String :=
  match extractPathStr g (pyStrip line) with
  | .ok s => s
  | .error _ => ""

/-- argument mode (`input_path[0]` is '<' or '>'): the output is the single record of `extract_path(input_path)`, the
    argument itself (not stripped) being the FASTA name; the file is not looked at -/
theorem findPathRun_arg (g : Graph) (arg : String) (c : Char) (rest : List Char) (h : arg.toList = c :: rest)
    (hc : isOri c = true) (fl : Option (List String)) (fasta : Bool) :
    findPathRun g arg fl fasta = (extractPathStr g arg).map (record fasta arg) := by
  unfold findPathRun
  rw [h]
  simp [hc]

example : findPathRun demo ">a<b" none true = .ok [">seq_>a<b", "ACACC"] ∧ findPathRun demo ">a<b" none false = .ok ["ACACC"] ∧
    findPathRun demo ">zz<b" (some []) true = .error .keyError := by decide

/-- file mode, no line raising: exactly one record per line of the file, in order — the sequence of the stripped line, with
    `--fasta` preceded by `>seq_` ++ the stripped line -/
theorem findPathRun_file (g : Graph) (arg : String) (c : Char) (rest : List Char) (h : arg.toList = c :: rest)
    (hc : isOri c = false) (ls : List String) (fasta : Bool)
    (hok : ∀ l ∈ ls, ∃ s, extractPathStr g (pyStrip l) = .ok s) :
    findPathRun g arg (some ls) fasta = .ok (ls.flatMap (fun l => record fasta (pyStrip l) (lineSeq g l))) := by
  unfold findPathRun
  rw [h]
  simp only [hc, Bool.false_eq_true, if_false]
  have hm : ls.mapM (lineRecord g) = .ok (ls.map (fun l => (pyStrip l, lineSeq g l))) := by
    apply mapM_ok
    intro l hl
    obtain ⟨s, hs⟩ := hok l hl
    simp only [lineRecord, lineSeq, hs]
    rfl
  rw [hm]
  simp only [Except.map, List.flatMap_map]

/-- … so the number of printed lines is the number of lines of the file, twice that with `--fasta` -/
theorem findPathRun_file_length (g : Graph) (arg : String) (c : Char) (rest : List Char) (h : arg.toList = c :: rest)
    (hc : isOri c = false) (ls : List String) (fasta : Bool)
    (hok : ∀ l ∈ ls, ∃ s, extractPathStr g (pyStrip l) = .ok s) :
    ∃ out, findPathRun g arg (some ls) fasta = .ok out ∧ out.length = (if fasta then 2 else 1) * ls.length := by
  refine ⟨_, findPathRun_file g arg c rest h hc ls fasta hok, ?_⟩
  induction ls with
  | nil => simp
  | cons l ls ih =>
    have ih := ih (fun m hm => hok m (List.mem_cons_of_mem _ hm))
    simp only [List.flatMap_cons, List.length_append, ih, List.length_cons]
    cases fasta <;> simp [record] <;> omega

example : findPathRun demo "paths.txt" (some [" >a<b \n", "x\n", "\t>b<a"]) true =
    .ok [">seq_>a<b", "ACACC", ">seq_x", "", ">seq_>b<a", "GGTGT"] := by decide

/-- file mode, a line raising: the first such line decides the exception and nothing is printed (a blank line is the usual
    case: `extract_path("")` is an `IndexError`) -/
theorem findPathRun_file_error (g : Graph) (arg : String) (c : Char) (rest : List Char) (h : arg.toList = c :: rest)
    (hc : isOri c = false) (pre : List String) (l : String) (post : List String) (fasta : Bool) (e : PyErr)
    (hpre : ∀ m ∈ pre, ∃ s, extractPathStr g (pyStrip m) = .ok s) (hl : extractPathStr g (pyStrip l) = .error e) :
    findPathRun g arg (some (pre ++ l :: post)) fasta = .error e := by
  unfold findPathRun
  rw [h]
  simp only [hc, Bool.false_eq_true, if_false]
  have hm : (pre ++ l :: post).mapM (lineRecord g) = .error e := by
    apply mapM_error (h := fun m => (pyStrip m, lineSeq g m))
    · intro m hm
      obtain ⟨s, hs⟩ := hpre m hm
      simp only [lineRecord, lineSeq, hs]
      rfl
    · simp only [lineRecord, hl]
      rfl
  rw [hm]
  rfl

example : findPathRun demo "paths.txt" (some [">a<b\n", " \n", ">zz>a\n"]) false = .error .indexError ∧
    findPathRun demo "paths.txt" (some [">a<b\n", ">zz>a\n", "\n"]) false = .error .keyError := by decide

/-- the remaining exits: the empty argument raises; a file that cannot be opened -/
theorem findPathRun_empty (g : Graph) (fl : Option (List String)) (fasta : Bool) :
    findPathRun g "" fl fasta = .error .indexError := rfl

/-- a file whose lines hold neither '\n' nor '\r' and all end in "\n" is read back as exactly these lines -/
theorem textLines_lines (ls : List String) (h : ∀ l ∈ ls, '\n' ∉ l.toList ∧ '\r' ∉ l.toList) :
    textLines (String.join (ls.map (· ++ "\n"))) = ls.map (· ++ "\n") := by
  unfold textLines
  have hj : (String.join (ls.map (· ++ "\n"))).toList = (ls.map String.toList).flatMap (fun l => l ++ ['\n']) := by
    induction ls with
    | nil => simp
    | cons l ls ih =>
      have ih := ih (fun m hm => h m (List.mem_cons_of_mem _ hm))
      simp only [List.map_cons, List.flatMap_cons] at ih ⊢
      simp only [String.join_cons, String.toList_append, ih]
      rfl
  have hcr : '\r' ∉ (ls.map String.toList).flatMap (fun l => l ++ ['\n']) := by
    intro hm
    simp only [List.mem_flatMap, List.mem_map] at hm
    obtain ⟨l', ⟨l, hl, rfl⟩, hm⟩ := hm
    rcases List.mem_append.1 hm with hm | hm
    · exact (h l hl).2 hm
    · simp at hm
  rw [hj, univNl_id _ hcr, keepEndsNl_lines]
  · simp only [List.map_map]
    apply List.map_congr_left
    intro l _
    simp only [Function.comp]
    rw [← String.toList_inj]
    simp [String.toList_append]
  · intro l' hl'
    simp only [List.mem_map] at hl'
    obtain ⟨l, hl, rfl⟩ := hl'
    exact (h l hl).1

example : textLines "a\r\nb\rc\n\nd" = ["a\n", "b\n", "c\n", "\n", "d"] := by decide

/-! ## Part 2 — regions -/

theorem natToList (n : Nat) : (toString n).toList = Nat.toDigits 10 n := Nat.toList_repr

theorem colon_not_digits (n : Nat) : ':' ∉ Nat.toDigits 10 n :=
  fun hm => digit_ne (digits_all n _ hm) (by decide) rfl

theorem dash_not_digits (n : Nat) : '-' ∉ Nat.toDigits 10 n :=
  fun hm => digit_ne (digits_all n _ hm) (by decide) rfl

/-- a number `int()` takes: at most 4300 digits (`sys.get_int_max_str_digits()`) -/
def Short (n : Nat) : Prop := (toString n).length ≤ maxStrDigits

theorem short_digits {n : Nat} (h : Short n) : (Nat.toDigits 10 n).length ≤ maxStrDigits := by
  unfold Short at h
  rw [← String.length_toList, natToList] at h
  exact h

/-- `name:a-b`, the name free of ':' (it may hold '-', '#', blanks), the numbers of at most 4300 digits -/
theorem parseRegion_render (name : String) (a b : Nat) (hn : ':' ∉ name.toList) (ha : Short a) (hb : Short b) :
    parseRegion (name ++ ":" ++ toString a ++ "-" ++ toString b) = .ok (name, (a : Int), (b : Int)) := by
  unfold parseRegion parseRegionChars
  have e : (name ++ ":" ++ toString a ++ "-" ++ toString b).toList =
      name.toList ++ ':' :: (Nat.toDigits 10 a ++ '-' :: Nat.toDigits 10 b) := by
    simp [String.toList_append]
  have hr : ':' ∉ Nat.toDigits 10 a ++ '-' :: Nat.toDigits 10 b := by
    intro hm
    rcases List.mem_append.1 hm with hm | hm
    · exact colon_not_digits a hm
    · rcases List.mem_cons.1 hm with hm | hm
      · cases hm
      · exact colon_not_digits b hm
  rw [e, splitOn_append, splitOn_no_sep ':' _ hn, splitOn_no_sep ':' _ hr]
  simp only [List.cons_append, List.nil_append]
  rw [headD_splitOn_append '-' _ _ (dash_not_digits a), getLastD_splitOn_append '-' _ _ (dash_not_digits b),
    pyInt_dec a (short_digits ha), pyInt_dec b (short_digits hb), String.ofList_toList]

example : parseRegion ("h#1-ctg 2" ++ ":" ++ toString 17 ++ "-" ++ toString 40) = .ok ("h#1-ctg 2", 17, 40) := by decide

/- FALSE without `Short` (my first statement had no bound): a number of 4301 digits is a `ValueError` in Python ≥ 3.11
   (`#guard`: the kernel's `decide` does not get through 4301 characters) -/
#guard parseRegionChars ("c:".toList ++ List.replicate 4301 '1' ++ "-5".toList) = .error .valueError
#guard parseRegion ("c" ++ ":" ++ toString (10 ^ 4300) ++ "-" ++ toString 5) = .error .valueError
#guard parseRegion ("c" ++ ":" ++ toString (10 ^ 4300 - 1) ++ "-" ++ toString 5) = .ok ("c", 10 ^ 4300 - 1, 5)

/-- "c:n" (no '-') gives (c, n, n) -/
theorem parseRegion_single (name : String) (n : Nat) (hn : ':' ∉ name.toList) (hs : Short n) :
    parseRegion (name ++ ":" ++ toString n) = .ok (name, (n : Int), (n : Int)) := by
  unfold parseRegion parseRegionChars
  have e : (name ++ ":" ++ toString n).toList = name.toList ++ ':' :: Nat.toDigits 10 n := by
    simp [String.toList_append]
  rw [e, splitOn_append, splitOn_no_sep ':' _ hn, splitOn_no_sep ':' _ (colon_not_digits n)]
  simp only [List.cons_append, List.nil_append]
  rw [splitOn_no_sep '-' _ (dash_not_digits n)]
  simp only [List.headD_cons, List.getLastD_cons, List.getLastD_nil]
  rw [pyInt_dec n (short_digits hs), String.ofList_toList]

example : parseRegion ("chr1" ++ ":" ++ toString 5) = .ok ("chr1", 5, 5) := by decide

/-- several '-': the first and the last number count, what is between them is not even looked at -/
theorem parseRegion_dashes (name : String) (a b : Nat) (mid : String) (hn : ':' ∉ name.toList) (hm : ':' ∉ mid.toList)
    (ha : Short a) (hb : Short b) :
    parseRegion (name ++ ":" ++ toString a ++ "-" ++ mid ++ "-" ++ toString b) = .ok (name, (a : Int), (b : Int)) := by
  unfold parseRegion parseRegionChars
  have e : (name ++ ":" ++ toString a ++ "-" ++ mid ++ "-" ++ toString b).toList =
      name.toList ++ ':' :: (Nat.toDigits 10 a ++ '-' :: (mid.toList ++ '-' :: Nat.toDigits 10 b)) := by
    simp [String.toList_append]
  have hr : ':' ∉ Nat.toDigits 10 a ++ '-' :: (mid.toList ++ '-' :: Nat.toDigits 10 b) := by
    intro h
    rcases List.mem_append.1 h with h | h
    · exact colon_not_digits a h
    · rcases List.mem_cons.1 h with h | h
      · cases h
      · rcases List.mem_append.1 h with h | h
        · exact hm h
        · rcases List.mem_cons.1 h with h | h
          · cases h
          · exact colon_not_digits b h
  rw [e, splitOn_append, splitOn_no_sep ':' _ hn, splitOn_no_sep ':' _ hr]
  simp only [List.cons_append, List.nil_append]
  have hlast : (splitOn '-' (Nat.toDigits 10 a ++ '-' :: (mid.toList ++ '-' :: Nat.toDigits 10 b))).getLastD [] = Nat.toDigits 10 b := by
    have : Nat.toDigits 10 a ++ '-' :: (mid.toList ++ '-' :: Nat.toDigits 10 b) =
        (Nat.toDigits 10 a ++ '-' :: mid.toList) ++ '-' :: Nat.toDigits 10 b := by simp
    rw [this, getLastD_splitOn_append '-' _ _ (dash_not_digits b)]
  rw [headD_splitOn_append '-' _ _ (dash_not_digits a), hlast,
    pyInt_dec a (short_digits ha), pyInt_dec b (short_digits hb), String.ofList_toList]

example : parseRegion ("chr1" ++ ":" ++ toString 3 ++ "-" ++ "4" ++ "-" ++ toString 9) = .ok ("chr1", 3, 9) ∧
    parseRegion ("chr1" ++ ":" ++ toString 3 ++ "-" ++ "what-ever" ++ "-" ++ toString 9) = .ok ("chr1", 3, 9) ∧
    parseRegion "c:5--9" = .ok ("c", 5, 9) := by decide

/-- `IndexError` exactly for the strings without ':' -/
theorem parseRegion_no_colon (s : String) : parseRegion s = .error .indexError ↔ ':' ∉ s.toList := by
  unfold parseRegion parseRegionChars
  constructor
  · intro h hm
    obtain ⟨a, b, t, hs⟩ := (splitOn_two_iff ':' s.toList).2 hm
    rw [hs] at h
    simp only at h
    split at h <;> cases h
  · intro hm
    rw [splitOn_no_sep ':' _ hm]

example : parseRegion "chr1" = .error .indexError ∧ parseRegion "" = .error .indexError ∧ parseRegion "chr1-5-7" = .error .indexError ∧
    parseRegion "chr1:" = .error .valueError ∧ parseRegion ":" = .error .valueError := by decide

/-- text after a second ':' is ignored -/
theorem parseRegion_second_colon (a b junk : List Char) (ha : ':' ∉ a) (hb : ':' ∉ b) :
    parseRegionChars (a ++ ':' :: (b ++ ':' :: junk)) = parseRegionChars (a ++ ':' :: b) := by
  unfold parseRegionChars
  rw [splitOn_append, splitOn_append, splitOn_append, splitOn_no_sep ':' _ ha, splitOn_no_sep ':' _ hb]
  cases hj : splitOn ':' junk with
  | nil => exact absurd hj (splitOn_ne_nil ':' junk)
  | cons j js => rfl

example : parseRegion "chr1:3-9:anything:at-all" = .ok ("chr1", 3, 9) := by decide

/-- a bound is never negative: every '-' is a separator, none reaches `int()` -/
theorem parseRegion_nonneg (s : String) (c : String) (a b : Int) (h : parseRegion s = .ok (c, a, b)) : 0 ≤ a ∧ 0 ≤ b := by
  unfold parseRegion parseRegionChars at h
  split at h
  · rename_i c' r t hs
    simp only at h
    have hparts := splitOn_parts '-' r
    have hne := splitOn_ne_nil '-' r
    split at h
    · rename_i a' b' ha hb
      cases h
      cases hp : splitOn '-' r with
      | nil => exact absurd hp hne
      | cons p ps =>
        rw [hp] at ha hb hparts
        constructor
        · exact pyInt_nonneg p (hparts p (List.mem_cons_self ..)) _ (by simpa using ha)
        · have hl : (p :: ps).getLastD [] ∈ p :: ps := by
            rw [List.getLastD_eq_getLast?]
            cases hg : (p :: ps).getLast? with
            | none => simp at hg
            | some x => exact List.mem_of_getLast? hg
          exact pyInt_nonneg _ (hparts _ hl) _ hb
    · cases h
  · cases h

example : parseRegion "c:-5-7" = .error .valueError ∧ parseRegion "c:5--7" = .ok ("c", 5, 7) ∧ parseRegion "c:+5-+7" = .ok ("c", 5, 7) := by decide

/-- what `int()` accepts beyond canonical decimals (all of it modelled): blanks around, a '+', leading zeros, single underscores -/
example : parseRegion "c 1: 05 -\t+1_0\n" = .ok ("c 1", 5, 10) ∧ parseRegion "c:1__0-2" = .error .valueError ∧
    parseRegion "c:1-2_" = .error .valueError ∧ parseRegion "c:+ 1-2" = .error .valueError ∧
    parseRegion "c:\x1c1-2" = .error .valueError ∧ parseRegion "c:\u00a01-2\u3000" = .ok ("c", 1, 2) := by decide

end Gaftools.TextLayerProps
