import Gaftools.Props.C18
import Gaftools.Spec.Order
import Gaftools.Proofs.OrderLemmas
/-!
# C06 — order_gfa assigns BO/NO tags that encode the bubble chain   (PARTIAL)

Proved here and in `Props/C18.lean`: the traversal of a path-shaped scaffold graph from one of its ends is the path itself
(so the chain elements are visited in chain order), the numbering of a traversal (`numberChain_*`), and the consecutive
disjoint BO ranges of the chromosomes (`runOrder_ranges`).
Stated in full but NOT proved in general (`ChainCorrect`): that `decompose` of a component with a linear bubble chain satisfies
`chainSpecB` — this needs exactness of `biccs` (C15's open part) and "census ⇒ path". It is decided per run by evaluating
`chainSpecB`, with the definition-level decomposition, on what the real tool wrote.
-/
namespace Gaftools.C06
open Gaftools.Gfa Gaftools.Algo Gaftools.Order Gaftools.Spec.Order

/-- FULL statement of the chain clauses of C06 for the model of `decompose_and_order` (proved in `Props/C06f.lean`).
    Node ids hold no tab — they are fields of tab-separated lines; without that hypothesis a node named like a bubble
    ("\tbubble0") would be confused with the bubble in the scaffold graph, so the statement would be false. -/
def ChainCorrect : Prop :=
  ∀ (nb : V → List V) (comp : List V) (so : V → Option Int) (sn : V → Option String) (l : Local),
    Gaftools.Spec.Graph.Undirected nb comp → comp.Nodup → Gaftools.Spec.Graph.connectedB nb comp = true →
    (∀ v ∈ comp, '\t' ∉ v.toList) →
    decompose nb comp so sn = .ok l → 2 ≤ l.aps.length →
    chainSpecB nb comp so (fun v => (l.order.find? (·.1 == v)).map (fun x => ((x.2.1 : Int), (x.2.2 : Int)))) 0 = true

/-- a path graph on the distinct names `p`: the neighbours of an inner element are its predecessor and successor -/
def IsPathNb (nb : V → List V) (p : List V) : Prop :=
  p.Nodup ∧ ∀ i (hi : i < p.length), ∀ x, x ∈ nb p[i] ↔ ((i ≥ 1 ∧ p[i - 1]? = some x) ∨ p[i + 1]? = some x)

/-- depth-first traversal of a path graph from its first element enumerates the path in order -/
theorem dfs_path (nb : V → List V) (p : List V) (hp : IsPathNb nb p) (hne : p ≠ []) :
    dfs nb p (p.head hne) = p := by
  exact Gaftools.Proofs.Order.dfs_path_perm nb p p hp hne (List.Perm.refl p)

/-- … and from its last element, the reversed path (the code then reverses it when the reference offsets decrease) -/
theorem dfs_path_rev (nb : V → List V) (p : List V) (hp : IsPathNb nb p) (hne : p ≠ []) :
    dfs nb p (p.getLast hne) = p.reverse := by
  have hne' : p.reverse ≠ [] := by simpa using hne
  have h := Gaftools.Proofs.Order.dfs_path_perm nb p.reverse p (Gaftools.Proofs.Order.pathNb_reverse nb p hp) hne'
    (List.reverse_perm p).symm
  rw [List.head_reverse] at h
  exact h

/-- `Vs` may list the elements in any order (the scaffold graph's dict order is unrelated to the chain order) -/
theorem dfs_path_perm (nb : V → List V) (p Vs : List V) (hp : IsPathNb nb p) (hne : p ≠ []) (hperm : Vs.Perm p) :
    dfs nb Vs (p.head hne) = p := by
  exact Gaftools.Proofs.Order.dfs_path_perm nb p Vs hp hne hperm

end Gaftools.C06
