import Gaftools.Props.TieA3
import Gaftools.Props.TieA18
import Gaftools.Props.TieA19
import Gaftools.Props.TieA22
import Gaftools.Props.TieA24
import Gaftools.Props.TieA26
/-!
# Non-vacuity audit of `TieA3`, `TieA18`, `TieA19`, `TieA22`, `TieA24`, `TieA26`

For every main theorem of these files: an `example` that applies the theorem to a concrete, non-trivial input (all hypotheses
discharged), and next to it an `example … := by decide` (or a `#guard`) that pins the VALUE of the generated function on that input, so
that the generated side is seen not to be degenerate (it differs between inputs / is not the initial state, `none`, `[]`).

`#guard` instead of `decide` is used where the definition runs through `List.mergeSort` (well-founded recursion, does not reduce in
the kernel): `pySortCmp`, `sortAlns`, `firstPass`, `sortLines` in the `TieA24` section.  `decide +kernel` (evaluation by the kernel itself, nothing
added to the trusted base) is used for `parseArgs` / `accepted` / `effect` on concrete command lines, as `Props/Cli.lean` does.
-/
namespace Gaftools.NonVacuousD
deriving instance DecidableEq for Except

/-! ## TieA3 : collector protocol -/
section A3
open Gaftools.Realign Gaftools.Gen Gaftools.TieA

/-- three workers: one running with work left and one message in its feeder, one exited normally, one died with status 3 -/
def sMixed : St :=
  { ws := [⟨[.item 1, .sentinel], [.item 0], .running⟩, ⟨[], [], .exited 0⟩, ⟨[.sentinel], [], .exited 3⟩],
    chan := [], pc := .atGet, nSent := 1, got := [5] }
/-- two workers, both exited normally -/
def sClean : St :=
  { ws := [⟨[], [], .exited 0⟩, ⟨[], [], .exited 0⟩], chan := [], pc := .atGet, nSent := 1, got := [4, 2] }
/-- two workers, both still running -/
def sBusy : St :=
  { ws := [⟨[.item 3, .sentinel], [], .running⟩, ⟨[.sentinel], [.item 7], .running⟩], chan := [.item 2, .sentinel], pc := .atGet, nSent := 0, got := [] }

example : oneIsAlive (procs sMixed) = anyRunning sMixed := oneIsAlive_gen sMixed
example : procs sMixed = [(true, none), (false, some 0), (false, some 3)] := by decide
example : oneIsAlive (procs sMixed) = true ∧ oneIsAlive (procs sClean) = false := by decide

example : allAreAlive (procs sBusy) = sBusy.ws.all (fun w => w.st == .running) := allAreAlive_gen sBusy
example : allAreAlive (procs sBusy) = true ∧ allAreAlive (procs sMixed) = false := by decide

example : allExited (procs sClean) = allExitedZero sClean := allExited_gen sClean
example : allExited (procs sMixed) = allExitedZero sMixed := allExited_gen sMixed
example : allExited (procs sClean) = true ∧ allExited (procs sMixed) = false ∧ allExited (procs sBusy) = false := by decide

example : oneFailed (procs sMixed) = anyFailed sMixed := oneFailed_gen sMixed
example : oneFailed (procs sMixed) = true ∧ oneFailed (procs sClean) = false ∧ oneFailed (procs sBusy) = false := by decide

example : evalPred sMixed .failed = oneFailed (procs sMixed) ∧ evalPred sMixed .alive = oneIsAlive (procs sMixed) ∧
    evalPred sMixed .exited = allExited (procs sMixed) ∧ evalPred sMixed .allAlive = allAreAlive (procs sMixed) := evalPred_gen sMixed
example : (evalPred sMixed .failed, evalPred sMixed .alive, evalPred sMixed .exited, evalPred sMixed .allAlive) = (true, true, false, false)
    ∧ (evalPred sClean .failed, evalPred sClean .alive, evalPred sClean .exited, evalPred sClean .allAlive) = (false, false, true, false) := by decide

/-- the translated handlers, run poll by poll through the transition system: a timeout in `sMixed` ends in `sys.exit(1)` after ONE
    poll, in `sClean` it goes back to `get` after THREE polls, in `sBusy` after TWO: the handler is not a constant -/
example : handlerMain = refHandler := handlerMain_eq
example : handlerLeft = refHandler := handlerLeft_eq
example : (runH handlerMain sMixed [.pTimeout, .pCheck]).pc = .failed ∧ (runH handlerMain sClean [.pTimeout, .pCheck]).pc ≠ .atGet
    ∧ (runH handlerMain sClean [.pTimeout, .pCheck, .pCheck, .pCheck]).pc = .atGet
    ∧ (runH handlerMain sBusy [.pTimeout, .pCheck, .pCheck]).pc = .atGet
    ∧ (runH handlerLeft sMixed [.pTimeout, .pCheck]).pc = .failed := by decide
/-- a handler with the first two polls exchanged is a different program with a different run -/
example : handlerMain ≠ .test .alive (.leaf .cont) (.test .failed (.leaf .exit1) (.test .exited (.leaf .cont) (.leaf .exit1))) := by decide

example : step sMixed .pTimeout = stepH handlerMain sMixed .pTimeout := step_genMain sMixed .pTimeout
example : step (step sMixed .pTimeout) .pCheck = stepH handlerLeft (step sMixed .pTimeout) .pCheck := step_genLeft _ _
example : stepH handlerMain sMixed .pTimeout ≠ sMixed ∧ (stepH handlerMain sMixed .pTimeout).pc = .eval handlerMain := by decide
example : step sBusy .pGet = stepH handlerMain sBusy .pGet := step_genMain sBusy .pGet
example : (stepH handlerMain sBusy .pGet).got = [2] ∧ (stepH handlerMain sBusy .pGet).chan = [.sentinel] := by decide

/-- `receive`: a sentinel that is not the last one, the last sentinel, a record -/
example : (applyRecv (onObjectMain (Msg.sentinel == .sentinel)) sMixed .sentinel).map
      (fun s' => if loopOnMain s'.nSent s'.ws.length then { s' with pc := .atGet } else { s' with pc := .done }) = some (receive sMixed .sentinel) :=
  receive_genMain sMixed .sentinel
example : (applyRecv (onObjectMain (Msg.item 9 == .sentinel)) sMixed (.item 9)).map
      (fun s' => if loopOnMain s'.nSent s'.ws.length then { s' with pc := .atGet } else { s' with pc := .done }) = some (receive sMixed (.item 9)) :=
  receive_genMain sMixed (.item 9)
example : (applyRecv (onObjectLeft (Msg.sentinel == .sentinel)) sClean .sentinel).map
      (fun s' => if loopOnLeft s'.nSent s'.ws.length then { s' with pc := .atGet } else { s' with pc := .done }) = some (receive sClean .sentinel) :=
  receive_genLeft sClean .sentinel
example : (receive sMixed .sentinel).nSent = 2 ∧ (receive sMixed .sentinel).pc = .atGet ∧ (receive sClean .sentinel).pc = .done
    ∧ (receive sMixed (.item 9)).got = [5, 9] ∧ (receive sMixed (.item 9)).nSent = 1 := by decide
example : onObjectMain true = .count ∧ onObjectMain false = .keep ∧ onObjectLeft true ≠ onObjectLeft false
    ∧ loopOnMain 2 3 = true ∧ loopOnMain 3 3 = false ∧ loopOnLeft 0 2 = true ∧ loopOnLeft 2 2 = false := by decide
end A3

/-! ## TieA18 : batching -/
section A18
open Gaftools.Realign Gaftools.Gen.RealignBatch Gaftools.TieA

def lines7 : List Nat := [10, 11, 12, 13, 14, 15, 16]
/-- a collector that delivers the results of its round in reverse order, except in round 1 where it loses the first one -/
def collRev (k : Nat) (ps : List Proc) : List Nat := ((ps.flatMap rbPrios).reverse).drop k

example : (realignGaf 2 2 collRev lines7).runs = (rbGroups (2 : Int).toNat (2 : Int).toNat lines7).map rbStarted := realignGaf_runs 2 2 collRev lines7
example : (realignGaf 2 2 collRev lines7).runs = [[⟨[(10, 0), (11, 1)], true⟩, ⟨[(12, 2), (13, 3)], true⟩], [⟨[(14, 4), (15, 5)], true⟩, ⟨[(16, 6)], true⟩]] := by decide
example : (realignGaf 3 1 collRev lines7).runs ≠ (realignGaf 2 2 collRev lines7).runs := by decide
example : (realignGaf 2 2 collRev lines7).out = rbWritten collRev 0 (realignGaf 2 2 collRev lines7).runs := realignGaf_out 2 2 collRev lines7
example : (realignGaf 2 2 collRev lines7).out = [0, 1, 2, 3, 4, 5] := by decide
/-- `batch_size ≤ 0`, `cores ≤ 0` -/
example : (realignGaf 0 (-3) collRev lines7).runs = (rbGroups (0 : Int).toNat (-3 : Int).toNat lines7).map rbStarted := realignGaf_runs 0 (-3) collRev lines7
example : (realignGaf 0 (-3) collRev lines7).runs.map (List.map rbPrios) = [[[0, 1, 2, 3, 4, 5, 6]]] := by decide

example : (rbGroups 2 2 lines7).map (List.map (List.map Prod.snd)) = groups 2 2 (List.range lines7.length) := rbGroups_prios 2 2 lines7
example : (rbGroups 2 2 lines7).map (List.map (List.map Prod.fst)) = chunks 2 (lines7.length + 1) (chunks 2 (lines7.length + 1) lines7) := rbGroups_records 2 2 lines7
example : groups 2 2 (List.range lines7.length) = [[[0, 1], [2, 3]], [[4, 5], [6]]] := by decide

example : workerPrio (12, 2) = (12, 2).2 := workerPrio_gen (12, 2)
example : workerTodo (fun t i => t.1 % 2 == 0 && i == 0) [(12, 2), (13, 3)] = ([(12, 2), (13, 3)].map workerPrio).map Msg.item ++ [Msg.sentinel] :=
  workerTodo_gen _ _
example : workerTodo (fun t i => t.1 % 2 == 0 && i == 0) [(12, 2), (13, 3)] = [.item 2, .item 3, .sentinel]
    ∧ workerTodo (fun _ _ => true) [(16, 6)] = [.item 6, .sentinel] := by decide

def round0 : List Proc := [⟨[(10, 0), (11, 1)], true⟩, ⟨[(12, 2), (13, 3)], true⟩]
example : init (round0.map rbPrios) =
      { ws := round0.map (fun p => ⟨workerTodo (fun _ _ => false) p.batch, [], .running⟩), chan := [],
        pc := if round0.isEmpty then .done else .atGet, nSent := collectorInitMain, got := [] } ∧
    collectorInitLeft = collectorInitMain := init_gen (fun _ _ => false) round0
example : (init (round0.map rbPrios)).ws = [⟨[.item 0, .item 1, .sentinel], [], .running⟩, ⟨[.item 2, .item 3, .sentinel], [], .running⟩]
    ∧ (init (round0.map rbPrios)).pc = .atGet ∧ (init ([] : List (List Nat))).pc = .done := by decide

/-- schedule of round 0: worker 1 delivers everything and exits first; the parent then times out, polls `one_failed` (no),
    `one_is_alive` (yes: worker 0), goes back to `get`; then worker 0 delivers -/
def sched0 : List Ev :=
  [.wPut 1, .wPut 1, .wPut 1, .wFlush 1, .wFlush 1, .wFlush 1, .pGet, .pGet, .pGet, .wExit 1, .pTimeout, .pCheck, .pCheck,
   .wPut 0, .wPut 0, .wPut 0, .wFlush 0, .wFlush 0, .wFlush 0, .pGet, .pGet, .pGet]
/-- schedule of round 1 (batches `[4, 5]`, `[6]`): interleaved -/
def sched1 : List Ev :=
  [.wPut 0, .wPut 1, .wFlush 1, .wFlush 0, .pGet, .pGet, .wPut 1, .wFlush 1, .pGet, .wPut 0, .wPut 0, .wFlush 0, .wFlush 0, .pGet, .pGet]

example : (run (init [[0, 1], [2, 3]]) sched0).got = [2, 3, 0, 1] ∧ (run (init [[4, 5], [6]]) sched1).got = [6, 4, 5] := by decide

example : (realignGaf 2 2 (rbColl [sched0, sched1]) lines7).out = C11.fileOutput (2 : Int).toNat (2 : Int).toNat lines7.length [sched0, sched1] :=
  realignGaf_fileOutput 2 2 lines7 [sched0, sched1]
example : (realignGaf 2 2 (rbColl [sched0, sched1]) lines7).out = List.range lines7.length :=
  realignGaf_in_order 2 2 (by decide) (by decide) lines7 [sched0, sched1] (by decide) (by decide)
example : (realignGaf 2 2 (rbColl [sched0, sched1]) lines7).out = [0, 1, 2, 3, 4, 5, 6] := by decide
/-- the output depends on the schedules: round 1 cut short after two `get`s loses a record -/
example : (realignGaf 2 2 (rbColl [sched0, sched1.take 6]) lines7).out = [0, 1, 2, 3, 4, 6] := by decide

example : batchSize false (some 7) = 1000 ∧ batchSize true (some 3) = 3 ∧ batchSize true none = 1000 := batchSize_gen (some 7) 3
example : 0 < (batchSize false (some (-5))).toNat := batchSize_pos (some (-5))
example : batchSize true (some 3) ≠ batchSize false (some 3) := by decide
end A18

/-! ## TieA19 : the worker -/
section A19
open Gaftools.Gaf Gaftools.Cigar Gaftools.TieA
open Gaftools.Gen.Realign (Wfa Put WorkerSt_op_type workerFor_op_type workerFor_gaf_line worker batchEntry)

/-- an answer of the aligner with all five accepted codes (4 = soft clip) -/
def ctAll : List (Nat × Nat) := [(0, 3), (8, 1), (1, 2), (2, 4), (4, 5), (0, 12)]
theorem ctAll_accepted : CodesAccepted ctAll := by unfold CodesAccepted ctAll; decide
def st0 : WorkerSt_op_type := ⟨0, 0, 0, 0, 0, 0, []⟩
def view3 (t : WorkerSt_op_type) : Int × Int × Str := (t.v_match, t.v_cigar_len, t.v_cigar)

example : ∃ t, ctAll.foldlM workerFor_op_type st0 = some t ∧
      t.v_match = st0.v_match + (nMatch (opsOf ctAll) : Nat) ∧
      t.v_cigar_len = st0.v_cigar_len + (blockLen (opsOf ctAll) + softOf ctAll : Nat) ∧
      t.v_cigar = st0.v_cigar ++ render (opsOf ctAll) := tally_gen ctAll ctAll_accepted st0
example : (ctAll.foldlM workerFor_op_type st0).map view3 = some (15, 27, "3=1X2I4D12=".toList) := by decide
example : nMatch (opsOf ctAll) = 15 ∧ blockLen (opsOf ctAll) = 22 ∧ softOf ctAll = 5 := by decide
example : ([(0, 3), (1, 2)].foldlM workerFor_op_type st0).map view3 = some (3, 5, "3=2I".toList) := by decide

/-- code 7 (`=` of BAM, which pywfa does not emit) is not accepted -/
def ctBad : List (Nat × Nat) := [(0, 3), (7, 2), (8, 1)]
theorem ctBad_not : ¬ CodesAccepted ctBad := by unfold CodesAccepted ctBad; decide
example : ctBad.foldlM workerFor_op_type st0 = none := tally_fails ctBad ctBad_not st0
example : (ctBad.foldlM workerFor_op_type st0).isNone = true ∧ (ctAll.foldlM workerFor_op_type st0).isSome = true := by decide

/-- an aligner that knows two (reference, read) pairs -/
def wfaT (ref q : Str) (_clip : Bool) : Wfa :=
  if ref = "ACGT".toList ∧ q = "ACGAAA".toList then ⟨[(0, 3), (8, 1), (1, 2)], "3M1X2I".toList⟩
  else if ref = "GGTTA".toList ∧ q = "GGA".toList then ⟨[(0, 2), (2, 2), (0, 1)], "2M2D1M".toList⟩
  else if ref = "TT".toList then ⟨[(0, 1), (5, 1)], "1M1P".toList⟩
  else ⟨[], []⟩

/-- realigned; has a `cg:Z:` tag between two others (rewritten in place) -/
def rA : Rec := ⟨"readA".toList, 6, 0, 6, "+".toList, ">s1>s2".toList, 8, 0, 4, 4, 6, 60, true, "4=2I".toList,
  [("tp:A:".toList, "P".toList), ("cg:Z:".toList, "4=2I".toList), ("NM:i:".toList, "2".toList)]⟩
/-- passed through: the read interval is longer than 60 000 -/
def rB : Rec := ⟨"readB".toList, 90000, 100, 70000, "-".toList, "<s9".toList, 80000, 5, 69905, 69000, 69900, 20, true, "69900=".toList,
  [("cg:Z:".toList, "69900=".toList)]⟩
/-- realigned; no tag at all (`cg:Z:` is appended) -/
def rC : Rec := ⟨"readC".toList, 3, 0, 3, "+".toList, ">s4".toList, 5, 0, 5, 1, 1, 0, true, [], []⟩
def batchT : List (Rec × Str × Str × Nat) :=
  [(rA, "ACGT".toList, "ACGAAA".toList, 7), (rB, "AC".toList, "AC".toList, 8), (rC, "GGTTA".toList, "GGA".toList, 9)]

theorem batchT_ok : ∀ e ∈ batchT, EntryOk wfaT e := by
  intro e he
  simp only [batchT, List.mem_cons, List.not_mem_nil, or_false] at he
  rcases he with rfl | rfl | rfl <;> (unfold EntryOk CodesOk; decide)
example : passThrough rA = false ∧ passThrough rB = true ∧ passThrough rC = false := by decide

def quT : List Put := [some (6, "earlier\n".toList)]
example : workerFor_gaf_line wfaT quT (rA, "ACGT".toList, "ACGAAA".toList, 7) = some (quT ++ [lineOf wfaT (rA, "ACGT".toList, "ACGAAA".toList, 7)]) :=
  workerStep_gen wfaT quT _ (batchT_ok _ (by decide))
example : workerFor_gaf_line wfaT quT (rB, "AC".toList, "AC".toList, 8) = some (quT ++ [lineOf wfaT (rB, "AC".toList, "AC".toList, 8)]) :=
  workerStep_gen wfaT quT _ (batchT_ok _ (by decide))
example : workerFor_gaf_line wfaT quT (rA, "ACGT".toList, "ACGAAA".toList, 7) =
    some (quT ++ [some (7, "readA\t6\t0\t6\t+\t>s1>s2\t8\t0\t4\t3\t6\t60\ttp:A:P\tcg:Z:3=1X2I\tNM:i:2\n".toList)]) := by decide
example : workerFor_gaf_line wfaT [] (rB, "AC".toList, "AC".toList, 8) =
    some [some (8, "readB\t90000\t100\t70000\t-\t<s9\t80000\t5\t69905\t69000\t69900\t20\tcg:Z:69900=\n".toList)] := by decide

/-- an operation code the Python does not know (5 = `P`) -/
example : workerFor_gaf_line wfaT quT (rC, "TT".toList, "T".toList, 3) = none :=
  workerStep_fails wfaT quT rC "TT".toList "T".toList 3 (by decide) (by unfold CodesAccepted; decide)

example : worker wfaT batchT quT = some (quT ++ batchT.map (lineOf wfaT) ++ [none]) := worker_gen wfaT batchT quT batchT_ok
example : worker wfaT batchT [] = some
    [some (7, "readA\t6\t0\t6\t+\t>s1>s2\t8\t0\t4\t3\t6\t60\ttp:A:P\tcg:Z:3=1X2I\tNM:i:2\n".toList),
     some (8, "readB\t90000\t100\t70000\t-\t<s9\t80000\t5\t69905\t69000\t69900\t20\tcg:Z:69900=\n".toList),
     some (9, "readC\t3\t0\t3\t+\t>s4\t5\t0\t5\t3\t5\t0\tcg:Z:2=2D1=\n".toList), none] := by decide
example : (worker wfaT batchT []).map (fun puts => puts.map msgOf) =
    some ((batchT.map (fun e => e.2.2.2)).map Realign.Msg.item ++ [Realign.Msg.sentinel]) := worker_todo wfaT batchT batchT_ok
example : (worker wfaT batchT []).map (fun puts => puts.map msgOf) = some [.item 7, .item 8, .item 9, .sentinel] := by decide
example : (Realign.init [batchT.map (fun e => e.2.2.2)]).ws = [⟨((worker wfaT batchT []).getD []).map msgOf, [], .running⟩] :=
  worker_init wfaT batchT batchT_ok

def extractPathT (p : Str) : Str := if p = ">s1>s2".toList then "TTACGTGG".toList else []
def fetchT (name : Str) (a b : Nat) : Str := if name = "readA".toList then ("ACGAAACC".toList.drop a).take (b - a) else []
def rD : Rec := { rA with ps := 2, pe := 6, qs := 0, qe := 6 }
example : batchEntry extractPathT fetchT rD 7 =
    (rD, ((extractPathT rD.path).drop rD.ps).take (rD.pe - rD.ps), fetchT rD.qname rD.qs rD.qe, 7) := batchEntry_gen extractPathT fetchT rD 7
example : batchEntry extractPathT fetchT rD 7 = (rD, "ACGT".toList, "ACGAAA".toList, 7) := by decide
example : (batchEntry extractPathT fetchT { rD with ps := 0, pe := 3 } 8).2 = ("TTA".toList, "ACGAAA".toList, 8) := by decide
example : [("tp:A:".toList, "P".toList), ("NM:i:".toList, "2".toList)].foldl Gaftools.Gen.Realign.workerFor_k "col12".toList =
    "col12".toList ++ ([("tp:A:".toList, "P".toList), ("NM:i:".toList, "2".toList)].map (fun kv => kv.1 ++ kv.2)).flatMap (fun f => '\t' :: f) := tagLoop_gen _ _
example : [("tp:A:".toList, "P".toList), ("NM:i:".toList, "2".toList)].foldl Gaftools.Gen.Realign.workerFor_k "col12".toList = "col12\ttp:A:P\tNM:i:2".toList := by decide
example : decide (((rB.qe : Int) - (rB.qs : Int)) > (60000 : Int)) = passThrough rB := guard_gen rB 2 2
end A19

/-! ## TieA22 : the haplotag TSV, reverse_cigar, gzip magic -/
section A22
open Gaftools.Gaf Gaftools.Phase Gaftools.Gen.PhaseTsv Gaftools.TieA Gaftools.ConvText

def e0 : TsvEntry := ⟨"r0".toList, "H2".toList, "3".toList, "chr2".toList⟩
def e1 : TsvEntry := ⟨"r1".toList, "H1".toList, "5".toList, "chr1".toList⟩
def l1 : Str := "r1\tH1\t5\tchr1\n".toList
def l1dup : Str := "r1\tH2\t9\tchr7\textra\r\n".toList
def l0 : Str := "r0\tH2\t3\tchr2\n".toList
def l2 : Str := "r2\tnone\tnone\tchr1\n".toList

/-- a new read / a read seen before (first entry wins) -/
example : tsvBody ([e0].map encEntry) l1 = some ((tsvStep [e0] e1).map encEntry) := tsvBody_gen [e0] l1 e1 (by decide)
example : tsvBody ([e0, e1].map encEntry) l1dup = some ((tsvStep [e0, e1] ⟨"r1".toList, "H2".toList, "9".toList, "chr7".toList⟩).map encEntry) :=
  tsvBody_gen [e0, e1] l1dup _ (by decide)
example : tsvBody ([e0].map encEntry) l1 =
    some [("r0".toList, ⟨"chr2".toList, "H2".toList, "3".toList⟩), ("r1".toList, ⟨"chr1".toList, "H1".toList, "5".toList⟩)] := by decide
example : tsvBody ([e0, e1].map encEntry) l1dup = some ([e0, e1].map encEntry) := by decide

/-- short lines: a repeated read is skipped, a new read is the `IndexError` -/
example : tsvBody ([e0, e1].map encEntry) "r1\tH1\n".toList =
    (match splitTab (rstrip "r1\tH1\n".toList) with
      | k :: _ => if [e0, e1].any (·.read == k) then some ([e0, e1].map encEntry) else none
      | [] => none) := tsvBody_short [e0, e1] _ (by decide)
example : tsvBody ([e0, e1].map encEntry) "r1\tH1\n".toList = some ([e0, e1].map encEntry)
    ∧ tsvBody ([e0, e1].map encEntry) "r9\tH1\t4\n".toList = none := by decide
example : tsvBody ([e0, e1].map encEntry) "r9\tH1\t4\n".toList =
    (match splitTab (rstrip "r9\tH1\t4\n".toList) with
      | k :: _ => if [e0, e1].any (·.read == k) then some ([e0, e1].map encEntry) else none
      | [] => none) := tsvBody_short [e0, e1] _ (by decide)

def tsvT : List Str := [l0, l1, l1dup, l2]
def esT : List TsvEntry := [e0, e1, ⟨"r1".toList, "H2".toList, "9".toList, "chr7".toList⟩, ⟨"r2".toList, "none".toList, "none".toList, "chr1".toList⟩]
example : tsvLoop tsvT = tsvT.foldlM tsvBody [] := tsvLoop_eq tsvT
example : tsvLoop tsvT = some ((buildPhase esT).map encEntry) := tsvLoop_gen tsvT esT (by decide)
example : buildPhase esT = [e0, e1, ⟨"r2".toList, "none".toList, "none".toList, "chr1".toList⟩] := by decide
example : tsvLoop tsvT = some [("r0".toList, ⟨"chr2".toList, "H2".toList, "3".toList⟩), ("r1".toList, ⟨"chr1".toList, "H1".toList, "5".toList⟩),
    ("r2".toList, ⟨"chr1".toList, "none".toList, "none".toList⟩)] := by decide

/-- soundness without hypothesis on the lines: a file with a short duplicate line -/
def tsvS : List Str := [l1, "r1\n".toList, l0]
example : [e1, e0].map encEntry = (buildPhase (tsvS.filterMap parseTsvLine)).map encEntry :=
  tsvLoop_sound tsvS ([e1, e0].map encEntry) (by decide)
example : tsvLoop (tsvS ++ ["r7\tH1\n".toList]) = none := by decide

example : dHas ([e0, e1].map encEntry) "r1".toList = [e0, e1].any (·.read == "r1".toList) := dHas_enc _ _
example : dGet ([e0, e1].map encEntry) "r1".toList = (lookupPhase [e0, e1] "r1".toList).map (fun e => (encEntry e).2) := dGet_enc _ _
example : dGet ([e0, e1].map encEntry) "r1".toList = some ⟨"chr1".toList, "H1".toList, "5".toList⟩ ∧ dGet ([e0, e1].map encEntry) "zz".toList = none
    ∧ dHas ([e0, e1].map encEntry) "r1".toList = true ∧ dHas ([e0, e1].map encEntry) "zz".toList = false := by decide

def gafT : List Str :=
  ["r1\t100\t0\t100\t+\t>s1>s2\t300\t10\t110\t95\t100\t60\tcg:Z:100=\n".toList,
   "r2\t50\t5\t45\t-\t<s3\t80\t0\t40\t40\t40\t0\ttp:A:P\n".toList,
   "r5\t50\t5\t45\t-\t<s3\t80\t0\t40\t40\t40\t0\n".toList]
def outT : List Str :=
  ["r1\t100\t0\t100\t+\t>s1>s2\t300\t10\t110\t95\t100\t60\tps:Z:chr1-5\tht:Z:H1\tcg:Z:100=".toList,
   "r2\t50\t5\t45\t-\t<s3\t80\t0\t40\t40\t40\t0\tps:Z:none\tht:Z:none\ttp:A:P".toList,
   "r5\t50\t5\t45\t-\t<s3\t80\t0\t40\t40\t40\t0\tps:Z:none\tht:Z:none".toList]
theorem phaseT : phaseFile tsvT gafT = some outT := by decide
example : ∃ phase : List TsvEntry, tsvLoop tsvT = some (phase.map encEntry) ∧
      (∀ q, dHas (phase.map encEntry) q = (lookupPhase phase q).isSome) ∧
      (gafT.mapM parseLine).map (fun recs => recs.map (fun r => joinTab (phaseFields phase r))) = some outT :=
  phaseFile_gen tsvT gafT outT phaseT

example : reverseCigar "3=1X2I10D".toList = some (reverseCigarStr "3=1X2I10D".toList) := reverseCigar_gen _ (by decide)
example : reverseCigar "3=1X2I10D".toList = some "10D2I1X3=".toList ∧ reverseCigar "7=".toList = some "7=".toList := by decide
example : Gaftools.Stat.groupDigits "3=1X2I10D".toList = ["3", "=", "1", "X", "2", "I", "10", "D"].map String.toList := by decide

example : isFileGzipped [0x1f, 0x8b, 0x08, 0x00, 0x00] = true := (isFileGzipped_iff _).2 ⟨[0x08, 0x00, 0x00], rfl⟩
example : ¬ ∃ rest, ([0x72, 0x31, 0x09] : List UInt8) = 0x1f :: 0x8b :: rest := fun h => by
  have := (isFileGzipped_iff [0x72, 0x31, 0x09]).2 h
  revert this; decide
example : isFileGzipped [0x72, 0x31, 0x09] = false ∧ isFileGzipped [0x1f] = false ∧ isFileGzipped [0x8b, 0x1f] = false := by decide
end A22

/-! ## TieA24 : process_alignment, first pass of sort -/
section A24
open Gaftools.Gaf Gaftools.Sort Gaftools.ConvText Gaftools.SortText Gaftools.TieA.SortPass
open Gaftools.Gen.SortPass (PyExc filterNone reSplit whileTrue pySortCmp processAlignment_for1 firstPass_while1 firstPass GafFile)
deriving instance DecidableEq for GafFile

/-- an rGFA: three scaffold nodes of chr1, a bubble node between them, a scaffold node of chr2, an untagged node -/
def nodesT (n : String) : Option NodeTags :=
  if n = "s1" then some ⟨"chr1", 1, 0, 0⟩ else if n = "s2" then some ⟨"chr1", 2, 0, 0⟩ else if n = "s3" then some ⟨"chr1", 3, 0, 0⟩
  else if n = "b1" then some ⟨"chr1", 2, 1, 1⟩ else if n = "t1" then some ⟨"chr2", 7, 0, 0⟩ else if n = "u1" then some ⟨"NA", -1, -1, 0⟩
  else none

example : filterNone (reSplit (fun c => c == '>' || c == '<') (fun c => c == '>' || c == '<') ">s1<b1>s2".toList) = pathTokens ">s1<b1>s2".toList :=
  tokens_gen _
example : filterNone (reSplit (fun c => c == '>' || c == '<') (fun c => c == '>' || c == '<') ">s1<b1>s2".toList)
    = [">", "s1", "<", "b1", ">", "s2"].map String.toList := by decide

def pst : Option Str × List (Option Str) × Option String := (some ['<'], [some ['>']], some "chr1")
example : processAlignment_for1 nodesT pst ['>'] = .ok (some ['>'], pst.2.1, pst.2.2) := for1_orient nodesT pst ['>'] (by decide)
example : processAlignment_for1 nodesT pst ['>'] ≠ .ok pst := by decide

/-- a scaffold node read in reverse, the bubble node (skipped), a node of another chromosome (assert), an unknown node (KeyError) -/
example : processAlignment_for1 nodesT (stOf false ⟨some "chr1", [true]⟩) "s2".toList =
    (match loopStep nodesT ⟨some "chr1", [true]⟩ (false, String.ofList "s2".toList) with
      | .ok st' => .ok (stOf false st') | .error e => .error (excOf e)) := for1_name nodesT false _ _ (by decide)
example : processAlignment_for1 nodesT (stOf false ⟨some "chr1", [true]⟩) "s2".toList = .ok (some ['<'], [some ['>'], some ['<']], some "chr1") := by decide
example : processAlignment_for1 nodesT (stOf false ⟨some "chr1", [true]⟩) "b1".toList = .ok (some ['<'], [some ['>']], some "chr1") := by decide
example : processAlignment_for1 nodesT (stOf false ⟨some "chr1", [true]⟩) "t1".toList = .error .assertionError := by decide
example : processAlignment_for1 nodesT (stOf false ⟨some "chr1", [true]⟩) "zz".toList = .error .keyError := by decide
example : processAlignment_for1 nodesT (stOf false ⟨some "chr1", [true]⟩) "t1".toList =
    (match loopStep nodesT ⟨some "chr1", [true]⟩ (false, String.ofList "t1".toList) with
      | .ok st' => .ok (stOf false st') | .error e => .error (excOf e)) := for1_name nodesT false _ _ (by decide)

def toksT : List Str := ["s1", "<", "b1", "s2", ">", "s3"].map String.toList
example : toksT.foldlM (processAlignment_for1 nodesT) (stOf true ⟨none, []⟩) =
    (match Sort.loop nodesT ⟨none, []⟩ (stepsOf toksT true) with
      | .ok st' => .ok (stOf (lastO toksT true) st') | .error e => .error (excOf e)) := for1_fold nodesT toksT true ⟨none, []⟩
example : toksT.foldlM (processAlignment_for1 nodesT) (stOf true ⟨none, []⟩) = .ok (some ['>'], [some ['>'], some ['<'], some ['>']], some "chr1") := by decide
example : stepsOf toksT true = [(true, "s1"), (false, "b1"), (false, "s2"), (true, "s3")] := by decide

/-- `Anchored`, decided -/
def anchoredB : List Str → Bool
  | [] => true
  | [o] => isOrientTok o
  | o :: nm :: rest => isOrientTok o && !isOrientTok nm && !isOrientTok ((nm :: rest).getLast (by simp))
theorem anchored_ofB (toks : List Str) (h : anchoredB toks = true) : Anchored toks := by
  match toks, h with
  | [], _ => exact Or.inl rfl
  | [o], h => exact Or.inr (Or.inl ⟨o, rfl, h⟩)
  | o :: nm :: rest, h =>
    simp only [anchoredB, Bool.and_eq_true, Bool.not_eq_true'] at h
    exact Or.inr (Or.inr ⟨o, nm, rest, rfl, h.1.1, h.1.2, fun _ => h.2⟩)
/-- `RecordOk`, decided -/
def recordOkB (line : Str) : Bool :=
  match splitTab (rstrip line) with
  | _ :: _ :: _ :: _ :: _ :: path :: plen :: ps :: pe :: _ => isDigits plen && isDigits ps && isDigits pe && anchoredB (pathTokens path)
  | _ => false
theorem recordOk_ofB (line : Str) (h : recordOkB line = true) : RecordOk line := by
  unfold recordOkB at h
  split at h
  · next f0 f1 f2 f3 f4 path plen ps pe rest hs =>
    simp only [Bool.and_eq_true] at h
    exact ⟨f0, f1, f2, f3, f4, path, plen, ps, pe, rest, hs, h.1.1.1, h.1.1.2, h.1.2, anchored_ofB _ h.2⟩
  · exact absurd h (by simp)

/-- forward on chr1 through a bubble -/
def L0 : Str := "r0\t100\t0\t100\t+\t>s2>b1>s3\t300\t10\t110\t100\t100\t60\ttp:A:P\n".toList
/-- reverse: start = path length - path end, node = the last one -/
def L1 : Str := "r1\t100\t0\t100\t-\t<s3<b1<s2<s1\t400\t20\t120\t100\t100\t60\n".toList
/-- inversion: two scaffold nodes forward, one reverse -/
def L2 : Str := "r2\t100\t0\t100\t+\t>s1<s2>s3\t300\t5\t105\t100\t100\t60\n".toList
/-- untagged start node: sorted to the end -/
def L3 : Str := "r3\t100\t0\t100\t+\t>u1\t50\t0\t50\t50\t50\t60\r\n".toList
def L4 : Str := "r4\t80\t0\t80\t+\t>s1>b1\t200\t3\t83\t80\t80\t60\n".toList
def linesT : List Str := [L0, L1, L2, L3, L4]

example : Gen.SortPass.processAlignment (["r2", "100", "0", "100", "+", ">s1<s2>s3", "300", "5", "105", "100", "100", "60"].map String.toList) nodesT 2 =
    (match Sort.processAlignment nodesT (parseUnstableSteps ">s1<s2>s3".toList) (toNat "300".toList) (toNat "5".toList) (toNat "105".toList) (2 : Nat) with
      | .ok a => .ok (a.bo, a.no, a.start, a.inv, a.sn) | .error e => .error (excOf e)) :=
  processAlignment_gen nodesT _ _ _ _ _ _ _ _ _ _ 2 (by decide) (anchored_ofB _ (by decide))
example : Gen.SortPass.processAlignment (["r2", "100", "0", "100", "+", ">s1<s2>s3", "300", "5", "105", "100", "100", "60"].map String.toList) nodesT 2
    = .ok (1, 0, 5, 1, "chr1") := by decide
example : Gen.SortPass.processAlignment (["r1", "100", "0", "100", "-", "<s3<b1<s2<s1", "400", "20", "120"].map String.toList) nodesT 1 =
    (match Sort.processAlignment nodesT (parseUnstableSteps "<s3<b1<s2<s1".toList) (toNat "400".toList) (toNat "20".toList) (toNat "120".toList) (1 : Nat) with
      | .ok a => .ok (a.bo, a.no, a.start, a.inv, a.sn) | .error e => .error (excOf e)) :=
  processAlignment_gen nodesT _ _ _ _ _ _ _ _ _ _ 1 (by decide) (anchored_ofB _ (by decide))
example : Gen.SortPass.processAlignment (["r1", "100", "0", "100", "-", "<s3<b1<s2<s1", "400", "20", "120"].map String.toList) nodesT 1
    = .ok (1, 0, 280, 0, "chr1") := by decide
/-- two chromosomes on one path: the `assert` -/
example : Gen.SortPass.processAlignment (["r", "1", "0", "1", "+", ">s1>t1", "30", "0", "1"].map String.toList) nodesT 0 =
    (match Sort.processAlignment nodesT (parseUnstableSteps ">s1>t1".toList) (toNat "30".toList) (toNat "0".toList) (toNat "1".toList) (0 : Nat) with
      | .ok a => .ok (a.bo, a.no, a.start, a.inv, a.sn) | .error e => .error (excOf e)) :=
  processAlignment_gen nodesT _ _ _ _ _ _ _ _ _ _ 0 (by decide) (anchored_ofB _ (by decide))
example : Gen.SortPass.processAlignment (["r", "1", "0", "1", "+", ">s1>t1", "30", "0", "1"].map String.toList) nodesT 0 = .error .assertionError := by decide

theorem linesT_ok : ∀ l ∈ linesT, RecordOk l := fun l hl => recordOk_ofB l (by revert l; decide)
theorem linesT_ne : ∀ l ∈ linesT, l ≠ [] := by decide

example : (recOf nodesT L1 1).toOption = alnOfLine nodesT L1 1 := alnOfLine_gen nodesT L1 1 (linesT_ok _ (by decide))
example : recOf nodesT L1 1 = .ok ⟨1, 1, 0, 280, 0, "chr1"⟩ ∧ recOf nodesT L3 3 = .ok ⟨3, -1, -1, 0, 0, "NA"⟩ := by decide

def accT : List Aln := [⟨0, 2, 0, 10, 0, "chr1"⟩, ⟨1, 1, 0, 280, 0, "chr1"⟩]
example : firstPass_while1 nodesT (⟨2, [L2, L3]⟩, accT, 0) =
    (match recOf nodesT L2 2 with
      | .error e => .error e
      | .ok a => .ok (true, (⟨2 + 1, [L3]⟩, accT ++ [a], if a.inv = 1 then (0 : Int) + 1 else 0))) := while_step nodesT 2 L2 [L3] accT 0 (by decide)
example : firstPass_while1 nodesT (⟨2, [L2, L3]⟩, accT, 0) = .ok (true, (⟨3, [L3]⟩, accT ++ [⟨2, 1, 0, 5, 1, "chr1"⟩], 1)) := by decide
example : firstPass_while1 nodesT (⟨5, []⟩, accT, 1) = .ok (false, (⟨5 + 1, []⟩, accT, 1)) := while_eof nodesT 5 accT 1

example : whileTrue (firstPass_while1 nodesT) 6 (⟨0, linesT⟩, [], 0) =
    (match (linesT.zipIdx 0).mapM (fun (l, i) => recOf nodesT l i) with
      | .error e => .error e
      | .ok alns => .ok (⟨0 + linesT.length + 1, []⟩, [] ++ alns, 0 + ((alns.filter (fun a => a.inv = 1)).length : Nat))) :=
  while_gen nodesT linesT 0 [] 0 6 (by decide) linesT_ne
def alnsT : List Aln := [⟨0, 2, 0, 10, 0, "chr1"⟩, ⟨1, 1, 0, 280, 0, "chr1"⟩, ⟨2, 1, 0, 5, 1, "chr1"⟩, ⟨3, -1, -1, 0, 0, "NA"⟩, ⟨4, 1, 0, 3, 0, "chr1"⟩]
example : whileTrue (firstPass_while1 nodesT) 6 (⟨0, linesT⟩, [], 0) = .ok (⟨6, []⟩, alnsT, 1) := by decide
/-- too little fuel is reported, not hidden -/
example : whileTrue (firstPass_while1 nodesT) 5 (⟨0, linesT⟩, [], 0) = .error .outOfFuel := by decide

example : pySortCmp Gaftools.Gen.cmpGaf alnsT = sortAlns alnsT := sort_gen alnsT
def sortedT : List Aln := [⟨4, 1, 0, 3, 0, "chr1"⟩, ⟨2, 1, 0, 5, 1, "chr1"⟩, ⟨1, 1, 0, 280, 0, "chr1"⟩, ⟨0, 2, 0, 10, 0, "chr1"⟩, ⟨3, -1, -1, 0, 0, "NA"⟩]
#guard pySortCmp Gaftools.Gen.cmpGaf alnsT == sortedT
#guard pySortCmp Gaftools.Gen.cmpGaf alnsT != alnsT

example : firstPass nodesT ⟨0, linesT⟩ 6 =
    (linesT.zipIdx.mapM (fun (l, i) => recOf nodesT l i)).map
      (fun (alns : List Aln) => (sortAlns alns, (((alns.filter (fun (a : Aln) => a.inv = 1)).length : Nat) : Int))) :=
  firstPass_gen nodesT linesT 6 (by decide) linesT_ne
#guard (firstPass nodesT ⟨0, linesT⟩ 6).toOption == some (sortedT, 1)
-- an exception is propagated: a line whose path names an unknown node
#guard (firstPass nodesT ⟨0, [L0, "r9\t1\t0\t1\t+\t>zz\t5\t0\t1\n".toList, L1]⟩ 6).toOption == none

example : (firstPass nodesT ⟨0, linesT⟩ 6).toOption.map (·.1) = (linesT.zipIdx.mapM (fun (l, i) => alnOfLine nodesT l i)).map sortAlns :=
  firstPass_model nodesT linesT 6 (by decide) linesT_ne linesT_ok
example : sortLines nodesT linesT =
    (firstPass nodesT ⟨0, linesT⟩ 6).toOption.map (fun r => r.1.map (fun a => rstrip (linesT.getD a.offset.toNat []) ++ (suffix a).toList)) :=
  sortLines_gen nodesT linesT 6 (by decide) linesT_ne linesT_ok
#guard (sortLines nodesT linesT).map (·.map String.ofList) == some
  ["r4\t80\t0\t80\t+\t>s1>b1\t200\t3\t83\t80\t80\t60\tbo:i:1\tsn:Z:chr1\tiv:i:0",
   "r2\t100\t0\t100\t+\t>s1<s2>s3\t300\t5\t105\t100\t100\t60\tbo:i:1\tsn:Z:chr1\tiv:i:1",
   "r1\t100\t0\t100\t-\t<s3<b1<s2<s1\t400\t20\t120\t100\t100\t60\tbo:i:1\tsn:Z:chr1\tiv:i:0",
   "r0\t100\t0\t100\t+\t>s2>b1>s3\t300\t10\t110\t100\t100\t60\ttp:A:P\tbo:i:2\tsn:Z:chr1\tiv:i:0",
   "r3\t100\t0\t100\t+\t>u1\t50\t0\t50\t50\t50\t60\tbo:i:-1\tsn:Z:NA\tiv:i:0"]

def stepsT : List (Bool × Str) := [(true, "s1".toList), (false, "b1".toList), (true, "s22".toList)]
example : Anchored (pathTokens (stepsT.flatMap (fun x => Gaftools.Proofs.Glue.orTok x.1 ++ x.2))) :=
  anchored_of_steps stepsT (by unfold Gaftools.Proofs.Glue.NoOr; decide)
example : stepsT.flatMap (fun x => Gaftools.Proofs.Glue.orTok x.1 ++ x.2) = ">s1<b1>s22".toList := by decide
/-- `Anchored` does exclude something: a path that starts with a name -/
example : ¬ Anchored (pathTokens "s1>s2".toList) := by
  have h' : pathTokens "s1>s2".toList = ["s1".toList, ['>'], "s2".toList] := by decide
  rw [h']
  intro h
  rcases h with h | ⟨o, h, ho⟩ | ⟨o, nm, rs, h, ho, _⟩
  · simp at h
  · simp at h
  · injection h with h1 _
    subst h1
    revert ho; decide
end A24

/-! ## TieA26 : the command-line layer -/
section A26
open Gaftools.Cli Gaftools.Gen Gaftools.TieA26
open Gaftools.Gen.CliArgs (PyV ArgDecl Ns Module)

example : CliArgs.modules.map (·.name) = Sub.all.map Sub.name := modules_gen
example : CliArgs.modules.map (·.name) = ["find_path", "index", "order_gfa", "phase", "realign", "sort", "stat", "view"] := by decide
example : (genModule .sort).name = Sub.sort.name := genModule_name .sort
example : CliArgs.moduleOf CliArgs.modules (.moduleObj Sub.realign.name) = some (genModule .realign) := moduleOf_gen .realign
example : (genModule .realign).entry = "run_realign" ∧ (genModule .view).entry = "run" ∧ (genModule .realign).arguments.length = 5 := by decide
example : Sub.ofName? "order_gfa" = some .order_gfa := (ofName_gen "order_gfa" .order_gfa).2 ⟨by decide, rfl⟩
example : "sort" ∈ CliArgs.modules.map (·.name) ∧ "sort" = Sub.sort.name := (ofName_gen "sort" .sort).1 (by decide)
example : Sub.ofName? "sorted" = none := by decide

example : tableOf CliArgs.topAddHelp CliArgs.topArguments = some topTable := topTable_gen
example : tableOf CliArgs.subAddHelp (genModule .view).arguments = some (table .view) := table_gen .view
example : tableOf CliArgs.subAddHelp (genModule .order_gfa).arguments = some (table .order_gfa) := table_gen .order_gfa
example : positionalsOf (genModule .realign).arguments = some (positionals .realign) := positionals_gen .realign
example : initialNs CliArgs.topArguments [] = [("debug", .bool false)] := topNamespace_gen
/-- the reading is not constant, and it refuses what the model cannot say -/
example : tableOf true (genModule .view).arguments ≠ tableOf true (genModule .sort).arguments
    ∧ (tableOf true (genModule .view).arguments).map List.length = some 7
    ∧ positionalsOf (genModule .realign).arguments = some ["gaf", "graph", "fasta"]
    ∧ tableOf true [{ flags := ["-x"], nargs := some "+" }] = none
    ∧ tableOf true [{ flags := ["-x", "--ex-why"], type := some "int" }] = some [helpOpt, ⟨["-x", "--ex-why"], .storeInt "ex_why"⟩] := by decide

/-- `view x.gaf -n s1 -g g.gfa -n s2 -f stable`, as stored values -/
def evsV : List Event := [("nodes", .str "s1"), ("gfa", .str "g.gfa"), ("nodes", .str "s2"), ("format", .str "stable")]
def optsV : ViewOpts := { gaf_path := "x.gaf", gfa := some "g.gfa", nodes := ["s1", "s2"], format := some "stable" }
example : nsOf (kwargsOf (.view optsV)) = evsV.foldl (applyEvent (genModule .view).arguments) (initialNs (genModule .view).arguments ["x.gaf"]) :=
  namespace_gen .view ["x.gaf"] evsV (.view optsV) (by decide)
example : evsV.foldl (applyEvent (genModule .view).arguments) (initialNs (genModule .view).arguments ["x.gaf"]) =
    [("gaf_path", .str "x.gaf"), ("gfa", .str "g.gfa"), ("output", .none), ("index", .none), ("nodes", .list ["s1", "s2"]), ("regions", .list []),
     ("format", .str "stable")] := by decide
/-- `realign a.gaf g.gfa r.fa -c 4 -o out`, with an event of the wrong kind for `cores` (ignored by both sides) -/
def evsR : List Event := [("cores", .int 4), ("output", .str "out"), ("cores", .str "seven"), ("bogus", .flag)]
example : nsOf (kwargsOf (.realign { gaf := "a.gaf", graph := "g.gfa", fasta := "r.fa", output := some "out", cores := 4 })) =
    evsR.foldl (applyEvent (genModule .realign).arguments) (initialNs (genModule .realign).arguments ["a.gaf", "g.gfa", "r.fa"]) :=
  namespace_gen .realign ["a.gaf", "g.gfa", "r.fa"] evsR _ (by decide)
example : nsOf (kwargsOf (.order_gfa { gfa_filename := "g.gfa" })) = initialNs (genModule .order_gfa).arguments ["g.gfa"] :=
  defaults_gen .order_gfa ["g.gfa"] _ (by decide)
example : initialNs (genModule .order_gfa).arguments ["g.gfa"] =
    [("chromosome_order", .str ""), ("with_sequence", .bool false), ("gfa_filename", .str "g.gfa"), ("outdir", .str "./out"), ("by_chrom", .bool false)] := by decide
example : nsOf (kwargsOf (.phase { gaf_file := "a.gaf", tsv_file := "h.tsv" })) = initialNs (genModule .phase).arguments ["a.gaf", "h.tsv"] :=
  defaults_gen .phase ["a.gaf", "h.tsv"] _ (by decide)
example : initialNs (genModule .phase).arguments ["a.gaf", "h.tsv"] = [("gaf_file", .str "a.gaf"), ("tsv_file", .str "h.tsv"), ("output", .stdoutObject)] := by decide

def argvR : List String := ["--debug", "realign", "--cores=4", "a.gaf", "-oout", "g.gfa", "r.fa"]
def parsedR : Parsed := ⟨true, .realign { gaf := "a.gaf", graph := "g.gfa", fasta := "r.fa", output := some "out", cores := 4 }⟩
theorem argvR_parses : parseArgs argvR = .ok parsedR := by decide +kernel
example : ∃ t, parseTrace argvR = .ok t ∧ t.sub = parsedR.opts.sub ∧ t.debug = parsedR.debug ∧
      nsOf (kwargsOf parsedR.opts) = t.st.evs.foldl (applyEvent (genModule parsedR.opts.sub).arguments) (initialNs (genModule parsedR.opts.sub).arguments t.st.pos) :=
  namespace_of_parse argvR parsedR argvR_parses
example : nsOf (kwargsOf parsedR.opts) = [("gaf", .str "a.gaf"), ("graph", .str "g.gfa"), ("fasta", .str "r.fa"), ("output", .str "out"), ("cores", .int 4)] := by decide

/-- `validate`: each message of `view` and of `sort`, and acceptance -/
def pBadFormat : Parsed := ⟨false, .view { gaf_path := "x.gaf", format := some "bogus", gfa := some "g.gfa" }⟩
def pBoth : Parsed := ⟨false, .view { gaf_path := "x.gaf", nodes := ["s1"], regions := ["chr1:1-5"] }⟩
def pNoGfa : Parsed := ⟨true, .view { gaf_path := "x.gaf", format := some "stable" }⟩
def pViewOk : Parsed := ⟨true, .view optsV⟩
def pBgzip : Parsed := ⟨false, .sort { gaf := "a.gaf", gfa := "g.gfa", bgzip := true }⟩
def pOutind : Parsed := ⟨false, .sort { gaf := "a.gaf", gfa := "g.gfa", outind := some "a.gsi" }⟩
def pSortOk : Parsed := ⟨false, .sort { gaf := "a.gaf", gfa := "g.gfa", outgaf := some "o.gaf.gz", outind := some "o.gsi", bgzip := true }⟩
example : runValidate (genModule pBadFormat.opts.sub) (parsedArgs pBadFormat) = .ok (Cli.validate pBadFormat.opts) := validate_gen pBadFormat
example : runValidate (genModule pBoth.opts.sub) (parsedArgs pBoth) = .ok (Cli.validate pBoth.opts) := validate_gen pBoth
example : runValidate (genModule pNoGfa.opts.sub) (parsedArgs pNoGfa) = .ok (Cli.validate pNoGfa.opts) := validate_gen pNoGfa
example : runValidate (genModule pViewOk.opts.sub) (parsedArgs pViewOk) = .ok (Cli.validate pViewOk.opts) := validate_gen pViewOk
example : runValidate (genModule pBgzip.opts.sub) (parsedArgs pBgzip) = .ok (Cli.validate pBgzip.opts) := validate_gen pBgzip
example : runValidate (genModule pOutind.opts.sub) (parsedArgs pOutind) = .ok (Cli.validate pOutind.opts) := validate_gen pOutind
example : runValidate (genModule parsedR.opts.sub) (parsedArgs parsedR) = .ok (Cli.validate parsedR.opts) := validate_gen parsedR
example : runValidate (genModule .view) (parsedArgs pBadFormat) = .ok (some "--format only accepts unstable or stable as input.")
    ∧ runValidate (genModule .view) (parsedArgs pBoth) = .ok (some "provide either of the --regions and --nodes options and not both.")
    ∧ runValidate (genModule .view) (parsedArgs pNoGfa) = .ok (some "GFA file has to be provided along with --format.")
    ∧ runValidate (genModule .view) (parsedArgs pViewOk) = .ok none
    ∧ runValidate (genModule .sort) (parsedArgs pBgzip) = .ok (some "--bgzip flag has been specified but not output path has been defined. Please define the output path.")
    ∧ runValidate (genModule .sort) (parsedArgs pOutind) = .ok (some "index path specified but no output gaf path. Please provide an output path.")
    ∧ runValidate (genModule .sort) (parsedArgs pSortOk) = .ok none := by decide
/-- the generated `validate` does raise on a namespace that lacks the attribute: it reads it -/
example : CliArgs.validate_view [("format", .str "stable")] = .error "AttributeError" := by decide
example : (genModule .realign).validate.isNone = (Sub.realign == .realign || Sub.realign == .order_gfa) := validate_absent .realign
example : (genModule .realign).validate.isNone = true ∧ (genModule .stat).validate.isNone = false := by decide

example : entryPoint .sort = CliArgs.cliPackage ++ "." ++ (genModule .sort).name ++ "." ++ (genModule .sort).entry := entryPoint_gen .sort
example : entryPoint .sort = "gaftools.cli.sort.run_sort" ∧ entryPoint .order_gfa = "gaftools.cli.order_gfa.run_order_gfa" := by decide
example : (∀ k ∈ (kwargsOf pSortOk.opts).map (·.1), k ∈ (genModule pSortOk.opts.sub).entryParams.map (·.1)) ∧
    (∀ q ∈ (genModule pSortOk.opts.sub).entryParams, q.2 = false → q.1 ∈ (kwargsOf pSortOk.opts).map (·.1)) ∧
    ((kwargsOf pSortOk.opts).map (·.1)).Nodup := kwargs_fit_params pSortOk.opts
example : (kwargsOf pSortOk.opts).map (·.1) = ["gaf", "gfa", "outgaf", "outind", "bgzip"]
    ∧ (genModule .sort).entryParams = [("gfa", false), ("gaf", false), ("outgaf", true), ("outind", true), ("bgzip", true)] := by decide

example : CliArgs.runMain (parsedArgs pViewOk) = expected pViewOk := runMain_gen pViewOk
example : CliArgs.runMain (parsedArgs pNoGfa) = expected pNoGfa := runMain_gen pNoGfa
example : CliArgs.runMain (parsedArgs pBgzip) = expected pBgzip := runMain_gen pBgzip
example : CliArgs.runMain (parsedArgs parsedR) = expected parsedR := runMain_gen parsedR
example : CliArgs.runMain (parsedArgs pViewOk) = .call "gaftools.cli.view.run"
      [("gaf_path", .str "x.gaf"), ("gfa", .str "g.gfa"), ("output", .none), ("index", .none), ("nodes", .list ["s1", "s2"]), ("regions", .list []),
       ("format", .str "stable")] "CommandLineError" 1
    ∧ CliArgs.runMain (parsedArgs pNoGfa) = .usage "GFA file has to be provided along with --format."
    ∧ CliArgs.runMain (parsedArgs parsedR) = .call "gaftools.cli.realign.run_realign"
      [("gaf", .str "a.gaf"), ("graph", .str "g.gfa"), ("fasta", .str "r.fa"), ("output", .str "out"), ("cores", .int 4)] "CommandLineError" 1 := by decide
/-- `runMain` looks at its namespace: without `subparser` the `validate` branch raises; with a module that is none it raises -/
example : CliArgs.runMain [("debug", .bool false), ("module", .moduleObj "view")] = .raised "AttributeError"
    ∧ CliArgs.runMain [("debug", .bool false), ("module", .str "view"), ("subparser", .parserObj "view")] = .raised "AttributeError" := by decide

example : outcomeOf (dispatch argvR) = some (CliArgs.runMain (parsedArgs parsedR)) ∧ (∀ d c, dispatch argvR = .call d c → d = parsedR.debug) :=
  dispatch_gen argvR parsedR argvR_parses
def argvS : List String := ["sort", "a.gaf", "g.gfa", "--bgzip"]
theorem argvS_parses : parseArgs argvS = .ok pBgzip := by decide +kernel
example : outcomeOf (dispatch argvS) = some (CliArgs.runMain (parsedArgs pBgzip)) ∧ (∀ d c, dispatch argvS = .call d c → d = pBgzip.debug) :=
  dispatch_gen argvS pBgzip argvS_parses
example : dispatch argvS = .usage (.refused "--bgzip flag has been specified but not output path has been defined. Please define the output path.") := by
  decide +kernel

example : CliArgs.runMain (initialNs CliArgs.topArguments [] |>.map (fun q => (q.1, if q.1 == "debug" then .bool true else q.2))) =
      .usage "Please provide the name of a subcommand to run" ∧ scanTop [] true false = .error (.usage .noSubcommand) := noSubcommand_gen true

/-- exit statuses: a refusal by `validate`, a refusal by the parser, a `CommandLineError` of `view.run` -/
example : (effect argvS none false).status = some CliArgs.parserErrorStatus :=
  usage_status_gen argvS none false (.refused "--bgzip flag has been specified but not output path has been defined. Please define the output path.")
    (by decide +kernel)
example : (effect ["index", "-o", "x.gvi", "a.gaf"] none false).status = some CliArgs.parserErrorStatus :=
  usage_status_gen _ none false .required (by decide +kernel)
example : (effect argvS none false).status = some 2 ∧ (effect ["--version"] none false).status = some 0 := by decide +kernel
def argvN : List String := ["view", "a.gaf", "-n", "s1", "-o", "sel.gaf"]
def optsN : ViewOpts := { gaf_path := "a.gaf", nodes := ["s1"], output := some "sel.gaf" }
example : ∃ fn kw st, CliArgs.runMain (parsedArgs ⟨false, .view optsN⟩) = .call fn kw "CommandLineError" st ∧ (effect argvN (some false) false).status = some st :=
  commandLineError_status_gen argvN (some false) false false optsN
    "No index found. Please provide the path to the index or create one with gaftools index." (by decide +kernel) (by decide)
example : (effect argvN (some false) false).status = some 1 ∧ (effect argvN (some false) true).status = none
    ∧ (effect argvN (some false) false).opened = some "sel.gaf" := by decide +kernel
def argvF : List String := ["view", "a.gaf", "-f", "stable", "--gfa=g.gfa"]
example : ∃ fn kw st, CliArgs.runMain (parsedArgs ⟨false, .view { gaf_path := "a.gaf", format := some "stable", gfa := some "g.gfa" }⟩) = .call fn kw "CommandLineError" st ∧
      (effect argvF (some true) false).status = some st :=
  commandLineError_status_gen argvF (some true) false false _ "Input GAF already has stable coordinates. Please remove the --format stable option"
    (by decide +kernel) (by decide)
/-- (not covered by a theorem of the file, only checked here) `--debug` on the top-level declarations under the same reading -/
example : applyEvent CliArgs.topArguments (initialNs CliArgs.topArguments []) ("debug", .flag) = [("debug", .bool true)] := by decide
end A26

end Gaftools.NonVacuousD
